(* Proofs about the pointer-level model of the Touchstone loader's own buffers (TsMem.v): the invariant
   MInv (ledger = exactly the blocks the parser state points to, no duplicates; text buffer: allocation covers
   length + 1, the first length cells initialised; value vector: NULL iff allocation 0, count <= allocation, the
   first count cells initialised; reference vector: every cell initialised) and the link between the parser
   state and the reference vector (allocated exactly when the header says so, as many cells as ports) are
   preserved by every raw token whatever request fails; out: empties the ledger.
   Nothing here changes a model: TsTok.v, TsParse.v, TsMem.v are only read. *)
Require Import List NArith ZArith Bool Lia Arith.
Import ListNotations.
Require Import LV.Files.TsTok LV.Files.TsParse LV.Mem.Alloc LV.Mem.AllocProofs LV.Mem.PropList LV.Mem.Owned LV.Mem.PropListProofs LV.Files.TsMem.
Open Scope Z_scope.

(* ==================================================================================================== *)

(* ---- checked arrays ------------------------------------------------------------------------------------ *)
Definition arr_ok {A} (a : carray A) : Prop := calloc a = Z.of_nat (length (cells a)).
Definition initp {A} (a : carray A) (n : nat) : Prop :=
  forall i, (i < n)%nat -> exists v, nth_error (cells a) i = Some (Init v).

Lemma upd_length : forall A (l : list A) n v, length (upd l n v) = length l.
Proof. induction l; destruct n; simpl; intros; auto. Qed.
Lemma nth_error_upd_same : forall A (l : list A) n v, (n < length l)%nat -> nth_error (upd l n v) n = Some v.
Proof. induction l; destruct n; simpl; intros; try lia; auto. apply IHl; lia. Qed.
Lemma nth_error_upd_other : forall A (l : list A) n j v, j <> n -> nth_error (upd l n v) j = nth_error l j.
Proof. induction l; destruct n; destruct j; simpl; intros; auto; try congruence. Qed.

Lemma wr_spec : forall A (a : carray A) i v, arr_ok a -> (i < length (cells a))%nat ->
  exists a', wr a (Z.of_nat i) v = Alloc.Ok a' /\ arr_ok a' /\ calloc a' = calloc a /\
             length (cells a') = length (cells a) /\
             nth_error (cells a') i = Some (Init v) /\
             (forall j, j <> i -> nth_error (cells a') j = nth_error (cells a) j).
Proof.
  intros A a i v Hok Hi. unfold wr, arr_ok in *.
  replace ((Z.of_nat i <? 0) || (calloc a <=? Z.of_nat i)) with false.
  2:{ symmetry. apply orb_false_iff. split; [apply Z.ltb_ge; lia | apply Z.leb_gt; lia]. }
  eexists; split; [reflexivity|]. simpl. rewrite Nat2Z.id, upd_length.
  repeat split; auto.
  - apply nth_error_upd_same; assumption.
  - intros j Hj. apply nth_error_upd_other; assumption.
Qed.

Lemma wr_initp : forall A (a a' : carray A) i v n, 
  nth_error (cells a') i = Some (Init v) -> (forall j, j <> i -> nth_error (cells a') j = nth_error (cells a) j) ->
  initp a n -> initp a' n /\ ((i <= n)%nat -> initp a' (S i) -> True).
Proof.
  intros A a a' i v n Hs Ho Hi. split; auto. intros j Hj. destruct (Nat.eq_dec j i) as [->|Hne]; [eauto|].
  rewrite Ho by assumption. apply Hi; assumption.
Qed.

Lemma wr_initp_ext : forall A (a a' : carray A) i v, 
  nth_error (cells a') i = Some (Init v) -> (forall j, j <> i -> nth_error (cells a') j = nth_error (cells a) j) ->
  initp a i -> initp a' (S i).
Proof.
  intros A a a' i v Hs Ho Hi j Hj. destruct (Nat.eq_dec j i) as [->|Hne]; [eauto|].
  rewrite Ho by assumption. apply Hi; lia.
Qed.

Lemma rd_ok : forall A (a : carray A) i n, arr_ok a -> initp a n -> (i < n)%nat -> (n <= length (cells a))%nat ->
  exists v, rd a (Z.of_nat i) = Alloc.Ok v.
Proof.
  intros A a i n Hok Hi Hlt Hle. unfold rd, arr_ok in *.
  replace ((Z.of_nat i <? 0) || (calloc a <=? Z.of_nat i)) with false.
  2:{ symmetry. apply orb_false_iff. split; [apply Z.ltb_ge; lia | apply Z.leb_gt; lia]. }
  rewrite Nat2Z.id. destruct (Hi i Hlt) as [v Hv]. rewrite Hv. eauto.
Qed.

Lemma rd_seq_ok : forall A (a : carray A) n, arr_ok a -> initp a n -> (n <= length (cells a))%nat ->
  forall k lo, (lo + k <= n)%nat -> rd_seq a (Z.of_nat lo) k = Alloc.Ok tt.
Proof.
  intros A a n Hok Hi Hle. induction k; intros lo Hlo; simpl; auto.
  destruct (rd_ok A a lo n Hok Hi ltac:(lia) Hle) as [v Hv]. rewrite Hv.
  replace (Z.of_nat lo + 1) with (Z.of_nat (S lo)) by lia. apply IHk. lia.
Qed.

Lemma grow_ok : forall A (a : carray A) n, arr_ok a -> calloc a <= n -> 
  arr_ok (grow a n) /\ calloc (grow a n) = n /\ (forall k, initp a k -> initp (grow a n) k).
Proof.
  intros A a n Hok Hle. unfold grow, arr_ok in *; simpl. split; [|split; auto].
  - rewrite app_length, repeat_length. lia.
  - intros k Hk i Hi. destruct (Hk i Hi) as [v Hv]. exists v. simpl. rewrite nth_error_app1; auto.
    apply nth_error_Some. congruence.
Qed.

Lemma fresh_arr_ok : forall A n, 0 <= n -> arr_ok (@fresh_arr A n) /\ initp (@fresh_arr A n) 0.
Proof. intros A n Hn; unfold arr_ok, fresh_arr; simpl. rewrite repeat_length. split; [lia | intros i Hi; lia]. Qed.

Lemma zero_arr_ok : forall A (v : A) n, 0 <= n -> arr_ok (zero_arr v n) /\ length (cells (zero_arr v n)) = Z.to_nat n /\
  initp (zero_arr v n) (Z.to_nat n).
Proof.
  intros A v n Hn; unfold arr_ok, zero_arr; simpl. rewrite repeat_length. split; [lia|]. split; auto.
  intros i Hi. exists v. simpl. rewrite nth_error_repeat; auto.
Qed.

(* ---- the monad --------------------------------------------------------------------------------------------- *)
Lemma safe_lift : forall A (r : res A) a s (Q : A -> astate -> Prop), r = Alloc.Ok a -> Q a s -> safe (lift r) s Q.
Proof. intros; subst; exists a, s; split; auto. Qed.

Lemma safe_touch : forall b s (Q : unit -> astate -> Prop), In b (ids s) -> Q tt s -> safe (touch (Some b)) s Q.
Proof. intros b s Q Hin HQ. exists tt, s. split; auto. unfold touch. apply is_live_iff in Hin. rewrite Hin. reflexivity. Qed.

(* ==================================================================================================== *)

Definition olist (p : option block_id) : list block_id := match p with Some b => [b] | None => [] end.
Definition blocks (m : tmem) : list block_id := olist (t_text m) ++ olist (t_vv m) ++ olist (t_ref m).

Definition Led (m : tmem) (s : astate) : Prop :=
  wf s /\ NoDup (blocks m) /\ (forall x, In x (ids s) <-> In x (blocks m)) /\ t_text m <> None.
Definition TextOk (m : tmem) : Prop :=
  arr_ok (t_tarr m) /\ Z.of_nat (t_len m) + 1 <= calloc (t_tarr m) /\ initp (t_tarr m) (t_len m).
Definition VOk (m : tmem) : Prop :=
  arr_ok (t_varr m) /\ (t_vv m = None -> calloc (t_varr m) = 0) /\
  Z.of_nat (t_vcount m) <= calloc (t_varr m) /\ initp (t_varr m) (t_vcount m).
Definition ROk (m : tmem) : Prop :=
  arr_ok (t_rarr m) /\ initp (t_rarr m) (length (cells (t_rarr m))).
Definition MInv (m : tmem) (s : astate) : Prop := Led m s /\ TextOk m /\ VOk m /\ ROk m.

(* what an operation on one buffer leaves alone *)
Definition same_vr (m m' : tmem) : Prop :=
  t_vv m' = t_vv m /\ t_varr m' = t_varr m /\ t_vcount m' = t_vcount m /\ t_ref m' = t_ref m /\ t_rarr m' = t_rarr m.
Definition same_tr (m m' : tmem) : Prop :=
  t_text m' = t_text m /\ t_tarr m' = t_tarr m /\ t_len m' = t_len m /\ t_ref m' = t_ref m /\ t_rarr m' = t_rarr m.
Definition same_tv (m m' : tmem) : Prop :=
  t_text m' = t_text m /\ t_tarr m' = t_tarr m /\ t_len m' = t_len m /\
  t_vv m' = t_vv m /\ t_varr m' = t_varr m /\ t_vcount m' = t_vcount m.

Lemma same_vr_refl : forall m, same_vr m m. Proof. unfold same_vr; auto. Qed.
Lemma same_vr_trans : forall a b c, same_vr a b -> same_vr b c -> same_vr a c.
Proof. unfold same_vr; intros a b c (A1&A2&A3&A4&A5) (B1&B2&B3&B4&B5). repeat split; congruence. Qed.

Ltac nd :=
  repeat match goal with
  | H : NoDup (_ :: _) |- _ => inversion H; clear H; subst
  end.

(* replacing the text block by a fresh one *)
Lemma led_swap_text : forall m s s' b a,
  Led m s -> wf s' -> ~ In b (ids s) ->
  (forall x, In x (ids s') <-> x = b \/ (In x (ids s) /\ Some x <> t_text m)) ->
  Led (set_text m (Some b) a) s'.
Proof.
  intros m s s' b a (Hw & Hnd & Hiff & Ht) Hw' Hnb Hi'. unfold Led, blocks in *; simpl.
  destruct (t_text m) as [old|]; [|congruence]. simpl in *.
  assert (Hb : ~ In b (olist (t_vv m) ++ olist (t_ref m))).
  { intro Hin. apply Hnb. apply Hiff. right; assumption. }
  inversion Hnd; subst. refine (conj Hw' (conj _ (conj (fun x => conj _ _) _))); try discriminate.
  - constructor; auto.
  - intro Hx. apply Hi' in Hx. destruct Hx as [Hx|[Hx Hne]]; [left; auto|].
    apply Hiff in Hx. destruct Hx as [Hx|Hx]; [subst; congruence | right; auto].
  - intros [Hx|Hx]; apply Hi'; [left; auto|]. right. split; [apply Hiff; right; auto|].
    intro He; inversion He; subst; auto.
Qed.

Lemma led_swap_vv : forall m s s' b a,
  Led m s -> wf s' -> ~ In b (ids s) ->
  (forall x, In x (ids s') <-> x = b \/ (In x (ids s) /\ Some x <> t_vv m)) ->
  Led (set_vv m (Some b) a) s'.
Proof.
  intros m s s' b a (Hw & Hnd & Hiff & Ht) Hw' Hnb Hi'. unfold Led, blocks in *; simpl.
  destruct (t_text m) as [tx|]; [|congruence]. simpl in *.
  assert (Hb : b <> tx /\ ~ In b (olist (t_ref m))).
  { split; [intro; subst; apply Hnb; apply Hiff; left; auto|].
    intro Hin. apply Hnb. apply Hiff. right. apply in_or_app; right; assumption. }
  destruct Hb as [Hb1 Hb2].
  destruct (t_vv m) as [old|]; simpl in *.
  - inversion Hnd as [|? ? Hn1 Hnd1]; subst. inversion Hnd1 as [|? ? Hn2 Hnd2]; subst. simpl in Hn1.
    refine (conj Hw' (conj _ (conj (fun x => conj _ _) _))); try discriminate.
    + constructor; [simpl; intros [He|He]; [congruence | apply Hn1; right; auto]|]. constructor; auto.
    + intro Hx. apply Hi' in Hx. destruct Hx as [Hx|[Hx Hne]]; [right; left; auto|].
      apply Hiff in Hx. destruct Hx as [Hx|[Hx|Hx]]; [left; auto | subst; congruence | right; right; auto].
    + intros [Hx|[Hx|Hx]]; apply Hi'; [right | left; auto | right].
      * split; [apply Hiff; left; auto|]. intro He; inversion He; subst. apply Hn1; left; auto.
      * split; [apply Hiff; right; right; auto|]. intro He; inversion He; subst. auto.
  - inversion Hnd as [|? ? Hn1 Hnd1]; subst.
    refine (conj Hw' (conj _ (conj (fun x => conj _ _) _))); try discriminate.
    + constructor; [simpl; intros [He|He]; [congruence | apply Hn1; auto]|]. constructor; auto.
    + intro Hx. apply Hi' in Hx. destruct Hx as [Hx|[Hx Hne]]; [right; left; auto|].
      apply Hiff in Hx. destruct Hx as [Hx|Hx]; [left; auto | right; right; auto].
    + intros [Hx|[Hx|Hx]]; apply Hi'; [right | left; auto | right].
      * split; [apply Hiff; left; auto | discriminate].
      * split; [apply Hiff; right; auto | discriminate].
Qed.

Lemma led_add_ref : forall m s s' b a,
  Led m s -> t_ref m = None -> wf s' -> ~ In b (ids s) -> ids s' = b :: ids s ->
  Led (set_ref m (Some b) a) s'.
Proof.
  intros m s s' b a (Hw & Hnd & Hiff & Ht) Hr Hw' Hnb Hi'. unfold Led, blocks in *; simpl. rewrite Hr in *. simpl in *.
  rewrite app_nil_r in *.
  refine (conj Hw' (conj _ (conj (fun x => conj _ _) Ht))).
  - replace (olist (t_text m) ++ olist (t_vv m) ++ [b]) with ((olist (t_text m) ++ olist (t_vv m)) ++ [b]) by (rewrite app_assoc; reflexivity).
    apply NoDup_app_intro'; auto. { repeat constructor; simpl; tauto. }
    intros x Hx [He|[]]; subst. apply Hnb. apply Hiff. assumption.
  - rewrite Hi'. intros [Hx|Hx]; [subst; rewrite app_assoc; apply in_or_app; right; left; auto|].
    apply Hiff in Hx. rewrite app_assoc. apply in_or_app; left; assumption.
  - rewrite Hi'. rewrite app_assoc. intro Hx. apply in_app_or in Hx. destruct Hx as [Hx|[Hx|[]]]; [right; apply Hiff; auto | left; auto].
Qed.

Lemma led_text_live : forall m s b, Led m s -> t_text m = Some b -> In b (ids s).
Proof. intros m s b (_&_&Hiff&_) H. apply Hiff. unfold blocks. rewrite H. left; reflexivity. Qed.
Lemma led_vv_live : forall m s b, Led m s -> t_vv m = Some b -> In b (ids s).
Proof. intros m s b (_&_&Hiff&_) H. apply Hiff. unfold blocks. rewrite H. apply in_or_app; right. left; reflexivity. Qed.
Lemma led_ref_live : forall m s b, Led m s -> t_ref m = Some b -> In b (ids s).
Proof. intros m s b (_&_&Hiff&_) H. apply Hiff. unfold blocks. rewrite H. apply in_or_app; right. apply in_or_app; right. left; reflexivity. Qed.

(* a change of contents / counters only *)
Lemma led_same_ptrs : forall m m' s, Led m s -> t_text m' = t_text m -> t_vv m' = t_vv m -> t_ref m' = t_ref m -> Led m' s.
Proof. unfold Led, blocks; intros m m' s H A B C. rewrite A, B, C. exact H. Qed.

(* ==================================================================================================== *)

Lemma led_same_ids : forall m s s', Led m s -> wf s' -> ids s' = ids s -> Led m s'.
Proof. intros m s s' (Hw&Hnd&Hiff&Ht) Hw' He. unfold Led. rewrite He. auto. Qed.

Lemma minv_same_ids : forall m s s', MInv m s -> wf s' -> ids s' = ids s -> MInv m s'.
Proof. intros m s s' (L&T&V&R) Hw He. split; [eapply led_same_ids; eauto | auto]. Qed.

(* ---- token text ------------------------------------------------------------------------------------------- *)
Lemma safe_add_char : forall m c s, MInv m s ->
  safe (add_char_m m c) s (fun o s' =>
    match o with
    | None => MInv m s'
    | Some m' => MInv m' s' /\ t_len m' = S (t_len m) /\ same_vr m m'
    end).
Proof.
  intros m c s HI. unfold add_char_m. apply safe_bind.
  assert (H1 : safe (if calloc (t_tarr m) <=? Z.of_nat (t_len m) + 1
                     then p <- realloc (t_text m) (2 * calloc (t_tarr m));;
                          match p with
                          | Some b => ret (Some (set_text m (Some b) (grow (t_tarr m) (2 * calloc (t_tarr m)))))
                          | None => ret None
                          end
                     else ret (Some m)) s
                (fun o s1 => match o with
                             | None => MInv m s1
                             | Some m' => MInv m' s1 /\ t_len m' = t_len m /\ Z.of_nat (t_len m) + 1 < calloc (t_tarr m') /\ same_vr m m'
                             end)).
  { pose proof HI as HI0. destruct HI as (L&T&V&R). pose proof L as (Hw&Hnd&Hiff&Ht). destruct T as (Ta&Tl&Ti).
    destruct (Z.leb_spec (calloc (t_tarr m)) (Z.of_nat (t_len m) + 1)).
    - apply safe_bind. eapply safe_weaken; [apply safe_realloc; [exact Hw|]|].
      { intros b Hb. eapply led_text_live; eauto. }
      intros [b|] s1 [Hw1 Hp].
      + destruct Hp as (Hb&Hnb&Hfr&Hi1). apply safe_ret.
        destruct (grow_ok _ (t_tarr m) (2 * calloc (t_tarr m)) Ta ltac:(lia)) as (Ga&Gc&Gi).
        split; [|split; [reflexivity|split; [unfold set_text; cbn [t_tarr]; rewrite Gc; lia | unfold same_vr; simpl; auto]]].
        split; [eapply led_swap_text; eauto|]. 
        split; [|split; [exact V | exact R]].
        unfold TextOk, set_text; cbn [t_tarr t_len]. split; [exact Ga|]. split; [rewrite Gc; lia | apply Gi; exact Ti].
      + destruct Hp as (Hids&_). apply safe_ret. eapply minv_same_ids; eauto.
    - apply safe_ret. split; [exact HI0|]. split; [reflexivity|]. split; [lia | apply same_vr_refl]. }
  eapply safe_weaken; [exact H1|]. clear H1.
  intros [m'|] s1; [|intro H; apply safe_ret; exact H].
  intros (HI'&Hl&Hroom&Hs). destruct HI' as (L&T&V&R). pose proof L as (Hw&Hnd&Hiff&Ht). destruct T as (Ta&Tl&Ti).
  destruct (t_text m') as [b|] eqn:Eb; [|congruence].
  apply safe_bind. apply safe_touch; [eapply led_text_live; eauto|].
  apply safe_bind.
  destruct (wr_spec _ (t_tarr m') (t_len m') c Ta) as (a'&Hwr&Ha'&Hc'&Hlen'&Hsame&Hoth).
  { unfold arr_ok in Ta. lia. }
  eapply safe_lift; [exact Hwr|]. apply safe_ret.
  split; [|split; [simpl; lia|]].
  - split; [eapply led_same_ptrs; eauto|]. split; [|split; [exact V | exact R]].
    unfold TextOk; simpl. split; [exact Ha'|]. split; [rewrite Hc'; lia|].
    eapply wr_initp_ext; eauto.
  - destruct Hs as (A1&A2&A3&A4&A5). unfold same_vr; simpl. auto.
Qed.

Lemma safe_add_chars : forall t m s, MInv m s ->
  safe (add_chars_m m t) s (fun r s' => MInv (snd r) s' /\ same_vr m (snd r)).
Proof.
  induction t as [|c t IH]; intros m s HI; simpl.
  - apply safe_ret. split; [exact HI | apply same_vr_refl].
  - apply safe_bind. eapply safe_weaken; [apply safe_add_char; exact HI|].
    intros [m'|] s1 H.
    + destruct H as (HI'&_&Hs). eapply safe_weaken; [apply IH; exact HI'|].
      intros r s2 (H2&Hs2). split; [exact H2 | eapply same_vr_trans; eauto].
    + apply safe_ret. split; [exact H | apply same_vr_refl].
Qed.

Lemma safe_end_text : forall m s, MInv m s ->
  safe (end_text_m m) s (fun m' s' => s' = s /\ MInv m' s' /\ same_vr m m' /\ t_len m' = t_len m /\ initp (t_tarr m') (S (t_len m'))).
Proof.
  intros m s HI. unfold end_text_m. destruct HI as (L&T&V&R). pose proof L as (Hw&Hnd&Hiff&Ht). destruct T as (Ta&Tl&Ti).
  destruct (t_text m) as [b|] eqn:Eb; [|congruence].
  apply safe_bind. apply safe_touch; [eapply led_text_live; eauto|].
  apply safe_bind.
  destruct (wr_spec _ (t_tarr m) (t_len m) 0%N Ta) as (a'&Hwr&Ha'&Hc'&Hlen'&Hsame&Hoth).
  { unfold arr_ok in Ta. lia. }
  eapply safe_lift; [exact Hwr|]. apply safe_ret.
  assert (Hi' : initp a' (S (t_len m))) by (eapply wr_initp_ext; eauto).
  split; [reflexivity|]. split; [|split; [unfold same_vr; simpl; auto | split; [reflexivity | exact Hi']]].
  split; [eapply led_same_ptrs; eauto|]. split; [|split; [exact V | exact R]].
  unfold TextOk; simpl. split; [exact Ha'|]. split; [rewrite Hc'; lia|].
  intros i Hi. apply Hi'. lia.
Qed.

Lemma safe_read_text : forall m s, MInv m s -> initp (t_tarr m) (S (t_len m)) -> safe (read_text_m m) s (fun _ s' => s' = s).
Proof.
  intros m s HI Hi. unfold read_text_m. destruct HI as (L&T&V&R). pose proof L as (Hw&Hnd&Hiff&Ht). destruct T as (Ta&Tl&Ti).
  destruct (t_text m) as [b|] eqn:Eb; [|congruence].
  apply safe_bind. apply safe_touch; [eapply led_text_live; eauto|].
  eapply safe_lift; [|reflexivity].
  change 0 with (Z.of_nat 0).
  apply (rd_seq_ok _ (t_tarr m) (S (t_len m)) Ta Hi); [unfold arr_ok in Ta; lia|]. simpl. lia.
Qed.

Definition scan_mem (r : scanres) : tmem := match r with ScOk m | ScNoMemKw m | ScNoMemWord m => m end.

Lemma safe_scan_text : forall kw t m s, MInv m s ->
  safe (scan_text_m kw m t) s (fun r s' => MInv (scan_mem r) s' /\ same_vr m (scan_mem r)).
Proof.
  intros kw t m s HI. unfold scan_text_m. apply safe_bind.
  assert (HI0 : MInv (set_len m 0) s).
  { destruct HI as (L&T&V&R). split; [eapply led_same_ptrs; eauto|]. split; [|split; [exact V|exact R]].
    destruct T as (Ta&Tl&Ti). unfold TextOk; simpl. split; [exact Ta|]. split; [lia|]. intros i Hi; lia. }
  eapply safe_weaken; [apply safe_add_chars; exact HI0|].
  intros [ok m1] s1 (H1&Hs1). simpl in *. apply safe_bind.
  eapply safe_weaken; [apply safe_end_text; exact H1|].
  intros m2 s2 (He&H2&Hs2&Hl2&Hi2). rewrite He in *.
  assert (Hs : same_vr m m2).
  { eapply same_vr_trans; [|exact Hs2]. eapply same_vr_trans; [|exact Hs1]. unfold same_vr; simpl; auto. }
  destruct ok.
  - apply safe_bind. eapply safe_weaken; [apply safe_read_text; assumption|].
    intros u s3 He3. rewrite He3. apply safe_ret. simpl. auto.
  - apply safe_ret. destruct kw; simpl; auto.
Qed.

Lemma safe_scan_tok : forall x m s, MInv m s ->
  safe (scan_tok_m m x) s (fun r s' => MInv (scan_mem r) s' /\ same_vr m (scan_mem r)).
Proof.
  intros x m s HI. destruct x as [o| |k|t o| |[t|t|c]]; simpl;
    try (apply safe_scan_text; exact HI); apply safe_ret; simpl; split; auto; apply same_vr_refl.
Qed.

(* ==================================================================================================== *)

Lemma same_tr_refl : forall m, same_tr m m. Proof. unfold same_tr; auto. Qed.
Lemma same_tv_refl : forall m, same_tv m m. Proof. unfold same_tv; intros; repeat split; auto. Qed.

Lemma minv_set_vcount0 : forall m s, MInv m s -> MInv (set_vcount m 0) s.
Proof.
  intros m s (L&T&V&R). split; [eapply led_same_ptrs; eauto|]. split; [exact T|]. split; [|exact R].
  destruct V as (Va&Vn&Vc&Vi). unfold VOk; simpl. split; [exact Va|]. split; [exact Vn|].
  split; [unfold arr_ok in Va; lia | intros i Hi; lia].
Qed.

(* ---- value vector ------------------------------------------------------------------------------------------ *)
Lemma safe_push_value : forall m x s, MInv m s ->
  safe (push_value_m m x) s (fun o s' =>
    match o with
    | None => MInv m s'
    | Some m' => MInv m' s' /\ same_tr m m' /\ t_vcount m' = S (t_vcount m)
    end).
Proof.
  intros m x s HI. unfold push_value_m. apply safe_bind.
  set (na := if calloc (t_varr m) =? 0 then 9 else 2 * calloc (t_varr m)).
  assert (H1 : safe (if calloc (t_varr m) <=? Z.of_nat (t_vcount m)
                     then p <- realloc (t_vv m) (8 * na);;
                          match p with
                          | Some b => ret (Some (set_vv m (Some b) (grow (t_varr m) na)))
                          | None => ret None
                          end
                     else ret (Some m)) s
                (fun o s1 => match o with
                             | None => MInv m s1
                             | Some m' => MInv m' s1 /\ t_vcount m' = t_vcount m /\ Z.of_nat (t_vcount m) < calloc (t_varr m') /\ same_tr m m'
                             end)).
  { pose proof HI as HI0. destruct HI as (L&T&V&R). pose proof L as (Hw&Hnd&Hiff&Ht). destruct V as (Va&Vn&Vc&Vi).
    destruct (Z.leb_spec (calloc (t_varr m)) (Z.of_nat (t_vcount m))).
    - apply safe_bind. eapply safe_weaken; [apply safe_realloc; [exact Hw|]|].
      { intros b Hb. eapply led_vv_live; eauto. }
      intros [b|] s1 [Hw1 Hp].
      + destruct Hp as (Hb&Hnb&Hfr&Hi1). apply safe_ret.
        assert (Hna : calloc (t_varr m) <= na /\ Z.of_nat (t_vcount m) < na).
        { unfold na. unfold arr_ok in Va. destruct (Z.eqb_spec (calloc (t_varr m)) 0); lia. }
        destruct (grow_ok _ (t_varr m) na Va ltac:(lia)) as (Ga&Gc&Gi).
        split; [|split; [reflexivity|split; [unfold set_vv; cbn [t_varr]; rewrite Gc; lia | unfold same_tr; simpl; auto]]].
        split; [eapply led_swap_vv; eauto|].
        split; [exact T|]. split; [|exact R].
        unfold VOk, set_vv; cbn [t_varr t_vv t_vcount]. split; [exact Ga|]. split; [discriminate|].
        split; [rewrite Gc; lia | apply Gi; exact Vi].
      + destruct Hp as (Hids&_). apply safe_ret. eapply minv_same_ids; eauto.
    - apply safe_ret. split; [exact HI0|]. split; [reflexivity|]. split; [lia | apply same_tr_refl]. }
  eapply safe_weaken; [exact H1|]. clear H1.
  intros [m'|] s1; [|intro H; apply safe_ret; exact H].
  intros (HI'&Hl&Hroom&Hs). destruct HI' as (L&T&V&R). pose proof L as (Hw&Hnd&Hiff&Ht). destruct V as (Va&Vn&Vc&Vi).
  destruct (t_vv m') as [b|] eqn:Eb; [|rewrite Vn in Hroom by reflexivity; lia].
  apply safe_bind. apply safe_touch; [eapply led_vv_live; eauto|].
  apply safe_bind.
  destruct (wr_spec _ (t_varr m') (t_vcount m') x Va) as (a'&Hwr&Ha'&Hc'&Hlen'&Hsame&Hoth).
  { unfold arr_ok in Va. lia. }
  eapply safe_lift; [exact Hwr|]. apply safe_ret.
  split; [|split; [|simpl; lia]].
  - split; [eapply led_same_ptrs; eauto|]. split; [exact T|]. split; [|exact R].
    unfold VOk; simpl. split; [exact Ha'|]. split; [rewrite Eb; discriminate|]. split; [rewrite Hc'; lia|].
    eapply wr_initp_ext; eauto.
  - destruct Hs as (A1&A2&A3&A4&A5). unfold same_tr; simpl. auto.
Qed.

Lemma safe_read_values : forall m n s, MInv m s -> (n <= t_vcount m)%nat ->
  safe (read_values_m m n) s (fun _ s' => s' = s).
Proof.
  intros m n s HI Hn. unfold read_values_m. destruct n as [|n]; [apply safe_ret; reflexivity|].
  destruct HI as (L&T&V&R). destruct V as (Va&Vn&Vc&Vi).
  destruct (t_vv m) as [b|] eqn:Eb; [|rewrite Vn in Vc by reflexivity; lia].
  apply safe_bind. apply safe_touch; [eapply led_vv_live; eauto|].
  eapply safe_lift; [|reflexivity].
  change 0 with (Z.of_nat 0).
  apply (rd_seq_ok _ (t_varr m) (t_vcount m) Va Vi); [unfold arr_ok in Va; lia|]. lia.
Qed.

(* ---- reference vector ------------------------------------------------------------------------------------------ *)
Lemma safe_ref_alloc : forall m ports s, MInv m s -> t_ref m = None -> 0 <= ports ->
  safe (ref_alloc_m m ports) s (fun o s' =>
    match o with
    | None => MInv m s'
    | Some m' => MInv m' s' /\ same_tv m m' /\ t_ref m' <> None /\ length (cells (t_rarr m')) = Z.to_nat ports
    end).
Proof.
  intros m ports s HI Hr Hp. unfold ref_alloc_m. pose proof HI as (L&T&V&R). pose proof L as (Hw&_).
  apply safe_bind. eapply safe_weaken; [apply safe_malloc; exact Hw|].
  intros [b|] s1 [Hw1 H1].
  - destruct H1 as (Hb&Hnb&Hids&Hfr). apply safe_ret.
    destruct (zero_arr_ok _ xq0 ports Hp) as (Za&Zl&Zi).
    split; [|split; [unfold same_tv; simpl; repeat split; auto|split; [discriminate | exact Zl]]].
    split; [eapply led_add_ref; eauto|]. split; [exact T|]. split; [exact V|].
    unfold ROk; simpl. split; [exact Za|]. rewrite repeat_length. exact Zi.
  - destruct H1 as (Hids&_). apply safe_ret. eapply minv_same_ids; eauto.
Qed.

Lemma safe_ref_write : forall m i x s, MInv m s -> t_ref m <> None -> (i < length (cells (t_rarr m)))%nat ->
  safe (ref_write_m m i x) s (fun m' s' =>
    s' = s /\ MInv m' s' /\ same_tv m m' /\ t_ref m' = t_ref m /\ length (cells (t_rarr m')) = length (cells (t_rarr m))).
Proof.
  intros m i x s HI Hr Hi. unfold ref_write_m. destruct HI as (L&T&V&R). destruct R as (Ra&Ri).
  destruct (t_ref m) as [b|] eqn:Eb; [|congruence].
  apply safe_bind. apply safe_touch; [eapply led_ref_live; eauto|].
  apply safe_bind.
  destruct (wr_spec _ (t_rarr m) i x Ra Hi) as (a'&Hwr&Ha'&Hc'&Hlen'&Hsame&Hoth).
  eapply safe_lift; [exact Hwr|]. apply safe_ret.
  split; [reflexivity|]. split; [|split; [unfold same_tv; simpl; repeat split; auto | split; [simpl; auto | simpl; exact Hlen']]].
  split; [eapply led_same_ptrs; eauto; simpl; auto|]. split; [exact T|]. split; [exact V|].
  unfold ROk; simpl. split; [exact Ha'|]. rewrite Hlen'.
  intros j Hj. destruct (Nat.eq_dec j i) as [->|Hne]; [eauto|]. rewrite Hoth by assumption. apply Ri; assumption.
Qed.

Lemma safe_ref_read : forall m n s, MInv m s -> t_ref m <> None -> (n <= length (cells (t_rarr m)))%nat ->
  safe (ref_read_m m n) s (fun _ s' => s' = s).
Proof.
  intros m n s HI Hr Hn. unfold ref_read_m. destruct HI as (L&T&V&R). destruct R as (Ra&Ri).
  destruct (t_ref m) as [b|] eqn:Eb; [|congruence].
  apply safe_bind. apply safe_touch; [eapply led_ref_live; eauto|].
  eapply safe_lift; [|reflexivity].
  change 0 with (Z.of_nat 0).
  apply (rd_seq_ok _ (t_rarr m) (length (cells (t_rarr m))) Ra Ri); lia.
Qed.

(* ---- out: the three frees ----------------------------------------------------------------------------------------- *)
Lemma safe_cleanup : forall m s, MInv m s -> safe (cleanup_m m) s (fun _ s' => live s' = []).
Proof.
  intros m s (L&_). destruct L as (Hw&Hnd&Hiff&Ht). unfold cleanup_m, blocks in *.
  destruct (t_text m) as [tx|]; [|congruence]. simpl in *.
  assert (Hfree : forall p s0 (Q : unit -> astate -> Prop), wf s0 -> (forall b, p = Some b -> In b (ids s0)) ->
            (forall s1, wf s1 -> (forall x, In x (ids s1) <-> In x (ids s0) /\ Some x <> p) -> Q tt s1) ->
            safe (free p) s0 Q).
  { intros [b|] s0 Q Hw0 Hin HQ.
    - eapply safe_weaken; [apply safe_free; [exact Hw0 | apply Hin; reflexivity]|].
      intros [] s1 (Hw1&_&Hi1). apply HQ; auto. intro x. rewrite Hi1. split; intros [A B]; split; auto; congruence.
    - exists tt, s0. split; [reflexivity|]. apply HQ; auto. intro x; split; [intro; split; [auto|discriminate] | tauto]. }
  apply safe_bind. apply Hfree; [exact Hw| |].
  { intros b Hb. apply Hiff. right. apply in_or_app. right. rewrite Hb; left; reflexivity. }
  intros s1 Hw1 Hi1. apply safe_bind. apply Hfree; [exact Hw1| |].
  { intros b Hb. inversion Hb; subst b. apply Hi1. split; [apply Hiff; left; reflexivity|].
    intro He. inversion Hnd as [|? ? Hn _]; subst. apply Hn. apply in_or_app. right. rewrite <- He. left; reflexivity. }
  intros s2 Hw2 Hi2. apply Hfree; [exact Hw2| |].
  { intros b Hb. apply Hi2. split; [apply Hi1; split; [apply Hiff; right; apply in_or_app; left; rewrite Hb; left; reflexivity|]|].
    - intro He. inversion Hnd as [|? ? _ Hnd2]; subst. rewrite Hb, <- He in Hnd2. simpl in Hnd2. inversion Hnd2; subst. apply H1. left; reflexivity.
    - intro He. inversion He; subst. inversion Hnd as [|? ? Hn _]; subst. apply Hn. apply in_or_app; left. rewrite Hb. left; reflexivity. }
  intros s3 Hw3 Hi3. apply ids_nil_live_nil. intros x Hx.
  apply Hi3 in Hx. destruct Hx as [Hx N3]. apply Hi2 in Hx. destruct Hx as [Hx N2]. apply Hi1 in Hx. destruct Hx as [Hx N1].
  apply Hiff in Hx. destruct Hx as [Hx|Hx]; [subst; congruence|].
  apply in_app_or in Hx. destruct Hx as [Hx|Hx].
  - destruct (t_vv m); simpl in Hx; [destruct Hx as [Hx|[]]; subst; congruence | contradiction].
  - destruct (t_ref m); simpl in Hx; [destruct Hx as [Hx|[]]; subst; congruence | contradiction].
Qed.

(* ==================================================================================================== *)

Definition ref_view (p : pst) : option (option (list xnum)) :=
  match p with
  | SStart | SVersionArg | SWantOption _ => Some None
  | SOpt h | SOptR h | SBody h | SArg h _ | SInfo h | SV2 h _ => Some (h_ref h)
  | _ => None
  end.
Definition rv_ok (v : option (option (list xnum))) (s' : pst) : Prop :=
  match s' with
  | SRef _ _ _ => False
  | _ => match ref_view s' with None => True | Some w => v = Some w end
  end.

Ltac brk :=
  repeat (match goal with
  | |- context [match ?x with _ => _ end] => destruct x eqn:?; cbn [rv_ok ref_view h_ref set_ref set_mult set_type set_fmt set_z0 set_ports set_order set_nfreq set_nnoise set_matrix apply_op hdr0] in *; try congruence; try exact I; try reflexivity
  | |- context [if ?x then _ else _] => destruct x eqn:?; cbn [rv_ok ref_view h_ref] in *; try congruence; try exact I; try reflexivity
  end).

Lemma rv_eof_tok : forall v h o t, rv_ok v (eof_tok h o t).
Proof. intros; unfold eof_tok, err; brk. Qed.
Lemma rv_end_tok : forall v h o t, rv_ok v (end_tok h o t).
Proof. intros; unfold end_tok; brk; apply rv_eof_tok. Qed.
Lemma rv_noise_tok : forall v h o l j f t, rv_ok v (noise_tok h o l j f t).
Proof. intros; unfold noise_tok, err; brk; apply rv_end_tok. Qed.
Lemma rv_after_data_tok : forall v h o t, rv_ok v (after_data_tok h o t).
Proof. intros; unfold after_data_tok, err; brk; apply rv_end_tok. Qed.
Lemma rv_v2_tok : forall h d t, rv_ok (Some (h_ref h)) (v2_tok h d t).
Proof. intros; unfold v2_tok, err; brk; apply rv_after_data_tok. Qed.
Lemma rv_network_data : forall h, rv_ok (Some (h_ref h)) (network_data h).
Proof. intros; unfold network_data, err; brk. Qed.
Lemma rv_v1_wait_tok : forall w h v t, rv_ok w (v1_wait_tok h v t).
Proof. intros; unfold v1_wait_tok, err; brk; apply rv_eof_tok. Qed.
Lemma rv_v1_line_tok : forall w h v acc t, rv_ok w (v1_line_tok h v acc t).
Proof. intros; unfold v1_line_tok, err; brk; apply rv_v1_wait_tok. Qed.
Lemma rv_v1_start : forall w h t, rv_ok w (v1_start h t).
Proof. intros; unfold v1_start, err; brk. Qed.
Lemma rv_after_kw : forall h t, rv_ok (Some (h_ref h)) (after_kw h t).
Proof. intros; unfold after_kw, err; brk; try apply rv_v1_start; apply rv_network_data. Qed.
Lemma rv_body_tok : forall h t, (forall p, ref_event (SBody h) t <> Some p) -> rv_ok (Some (h_ref h)) (body_tok h t).
Proof.
  intros h t Hev; unfold body_tok, err. destruct t as [k| | | | | | | |]; try apply rv_after_kw.
  destruct k; try apply rv_after_kw; brk; try (cbn; reflexivity); try exact I.
  all: exfalso; cbn in Hev; rewrite ?Heqb, ?Heqo in Hev; eapply Hev; reflexivity.
Qed.
Lemma rv_arg_tok : forall h a t, rv_ok (Some (h_ref h)) (arg_tok h a t).
Proof. intros; unfold arg_tok, err; brk. Qed.

(* ==================================================================================================== *)

Lemma rv_on_tok : forall s t,
  (forall h k acc x, s = SRef h (S k) acc -> t = TDouble x -> negb (xlt xq0 x) = true) ->
  (forall p, ref_event s t <> Some p) -> rv_ok (ref_view s) (on_tok s t).
Proof.
  intros s t Ha Hev. destruct s; cbn [on_tok ref_view].
  - unfold want_option, err; brk.
  - unfold err; brk.
  - unfold want_option, err; brk.
  - destruct t as [k|o| | | | | | |]; unfold err; try exact I.
    + destruct o; cbn; reflexivity.
    + cbn; reflexivity.
    + apply rv_body_tok. intros p Hp; cbn in Hp; discriminate.
  - unfold err; brk.
  - apply rv_body_tok. exact Hev.
  - apply rv_arg_tok.
  - destruct left as [|k]; [exact I|]. destruct t as [k0|o| |w|z|x| | |]; unfold err; try exact I.
    rewrite (Ha h k acc x eq_refl eq_refl). exact I.
  - destruct t as [k| | | | | | | |]; try (apply rv_body_tok; exact Hev).
    destruct k; try (apply rv_body_tok; exact Hev). cbn; reflexivity.
  - apply rv_v2_tok.
  - apply rv_noise_tok.
  - apply rv_eof_tok.
  - apply rv_v1_wait_tok.
  - apply rv_v1_line_tok.
  - exact I.
  - exact I.
  - unfold err; brk.
Qed.

Definition Link (p : pst) (m : tmem) : Prop :=
  match p with
  | SRef h nleft acc => t_ref m <> None /\ length (cells (t_rarr m)) = (length acc + nleft)%nat
  | _ => match ref_view p with
         | Some None => t_ref m = None
         | Some (Some l) => t_ref m <> None /\ length (cells (t_rarr m)) = length l
         | None => True
         end
  end.

Lemma link_rv : forall s s' m, rv_ok (ref_view s) s' -> Link s m -> Link s' m.
Proof.
  intros s s' m Hrv HL. destruct s'; cbn [rv_ok] in Hrv; try contradiction; cbn [Link ref_view] in *; try exact I;
    (destruct s; cbn [ref_view Link] in *; try discriminate; inversion Hrv as [Hv]; first [exact HL | rewrite Hv in HL; exact HL | rewrite <- Hv; exact HL]).
Qed.

Lemma link_same : forall p m m', t_ref m' = t_ref m -> t_rarr m' = t_rarr m -> Link p m -> Link p m'.
Proof. intros p m m' A B H. unfold Link in *. rewrite A, B. exact H. Qed.

Definition pm_post (s : pst) (t : token) (m : tmem) (o : option tmem) (st' : astate) : Prop :=
  match o with
  | None => MInv m st'
  | Some m' => MInv m' st' /\ Link (on_tok s t) m'
  end.

Lemma minv_vcount_back : forall m s', MInv (set_vcount m 0) s' -> VOk m -> MInv m s'.
Proof. intros m s' (L&T&_&R) V. split; [eapply led_same_ptrs; eauto|]. auto. Qed.

Lemma safe_pm_default : forall s t m st, MInv m st -> Link s m ->
  (forall h k acc x, s = SRef h (S k) acc -> t = TDouble x -> False) ->
  safe (pm_default s t m) st (pm_post s t m).
Proof.
  intros s t m st HI HL Hna. unfold pm_default.
  assert (Hdef : forall (Hev : forall p, ref_event s t <> Some p), rv_ok (ref_view s) (on_tok s t)).
  { intro Hev. apply rv_on_tok; auto. intros h k acc x A B. exfalso; eauto. }
  assert (Hpush : forall x, (match on_tok s t with SRef _ _ _ => False | s' => ref_view s' = None end) ->
            safe (push_value_m (if is_v1line s then m else set_vcount m 0) x) st (pm_post s t m)).
  { intros x Hv. eapply safe_weaken.
    - apply safe_push_value. destruct (is_v1line s); [exact HI | apply minv_set_vcount0; exact HI].
    - intros [m'|] st' H; unfold pm_post.
      + destruct H as (HI'&Hs&_). split; [exact HI'|].
        destruct (on_tok s t); try contradiction; cbn [Link]; rewrite Hv; exact I.
      + destruct (is_v1line s); [exact H|]. apply minv_vcount_back; [exact H | apply HI]. }
  assert (Hrest : safe (match ref_event s t with
                        | Some p => ref_alloc_m m p
                        | None => match on_tok s t with
                                  | SV2 h _ => if is_v2 s then ret (Some m)
                                               else match h_ref h with
                                                    | Some l => ref_read_m m (length l);;; ret (Some m)
                                                    | None => ret (Some m)
                                                    end
                                  | _ => ret (Some m)
                                  end
                        end) st (pm_post s t m)).
  { destruct (ref_event s t) as [p|] eqn:Ev.
    - (* [Reference] *)
      unfold ref_event in Ev. destruct t as [k| | | | | | | |]; try discriminate. destruct k; try discriminate.
      assert (Hh : exists h, (s = SBody h \/ s = SInfo h) /\ (h_ports h <? 0) = false /\ h_ref h = None /\ p = h_ports h).
      { destruct s; try discriminate; exists h; (split; [auto|]);
          destruct (h_ports h <? 0); try discriminate; destruct (h_ref h); try discriminate; inversion Ev; auto. }
      destruct Hh as (h&Hs&Hp&Hr&->). apply Z.ltb_ge in Hp.
      assert (Hnone : t_ref m = None) by (destruct Hs; subst s; cbn [Link ref_view] in HL; rewrite Hr in HL; exact HL).
      eapply safe_weaken; [apply safe_ref_alloc; eauto|].
      intros [m'|] st' H; unfold pm_post; [|exact H].
      destruct H as (HI'&_&Hn&Hlen). split; [exact HI'|].
      assert (Hon : on_tok s (TKw KReference) = body_tok h (TKw KReference)) by (destruct Hs; subst s; reflexivity).
      rewrite Hon. unfold body_tok. replace (h_ports h <? 0) with false by (symmetry; apply Z.ltb_ge; lia). rewrite Hr.
      destruct (Z.to_nat (h_ports h)) eqn:En; cbn [Link ref_view h_ref set_ref]; split; auto; simpl; lia.
    - assert (Hrv : rv_ok (ref_view s) (on_tok s t)) by (apply Hdef; intros p; try rewrite Ev; discriminate).
      assert (HL' : Link (on_tok s t) m) by (eapply link_rv; eauto).
      destruct (on_tok s t) eqn:Eon; try (apply safe_ret; split; [exact HI | rewrite ?Eon; exact HL']).
      destruct (is_v2 s) eqn:Ev2; [apply safe_ret; split; [exact HI | rewrite ?Eon; exact HL']|].
      destruct (h_ref h) as [l|] eqn:Er; [|apply safe_ret; split; [exact HI | rewrite ?Eon; exact HL']].
      apply safe_bind. cbn [Link ref_view] in HL'. rewrite Er in HL'. destruct HL' as (Hn&Hlen).
      eapply safe_weaken; [apply safe_ref_read; eauto; lia|].
      intros u st' He. rewrite He. apply safe_ret. split; [exact HI|]. rewrite Eon. cbn [Link ref_view]. rewrite Er. auto. }
  destruct (on_tok s t) eqn:Eon; try exact Hrest.
  destruct t as [k0|o| |w|z|x| | |]; try exact Hrest. apply Hpush. reflexivity.
Qed.

Lemma safe_parser_mem : forall s t m st, MInv m st -> Link s m ->
  safe (parser_mem s t m) st (pm_post s t m).
Proof.
  intros s t m st HI HL.
  assert (Hd : (forall h k acc x, s = SRef h (S k) acc -> t = TDouble x -> False) -> safe (pm_default s t m) st (pm_post s t m)).
  { apply safe_pm_default; assumption. }
  destruct s; try (apply Hd; intros; discriminate).
  - (* SRef *)
    destruct left as [|k]; [apply Hd; intros; discriminate|].
    destruct t as [k0|o| |w|z|x| | |]; try (apply Hd; intros; discriminate).
    cbn [parser_mem]. destruct (negb (xlt xq0 x)) eqn:Ex.
    + apply safe_ret. split; [exact HI|]. cbn [on_tok]. rewrite Ex. exact I.
    + cbn [Link] in HL. destruct HL as (Hn&Hlen).
      apply safe_bind. eapply safe_weaken; [apply safe_ref_write; eauto; lia|].
      intros m' st' (He&HI'&_&Hr'&Hlen'). apply safe_ret. split; [exact HI'|].
      cbn [on_tok]. rewrite Ex. destruct k; cbn [Link ref_view h_ref set_ref].
      * split; [congruence|]. rewrite rev_length. simpl. lia.
      * split; [congruence|]. simpl. lia.
  - (* SV1Line *)
    destruct t; try (apply Hd; intros; discriminate); cbn [parser_mem].
    all: assert (Hon : forall tk, Link (v1_line_tok h v acc tk) m) by
           (intro tk; eapply link_rv; [apply (rv_v1_line_tok (ref_view (SV1Line h v acc)))|exact HL]).
    all: cbn [on_tok]; destruct (v1_line h v (rev acc)) as [v'|].
    all: try (destruct (v_noise v')).
    all: apply safe_bind.
    all: try (apply safe_ret; apply safe_ret; split; [exact HI | apply Hon]).
    all: (eapply safe_weaken; [apply safe_read_values; [exact HI | lia]|]);
         intros u st' He; rewrite He; apply safe_ret; split; [exact HI | apply Hon].
Qed.

(* ==================================================================================================== *)

Definition SInv (st : mst * tmem) (s : astate) : Prop :=
  MInv (snd st) s /\ match fst st with MRun p => Link p (snd st) | MNoMem => True | MLook _ => True end.

(* the call log is no part of the invariant *)
Lemma minv_logs : forall m s l q, MInv m s -> MInv (set_logs m l q) s.
Proof. intros m s l q (L&T&V&R). split; [eapply led_same_ptrs; eauto|]. split; [exact T|]. split; [exact V | exact R]. Qed.
Lemma link_logs : forall p m l q, Link p m -> Link p (set_logs m l q).
Proof. intros p m l q H. eapply link_same; eauto. Qed.

Lemma safe_after_tok : forall p t m s, MInv m s -> Link p m ->
  safe (after_tok p t m) s (fun st' s' => SInv st' s').
Proof.
  intros p t m s HI HL. unfold after_tok. apply safe_bind.
  eapply safe_weaken; [apply safe_parser_mem; [apply minv_logs; apply minv_logs; exact HI | apply link_logs; apply link_logs; exact HL]|].
  intros [m'|] s' H.
  - destruct H as (HI'&HL').
    assert (HS : forall s2, Link s2 m' -> SInv (MRun s2, set_pend (log_now m' (now_events p t)) (later_events p t)) s').
    { intros s2 H2. split; simpl; [apply minv_logs; apply minv_logs; exact HI' | apply link_logs; apply link_logs; exact H2]. }
    destruct (on_tok p t) eqn:Eon; try (apply safe_ret; apply HS; exact HL').
    destruct (late_error p t); apply safe_ret; [|apply HS; exact HL'].
    split; simpl; [apply minv_logs; apply minv_logs; exact HI' | exact I].
  - apply safe_ret. split; simpl; [exact H | exact I].
Qed.

Lemma safe_mstep : forall st x s, SInv st s -> safe (mstep st x) s (fun st' s' => SInv st' s').
Proof.
  intros [ms m] x s (HI&HL). simpl in HI, HL. unfold mstep; cbn [fst snd].
  destruct ms as [p| |c]; [|apply safe_ret; split; auto|].
  - destruct (terminal_p p); [apply safe_ret; split; auto|].
    apply safe_bind. eapply safe_weaken; [apply safe_scan_tok; exact HI|].
    intros r s1 (HI1&Hs).
    assert (HL1 : Link p (scan_mem r)).
    { destruct Hs as (_&_&_&A&B). eapply link_same; eauto. }
    destruct r as [m'|m'|m']; simpl in *.
    + assert (Hgo : safe (match tok_of (flags_of p) x with
                          | Some t => after_tok p t m'
                          | None => ret (MRun p, m')
                          end) s1 (fun st' s' => SInv st' s')).
      { destruct (tok_of (flags_of p) x) as [t|]; [apply safe_after_tok; assumption | apply safe_ret; split; assumption]. }
      destruct x; try exact Hgo.
      apply safe_ret. split; simpl; [apply minv_logs; exact HI1|]. apply link_logs.
      eapply link_rv; [|exact HL1]. apply rv_on_tok.
      * intros h k acc x0 _ Hc. discriminate.
      * intros q Hq. destruct p; simpl in Hq; discriminate.
    + apply safe_ret. split; simpl; [apply minv_logs; assumption | exact I].
    + destruct p; try (apply safe_after_tok; assumption).
      apply safe_ret. split; simpl; [apply minv_logs; assumption | exact I].
  - apply safe_bind. eapply safe_weaken; [apply safe_scan_tok; exact HI|].
    intros r s1 (HI1&Hs).
    destruct r as [m'|m'|m']; simpl in *.
    + destruct x; try (destruct (tok_of F_NONE _)); apply safe_ret; split; simpl; try exact I; try (apply minv_logs); assumption.
    + apply safe_ret. split; simpl; [apply minv_logs; assumption | exact I].
    + apply safe_ret. split; simpl; [apply minv_logs; assumption | exact I].
Qed.

Lemma safe_mrun : forall r st s, SInv st s -> safe (mrun r st) s (fun st' s' => SInv st' s').
Proof.
  induction r as [|x r IH]; intros st s H; simpl.
  - apply safe_ret; exact H.
  - apply safe_bind. eapply safe_weaken; [apply safe_mstep; exact H|]. intros st' s' H'. apply IH; exact H'.
Qed.

Lemma sinv_initial : forall s b, wf s -> ids s = [b] ->
  SInv (MRun SStart, set_text m_empty (Some b) (fresh_arr initial_text)) s.
Proof.
  intros s b Hw Hids. split; simpl; [|reflexivity].
  split; [|split; [|split]].
  - unfold Led, blocks; simpl. rewrite Hids. split; [exact Hw|]. split; [repeat constructor; simpl; tauto|].
    split; [intro x; simpl; tauto | discriminate].
  - destruct (fresh_arr_ok N initial_text ltac:(unfold initial_text; lia)) as (A&B).
    unfold TextOk; simpl. split; [exact A|]. split; [unfold initial_text; lia | exact B].
  - unfold VOk, arr_ok; simpl. split; [reflexivity|]. split; [reflexivity|]. split; [lia | intros i Hi; lia].
  - unfold ROk, arr_ok; simpl. split; [reflexivity | intros i Hi; lia].
Qed.

Theorem ts_mem_safe_lemma : forall bytes k,
  safe (mem_load_ts bytes) (start k) (fun _ s' => live s' = []).
Proof.
  intros bytes k. unfold mem_load_ts. apply safe_bind.
  eapply safe_weaken; [apply safe_malloc; apply wf_start|].
  intros [b|] s1 (Hw1&H1).
  - destruct H1 as (Hb&_&Hids&_). simpl in Hids.
    apply safe_bind. eapply safe_weaken; [apply safe_mrun; apply sinv_initial; eauto|].
    intros st s2 (HI&_). apply safe_bind. eapply safe_weaken; [apply safe_cleanup; exact HI|].
    intros u s3 Hl. apply safe_ret. exact Hl.
  - destruct H1 as (Hids&_). simpl in Hids.
    apply safe_bind. exists tt, s1. split; [reflexivity|]. apply safe_ret.
    apply ids_nil_live_nil. intros x Hx. rewrite Hids in Hx. exact Hx.
Qed.

Theorem ts_no_fault_lemma : forall bytes k f, mem_load_ts bytes (start k) <> Fault f.
Proof. intros bytes k f H. destruct (ts_mem_safe_lemma bytes k) as (a&s'&He&_). congruence. Qed.

Theorem ts_no_leak_lemma : forall bytes k r s', mem_load_ts bytes (start k) = Alloc.Ok (r, s') -> live s' = [].
Proof. intros bytes k r s' H. destruct (ts_mem_safe_lemma bytes k) as (a&s2&He&Hl). rewrite H in He. inversion He; subst. exact Hl. Qed.

(* the invariant is met by a state in the middle of a load: after the option line, the [Reference] line of a
   two-port version-2 file and 130 characters of a word (text buffer grown twice, two live blocks) *)
Definition mid_bytes : list N :=
  [91;86;69;82;83;73;79;78;93;32;50;46;48;10;  35;32;71;72;90;32;83;32;82;73;32;82;32;53;48;10;
   91;78;85;77;66;69;82;32;79;70;32;80;79;82;84;83;93;32;50;10;
   91;82;69;70;69;82;69;78;67;69;93;32;53;48;32;55;53;10]%N ++ repeat 49%N 130 ++ [10%N].
Theorem ts_mem_inv_satisfiable_lemma :
  exists st s, (p <- malloc initial_text ;;
                match p with
                | Some b => mrun (tokens mid_bytes) (MRun SStart, set_text m_empty (Some b) (fresh_arr initial_text))
                | None => ret (MNoMem, m_empty)
                end) (start None) = Alloc.Ok (st, s) /\
    SInv st s /\ length (live s) = 2%nat /\ calloc (t_tarr (snd st)) = 256 /\ calloc (t_rarr (snd st)) = 2.
Proof.
  assert (H : safe (p <- malloc initial_text ;;
                match p with
                | Some b => mrun (tokens mid_bytes) (MRun SStart, set_text m_empty (Some b) (fresh_arr initial_text))
                | None => ret (MNoMem, m_empty)
                end) (start None) (fun st s => SInv st s)).
  { apply safe_bind. eapply safe_weaken; [apply safe_malloc; apply wf_start|].
    intros [b|] s1 (Hw1&H1).
    - destruct H1 as (Hb&_&Hids&_). apply safe_mrun. apply sinv_initial; auto.
    - exfalso. destruct H1 as (_&_&Hf&_). discriminate. }
  destruct H as (st&s&He&HS). exists st, s. split; [exact He|]. split; [exact HS|].
  vm_compute in He. inversion He; subst. vm_compute. auto.
Qed.

(* add_char as in the seeded change C09-3 (the test "length >= allocation": grows one character late): a word of
   exactly 64 characters puts the terminating NUL one past the buffer *)
Theorem add_char_late_oob_refuted_lemma :
  exists w, (p <- malloc initial_text ;; scan_word_late (set_text m_empty p (fresh_arr initial_text)) w) (start None) = Fault OOB.
Proof. exists (repeat 49%N 64). vm_compute. reflexivity. Qed.
