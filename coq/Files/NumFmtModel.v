(* Model of print_value (vnadata_save.c): engineering notation built from the digit string that
   sprintf("%.*e", precision - 1, value) produces.  No proofs in this file.

   The C function formats the value with %.*e, removes the decimal point, reads the exponent
   with atoi and then only moves the decimal point so that the exponent becomes a multiple of
   three (for precision >= 3).  The model starts after that parse: its input is the sign, the
   list of the [precision] decimal digits and the decimal exponent of the first digit.  The
   digit string itself is glibc's (correct rounding of printf is a hypothesis of the theorems
   that need it, never an axiom; eng_value needs none). *)
Require Import List ZArith Ascii Bool.
Import ListNotations.
Open Scope Z_scope.

Definition text := list ascii.

Definition digit_char (d : nat) : ascii := ascii_of_nat (48 + d).
Definition chars (ds : list nat) : text := map digit_char ds.

(* before: number of digits printed before the decimal point, as coded (switch (precision)) *)
Definition c_mod3 (t : Z) : Z := if 0 <=? t then t mod 3 else 2 - ((- t - 1) mod 3).

Definition before (precision : nat) (ex : Z) : Z :=
  match precision with
  | 1%nat => 1
  | 2%nat => c_mod3 (ex + 1)
  | _ => c_mod3 ex + 1
  end.

(* "e%0+3d": sign always, at least two digits *)
Definition exp_digits (a : Z) : list nat :=
  if a <? 10 then [0%nat; Z.to_nat a]
  else if a <? 100 then [Z.to_nat (a / 10); Z.to_nat (a mod 10)]
  else [Z.to_nat (a / 100); Z.to_nat ((a / 10) mod 10); Z.to_nat (a mod 10)].

Definition exp_text (e : Z) : text :=
  "e"%char :: (if e <? 0 then "-"%char else "+"%char) :: chars (exp_digits (Z.abs e)).

Definition spaces (n : nat) : text := repeat " "%char n.

(* the contents of buf2 at label finished, finite values, precision p = length ds >= 1 *)
Definition print_core (plus pad neg : bool) (ds : list nat) (ex : Z) : text :=
  let p := length ds in
  let b := Z.to_nat (before p ex) in
  let ex' := ex - (before p ex - 1) in
  (if plus || neg then [if neg then "-"%char else "+"%char] else []) ++
  chars (firstn b ds) ++
  (if (Nat.ltb 0 (p - b)) || (ex' =? 0) then "."%char :: chars (firstn (p - b) (skipn b ds)) else []) ++
  (if negb (ex' =? 0) then exp_text ex' else if pad then spaces 4 else []).

(* fprintf(fp, "%-*s", width, buf2) when pad, else "%s" *)
Definition print_value (plus pad neg : bool) (ds : list nat) (ex : Z) : text :=
  let core := print_core plus pad neg ds ex in
  let width := (length ds + 5 + (if plus then 1 else 0))%nat in
  if pad then core ++ spaces (width - length core) else core.

(* length of the sprintf("%.*e") text in buf1 for the same value: [-]d[.ddd]e+XX[X] *)
Definition sprintf_e_length (neg : bool) (p : nat) (ex : Z) : nat :=
  ((if neg then 1 else 0) + (if Nat.eqb p 1 then 1 else p + 1) + 2 + (if (Z.abs ex <? 100)%Z then 2 else 3))%nat.

(* char buf1[MAX(precision, 1) + 8], buf2[MAX(precision, 1) + 8] *)
Definition buffer_size (precision : nat) : nat := (Nat.max precision 1 + 8)%nat.

(* ------------------------------------------------------------------------------------------
   The loaders' number grammar (strtod, decimal form):  [+-] digits [. digits] [e [+-] digits],
   at least one digit in the mantissa; trailing blanks are left in the rest.  The value is
   returned exactly as (negative?, mantissa integer, power of ten). *)
Definition is_digit (c : ascii) : bool := let n := nat_of_ascii c in (Nat.leb 48 n) && (Nat.leb n 57).
Definition digit_val (c : ascii) : Z := Z.of_nat (nat_of_ascii c - 48).

Fixpoint span_digits (s : text) : text * text :=
  match s with
  | c :: r => if is_digit c then let (a, b) := span_digits r in (c :: a, b) else ([], s)
  | [] => ([], [])
  end.

Definition num_of (ds : text) : Z := fold_left (fun acc c => 10 * acc + digit_val c) ds 0.

Definition parse_sign (s : text) : bool * text :=
  match s with
  | c :: r => if Ascii.eqb c "-"%char then (true, r)
              else if Ascii.eqb c "+"%char then (false, r) else (false, s)
  | [] => (false, s)
  end.

Definition parse_exp (s : text) : Z * text :=
  match s with
  | c :: r =>
    if (Ascii.eqb c "e"%char) || (Ascii.eqb c "E"%char) then
      let (neg, r1) := parse_sign r in
      let (ds, r2) := span_digits r1 in
      match ds with
      | [] => (0, s)                       (* "e" without digits is not part of the number *)
      | _ => ((if neg then - num_of ds else num_of ds), r2)
      end
    else (0, s)
  | [] => (0, s)
  end.

Record decimal := { d_neg : bool; d_mant : Z; d_exp10 : Z }.

Definition parse_decimal (s : text) : option (decimal * text) :=
  let (neg, r0) := parse_sign s in
  let (ip, r1) := span_digits r0 in
  let '(fp, r2) := match r1 with
                   | c :: r => if Ascii.eqb c "."%char then span_digits r else ([], r1)
                   | [] => ([], r1)
                   end in
  match ip ++ fp with
  | [] => None
  | m => let (e, r3) := parse_exp r2 in
         Some ({| d_neg := neg; d_mant := num_of m; d_exp10 := e - Z.of_nat (length fp) |}, r3)
  end.

Definition digits_value (ds : list nat) : Z := fold_left (fun acc d => 10 * acc + Z.of_nat d) ds 0.
Definition all_blank (s : text) : bool := forallb (fun c => Ascii.eqb c " "%char) s.
