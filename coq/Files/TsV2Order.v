(* Version-2 Touchstone files with the keyword lines in any order, information blocks and a noise block:
   the inverse grammar (token stream of an abstract file, the object it describes) for the part of the
   keyword loop of _vnadata_load_touchstone that TsSpec.v2_stream fixes to one order.
   Definitions only (no proofs); the statements are in TsV2OrderProofs.v.

   [kw_step] is what the "Parse additional V2 keywords" loop does, as coded, with one well-spelled keyword
   line: the new values of the parser's variables, or None when the loop reports an error:
     [Number of Ports]             once only; not negative; must be 2 for H / G parameters
     [Two-Port Order]              any number of times, the last wins
     [Number of Frequencies]       any integer (a negative one is refused at [Network Data]), the last wins
     [Number of Noise Frequencies] not negative, the last wins
     [Matrix Format]               the last wins
     [Reference]                   only after [Number of Ports] (it reads that many values); once only
     [Begin Information]           skipped, with or without a directly following [End Information]  *)
Require Import List NArith ZArith QArith Qcanon Bool.
Import ListNotations.
Require Import LV.Files.TsTok LV.Files.TsParse LV.Files.TsSpec.
Open Scope Z_scope.

Inductive kwline :=
  | KLPorts (n : inum)
  | KLOrder (o : bool)                 (* true = 21_12 *)
  | KLNFreq (n : inum)
  | KLNNoise (n : inum)
  | KLMatrix (m : mfmt)
  | KLRef (l : list num)
  | KLInfo (closed : bool).            (* [Begin Information], closed: followed by [End Information] *)

Definition render_kw (k : kwline) : list rtok :=
  match k with
  | KLPorts n => [RKw KNumberOfPorts; RWord (i_text n) false; nl]
  | KLOrder o => [RKw KTwoPortOrder; RWord (if o then txt_21_12 else txt_12_21) false; nl]
  | KLNFreq n => [RKw KNumberOfFrequencies; RWord (i_text n) false; nl]
  | KLNNoise n => [RKw KNumberOfNoiseFrequencies; RWord (i_text n) false; nl]
  | KLMatrix m => [RKw KMatrixFormat; RWord (mfmt_text m) false; nl]
  | KLRef l => RKw KReference :: map wnum l ++ [nl]
  | KLInfo closed => [RKw KBeginInformation; nl] ++ (if closed then [RKw KEndInformation; nl] else [])
  end.
Definition render_kws (ks : list kwline) : list rtok := flat_map render_kw ks.

Definition kw_step (h : hdr) (k : kwline) : option hdr :=
  match k with
  | KLPorts n =>
      if h_ports h =? -1 then
        if i_val n <? 0 then None
        else if negb (i_val n =? 2) && is_hg (h_type h) then None
        else Some (set_ports h (i_val n))
      else None
  | KLOrder o => Some (set_order h (Some o))
  | KLNFreq n => Some (set_nfreq h (i_val n))
  | KLNNoise n => if i_val n <? 0 then None else Some (set_nnoise h (i_val n))
  | KLMatrix m => Some (set_matrix h m)
  | KLRef l =>
      if h_ports h <? 0 then None
      else match h_ref h with
           | Some _ => None
           | None => Some (set_ref h (Some (map n_val l)))
           end
  | KLInfo _ => Some h
  end.
Fixpoint kws_run (h : hdr) (ks : list kwline) : option hdr :=
  match ks with
  | [] => Some h
  | k :: r => match kw_step h k with Some h' => kws_run h' r | None => None end
  end.

(* the spelling of a line is right: numbers are numbers; a [Reference] line that the loop reads holds as many
   positive values as there are ports *)
Definition kwline_ok (h : hdr) (k : kwline) : Prop :=
  match k with
  | KLPorts n | KLNFreq n | KLNNoise n => inum_ok n
  | KLRef l => 0 <= h_ports h -> h_ref h = None ->
               length l = Z.to_nat (h_ports h) /\ Forall (fun n => num_ok n /\ positive_x (n_val n)) l
  | _ => True
  end.
Fixpoint kws_ok (h : hdr) (ks : list kwline) : Prop :=
  match ks with
  | [] => True
  | k :: r => kwline_ok h k /\ match kw_step h k with Some h' => kws_ok h' r | None => True end
  end.

Definition kw_kind (k : kwline) : nat :=
  match k with
  | KLPorts _ => 0 | KLOrder _ => 1 | KLNFreq _ => 2 | KLNNoise _ => 3 | KLMatrix _ => 4 | KLRef _ => 5 | KLInfo _ => 6
  end%nat.
Definition not_info (k : kwline) : bool := match k with KLInfo _ => false | _ => true end.

(* ---- the whole file ------------------------------------------------------------------------------------ *)
Record v2gfile := mkv2g {
  q_v2 : bool;                             (* [Version] 2.0; false: a "[Version] 1.0" file that carries version-2 keywords,
                                              read by the version-2 reader and un-normalised at the end *)
  q_opts : list ofield;
  q_kws : list kwline;
  q_records : list (num * list num);
  q_noise : list (list num);               (* noise records of five numbers each, the frequency first *)
  q_end : bool }.

Definition q_hdr (f : v2gfile) : option hdr := kws_run (opts_hdr (q_v2 f) (q_opts f)) (q_kws f).

Definition noise_part (h : hdr) (f : v2gfile) : list rtok :=
  if 0 <=? h_nnoise h then [RKw KNoiseData; nl] ++ flat_map (fun l => map wnum l ++ [nl]) (q_noise f) else [].

Definition v2g_stream (h : hdr) (f : v2gfile) : list rtok :=
  [RKw KVersion; RWord (if q_v2 f then txt_2_0 else txt_1_0) false; nl; ROption] ++ render_opts (q_opts f) ++ [RNl true] ++
  render_kws (q_kws f) ++
  [RKw KNetworkData; nl] ++
  flat_map (fun r => wnum (fst r) :: map wnum (snd r) ++ [nl]) (q_records f) ++
  noise_part h f ++
  (if q_end f then [RKw KEnd; nl] else []) ++ [REof].

Definition h_need (h : hdr) : nat :=
  let n := Z.to_nat (h_ports h) in
  S (2 * match h_matrix h with MFull => n * n | _ => n * (n + 1) / 2 end).

(* noise frequencies: not negative, and not below the previous one *)
Fixpoint noise_ok (prev : option xnum) (l : list (list num)) : Prop :=
  match l with
  | [] => True
  | r :: rest =>
      match r with
      | [f; a; b; c; d] =>
          Forall num_ok r /\ xlt (n_val f) xq0 = false /\
          match prev with Some p => xlt (n_val f) p = false | None => True end /\
          noise_ok (Some (n_val f)) rest
      | _ => False
      end
  end.

Definition v2g_wf (h : hdr) (f : v2gfile) : Prop :=
  Forall ofield_ok (q_opts f) /\
  kws_ok (opts_hdr (q_v2 f) (q_opts f)) (q_kws f) /\
  q_hdr f = Some h /\
  0 <= h_ports h <= 46340 /\
  (h_ports h = 2 <-> h_order h <> None) /\
  h_nfreq h = Z.of_nat (length (q_records f)) /\
  Forall (fun r => num_ok (fst r) /\ xlt (n_val (fst r)) xq0 = false /\ Forall num_ok (snd r) /\
                   S (length (snd r)) = h_need h) (q_records f) /\
  ascending (map (fun r => xmul (XQ (h_mult h)) (n_val (fst r))) (q_records f)) /\
  (if 0 <=? h_nnoise h then h_nnoise h = Z.of_nat (length (q_noise f)) /\ noise_ok None (q_noise f) else q_noise f = []).

Definition v2g_result (h : hdr) (f : v2gfile) : tsobj :=
  let n := Z.to_nat (h_ports h) in
  finalize h
    (mkobj (h_v2 h) (h_type h) (h_fmt h) n
        (map (fun r => xmul (XQ (h_mult h)) (n_val (fst r))) (q_records f))
        (z0_list h n)
        (map (fun r => build_matrix (h_matrix h) (v2_transpose h) n (map n_val (snd r))) (q_records f))).

(* the same file without its noise block (and without the [Number of Noise Frequencies] lines) *)
Definition is_nnoise (k : kwline) : bool := match k with KLNNoise _ => true | _ => false end.
Definition drop_noise (f : v2gfile) : v2gfile :=
  mkv2g (q_v2 f) (q_opts f) (filter (fun k => negb (is_nnoise k)) (q_kws f)) (q_records f) [] (q_end f).
