(* What vnadata_load / vnadata_fload do to the DESTINATION object, on success and up to every failure exit:
   the calls recorded by the pointer-level loader models (TsMem.t_log, TsMemNpd.n_log: filetype store,
   set_simple_format / vnadata_set_format, vnadata_init, vnadata_resize, vnadata_set_all_z0,
   vnadata_set_z0_vector, vnadata_add_frequency, vnadata_set_frequency, vnadata_set_fz0_vector, the two
   precisions the NPD loader stores directly) interpreted as operations of the container model
   Data/DataModel.v (property C15), quirks = fixed.  Values are abstract (one value [vany] stands for every
   complex number and 0 for every frequency the loader passes: the loader has already refused a frequency
   < 0, the only thing the container looks at).  The stores into cells (vnadata_set_cell, vd_data[f][i]) are
   not in the log; they change neither shape nor mode.
   vnadata_load_common first stores the file type it derives from the file name ([name_ft]; AUTO = keep).
   No proofs in this file. *)
Require Import List NArith ZArith Bool.
Import ListNotations.
Require LV.Data.DataModel.
Require Import LV.Files.TsTok LV.Files.TsParse LV.Mem.Alloc LV.Files.TsMem LV.Files.NpdScan LV.Files.NpdLoad LV.Files.TsMemNpd.
Open Scope Z_scope.

Section Dest.
Variable V : Type.
Variables vzero vdef vany : V.
Notation vd := (DataModel.vd V).
Notation stepf := (DataModel.step V vzero vdef DataModel.fixed).

Definition dop_apply (d : vd) (o : dop) : vd :=
  match o with
  | DFiletype k => fst (stepf d (DataModel.OSetFiletype V k))
  | DFormat => fst (stepf d (DataModel.OSetFormat V (Some 0%nat)))
  | DInit t r c f => fst (stepf d (DataModel.OInit V t r c f))
  | DResize t r c f => fst (stepf d (DataModel.OResize V t r c f))
  | DAllZ0 => fst (stepf d (DataModel.OSetAllZ0 V vany))
  | DZ0Vec n => fst (stepf d (DataModel.OSetZ0Vec V (repeat vany n)))
  | DAddFreq => fst (stepf d (DataModel.OAddFreq V 0))
  | DSetFreq i => fst (stepf d (DataModel.OSetFreq V i 0))
  | DFz0Vec i n => fst (stepf d (DataModel.OSetFz0Vec V i (repeat vany n)))
  end.
Definition run_calls (d : vd) (l : list dop) : vd := fold_left dop_apply l d.
(* the NPD loader stores the precisions without going through the setters *)
Definition ndop_apply (d : vd) (o : ndop) : vd :=
  match o with
  | NCall c => dop_apply d c
  | NFprec v => DataModel.set_meta V d (DataModel.ftype V d) (DataModel.fmt V d) v (DataModel.dprec V d)
  | NDprec v => DataModel.set_meta V d (DataModel.ftype V d) (DataModel.fmt V d) (DataModel.fprec V d) v
  end.
Definition run_ncalls (d : vd) (l : list ndop) : vd := fold_left ndop_apply l d.

(* a recorded call is ACCEPTED by the container: the operation returns ROk (index in range, dimensions valid) and a
   vector it passes has exactly one entry per port of the object it is passed to.  The loaders do not test the return
   values at these sites ((void) casts, accessors compiled without bounds checks): a refused call in the model would
   be an unchecked store in the C code. *)
Definition op_of (o : dop) : DataModel.op V :=
  match o with
  | DFiletype k => DataModel.OSetFiletype V k
  | DFormat => DataModel.OSetFormat V (Some 0%nat)
  | DInit t r c f => DataModel.OInit V t r c f
  | DResize t r c f => DataModel.OResize V t r c f
  | DAllZ0 => DataModel.OSetAllZ0 V vany
  | DZ0Vec n => DataModel.OSetZ0Vec V (repeat vany n)
  | DAddFreq => DataModel.OAddFreq V 0
  | DSetFreq i => DataModel.OSetFreq V i 0
  | DFz0Vec i n => DataModel.OSetFz0Vec V i (repeat vany n)
  end.
Definition ret_ok (r : DataModel.ret) : bool := match r with DataModel.ROk => true | _ => false end.
Definition call_ok (d : vd) (o : dop) : bool :=
  ret_ok (DataModel.o_ret V (snd (stepf d (op_of o)))) &&
  match o with
  | DZ0Vec n | DFz0Vec _ n => Nat.eqb n (DataModel.ports V d)
  | _ => true
  end.
(* every call is accepted; or the only refused one is the last, a vnadata_init (rows * columns > INT_MAX: the
   loader fails with EINVAL at that call) *)
Fixpoint calls_accepted (d : vd) (l : list dop) : bool :=
  match l with
  | [] => true
  | o :: r => (call_ok d o && calls_accepted (dop_apply d o) r)
              || match o, r with DInit _ _ _ _, [] => true | _, _ => false end
  end.
Definition ncalls_accepted (d : vd) (l : list ndop) : bool :=
  calls_accepted d (flat_map (fun o => match o with NCall c => [c] | _ => [] end) l).

(* the destination after vnadata_fload(vdp, fp, name): name_ft = 1 / 2 / 3 for .sNp / .ts / .npd, 0 = no suffix *)
Definition name_calls (name_ft : Z) : list dop := if name_ft =? 0 then [] else [DFiletype name_ft].

Definition ts_dest (name_ft : Z) (bytes : list N) (k : option nat) (d : vd) : option vd :=
  match mem_load_ts bytes (start k) with
  | Alloc.Ok ((_, rep), _) => Some (run_calls d (name_calls name_ft ++ r_calls rep))
  | Fault _ => None
  end.
Definition npd_dest (name_ft : Z) (bytes : list N) (k : option nat) (d : vd) : option vd :=
  match mem_load_npd NFixed bytes (start k) with
  | Alloc.Ok ((_, rep), _) => Some (run_ncalls (run_calls d (name_calls name_ft)) (nr_calls rep))
  | Fault _ => None
  end.

(* the calls that can change the shape of the object *)
Definition shape_call (o : dop) : bool :=
  match o with DInit _ _ _ _ | DResize _ _ _ _ | DAddFreq => true | _ => false end.

(* what the harness prints of the destination *)
Definition digest (d : vd) : Z * nat * nat * nat * Z * bool * Z * Z :=
  (DataModel.vpt_code (DataModel.ty V d), DataModel.rows V d, DataModel.cols V d, DataModel.freqs V d,
   DataModel.ftype V d, DataModel.per_f V d, DataModel.fprec V d, DataModel.dprec V d).
End Dest.

(* the destination of harness/tstone_mem.c: a 3 x 3 Z object with 2 frequencies *)
Definition harness_dest : DataModel.vd unit :=
  fst (DataModel.init unit tt tt DataModel.fixed (DataModel.vd_alloc unit tt tt) 4 3 3 2).
Definition ts_digest (name_ft : Z) (calls : list dop) :=
  digest unit (run_calls unit tt tt tt harness_dest (name_calls name_ft ++ calls)).
Definition ts_accepted (name_ft : Z) (calls : list dop) : bool :=
  calls_accepted unit tt tt tt harness_dest (name_calls name_ft ++ calls).
Definition npd_accepted (name_ft : Z) (calls : list ndop) : bool :=
  ncalls_accepted unit tt tt tt (run_calls unit tt tt tt harness_dest (name_calls name_ft)) calls.
Definition npd_digest (name_ft : Z) (calls : list ndop) :=
  digest unit (run_ncalls unit tt tt tt (run_calls unit tt tt tt harness_dest (name_calls name_ft)) calls).
