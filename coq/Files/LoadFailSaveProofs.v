(* "A successfully loaded object with >= 1 port and >= 1 frequency is accepted by vnadata_cksave":
   exact acceptance conditions on the loader models' objects, and the witnesses where acceptance fails.
   Nothing here changes a model. *)
Require Import List NArith ZArith QArith Qcanon Bool Lia Arith.
Import ListNotations.
Require Import LV.Files.TsTok LV.Files.TsParse LV.Files.TsWf LV.Files.NpdScan LV.Files.SaveModel LV.Files.LoadFailSave.
Require LV.Files.NpdLoad LV.Files.NpdWf.


(* ---- every impedance the Touchstone loader stores has passed the test "x > 0.0" (fix DB93) ------------------------ *)
Definition hz (h : hdr) : Prop :=
  xlt xq0 (h_z0 h) = true /\ match h_ref h with Some l => z0_gt0 l = true | None => True end.
Definition zinv (s : pst) : Prop :=
  match s with
  | SStart | SVersionArg | SWantOption _ | SErr _ | SLate _ => True
  | SOpt h | SOptR h | SBody h | SArg h _ | SInfo h | SV2 h _ | SV1Wait h _ | SV1Line h _ _ => hz h
  | SRef h _ acc => hz h /\ z0_gt0 acc = true
  | SNoise _ o _ _ _ | SEof _ o | SDone o => z0_gt0 (TsParse.o_z0 o) = true
  end.

Lemma z0_gt0_repeat : forall z n, xlt xq0 z = true -> z0_gt0 (repeat z n) = true.
Proof. intros z n H. induction n; [reflexivity|]. unfold z0_gt0 in *. cbn [repeat forallb]. rewrite H. exact IHn. Qed.
Lemma z0_gt0_app : forall a b, z0_gt0 (a ++ b) = z0_gt0 a && z0_gt0 b.
Proof. intros; unfold z0_gt0; apply forallb_app. Qed.
Lemma z0_gt0_rev : forall l, z0_gt0 (rev l) = z0_gt0 l.
Proof.
  induction l; [reflexivity|]. cbn [rev]. rewrite z0_gt0_app, IHl. unfold z0_gt0 at 2 3. cbn [forallb]. rewrite andb_true_r. apply andb_comm.
Qed.
Lemma z0_list_pos : forall h n, hz h -> z0_gt0 (z0_list h n) = true.
Proof. intros h n (A&B). unfold z0_list. destruct (h_ref h); [exact B | apply z0_gt0_repeat; exact A]. Qed.

Lemma finalize_z0 : forall h o, TsParse.o_z0 (finalize h o) = TsParse.o_z0 o.
Proof. intros; unfold finalize; destruct (h_v2 h); reflexivity. Qed.

Ltac zbrk :=
  repeat (match goal with
  | |- context [match ?x with _ => _ end] => destruct x eqn:?; cbn [zinv] in *; try exact I; try assumption
  | |- context [if ?x then _ else _] => destruct x eqn:?; cbn [zinv] in *; try exact I; try assumption
  end).

Lemma z_eof_tok : forall h o t, z0_gt0 (TsParse.o_z0 o) = true -> zinv (eof_tok h o t).
Proof. intros; unfold eof_tok, err; zbrk. rewrite finalize_z0; assumption. Qed.
Lemma z_end_tok : forall h o t, z0_gt0 (TsParse.o_z0 o) = true -> zinv (end_tok h o t).
Proof. intros; unfold end_tok; zbrk; apply z_eof_tok; assumption. Qed.
Lemma z_noise_tok : forall h o l j f t, z0_gt0 (TsParse.o_z0 o) = true -> zinv (noise_tok h o l j f t).
Proof. intros; unfold noise_tok, err; zbrk; apply z_end_tok; assumption. Qed.
Lemma z_after_data_tok : forall h o t, z0_gt0 (TsParse.o_z0 o) = true -> zinv (after_data_tok h o t).
Proof. intros; unfold after_data_tok, err; zbrk; apply z_end_tok; assumption. Qed.
Lemma z_v2_tok : forall h d t, hz h -> zinv (v2_tok h d t).
Proof.
  intros h d t H; unfold v2_tok, err; zbrk.
  all: apply z_after_data_tok; unfold v2_obj; cbn [TsParse.o_z0]; apply z0_list_pos; assumption.
Qed.
Lemma z_network_data : forall h, hz h -> zinv (network_data h).
Proof. intros h H; unfold network_data, err; zbrk. Qed.
Lemma z_v1_wait_tok : forall h v t, hz h -> zinv (v1_wait_tok h v t).
Proof.
  intros h v t H; unfold v1_wait_tok, err; zbrk.
  all: apply z_eof_tok; unfold v1_obj; cbn [TsParse.o_z0]; apply z0_gt0_repeat; apply H.
Qed.
Lemma z_v1_line_tok : forall h v acc t, hz h -> zinv (v1_line_tok h v acc t).
Proof. intros h v acc t H; unfold v1_line_tok, err; zbrk; apply z_v1_wait_tok; assumption. Qed.
Lemma z_v1_start : forall h t, hz h -> zinv (v1_start h t).
Proof. intros h t H; unfold v1_start, err; zbrk. Qed.
Lemma z_after_kw : forall h t, hz h -> zinv (after_kw h t).
Proof. intros h t H; unfold after_kw, err; zbrk; try (apply z_v1_start; assumption); apply z_network_data; assumption. Qed.
Lemma hz_same : forall h h', h_z0 h' = h_z0 h -> h_ref h' = h_ref h -> hz h -> hz h'.
Proof. unfold hz; intros h h' A B H. rewrite A, B. exact H. Qed.
Lemma z_body_tok : forall h t, hz h -> zinv (body_tok h t).
Proof.
  intros h t H; unfold body_tok, err. destruct t as [k| | | | | | | |]; try (apply z_after_kw; assumption).
  destruct k; try (apply z_after_kw; assumption); zbrk.
  all: cbn [zinv]; unfold hz in *; cbn; intuition.
Qed.
Lemma z_arg_tok : forall h a t, hz h -> zinv (arg_tok h a t).
Proof. intros h a t H; unfold arg_tok, err; zbrk; (eapply hz_same; [| |exact H]; reflexivity). Qed.

Lemma on_tok_zinv : forall s t, zinv s -> zinv (on_tok s t).
Proof.
  intros s t H. destruct s; cbn [on_tok zinv] in *.
  - unfold want_option, err; zbrk. cbn. split; [reflexivity | exact I].
  - unfold err; zbrk.
  - unfold want_option, err; zbrk. cbn. split; [reflexivity | exact I].
  - destruct t as [k|o| | | | | | |]; unfold err; try exact I; cbn [zinv]; try assumption.
    + destruct o; cbn [zinv]; try assumption; (eapply hz_same; [| |exact H]; reflexivity).
    + apply z_body_tok; assumption.
  - unfold err; zbrk. destruct H as (A&B). split; [cbn [set_z0 h_z0]; apply negb_false_iff; assumption | exact B].
  - apply z_body_tok; assumption.
  - apply z_arg_tok; assumption.
  - destruct H as (Hh&Ha). destruct left as [|k]; [exact I|]. destruct t as [k0|o| |w|z|x| | |]; unfold err; try exact I.
    destruct (xlt xq0 x) eqn:Ex; cbn [negb]; [|exact I]. destruct k; cbn [zinv].
    + destruct Hh as (A&B). split; [exact A|]. change (z0_gt0 (rev (x :: acc)) = true). rewrite z0_gt0_rev. unfold z0_gt0 in *. cbn [forallb]. rewrite Ex. exact Ha.
    + split; [exact Hh|]. unfold z0_gt0 in *. cbn [forallb]. rewrite Ex. exact Ha.
  - destruct t as [k| | | | | | | |]; try (apply z_body_tok; assumption).
    destruct k; try (apply z_body_tok; assumption). exact H.
  - apply z_v2_tok; assumption.
  - apply z_noise_tok; assumption.
  - apply z_eof_tok; assumption.
  - apply z_v1_wait_tok; assumption.
  - apply z_v1_line_tok; assumption.
  - exact H.
  - exact I.
  - destruct t; exact I.
Qed.

Lemma pstep_zinv : forall s x, zinv s -> zinv (pstep s x).
Proof. intros s x H. unfold pstep. destruct (tok_of (flags_of s) x); [apply on_tok_zinv; exact H | exact H]. Qed.
Lemma fold_zinv : forall r s, zinv s -> zinv (fold_left pstep r s).
Proof. induction r; intros s H; simpl; [exact H | apply IHr; apply pstep_zinv; exact H]. Qed.

Theorem load_ts_z0_gt0_lemma : forall bytes o, load_ts bytes = Ok o -> z0_gt0 (TsParse.o_z0 o) = true.
Proof.
  intros bytes o H. unfold load_ts, parse in H.
  pose proof (fold_zinv (tokens bytes) SStart I) as Hz.
  destruct (fold_left pstep (tokens bytes) SStart); simpl in H; try discriminate.
  injection H as <-. exact Hz.
Qed.


(* a value > 0 also fails the saver's test "creal(z0) <= 0.0", and is equal to itself *)
Lemma xlt_not_xle : forall z, xlt xq0 z = true -> xle z xq0 = false.
Proof.
  intros z H. destruct z as [q|[|]|]; cbn in *; try discriminate; try reflexivity.
  apply negb_true_iff in H. exact H.
Qed.
Lemma z0_gt0_pos : forall l, z0_gt0 l = true -> z0_pos l = true.
Proof.
  unfold z0_gt0, z0_pos. induction l; simpl; intros H; [reflexivity|]. apply andb_true_iff in H. destruct H as [A B].
  rewrite (xlt_not_xle a A), (IHl B). reflexivity.
Qed.
Theorem load_ts_z0_pos_lemma : forall bytes o, load_ts bytes = Ok o -> z0_pos (TsParse.o_z0 o) = true.
Proof. intros bytes o H. apply z0_gt0_pos. apply (load_ts_z0_gt0_lemma bytes o H). Qed.

(* ---- Touchstone ------------------------------------------------------------------------------------------------ *)
Definition npd_refuses (o : tsobj) : bool :=       (* the NPD saver refuses dB of a parameter that is not a power wave ratio *)
  match TsParse.o_fmt o, TsParse.o_type o with FDB, TsParse.PS => false | FDB, _ => true | _, _ => false end.

(* for every object the loader returns, with >= 1 port and >= 1 frequency, in the format the loader left behind, and
   for every class of save name: what vnadata_cksave answers *)
Theorem ts_cksave_by_name_lemma : forall bytes o nc,
  load_ts bytes = Ok o -> (1 <= TsParse.o_ports o)%nat -> TsParse.o_freqs o <> [] ->
  cksave (ts_sobj nc o) =
  match save_filetype nc (TsParse.o_v2 o) with
  | (TS2, _) => true
  | (TS1, promote) => (Nat.leb (TsParse.o_ports o) 4 || promote) && (z0_equal (TsParse.o_z0 o) || promote)
  | (NPD, _) => negb (npd_refuses o)
  end.
Proof.
  intros bytes o nc Hl Hp Hf. pose proof (load_ts_z0_pos_lemma bytes o Hl) as Hz.
  apply load_ts_ok_wf_lemma in Hl. destruct Hl as (_&_&_&Hhg).
  unfold cksave, cksave_gen, filetype_checks, convertible_check, eff_format, ts_sobj, npd_refuses; cbn [SaveModel.o_type SaveModel.o_ports SaveModel.o_freqs SaveModel.o_filetype SaveModel.o_format SaveModel.o_per_f_z0 SaveModel.o_z0_real_pos SaveModel.o_z0_equal SaveModel.o_promote].
  assert (Hn : Nat.leb 1 (TsParse.o_ports o) = true) by (apply Nat.leb_le; exact Hp).
  assert (Hq : Nat.eqb (length (TsParse.o_freqs o)) 0 = false) by (destruct (TsParse.o_freqs o); [congruence | reflexivity]).
  rewrite Hn, Hq, Hz.
  assert (H2 : is_hg (TsParse.o_type o) = true -> Nat.eqb (TsParse.o_ports o) 2 = true) by (intro A; rewrite (Hhg A); reflexivity).
  destruct nc, (TsParse.o_type o), (TsParse.o_fmt o), (TsParse.o_v2 o); cbn in *; rewrite ?H2 by reflexivity; cbn;
    rewrite ?andb_true_r, ?orb_true_r, ?orb_false_r; reflexivity.
Qed.

(* under a .ts name every loaded object is accepted *)
Theorem ts_cksave_ts_name_lemma : forall bytes o,
  load_ts bytes = Ok o -> (1 <= TsParse.o_ports o)%nat -> TsParse.o_freqs o <> [] -> cksave (ts_sobj NameTs o) = true.
Proof.
  intros bytes o Hl Hp Hf. rewrite (ts_cksave_by_name_lemma bytes o NameTs Hl Hp Hf).
  destruct (TsParse.o_v2 o); cbn; rewrite ?orb_true_r; reflexivity.
Qed.

(* "# GHz S RI R nan" is refused since fix DB93 (it loaded before, and the object could not be saved as x.s2p) *)
Definition rnan_bytes : list N :=
  [35;32;71;72;122;32;83;32;82;73;32;82;32;110;97;110;10;                       (* # GHz S RI R nan *)
   49;32;49;32;50;32;51;32;52;32;53;32;54;32;55;32;56;10]%N.                     (* 1 1 2 3 4 5 6 7 8 *)
Theorem ts_r_nan_refused_lemma : load_ts rnan_bytes = Error EBADMSG.
Proof. vm_compute. reflexivity. Qed.

(* a version-1 file with five ports: loads; refused under x.s5p ("more than four ports"), accepted under x.ts *)
Definition five_bytes : list N :=
  [35;32;71;72;122;32;83;32;82;73;32;82;32;53;48;10]%N ++                        (* # GHz S RI R 50 *)
  [49]%N ++ concat (repeat [32;49]%N 10) ++ [10]%N ++
  concat (repeat ([32;49]%N ++ concat (repeat [32;49]%N 9) ++ [10]%N) 4).
Theorem ts_strict_name_five_ports_refuted_lemma :
  exists o, load_ts five_bytes = Ok o /\ TsParse.o_ports o = 5%nat /\ length (TsParse.o_freqs o) = 1%nat /\
            cksave (ts_sobj NameSnp o) = false /\ cksave (ts_sobj NameTs o) = true.
Proof. eexists. split; [vm_compute; reflexivity|]. vm_compute. auto. Qed.

(* a VERSION-2 file with five ports: a .sNp name resets the file type to Touchstone 1 (no promotion): refused under x.s5p *)
Definition five_v2_bytes : list N :=
  [91;86;101;114;115;105;111;110;93;32;50;46;48;10;                                                 (* [Version] 2.0 *)
   35;32;71;72;122;32;83;32;82;73;32;82;32;53;48;10;                                                (* # GHz S RI R 50 *)
   91;78;117;109;98;101;114;32;111;102;32;80;111;114;116;115;93;32;53;10;                           (* [Number of Ports] 5 *)
   91;78;117;109;98;101;114;32;111;102;32;70;114;101;113;117;101;110;99;105;101;115;93;32;49;10;   (* [Number of Frequencies] 1 *)
   91;78;101;116;119;111;114;107;32;68;97;116;97;93;10]%N ++                                        (* [Network Data] *)
  [49]%N ++ concat (repeat [32;49]%N 50) ++ [10]%N ++ [91;69;110;100;93;10]%N.                      (* 1 1 1 ... [End] *)
Theorem ts_v2_five_ports_snp_name_refuted_lemma :
  exists o, load_ts five_v2_bytes = Ok o /\ TsParse.o_v2 o = true /\ TsParse.o_ports o = 5%nat /\
            cksave (ts_sobj NameSnp o) = false /\ cksave (ts_sobj NameTs o) = true /\ cksave (ts_sobj NameOther o) = true.
Proof. eexists. split; [vm_compute; reflexivity|]. vm_compute. auto 10. Qed.

(* ---- NPD ----------------------------------------------------------------------------------------------------------- *)
(* with the default format (vnadata_set_format(vdp, NULL)) every loaded object with >= 1 port and >= 1 frequency is
   accepted for the NPD file type *)
Theorem npd_cksave_default_lemma : forall bytes o,
  NpdLoad.load_npd bytes = NpdLoad.NOk o -> (1 <= NpdLoad.b_columns o)%Z -> NpdLoad.b_freqs o <> [] ->
  cksave (npd_sobj [] o) = true.
Proof.
  intros bytes o Hl Hp Hf. apply NpdWf.load_npd_ok_wf_lemma in Hl. destruct Hl as (Ht&_&_&H2&_).
  unfold cksave, cksave_gen, filetype_checks, convertible_check, eff_format, npd_sobj; cbn [SaveModel.o_type SaveModel.o_ports SaveModel.o_freqs SaveModel.o_filetype SaveModel.o_format].
  assert (Hn : Nat.leb 1 (Z.to_nat (NpdLoad.b_columns o)) = true) by (apply Nat.leb_le; lia).
  assert (Hq : Nat.eqb (length (NpdLoad.b_freqs o)) 0 = false) by (destruct (NpdLoad.b_freqs o); [congruence | reflexivity]).
  rewrite Hn, Hq.
  assert (H3 : NpdLoad.two_port_type (NpdLoad.b_type o) = true -> Nat.eqb (Z.to_nat (NpdLoad.b_columns o)) 2 = true)
    by (intro A; rewrite (H2 A); reflexivity).
  destruct (NpdLoad.b_type o); try congruence; cbn in *; rewrite ?H3 by reflexivity; reflexivity.
Qed.

(* '#:parameters ZdB' loads (the loader takes the dB / angle pair of a Z matrix), but the format it leaves behind is
   refused by the NPD saver ("dB of a non-power parameter"); with the default format the object is accepted *)
Definition zdb_bytes : list N :=
  [35;58;112;111;114;116;115;32;49;10;                                          (* #:ports 1 *)
   35;58;102;114;101;113;117;101;110;99;105;101;115;32;49;10;                   (* #:frequencies 1 *)
   35;58;112;97;114;97;109;101;116;101;114;115;32;90;100;66;10;                 (* #:parameters ZdB *)
   49;32;48;46;53;32;48;46;50;53;10]%N.                                         (* 1 0.5 0.25 *)
Theorem npd_format_left_behind_refuted_lemma :
  exists o l, NpdLoad.load_npd zdb_bytes = NpdLoad.NOk o /\ NpdLoad.set_format [90;100;66]%N = Some l /\
              cksave (npd_sobj l o) = false /\ cksave (npd_sobj [] o) = true.
Proof. eexists; eexists. split; [vm_compute; reflexivity|]. split; [vm_compute; reflexivity|]. vm_compute. auto. Qed.
