(* RI vs MA vs DB composed with the keyword-order load theorem: three version-2 files with their keyword lines in ANY
   accepted order (each its own), information blocks and noise blocks, that differ in the format word and spell pair by
   pair the same complex numbers load to objects with the same values.  Lemmas only; Section hypotheses as in
   TsFormatProofs.v (no Axiom). *)
Require Import List NArith ZArith QArith Qcanon Bool Lia.
Import ListNotations.
Require Import LV.Base.CField.
Require Import LV.Files.TsTok LV.Files.TsParse LV.Files.TsSpec LV.Files.TsMatrix LV.Files.TsV2Order LV.Files.TsV2OrderProofs.
Require Import LV.Files.TsFormat LV.Files.TsFormatProofs.

Section Composed.
  Variable K : CField.
  Variable ofQ : Qc -> K.
  Variable ci : K.
  Variable cexp : K -> K.
  Variables ln10 rad_per_deg twenty pi c180 : K.
  Variables pow10 log10 : K -> K.
  Hypothesis L : fmt_laws K ofQ ci cexp ln10 rad_per_deg twenty pi c180 pow10.

  Notation ov := (obj_values K ofQ ci cexp ln10 rad_per_deg twenty).
  Notation veq := (vals_equiv K ofQ ci cexp ln10 rad_per_deg twenty).

  (* two version-2 files whose parser variables agree but for the format (and the number of noise frequencies) *)
  Definition hdr_same_data (h1 h2 : hdr) : Prop :=
    h_v2 h1 = true /\ h_v2 h2 = true /\ h_mult h1 = h_mult h2 /\ h_type h1 = h_type h2 /\ h_z0 h1 = h_z0 h2 /\ h_ports h1 = h_ports h2 /\
    h_order h1 = h_order h2 /\ h_matrix h1 = h_matrix h2 /\ h_ref h1 = h_ref h2.

  Lemma v2g_result_values : forall h1 h2 f1 f2, v2g_wf h1 f1 -> v2g_wf h2 f2 -> hdr_same_data h1 h2 ->
    Forall2 (fun r1 r2 => n_val (fst r1) = n_val (fst r2) /\ veq (h_fmt h1) (h_fmt h2) (map n_val (snd r1)) (map n_val (snd r2)))
            (q_records f1) (q_records f2) ->
    same_meta (v2g_result h1 f1) (v2g_result h2 f2) /\ ov (v2g_result h1 f1) = ov (v2g_result h2 f2).
  Proof.
    intros h1 h2 f1 f2 W1 W2 (Hv1 & Hv2 & Hm & Ht & Hz & Hp & Ho & Hmf & Href) Hr.
    destruct W1 as (_ & _ & _ & _ & _ & _ & Hrec1 & _).
    unfold same_meta, obj_values, v2g_result, finalize. rewrite Hv1, Hv2. cbn [o_v2 o_type o_ports o_freqs o_z0 o_fmt o_cells].
    unfold z0_list, v2_transpose. rewrite Hm, Ht, Hz, Hp, Ho, Href.
    repeat split; try reflexivity.
    - clear Hrec1. induction Hr as [| r1 r2 rs1 rs2 (E & _) _ IH]; [reflexivity |]. cbn [map]. rewrite E, IH. reflexivity.
    - rewrite !map_map. revert Hrec1. induction Hr as [| r1 r2 rs1 rs2 (_ & E) _ IH]; intros Hrec1; [reflexivity |].
      inversion Hrec1 as [| ? ? (_ & _ & _ & Hl) Hrec1']; subst. cbn [map]. rewrite IH by assumption. f_equal.
      rewrite <- Hmf, <- Hp.
      apply (build_matrix_values K ofQ ci cexp ln10 rad_per_deg twenty); [exact E |].
      rewrite map_length. unfold h_need in Hl. unfold pair_count. destruct (h_matrix h1); lia.
  Qed.

  Theorem format_equiv_v2g_lemma : forall hr hm hd fr fm fd, v2g_wf hr fr -> v2g_wf hm fm -> v2g_wf hd fd ->
    h_fmt hr = FRI -> h_fmt hm = FMA -> h_fmt hd = FDB -> hdr_same_data hr hm -> hdr_same_data hd hm ->
    same_records K ofQ ci cexp twenty pi c180 pow10 log10 (q_records fr) (q_records fm) (q_records fd) ->
    exists o_ri o_ma o_db, parse (v2g_stream hr fr) = Ok o_ri /\ parse (v2g_stream hm fm) = Ok o_ma /\ parse (v2g_stream hd fd) = Ok o_db /\
      same_meta o_ri o_ma /\ same_meta o_db o_ma /\ ov o_ri = ov o_ma /\ ov o_db = ov o_ma.
  Proof.
    intros hr hm hd fr fm fd Wr Wm Wd Fr Fm Fd Sr Sd Hrec.
    destruct L as (L1 & L2 & L3 & L4 & L5 & _).
    destruct (same_records_split K ofQ ci cexp ln10 rad_per_deg twenty pi c180 pow10 log10 L1 L2 L3 L4 L5 _ _ _ Hrec) as (S1 & S3).
    exists (v2g_result hr fr), (v2g_result hm fm), (v2g_result hd fd).
    rewrite !v2g_load_lemma by assumption.
    destruct (v2g_result_values hr hm fr fm Wr Wm Sr) as (X1 & X2); [rewrite Fr, Fm; exact S1 |].
    destruct (v2g_result_values hd hm fd fm Wd Wm Sd) as (Y1 & Y2); [rewrite Fd, Fm; exact S3 |].
    repeat (split; [reflexivity || assumption |]); assumption.
  Qed.
End Composed.
Print Assumptions format_equiv_v2g_lemma.
