(* The intended instance of the laws of TsFormatProofs.fmt_laws: the complex numbers of Coquelicot (pairs of the
   standard library's reals) with
       cexp z   := exp (Re z) * (cos (Im z) + i sin (Im z))
       pow10 z  := cexp (ln 10 * z)          (for a real x: exp (x * ln 10) = Rpower 10 x, pow10_real)
       log10 z  := ln (Re z) / ln 10
       LOG10 := ln 10, RAD_PER_DEG := PI / 180, the file's numbers embedded by Q2R.
   Every law is proved, and with them format_equiv_pair_real: for every real m > 0 and every angle a (degrees) the RI pair
   (m cos a', m sin a') with a' = a PI / 180, the MA pair (m, a) and the DB pair (20 log10 m, a) convert to the same
   complex number - no abstract hypothesis left.

   This file (and only this file of C08) depends on the axioms of the standard library's real numbers, as Print
   Assumptions reports them at the end; the other theorems of Properties_C08.v stay closed under the global context. *)
Require Import Reals Lra QArith Qreals Qcanon List.
From Coquelicot Require Import Complex.
Require Import LV.Base.CField LV.Files.TsTok LV.Files.TsParse LV.Files.TsSpec LV.Files.TsFormat LV.Files.TsFormatProofs.
Local Open Scope R_scope.

Definition CF : CField :=
  Build_CField C (RtoC 0) (RtoC 1) Cplus Cmult Cminus Copp Cdiv Cinv C_field_theory
               Cconj (fun z => RtoC (Re z)) (fun z => RtoC (sqrt (Rabs (Re z)))).

Definition r_cexp (z : C) : C := Cmult (RtoC (exp (Re z))) (cos (Im z), sin (Im z)).
Definition r_ofQ (q : Qc) : C := RtoC (Q2R q).
Definition r_ln10 : C := RtoC (ln 10).
Definition r_rad : C := RtoC (PI / 180).
Definition r_twenty : C := RtoC 20.
Definition r_pi : C := RtoC PI.
Definition r_180 : C := RtoC 180.
Definition r_pow10 (z : C) : C := r_cexp (Cmult r_ln10 z).
Definition r_log10 (z : C) : C := RtoC (ln (Re z) / ln 10).

Lemma Ceq : forall a b c d : R, a = c -> b = d -> (a, b) = (c, d) :> C.
Proof. intros; subst; reflexivity. Qed.

Lemma r_cexp_add : forall u v : C, r_cexp (Cplus u v) = Cmult (r_cexp u) (r_cexp v).
Proof.
  intros [u1 u2] [v1 v2]. unfold r_cexp, Cplus, Cmult, RtoC, Re, Im. cbn [fst snd].
  rewrite exp_plus, cos_plus, sin_plus. apply Ceq; ring.
Qed.

Lemma r_cexp_real : forall x : R, r_cexp (RtoC x) = RtoC (exp x).
Proof. intros x. unfold r_cexp, Cmult, RtoC, Re, Im. cbn [fst snd]. rewrite cos_0, sin_0. apply Ceq; ring. Qed.

Lemma r_cexp_imag : forall x : R, r_cexp (0, x) = (cos x, sin x).
Proof. intros x. unfold r_cexp, Cmult, RtoC, Re, Im. cbn [fst snd]. rewrite exp_0. apply Ceq; ring. Qed.

Lemma ln10_pos : 0 < ln 10.
Proof. rewrite <- ln_1. apply ln_increasing; lra. Qed.

(* pow10 of a real number is the real power of ten *)
Lemma pow10_real : forall x : R, r_pow10 (RtoC x) = RtoC (exp (x * ln 10)) /\ exp (x * ln 10) = Rpower 10 x.
Proof.
  intros x. split; [| reflexivity]. unfold r_pow10, r_ln10. rewrite <- RtoC_mult, r_cexp_real. f_equal. f_equal. ring.
Qed.

Lemma Q2R_Qred : forall q : Q, Q2R (Qred q) = Q2R q.
Proof. intros q. apply Qeq_eqR. apply Qred_correct. Qed.

Lemma qc_is0_neq : forall q : Qc, qc_is0 q = false -> ~ (q == 0)%Q.
Proof. intros q H. unfold qc_is0 in H. apply Qeq_bool_neq. exact H. Qed.

Lemma Q2R_nz : forall q : Qc, qc_is0 q = false -> Q2R q <> 0.
Proof.
  intros q H E. apply (qc_is0_neq q H). apply eqR_Qeq. rewrite E. unfold Q2R. cbn. lra.
Qed.

Theorem real_laws : fmt_laws CF r_ofQ Ci r_cexp r_ln10 r_rad r_twenty r_pi r_180 r_pow10.
Proof.
  unfold fmt_laws. cbn [CF F cadd cmul cdiv c0 c1].
  split; [exact r_cexp_add |].
  split; [reflexivity |].
  split; [unfold r_rad, r_pi, r_180; apply RtoC_div; lra |].
  split; [unfold r_twenty; intro H; apply RtoC_inj in H; lra |].
  split; [unfold r_ofQ; f_equal; unfold qcz; cbn [this Q2Qc]; rewrite Q2R_Qred; unfold Q2R; cbn; lra |].
  split.
  { intros p q. unfold r_ofQ. rewrite <- RtoC_mult. f_equal. unfold Qcmult. cbn [this Q2Qc]. rewrite Q2R_Qred. apply Q2R_mult. }
  split.
  { intros p q Hq. unfold r_ofQ. rewrite <- RtoC_div by (apply Q2R_nz; exact Hq). f_equal.
    unfold Qcdiv, Qcmult, Qcinv. cbn [this Q2Qc]. rewrite Q2R_Qred, Q2R_mult, Q2R_Qred, Q2R_inv by (apply qc_is0_neq; exact Hq).
    reflexivity. }
  intros q Hq E. unfold r_ofQ in E. apply RtoC_inj in E. exact (Q2R_nz q Hq E).
Qed.

Notation rconv := (convert_value_pair CF Ci r_cexp r_ln10 r_rad r_twenty).

(* the three spellings of m e^(i a PI / 180), m > 0, are spellings of one number in the sense of TsFormatProofs.same_number *)
Lemma same_number_real : forall m a : R, 0 < m ->
  same_number CF Ci r_cexp r_twenty r_pi r_180 r_pow10 r_log10
    (RtoC (m * cos (a * PI / 180))) (RtoC (m * sin (a * PI / 180))) (RtoC m) (RtoC a) (RtoC (20 * (ln m / ln 10))).
Proof.
  intros m a Hm. unfold same_number. cbn [CF F cadd cmul cdiv].
  split; [| split].
  - unfold r_pi, r_180. rewrite <- RtoC_div by lra.
    replace (Cmult (Cmult Ci (RtoC (PI / 180))) (RtoC a)) with ((0, a * PI / 180) : C)
      by (unfold Cmult, Ci, RtoC; cbn [fst snd]; apply Ceq; field).
    rewrite r_cexp_imag. unfold Cplus, Cmult, Ci, RtoC. cbn [fst snd]. apply Ceq; ring.
  - unfold r_twenty, r_log10. change (Re (RtoC m)) with m. rewrite <- RtoC_mult. reflexivity.
  - unfold r_pow10, r_log10, r_ln10. change (Re (RtoC m)) with m.
    rewrite <- RtoC_mult, r_cexp_real. f_equal.
    replace (ln 10 * (ln m / ln 10)) with (ln m) by (field; pose proof ln10_pos; lra).
    apply exp_ln. exact Hm.
Qed.

(* format_equiv_pair_real: no abstract hypothesis left *)
Theorem format_equiv_pair_real_lemma : forall m a : R, 0 < m ->
  let a' := a * PI / 180 in
  rconv FRI (RtoC (m * cos a')) (RtoC (m * sin a')) = rconv FMA (RtoC m) (RtoC a) /\
  rconv FDB (RtoC (20 * (ln m / ln 10))) (RtoC a) = rconv FMA (RtoC m) (RtoC a) /\
  rconv FMA (RtoC m) (RtoC a) = (m * cos a', m * sin a').
Proof.
  intros m a Hm a'.
  destruct (convert_equiv_thm CF r_ofQ Ci r_cexp r_ln10 r_rad r_twenty r_pi r_180 r_pow10 r_log10 real_laws _ _ _ _ _
              (same_number_real m a Hm)) as (E1 & E2 & _).
  split; [exact E1 | split; [exact E2 |]].
  rewrite <- E1. cbn [convert_value_pair CF F cadd cmul]. unfold Cplus, Cmult, Ci, RtoC. cbn [fst snd]. subst a'. apply Ceq; ring.
Qed.

(* a concrete triple as a file would spell it: RI (0, 10), MA (10, 90), DB (20, 90) *)
Lemma Q2R_qcz : forall z : Z, Q2R (qcz z) = IZR z.
Proof. intros z. unfold qcz. cbn [this Q2Qc]. rewrite Q2R_Qred. unfold Q2R. cbn. field. Qed.

Example same_number_real_instance :
  same_number CF Ci r_cexp r_twenty r_pi r_180 r_pow10 r_log10
    (r_ofQ (qcz 0)) (r_ofQ (qcz 10)) (r_ofQ (qcz 10)) (r_ofQ (qcz 90)) (r_ofQ (qcz 20)).
Proof.
  unfold r_ofQ. rewrite !Q2R_qcz.
  pose proof (same_number_real 10 90 ltac:(lra)) as H.
  replace (90 * PI / 180) with (PI / 2) in H by field. rewrite cos_PI2, sin_PI2 in H.
  replace (10 * 0) with 0 in H by ring. replace (10 * 1) with 10 in H by ring.
  replace (20 * (ln 10 / ln 10)) with 20 in H by (field; pose proof ln10_pos; lra).
  exact H.
Qed.

Print Assumptions real_laws.
Print Assumptions format_equiv_pair_real_lemma.
