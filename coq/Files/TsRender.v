(* The plain byte-level spelling of a raw token stream, and the proof that the tokenizer model reads it back:
   [tokens (render_stream s) = s ++ [REof]] for every stream s of newlines, '#', [keywords] and words whose
   option-line flags are the ones the scanner would compute.  Applied to the streams of TsSpec.v this gives,
   for every well-formed abstract file, a byte string that the loader model loads to the described object.

   Nothing here changes the model: TsTok.v, TsParse.v and TsSpec.v are only read. *)
Require Import List NArith ZArith Bool Lia. Import ListNotations.
Require Import LV.Files.TsTok LV.Files.TsTokProofs LV.Files.TsParse LV.Files.TsSpec LV.Files.TsLoadV2 LV.Files.TsLoadV1.
Open Scope N_scope.

(* one token, followed by a blank (a newline is its own separator) *)
Definition render_tok (x : rtok) : list N :=
  match x with
  | RNl _ => [10]
  | ROption => [35; 32]
  | RKw k => 91 :: kw_text k ++ [93; 32]
  | RWord t _ => t ++ [32]
  | REof | RErr _ => []
  end.
Definition render_stream (s : list rtok) : list N := flat_map render_tok s.

(* a word as the scanner delivers it: starts like a word, holds only word characters, is upper case *)
Definition text_ok (t : list N) : Prop :=
  match t with
  | [] => False
  | c :: r => is_word_start c = true /\ forallb is_in_word r = true /\ map upcase t = t
  end.

Fixpoint seg_ok (opt : bool) (s : list rtok) : Prop :=
  match s with
  | [] => True
  | RNl o :: r => o = opt /\ seg_ok false r
  | ROption :: r => seg_ok true r
  | RKw _ :: r => seg_ok opt r
  | RWord t o :: r => o = opt /\ text_ok t /\ seg_ok opt r
  | REof :: _ | RErr _ :: _ => False
  end.
Fixpoint flag_after (opt : bool) (s : list rtok) : bool :=
  match s with
  | [] => opt
  | RNl _ :: r => flag_after false r
  | ROption :: r => flag_after true r
  | _ :: r => flag_after opt r
  end.

Lemma seg_ok_app : forall a b opt, seg_ok opt a -> seg_ok (flag_after opt a) b -> seg_ok opt (a ++ b).
Proof.
  induction a as [| x a IH]; intros b opt Ha Hb; [exact Hb |].
  destruct x; cbn [app seg_ok flag_after] in *; try contradiction.
  - destruct Ha as [E Ha]. split; [exact E | apply IH; assumption].
  - apply IH; assumption.
  - apply IH; assumption.
  - destruct Ha as (E & T & Ha). repeat split; try assumption. apply IH; assumption.
Qed.

Lemma flag_after_app : forall a b opt, flag_after opt (a ++ b) = flag_after (flag_after opt a) b.
Proof. induction a as [| x a IH]; intros b opt; [reflexivity |]. destruct x; cbn [app flag_after]; apply IH. Qed.

(* ---- the scanner on one rendered token ---------------------------------------------------------------------- *)
Lemma word_start_normal : forall c, is_word_start c = true ->
  (c =? 10) = false /\ (c =? 33) = false /\ (c =? 35) = false /\ (c =? 91) = false.
Proof.
  intros c H. unfold is_word_start, is_alnum, is_digit, is_upper, is_lower in H.
  rewrite !orb_true_iff, !andb_true_iff, !N.leb_le, !N.eqb_eq in H.
  repeat split; apply N.eqb_neq; lia.
Qed.

Lemma scan_word_chars : forall r acc opt rest, forallb is_in_word r = true ->
  scan (MWord acc) opt (r ++ 32 :: rest) = RWord (rev acc ++ r) opt :: scan MNormal opt rest.
Proof.
  induction r as [| c r IH]; intros acc opt rest H.
  - cbn [app]. rewrite app_nil_r. reflexivity.
  - cbn [forallb] in H. apply andb_true_iff in H. destruct H as [Hc Hr].
    cbn [app scan]. rewrite Hc. rewrite IH by exact Hr. cbn [rev]. rewrite <- app_assoc. reflexivity.
Qed.

Lemma scan_rendered_word : forall t opt rest, text_ok t ->
  scan MNormal opt (t ++ 32 :: rest) = RWord t opt :: scan MNormal opt rest.
Proof.
  intros [| c r] opt rest H; [destruct H |]. destruct H as (Hs & Hr & _).
  destruct (word_start_normal c Hs) as (E1 & E2 & E3 & E4).
  cbn [app scan]. rewrite E1, E2, E3, E4, Hs. rewrite scan_word_chars by exact Hr. reflexivity.
Qed.

Lemma scan_rendered_kw : forall k opt rest, scan MNormal opt (91 :: kw_text k ++ 93 :: 32 :: rest) = RKw k :: scan MNormal opt rest.
Proof. intros k opt rest. destruct k; reflexivity. Qed.

Lemma render_scan_seg : forall s opt rest, seg_ok opt s ->
  scan MNormal opt (render_stream s ++ rest) = s ++ scan MNormal (flag_after opt s) rest.
Proof.
  induction s as [| x s IH]; intros opt rest H; [reflexivity |].
  unfold render_stream. cbn [flat_map]. fold (render_stream s). rewrite <- app_assoc.
  destruct x; cbn [seg_ok flag_after render_tok] in *; try contradiction.
  - destruct H as [-> H]. cbn [app scan N.eqb Pos.eqb]. rewrite IH by exact H. reflexivity.
  - cbn [app]. change (scan MNormal opt (35 :: 32 :: render_stream s ++ rest))
      with (ROption :: scan MNormal true (render_stream s ++ rest)). rewrite IH by exact H. reflexivity.
  - cbn [app]. rewrite <- app_assoc. cbn [app]. rewrite scan_rendered_kw, IH by exact H. reflexivity.
  - destruct H as (-> & T & H). rewrite <- app_assoc. cbn [app]. rewrite scan_rendered_word by exact T.
    rewrite IH by exact H. reflexivity.
Qed.

Lemma upcase_fixed_app : forall a b, map upcase a = a -> map upcase b = b -> map upcase (a ++ b) = a ++ b.
Proof. intros a b Ha Hb. rewrite map_app, Ha, Hb. reflexivity. Qed.

Lemma render_upper : forall s opt, seg_ok opt s -> map upcase (render_stream s) = render_stream s.
Proof.
  induction s as [| x s IH]; intros opt H; [reflexivity |].
  unfold render_stream. cbn [flat_map]. fold (render_stream s).
  destruct x; cbn [seg_ok render_tok] in *; try contradiction.
  - destruct H as [_ H]. apply upcase_fixed_app; [reflexivity | exact (IH _ H)].
  - apply upcase_fixed_app; [reflexivity | exact (IH _ H)].
  - apply upcase_fixed_app; [destruct k; reflexivity | exact (IH _ H)].
  - destruct H as (_ & T & H). apply upcase_fixed_app; [| exact (IH _ H)].
    apply upcase_fixed_app; [| reflexivity]. destruct text as [| c r]; [destruct T |]. destruct T as (_ & _ & E). exact E.
Qed.

(* the tokenizer reads the plain spelling back *)
Theorem render_tokens_lemma : forall s, seg_ok false s -> tokens (render_stream s) = s ++ [REof].
Proof.
  intros s H. unfold tokens. rewrite (render_upper s false H).
  rewrite <- (app_nil_r (render_stream s)). rewrite render_scan_seg by exact H. reflexivity.
Qed.

Lemma opkw_text_ok : forall o, text_ok (opkw_text o).
Proof. destruct o; cbn; repeat split; reflexivity. Qed.

Lemma fixed_texts_ok : text_ok txt_2_0 /\ text_ok txt_12_21 /\ text_ok txt_21_12 /\ text_ok txt_full /\ text_ok txt_upper /\
  text_ok txt_lower.
Proof. cbn. repeat split; reflexivity. Qed.

Local Opaque text_ok.

(* ---- the streams of TsSpec.v ------------------------------------------------------------------------------------ *)
Definition num_text_ok (n : num) : Prop := text_ok (n_text n).

Lemma seg_words : forall l rest, Forall num_text_ok l -> seg_ok false rest -> seg_ok false (map wnum l ++ rest).
Proof.
  intros l rest H Hr. induction H as [| n l Hn _ IH]; [exact Hr |].
  cbn [map app seg_ok wnum]. repeat split; assumption.
Qed.

Definition ofield_text_ok (x : ofield) : Prop := match x with OFKw _ => True | OFR n => num_text_ok n end.

Lemma seg_opts : forall fs rest, Forall ofield_text_ok fs -> seg_ok true rest -> seg_ok true (render_opts fs ++ rest).
Proof.
  intros fs rest H Hr. unfold render_opts. induction H as [| x fs Hx _ IH]; [exact Hr |].
  cbn [flat_map]. rewrite <- app_assoc. destruct x as [o | n]; cbn [render_ofield app seg_ok].
  - repeat split; try reflexivity; try apply opkw_text_ok; exact IH.
  - repeat split; try reflexivity; try apply opkw_text_ok; try exact Hx; exact IH.
Qed.

Definition v2_texts_ok (f : v2file) : Prop :=
  Forall ofield_text_ok (f_opts f) /\ text_ok (i_text (f_ports f)) /\ text_ok (i_text (f_nfreq f)) /\
  match f_ref f with Some l => Forall num_text_ok l | None => True end /\
  Forall (fun r => num_text_ok (fst r) /\ Forall num_text_ok (snd r)) (f_records f).

Definition v2_body (f : v2file) : list rtok := removelast (v2_stream f).

Lemma v2_stream_body : forall f, v2_stream f = v2_body f ++ [REof].
Proof.
  intros f. unfold v2_body.
  assert (E : exists b, v2_stream f = b ++ [REof]).
  { unfold v2_stream. eexists. rewrite !app_assoc. reflexivity. }
  destruct E as [b E]. rewrite E, removelast_last. reflexivity.
Qed.

Lemma seg_ok_snoc_inv : forall b, seg_ok false (b ++ []) -> seg_ok false b.
Proof. intros b. rewrite app_nil_r. exact (fun H => H). Qed.

Lemma v2_body_seg_ok : forall f, v2_texts_ok f -> seg_ok false (v2_body f).
Proof.
  intros f (Ho & Hp & Hn & Hr & Hrec).
  destruct fixed_texts_ok as (T20 & T12 & T21 & TF & TU & TL).
  assert (E : exists b, v2_stream f = b ++ [REof] /\ seg_ok false b).
  { unfold v2_stream. eexists. split; [rewrite !app_assoc; reflexivity |].
    rewrite <- !app_assoc. cbn [app seg_ok]. repeat split; try assumption.
    apply seg_opts; [exact Ho |]. cbn [app seg_ok]. repeat split; try assumption.
    assert (S1 : forall rest, seg_ok false rest -> seg_ok false
               (match f_order f with
                | Some o => [RKw KTwoPortOrder; RWord (if o then txt_21_12 else txt_12_21) false; nl]
                | None => [] end ++ rest)).
    { intros rest Hrest. destruct (f_order f) as [[|] |]; cbn [app seg_ok nl]; repeat split; assumption. }
    apply S1. cbn [app seg_ok]. repeat split; try assumption.
    assert (S2 : forall rest, seg_ok false rest -> seg_ok false
               (match f_matrix f with Some m => [RKw KMatrixFormat; RWord (mfmt_text m) false; nl] | None => [] end ++ rest)).
    { intros rest Hrest. destruct (f_matrix f) as [[| |] |]; cbn [app seg_ok nl mfmt_text]; repeat split; assumption. }
    apply S2.
    assert (S3 : forall rest, seg_ok false rest -> seg_ok false
               (match f_ref f with Some l => RKw KReference :: map wnum l ++ [nl] | None => [] end ++ rest)).
    { intros rest Hrest. destruct (f_ref f) as [l |]; [| exact Hrest]. cbn [app seg_ok]. rewrite <- app_assoc.
      apply seg_words; [exact Hr |]. cbn [app seg_ok nl]. split; [reflexivity | exact Hrest]. }
    apply S3. cbn [app seg_ok nl]. split; [reflexivity |].
    assert (S4 : forall rest, seg_ok false rest -> seg_ok false
               (flat_map (fun r => wnum (fst r) :: map wnum (snd r) ++ [nl]) (f_records f) ++ rest)).
    { intros rest Hrest. induction Hrec as [| r rs [Hf Hs] _ IH]; [exact Hrest |].
      cbn [flat_map]. rewrite <- app_assoc. cbn [app seg_ok wnum]. repeat split; try assumption. fold (wnum (fst r)).
      rewrite <- app_assoc. apply seg_words; [exact Hs |]. cbn [app seg_ok nl]. split; [reflexivity | exact IH]. }
    apply S4. destruct (f_end f); cbn [app seg_ok nl]; repeat split. }
  destruct E as (b & E & Hb). unfold v2_body. rewrite E, removelast_last. exact Hb.
Qed.

(* every well-formed version-2 file has a plain spelling in bytes that tokenizes to its stream and loads to the
   object it describes *)
Theorem v2_load_bytes_lemma : forall f, v2_wf f -> v2_texts_ok f ->
  tokens (render_stream (v2_body f)) = v2_stream f /\ load_ts (render_stream (v2_body f)) = Ok (v2_result f).
Proof.
  intros f Hwf Ht. assert (E : tokens (render_stream (v2_body f)) = v2_stream f).
  { rewrite render_tokens_lemma by (apply v2_body_seg_ok; exact Ht). symmetry. apply v2_stream_body. }
  split; [exact E |]. unfold load_ts. rewrite E. apply v2_load_lemma. exact Hwf.
Qed.

(* ---- version 1 ------------------------------------------------------------------------------------------------------- *)
Definition v1_texts_ok (g : v1file) : Prop :=
  Forall ofield_text_ok (g_opts g) /\
  Forall (fun r => num_text_ok (fst r) /\ Forall num_text_ok (snd r)) (g_records g) /\
  Forall (Forall num_text_ok) (g_noise g).

Definition v1_body (g : v1file) : list rtok := removelast (v1_stream g).

Lemma Forall_firstn' : forall A (P : A -> Prop) k l, Forall P l -> Forall P (firstn k l).
Proof. intros A P k l H. revert k. induction H; intros [| k]; cbn [firstn]; constructor; auto. Qed.
Lemma Forall_skipn' : forall A (P : A -> Prop) k l, Forall P l -> Forall P (skipn k l).
Proof. intros A P k l H. revert k. induction H; intros [| k]; cbn [skipn]; auto. Qed.

Lemma seg_rows : forall k j (l : list num) rest, Forall num_text_ok l -> seg_ok false rest ->
  seg_ok false (flat_map (fun row => map wnum row ++ [nl]) (chunks k j l) ++ rest).
Proof.
  intros k j. induction j as [| j IH]; intros l rest Hl Hrest; [exact Hrest |].
  cbn [chunks flat_map]. rewrite <- !app_assoc. apply seg_words; [apply Forall_firstn'; exact Hl |].
  cbn [app seg_ok nl]. split; [reflexivity |]. apply IH; [apply Forall_skipn'; exact Hl | exact Hrest].
Qed.

Lemma seg_record_lines : forall n r rest, num_text_ok (fst r) -> Forall num_text_ok (snd r) -> seg_ok false rest ->
  seg_ok false (v1_record_lines n r ++ rest).
Proof.
  intros n r rest Hf Hs Hrest. unfold v1_record_lines. destruct (n =? 2)%nat.
  - cbn [app seg_ok wnum]. repeat split; try assumption. fold (wnum (fst r)). rewrite <- app_assoc.
    apply seg_words; [exact Hs |]. cbn [app seg_ok nl]. split; [reflexivity | exact Hrest].
  - destruct n as [| j]; [exact Hrest |]. cbn [chunks]. rewrite <- !app_assoc. cbn [app seg_ok wnum].
    repeat split; try assumption. rewrite <- app_assoc.
    apply seg_words; [apply Forall_firstn'; exact Hs |]. cbn [app seg_ok nl]. split; [reflexivity |].
    apply seg_rows; [apply Forall_skipn'; exact Hs | exact Hrest].
Qed.

Lemma v1_body_seg_ok : forall g, v1_texts_ok g -> exists b, v1_stream g = b ++ [REof] /\ seg_ok false b.
Proof.
  intros g (Ho & Hrec & Hnz). unfold v1_stream. eexists. split; [rewrite !app_assoc; reflexivity |].
  rewrite <- !app_assoc. cbn [app seg_ok]. apply seg_opts; [exact Ho |]. cbn [app seg_ok]. split; [reflexivity |].
  assert (S1 : forall rest, seg_ok false rest -> seg_ok false (flat_map (v1_record_lines (g_ports g)) (g_records g) ++ rest)).
  { intros rest Hrest. induction Hrec as [| r rs [Hf Hs] _ IH]; [exact Hrest |].
    cbn [flat_map]. rewrite <- app_assoc. apply seg_record_lines; assumption. }
  apply S1.
  induction Hnz as [| l ls Hl _ IH]; [exact I |].
  cbn [flat_map]. rewrite <- app_assoc. apply seg_words; [exact Hl |]. cbn [app seg_ok nl]. split; [reflexivity | exact IH].
Qed.

Theorem v1_load_bytes_lemma : forall g, v1_wf g -> v1_texts_ok g ->
  tokens (render_stream (v1_body g)) = v1_stream g /\ load_ts (render_stream (v1_body g)) = Ok (v1_result g).
Proof.
  intros g Hwf Ht. destruct (v1_body_seg_ok g Ht) as (b & E & Hb).
  assert (Eb : v1_body g = b) by (unfold v1_body; rewrite E; apply removelast_last).
  assert (E2 : tokens (render_stream (v1_body g)) = v1_stream g).
  { rewrite Eb, render_tokens_lemma by exact Hb. symmetry. exact E. }
  split; [exact E2 |]. unfold load_ts. rewrite E2. apply v1_load_lemma. exact Hwf.
Qed.
