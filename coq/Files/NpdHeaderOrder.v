(* The NPD header in any order (NpdLoad.hline_step, '#:z0' and the legacy '#:rows' / '#:columns' included): every two
   orders of the same header lines (each keyword at most once) that the loader accepts leave the same header state, and the
   orders it refuses are named.  Proof device: NpdCols.step3 (the part of a line that does not look at the port count). *)
Require Import List NArith ZArith QArith Qcanon Bool Lia Permutation.
Import ListNotations.
Require Import LV.Files.TsTok LV.Files.NpdScan LV.Files.NpdLoad LV.Files.NpdCols.
Open Scope Z_scope.

Ltac fields := cbn [n_ports n_rows n_columns n_frequencies n_params n_fprec n_dprec n_fz0 n_z0 set_nports set_fz0 set_z0v].

Lemma hdr_run_app : forall a b h, hdr_run h (a ++ b) = match hdr_run h a with inr h' => hdr_run h' b | inl c => inl c end.
Proof.
  induction a as [| [k f] a IH]; intros b h; [reflexivity |]. cbn [app hdr_run].
  destruct (hline_step h k f); [reflexivity | apply IH].
Qed.

(* ---- what one accepted line does to the port count, the rows and the columns ------------------------------------ *)
Lemma nnint_nonneg : forall f z, nnint f = Some z -> 0 <= z.
Proof.
  intros f z H. unfold nnint in H. destruct f as [| a [| b [| c r]]]; try discriminate.
  destruct (field_int b) as [v |]; [| discriminate]. destruct (v <? 0) eqn:E; [discriminate |].
  injection H as <-. apply Z.ltb_ge. exact E.
Qed.

Lemma z0_step_inv : forall h f h', hline_step h NKZ0 f = inr h' ->
  exists p, legacy_ports h = Some p /\ 0 <= p /\ n_ports h' = p /\ n_rows h' = n_rows h /\ n_columns h' = n_columns h /\
            eqm (match f with [_; _] => set_fz0 h | _ => match z0_values (tl f) with Some l => set_z0v h l | None => h end end) h' /\
            step3 h NKZ0 f = inr (match f with [_; _] => set_fz0 h | _ => match z0_values (tl f) with Some l => set_z0v h l | None => h end end).
Proof.
  intros h f h' H. unfold hline_step in H. destruct (legacy_ports h) as [p |]; [| discriminate].
  destruct (p <? 0) eqn:E; [discriminate |]. apply Z.ltb_ge in E. exists p. split; [reflexivity |]. split; [exact E |].
  cbn [step3].
  destruct f as [| a [| b [| c r]]].
  - destruct (Z.of_nat (length (@nil (list N))) =? 1 + 2 * p); [| discriminate].
    destruct (z0_values (tl [])); [| discriminate]. injection H as <-. fields. repeat split; reflexivity.
  - destruct (Z.of_nat (length [a]) =? 1 + 2 * p); [| discriminate].
    destruct (z0_values (tl [a])); [| discriminate]. injection H as <-. fields. repeat split; reflexivity.
  - destruct (bytes_eqb (map upcase (cstr b)) txt_per_frequency); [| discriminate]. injection H as <-. fields. repeat split; reflexivity.
  - destruct (Z.of_nat (length (a :: b :: c :: r)) =? 1 + 2 * p); [| discriminate].
    destruct (z0_values (tl (a :: b :: c :: r))); [| discriminate]. injection H as <-. fields. repeat split; reflexivity.
Qed.

Lemma ports_step_inv : forall h f h', hline_step h NKPorts f = inr h' ->
  n_ports h = -1 /\ exists z, nnint f = Some z /\ h' = set_nports h z.
Proof.
  intros h f h' H. unfold hline_step in H. destruct (n_ports h =? -1) eqn:E; [| discriminate].
  apply Z.eqb_eq in E. split; [exact E |]. cbn [negb] in H. destruct (nnint f) as [z |]; [| discriminate].
  injection H as <-. exists z. split; reflexivity.
Qed.

(* a line other than '#:ports' and '#:z0' does not look at the port count and leaves it alone *)
Lemma other_step : forall h g k f, k <> NKPorts -> k <> NKZ0 -> eqm h g ->
  match hline_step h k f, hline_step g k f with
  | inr h', inr g' => eqm h' g' /\ n_ports h' = n_ports h /\ n_ports g' = n_ports g /\
                      (k <> NKRows -> n_rows h' = n_rows h) /\ (k <> NKColumns -> n_columns h' = n_columns h) /\
                      (k = NKRows -> 0 <= n_rows h') /\ (k = NKColumns -> 0 <= n_columns h')
  | inl _, inl _ => True
  | _, _ => False
  end.
Proof.
  intros [p r c fq pa fp dp fz z] [p' r' c' fq' pa' fp' dp' fz' z'] k f Hp Hz E.
  unfold eqm in E. cbn in E. injection E as -> -> -> -> -> -> -> ->.
  destruct k; try congruence; cbn [hline_step]; fields.
  - destruct f as [| a [| v t]]; try exact I. destruct (bytes_eqb (cstr v) NpdLoad.txt_1_0); [| exact I].
    repeat split; try reflexivity; try discriminate.
  - destruct (nnint f) as [v |] eqn:Q; [| exact I]. fields. pose proof (nnint_nonneg _ _ Q).
    repeat split; try reflexivity; try discriminate; try congruence; intros; assumption.
  - destruct (nnint f) as [v |] eqn:Q; [| exact I]. fields. pose proof (nnint_nonneg _ _ Q).
    repeat split; try reflexivity; try discriminate; try congruence; intros; assumption.
  - destruct (nnint f) as [v |]; [| exact I]. fields. repeat split; try reflexivity; try discriminate.
  - destruct f as [| a [| v [| w t]]]; try exact I. destruct (set_format v); [| exact I]. fields.
    repeat split; try reflexivity; try discriminate.
  - destruct (nnint f) as [v |]; [| exact I]. destruct ((v <? 1) || (1000 <? v)); [exact I |]. fields.
    repeat split; try reflexivity; try discriminate.
  - destruct (nnint f) as [v |]; [| exact I]. destruct ((v <? 1) || (1000 <? v)); [exact I |]. fields.
    repeat split; try reflexivity; try discriminate.
Qed.

Lemma eqm_refl : forall h, eqm h h. Proof. reflexivity. Qed.
Lemma eqm_trans : forall a b c, eqm a b -> eqm b c -> eqm a c. Proof. unfold eqm; intros; congruence. Qed.
Lemma eqm_sym : forall a b, eqm a b -> eqm b a. Proof. unfold eqm; intros; congruence. Qed.
Lemma eqm_set : forall h z, eqm (set_nports h z) h. Proof. intros [p r c fq pa fp dp fz z0] z. reflexivity. Qed.
Lemma eqm_fields : forall a b, eqm a b -> n_rows a = n_rows b /\ n_columns a = n_columns b.
Proof. intros [p r c fq pa fp dp fz z] [p' r' c' fq' pa' fp' dp' fz' z'] E. unfold eqm in E. cbn in E. injection E; intros; subst; cbn; auto. Qed.
Lemma eqm_ports : forall a b, eqm a b -> n_ports a = n_ports b -> a = b.
Proof.
  intros [p r c fq pa fp dp fz z] [p' r' c' fq' pa' fp' dp' fz' z'] E H. unfold eqm in E. cbn in E, H.
  injection E; intros; subst; reflexivity.
Qed.

Lemma nkey_eq_dec_aux : forall k, (k = NKPorts \/ k = NKZ0) \/ (k <> NKPorts /\ k <> NKZ0).
Proof. destruct k; try (right; split; discriminate); left; [left | right]; reflexivity. Qed.

(* step3 respects eqm and is what hline_step stores *)
Lemma step3_eqm : forall h g k f, eqm h g ->
  match step3 h k f, step3 g k f with
  | inr h', inr g' => eqm h' g'
  | inl _, inl _ => True
  | _, _ => False
  end.
Proof.
  intros h g k f E. destruct (nkey_eq_dec_aux k) as [[-> | ->] | [Hp Hz]].
  - cbn [step3]. destruct (nnint f); [| exact I]. eapply eqm_trans; [apply eqm_set |]. eapply eqm_trans; [exact E |]. apply eqm_sym, eqm_set.
  - cbn [step3].
    assert (A : eqm (set_fz0 h) (set_fz0 g)) by (destruct h, g; unfold eqm in *; cbn in *; injection E; intros; subst; reflexivity).
    assert (B : forall l, eqm (set_z0v h l) (set_z0v g l)) by (intro l; destruct h, g; unfold eqm in *; cbn in *; injection E; intros; subst; reflexivity).
    destruct f as [| a [| b [| c r]]]; try (destruct (z0_values _); [apply B | exact I]).
    destruct (bytes_eqb _ _); [exact A | exact I].
  - assert (S : forall x, step3 x k f = hline_step x k f) by (intro x; destruct k; try reflexivity; congruence).
    rewrite !S. pose proof (other_step h g k f Hp Hz E) as O.
    destruct (hline_step h k f), (hline_step g k f); try exact O. exact (proj1 O).
Qed.

(* ---- the loader's run and run3 ------------------------------------------------------------------------------------ *)
Lemma run_sim : forall l h g hf, hdr_run h l = inr hf -> eqm h g -> exists gf, run3 g l = inr gf /\ eqm hf gf.
Proof.
  induction l as [| [k f] l IH]; intros h g hf R E; cbn [hdr_run run3] in *.
  - injection R as <-. exists g. split; [reflexivity | exact E].
  - destruct (hline_step h k f) as [c | h'] eqn:S; [discriminate |].
    assert (X : exists g', step3 g k f = inr g' /\ eqm h' g').
    { destruct (nkey_eq_dec_aux k) as [[-> | ->] | [Hp Hz]].
      - destruct (ports_step_inv _ _ _ S) as (_ & z & Hn & ->). cbn [step3]. rewrite Hn. eexists. split; [reflexivity |].
        eapply eqm_trans; [apply eqm_set |]. eapply eqm_trans; [exact E |]. apply eqm_sym, eqm_set.
      - destruct (z0_step_inv _ _ _ S) as (p & _ & _ & _ & _ & _ & E1 & S3).
        pose proof (step3_eqm h g NKZ0 f E) as Q. rewrite S3 in Q. destruct (step3 g NKZ0 f) as [c | g']; [contradiction |].
        exists g'. split; [reflexivity |]. eapply eqm_trans; [apply eqm_sym; exact E1 | exact Q].
      - assert (S3 : step3 g k f = hline_step g k f) by (destruct k; try reflexivity; congruence).
        pose proof (other_step h g k f Hp Hz E) as O. rewrite S in O. rewrite S3.
        destruct (hline_step g k f) as [c | g']; [contradiction |]. exists g'. split; [reflexivity | exact (proj1 O)]. }
    destruct X as (g' & -> & E'). exact (IH _ _ _ R E').
Qed.

Definition alike3 (a b : nclass + nhdr) : Prop :=
  match a, b with inl _, inl _ => True | inr x, inr y => x = y | _, _ => False end.

Lemma step3_comm : forall h a fa b fb, a <> b -> alike3 (run3 h [(a, fa); (b, fb)]) (run3 h [(b, fb); (a, fa)]).
Proof.
  intros [p r c fq pa fp dp fz0 z0] a fa b fb Hab.
  destruct a, b; try congruence; clear Hab; cbn [run3 step3];
    unfold hline_step, set_fz0, set_z0v, set_nports;
    cbn [n_ports n_rows n_columns n_frequencies n_params n_fprec n_dprec n_fz0 n_z0];
    repeat match goal with
           | |- context [match ?x with _ => _ end] =>
               match x with
               | context [match _ with _ => _ end] => fail 1
               | _ => destruct x eqn:?; cbn [alike3 step3 n_ports n_rows n_columns n_frequencies n_params n_fprec n_dprec n_fz0 n_z0]
               end
           | |- context [if ?x then _ else _] =>
               match x with
               | context [if _ then _ else _] => fail 1
               | _ => destruct x eqn:?; cbn [alike3 step3 n_ports n_rows n_columns n_frequencies n_params n_fprec n_dprec n_fz0 n_z0]
               end
           end; try exact I; try reflexivity; try congruence.
Qed.

Definition run3o (o : nclass + nhdr) (l : list (nkey * list (list N))) : nclass + nhdr :=
  match o with inl c => inl c | inr h => run3 h l end.
Lemma alike3_run3o : forall a b l, alike3 a b -> alike3 (run3o a l) (run3o b l).
Proof.
  intros [c | x] [c' | y] l H; cbn in *; try contradiction; [exact I |]. subst y.
  destruct (run3 x l); cbn; [exact I | reflexivity].
Qed.
Lemma alike3_trans : forall a b c, alike3 a b -> alike3 b c -> alike3 a c.
Proof. intros [? | x] [? | y] [? | z]; cbn; intros; try contradiction; try exact I; congruence. Qed.
Lemma alike3_refl : forall a, alike3 a a.
Proof. intros [? | x]; cbn; [exact I | reflexivity]. Qed.
Lemma run3_two : forall h a b l, run3 h (a :: b :: l) = run3o (run3 h [a; b]) l.
Proof.
  intros h [ka fa] [kb fb] l. cbn [run3 run3o]. destruct (step3 h ka fa) as [c | h1]; [reflexivity |].
  destruct (step3 h1 kb fb); reflexivity.
Qed.

Lemma run3_perm : forall l1 l2, Permutation l1 l2 -> NoDup (keys l1) -> forall h, alike3 (run3 h l1) (run3 h l2).
Proof.
  induction 1 as [| [k f] l l' HP IH | [kx fx] [ky fy] l | l l' l'' HP1 IH1 HP2 IH2]; intros Hnd h.
  - apply alike3_refl.
  - cbn [run3]. destruct (step3 h k f); [exact I |]. apply IH. cbn in Hnd. inversion Hnd; assumption.
  - rewrite (run3_two h (ky, fy) (kx, fx) l), (run3_two h (kx, fx) (ky, fy) l). apply alike3_run3o. apply step3_comm.
    cbn in Hnd. inversion Hnd as [| ? ? Hni _]; subst. intro E. apply Hni. left. symmetry. exact E.
  - eapply alike3_trans; [apply IH1; exact Hnd |]. apply IH2.
    eapply Permutation_NoDup; [apply Permutation_map; exact HP1 | exact Hnd].
Qed.

(* ---- the port count along an accepted run ------------------------------------------------------------------------ *)
Lemma step_ports_kept : forall h k f h', hline_step h k f = inr h' -> 0 <= n_ports h -> n_ports h' = n_ports h.
Proof.
  intros h k f h' S Hp. destruct (nkey_eq_dec_aux k) as [[-> | ->] | [Hk Hz]].
  - destruct (ports_step_inv _ _ _ S) as (E & _). lia.
  - destruct (z0_step_inv _ _ _ S) as (p & L & _ & E & _). rewrite E. unfold legacy_ports in L.
    replace (n_ports h <? 0) with false in L by (symmetry; apply Z.ltb_ge; exact Hp). cbn in L. congruence.
  - pose proof (other_step h h k f Hk Hz (eqm_refl h)) as O. rewrite S in O. exact (proj1 (proj2 O)).
Qed.
Lemma run_ports_kept : forall l h hf, hdr_run h l = inr hf -> 0 <= n_ports h -> n_ports hf = n_ports h.
Proof.
  induction l as [| [k f] l IH]; intros h hf R Hp; cbn [hdr_run] in R; [injection R as <-; reflexivity |].
  destruct (hline_step h k f) as [c | h'] eqn:S; [discriminate |].
  pose proof (step_ports_kept _ _ _ _ S Hp) as E. rewrite (IH _ _ R) by lia. exact E.
Qed.
Lemma run_ports_unset : forall l h hf, hdr_run h l = inr hf -> ~ In NKPorts (keys l) -> ~ In NKZ0 (keys l) -> n_ports hf = n_ports h.
Proof.
  induction l as [| [k f] l IH]; intros h hf R Hp Hz; cbn [hdr_run] in R; [injection R as <-; reflexivity |].
  destruct (hline_step h k f) as [c | h'] eqn:S; [discriminate |]. cbn in Hp, Hz.
  assert (Hk : k <> NKPorts) by (intro; apply Hp; left; (assumption || (symmetry; assumption))).
  assert (Hk' : k <> NKZ0) by (intro; apply Hz; left; (assumption || (symmetry; assumption))).
  pose proof (other_step h h k f Hk Hk' (eqm_refl h)) as O. rewrite S in O.
  rewrite (IH _ _ R); [exact (proj1 (proj2 O)) | intro; apply Hp; right; assumption | intro; apply Hz; right; assumption].
Qed.
(* rows / columns change only at their own line, and are not negative afterwards *)
Lemma step_dims : forall h k f h', hline_step h k f = inr h' ->
  (k <> NKRows -> n_rows h' = n_rows h) /\ (k <> NKColumns -> n_columns h' = n_columns h).
Proof.
  intros h k f h' S. destruct (nkey_eq_dec_aux k) as [[-> | ->] | [Hk Hz]].
  - destruct (ports_step_inv _ _ _ S) as (_ & z & _ & ->). destruct h; split; reflexivity.
  - destruct (z0_step_inv _ _ _ S) as (p & _ & _ & _ & E1 & E2 & _). split; intro; assumption.
  - pose proof (other_step h h k f Hk Hz (eqm_refl h)) as O. rewrite S in O. destruct O as (_ & _ & _ & A & B & _). split; assumption.
Qed.
Lemma run_dims_unset : forall l h hf, hdr_run h l = inr hf ->
  (~ In NKRows (keys l) -> n_rows hf = n_rows h) /\ (~ In NKColumns (keys l) -> n_columns hf = n_columns h).
Proof.
  induction l as [| [k f] l IH]; intros h hf R; cbn [hdr_run] in R; [injection R as <-; split; reflexivity |].
  destruct (hline_step h k f) as [c | h'] eqn:S; [discriminate |].
  destruct (step_dims _ _ _ _ S) as (A & B). destruct (IH _ _ R) as (IA & IB). cbn [keys map fst In].
  split; intro H.
  - rewrite IA by (intro; apply H; right; assumption). apply A. intro; apply H; left; (assumption || (symmetry; assumption)).
  - rewrite IB by (intro; apply H; right; assumption). apply B. intro; apply H; left; (assumption || (symmetry; assumption)).
Qed.
Lemma run_dims_seen : forall l h hf, hdr_run h l = inr hf ->
  (n_rows hf = n_rows h \/ In NKRows (keys l)) /\ (n_columns hf = n_columns h \/ In NKColumns (keys l)).
Proof.
  intros l h hf R. destruct (run_dims_unset _ _ _ R) as (A & B). split.
  - destruct (in_dec (fun a b : nkey => ltac:(decide equality) : {a = b} + {a <> b}) NKRows (keys l)); [right; assumption | left; auto].
  - destruct (in_dec (fun a b : nkey => ltac:(decide equality) : {a = b} + {a <> b}) NKColumns (keys l)); [right; assumption | left; auto].
Qed.

Lemma keys_app : forall a b, keys (a ++ b) = keys a ++ keys b.
Proof. intros; unfold keys; apply map_app. Qed.

(* with a '#:ports' line the port count is the number on it *)
Lemma ports_line_final : forall l f h0 hf, In (NKPorts, f) l -> hdr_run h0 l = inr hf -> nnint f = Some (n_ports hf).
Proof.
  intros l f h0 hf Hin R. destruct (in_split _ _ Hin) as (pre & post & ->).
  rewrite hdr_run_app in R. destruct (hdr_run h0 pre) as [c | hp]; [discriminate |]. cbn [hdr_run] in R.
  destruct (hline_step hp NKPorts f) as [c | h'] eqn:S; [discriminate |].
  destruct (ports_step_inv _ _ _ S) as (_ & z & Hn & ->). pose proof (nnint_nonneg _ _ Hn) as Hz.
  rewrite (run_ports_kept _ _ _ R) by (destruct hp; cbn; exact Hz). destruct hp; cbn. exact Hn.
Qed.

(* without one, a '#:z0' line fixes it to the (legacy) number of columns *)
Lemma z0_line_final : forall l hf, NoDup (keys l) -> ~ In NKPorts (keys l) -> In NKZ0 (keys l) ->
  hdr_run nh0 l = inr hf -> n_ports hf = n_columns hf.
Proof.
  intros l hf Hnd Hnp Hz R. unfold keys in Hz. apply in_map_iff in Hz. destruct Hz as ([k fz] & Ek & Hin). cbn in Ek. subst k.
  destruct (in_split _ _ Hin) as (pre & post & ->).
  rewrite keys_app in Hnd, Hnp. cbn [keys map fst] in Hnd, Hnp. fold (keys post) in Hnd, Hnp.
  rewrite hdr_run_app in R. destruct (hdr_run nh0 pre) as [c | hp] eqn:Rp; [discriminate |]. cbn [hdr_run] in R.
  destruct (hline_step hp NKZ0 fz) as [c | h'] eqn:S; [discriminate |].
  assert (Hpre_z : ~ In NKZ0 (keys pre)) by (intro X; apply (NoDup_remove_2 _ _ _ Hnd); apply in_or_app; left; exact X).
  assert (Hpre_p : ~ In NKPorts (keys pre)) by (intro X; apply Hnp; apply in_or_app; left; exact X).
  pose proof (run_ports_unset _ _ _ Rp Hpre_p Hpre_z) as Ep. cbn in Ep.
  destruct (z0_step_inv _ _ _ S) as (p & L & Hp0 & En & _ & Ec & _).
  unfold legacy_ports in L. rewrite Ep in L. cbn [Z.ltb Z.compare andb] in L.
  destruct (0 <=? n_rows hp) eqn:Er; cbn [andb] in L; [| injection L as <-; lia].
  destruct (0 <=? n_columns hp) eqn:Ecol; [| injection L as <-; lia].
  destruct (n_rows hp =? n_columns hp); [| discriminate]. injection L as <-.
  apply Z.leb_le in Ecol.
  assert (Hcin : In NKColumns (keys pre)).
  { destruct (proj2 (run_dims_seen _ _ _ Rp)) as [E | I']; [cbn in E; lia | exact I']. }
  assert (Hpost : ~ In NKColumns (keys post)).
  { intro X. apply NoDup_remove_1 in Hnd. rewrite <- keys_app in Hnd.
    assert (N2 : NoDup (keys pre ++ keys post)) by (rewrite <- keys_app; exact Hnd).
    clear - N2 Hcin X. induction (keys pre) as [| a t IH]; [contradiction |].
    cbn in N2. inversion N2 as [| ? ? Hn Ht]; subst. destruct Hcin as [-> | Hc]; [apply Hn; apply in_or_app; right; exact X | exact (IH Hc Ht)]. }
  rewrite (run_ports_kept _ _ _ R) by lia. rewrite (proj2 (run_dims_unset _ _ _ R) Hpost). congruence.
Qed.

(* npd_header_order: two orders of the same header lines (each keyword at most once) that the loader accepts leave the
   same header state - '#:z0' and the legacy '#:rows' / '#:columns' included *)
Theorem npd_header_order_full_lemma : forall l1 l2 h1 h2, Permutation l1 l2 -> NoDup (keys l1) ->
  hdr_run nh0 l1 = inr h1 -> hdr_run nh0 l2 = inr h2 -> h1 = h2.
Proof.
  intros l1 l2 h1 h2 HP Hnd R1 R2.
  destruct (run_sim _ _ _ _ R1 (eqm_refl nh0)) as (g1 & G1 & E1).
  destruct (run_sim _ _ _ _ R2 (eqm_refl nh0)) as (g2 & G2 & E2).
  pose proof (run3_perm _ _ HP Hnd nh0) as A. rewrite G1, G2 in A. cbn in A. subst g2.
  assert (E : eqm h1 h2) by (eapply eqm_trans; [exact E1 | apply eqm_sym; exact E2]).
  apply eqm_ports; [exact E |].
  assert (HPk : Permutation (keys l1) (keys l2)) by (apply Permutation_map; exact HP).
  assert (Hnd2 : NoDup (keys l2)) by (eapply Permutation_NoDup; eassumption).
  destruct (in_dec (fun a b : nkey => ltac:(decide equality) : {a = b} + {a <> b}) NKPorts (keys l1)) as [Ip | Np].
  - unfold keys in Ip. apply in_map_iff in Ip. destruct Ip as ([k f] & Ek & Hin). cbn in Ek. subst k.
    pose proof (ports_line_final _ _ _ _ Hin R1) as A1.
    pose proof (ports_line_final _ _ _ _ (Permutation_in _ HP Hin) R2) as A2. congruence.
  - assert (Np2 : ~ In NKPorts (keys l2)) by (intro X; apply Np; eapply Permutation_in; [apply Permutation_sym; exact HPk | exact X]).
    destruct (in_dec (fun a b : nkey => ltac:(decide equality) : {a = b} + {a <> b}) NKZ0 (keys l1)) as [Iz | Nz].
    + rewrite (z0_line_final _ _ Hnd Np Iz R1), (z0_line_final _ _ Hnd2 Np2 (Permutation_in _ HPk Iz) R2).
      exact (proj2 (eqm_fields _ _ E)).
    + assert (Nz2 : ~ In NKZ0 (keys l2)) by (intro X; apply Nz; eapply Permutation_in; [apply Permutation_sym; exact HPk | exact X]).
      rewrite (run_ports_unset _ _ _ R1 Np Nz), (run_ports_unset _ _ _ R2 Np2 Nz2). reflexivity.
Qed.

Lemma z0_before_ports_rejected_lemma' : forall h fz, n_ports h = -1 -> (n_rows h = -1 \/ n_columns h = -1) ->
  hline_step h NKZ0 fz = inl NEBADMSG.
Proof.
  intros h fz Hp [Hr | Hc]; unfold hline_step, legacy_ports; rewrite Hp; [rewrite Hr | rewrite Hc]; cbn;
    [| destruct (0 <=? n_rows h)]; reflexivity.
Qed.

(* ---- the refused orders --------------------------------------------------------------------------------------------- *)
(* '#:z0' before the port count is known: no '#:ports' line and not both legacy lines before it *)
Theorem z0_early_refused_lemma : forall pre fz post, ~ In NKPorts (keys pre) -> ~ In NKZ0 (keys pre) ->
  (~ In NKRows (keys pre) \/ ~ In NKColumns (keys pre)) ->
  exists c, hdr_run nh0 (pre ++ (NKZ0, fz) :: post) = inl c.
Proof.
  intros pre fz post Hp Hz Hd. rewrite hdr_run_app. destruct (hdr_run nh0 pre) as [c | hp] eqn:Rp; [exists c; reflexivity |].
  cbn [hdr_run]. pose proof (run_ports_unset _ _ _ Rp Hp Hz) as Ep. cbn in Ep.
  destruct (run_dims_unset _ _ _ Rp) as (A & B).
  rewrite z0_before_ports_rejected_lemma'; [eexists; reflexivity | exact Ep |].
  destruct Hd as [H | H]; [left; rewrite (A H) | right; rewrite (B H)]; reflexivity.
Qed.

(* '#:ports' after an accepted '#:z0' (which has fixed the port count) *)
Theorem ports_after_z0_refused_lemma : forall h pre fz mid f post,
  exists c, hdr_run h (pre ++ (NKZ0, fz) :: mid ++ (NKPorts, f) :: post) = inl c.
Proof.
  intros h pre fz mid f post. rewrite hdr_run_app. destruct (hdr_run h pre) as [c | hp]; [exists c; reflexivity |].
  cbn [hdr_run]. destruct (hline_step hp NKZ0 fz) as [c | h'] eqn:S; [exists c; reflexivity |].
  rewrite hdr_run_app. destruct (hdr_run h' mid) as [c | hm] eqn:Rm; [exists c; reflexivity |]. cbn [hdr_run].
  destruct (z0_step_inv _ _ _ S) as (p & _ & Hp & En & _).
  pose proof (run_ports_kept _ _ _ Rm ltac:(lia)) as Ek.
  unfold hline_step at 1. replace (n_ports hm =? -1) with false by (symmetry; apply Z.eqb_neq; lia). cbn [negb].
  exists NEBADMSG. reflexivity.
Qed.

(* every accepted order has '#:z0' after the lines the port count comes from *)
Theorem accepted_z0_position_lemma : forall l h, NoDup (keys l) -> hdr_run nh0 l = inr h -> z0_position_ok l.
Proof.
  intros l h Hnd R pre fz post -> k Hk.
  destruct (in_dec (fun a b : nkey => ltac:(decide equality) : {a = b} + {a <> b}) k (keys pre)) as [I' | Nk]; [exact I' | exfalso].
  rewrite keys_app in Hnd. cbn [keys map fst] in Hnd. fold (keys post) in Hnd.
  assert (Hpre_z : ~ In NKZ0 (keys pre)) by (intro X; apply (NoDup_remove_2 _ _ _ Hnd); apply in_or_app; left; exact X).
  unfold port_source in Hk.
  destruct (existsb (fun k0 => match k0 with NKPorts => true | _ => false end) (keys (pre ++ (NKZ0, fz) :: post))) eqn:Ex.
  - destruct Hk as [<- | []]. apply existsb_exists in Ex. destruct Ex as (x & Hx & Ex). destruct x; try discriminate.
    rewrite keys_app in Hx. apply in_app_or in Hx. destruct Hx as [Hx | Hx]; [exact (Nk Hx) |].
    cbn in Hx. destruct Hx as [Hx | Hx]; [discriminate |].
    unfold keys in Hx. apply in_map_iff in Hx. destruct Hx as ([k' f] & Ek & Hin). cbn in Ek. subst k'.
    destruct (in_split _ _ Hin) as (mid & post' & ->).
    destruct (ports_after_z0_refused_lemma nh0 pre fz mid f post') as (c & Hc). congruence.
  - assert (Np : ~ In NKPorts (keys pre)).
    { intro X. assert (T : existsb (fun k0 => match k0 with NKPorts => true | _ => false end) (keys (pre ++ (NKZ0, fz) :: post)) = true).
      { apply existsb_exists. exists NKPorts. split; [rewrite keys_app; apply in_or_app; left; exact X | reflexivity]. }
      congruence. }
    destruct (z0_early_refused_lemma pre fz post Np Hpre_z) as (c & Hc); [| congruence].
    destruct Hk as [<- | [<- | []]]; [left | right]; exact Nk.
Qed.

Print Assumptions npd_header_order_full_lemma.
Print Assumptions accepted_z0_position_lemma.
