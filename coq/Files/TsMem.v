(* Pointer-level model of the Touchstone loader's OWN buffers (vnadata_load_touchstone.c) in the
   checked-memory monad of Mem/Alloc.v, as coded:
     tps_text            malloc(64) in _vnadata_load_touchstone; add_char doubles it with realloc when
                         tps_text_length + 1 >= tps_text_allocation, stores at [length++]; end_text stores the
                         NUL at [length]; strcmp / strtol / strtod / the option switch read [0 .. length];
     tps_value_vector    parse_data_line: count = 0, then per T_DOUBLE: realloc to 9 / twice the allocation
                         when count >= allocation, store at [count++]; load_touchstone1 reads the values of
                         an accepted line by index;
     reference           calloc(tps_ports, sizeof(double complex)) at [Reference], stores reference[i] for
                         i < tps_ports, read by vnadata_set_z0_vector before [Network Data];
     out:                free(reference); free(tps_text); free(tps_value_vector) on success and on every error.
   The model is layered on the raw token stream of TsTok.v and the parser automaton of TsParse.v: one step
   per raw token = the text operations of the scanner for that token, then the buffer operations of the
   code that handles the token next_token returns.  Every request can fail (fail_at of the monad):
     add_char fails in a keyword  -> next_token returns -1, errno ENOMEM           (MNoMem)
     add_char fails in a word     -> next_token returns 0 with T_ERROR: the parser goes on with that token
     realloc of the value vector / calloc of the reference fail -> -1, ENOMEM       (MNoMem)
   Requests of other modules (vnadata_init, _vnadata_error ...) are not requests of this model.
   The model also records, in order, the calls the loader makes on the destination object (t_log), taking into
   account that two decisions of the parser (a data line of a version-1 file ended by a newline, the checks after
   [Network Data]) are acted on only after the NEXT token has been read (t_pend, MLook).
   No proofs in this file. *)
Require Import List NArith ZArith Bool.
Import ListNotations.
Require Import LV.Files.TsTok LV.Files.TsParse LV.Mem.Alloc.
Open Scope Z_scope.

(* ---- checked arrays in the monad ------------------------------------------------------------------ *)
Definition lift {A} (r : res A) : M A :=
  fun s => match r with Alloc.Ok a => Alloc.Ok (a, s) | Fault f => Fault f end.

(* realloc to n cells: the old contents, then uninitialised cells *)
Definition grow {A} (a : carray A) (n : Z) : carray A :=
  mkArr (cells a ++ repeat Uninit (Z.to_nat (n - calloc a))) n.
Definition fresh_arr {A} (n : Z) : carray A := mkArr (repeat (@Uninit A) (Z.to_nat n)) n.   (* malloc *)
Definition zero_arr {A} (v : A) (n : Z) : carray A := mkArr (repeat (Init v) (Z.to_nat n)) n. (* calloc *)
Definition empty_arr {A} : carray A := mkArr (@nil (Alloc.cell A)) 0.

(* the cells lo .. lo + n - 1 are read *)
Fixpoint rd_seq {A} (a : carray A) (lo : Z) (n : nat) : res unit :=
  match n with
  | O => Alloc.Ok tt
  | S k => match rd a lo with Alloc.Ok _ => rd_seq a (lo + 1) k | Fault f => Fault f end
  end.

(* ---- the parser's buffers --------------------------------------------------------------------------- *)
(* the calls the loader makes on the DESTINATION object, in order (the stores into cells are not recorded:
   they change neither shape nor mode).  Type codes are those of vnadata_parameter_type_t. *)
Inductive dop :=
  | DFiletype (k : Z)                   (* vdip->vdi_filetype = k *)
  | DFormat                             (* _vnadata_set_simple_format / vnadata_set_format succeeded *)
  | DInit (t r c f : Z)                 (* vnadata_init *)
  | DResize (t r c f : Z)               (* vnadata_resize *)
  | DAllZ0                              (* vnadata_set_all_z0 *)
  | DZ0Vec (n : nat)                    (* vnadata_set_z0_vector with a vector of n entries *)
  | DAddFreq                            (* vnadata_add_frequency of a value that is not < 0 *)
  | DSetFreq (i : Z)                    (* vnadata_set_frequency(vdp, i, ...) *)
  | DFz0Vec (i : Z) (n : nat).          (* vnadata_set_fz0_vector(vdp, i, vector of n entries) *)

Record tmem := mkT {
  t_text : option block_id; t_tarr : carray N; t_len : nat;        (* tps_text, its bytes, tps_text_length *)
  t_vv : option block_id; t_varr : carray xnum; t_vcount : nat;    (* tps_value_vector, tps_value_count *)
  t_ref : option block_id; t_rarr : carray xnum;                   (* reference *)
  t_log : list dop;                                                (* destination calls made so far, reversed *)
  t_pend : list dop }.                                             (* calls the code makes after the next token *)
(* tps_text_allocation = calloc (t_tarr m); tps_value_allocation = calloc (t_varr m) *)

Definition m_empty : tmem := mkT None empty_arr 0 None empty_arr 0 None empty_arr [] [].
Definition set_text m p a := mkT p a (t_len m) (t_vv m) (t_varr m) (t_vcount m) (t_ref m) (t_rarr m) (t_log m) (t_pend m).
Definition set_tarr_len m a n := mkT (t_text m) a n (t_vv m) (t_varr m) (t_vcount m) (t_ref m) (t_rarr m) (t_log m) (t_pend m).
Definition set_len m n := set_tarr_len m (t_tarr m) n.
Definition set_vv m p a := mkT (t_text m) (t_tarr m) (t_len m) p a (t_vcount m) (t_ref m) (t_rarr m) (t_log m) (t_pend m).
Definition set_varr_count m a n := mkT (t_text m) (t_tarr m) (t_len m) (t_vv m) a n (t_ref m) (t_rarr m) (t_log m) (t_pend m).
Definition set_vcount m n := set_varr_count m (t_varr m) n.
Definition set_ref m p a := mkT (t_text m) (t_tarr m) (t_len m) (t_vv m) (t_varr m) (t_vcount m) p a (t_log m) (t_pend m).
Definition set_logs m l q := mkT (t_text m) (t_tarr m) (t_len m) (t_vv m) (t_varr m) (t_vcount m) (t_ref m) (t_rarr m) l q.
(* the calls in [evs] are made now *)
Definition log_now m (evs : list dop) := set_logs m (rev evs ++ t_log m) (t_pend m).
(* the pending calls are made (a token was delivered) / are never made (the scan of the next token failed) *)
Definition flush m := set_logs m (rev (t_pend m) ++ t_log m) [].
Definition drop_pend m := set_logs m (t_log m) [].
Definition set_pend m (evs : list dop) := set_logs m (t_log m) evs.

(* ---- the token text --------------------------------------------------------------------------------- *)
(* add_char; None = realloc failed (-1), nothing changed *)
Definition add_char_m (m : tmem) (c : N) : M (option tmem) :=
  m1 <- (if calloc (t_tarr m) <=? Z.of_nat (t_len m) + 1 then
           p <- realloc (t_text m) (2 * calloc (t_tarr m)) ;;
           match p with
           | None => ret None
           | Some b => ret (Some (set_text m (Some b) (grow (t_tarr m) (2 * calloc (t_tarr m)))))
           end
         else ret (Some m)) ;;
  match m1 with
  | None => ret None
  | Some m' =>
      touch (t_text m') ;;;
      a <- lift (wr (t_tarr m') (Z.of_nat (t_len m')) c) ;;
      ret (Some (set_tarr_len m' a (S (t_len m'))))
  end.

(* the loop around add_char: stops at the first failure *)
Fixpoint add_chars_m (m : tmem) (t : list N) : M (bool * tmem) :=
  match t with
  | [] => ret (true, m)
  | c :: r => o <- add_char_m m c ;;
              match o with None => ret (false, m) | Some m' => add_chars_m m' r end
  end.

Definition end_text_m (m : tmem) : M tmem :=
  touch (t_text m) ;;;
  a <- lift (wr (t_tarr m) (Z.of_nat (t_len m)) 0%N) ;;
  ret (set_tarr_len m a (t_len m)).

(* strcmp / strtol / strtod / the switch on tps_text[0..2]: at most the bytes up to the NUL *)
Definition read_text_m (m : tmem) : M unit :=
  touch (t_text m) ;;; lift (rd_seq (t_tarr m) 0 (S (t_len m))).

Inductive scanres := ScOk (m : tmem) | ScNoMemKw (m : tmem) | ScNoMemWord (m : tmem).

(* start_text; add_char per byte; end_text (also on the failure exits); then the text is examined *)
Definition scan_text_m (kw : bool) (m : tmem) (t : list N) : M scanres :=
  r <- add_chars_m (set_len m 0) t ;;
  m2 <- end_text_m (snd r) ;;
  if fst r then read_text_m m2 ;;; ret (ScOk m2)
  else ret (if kw then ScNoMemKw m2 else ScNoMemWord m2).

Definition scan_tok_m (m : tmem) (x : rtok) : M scanres :=
  match x with
  | RWord t _ => scan_text_m false m t
  | RKw k => scan_text_m true m (kw_text k)
  | RErr (EBrace t) | RErr (EKeyword t) => scan_text_m true m t
  | _ => ret (ScOk m)
  end.

(* ---- the value vector ------------------------------------------------------------------------------- *)
Definition push_value_m (m : tmem) (x : xnum) : M (option tmem) :=
  m1 <- (if calloc (t_varr m) <=? Z.of_nat (t_vcount m) then
           let na := if calloc (t_varr m) =? 0 then 9 else 2 * calloc (t_varr m) in
           p <- realloc (t_vv m) (8 * na) ;;
           match p with
           | None => ret None
           | Some b => ret (Some (set_vv m (Some b) (grow (t_varr m) na)))
           end
         else ret (Some m)) ;;
  match m1 with
  | None => ret None
  | Some m' =>
      touch (t_vv m') ;;;
      a <- lift (wr (t_varr m') (Z.of_nat (t_vcount m')) x) ;;
      ret (Some (set_varr_count m' a (S (t_vcount m'))))
  end.

Definition read_values_m (m : tmem) (n : nat) : M unit :=
  match n with
  | O => ret tt
  | _ => touch (t_vv m) ;;; lift (rd_seq (t_varr m) 0 n)
  end.

(* ---- the [Reference] vector --------------------------------------------------------------------------- *)
Definition ref_alloc_m (m : tmem) (ports : Z) : M (option tmem) :=
  p <- malloc (16 * ports) ;;
  match p with
  | None => ret None
  | Some b => ret (Some (set_ref m (Some b) (zero_arr xq0 ports)))
  end.
Definition ref_write_m (m : tmem) (i : nat) (x : xnum) : M tmem :=
  touch (t_ref m) ;;;
  a <- lift (wr (t_rarr m) (Z.of_nat i) x) ;;
  ret (set_ref m (t_ref m) a).
(* vnadata_set_z0_vector(vdp, reference) copies one entry per port *)
Definition ref_read_m (m : tmem) (n : nat) : M unit :=
  touch (t_ref m) ;;; lift (rd_seq (t_rarr m) 0 n).

(* ---- what the parser does with its buffers while it handles one token --------------------------------- *)
Definition is_v1line (s : pst) : bool := match s with SV1Line _ _ _ => true | _ => false end.
Definition is_v2 (s : pst) : bool := match s with SV2 _ _ => true | _ => false end.

(* [Reference] accepted: calloc(tps_ports, ...) *)
Definition ref_event (s : pst) (t : token) : option Z :=
  match t with
  | TKw KReference =>
      match s with
      | SBody h | SInfo h =>
          if h_ports h <? 0 then None
          else match h_ref h with Some _ => None | None => Some (h_ports h) end
      | _ => None
      end
  | _ => None
  end.

(* the handlers that neither complete a data line nor store a [Reference] value *)
Definition pm_default (s : pst) (t : token) (m : tmem) : M (option tmem) :=
  match on_tok s t, t with
  | SV1Line _ _ _, TDouble x =>
      (* parse_data_line: tps_value_count = 0 on entry, then one store per T_DOUBLE *)
      push_value_m (if is_v1line s then m else set_vcount m 0) x
  | s', _ =>
    match ref_event s t with
    | Some p => ref_alloc_m m p
    | None =>
      match s' with
      | SV2 h d =>
          (* entering [Network Data]: vnadata_set_z0_vector(vdp, reference) *)
          if is_v2 s then ret (Some m)
          else match h_ref h with
               | Some l => ref_read_m m (length l) ;;; ret (Some m)
               | None => ret (Some m)
               end
      | _ => ret (Some m)
      end
    end
  end.

(* None = a request failed: the loader returns -1 with ENOMEM.  The state after the token is on_tok s t. *)
Definition parser_mem (s : pst) (t : token) (m : tmem) : M (option tmem) :=
  match s, t with
  | SV1Line h v acc, (TEol | TEof) =>
      (* a complete data line: load_touchstone1 reads the values of a line it accepts (none of a noise
         line); on a rejected line it has read at most the frequency *)
      match v1_line h v (rev acc) with
      | Some v' => (if v_noise v' then ret tt else read_values_m m (t_vcount m)) ;;; ret (Some m)
      | None => read_values_m m (Nat.min 1 (t_vcount m)) ;;; ret (Some m)
      end
  | SRef h (S k) acc, TDouble x =>
      if negb (xlt xq0 x) then ret (Some m)
      else m' <- ref_write_m m (length acc) x ;; ret (Some m')
  | _, _ => pm_default s t m
  end.

(* ---- the calls on the destination ------------------------------------------------------------------------ *)
Definition ptype_code (t : ptype) : Z := match t with PS => 1 | PZ => 4 | PY => 5 | PH => 6 | PG => 7 end.

(* "Update the vnadata structure": reached when the keyword loop ends on the current token *)
Definition handled_kw (k : kw) : bool :=
  match k with
  | KNumberOfPorts | KTwoPortOrder | KNumberOfFrequencies | KNumberOfNoiseFrequencies | KReference
  | KMatrixFormat | KMixedModeOrder | KBeginInformation => true
  | _ => false
  end.
Definition header_done (s : pst) (t : token) : option hdr :=
  match s with
  | SBody h => match t with TKw k => if handled_kw k then None else Some h | _ => Some h end
  | SInfo h => match t with
               | TKw KEndInformation => None
               | TKw k => if handled_kw k then None else Some h
               | _ => Some h
               end
  | SOpt h => match t with TEof => Some h | _ => None end
  | _ => None
  end.
Definition pre_events (s : pst) (t : token) : list dop :=
  match header_done s t with
  | Some h => [DFiletype (if h_v2 h then 2 else 1); DFormat]
  | None => []
  end.

Definition is_v1_header (h : hdr) : bool :=
  negb (h_v2 h) && (h_ports h =? -1) && (h_nfreq h =? -1) && match h_order h with None => true | Some _ => false end.

(* [Network Data] accepted: after the NEXT token the code checks the required keywords and calls vnadata_init
   (which resets the object and then refuses rows * columns > INT_MAX), then sets the reference impedances *)
Definition v2_init_events (h : hdr) : list dop :=
  let p := h_ports h in
  if p <? 0 then []
  else if h_nfreq h <? 0 then []
  else if (p =? 2) && match h_order h with None => true | Some _ => false end then []
  else if negb (p =? 2) && match h_order h with None => false | Some _ => true end then []
  else DInit (ptype_code (h_type h)) p p (h_nfreq h) ::
       (if int_max_sqrt <? p then []
        else [match h_ref h with Some l => DZ0Vec (length l) | None => DAllZ0 end]).

(* what load_touchstone1 does to the destination with one complete data line (the cases of v1_line) *)
Definition v1_events (h : hdr) (v : v1st) (vals : list xnum) : list dop :=
  let n := length vals in
  let t := ptype_code (h_type h) in
  let freq_ev := match vals with
                 | x :: _ => match v1_freq h v x with Some _ => [DAddFreq] | None => [] end
                 | [] => []
                 end in
  let init p := [DInit t p p 0; DAllZ0] in
  if v_first v then
    if Nat.even n || (n <? 3)%nat then []
    else if (n =? 5)%nat then init 2
    else if is_hg (h_type h) then (if (n =? 9)%nat then init 2 ++ freq_ev else [])
    else if (n =? 9)%nat then init 2 ++ freq_ev
    else init (Z.of_nat ((n - 1) / 2)) ++ freq_ev
  else if v_noise v then []
  else if (v_row v =? 0)%nat then
    if (v_ports v =? 2)%nat then
      if (n =? 9)%nat then freq_ev
      else if (n =? 5)%nat then []
      else if v_maybe4 v && (n =? 8)%nat then [DResize t 4 4 (Z.of_nat (length (v_freqs v))); DAllZ0]
      else []
    else if (n =? 1 + 2 * v_ports v)%nat then freq_ev else []
  else [].

(* calls made while the token is handled *)
Definition now_events (s : pst) (t : token) : list dop :=
  match s, t with
  | SV1Line h v acc, TEof => v1_events h v (rev acc)
  | SV2 h d, TDouble x =>
      if (d_left d =? 0)%N then []
      else match d_cur d, on_tok s t with
           | [], SV2 _ _ => [DSetFreq (Z.of_nat (length (d_freqs d)))]
           | _, _ => []
           end
  | _, _ => []
  end.
(* calls the code makes only after it has read the next token *)
Definition later_events (s : pst) (t : token) : list dop :=
  match s, t with
  | SV1Line h v acc, TEol => v1_events h v (rev acc)
  | _, TKw KNetworkData =>
      match header_done s t with
      | Some h => if is_v1_header h then [] else v2_init_events h
      | None => []
      end
  | _, _ => []
  end.
(* the token is rejected, but only after the next one has been read *)
Definition late_error (s : pst) (t : token) : bool :=
  match s, t with
  | SV1Line _ _ _, TEol => true
  | _, TKw KNetworkData => match header_done s t with Some h => negb (is_v1_header h) | None => false end
  | _, _ => false
  end.

(* ---- the loader ------------------------------------------------------------------------------------------ *)
(* MLook c: the parser has decided on class c but reads one more token (next_token(F_NONE)) before it acts *)
Inductive mst := MRun (s : pst) | MNoMem | MLook (c : eclass).
Definition terminal_p (s : pst) : bool := match s with SDone _ | SErr _ => true | _ => false end.

(* a token was delivered (rc 0): the pending calls are made, then the token is handled *)
Definition after_tok (s : pst) (t : token) (m : tmem) : M (mst * tmem) :=
  let m0 := log_now (flush m) (pre_events s t) in
  o <- parser_mem s t m0 ;;
  match o with
  | None => ret (MNoMem, m0)
  | Some m' =>
      let m'' := set_pend (log_now m' (now_events s t)) (later_events s t) in
      match on_tok s t with
      | SErr c => if late_error s t then ret (MLook c, m'') else ret (MRun (SErr c), m'')
      | s' => ret (MRun s', m'')
      end
  end.

Definition mstep (st : mst * tmem) (x : rtok) : M (mst * tmem) :=
  match fst st with
  | MNoMem => ret st
  | MLook c =>
      r <- scan_tok_m (snd st) x ;;
      match r with
      | ScNoMemKw m' => ret (MNoMem, drop_pend m')
      | ScNoMemWord m' => ret (MRun (SErr c), flush m')
      | ScOk m' =>
          match x with
          | RErr _ => ret (MRun (SErr EBADMSG), drop_pend m')
          | _ => match tok_of F_NONE x with
                 | None => ret (MLook c, m')
                 | Some _ => ret (MRun (SErr c), flush m')
                 end
          end
      end
  | MRun s =>
    if terminal_p s then ret st
    else
      r <- scan_tok_m (snd st) x ;;
      match r with
      | ScNoMemKw m' => ret (MNoMem, drop_pend m')
      | ScNoMemWord m' =>
          (* T_ERROR with return value 0: the parser goes on; after [Network Data] that is the refusal it had decided on *)
          match s with
          | SLate c => ret (MRun (SErr c), flush m')
          | _ => after_tok s TError m'
          end
      | ScOk m' =>
          match x with
          | RErr _ => ret (MRun (on_tok s TError), drop_pend m')     (* next_token returned -1: goto out *)
          | _ => match tok_of (flags_of s) x with
                 | None => ret (MRun s, m')
                 | Some t => after_tok s t m'
                 end
          end
      end
  end.

Fixpoint mrun (r : list rtok) (st : mst * tmem) : M (mst * tmem) :=
  match r with
  | [] => ret st
  | x :: r' => st' <- mstep st x ;; mrun r' st'
  end.

(* out: free(reference); free(tps_text); free(tps_value_vector) *)
Definition cleanup_m (m : tmem) : M unit :=
  free (t_ref m) ;;; free (t_text m) ;;; free (t_vv m).

Inductive mresult := MOk (o : tsobj) | MErr (c : eclass) | MENOMEM.
Definition result_of (st : mst) : mresult :=
  match st with
  | MNoMem => MENOMEM
  | MLook c => MErr c
  | MRun s => match pfinish s with TsParse.Ok o => MOk o | Error c => MErr c end
  end.

(* what the white-box harness can see: the sizes in bytes of the three blocks handed to free *)
Record mreport := mkrep { r_ref : option Z; r_text : option Z; r_vv : option Z; r_calls : list dop }.
Definition report (m : tmem) : mreport :=
  mkrep (match t_ref m with Some _ => Some (16 * calloc (t_rarr m)) | None => None end)
        (match t_text m with Some _ => Some (calloc (t_tarr m)) | None => None end)
        (match t_vv m with Some _ => Some (8 * calloc (t_varr m)) | None => None end)
        (rev (t_log m)).

Definition initial_text : Z := 64.          (* VNADATA_LOAD_INITIAL_TEXT_ALLOCATION *)

Definition mem_load_ts (bytes : list N) : M (mresult * mreport) :=
  p <- malloc initial_text ;;
  match p with
  | None => cleanup_m m_empty ;;; ret (MENOMEM, report m_empty)
  | Some b =>
      st <- mrun (tokens bytes) (MRun SStart, set_text m_empty (Some b) (fresh_arr initial_text)) ;;
      cleanup_m (snd st) ;;; ret (result_of (fst st), report (snd st))
  end.

(* ---- variant for the refutation: add_char as in the seeded change C09-3 (grows one character late) -------- *)
Definition add_char_late (m : tmem) (c : N) : M (option tmem) :=
  m1 <- (if calloc (t_tarr m) <=? Z.of_nat (t_len m) then
           p <- realloc (t_text m) (2 * calloc (t_tarr m)) ;;
           match p with
           | None => ret None
           | Some b => ret (Some (set_text m (Some b) (grow (t_tarr m) (2 * calloc (t_tarr m)))))
           end
         else ret (Some m)) ;;
  match m1 with
  | None => ret None
  | Some m' =>
      touch (t_text m') ;;;
      a <- lift (wr (t_tarr m') (Z.of_nat (t_len m')) c) ;;
      ret (Some (set_tarr_len m' a (S (t_len m'))))
  end.
Fixpoint add_chars_late (m : tmem) (t : list N) : M (bool * tmem) :=
  match t with
  | [] => ret (true, m)
  | c :: r => o <- add_char_late m c ;;
              match o with None => ret (false, m) | Some m' => add_chars_late m' r end
  end.
Definition scan_word_late (m : tmem) (t : list N) : M tmem :=
  r <- add_chars_late (set_len m 0) t ;; end_text_m (snd r).
