(* Instantiation of the saver model SaveEmit.v used by the tie of checks/c06_ties.py: a binary64 is a
   symbolic name (which frequency / z0 / cell / derived quantity it is), the number texts are those
   names encoded as numbers >= 1000 (no byte is), and the whole file is flattened to one list of
   numbers.  The tie decodes the names, formats the values with the C library's own print_value /
   printf and compares with the tokens of the bytes vnadata_fsave wrote.  No proofs in this file. *)
Require Import List NArith ZArith QArith Qcanon Bool.
Import ListNotations.
Require Import LV.Files.TsTok LV.Files.TsParse.
Require Import LV.Files.NpdScan LV.Files.SaveModel LV.Files.SaveEmit.
Open Scope N_scope.

Inductive sv :=
  | VF (i : nat) | VZ (p : nat) (im : bool) | VFZ (f p : nat) (im : bool)
  | VC (path : list (nat * nat * bool)) (f k : nat) (im : bool)     (* path: conversions applied (from, to, z0 all 1.0?) *)
  | VOne | VZero | VBad
  | VOp (op : nat) (a b c : sv).

Definition nn (n : nat) : N := 1000 + N.of_nat n.
Definition nb (b : bool) : N := if b then 1001 else 1000.
Fixpoint enc (x : sv) : list N :=
  match x with
  | VF i => [1010; nn i]
  | VZ p im => [1011; nn p; nb im]
  | VFZ f p im => [1012; nn f; nn p; nb im]
  | VC path f k im => [1013; nn (length path)] ++ flat_map (fun s => [nn (fst (fst s)); nn (snd (fst s)); nb (snd s)]) path ++ [nn f; nn k; nb im]
  | VOne => [1014] | VZero => [1015] | VBad => [1016]
  | VOp op a b c => [1017; nn op] ++ enc a ++ enc b ++ enc c
  end.
Definition pcode (t : ptype) : nat :=
  match t with PUNDEF => 0 | PS => 1 | PT => 2 | PU => 3 | PZ => 4 | PY => 5 | PH => 6 | PG => 7 | PA => 8 | PB => 9 | PZIN => 10 end%nat.

Definition tie_conv (from to : ptype) (z0 cells : list (sv * sv)) : list (sv * sv) :=
  match cells with
  | (VC path f _ _, _) :: _ =>
      let ones := match z0 with (VOne, _) :: _ => true | _ => false end in
      let p := path ++ [(pcode from, pcode to, ones)] in
      map (fun k => (VC p f k false, VC p f k true))
          (seq 0 (match to with PZIN => length z0 | _ => length cells end))
  | _ => []
  end.

Definition tie_env (zre zim : list xnum) : env sv :=
  mkenv VBad VOne VZero
    (fun x => match x with
              | VZ p false => nth p zre XNaN | VZ p true => nth p zim XNaN
              | VOne => xq1 | VZero => xq0 | _ => XNaN end)
    (fun p plus x => [1001; (1000 + Z.to_N p); nb plus] ++ enc x)
    (fun ap zin x => [1002; (1000 + Z.to_N ap); nb zin] ++ enc x)
    (fun z => [1003; (1000 + Z.to_N z)])
    (fun v => VOp 0 (fst v) (snd v) VBad) (fun v => VOp 1 (fst v) (snd v) VBad) (fun v => VOp 2 (fst v) (snd v) VBad)
    (fun v => VOp 3 (fst v) (snd v) VBad) (fun v => VOp 4 (fst v) (snd v) VBad)
    (fun f fq v => match f with
                   | PRC => (VOp 5 (fst v) (snd v) VBad, VOp 6 (fst v) (snd v) fq)
                   | PRL => (VOp 5 (fst v) (snd v) VBad, VOp 7 (fst v) (snd v) fq)
                   | SRC => (fst v, VOp 8 (fst v) (snd v) fq)
                   | _ => (fst v, VOp 9 (fst v) (snd v) fq)
                   end)
    tie_conv.

Definition kwcode (k : kw) : N :=
  match k with
  | KBeginInformation => 0 | KEndInformation => 1 | KMatrixFormat => 2 | KMixedModeOrder => 3 | KNetworkData => 4
  | KNoiseData => 5 | KNumberOfFrequencies => 6 | KNumberOfNoiseFrequencies => 7 | KNumberOfPorts => 8 | KReference => 9
  | KTwoPortOrder => 10 | KVersion => 11 | KEnd => 12
  end.
Definition flat_tok (x : rtok) : list N :=
  match x with
  | RKw k => [2100 + kwcode k]
  | RWord t opt => [2001] ++ t ++ [2002]
  | RNl b => [if b then 2004 else 2003]
  | ROption => [2005]
  | REof => [2006]
  | RErr _ => [2007]
  end.
Definition flat_saved (s : saved) : list N :=
  match s with
  | STouchstone r => 2020 :: flat_map flat_tok r
  | SNpd lines => 2021 :: flat_map (fun l => 2010 :: flat_map (fun f => 2001 :: f ++ [2002]) l) lines
  end.
