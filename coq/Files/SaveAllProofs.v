(* C06 headline: load_save_id for every object cksave accepts and every file type - a three-way case split over the
   final file type citing ts2_load_save_lemma, ts1_load_save_lemma (SaveEmitProofs.v) and npd_load_save_lemma with
   npd_premises_lemma (SaveNpdProofs.v). *)
Require Import List Arith NArith ZArith QArith Qcanon Bool Lia. Import ListNotations.
Require Import LV.Files.TsTok LV.Files.TsParse LV.Files.NpdLoad.
Require Import LV.Files.NpdScan LV.Files.SaveModel LV.Files.SaveEmit LV.Files.SaveEmitProofs LV.Files.SaveNpdProofs.

Section All.
  Variable D : Type.
  Variable E : env D.
  Variable rd : Z -> D -> xnum.
  Variable rda : Z -> bool -> D -> xnum.
  (* number-text layer, Touchstone tokens (upper-cased words) *)
  Hypothesis ptext_word : forall p s x, parse_double (up (v_ptext E p s x)) = Some (rd p x).
  Hypothesis atext_word : forall ap z x, parse_double (up (v_atext E ap z x)) = Some (rda ap z x).
  Hypothesis itext_int : forall z, (0 <= z <= 2147483647)%Z -> parse_int (v_itext E z) = Some z.
  Hypothesis rd_sign : forall p x, xlt xq0 (v_val E x) = true -> xlt xq0 (rd p x) = true.
  (* number-text layer, NPD fields *)
  Hypothesis ptext_field : forall p s x, field_double (v_ptext E p s x) = Some (rd p x).
  Hypothesis atext_field : forall ap z x, field_double (v_atext E ap z x) = Some (rda ap z x).
  Hypothesis ptext_cstr : forall p s x, cstr (v_ptext E p s x) = v_ptext E p s x.
  Hypothesis ptext_nohash : forall p s x, hd 0%N (v_ptext E p s x) <> 35%N.
  Hypothesis itext_field : forall z, (0 <= z <= 2147483647)%Z -> field_int (v_itext E z) = Some z.

  (* what is loaded from the file written for o, by final file type *)
  Definition loaded_ok (o : mobj D) (s : sobj) (f : saved) : Prop :=
    match f with
    | STouchstone st =>
        exists e, resolved s = [e] /\
          ((final_filetype s = TS2 /\ parse st = Ok (ts2_loaded D E rd rda o e)) \/
           (final_filetype s = TS1 /\ parse st = Ok (ts1_loaded D E rd rda o (print_obj E TS1 o) e)))
    | SNpd lines =>
        final_filetype s = NPD /\
        exists l1 e l2, resolved s = l1 ++ e :: l2 /\
          fst (sel (Z.of_nat (m_ports o)) (resolved s) (pbase D o) None 0) = Some (e, (pbase D o + sum_fields (Z.of_nat (m_ports o)) l1)%Z) /\
          nfinish (fold_left nstep lines (NHeader nh0)) = NOk (npd_loaded D E rd rda o e)
    end.

  Theorem c06_load_save_id_lemma : forall o ft0 promote fmt,
    let s := sobj_of E o ft0 promote fmt in
    (* invariants of a vnadata_t and of vnadata_convert *)
    mobj_wf D o -> mobj_inv D o -> conv_keeps_length D E -> conv_shape D E ->
    Forall (fun e => wf_entry e = true) (resolved s) ->
    (* the object is one vnadata_init accepts, and vnadata_cksave accepts the save *)
    wf_obj s = true -> cksave s = true ->
    (* Touchstone: the frequencies read back non-negative and ascending (the loader insists on it) *)
    (final_filetype s <> NPD -> freqs_readable D rd o) ->
    (* NPD: the field count of a line fits int, and one entry is loadable (otherwise known finding DF3) *)
    (final_filetype s = NPD -> (pbase D o + sum_fields (Z.of_nat (m_ports o)) (resolved s) <= 2147483647)%Z /\
                               Exists (fun e => pairform e = true) (resolved s)) ->
    loaded_ok o s (save_emit E o ft0 promote fmt).
  Proof.
    intros o ft0 promote fmt s Hwf Hinv Hck1 Hcs Hwfe Hwfo Hck Hts Hnpd.
    destruct (final_filetype s) eqn:Hfin.
    - destruct (ts1_load_save_lemma D E rd rda ptext_word atext_word rd_sign o ft0 promote fmt Hck1 Hwf Hwfo Hck Hfin)
        as (st & e & Hres & Hsave & _ & _ & Hparse); [apply Hts; discriminate |].
      rewrite Hsave. exists e. split; [exact Hres |]. right. split; [exact Hfin | exact Hparse].
    - destruct (ts2_load_save_lemma D E rd rda ptext_word atext_word itext_int rd_sign o ft0 promote fmt Hck1 Hwf Hwfo Hck Hfin)
        as (st & e & Hres & Hsave & Hparse); [apply Hts; discriminate |].
      rewrite Hsave. exists e. split; [exact Hres |]. left. split; [exact Hfin | exact Hparse].
    - destruct (Hnpd eq_refl) as [Hfit Hex].
      destruct (npd_premises_lemma D E o ft0 promote fmt Hinv Hcs Hwfo Hck Hfin Hwfe) as (Hnw & Hgood & Hfz & Hf0 & _).
      destruct (npd_load_save_lemma D E rd rda ptext_field atext_field ptext_cstr ptext_nohash itext_field o (resolved s)
                  Hnw Hex Hgood Hfz Hf0 Hfit) as (l1 & e & l2 & Hl & Hsel & Hload).
      unfold save_emit. fold s. rewrite Hfin. cbn [loaded_ok]. split; [exact Hfin |].
      exists l1, e, l2. repeat split; assumption.
  Qed.
End All.
