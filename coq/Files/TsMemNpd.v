(* Pointer-level model of the NPD loader's OWN buffers (vnadata_load_npd.c) in the checked-memory monad of
   Mem/Alloc.v, as coded:
     nss_text     NULL at first; add_char: when nss_text_size >= nss_text_allocation, realloc to
                  MAX(81, 2 * allocation); store at [size++].  scan_line restarts at size 0 for every line.
     nss_fields   NULL at first; start_field: when nss_field_count >= nss_field_allocation, realloc to
                  MAX(9, 2 * allocation) ints; store the offset nss_text_size at [count].
                  end_field: add_char('\0'), ++count.  FIELD(i) = &nss_text[nss_fields[i]].
     z0_vector    calloc(MAX(ports, 1), sizeof(double complex)) at the first '#:z0' line that carries values, or
                  after vnadata_init when '#:z0 PER-FREQUENCY' was given (represented by its block and size only).
     out:         free(z0_vector); free(nss_fields); free(nss_text) on success and on every error.
   Variant NFixed = with fix DB90 (end_field reports the failure of its add_char); NOrig = as found (the result
   is ignored: the field is counted although its NUL was not stored).
   The model runs on the lines and fields of NpdLoad.npd_lines and beside the loader automaton NpdLoad.nstep:
   one step per line = scan_line for that line (every field: start_field, add_char per byte, end_field), the
   record-type decision (FIELD(0); the joining of the '#:parameters' fields), then the accesses of
   _vnadata_load_npd to the fields of a record it accepts by count and to the z0 vector.
   No proofs in this file. *)
Require Import List NArith ZArith Bool.
Import ListNotations.
Require Import LV.Files.TsTok LV.Files.NpdScan LV.Files.NpdLoad LV.Mem.Alloc LV.Files.TsMem.
Open Scope Z_scope.

Inductive nvariant := NFixed | NOrig.

(* the calls on the destination: those of TsMem.dop and the two precisions, which the loader stores directly
   (vdip->vdi_fprecision = v, vdip->vdi_dprecision = v) *)
Inductive ndop := NCall (o : dop) | NFprec (v : Z) | NDprec (v : Z).

(* what the container invariant asks of a stored precision *)
Definition prec_ok (o : ndop) : bool := match o with NCall _ => true | NFprec v | NDprec v => 1 <=? v end.

Record nmem := mkN {
  n_text : option block_id; n_tarr : carray N; n_size : nat;      (* nss_text, nss_text_size *)
  n_fld : option block_id; n_farr : carray Z; n_count : nat;      (* nss_fields, nss_field_count *)
  n_z0 : option block_id; n_z0n : Z;                              (* z0_vector and its number of entries *)
  n_log : list ndop }.                                            (* calls on the destination so far, reversed *)
Definition nm_empty : nmem := mkN None empty_arr 0 None empty_arr 0 None 0 [].
Definition nset_text m p a n := mkN p a n (n_fld m) (n_farr m) (n_count m) (n_z0 m) (n_z0n m) (n_log m).
Definition nset_fld m p a n := mkN (n_text m) (n_tarr m) (n_size m) p a n (n_z0 m) (n_z0n m) (n_log m).
Definition nset_z0 m p n := mkN (n_text m) (n_tarr m) (n_size m) (n_fld m) (n_farr m) (n_count m) p n (n_log m).
Definition nlog m (evs : list ndop) := mkN (n_text m) (n_tarr m) (n_size m) (n_fld m) (n_farr m) (n_count m) (n_z0 m) (n_z0n m)
                                          (rev evs ++ n_log m).

(* ---- scan_line --------------------------------------------------------------------------------------- *)
Definition add_char_n (m : nmem) (c : N) : M (option nmem) :=
  m1 <- (if calloc (n_tarr m) <=? Z.of_nat (n_size m) then
           let na := Z.max 81 (2 * calloc (n_tarr m)) in
           p <- realloc (n_text m) na ;;
           match p with
           | None => ret None
           | Some b => ret (Some (nset_text m (Some b) (grow (n_tarr m) na) (n_size m)))
           end
         else ret (Some m)) ;;
  match m1 with
  | None => ret None
  | Some m' =>
      touch (n_text m') ;;;
      a <- lift (wr (n_tarr m') (Z.of_nat (n_size m')) c) ;;
      ret (Some (nset_text m' (n_text m') a (S (n_size m'))))
  end.

(* the loops stop at the first failure; the state at that point is what out: releases *)
Fixpoint add_chars_n (m : nmem) (t : list N) : M (bool * nmem) :=
  match t with
  | [] => ret (true, m)
  | c :: r => o <- add_char_n m c ;;
              match o with None => ret (false, m) | Some m' => add_chars_n m' r end
  end.

Definition start_field_n (m : nmem) : M (option nmem) :=
  m1 <- (if calloc (n_farr m) <=? Z.of_nat (n_count m) then
           let na := Z.max 9 (2 * calloc (n_farr m)) in
           p <- realloc (n_fld m) (4 * na) ;;
           match p with
           | None => ret None
           | Some b => ret (Some (nset_fld m (Some b) (grow (n_farr m) na) (n_count m)))
           end
         else ret (Some m)) ;;
  match m1 with
  | None => ret None
  | Some m' =>
      touch (n_fld m') ;;;
      a <- lift (wr (n_farr m') (Z.of_nat (n_count m')) (Z.of_nat (n_size m'))) ;;
      ret (Some (nset_fld m' (n_fld m') a (n_count m')))
  end.

Definition end_field_n (v : nvariant) (m : nmem) : M (bool * nmem) :=
  o <- add_char_n m 0%N ;;
  match o with
  | Some m' => ret (true, nset_fld m' (n_fld m') (n_farr m') (S (n_count m')))
  | None => match v with
            | NFixed => ret (false, m)
            | NOrig => ret (true, nset_fld m (n_fld m) (n_farr m) (S (n_count m)))
            end
  end.

(* one field: the bytes of '#:' fields include the two characters scan_line adds itself *)
Definition field_n (v : nvariant) (m : nmem) (f : list N) : M (bool * nmem) :=
  o <- start_field_n m ;;
  match o with
  | None => ret (false, m)
  | Some m1 => r <- add_chars_n m1 f ;;
               if fst r then end_field_n v (snd r) else ret r
  end.

Fixpoint fields_n (v : nvariant) (m : nmem) (fs : list (list N)) : M (bool * nmem) :=
  match fs with
  | [] => ret (true, m)
  | f :: r => o <- field_n v m f ;;
              if fst o then fields_n v (snd o) r else ret o
  end.

Definition scan_line_n (v : nvariant) (m : nmem) (line : list (list N)) : M (bool * nmem) :=
  fields_n v (nset_fld (nset_text m (n_text m) (n_tarr m) 0) (n_fld m) (n_farr m) 0) line.

(* ---- FIELD(i) ---------------------------------------------------------------------------------------------- *)
(* the offset is read from the field vector, then n bytes of the text from there *)
Definition read_field_n (m : nmem) (i : nat) (n : nat) : M unit :=
  touch (n_fld m) ;;;
  off <- lift (rd (n_farr m) (Z.of_nat i)) ;;
  touch (n_text m) ;;;
  lift (rd_seq (n_tarr m) off n).

(* the string FIELD(i): its bytes and the NUL *)
Definition read_str_n (m : nmem) (line : list (list N)) (i : nat) : M unit :=
  read_field_n m i (S (length (nth i line []))).

Fixpoint read_strs_n (m : nmem) (line : list (list N)) (lo n : nat) : M unit :=
  match n with
  | O => ret tt
  | S k => read_str_n m line lo ;;; read_strs_n m line (S lo) k
  end.

(* "join the parameter fields by comma": FIELD(s)[-1] = ',' for s = 2 .. count - 1 *)
Fixpoint join_n (m : nmem) (s n : nat) : M nmem :=
  match n with
  | O => ret m
  | S k =>
      touch (n_fld m) ;;;
      off <- lift (rd (n_farr m) (Z.of_nat s)) ;;
      touch (n_text m) ;;;
      a <- lift (wr (n_tarr m) (off - 1) 44%N) ;;
      join_n (nset_text m (n_text m) a (n_size m)) (S s) k
  end.

(* the record type: FIELD(0)[0]; for a '#' field the keyword is compared (or printed) as a string *)
Definition classify_n (m : nmem) (line : list (list N)) : M nmem :=
  match line with
  | [] => ret m
  | f0 :: _ =>
      (match f0 with
       | 35%N :: _ => read_str_n m line 0
       | _ => read_field_n m 0 1
       end) ;;;
      match record_of line with
      | RecKey NKParameters _ => join_n m 2 (length line - 2)
      | _ => ret m
      end
  end.

(* ---- _vnadata_load_npd ------------------------------------------------------------------------------------------ *)
Definition z0_entries (p : Z) : Z := Z.max p 1.
Definition z0_alloc_n (m : nmem) (p : Z) : M (option nmem) :=
  b <- malloc (16 * z0_entries p) ;;
  match b with
  | None => ret None
  | Some _ => ret (Some (nset_z0 m b (z0_entries p)))
  end.

(* the header record k with these fields, in header state h: accesses to fields and to the z0 vector.
   After the '#:parameters' join the record has two fields, the second one running to the end of the text. *)
Definition header_mem (h : nhdr) (k : nkey) (line : list (list N)) (m : nmem) : M (option nmem) :=
  match k with
  | NKParameters =>
      (match line with
       | _ :: f1 :: _ => read_field_n m 1 (n_size m - length (nth 0 line []) - 1)
       | _ => ret tt
       end) ;;; ret (Some m)
  | NKZ0 =>
      match legacy_ports h with
      | Some p =>
          if p <? 0 then ret (Some m)
          else if (length line =? 2)%nat then read_str_n m line 1 ;;; ret (Some m)   (* strcasecmp(.., "PER-FREQUENCY") *)
          else if Z.of_nat (length line) =? 1 + 2 * p then
            o <- (match n_z0 m with Some _ => ret (Some m) | None => z0_alloc_n m p end) ;;
            match o with
            | None => ret None
            | Some m' => read_strs_n m' line 1 (length line - 1) ;;; touch (n_z0 m') ;;; ret (Some m')
            end
          else ret (Some m)
      | None => ret (Some m)
      end
  | _ =>
      (* expect_nnint_arg / the version test: FIELD(1) when there are exactly / at least two fields *)
      (if (2 <=? length line)%nat then read_str_n m line 1 else ret tt) ;;; ret (Some m)
  end.

(* after the header (first data line or end of file): vnadata_init, then the z0 vector is handed to
   vnadata_set_z0_vector, or allocated for '#:z0 PER-FREQUENCY' *)
Definition post_header_mem (x : nctx) (m : nmem) : M (option nmem) :=
  match n_z0 m with
  | Some _ => touch (n_z0 m) ;;; ret (Some m)
  | None => if x_fz0 x then z0_alloc_n m (x_ports x) else ret (Some m)
  end.

(* a data line with the expected number of fields: the frequency, the per-frequency z0 fields (stored into
   the z0 vector, which vnadata_set_fz0_vector then reads), the two fields of every cell of the chosen parameter *)
Definition data_mem (x : nctx) (d : ndata) (line : list (list N)) (m : nmem) : M unit :=
  if (nd_left d <=? 0) || negb (Z.of_nat (length line) =? x_nfields x) then ret tt
  else
    read_str_n m line 0 ;;;
    (if x_fz0 x then read_strs_n m line 1 (2 * Z.to_nat (x_ports x)) ;;; touch (n_z0 m) else ret tt) ;;;
    read_strs_n m line (Z.to_nat (x_first x)) (2 * Z.to_nat (x_cells x)).

(* ---- the calls on the destination -------------------------------------------------------------------------------- *)
Definition nptype_code (t : ptype) : Z :=
  match t with PUNDEF => 0 | PS => 1 | PT => 2 | PU => 3 | PZ => 4 | PY => 5 | PH => 6 | PG => 7 | PA => 8 | PB => 9 | PZIN => 10 end.

(* a header record the loader accepts: vnadata_set_format, the two precisions (stored directly) *)
Definition header_events (k : nkey) (fields : list (list N)) : list ndop :=
  match k with
  | NKParameters => match fields with
                    | [_; a] => match set_format a with Some _ => [NCall DFormat] | None => [] end
                    | _ => []
                    end
  | NKFprecision => match nnint fields with Some z => if (z <? 1) || (1000 <? z) then [] else [NFprec z] | None => [] end
  | NKDprecision => match nnint fields with Some z => if (z <? 1) || (1000 <? z) then [] else [NDprec z] | None => [] end
  | _ => []
  end.
(* "Set-up the output matrix": vnadata_init, then the '#:z0' vector *)
Definition init_events (x : nctx) : list ndop :=
  map NCall (
  let zin := match e_par (x_best x) with PZIN => true | _ => false end in
  DInit (nptype_code (e_par (x_best x))) (if zin then 1 else x_ports x) (x_ports x) (x_nfreq x) ::
  match x_z0 x with Some _ => [DZ0Vec (Z.to_nat (z0_entries (x_ports x)))] | None => [] end).
(* one data line: vnadata_set_frequency, vnadata_set_fz0_vector *)
Definition data_events (x : nctx) (d : ndata) (line : list (list N)) : list ndop :=
  map NCall (
  if (nd_left d <=? 0) || negb (Z.of_nat (length line) =? x_nfields x) then []
  else match line with
       | f0 :: rest =>
           match field_double f0 with
           | None => []
           | Some _ =>
               let i := x_nfreq x - nd_left d in
               DSetFreq i ::
               (if x_fz0 x then
                  match take_pairs (Z.to_nat (x_ports x)) rest with
                  | Some _ => [DFz0Vec i (Z.to_nat (z0_entries (x_ports x)))]
                  | None => []
                  end
                else [])
           end
       | [] => []
       end).

Inductive nmst := NRun (s : nst) | NNoMem.

Definition nmstep (v : nvariant) (st : nmst * nmem) (line : list (list N)) : M (nmst * nmem) :=
  match fst st with
  | NNoMem => ret st
  | NRun (NErr _) => ret st
  | NRun s =>
      o <- scan_line_n v (snd st) line ;;
      if negb (fst o) then ret (NNoMem, snd o)
      else
          m2 <- classify_n (snd o) line ;;
          match s with
          | NHeader h =>
              match record_of line with
              | RecKey k fields =>
                  o2 <- header_mem h k line m2 ;;
                  match o2 with
                  | None => ret (NNoMem, m2)
                  | Some m3 => ret (NRun (nstep s line),
                                    match nstep s line with NErr _ => m3 | _ => nlog m3 (header_events k fields) end)
                  end
              | RecData fields =>
                  match post_header h with
                  | inr x =>
                      let m2' := nlog m2 (init_events x) in
                      o2 <- post_header_mem x m2' ;;
                      match o2 with
                      | None => ret (NNoMem, m2')
                      | Some m3 => data_mem x (mknd (x_nfreq x) [] [] []) line m3 ;;;
                                   ret (NRun (nstep s line), nlog m3 (data_events x (mknd (x_nfreq x) [] [] []) line))
                      end
                  | inl _ => ret (NRun (nstep s line), m2)
                  end
              | RecBad => ret (NRun (nstep s line), m2)
              end
          | NData x d =>
              (match record_of line with RecData _ => data_mem x d line m2 | _ => ret tt end) ;;;
              ret (NRun (nstep s line),
                   match record_of line with RecData _ => nlog m2 (data_events x d line) | _ => m2 end)
          | NErr _ => ret (NRun s, m2)
          end
  end.

Fixpoint nmrun (v : nvariant) (lines : list (list (list N))) (st : nmst * nmem) : M (nmst * nmem) :=
  match lines with
  | [] => ret st
  | l :: r => st' <- nmstep v st l ;; nmrun v r st'
  end.

(* end of file while still in the header: the code after the loop runs (vnadata_init, z0 vector) *)
Definition nfinish_mem (st : nmst * nmem) : M (nmst * nmem) :=
  match fst st with
  | NRun (NHeader h) =>
      match post_header h with
      | inr x => let m0 := nlog (snd st) (init_events x) in
                 o <- post_header_mem x m0 ;;
                 match o with None => ret (NNoMem, m0) | Some m => ret (fst st, m) end
      | inl _ => ret st
      end
  | _ => ret st
  end.

(* out: free(z0_vector); free(nss_fields); free(nss_text) *)
Definition ncleanup (m : nmem) : M unit := free (n_z0 m) ;;; free (n_fld m) ;;; free (n_text m).

Inductive nmresult := NMOk | NMErr (c : nclass) | NMENOMEM.
Definition nresult_of (st : nmst) : nmresult :=
  match st with
  | NNoMem => NMENOMEM
  | NRun s => match nfinish s with NOk _ => NMOk | NError c => NMErr c end
  end.
Record nreport := mknrep { nr_z0 : option Z; nr_fld : option Z; nr_text : option Z; nr_calls : list ndop }.
Definition nreport_of (m : nmem) : nreport :=
  mknrep (match n_z0 m with Some _ => Some (16 * n_z0n m) | None => None end)
         (match n_fld m with Some _ => Some (4 * calloc (n_farr m)) | None => None end)
         (match n_text m with Some _ => Some (calloc (n_tarr m)) | None => None end)
         (rev (n_log m)).

Definition mem_load_npd (v : nvariant) (bytes : list N) : M (nmresult * nreport) :=
  st <- nmrun v (npd_lines bytes) (NRun (NHeader nh0), nm_empty) ;;
  st' <- nfinish_mem st ;;
  ncleanup (snd st') ;;; ret (nresult_of (fst st'), nreport_of (snd st')).
