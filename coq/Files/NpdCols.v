(* NPD column forms: the conversion of the two numbers of a cell in _vnadata_load_npd as coded
       dB:  pow(10.0, v1 / 20.0) * cexp(I * M_PI / 180.0 * v2)
       MA:  v1 * cexp(I * M_PI / 180.0 * v2)
       RI:  v1 + I * v2
   over an abstract field with pow10 / cexp / pi as Section variables (see Files/TsFormat.v), and the records of a
   header as a list for the header-order statements.  No proofs in this file. *)
Require Import List NArith ZArith QArith Qcanon Bool.
Import ListNotations.
Require Import LV.Base.CField.
Require Import LV.Files.TsTok LV.Files.NpdScan LV.Files.NpdLoad.

Section NpdConvert.
  Variable K : CField.
  Variable ci : K.
  Variable cexp pow10 : K -> K.
  Variables twenty pi c180 : K.
  Local Open Scope cf_scope.

  (* None: a form that is not a (first, second) coordinate pair of a complex number (PRC ... VSWR) *)
  Definition npd_convert (f : form) (v1 v2 : K) : option K :=
    match f with
    | DB => Some (pow10 (v1 / twenty) * cexp (ci * pi / c180 * v2))
    | MA => Some (v1 * cexp (ci * pi / c180 * v2))
    | RI => Some (v1 + ci * v2)
    | _ => None
    end.
End NpdConvert.

(* the header loop on a list of header records (keyword, fields of the line); inl: the first error *)
Fixpoint hdr_run (h : nhdr) (l : list (nkey * list (list N))) : nclass + nhdr :=
  match l with
  | [] => inr h
  | (k, f) :: r => match hline_step h k f with inl c => inl c | inr h' => hdr_run h' r end
  end.
(* two outcomes are alike: both are refusals, or the same header state *)
Definition alike (a b : nclass + nhdr) : Prop :=
  match a, b with
  | inl _, inl _ => True
  | inr x, inr y => x = y
  | _, _ => False
  end.
Definition dims_key (k : nkey) : bool := match k with NKPorts | NKRows | NKColumns | NKZ0 => true | _ => false end.

(* ---- for the header-order theorem: the part of a header line that does not look at the port count ------------------
   [step3] stores what the line says without the two checks of the loader that depend on what came before
   ('#:ports' only once / not after '#:z0'; '#:z0' holds as many values as there are ports) and without the side effect
   of '#:z0' on the port count.  It is a proof device (every pair of different lines commutes under it), not a model of
   the C code: the model is NpdLoad.hline_step. *)
Definition keys (l : list (nkey * list (list N))) : list nkey := map fst l.
Definition set_fz0 (h : nhdr) : nhdr :=
  mknh (n_ports h) (n_rows h) (n_columns h) (n_frequencies h) (n_params h) (n_fprec h) (n_dprec h) true (n_z0 h).
Definition set_z0v (h : nhdr) (l : list (xnum * xnum)) : nhdr :=
  mknh (n_ports h) (n_rows h) (n_columns h) (n_frequencies h) (n_params h) (n_fprec h) (n_dprec h) (n_fz0 h) (Some l).
Definition step3 (h : nhdr) (k : nkey) (f : list (list N)) : nclass + nhdr :=
  match k with
  | NKPorts => match nnint f with Some z => inr (set_nports h z) | None => inl NEBADMSG end
  | NKZ0 =>
      match f with
      | [_; a] => if bytes_eqb (map upcase (cstr a)) txt_per_frequency then inr (set_fz0 h) else inl NEBADMSG
      | _ => match z0_values (tl f) with Some l => inr (set_z0v h l) | None => inl NEBADMSG end
      end
  | _ => hline_step h k f
  end.
Fixpoint run3 (h : nhdr) (l : list (nkey * list (list N))) : nclass + nhdr :=
  match l with
  | [] => inr h
  | (k, f) :: r => match step3 h k f with inl c => inl c | inr h' => run3 h' r end
  end.
(* equal but for the port count *)
Definition eqm (a b : nhdr) : Prop := set_nports a 0 = set_nports b 0.

(* where the port count comes from: the '#:ports' line if there is one, else both legacy lines *)
Definition port_source (l : list (nkey * list (list N))) : list nkey :=
  if existsb (fun k => match k with NKPorts => true | _ => false end) (keys l) then [NKPorts] else [NKRows; NKColumns].
(* '#:z0' stands after the lines the port count comes from *)
Definition z0_position_ok (l : list (nkey * list (list N))) : Prop :=
  forall pre fz post, l = pre ++ (NKZ0, fz) :: post -> forall k, In k (port_source l) -> In k (keys pre).
