(* NPD column forms: the conversion of the two numbers of a cell in _vnadata_load_npd as coded
       dB:  pow(10.0, v1 / 20.0) * cexp(I * M_PI / 180.0 * v2)
       MA:  v1 * cexp(I * M_PI / 180.0 * v2)
       RI:  v1 + I * v2
   over an abstract field with pow10 / cexp / pi as Section variables (see Files/TsFormat.v), and the records of a
   header as a list for the header-order statements.  No proofs in this file. *)
Require Import List NArith ZArith QArith Qcanon Bool.
Import ListNotations.
Require Import LV.Base.CField.
Require Import LV.Files.TsTok LV.Files.NpdScan LV.Files.NpdLoad.

Section NpdConvert.
  Variable K : CField.
  Variable ci : K.
  Variable cexp pow10 : K -> K.
  Variables twenty pi c180 : K.
  Local Open Scope cf_scope.

  (* None: a form that is not a (first, second) coordinate pair of a complex number (PRC ... VSWR) *)
  Definition npd_convert (f : form) (v1 v2 : K) : option K :=
    match f with
    | DB => Some (pow10 (v1 / twenty) * cexp (ci * pi / c180 * v2))
    | MA => Some (v1 * cexp (ci * pi / c180 * v2))
    | RI => Some (v1 + ci * v2)
    | _ => None
    end.
End NpdConvert.

(* the header loop on a list of header records (keyword, fields of the line); inl: the first error *)
Fixpoint hdr_run (h : nhdr) (l : list (nkey * list (list N))) : nclass + nhdr :=
  match l with
  | [] => inr h
  | (k, f) :: r => match hline_step h k f with inl c => inl c | inr h' => hdr_run h' r end
  end.
(* two outcomes are alike: both are refusals, or the same header state *)
Definition alike (a b : nclass + nhdr) : Prop :=
  match a, b with
  | inl _, inl _ => True
  | inr x, inr y => x = y
  | _, _ => False
  end.
Definition dims_key (k : nkey) : bool := match k with NKPorts | NKRows | NKColumns | NKZ0 => true | _ => false end.
