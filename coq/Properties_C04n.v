(* Property C04, n-port part.  The executable model of the n-port functions (LV.Conv.ConvN on
   LV.Lin.LuModel) is tied to the C code by exact-rational correspondence for n = 1..6 on every
   run (checks/convn_check.py); the theorems here state that at n = 2 that model equals the
   translated two-port functions, for either pivot order, and hence inherits Properties_C04.
   vnaconv_ytozin is covered by the correspondence only (no n = 2 theorem). *)
Require Import List.
Import ListNotations.
Require Import LV.Base.CField LV.Lin.MatL LV.Lin.LuModel LV.Lin.Lu2Cases LV.Conv.ConvN LV.Conv.ConvRel
               LV.Conv.ConvN2.
Require Import LV.Gen.Conv2_s LV.Gen.Conv2_z LV.Gen.Conv2_y LV.Gen.Conv2_zi.
Local Open Scope cf_scope.

Section P.
Variable K : CField.
Variable M : Type.
Variables (nrm2 : K -> M) (mulM : M -> M -> M) (zeroM : M) (scale_of_max : M -> M).

Theorem c04_lu2_two_pivot_orders (ltM : M -> M -> bool) (a b c d : K) :
  exists swap : bool,
    let s1 := lu K M nrm2 mulM ltM zeroM scale_of_max [[a; b]; [c; d]] 2 in
    let s2 := lu K M nrm2 mulM (fun _ _ => swap) zeroM scale_of_max [[a; b]; [c; d]] 2 in
    lu_a K M s1 = lu_a K M s2 /\ lu_ri K M s1 = lu_ri K M s2 /\ lu_d K M s1 = lu_d K M s2.
Proof. exact (lu2_cases K M nrm2 mulM zeroM scale_of_max ltM a b c d). Qed.

Theorem c04_stozn_eq_stoz (swap : bool) (m : m2 K) (z1 z2 : K) :
  char_ok K -> z0_ok z1 -> z0_ok z2 -> stoz_ok K m z1 z2 ->
  (if swap then m21 m <> 0 else 1 - m11 m <> 0) ->
  stozn K M nrm2 mulM (fun _ _ => swap) zeroM scale_of_max 2 (mat_of K m) [z1; z2] = mat_of K (stoz K m z1 z2).
Proof. exact (stozn2 K M nrm2 mulM zeroM scale_of_max swap m z1 z2). Qed.

Theorem c04_ztosn_eq_ztos (swap : bool) (m : m2 K) (z1 z2 : K) :
  char_ok K -> z0_ok z1 -> z0_ok z2 -> ztos_ok K m z1 z2 ->
  (if swap then m21 m <> 0 else m11 m + z1 <> 0) ->
  ztosn K M nrm2 mulM (fun _ _ => swap) zeroM scale_of_max 2 (mat_of K m) [z1; z2] = mat_of K (ztos K m z1 z2).
Proof. exact (ztosn2 K M nrm2 mulM zeroM scale_of_max swap m z1 z2). Qed.

Theorem c04_stoyn_eq_stoy (swap : bool) (m : m2 K) (z1 z2 : K) :
  char_ok K -> z0_ok z1 -> z0_ok z2 -> stoy_ok K m z1 z2 ->
  (if swap then m21 m <> 0 /\ z1 <> 0 else m11 m * z1 + cj z1 <> 0) ->
  stoyn K M nrm2 mulM (fun _ _ => swap) zeroM scale_of_max 2 (mat_of K m) [z1; z2] = mat_of K (stoy K m z1 z2).
Proof. exact (stoyn2 K M nrm2 mulM zeroM scale_of_max swap m z1 z2). Qed.

Theorem c04_ytosn_eq_ytos (swap : bool) (m : m2 K) (z1 z2 : K) :
  char_ok K -> z0_ok z1 -> z0_ok z2 -> ytos_ok K m z1 z2 ->
  (if swap then z2 <> 0 /\ m21 m <> 0 else z1 * m11 m + 1 <> 0) ->
  ytosn K M nrm2 mulM (fun _ _ => swap) zeroM scale_of_max 2 (mat_of K m) [z1; z2] = mat_of K (ytos K m z1 z2).
Proof. exact (ytosn2 K M nrm2 mulM zeroM scale_of_max swap m z1 z2). Qed.

Theorem c04_ztoyn_eq_ztoy (swap : bool) (m : m2 K) (z1 z2 : K) :
  char_ok K -> z0_ok z1 -> z0_ok z2 -> ztoy_ok K m z1 z2 ->
  (if swap then m21 m <> 0 else m11 m <> 0) ->
  ztoyn K M nrm2 mulM (fun _ _ => swap) zeroM scale_of_max 2 (mat_of K m) = mat_of K (ztoy K m z1 z2).
Proof. exact (ztoyn2 K M nrm2 mulM zeroM scale_of_max swap m z1 z2). Qed.

Theorem c04_ytozn_eq_ytoz (swap : bool) (m : m2 K) (z1 z2 : K) :
  char_ok K -> z0_ok z1 -> z0_ok z2 -> ytoz_ok K m z1 z2 ->
  (if swap then m21 m <> 0 else m11 m <> 0) ->
  ytozn K M nrm2 mulM (fun _ _ => swap) zeroM scale_of_max 2 (mat_of K m) = mat_of K (ytoz K m z1 z2).
Proof. exact (ytozn2 K M nrm2 mulM zeroM scale_of_max swap m z1 z2). Qed.

Theorem c04_ztozin_eq_ztozi (swap : bool) (m : m2 K) (z1 z2 : K) :
  char_ok K -> z0_ok z1 -> z0_ok z2 -> ztozi_ok K m z1 z2 ->
  (if swap then m21 m <> 0 else m11 m + z1 <> 0) ->
  ztozin K M nrm2 mulM (fun _ _ => swap) zeroM scale_of_max 2 (mat_of K m) [z1; z2] = vec_of K (ztozi K m z1 z2).
Proof. exact (ztozin2 K M nrm2 mulM zeroM scale_of_max swap m z1 z2). Qed.

Theorem c04_stozin_eq_stozi (m : m2 K) (z1 z2 : K) :
  stozin K 2 (mat_of K m) [z1; z2] = vec_of K (stozi K m z1 z2).
Proof. exact (stozin2 K m z1 z2). Qed.
End P.

Print Assumptions c04_lu2_two_pivot_orders.
Print Assumptions c04_stozn_eq_stoz.
Print Assumptions c04_ztosn_eq_ztos.
Print Assumptions c04_stoyn_eq_stoy.
Print Assumptions c04_ytosn_eq_ytos.
Print Assumptions c04_ztoyn_eq_ztoy.
Print Assumptions c04_ytozn_eq_ytoz.
Print Assumptions c04_ztozin_eq_ztozi.
Print Assumptions c04_stozin_eq_stozi.
