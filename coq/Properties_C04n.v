(* Property C04, n-port part.  The executable model of the n-port functions (LV.Conv.ConvN on
   LV.Lin.LuModel) is tied to the C code by exact-rational correspondence for n = 1..6 on every
   run (checks/convn_check.py).  Two groups of theorems about that model:
   (1) n = 2: the model equals the translated two-port functions, for either pivot order, and hence
       inherits Properties_C04.  Each theorem carries, besides the singular-set hypothesis X_ok of the
       two-port function, a PIVOT hypothesis `if swap then .. <> 0 else .. <> 0`: the entry that the
       chosen pivot order divides by (the first pivot of I - S, Z + Z0, ...) must be nonzero.  The
       theorems are stated for the two constant comparators; c04_lu2_two_pivot_orders shows that every
       comparator behaves like one of them at n = 2, and Properties_C19.c19_pivots_nonzero_iff_nonsingular
       (every n) shows that the real comparator (order premises, discharged at Qc) meets a nonzero pivot
       whenever the factored matrix is nonsingular; the two are not composed into one n = 2 statement.
       Non-vacuity of both hypotheses for both pivot orders: c04n_hypotheses_satisfiable.
       vnaconv_ytozin is covered by the correspondence only (no n = 2 theorem).
   (2) ALL n: the matrix returned by the model of vnaconv_stozn / stoyn / ztosn / ytosn / ztoyn / ytozn
       satisfies its own port relation of vnaconv(3) for exactly the electrical states that satisfy
       the input's relation (c04_*_same_states_all_n), stated at Q[i] with hypotheses on the INPUT only
       (the factored matrix has a trivial kernel; k_j <> 0; z_j + conj z_j <> 0), the pivot hypothesis
       being discharged by C19's theorem; the abstract-field versions (with pivots_nonzero as a premise)
       are Conv/ConvNModel.v.
   (3) ALL n, the three input-impedance functions vnaconv_stozin / ztozin / ytozin (Conv/ConvNZin.v,
       at Q[i] in Conv/ConvNZinQI.v): for EVERY electrical state of the network (a state satisfying the
       input matrix's port relation) in which every port other than t is terminated in its reference
       impedance (v_j = - z_j i_j, i.e. incident wave a_j = 0), v_t = zi_t * i_t with zi the vector
       the model returns: zi_t is the impedance seen looking into port t.  Hypotheses on the input
       only: k_j <> 0, the entry the function divides by is non-zero (1 - s_tt, resp. x_tt of the
       inverse it computes), and for ztozin / ytozin the factored matrix has a trivial kernel
       (z_j + conj z_j <> 0 for ytozin).  c04_zin_all_n_satisfiable: a concrete 3-port state with
       port 0 driven (non-zero current) and ports 1, 2 terminated meets every hypothesis of all three,
       and the three functions return the same impedance for it. *)
Require Import List.
Import ListNotations.
Require Import LV.Base.CField LV.Base.QcI LV.Lin.MatL LV.Lin.LuModel LV.Lin.LuQI LV.Lin.Lu2Cases LV.Conv.ConvN LV.Conv.ConvRel
               LV.Conv.ConvN2 LV.Conv.ConvExamples LV.Conv.ConvN2Examples LV.Lin.LuGenA LV.Lin.LuNonsing LV.Conv.ConvNModel LV.Conv.ConvNModelQI LV.Conv.ConvNZin LV.Conv.ConvNZinQI.
Require Import LV.Gen.Conv2_s LV.Gen.Conv2_z LV.Gen.Conv2_y LV.Gen.Conv2_zi.
Local Open Scope cf_scope.

Section P.
Variable K : CField.
Variable M : Type.
Variables (nrm2 : K -> M) (mulM : M -> M -> M) (zeroM : M) (scale_of_max : M -> M).

Theorem c04_lu2_two_pivot_orders (ltM : M -> M -> bool) (a b c d : K) :
  exists swap : bool,
    let s1 := lu K M nrm2 mulM ltM zeroM scale_of_max [[a; b]; [c; d]] 2 in
    let s2 := lu K M nrm2 mulM (fun _ _ => swap) zeroM scale_of_max [[a; b]; [c; d]] 2 in
    lu_a K M s1 = lu_a K M s2 /\ lu_ri K M s1 = lu_ri K M s2 /\ lu_d K M s1 = lu_d K M s2.
Proof. exact (lu2_cases K M nrm2 mulM zeroM scale_of_max ltM a b c d). Qed.

Theorem c04_stozn_eq_stoz (swap : bool) (m : m2 K) (z1 z2 : K) :
  char_ok K -> z0_ok z1 -> z0_ok z2 -> stoz_ok K m z1 z2 ->
  (if swap then m21 m <> 0 else 1 - m11 m <> 0) ->
  stozn K M nrm2 mulM (fun _ _ => swap) zeroM scale_of_max 2 (mat_of K m) [z1; z2] = mat_of K (stoz K m z1 z2).
Proof. exact (stozn2 K M nrm2 mulM zeroM scale_of_max swap m z1 z2). Qed.

Theorem c04_ztosn_eq_ztos (swap : bool) (m : m2 K) (z1 z2 : K) :
  char_ok K -> z0_ok z1 -> z0_ok z2 -> ztos_ok K m z1 z2 ->
  (if swap then m21 m <> 0 else m11 m + z1 <> 0) ->
  ztosn K M nrm2 mulM (fun _ _ => swap) zeroM scale_of_max 2 (mat_of K m) [z1; z2] = mat_of K (ztos K m z1 z2).
Proof. exact (ztosn2 K M nrm2 mulM zeroM scale_of_max swap m z1 z2). Qed.

Theorem c04_stoyn_eq_stoy (swap : bool) (m : m2 K) (z1 z2 : K) :
  char_ok K -> z0_ok z1 -> z0_ok z2 -> stoy_ok K m z1 z2 ->
  (if swap then m21 m <> 0 /\ z1 <> 0 else m11 m * z1 + cj z1 <> 0) ->
  stoyn K M nrm2 mulM (fun _ _ => swap) zeroM scale_of_max 2 (mat_of K m) [z1; z2] = mat_of K (stoy K m z1 z2).
Proof. exact (stoyn2 K M nrm2 mulM zeroM scale_of_max swap m z1 z2). Qed.

Theorem c04_ytosn_eq_ytos (swap : bool) (m : m2 K) (z1 z2 : K) :
  char_ok K -> z0_ok z1 -> z0_ok z2 -> ytos_ok K m z1 z2 ->
  (if swap then z2 <> 0 /\ m21 m <> 0 else z1 * m11 m + 1 <> 0) ->
  ytosn K M nrm2 mulM (fun _ _ => swap) zeroM scale_of_max 2 (mat_of K m) [z1; z2] = mat_of K (ytos K m z1 z2).
Proof. exact (ytosn2 K M nrm2 mulM zeroM scale_of_max swap m z1 z2). Qed.

Theorem c04_ztoyn_eq_ztoy (swap : bool) (m : m2 K) (z1 z2 : K) :
  char_ok K -> z0_ok z1 -> z0_ok z2 -> ztoy_ok K m z1 z2 ->
  (if swap then m21 m <> 0 else m11 m <> 0) ->
  ztoyn K M nrm2 mulM (fun _ _ => swap) zeroM scale_of_max 2 (mat_of K m) = mat_of K (ztoy K m z1 z2).
Proof. exact (ztoyn2 K M nrm2 mulM zeroM scale_of_max swap m z1 z2). Qed.

Theorem c04_ytozn_eq_ytoz (swap : bool) (m : m2 K) (z1 z2 : K) :
  char_ok K -> z0_ok z1 -> z0_ok z2 -> ytoz_ok K m z1 z2 ->
  (if swap then m21 m <> 0 else m11 m <> 0) ->
  ytozn K M nrm2 mulM (fun _ _ => swap) zeroM scale_of_max 2 (mat_of K m) = mat_of K (ytoz K m z1 z2).
Proof. exact (ytozn2 K M nrm2 mulM zeroM scale_of_max swap m z1 z2). Qed.

Theorem c04_ztozin_eq_ztozi (swap : bool) (m : m2 K) (z1 z2 : K) :
  char_ok K -> z0_ok z1 -> z0_ok z2 -> ztozi_ok K m z1 z2 ->
  (if swap then m21 m <> 0 else m11 m + z1 <> 0) ->
  ztozin K M nrm2 mulM (fun _ _ => swap) zeroM scale_of_max 2 (mat_of K m) [z1; z2] = vec_of K (ztozi K m z1 z2).
Proof. exact (ztozin2 K M nrm2 mulM zeroM scale_of_max swap m z1 z2). Qed.

Theorem c04_stozin_eq_stozi (m : m2 K) (z1 z2 : K) :
  stozin K 2 (mat_of K m) [z1; z2] = vec_of K (stozi K m z1 z2).
Proof. exact (stozin2 K m z1 z2). Qed.
End P.

Print Assumptions c04_lu2_two_pivot_orders.
Print Assumptions c04_stozn_eq_stoz.
Print Assumptions c04_ztosn_eq_ztos.
Print Assumptions c04_stoyn_eq_stoy.
Print Assumptions c04_ytosn_eq_ytos.
Print Assumptions c04_ztoyn_eq_ztoy.
Print Assumptions c04_ytozn_eq_ytoz.
Print Assumptions c04_ztozin_eq_ztozi.
Print Assumptions c04_stozin_eq_stozi.

(* ---- non-vacuity of group (1): singular-set and pivot hypotheses, both pivot orders ---- *)
Theorem c04n_hypotheses_satisfiable :
  (stoz_ok QIF ex_m ex_z1 ex_z2 /\
   forall swap : bool, if swap then m21 ex_m <> @c0 QIF else @csub QIF (@c1 QIF) (m11 ex_m) <> @c0 QIF) /\
  (ztos_ok QIF ex_m ex_z1 ex_z2 /\
   forall swap : bool, if swap then m21 ex_m <> @c0 QIF else @cadd QIF (m11 ex_m) ex_z1 <> @c0 QIF) /\
  (stoy_ok QIF ex_m ex_z1 ex_z2 /\
   forall swap : bool, if swap then m21 ex_m <> @c0 QIF /\ ex_z1 <> @c0 QIF
                       else @cadd QIF (@cmul QIF (m11 ex_m) ex_z1) (@cj QIF ex_z1) <> @c0 QIF) /\
  (ytos_ok QIF ex_m ex_z1 ex_z2 /\
   forall swap : bool, if swap then ex_z2 <> @c0 QIF /\ m21 ex_m <> @c0 QIF
                       else @cadd QIF (@cmul QIF ex_z1 (m11 ex_m)) (@c1 QIF) <> @c0 QIF) /\
  (ztoy_ok QIF ex_m ex_z1 ex_z2 /\
   forall swap : bool, if swap then m21 ex_m <> @c0 QIF else m11 ex_m <> @c0 QIF) /\
  (ytoz_ok QIF ex_m ex_z1 ex_z2 /\
   forall swap : bool, if swap then m21 ex_m <> @c0 QIF else m11 ex_m <> @c0 QIF) /\
  (ztozi_ok QIF ex_m ex_z1 ex_z2 /\
   forall swap : bool, if swap then m21 ex_m <> @c0 QIF else @cadd QIF (m11 ex_m) ex_z1 <> @c0 QIF).
Proof.
  exact (conj c04n_hyps_stozn (conj c04n_hyps_ztosn (conj c04n_hyps_stoyn (conj c04n_hyps_ytosn
          (conj c04n_hyps_ztoyn (conj c04n_hyps_ytozn c04n_hyps_ztozin)))))).
Qed.
Print Assumptions c04n_hypotheses_satisfiable.

(* ---- group (2): all n, the executable model at Q[i], hypotheses on the input only.
   relSn / relZn / relYn: the port relations of vnaconv(3) for n ports, b = S a with
   a_j = (v_j + z_j i_j) / (2 k_j), b_j = (v_j - conj z_j i_j) / (2 k_j); v = Z i; i = Y v. ---- *)
Theorem c04_stozn_same_states_all_n n (z0 : list QIF) (s : mat QIF) : k_ok QIF n z0 ->
  kernel_trivial QIF (m_one_minus_s QIF n s) n ->
  forall v i : nat -> QIF, relSn QIF n s z0 v i <-> relZn QIF n (q_stozn n s z0) v i.
Proof. exact (q_stozn_same_states n z0 s). Qed.
Print Assumptions c04_stozn_same_states_all_n.

Theorem c04_stoyn_same_states_all_n n (z0 : list QIF) (s : mat QIF) : k_ok QIF n z0 ->
  kernel_trivial QIF (m_sz_plus_zc QIF n s z0) n ->
  forall v i : nat -> QIF, relSn QIF n s z0 v i <-> relYn QIF n (q_stoyn n s z0) v i.
Proof. exact (q_stoyn_same_states n z0 s). Qed.
Print Assumptions c04_stoyn_same_states_all_n.

Theorem c04_ztosn_same_states_all_n n (z0 : list QIF) (z : mat QIF) : k_ok QIF n z0 -> zsum_ok QIF n z0 ->
  kernel_trivial QIF (m_z_plus_z0 QIF n z z0) n ->
  forall v i : nat -> QIF, relZn QIF n z v i <-> relSn QIF n (q_ztosn n z z0) z0 v i.
Proof. exact (q_ztosn_same_states n z0 z). Qed.
Print Assumptions c04_ztosn_same_states_all_n.

Theorem c04_ytosn_same_states_all_n n (z0 : list QIF) (y : mat QIF) : k_ok QIF n z0 -> zsum_ok QIF n z0 ->
  kernel_trivial QIF (m_one_plus_zy QIF n y z0) n ->
  forall v i : nat -> QIF, relYn QIF n y v i <-> relSn QIF n (q_ytosn n y z0) z0 v i.
Proof. exact (q_ytosn_same_states n z0 y). Qed.
Print Assumptions c04_ytosn_same_states_all_n.

Theorem c04_ztoyn_same_states_all_n n (z : mat QIF) : wf n n z -> kernel_trivial QIF z n ->
  forall v i : nat -> QIF, relZn QIF n z v i <-> relYn QIF n (q_ztoyn n z) v i.
Proof. exact (q_ztoyn_same_states n z). Qed.
Print Assumptions c04_ztoyn_same_states_all_n.

Theorem c04_ytozn_same_states_all_n n (y : mat QIF) : wf n n y -> kernel_trivial QIF y n ->
  forall v i : nat -> QIF, relYn QIF n y v i <-> relZn QIF n (q_ytozn n y) v i.
Proof. exact (q_ytozn_same_states n y). Qed.
Print Assumptions c04_ytozn_same_states_all_n.

(* the link to the specification Conv/ConvNSpec.v: the model's output is K X K^-1 where X solves the
   very linear system whose solution the specification writes as invmx A *m B (abstract field, the
   pivot premise as in Properties_C19.c19_lu_solves_if_pivots_nonzero) *)
Theorem c04_stozn_defining_system_all_n (K : CField) (M : Type) nrm2 mulM ltM zeroM scale_of_max n (s : mat K) z0 :
  LuProofs.pivots_nonzero K M nrm2 mulM ltM zeroM scale_of_max (m_one_minus_s K n s) n ->
  exists x : mat K,
    (forall r k, r < n -> k < n ->
       sumf n (fun t => mget K (m_one_minus_s K n s) r t * mget K x t k) = mget K (m_sz_plus_zc K n s z0) r k) /\
    (forall r k, r < n -> k < n ->
       mget K (stozn K M nrm2 mulM ltM zeroM scale_of_max n s z0) r k =
       if Nat.eqb r k then mget K x r k else mget K x r k * (kn K z0 r / kn K z0 k)).
Proof. exact (stozn_defining_eq K M nrm2 mulM ltM zeroM scale_of_max n s z0). Qed.
Print Assumptions c04_stozn_defining_system_all_n.

(* non-vacuity of group (2): a 3-port S matrix with z0 = (4+3i, 9-2i, 1); every hypothesis is
   discharged (trivial kernels through computed left inverses), then S -> Z -> S, Z -> Y -> S *)
Theorem c04_all_n_hypotheses_satisfiable :
  k_ok QIF 3 ex3_z0 /\ zsum_ok QIF 3 ex3_z0 /\
  kernel_trivial QIF (m_one_minus_s QIF 3 ex3_s) 3 /\
  kernel_trivial QIF (m_sz_plus_zc QIF 3 ex3_s ex3_z0) 3 /\
  kernel_trivial QIF (m_z_plus_z0 QIF 3 ex3_z ex3_z0) 3 /\
  (wf 3 3 ex3_z /\ kernel_trivial QIF ex3_z 3) /\
  kernel_trivial QIF (m_one_plus_zy QIF 3 ex3_y ex3_z0) 3.
Proof.
  exact (conj ex3_k_ok (conj ex3_zsum_ok (conj ex3_one_minus_s_trivial (conj ex3_sz_plus_zc_trivial
          (conj ex3_z_plus_z0_trivial (conj (conj ex3_z_wf ex3_z_trivial) ex3_one_plus_zy_trivial)))))).
Qed.
Print Assumptions c04_all_n_hypotheses_satisfiable.

(* ---- group (3): all n, the input-impedance functions ---- *)
Theorem c04_stozin_phys_all_n n (z0 : list QIF) (s : mat QIF) t (v i : nat -> QIF) :
  k_ok QIF n z0 -> t < n ->
  csub (@c1 QIF) (mget QIF s t t) <> @c0 QIF ->
  relSn QIF n s z0 v i -> terminated_except QIF n z0 t v i ->
  v t = cmul (nth t (q_stozin n s z0) (@c0 QIF)) (i t).
Proof. exact (q_stozin_phys n z0 s t v i). Qed.
Print Assumptions c04_stozin_phys_all_n.

Theorem c04_ztozin_phys_all_n n (z0 : list QIF) (z : mat QIF) t (v i : nat -> QIF) :
  k_ok QIF n z0 -> t < n ->
  kernel_trivial QIF (m_z_plus_z0 QIF n z z0) n ->
  mget QIF (fst (q_minverse (m_z_plus_z0 QIF n z z0) n)) t t <> @c0 QIF ->
  relZn QIF n z v i -> terminated_except QIF n z0 t v i ->
  v t = cmul (nth t (q_ztozin n z z0) (@c0 QIF)) (i t).
Proof. exact (q_ztozin_phys n z0 z t v i). Qed.
Print Assumptions c04_ztozin_phys_all_n.

Theorem c04_ytozin_phys_all_n n (z0 : list QIF) (y : mat QIF) t (v i : nat -> QIF) :
  k_ok QIF n z0 -> zsum_ok QIF n z0 -> t < n ->
  kernel_trivial QIF (m_one_plus_zy QIF n y z0) n ->
  csub (@c1 QIF) (mget QIF (fst (q_mrdivide (m_one_minus_zcy QIF n y z0) (m_one_plus_zy QIF n y z0) n n)) t t) <> @c0 QIF ->
  relYn QIF n y v i -> terminated_except QIF n z0 t v i ->
  v t = cmul (nth t (q_ytozin n y z0) (@c0 QIF)) (i t).
Proof. exact (q_ytozin_phys n z0 y t v i). Qed.
Print Assumptions c04_ytozin_phys_all_n.

(* non-vacuity of group (3) *)
Theorem c04_zin_all_n_satisfiable :
  terminated_except QIF 3 ex3_z0 0 ex3_v ex3_i /\ ex3_i 0 <> @c0 QIF /\
  relSn QIF 3 ex3_s ex3_z0 ex3_v ex3_i /\ relZn QIF 3 ex3_z ex3_v ex3_i /\ relYn QIF 3 ex3_y ex3_v ex3_i /\
  csub (@c1 QIF) (mget QIF ex3_s 0 0) <> @c0 QIF /\
  mget QIF (fst (q_minverse (m_z_plus_z0 QIF 3 ex3_z ex3_z0) 3)) 0 0 <> @c0 QIF /\
  csub (@c1 QIF) (mget QIF (fst (q_mrdivide (m_one_minus_zcy QIF 3 ex3_y ex3_z0) (m_one_plus_zy QIF 3 ex3_y ex3_z0) 3 3)) 0 0) <> @c0 QIF /\
  nth 0 (q_stozin 3 ex3_s ex3_z0) (@c0 QIF) = nth 0 (q_ztozin 3 ex3_z ex3_z0) (@c0 QIF) /\
  nth 0 (q_ztozin 3 ex3_z ex3_z0) (@c0 QIF) = nth 0 (q_ytozin 3 ex3_y ex3_z0) (@c0 QIF).
Proof.
  exact (conj ex3_state_terminated (conj ex3_state_nontrivial (conj ex3_state_relS (conj ex3_state_relZ
          (conj ex3_state_relY (conj ex3_stozin_div (conj ex3_ztozin_div (conj ex3_ytozin_div ex3_zin_agree)))))))).
Qed.
Print Assumptions c04_zin_all_n_satisfiable.
