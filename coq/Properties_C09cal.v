(* C09, calibration-file half: the loader model is total and what it accepts is well formed. *)
Require Import ZArith List Bool String QArith.
Import ListNotations.
Require Import LV.CalFile.CalFileModel LV.CalFile.CalFileProofs.
Open Scope Z_scope.

(* load_total: the model of vnacal_load is a function defined by structural recursion on the node
   tree (no fuel): it answers on every version line and every tree, with Ok or one of three classes. *)
Theorem load_total : forall v d, exists r, load v d = r.
Proof. exact load_total_lemma. Qed.
Print Assumptions load_total.

Theorem load_error_classes : forall v d e, load v d = Err e -> e = EBadMsg \/ e = EProto \/ e = ESys.
Proof. exact load_error_class. Qed.
Print Assumptions load_error_classes.

(* load_ok_wf_partial: every calibration of an accepted document has dimensions that fit its type,
   as many data entries as declared and strictly ascending frequencies.  Missing for the full
   load_ok_wf: "every error-term cell is written" is proved only through emit_parse_terms_partial
   (Properties_C07.v) and checked on every tie input by evaluating wf_cells on the model's result. *)
Theorem load_ok_wf_partial : forall v d cals, load v d = Ok cals -> Forall (fun c => wf_shape c = true) cals.
Proof. exact load_ok_wf_shape. Qed.
Print Assumptions load_ok_wf_partial.

(* the hypothesis is met by a three-frequency document, whose result is completely well formed *)
Theorem load_ok_wf_satisfiable :
  match load (VNew 1 0) (Some (t8_doc [1#1; 2#1; 5#2])) with
  | Ok [c] => wf_cal c = true /\ c_freqs c = 3
  | _ => False
  end.
Proof. exact ascending_accepted. Qed.
Print Assumptions load_ok_wf_satisfiable.

(* the document of finding D27 (f = 2e9, 1e9) is rejected by the model of the fixed loader *)
Theorem descending_frequencies_rejected : load (VNew 1 0) (Some (t8_doc [2#1; 1#1])) = Err EBadMsg.
Proof. exact descending_rejected. Qed.
Print Assumptions descending_frequencies_rejected.
