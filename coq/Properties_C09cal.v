(* C09, calibration-file half: error classes of the loader model and well-formedness of what it accepts. *)
Require Import ZArith List Bool String QArith.
Import ListNotations.
Require Import LV.CalFile.CalFileModel LV.CalFile.CalFileProofs LV.CalFile.CalLoadWf LV.CalFile.CalLoadErrClass.
Require LV.PropTree.PropModel LV.PropTree.YamlFault LV.PropTree.YamlFaultProofs.
Open Scope Z_scope.

(* Termination of the model needs no theorem: [load] is a Gallina function defined by structural
   recursion on the node tree (no fuel), which Coq's guard checker verifies when the definition is
   accepted; a statement "forall v d, exists r, load v d = r" would hold of any function and says
   nothing about the code.  That the C loader terminates on every input is exercised by the tie
   (every generated input under a watchdog), not proved.  The theorems below say where each error
   class can come from. *)

(* ENOPROTOOPT comes from the version line and from nowhere else: no parser below the version test
   can produce it, and a rejected version line is reported whatever the document holds *)
Theorem load_enoprotoopt_iff_version : forall v d, load v d = Err EProto <-> version_of v = Err EProto.
Proof. exact load_eproto_iff. Qed.
Print Assumptions load_enoprotoopt_iff_version.

(* once the version line is accepted, a failure is EBADMSG or the system error of the property
   import (a key the property syntax rejects); the data parsers alone only produce EBADMSG
   (lemmas *_ob of CalFile/CalFileProofs.v) *)
Theorem load_errors_after_version : forall v ver d e, version_of v = Ok ver -> load v d = Err e -> e = EBadMsg \/ e = ESys.
Proof. exact load_version_ok_errors. Qed.
Print Assumptions load_errors_after_version.

(* load_ok_wf: every calibration of an accepted document - any version line the loader accepts, any node
   tree - is well formed (wf_cal): dimensions that fit its type, non-negative dimensions, as many data
   entries as declared, strictly ascending frequencies (wf_shape), and EVERY error-term cell of every
   frequency written (wf_cells: the cell vector has the length the layout says and no cell is left
   unwritten).  For the cells: the indices a parser writes depend only on the shape it accepts, so the
   coverage proved for the saver's documents (CalSaveProofs.entry_ok, all types and dimensions) carries
   over to every accepted tree; the version 0 "e" triples are covered directly (CalFile/CalLoadWf.v). *)
Theorem load_ok_wf : forall v d cals, load v d = Ok cals -> Forall (fun c => wf_cal c = true) cals.
Proof. exact load_ok_wf_cal. Qed.
Print Assumptions load_ok_wf.

(* the hypothesis is met by a three-frequency document *)
Theorem load_ok_wf_satisfiable :
  match load (VNew 1 0) (Some (t8_doc [1#1; 2#1; 5#2])) with
  | Ok [c] => wf_cal c = true /\ c_freqs c = 3
  | _ => False
  end.
Proof. exact ascending_accepted. Qed.
Print Assumptions load_ok_wf_satisfiable.

(* the document of finding D27 (f = 2e9, 1e9) is rejected by the model of the fixed loader *)
Theorem descending_frequencies_rejected : load (VNew 1 0) (Some (t8_doc [2#1; 1#1])) = Err EBadMsg.
Proof. exact descending_rejected. Qed.
Print Assumptions descending_frequencies_rejected.

(* ---------------------------------------------------------------- fixes DO91 / DO90 *)

(* After DO91 (a property key that is no property expression is a syntax error of the document) EVERY
   failure of the loader behind an accepted version line is EBADMSG, for every document tree - refused
   property keys and recursive aliases inside "properties" included; sharpens load_errors_after_version.
   The system class is left to allocation and I/O failures, which this model does not contain. *)
Theorem load_errors_after_version_badmsg : forall v ver d e, version_of v = Ok ver -> load v d = Err e -> e = EBadMsg.
Proof. exact load_version_ok_badmsg. Qed.
Print Assumptions load_errors_after_version_badmsg.

Theorem load_bad_property_key_is_badmsg :
  load (VNew 1 0) (Some (NM [(key_scalar "properties", NM [(key_scalar "p", key_scalar "1"); (bad_key, key_scalar "2")])]))
  = Err EBadMsg
  /\ load (VNew 1 0) (Some (NM [(key_scalar "properties", NQ [NCYC])])) = Err EBadMsg.
Proof. exact (conj bad_property_key_is_badmsg recursive_alias_is_badmsg). Qed.
Print Assumptions load_bad_property_key_is_badmsg.

(* "fails ... while leaving no partial object behind" for vnaproperty_import_yaml_from_string / _from_file
   (after DO90), on the total importer model of PropTree/YamlFault.v: every parser result (syntax error,
   empty document, any document tree, recursive aliases included), every failure (refused key however it
   is reported, allocation failure at any request, whatever the failing call leaves in the tree under
   construction) and every previous content of the caller's root: after a failed import the root is
   exactly what it was.  (Also Properties_C14.import_failure_leaves_root_unchanged; the witnesses that the
   code before DO90 did not have the property are Properties_C14.model_variant_before_DO90_*_refuted.) *)
Theorem yaml_import_failure_leaves_no_partial_object
        (key_err : PropModel.ecode -> YamlFault.ierr) (junk : PropModel.node -> PropModel.node)
        (l : YamlFault.xload) (root : PropModel.node) (f : YamlFault.fault) :
  YamlFault.is_ok (snd (YamlFault.import_public_x key_err junk l root f)) = false ->
  fst (YamlFault.import_public_x key_err junk l root f) = root.
Proof. exact (YamlFaultProofs.import_failure_leaves_root_unchanged_lemma key_err junk l root f). Qed.
Print Assumptions yaml_import_failure_leaves_no_partial_object.
