(* Property C11 (failures are reported as documented and leave objects unchanged and usable):
   theorems only.  LV.Gen.ErrnoGen is regenerated on every run by translate/errno_table.py (the errno
   table of _vnaerr_verror, the manual-page table, the z0 port comparison operators, the clean-up calls)
   and translate/errno_orders.py (for every modelled function: the ORDER of its handle tests, refusing
   argument checks, early exits and writes, and whether its NULL test precedes every dereference).
   The models of LV.Err.* hold what each check tests, as coded; a step of an object is a run of the
   check / write machine of LV.Err.OrderModel over the body put together from the generated order.  The
   models are tied to the library by checks/C11.py (exhaustive small-scope comparison with
   harness/err_harness.c).

   Reading guide.  "*_orders_checks_first" theorems are facts about the generated orders of the working
   tree (they stop holding when a C function writes before it has finished checking); the
   "*_refused_unchanged" theorems have that fact as a premise and hold for every order.  "model_variant_*"
   theorems are about hand-written orders that match no current code: they show that the premises are
   needed.  "*_satisfiable" theorems instantiate all hypotheses of the theorems before them. *)
Require Import List ZArith Bool.
Import ListNotations.
Require Import LV.Err.ErrBase LV.Gen.ErrnoGen LV.Err.OrderModel LV.Err.OrderProofs LV.Err.ContractModel LV.Err.ContractProofs.
Require Import LV.Err.RefutedModel LV.Err.ContractProofs2 LV.Err.NewModel LV.Err.NewProofs LV.Err.DataGetters.
Require Import LV.Err.HistModel LV.Err.HistProofs.
Require LV.Data.DataModel.
Require Import QArith.
Open Scope Z_scope.

(* 1. The category -> errno switch of _vnaerr_verror is the table of vnaerr(3): per category; the
      enum of vnaerr.h is the documented list in the documented order; the table printed in the
      manual page is the one copied into ErrBase.doc_errno; the same holds when the switch is
      indexed by the integer value of the category; the default arm gives ENOSYS. *)
Theorem errno_table :
  (forall c, gen_errno_of c = doc_errno c) /\
  gen_enum = map (fun c => (c, doc_code c)) all_categories /\
  gen_man_table = map (fun c => (c, doc_errno c)) all_categories /\
  (forall c, gen_errno_of_code (doc_code c) = doc_errno c) /\
  gen_default = doc_errno INTERNAL.
Proof. exact errno_table_l. Qed.
Print Assumptions errno_table.

Theorem errno_table_outside : forall n, (n < 0 \/ 6 < n) -> gen_errno_of_code n = gen_default.
Proof. exact errno_table_outside_l. Qed.
Print Assumptions errno_table_outside.

(* 2. The check / write machine: a body is an ordered list of checks, early exits and writes; a write
      in front of a refusing check shows in the state a refused call returns. *)

(* for every state type and every body whose checks all precede its first write: a call refused by a
   check returns the state it was given *)
Theorem ordered_body_refused_unchanged : forall (St : Type) (b : list (act St)) s s' v r,
  checks_first (map kind b) = true -> run b s = (s', MRefused v r) -> s' = s.
Proof. exact run_refused_unchanged. Qed.
Print Assumptions ordered_body_refused_unchanged.

(* the premise is needed (executable instances: write-then-check changes the state of the refused call,
   check-then-write does not) *)
Theorem model_variant_write_before_check :
  run [AWrite false (fun x : nat => (S x, None)); ACheck (fun _ => Some (VM1, Via USAGE))] 5%nat = (6%nat, MRefused VM1 (Via USAGE)) /\
  checks_first (map kind [AWrite false (fun x : nat => (S x, None)); ACheck (fun _ : nat => Some (VM1, Via USAGE))]) = false /\
  run [ACheck (fun x : nat => if Nat.eqb x 5%nat then Some (VM1, Via USAGE) else None); AWrite false (fun x => (S x, None))] 5%nat
    = (5%nat, MRefused VM1 (Via USAGE)) /\
  run [ACheck (fun x : nat => if Nat.eqb x 5%nat then Some (VM1, Via USAGE) else None); AWrite false (fun x => (S x, None))] 4%nat
    = (5%nat, MPass).
Proof. exact model_variant_write_before_check. Qed.
Print Assumptions model_variant_write_before_check.

(* 3. vnadata family (26 functions), for every object summary, every handle (NULL or valid) and
      every argument tuple over Z. *)

(* every refusal returns the failure value of the function's return type (doc_fval: the model takes it
   from that table, the tie compares it with the library), leaves errno = EINVAL (through the generated
   table), and calls the error function exactly once - or not at all when the handle is NULL and there
   is no object to take the error function from *)
Theorem data_fail_classified : forall h c v r,
  check_data h c = Refuse v r ->
  v = doc_fval c /\ actual_errno r = E_INVAL /\
  callbacks r = match h with None => 0%nat | Some _ => 1%nat end.
Proof. exact data_fail_classified_l. Qed.
Print Assumptions data_fail_classified.

(* the NULL handle: EINVAL without a report exactly for the functions whose NULL test precedes every
   dereference of the pointer in the C text (null_checked, generated); the others dereference it and
   the model gives no answer (as found: the inline vnadata_set_frequency of vnadata.h) *)
Theorem data_null_handle : forall c,
  (null_checked c = true -> check_data None c = Refuse (doc_fval c) (Direct E_INVAL)) /\
  (null_checked c = false -> check_data None c = Fault).
Proof. exact data_null_handle_l. Qed.
Print Assumptions data_null_handle.

Theorem data_fault_iff : forall h c, check_data h c = Fault <-> (h = None /\ null_checked c = false).
Proof. exact data_fault_iff_l. Qed.
Print Assumptions data_fault_iff.

(* the coded tests refuse exactly the tuples the manual excludes (indices outside the dimensions,
   dimensions inconsistent with the type or whose product does not fit an int, z0 queries in the wrong
   z0 mode, precision < 1, ...), for the calls whose port test is strict in the C text *)
Theorem data_refusal_iff_invalid : forall s c,
  0 <= d_freqs s -> port_test_strict c = true ->
  is_pass (check_data_some s c) = doc_data_valid s c.
Proof. exact data_refusal_iff_invalid_l. Qed.
Print Assumptions data_refusal_iff_invalid.

(* index n (port == ports) of vnadata_{get,set}_{z0,fz0} is refused exactly when the comparison
   found in the C text is ">=" (holds for either reading of the source; with ">" this is D4) *)
Theorem data_port_index_n : forall s f,
  0 < ports s -> in_range f (d_freqs s) = true -> d_fz0 s = false ->
  is_pass (check_data_some s (CGetZ0 (ports s))) = negb gen_get_z0_strict /\
  is_pass (check_data_some s (CSetZ0 (ports s))) = negb gen_set_z0_strict /\
  is_pass (check_data_some s (CGetFz0 f (ports s))) = negb gen_get_fz0_strict /\
  is_pass (check_data_some s (CSetFz0 f (ports s))) = negb gen_set_fz0_strict.
Proof. exact data_port_index_n_l. Qed.
Print Assumptions data_port_index_n.

(* the hand-written list of tests has one entry per refusing statement of the C function *)
Theorem data_order_fits : forall c, count_checks (dcall_order c) = length (data_checks c).
Proof. exact data_order_fits_l. Qed.
Print Assumptions data_order_fits.

(* as found in the C text: every function of the family except vnadata_init has all its handle tests and
   argument checks in front of its first write; vnadata_init = two writes (resize to empty, set_all_z0 - a write
   that can fail once vnadata_init passes its failure on, fix DE80) followed by the body of vnadata_resize *)
Theorem data_orders_checks_first : forall c, is_init c = false -> checks_first (dcall_order c) = true.
Proof. exact data_orders_checks_first_l. Qed.
Print Assumptions data_orders_checks_first.

Theorem data_init_order :
  (exists w2, is_write w2 = true /\ gen_order_vnadata_init = EvW :: w2 :: gen_order_vnadata_resize) /\
  checks_first gen_order_vnadata_init = false.
Proof. exact data_init_order_l. Qed.
Print Assumptions data_init_order.

(* for every function whose generated order has all refusing checks before the first write, every
   abstraction of the rest of the object and of the writes: a refused call leaves the object equal *)
Theorem data_refused_unchanged : forall (payload : Type) work (o : dobj payload) c v r,
  checks_first (dcall_order c) = true ->
  snd (data_step payload work o c) = Refuse v r -> fst (data_step payload work o c) = o.
Proof. exact data_refused_unchanged_l. Qed.
Print Assumptions data_refused_unchanged.

(* ... and then no getter's answer changes: with the full vnadata_t model of property C15 as the rest of
   the object, every operation of that model - the getters among them - answers after the refused call
   as before it, and the observation through all public getters is the same *)
Theorem data_refused_getters_unchanged : forall (V : Type) (vzero vdef : V) (Q : LV.Data.DataModel.quirks) work (o : dobj (LV.Data.DataModel.vd V)) c v r,
  checks_first (dcall_order c) = true ->
  snd (data_step _ work o c) = Refuse v r ->
  forall g : LV.Data.DataModel.op V,
    snd (LV.Data.DataModel.step V vzero vdef Q (o_rest _ (fst (data_step _ work o c))) g)
      = snd (LV.Data.DataModel.step V vzero vdef Q (o_rest _ o) g) /\
    LV.Data.DataModel.observe V (o_rest _ (fst (data_step _ work o c))) = LV.Data.DataModel.observe V (o_rest _ o).
Proof. exact data_refused_getters_unchanged_l. Qed.
Print Assumptions data_refused_getters_unchanged.

(* link between the ordered body and the decision function the other theorems speak about: the outcome
   of a step is check_data_some on the summary the call was given *)
Theorem data_step_outcome : forall (payload : Type) work (o : dobj payload) c,
  is_init c = false -> snd (data_step payload work o c) = check_data_some (o_sum payload o) c.
Proof. exact data_step_outcome_l. Qed.
Print Assumptions data_step_outcome.

Theorem data_init_outcome : forall (payload : Type) work (o : dobj payload) t r c f,
  snd (data_step payload work o (CInit t r c f)) = check_resize t r c f.
Proof. exact data_init_outcome_l. Qed.
Print Assumptions data_init_outcome.

(* vnadata_init as coded: when its arguments are refused the object has already been emptied (the
   property asks only that a failed init leave a usable object) *)
Theorem data_init_refused_cleared : forall (payload : Type) work (o : dobj payload) t r c f v rp,
  snd (data_step payload work o (CInit t r c f)) = Refuse v rp ->
  o_sum payload (fst (data_step payload work o (CInit t r c f))) = mkdsum 0 0 0 0 false.
Proof. exact data_init_refused_cleared_l. Qed.
Print Assumptions data_init_refused_cleared.

(* the invariant under which all checks are defined (non-negative dimensions consistent with the type)
   holds after every call; the content is in the accepted calls and in the refused vnadata_init *)
Theorem data_inv_preserved : forall (payload : Type) work (o : dobj payload) c,
  data_inv (o_sum payload o) -> data_inv (o_sum payload (fst (data_step payload work o c))).
Proof. exact data_inv_preserved_l. Qed.
Print Assumptions data_inv_preserved.

Theorem data_contract_satisfiable :
  check_data (Some (mkdsum 1 2 2 3 false)) (CGetCell 3 0 0) = Refuse VHUGE (Via USAGE) /\
  check_data (Some (mkdsum 1 2 2 3 false)) (CGetCell 2 1 1) = Pass /\
  check_data None (CGetCell 0 0 0) = Refuse VHUGE (Direct E_INVAL) /\
  check_data (Some (mkdsum 1 2 2 3 false)) (CResize 2 3 3 3) = Refuse VM1 (Via USAGE) /\
  check_data (Some (mkdsum 1 2 2 3 true)) CGetZ0Vector = Refuse VNULL (Via USAGE) /\
  data_inv (mkdsum 1 2 2 3 false).
Proof. exact data_refusal_example. Qed.
Print Assumptions data_contract_satisfiable.

(* all hypotheses of data_refused_unchanged / data_init_refused_cleared / data_refusal_iff_invalid met by
   concrete calls (the rest of the object is a counter of the writes made) *)
Theorem data_step_satisfiable :
  let work := fun (_ : dcall) (_ : nat) (o : dobj nat) => S (o_rest nat o) in
  let o := mkdobj nat (mkdsum 1 2 2 3 false) 7%nat in
  checks_first (dcall_order (CSetCell 3 0 0)) = true /\
  data_step nat work o (CSetCell 3 0 0) = (o, Refuse VM1 (Via USAGE)) /\
  data_step nat work o (CSetCell 2 1 1) = (mkdobj nat (mkdsum 1 2 2 3 false) 8%nat, Pass) /\
  data_step nat work o (CResize 0 65536 65536 0) = (o, Refuse VM1 (Via USAGE)) /\
  snd (data_step nat work o (CInit 2 3 3 3)) = Refuse VM1 (Via USAGE) /\
  fst (data_step nat work o (CInit 2 3 3 3)) = mkdobj nat (mkdsum 0 0 0 0 false) 9%nat /\
  port_test_strict (CGetZ0 2) = true /\ 0 <= d_freqs (o_sum nat o).
Proof. repeat split; vm_compute; try reflexivity; discriminate. Qed.
Print Assumptions data_step_satisfiable.

(* 4. vnacal query family: the nine vnacal_get_* of vnacal_get.c, vnacal_find_calibration,
      vnacal_delete_calibration, the ci argument of the eight vnacal_property_*; every slot table, every
      ci and name. *)

(* the silent queries: failure value of the function's return type (getter_fval / propfn_fval: model
   tables, compared with the library by the tie), EINVAL (ENOENT for a name or a calibration that is not
   there; vnacal(3) names no class for a missing index of delete, both documented ones are admitted),
   and the error function is never called *)
Theorem query_fail_classified : forall h c v r,
  check_query h c = Refuse v r -> doc_query_refusal h c (Refuse v r).
Proof. exact query_fail_classified_l. Qed.
Print Assumptions query_fail_classified.

Theorem query_null_handle : forall c,
  check_query None c = if fst (qcall_handle c) then Refuse (query_fval c) (Direct E_INVAL) else Fault.
Proof. exact query_null_handle_l. Qed.
Print Assumptions query_null_handle.

(* as found: the C functions behind the four kinds of call test before they write (the deletion sits on
   an early successful exit) and the getters write nothing *)
Theorem query_orders_checks_first : forall c, checks_first (qcall_order c) = true.
Proof. exact query_orders_checks_first_l. Qed.
Print Assumptions query_orders_checks_first.

Theorem query_refused_unchanged : forall pre sl c v r,
  checks_first (qcall_order c) = true ->
  snd (query_step pre sl c) = Refuse v r -> fst (query_step pre sl c) = sl.
Proof. exact query_refused_unchanged_l. Qed.
Print Assumptions query_refused_unchanged.

Theorem query_step_spec : forall pre sl c,
  checks_first (qcall_order c) = true ->
  query_step pre sl c = (match check_query_some sl c with Pass => slots_after sl c | _ => sl end, check_query_some sl c).
Proof. exact query_step_spec_l. Qed.
Print Assumptions query_step_spec.

(* a getter passes exactly for the indices that hold a calibration *)
Theorem query_get_pass_iff : forall sl v ci, check_get sl v ci = Pass <-> exists n, slot_at sl ci = Some n.
Proof. exact check_get_pass_iff. Qed.
Print Assumptions query_get_pass_iff.

(* the index returned by vnacal_add_calibration (replace, reuse of a free slot, or growth of the
   table) is the index vnacal_find_calibration then returns for that name and one every getter
   accepts: for all slot tables and names *)
Theorem add_calibration_index : forall sl name v,
  find_slot (fst (add_calibration sl name)) name = Some (snd (add_calibration sl name)) /\
  check_get (fst (add_calibration sl name)) v (snd (add_calibration sl name)) = Pass.
Proof. exact add_calibration_index_l. Qed.
Print Assumptions add_calibration_index.

Theorem query_contract_satisfiable :
  check_query (Some [Some 10; None; Some 12]) (QGet GName 1) = Refuse VNULL (Direct E_INVAL) /\
  check_query (Some [Some 10; None; Some 12]) (QGet GName 2) = Pass /\
  check_query (Some [Some 10; None; Some 12]) (QGet GFmax 3) = Refuse VHUGE (Direct E_INVAL) /\
  check_query (Some [Some 10; None; Some 12]) (QFind 11) = Refuse VM1 (Direct E_NOENT) /\
  check_query (Some [Some 10; None; Some 12]) (QDelete 1) = Refuse VM1 (Direct E_NOENT) /\
  check_query (Some [Some 10; None; Some 12]) (QProperty PfType (-1)) = Pass /\
  add_calibration [Some 10; None; Some 12] 11 = ([Some 10; Some 11; Some 12], 1) /\
  add_calibration [Some 10] 11 = ([Some 10; Some 11; None; None; None; None; None; None], 1) /\
  add_calibration [Some 10; None; Some 12] 12 = ([Some 10; None; Some 12], 2).
Proof. exact query_examples. Qed.
Print Assumptions query_contract_satisfiable.

Theorem query_step_satisfiable :
  checks_first (qcall_order (QDelete 1)) = true /\
  query_step (fun sl => sl) [Some 10; None; Some 12] (QDelete 1) = ([Some 10; None; Some 12], Refuse VM1 (Direct E_NOENT)) /\
  query_step (fun sl => sl) [Some 10; None; Some 12] (QDelete 2) = ([Some 10; None; None], Pass).
Proof. repeat split. Qed.
Print Assumptions query_step_satisfiable.

(* 5. "A rejected standard adds nothing" and "a refused property set changes nothing".  Both were false
      of the code as first found (D17, D54) and are repaired in /repo; which order the working tree has is
      read from the C text (gen_add_common_prevalidates; gen_order_vnaproperty_vset,
      gen_order_vnaproperty_vset_subtree) and is a premise of the theorems. *)

(* as found in the C text of the working tree: the validation loop of _vnacal_new_add_common precedes its
   registration loop, _vnacal_new_check_parameter walks down to the correlate of a correlated parameter
   (seeded change C11-4 removes that), and so does _vnacal_new_get_parameter *)
Theorem add_prevalidation_as_found :
  gen_add_common_prevalidates = true /\ gen_check_parameter_recurses = true /\ gen_get_parameter_recurses = true.
Proof. exact add_prevalidation_as_found_l. Qed.
Print Assumptions add_prevalidation_as_found.

(* the registration model in the order found in the C text (the one the tie runs): for every summary of
   the vnacal_new_t (registered handles, counts, calibration frequency range) and every S matrix whose cells
   are ARBITRARY PARAMETER CHAINS - correlated -> correlated -> ... -> scalar / vector / unknown, any node
   deleted, each with its own frequency range and sigma frequencies, handles out of range - when the
   validation pass precedes the registration loop and walks down to the correlates, a refused standard
   leaves registered parameters, unknown count, correlated count and measurement count as they were *)
Theorem rejected_standard_summary_unchanged : forall s cells s' v r,
  gen_add_common_prevalidates = true -> gen_check_parameter_recurses = true ->
  add_standard_current s cells = (s', Refuse v r) -> s' = s.
Proof. exact rejected_standard_current_l. Qed.
Print Assumptions rejected_standard_summary_unchanged.

(* the same over the whole modelled vnacal_new_t (type, dimensions, frequency state, error-model flag,
   parameter summary, abstract rest), for every refusal of _vnacal_new_add_common - dimension and port
   map tests, invalid parameter anywhere in a chain, singular 'a' matrix, incomplete S with T16/U16: the
   object is the one the call was given, and the refusal came from an argument check, none from the
   registration.
   (Not in the model: reference counts of the parameters, allocation failure inside the registration loop - C12.) *)
Theorem rejected_standard_adds_nothing : forall (payload : Type) work pre (o : nobj payload) a v r,
  gen_add_common_prevalidates = true -> gen_check_parameter_recurses = true -> ncall_ordered (NAdd a) = true ->
  snd (new_step payload work pre o (NAdd a)) = Refuse v r ->
  fst (new_step payload work pre o (NAdd a)) = o /\
  exists v' r', new_run payload work pre o (NAdd a) = (o, MRefused v' r').
Proof. exact rejected_standard_adds_nothing_l. Qed.
Print Assumptions rejected_standard_adds_nothing.

(* after the validation pass (with the walk down to the correlates) the registration loop cannot refuse any
   more, whether or not the registration itself walks down *)
Theorem register_after_check : forall rg cells s,
  forallb (check_chain_with true s) cells = true -> snd (register_cells_with rg s cells) = true.
Proof. exact register_after_check_with. Qed.
Print Assumptions register_after_check.

(* a chain that passed the validation stays valid while other parameters are registered *)
Theorem validation_monotone : forall rc s s' c,
  extends s s' -> check_chain_with rc s c = true -> check_chain_with rc s' c = true.
Proof. exact check_mono. Qed.
Print Assumptions validation_monotone.

(* the two hand-written orders (validate first / register as you go) refuse the same standards and do the same on
   the accepted ones, on S matrices without correlated parameters whose validity is a function of the handle: a
   statement about the two models, not about the code *)
Theorem model_variant_orders_same_verdict : forall ok rg s cells,
  Forall (flat_ok ok s) cells ->
  is_pass (snd (add_standard_validate_first_with true rg s cells)) = is_pass (snd (add_standard_register_first_with rg s cells)) /\
  (is_pass (snd (add_standard_validate_first_with true rg s cells)) = true ->
   add_standard_validate_first_with true rg s cells = add_standard_register_first_with rg s cells).
Proof. exact add_standard_same_verdict_l. Qed.
Print Assumptions model_variant_orders_same_verdict.

(* its hypothesis is met by every S matrix made from a parameter table without correlated parameters *)
Theorem model_variant_orders_same_verdict_satisfiable : forall valid unknown s hs,
  n_calrange s = None -> Forall (flat_ok valid s) (map (flat_cell valid unknown) hs).
Proof. exact flat_cells_ok. Qed.
Print Assumptions model_variant_orders_same_verdict_satisfiable.

(* model variant (register as you go, the order before the repair of D17): a standard refused for a later
   handle leaves the earlier ones registered and counted - the premise gen_add_common_prevalidates is needed *)
Theorem model_variant_register_first_keeps_registrations :
  exists rg s cells s',
    add_standard_register_first_with rg s cells = (s', Refuse VM1 (Via USAGE)) /\ s' <> s.
Proof. exact model_variant_register_first_keeps_registrations_l. Qed.
Print Assumptions model_variant_register_first_keeps_registrations.

(* model variant (validation pass that does not walk down to the correlate: what seeded change C11-4 makes of
   _vnacal_new_check_parameter): S = (fresh unknown 5, correlated 7 -> correlated 6 -> vector 4) with 6 too
   narrow for the calibration range, or deleted: refused, but the unknown stays registered and counted; with
   the walk the same standards leave the summary as it was - the premise gen_check_parameter_recurses is needed *)
Theorem model_variant_shallow_check_keeps_registrations :
  (exists s', add_standard_validate_first_with false true ex_s0 [ex_u5; ex_c7_narrow] = (s', Refuse VM1 (Via USAGE)) /\ s' <> ex_s0) /\
  (exists s', add_standard_validate_first_with false true ex_s0 [ex_u5; ex_c9_deleted] = (s', Refuse VM1 (Via USAGE)) /\ s' <> ex_s0) /\
  add_standard_validate_first_with true true ex_s0 [ex_u5; ex_c7_narrow] = (ex_s0, Refuse VM1 (Via USAGE)) /\
  add_standard_validate_first_with true true ex_s0 [ex_u5; ex_c9_deleted] = (ex_s0, Refuse VM1 (Via USAGE)).
Proof. exact model_variant_shallow_check_keeps_registrations_l. Qed.
Print Assumptions model_variant_shallow_check_keeps_registrations.

Theorem rejected_standard_satisfiable :
  let o := mknobj unit (mknsum T8 2 2 3 true false ex_s0) tt in
  let bad := mkadd false None 2 2 2 2 (Some [1; 2]) [ex_u5; ChNone 99] false false in
  let narrow := mkadd false None 2 2 2 2 (Some [1; 2]) [ex_u5; ex_c7_narrow] false false in
  let deleted := mkadd false None 2 2 2 2 (Some [1; 2]) [ex_u5; ex_c9_deleted] false false in
  let good := mkadd false None 2 2 2 2 (Some [1; 2]) [ex_u5; ex_c11_good] false false in
  gen_add_common_prevalidates = true /\ gen_check_parameter_recurses = true /\ ncall_ordered (NAdd bad) = true /\
  new_step unit (fun o _ => o) (fun o => o) o (NAdd bad) = (o, Refuse VM1 (Via USAGE)) /\
  new_step unit (fun o _ => o) (fun o => o) o (NAdd narrow) = (o, Refuse VM1 (Via USAGE)) /\
  new_step unit (fun o _ => o) (fun o => o) o (NAdd deleted) = (o, Refuse VM1 (Via USAGE)) /\
  new_step unit (fun o _ => o) (fun o => o) o (NAdd good)
    = (mknobj unit (mknsum T8 2 2 3 true false (mknew [0; 5; 4; 10; 11] 3 2 1 (Some (1%Q, 3%Q)))) tt, Pass) /\
  add_standard_current ex_s0 [ex_u5; ex_c7_narrow] = (ex_s0, Refuse VM1 (Via USAGE)) /\
  extends ex_s0 (mknew [0; 5; 4; 10; 11] 3 2 1 (Some (1%Q, 3%Q))).
Proof.
  repeat split; try (vm_compute; reflexivity). intros h H. unfold known in *. simpl in *.
  rewrite Bool.orb_false_r in H. apply Z.eqb_eq in H. subst h. reflexivity.
Qed.
Print Assumptions rejected_standard_satisfiable.

(* vnaproperty_vset / vnaproperty_vset_subtree over paths of map keys: for every order of their
   statements that has the tests in front of the first write, every tree and every descriptor (parse
   result, path, kind of the last expression node, token after the path): a refused call leaves the
   tree as it was, returns -1 / NULL with EINVAL and reports nothing *)
Theorem refused_property_set_unchanged : forall sk t d t' v r,
  checks_first sk = true ->
  vset_in_order sk t d = (t', Refuse v r) -> t' = t /\ v = VM1 /\ r = Direct E_INVAL /\ callbacks r = 0%nat.
Proof. exact refused_property_set_unchanged_l. Qed.
Print Assumptions refused_property_set_unchanged.

Theorem refused_set_subtree_unchanged : forall sk t d t' v r,
  checks_first sk = true ->
  vset_subtree_in_order sk t d = (t', Refuse v r) -> t' = t /\ v = VNULL /\ r = Direct E_INVAL.
Proof. exact refused_set_subtree_unchanged_l. Qed.
Print Assumptions refused_set_subtree_unchanged.

(* as found in the C text: both functions test first; three / two refusing statements, as in the model *)
Theorem vset_orders :
  checks_first gen_order_vnaproperty_vset = true /\
  checks_first gen_order_vnaproperty_vset_subtree = true /\
  count_checks gen_order_vnaproperty_vset = 3%nat /\
  count_checks gen_order_vnaproperty_vset_subtree = 2%nat.
Proof. exact vset_orders_l. Qed.
Print Assumptions vset_orders.

(* an accepted call, in the order of the working tree: the value (or null) assigned at the path *)
Theorem vset_accepted : forall t path v,
  vset t (mkpdesc true path true (TkAssign v)) = (assign path (PScalar v) t, Pass) /\
  vset t (mkpdesc true path true TkHash) = (assign path PNull t, Pass) /\
  vset_subtree t (mkpdesc true path true TkEof) = (conform path t, Pass).
Proof. exact vset_accepted_l. Qed.
Print Assumptions vset_accepted.

Theorem property_set_satisfiable :
  vset (PMap [(1, PScalar 7)]) (mkpdesc true [1; 2] true TkEof) = (PMap [(1, PScalar 7)], Refuse VM1 (Direct E_INVAL)) /\
  vset (PMap [(1, PScalar 7)]) (mkpdesc true [1] false (TkAssign 9)) = (PMap [(1, PScalar 7)], Refuse VM1 (Direct E_INVAL)) /\
  vset (PMap [(1, PScalar 7)]) (mkpdesc false [] true TkOther) = (PMap [(1, PScalar 7)], Refuse VM1 (Direct E_INVAL)) /\
  vset (PMap [(1, PScalar 7)]) (mkpdesc true [1; 2] true (TkAssign 9)) = (PMap [(1, PMap [(2, PScalar 9)])], Pass) /\
  vset_subtree (PMap [(1, PScalar 7)]) (mkpdesc true [1; 2] true (TkAssign 9)) = (PMap [(1, PScalar 7)], Refuse VNULL (Direct E_INVAL)) /\
  vset_subtree (PMap [(1, PScalar 7)]) (mkpdesc true [1; 2] true TkEof) = (PMap [(1, PMap [(2, PNull)])], Pass).
Proof. exact property_set_example. Qed.
Print Assumptions property_set_satisfiable.

(* model variant (descend before the tests, the order before the repair of D54): root {1: "7"}, set "1.2"
   without a value is refused and leaves {1: {2: ~}} *)
Theorem model_variant_descend_first_changes_tree :
  checks_first order_variant_descend_first = false /\
  exists t d t' v r, vset_in_order order_variant_descend_first t d = (t', Refuse v r) /\ t' <> t.
Proof. exact model_variant_descend_first_changes_tree_l. Qed.
Print Assumptions model_variant_descend_first_changes_tree.

(* 6. vnacal_new family (vnacal_new_alloc, set_frequency_vector, set_z0, every vnacal_new_add_*
      through _vnacal_new_add_common, set_m_error, set_*_tolerance, set_iteration_limit,
      set_pvalue_limit, solve), prologues as coded in LV.Err.NewModel; for every parameter table
      (valid), every summary of the vnacal_new_t, NULL or valid handle, and all arguments. *)

Theorem new_alloc_fail_classified : forall t r c f v rp,
  check_new_alloc t r c f = Refuse v rp -> v = VNULL /\ rp = Via USAGE.
Proof. exact new_alloc_fail_classified_l. Qed.
Print Assumptions new_alloc_fail_classified.

(* refused exactly when vnacal_new(3) excludes the arguments: dimensions at least 1 x 1, a
   non-negative frequency count, a known type, T types with rows <= columns, U / E12 types with
   rows >= columns *)
Theorem new_alloc_refusal_iff_invalid : forall t r c f,
  is_pass (check_new_alloc t r c f) = doc_alloc_valid t r c f.
Proof. exact new_alloc_refusal_iff_invalid_l. Qed.
Print Assumptions new_alloc_refusal_iff_invalid.

(* every refusal returns -1 and calls the error function once (not for a NULL handle, which the
   functions that test it - all of them, as found: gen_handle_<f> - answer with EINVAL); it is a usage
   error, or the singular 'a' matrix of an add with a given 'a', or the category a solve kernel reported *)
Theorem new_fail_classified : forall h c v r,
  check_new h c = Refuse v r ->
  v = VM1 /\
  callbacks r = match h with None => 0%nat | Some _ => 1%nat end /\
  match h with
  | None => r = Direct E_INVAL
  | Some _ => r = Via USAGE \/ new_math_refusal c r
  end.
Proof. exact new_fail_classified_l. Qed.
Print Assumptions new_fail_classified.

(* errno through the generated table: EINVAL; EDOM only for an add; for solve the class of the
   reported category (EDOM for VNAERR_MATH) *)
Theorem new_errno : forall s c v r,
  check_new (Some s) c = Refuse v r ->
  actual_errno r = E_INVAL \/
  (actual_errno r = E_DOM /\ exists a, c = NAdd a) \/
  (exists k, c = NSolve (Some k) /\ actual_errno r = doc_errno k).
Proof. exact new_errno_l. Qed.
Print Assumptions new_errno.

(* as found in the C text: the argument checks of every function of the family precede its first write
   (for vnacal_new_solve: its one argument check, "the frequency vector was given") *)
Theorem new_orders_checks_first : forall c, ncall_ordered c = true.
Proof. exact new_orders_checks_first_l. Qed.
Print Assumptions new_orders_checks_first.

(* for every function whose generated order has the argument checks before the first write, every
   abstraction of the work and of the rest of the object: a call refused BY AN ARGUMENT CHECK leaves the
   object equal.  A failure inside the work (MLate: the numeric kernels of vnacal_new_solve, which have
   written results of earlier frequencies by then) is not covered: see property C20 for a failed solve. *)
Theorem new_arg_refused_unchanged : forall (payload : Type) work pre (o : nobj payload) c o' v r,
  ncall_ordered c = true -> new_run payload work pre o c = (o', MRefused v r) -> o' = o.
Proof. exact new_arg_refused_unchanged_l. Qed.
Print Assumptions new_arg_refused_unchanged.

(* link between the step and the decision function check_new_some of the theorems above *)
Theorem new_step_outcome : forall (payload : Type) work pre (o : nobj payload) c,
  gen_add_common_prevalidates = true -> gen_check_parameter_recurses = true -> ncall_ordered c = true ->
  snd (new_step payload work pre o c) = check_new_some (no_sum payload o) c.
Proof. exact new_step_outcome_l. Qed.
Print Assumptions new_step_outcome.

Theorem new_step_satisfiable :
  let o := mknobj nat (mknsum T8 2 2 3 false false ex_new0) 0%nat in
  let bump := fun (x : nobj nat) (_ : ncall) => mknobj nat (no_sum nat x) (S (no_rest nat x)) in
  ncall_ordered (NSetPvalue (Some 2%Q)) = true /\
  new_run nat bump (fun x => x) o (NSetPvalue (Some 2%Q)) = (o, MRefused VM1 (Via USAGE)) /\
  new_run nat bump (fun x => x) o (NSetPvalue (Some (1#2)%Q)) = (bump o NSetZ0, MPass) /\
  new_run nat bump (fun x => x) o (NSolve None) = (o, MRefused VM1 (Via USAGE)) /\
  new_run nat bump (fun x => x) (mknobj nat (mknsum T8 2 2 3 true false ex_new0) 0%nat) (NSolve (Some MATH))
    = (mknobj nat (mknsum T8 2 2 3 true false ex_new0) 1%nat, MLate VM1 (Via MATH)).
Proof. repeat split; vm_compute; reflexivity. Qed.
Print Assumptions new_step_satisfiable.

(* an accepted frequency vector has no NaN, no negative entry and is strictly ascending (and the
   parameters in use cover it); a NULL vector is refused *)
Theorem set_fv_accepts_only_valid : forall s l rb,
  check_set_fv s (Some l) rb = Pass -> Forall nonneg l /\ ascending l /\ ((0 <? v_freqs s) && rb = false).
Proof. exact set_fv_accepts_only_valid_l. Qed.
Print Assumptions set_fv_accepts_only_valid.

Theorem set_fv_null_refused : forall s rb, check_set_fv s None rb = Refuse VM1 (Via USAGE).
Proof. exact set_fv_null_refused_l. Qed.
Print Assumptions set_fv_null_refused.

(* the scalar setters accept exactly the documented ranges - and NaN, which no comparison catches, unless the range
   test starts with isnan (nan = gen_*_refuses_nan, read from the C text; true after fix DC90): with nan = true the
   accepted values are exactly the documented ones *)
Theorem set_pvalue_iff : forall nan x,
  check_set_pvalue_with nan x = Pass <-> ((nan = false /\ x = None) \/ exists q, x = Some q /\ (0 < q)%Q /\ (q <= 1)%Q).
Proof. exact set_pvalue_iff_l. Qed.
Print Assumptions set_pvalue_iff.

Theorem set_tolerance_iff : forall nan x,
  check_set_tolerance_with nan x = Pass <-> ((nan = false /\ x = None) \/ exists q, x = Some q /\ (0 <= q)%Q).
Proof. exact set_tolerance_iff_l. Qed.
Print Assumptions set_tolerance_iff.

Theorem set_iteration_iff : forall n, check_set_iteration n = Pass <-> 1 <= n.
Proof. exact set_iteration_iff_l. Qed.
Print Assumptions set_iteration_iff.

(* whatever _vnacal_new_add_common accepts has a port map with pairwise distinct entries inside
   1..ports, S dimensions inside 1..ports, a measurement matrix no larger than the calibration
   (D48), and only parameters that passed the validation (D17) *)
Theorem add_accepts_only_valid_map : forall s a m,
  check_add s a = Pass -> aa_map a = Some m -> 1 <= v_ports s ->
  NoDup m /\ Forall (fun p => 1 <= p <= v_ports s) m /\
  1 <= aa_s_rows a <= v_ports s /\ 1 <= aa_s_cols a <= v_ports s /\
  aa_b_rows a <= v_rows s /\ aa_b_cols a <= v_cols s /\
  forallb (check_parameter (v_params s)) (aa_cells a) = true.
Proof. exact add_accepts_only_valid_map_l. Qed.
Print Assumptions add_accepts_only_valid_map.

Theorem new_contract_satisfiable :
  check_new_alloc T8 2 1 3 = Refuse VNULL (Via USAGE) /\
  check_new_alloc E12 2 1 3 = Pass /\
  check_set_fv (mknsum T8 2 2 3 false false ex_new0) (Some [Some 1%Q; Some 3%Q; Some 2%Q]) false
    = Refuse VM1 (Via USAGE) /\
  check_set_fv (mknsum T8 2 2 3 false false ex_new0) (Some [Some 1%Q; None; Some 2%Q]) false
    = Refuse VM1 (Via USAGE) /\
  check_set_fv (mknsum T8 2 2 3 false false ex_new0) (Some [Some 1%Q; Some 2%Q; Some 3%Q]) false = Pass /\
  (* double reflect on ports 1, 1 *)
  check_add (mknsum T8 2 2 3 true false ex_new0)
    (mkadd false None 2 2 2 2 (Some [1; 1]) (ex_cells [2; 1]) false false) = Refuse VM1 (Via USAGE) /\
  (* an m matrix larger than the calibration (D48) *)
  check_add (mknsum T16 2 2 3 true false ex_new0)
    (mkadd false None 3 2 2 2 (Some [1; 2]) (ex_cells [2; 0; 0; 1]) false false) = Refuse VM1 (Via USAGE) /\
  (* unknown parameter then invalid handle (D17): refused by the validation pass *)
  check_add (mknsum T8 2 2 3 true false ex_new0)
    (mkadd false None 2 2 2 2 (Some [1; 2]) (ex_cells [5; 99]) false false) = Refuse VM1 (Via USAGE) /\
  (* unknown parameter then a correlated parameter whose correlate is too narrow / deleted (seeded C11-4) *)
  check_add (mknsum T8 2 2 3 true false ex_s0)
    (mkadd false None 2 2 2 2 (Some [1; 2]) [ex_u5; ex_c7_narrow] false false) = Refuse VM1 (Via USAGE) /\
  check_add (mknsum T8 2 2 3 true false ex_s0)
    (mkadd false None 2 2 2 2 (Some [1; 2]) [ex_u5; ex_c9_deleted] false false) = Refuse VM1 (Via USAGE) /\
  check_add (mknsum T8 2 2 3 true false ex_s0)
    (mkadd false None 2 2 2 2 (Some [1; 2]) [ex_u5; ex_c11_good] false false) = Pass /\
  check_add (mknsum T8 2 2 3 true false ex_new0)
    (mkadd false None 2 2 2 2 (Some [2; 1]) (ex_cells [2; 1]) false false) = Pass /\
  check_add (mknsum UE14 2 2 3 true false ex_new0)
    (mkadd false (Some (1, 2)) 2 2 2 2 (Some [1; 2]) (ex_cells [2; 1]) true false) = Refuse VM1 (Via MATH) /\
  check_solve (mknsum T8 2 2 3 false false ex_new0) None = Refuse VM1 (Via USAGE) /\
  check_solve (mknsum T8 2 2 3 true false ex_new0) (Some MATH) = Refuse VM1 (Via MATH).
Proof. exact new_examples. Qed.
Print Assumptions new_contract_satisfiable.

(* 7. Parameter family (vnacal_make_{scalar,vector,unknown,correlated}_parameter,
      vnacal_delete_parameter, vnacal_get_parameter_value) and vnadata_convert. *)

Theorem param_fail_classified : forall h c v r,
  check_param h c = Refuse v r ->
  v = pcall_fval c /\ r = match h with None => Direct E_INVAL | Some _ => Via USAGE end.
Proof. exact param_fail_classified_l. Qed.
Print Assumptions param_fail_classified.

(* as found in the C text: every function of the family tests before it writes *)
Theorem param_orders_checks_first : forall c, checks_first (pcall_order c) = true.
Proof. exact param_orders_checks_first_l. Qed.
Print Assumptions param_orders_checks_first.

Theorem param_refused_unchanged : forall work pre tb c v r,
  checks_first (pcall_order c) = true ->
  snd (param_step work pre tb c) = Refuse v r -> fst (param_step work pre tb c) = tb.
Proof. exact param_refused_unchanged_l. Qed.
Print Assumptions param_refused_unchanged.

Theorem param_handle_iff : forall tb h,
  (check_param_some tb (PMakeUnknown h) = Pass <-> plive tb h = true) /\
  (check_param_some tb (PDelete h) = Pass <-> (0 <= h < 3 \/ plive tb h = true)).
Proof. exact param_handle_iff_l. Qed.
Print Assumptions param_handle_iff.

Theorem get_value_range_iff : forall tb e h n a b q,
  pslot_at tb h = PVectorP n a b ->
  (check_param_some tb (PGetValue e h (Some q)) = Pass <-> ((1 - e) * a <= q)%Q /\ (q <= (1 + e) * b)%Q).
Proof. exact get_value_range_iff_l. Qed.
Print Assumptions get_value_range_iff.

Theorem convert_fail_classified : forall h on nt v r,
  check_convert h on nt = Refuse v r ->
  v = VM1 /\ r = match h with None => Direct E_INVAL | Some _ => Via USAGE end.
Proof. exact convert_fail_classified_l. Qed.
Print Assumptions convert_fail_classified.

(* for every well-formed source object and every integer newtype: refused exactly when
   vnadata(3) excludes the conversion (identity, the 72 matrix conversions, the 9 to Zin;
   two-port types need 2 x 2) *)
Theorem convert_refusal_iff_invalid : forall s nt,
  data_inv s -> is_pass (check_convert_some s false nt) = doc_convert_valid s nt.
Proof. exact convert_refusal_iff_invalid_l. Qed.
Print Assumptions convert_refusal_iff_invalid.

Theorem param_contract_satisfiable :
  let tb := [PScalarP; PScalarP; PScalarP; PScalarP; PVectorP 3 1 3; PUnknownP None None; PFree] in
  check_param (Some tb) (PMakeUnknown 6) = Refuse VM1 (Via USAGE) /\
  check_param (Some tb) (PMakeUnknown 3) = Pass /\
  check_param (Some tb) (PDelete (-1)) = Refuse VM1 (Via USAGE) /\
  check_param (Some tb) (PDelete 1) = Pass /\
  check_param (Some tb) (PGetValue (1#100) 4 (Some 2%Q)) = Pass /\
  check_param (Some tb) (PGetValue (1#100) 4 (Some 10%Q)) = Refuse VHUGE (Via USAGE) /\
  check_param (Some tb) (PGetValue (1#100) 5 (Some 2%Q)) = Refuse VHUGE (Via USAGE) /\
  check_param (Some tb) (PMakeVector 3 (Some [Some 1%Q; Some 1%Q; Some 2%Q]) false) = Refuse VM1 (Via USAGE) /\
  check_param None (PDelete 5) = Refuse VM1 (Direct E_INVAL) /\
  check_convert (Some (mkdsum 1 3 3 2 false)) false 2 = Refuse VM1 (Via USAGE) /\
  check_convert (Some (mkdsum 1 3 3 2 false)) false 10 = Pass.
Proof. exact param_examples. Qed.
Print Assumptions param_contract_satisfiable.

Theorem param_step_satisfiable :
  let tb := [PScalarP; PScalarP; PScalarP; PScalarP; PVectorP 3 1 3; PUnknownP None None; PFree] in
  checks_first (pcall_order (PMakeUnknown 6)) = true /\
  param_step (fun t _ => t ++ [PScalarP]) (fun t => t) tb (PMakeUnknown 6) = (tb, Refuse VM1 (Via USAGE)) /\
  param_step (fun t _ => t ++ [PScalarP]) (fun t => t) tb (PMakeUnknown 3) = (tb ++ [PScalarP], Pass).
Proof. repeat split. Qed.
Print Assumptions param_step_satisfiable.

(* 8. errno on return = errno inside the error function, for the functions that clean up after
      reporting (vnadata_save, vnadata_load, vnacal_save, vnacal_load).  None of them saves and
      restores errno; what keeps the reported value is that every clean-up call leaves errno alone. *)

(* applied to the call lists the translator finds on the four clean-up paths: whatever each call does to
   errno, as long as the calls of the benign list (fclose, free, the libyaml and library destructors)
   leave it alone - which they do when they succeed: the trusted premise - errno on return is the
   reported one *)
Theorem cleanup_paths_preserve_errno : forall (effect : String.string -> option errno_class),
  (forall c, existsb (String.eqb c) benign_cleanup_calls = true -> effect c = None) ->
  forall p e, In p gen_cleanup_calls -> errno_after_cleanup e (map effect (snd p)) = e.
Proof. exact cleanup_paths_preserve_errno_l. Qed.
Print Assumptions cleanup_paths_preserve_errno.

(* the calls the translator finds on those clean-up paths are all in the benign list; the paths do not
   assign errno (translator) *)
Theorem cleanup_calls_benign : forallb (fun p => all_benign (snd p)) gen_cleanup_calls = true.
Proof. exact cleanup_calls_benign_l. Qed.
Print Assumptions cleanup_calls_benign.

(* specification level (a fold over option values, no C text involved): one disturbing call (e.g. an
   unlink that fails) after the report decides errno on return *)
Theorem cleanup_disturbance_decides_spec_level : forall e steps e' rest,
  Forall (fun st => st = None) rest -> errno_after_cleanup e (steps ++ Some e' :: rest) = e'.
Proof. exact cleanup_last_disturbance_l. Qed.
Print Assumptions cleanup_disturbance_decides_spec_level.

(* 9. Histories: lists of calls run one after the other on one object (hrun), over the step functions of the
      modelled machines.  kept = the history without the calls an argument check refused (decided call by call
      on the object each call finds). *)

(* for every state type, every step function, every history ops1 ++ [op] ++ ops2 and every start: when op - a
   call that returns its object whenever an argument check refuses it - is refused where it stands, the history
   without it ends in the same object, and all other calls get the answers they got *)
Theorem refusals_erasable : forall (St Op : Type) (step : St -> Op -> St * mres) ops1 op ops2 s v r,
  unchanged_when_refused step op ->
  snd (step (fst (hrun step s ops1)) op) = MRefused v r ->
  fst (hrun step s (ops1 ++ op :: ops2)) = fst (hrun step s (ops1 ++ ops2)) /\
  snd (hrun step s (ops1 ++ op :: ops2)) =
    snd (hrun step s ops1) ++ MRefused v r :: snd (hrun step (fst (hrun step s ops1)) ops2) /\
  snd (hrun step s (ops1 ++ ops2)) = snd (hrun step s ops1) ++ snd (hrun step (fst (hrun step s ops1)) ops2).
Proof. exact refusals_erasable_l. Qed.
Print Assumptions refusals_erasable.

(* all refusals of a history at once *)
Theorem all_refusals_erasable : forall (St Op : Type) (step : St -> Op -> St * mres) ops s,
  Forall (unchanged_when_refused step) ops ->
  fst (hrun step s (kept step s ops)) = fst (hrun step s ops) /\
  snd (hrun step s (kept step s ops)) = filter (fun m => negb (arg_refused m)) (snd (hrun step s ops)).
Proof. exact all_refusals_erasable_l. Qed.
Print Assumptions all_refusals_erasable.

(* vnadata family: every history of calls whose C function tests before it writes (as found: every function but
   vnadata_init, data_orders_checks_first), every abstraction of the writes and of the rest of the object, every
   start object: the object at the end - summary and rest - is the one the history without the refused calls ends
   in, and the other calls answer the same *)
Theorem data_history_refusals_erasable : forall (payload : Type) work ops (o : dobj payload),
  Forall (fun c => checks_first (dcall_order c) = true) ops ->
  fst (hrun (data_run payload work) o (kept (data_run payload work) o ops)) = fst (hrun (data_run payload work) o ops) /\
  snd (hrun (data_run payload work) o (kept (data_run payload work) o ops)) =
    filter (fun m => negb (arg_refused m)) (snd (hrun (data_run payload work) o ops)).
Proof. exact data_refusals_erasable_l. Qed.
Print Assumptions data_history_refusals_erasable.

(* ... with the vnadata_t model of property C15 as the rest of the object: everything the public getters answer at
   the end of the history (observe) is what they answer at the end of the history without the refused calls *)
Theorem data_history_getters_unchanged : forall (V : Type) work (o : dobj (LV.Data.DataModel.vd V)) ops,
  Forall (fun c => checks_first (dcall_order c) = true) ops ->
  LV.Data.DataModel.observe V (o_rest _ (fst (hrun (data_run _ work) o (kept (data_run _ work) o ops)))) =
  LV.Data.DataModel.observe V (o_rest _ (fst (hrun (data_run _ work) o ops))).
Proof. exact data_history_observe_l. Qed.
Print Assumptions data_history_getters_unchanged.

(* the invariant under which all checks are defined holds after EVERY history of the 26 calls - vnadata_init
   included, accepted or refused: every failing call leaves an object the next call can be made on *)
Theorem data_history_inv : forall (payload : Type) work ops (o : dobj payload),
  data_inv (o_sum payload o) -> data_inv (o_sum payload (fst (hrun (data_run payload work) o ops))).
Proof. exact data_history_inv_l. Qed.
Print Assumptions data_history_inv.

(* vnacal_new_t: as found in the working tree every function of the family tests its arguments before it writes
   (new_orders_checks_first), so for EVERY history - frequency vector, z0, standards, error model, limits, solves
   that pass or fail inside the kernels - every start object and every abstraction of the work: the history without
   its argument refusals ends in the same object with the same answers *)
Theorem new_history_refusals_erasable : forall (payload : Type) work pre ops (o : nobj payload),
  fst (hrun (new_run payload work pre) o (kept (new_run payload work pre) o ops)) = fst (hrun (new_run payload work pre) o ops) /\
  snd (hrun (new_run payload work pre) o (kept (new_run payload work pre) o ops)) =
    filter (fun m => negb (arg_refused m)) (snd (hrun (new_run payload work pre) o ops)).
Proof. exact new_refusals_erasable_l. Qed.
Print Assumptions new_history_refusals_erasable.

(* ... and under the order and the recursion found in _vnacal_new_add_common / _vnacal_new_check_parameter every
   refused standard is such a refusal (never a failure from inside the registration): rejected standards can be
   deleted from any history of a calibration *)
Theorem refused_standard_is_argument_refusal : forall (payload : Type) work pre (o : nobj payload) a v r,
  gen_add_common_prevalidates = true -> gen_check_parameter_recurses = true ->
  snd (new_step payload work pre o (NAdd a)) = Refuse v r ->
  arg_refused (snd (new_run payload work pre o (NAdd a))) = true.
Proof. exact new_add_refusal_is_arg_refusal_l. Qed.
Print Assumptions refused_standard_is_argument_refusal.

(* the registration summary over any sequence of standards whose S cells are arbitrary parameter chains *)
Theorem standards_history_refusals_erasable : forall stds s,
  gen_add_common_prevalidates = true -> gen_check_parameter_recurses = true ->
  fst (hrun standard_step s (kept standard_step s stds)) = fst (hrun standard_step s stds) /\
  snd (hrun standard_step s (kept standard_step s stds)) =
    filter (fun m => negb (arg_refused m)) (snd (hrun standard_step s stds)).
Proof. exact standards_refusals_erasable_l. Qed.
Print Assumptions standards_history_refusals_erasable.

(* parameter table of the vnacal_t and its slot table of calibrations (getters, find, delete, the ci argument of
   the property functions): every history, as found *)
Theorem param_history_refusals_erasable : forall work pre ops tb,
  fst (hrun (param_run work pre) tb (kept (param_run work pre) tb ops)) = fst (hrun (param_run work pre) tb ops) /\
  snd (hrun (param_run work pre) tb (kept (param_run work pre) tb ops)) =
    filter (fun m => negb (arg_refused m)) (snd (hrun (param_run work pre) tb ops)).
Proof. exact param_refusals_erasable_l. Qed.
Print Assumptions param_history_refusals_erasable.

Theorem query_history_refusals_erasable : forall pre ops sl,
  fst (hrun (query_run pre) sl (kept (query_run pre) sl ops)) = fst (hrun (query_run pre) sl ops) /\
  snd (hrun (query_run pre) sl (kept (query_run pre) sl ops)) =
    filter (fun m => negb (arg_refused m)) (snd (hrun (query_run pre) sl ops)).
Proof. exact query_refusals_erasable_l. Qed.
Print Assumptions query_history_refusals_erasable.

(* the hypotheses are met: a history of eight calls on an S 2x2x3 object of which four are refused (index out of
   range, dimensions against the type, port out of range) - every one of them a call of a function that tests
   first -, and three standards of which the one with the too narrow correlate is refused *)
Theorem data_history_satisfiable :
  kept (data_run nat ex_count_work) ex_dobj ex_dhist = [CSetCell 0 0 0; CSetFz0 1 1; CAddFrequency false; CSetCell 3 1 1] /\
  fst (hrun (data_run nat ex_count_work) ex_dobj ex_dhist) = mkdobj nat (mkdsum 1 2 2 4 true) 6%nat /\
  fst (hrun (data_run nat ex_count_work) ex_dobj (kept (data_run nat ex_count_work) ex_dobj ex_dhist))
    = mkdobj nat (mkdsum 1 2 2 4 true) 6%nat /\
  map arg_refused (snd (hrun (data_run nat ex_count_work) ex_dobj ex_dhist)) = [false; true; true; false; true; false; true; false] /\
  Forall (fun c => checks_first (dcall_order c) = true) ex_dhist.
Proof. exact data_history_example. Qed.
Print Assumptions data_history_satisfiable.

Theorem standards_history_satisfiable :
  let stds := [[ChEnd 2 true false 0%Q None; ChEnd 1 true false 0%Q None]; [ex_u5; ex_c7_narrow];
               [ChEnd 0 true false 0%Q None; ex_c11_good]] in
  kept standard_step ex_s0 stds = [[ChEnd 2 true false 0%Q None; ChEnd 1 true false 0%Q None]; [ChEnd 0 true false 0%Q None; ex_c11_good]] /\
  fst (hrun standard_step ex_s0 stds) = mknew [0; 2; 1; 4; 10; 11] 2 2 2 (Some (1%Q, 3%Q)) /\
  fst (hrun standard_step ex_s0 (kept standard_step ex_s0 stds)) = mknew [0; 2; 1; 4; 10; 11] 2 2 2 (Some (1%Q, 3%Q)).
Proof. exact standards_history_example. Qed.
Print Assumptions standards_history_satisfiable.

(* 10. Contracts regenerated from the C text (session 5).  LV.Gen.ContractGen (translate/contracts.py) holds, for
       every function of the vnacal_new_t settings, vnacal_new_alloc, vnacal_new_solve, vnacal_add_calibration,
       vnacal_apply(_m), vnacal_set_{f,d}precision, the vnacal_get_* queries and the ci argument of vnacal_property_*,
       the ORDERED list of its steps with the CONDITION of every refusing test, its category and its return value.
       LV.Err.New2Base runs such a list (crun: the prologue on an environment; srun: the whole body on a state),
       LV.Err.New2Model says what the variables stand for. *)
Require Import String.
Require Import LV.Err.New2Base LV.Gen.ContractGen LV.Err.New2Model LV.Err.New2Proofs.
Open Scope string_scope.
Open Scope Z_scope.

(* facts about the working tree: every translated function finishes testing before it writes; every refusing step
   has the documented failure value of its function and refuses with errno = EINVAL directly or through one
   VNAERR_USAGE report; the documented silent queries have no reporting step and all of them were translated *)
Theorem contracts_as_found :
  forallb (fun p => checks_first (contract_order (snd p))) gen_contracts = true /\
  forallb (fun p => contract_classified (snd (fst p)) (snd p)) gen_contracts = true /\
  forallb (fun p => negb (is_silent_function (fst (fst p))) || contract_silent (snd p)) gen_contracts = true /\
  forallb (fun f => existsb (fun p => String.eqb (fst (fst p)) f) gen_contracts) silent_functions = true.
Proof. exact (conj contracts_checks_first_l (conj contracts_classified_l (conj silent_contracts_l silent_functions_translated_l))). Qed.
Print Assumptions contracts_as_found.

(* fail_classified, callbacks, errno inside the callback = errno on return, silent queries - for every translated function,
   every environment (all argument values, all states), every errno on entry, whatever the calls inside the reporter and the
   error function itself leave in errno, and each of the THREE generated paths through _vnaerr_verror: with an error
   function installed (message formatted or vasprintf failing) the error function is called exactly once for a reported
   refusal; WITHOUT one (NULL given to vnacal_create) it is not called, errno and the failure value are the same.
   ctrace derives errno and the log from the steps: only an SReport step that fires runs the reporter. *)
Theorem contract_refusal_reported_as_documented : forall f fv c e p clob entry v r st',
  In (f, fv, c) gen_contracts -> ctrace e p clob c entry = (CRefused v r, st') ->
  v = fv /\ r_errno st' = E_INVAL /\ List.length (r_log st') = path_callbacks p r /\
  (forall ce, In ce (r_log st') -> ce = (USAGE, E_INVAL)) /\
  (is_silent_function f = true -> r_log st' = []) /\
  crun e c = CRefused v r.
Proof. exact contract_trace_l. Qed.
Print Assumptions contract_refusal_reported_as_documented.

(* no call of the error function and no store to errno while the prologue passes or leaves through an early successful
   exit: by induction over the steps (every list of steps, not only the generated ones) *)
Theorem contract_success_makes_no_report : forall c e p clob k st o st',
  ctrace_k e p clob k c st = (o, st') -> (o = CPass \/ o = CExitOk) -> st' = st.
Proof. exact ctrace_k_success_silent. Qed.
Print Assumptions contract_success_makes_no_report.

(* the epilogue of _vnaerr_verror as found: on each of its three paths errno on return is new_errno; the error
   function is called once (not at all without one) and sees that errno - whatever vasprintf, free and the error
   function itself leave in errno *)
Theorem reporter_errno_in_callback_is_errno_on_return : forall cat entry clob,
  run_effects (new_errno cat entry) cat gen_verror_reported clob 0 (mkr entry []) = mkr (new_errno cat entry) [(cat, new_errno cat entry)] /\
  run_effects (new_errno cat entry) cat gen_verror_format_failed clob 0 (mkr entry []) = mkr (new_errno cat entry) [(cat, new_errno cat entry)] /\
  run_effects (new_errno cat entry) cat gen_verror_no_error_fn clob 0 (mkr entry []) = mkr (new_errno cat entry) [].
Proof. intros. exact (conj (verror_reported_l cat entry clob) (conj (verror_format_failed_l cat entry clob) (verror_no_error_fn_l cat entry clob))). Qed.
Print Assumptions reporter_errno_in_callback_is_errno_on_return.

Theorem model_variant_report_before_errno :
  exists cat entry clob,
    r_log (run_effects (new_errno cat entry) cat [EClobber; ECall; EClobber; ESet] clob 0 (mkr entry [])) <>
    [(cat, new_errno cat entry)].
Proof. exact model_variant_report_before_errno_l. Qed.
Print Assumptions model_variant_report_before_errno.

(* refused_unchanged: for EVERY list of steps whose tests precede its writes, every state type, reading of the
   state, early-exit write and work: a refused run returns the state it was given, and the prologue on the
   environment of that state decides the refusal *)
Theorem ordered_contract_refused_unchanged :
  forall (St : Type) (envf : St -> env) (exitw : St -> St) (work : nat -> St -> St * bool) c k wi s s' v r,
  checks_first (contract_order c) = true ->
  srun envf exitw work k wi c s = (s', RRefused v r) -> s' = s.
Proof. exact srun_refused_unchanged_l. Qed.
Print Assumptions ordered_contract_refused_unchanged.

Theorem contract_refused_unchanged : forall f fv c, In (f, fv, c) gen_contracts ->
  forall (St : Type) (envf : St -> env) (exitw : St -> St) (work : nat -> St -> St * bool) s s' v r,
  srun envf exitw work 0 0 c s = (s', RRefused v r) ->
  s' = s /\ crun (envf s) c = CRefused v r.
Proof. exact contract_refused_unchanged_l. Qed.
Print Assumptions contract_refused_unchanged.

Theorem model_variant_write_before_test :
  exists s',
    srun (fun n : Z => lookup [("x", VInt n)]) (fun n => n) (fun _ n => (n + 1, false)) 0 0
         [SWork; SReport (CCmp OLt (CVar "x") (CInt 5)) USAGE VM1] 0 = (s', RRefused VM1 (Via USAGE)) /\ s' <> 0.
Proof. exact model_variant_write_before_test_l. Qed.
Print Assumptions model_variant_write_before_test.

Theorem contract_theorems_satisfiable :
  In ("vnacal_new_alloc", VNULL, gen_contract_vnacal_new_alloc) gen_contracts /\
  crun (env_new_alloc HOk 0 2 1 3) gen_contract_vnacal_new_alloc = CRefused VNULL (Via USAGE) /\
  In ("vnacal_get_fmin", VHUGE, gen_contract_vnacal_get_fmin) gen_contracts /\
  crun (env_get HOk [Some (mkcal 0 1 1 0)] 0) gen_contract_vnacal_get_fmin = CRefused VHUGE (Direct E_INVAL) /\
  crun (env_apply HOk [None; Some (mkcal 8 2 1 3)] (mkapp 1 false 2 false false false false false 2 2 false (Some (1, 2)) false false))
       gen_contract_vnacal_apply_common = CPass /\
  crun (env_apply HOk [None; Some (mkcal 8 2 1 3)] (mkapp 1 false 2 false false false false false 2 2 false (Some (2, 2)) false false))
       gen_contract_vnacal_apply_common = CRefused VM1 (Via USAGE).
Proof. exact contract_report_satisfiable. Qed.
Print Assumptions contract_theorems_satisfiable.

(* what the generated conditions decide, function by function (all argument values) *)
Theorem new_alloc_contract : forall t r c f,
  crun (env_new_alloc HOk t r c f) gen_contract_vnacal_new_alloc = lift (check_new_alloc t r c f) /\
  ((exists v rp, crun (env_new_alloc HOk t r c f) gen_contract_vnacal_new_alloc = CRefused v rp) <-> doc_alloc_valid t r c f = false).
Proof. intros. exact (conj (new_alloc_contract_l t r c f) (new_alloc_contract_iff_doc_l t r c f)). Qed.
Print Assumptions new_alloc_contract.

Theorem scalar_setter_contracts : forall (x : dval) (n : Z),
  crun (env_dbl HOk "significance" x) gen_contract_vnacal_new_set_pvalue_limit = lift (check_set_pvalue x) /\
  crun (env_dbl HOk "tolerance" x) gen_contract_vnacal_new_set_p_tolerance = lift (check_set_p_tolerance x) /\
  crun (env_dbl HOk "tolerance" x) gen_contract_vnacal_new_set_et_tolerance = lift (check_set_et_tolerance x) /\
  crun (env_int HOk "iterations" n) gen_contract_vnacal_new_set_iteration_limit = lift (check_set_iteration n) /\
  crun (env_int HOk "unused" 0) gen_contract_vnacal_new_set_z0 = CPass.
Proof.
  intros. exact (conj (set_pvalue_contract_l x) (conj (set_p_tolerance_contract_l x) (conj (set_et_tolerance_contract_l x)
                (conj (set_iteration_contract_l n) set_z0_contract_l)))).
Qed.
Print Assumptions scalar_setter_contracts.

(* check_set_fv2 = check_set_fv of NewModel.v followed - when the C text has it (gen_fv_tests_m_error, fix DM90) - by the
   test that the new vector equals the one in force while a measurement error model is set *)
Theorem set_frequency_vector_contract : forall s inforce fv rb,
  crun (env_set_fv HOk s inforce fv rb) gen_contract_vnacal_new_set_frequency_vector =
  lift (check_set_fv2 gen_fv_tests_m_error s inforce fv rb).
Proof. exact set_fv_contract_l. Qed.
Print Assumptions set_frequency_vector_contract.

(* over vectors of doubles with NaN and infinities; code_set_m_error follows the generation of the validation loops the C
   text has (gen_m_error_f92: NaN / infinite / negative entries are tested, fix DC92; gen_m_error_f94: frequency_vector is
   looked at only when frequencies > 1, fix DC94); set_m_error_documented below relates it to the manual's rule *)
Theorem set_m_error_contract : forall s a,
  mdec_of (crun (env_set_m_error_x HOk s a) gen_contract_vnacal_new_set_m_error) =
  code_set_m_error gen_m_error_f92 gen_m_error_f94 s a.
Proof. exact set_m_error_contract_l. Qed.
Print Assumptions set_m_error_contract.

(* with both repairs in the C text the decision as coded IS the rule of vnacal_new(3) written independently
   (doc_set_m_error: "If frequencies is 1, then frequency_vector is not used"; finite non-negative ascending frequencies;
   positive / non-negative finite sigma values) - for all vectors of doubles incl. NaN and infinities *)
Theorem set_m_error_documented : forall s a,
  code_set_m_error true true s a = mdec_of (doc_set_m_error s a).
Proof. exact set_m_error_documented_l. Qed.
Print Assumptions set_m_error_documented.

(* without them the code and the manual differ: a frequency_vector the manual says is not used is refused for its range
   (DC94), NaN in a sigma vector is accepted (DC92) *)
Theorem model_variant_set_m_error_before_repairs :
  let s := mknsum 0 2 2 3 true false (mknew [] 0 0 0 None) in
  code_set_m_error false false s (mkmerrx 1 (Some [XFin 2000]) (Some [XFin (5 # 1000)]) None true false) = MRefuse /\
  doc_set_m_error s (mkmerrx 1 (Some [XFin 2000]) (Some [XFin (5 # 1000)]) None true false) = CPass /\
  code_set_m_error false false s (mkmerrx 1 None (Some [XNaN]) None false false) = MPassD /\
  doc_set_m_error s (mkmerrx 1 None (Some [XNaN]) None false false) = CRefused VM1 (Via USAGE).
Proof. exact model_variant_set_m_error_l. Qed.
Print Assumptions model_variant_set_m_error_before_repairs.

(* vnacal_new_solve: one argument test; NULL is the only handle test (a wrong magic number is not looked at) *)
Theorem solve_contract : forall s,
  crun (env_solve HOk s) gen_contract_vnacal_new_solve = lift (check_solve s None) /\
  crun (env_solve HBad s) gen_contract_vnacal_new_solve = crun (env_solve HOk s) gen_contract_vnacal_new_solve.
Proof. intros. exact (conj (solve_contract_l s) (solve_bad_magic_not_tested_l s)). Qed.
Print Assumptions solve_contract.

Theorem setters_bad_handle : forall h e,
  h <> HOk ->
  In e [gen_contract_vnacal_new_set_frequency_vector; gen_contract_vnacal_new_set_z0; gen_contract_vnacal_new_set_m_error;
        gen_contract_vnacal_new_set_p_tolerance; gen_contract_vnacal_new_set_et_tolerance;
        gen_contract_vnacal_new_set_iteration_limit; gen_contract_vnacal_new_set_pvalue_limit] ->
  forall rest, crun (lookup (vnp_vars h ++ rest)) e = CRefused VM1 (Direct E_INVAL).
Proof. exact setters_bad_handle_l. Qed.
Print Assumptions setters_bad_handle.

Theorem add_calibration_contract : forall hv hn other solved,
  (hv = HOk -> crun (env_add_calibration hv hn other solved) gen_contract_vnacal_add_calibration =
               if add_calibration_valid hn other solved then CPass else CRefused VM1 (Via USAGE)) /\
  (hv <> HOk -> crun (env_add_calibration hv hn other solved) gen_contract_vnacal_add_calibration = CRefused VM1 (Direct E_INVAL)).
Proof.
  intros. split; [intro; subst; apply add_calibration_contract_l|apply add_calibration_bad_vcp_l].
Qed.
Print Assumptions add_calibration_contract.

Theorem precision_contract : forall p,
  crun (env_precision HOk p) gen_contract_vnacal_set_fprecision =
    (if (1 <=? p) && (p <=? gen_max_precision) then CPass else CRefused VM1 (Via USAGE)) /\
  crun (env_precision HOk p) gen_contract_vnacal_set_dprecision =
    (if (1 <=? p) && (p <=? gen_max_precision) then CPass else CRefused VM1 (Via USAGE)).
Proof. exact precision_contract_l. Qed.
Print Assumptions precision_contract.

(* as found the two functions dereference their vnacal_t pointer without a test; when the C text has the test
   (has_handle_test, fix DC91) a NULL / wrong-magic pointer is refused silently with EINVAL *)
Theorem precision_bad_handle : forall h p c,
  h <> HOk -> In c [gen_contract_vnacal_set_fprecision; gen_contract_vnacal_set_dprecision] ->
  has_handle_test c = true -> crun (env_precision h p) c = CRefused VM1 (Direct E_INVAL).
Proof. exact precision_bad_handle_l. Qed.
Print Assumptions precision_bad_handle.

(* the queries over every calibration table and every ci: silent, failure value by return type, refused exactly for
   a ci that names no calibration (fmin / fmax: or one without frequency points; property calls: ci = -1 is the
   global root) *)
Theorem getter_contract : forall c fv needs tb ci,
  In (c, fv, needs) getter_contracts ->
  crun (env_get HOk tb ci) c = if get_valid needs tb ci then CPass else CRefused fv (Direct E_INVAL).
Proof. exact getter_contract_l. Qed.
Print Assumptions getter_contract.

Theorem property_ci_contract : forall c fv tb ci,
  In (c, fv) property_contracts ->
  crun (env_get HOk tb ci) c = if property_ci_valid tb ci then CPass else CRefused fv (Direct E_INVAL).
Proof. exact property_contract_l. Qed.
Print Assumptions property_ci_contract.

Theorem query_bad_handle : forall h c fv tb ci,
  h <> HOk -> (exists n, In (c, fv, n) getter_contracts) \/ In (c, fv) property_contracts ->
  crun (env_get h tb ci) c = CRefused fv (Direct E_INVAL).
Proof. exact query_bad_handle_l. Qed.
Print Assumptions query_bad_handle.

(* vnacal_apply / vnacal_apply_m: refused (one VNAERR_USAGE report, -1) exactly when the arguments are not the ones
   vnacal_apply(3) admits for the calibration - over every table, ci, dimension and optional pointer *)
Theorem apply_contract : forall h tb a,
  (h = HOk -> crun (env_apply h tb a) gen_contract_vnacal_apply_common = if apply_valid tb a then CPass else CRefused VM1 (Via USAGE)) /\
  (h <> HOk -> crun (env_apply h tb a) gen_contract_vnacal_apply_common = CRefused VM1 (Direct E_INVAL)).
Proof. intros. split; [intro; subst; apply apply_contract_l|apply apply_bad_handle_l]. Qed.
Print Assumptions apply_contract.

(* usable_after_failure for the settings of a vnacal_new_t: every call (accepted, refused, failed late) keeps the
   invariant later calls rely on, over every history; a refused call returns the state and is classified; a refused
   call can be erased from any history *)
Theorem new_settings_refused_unchanged_classified : forall s c s' v r,
  n2_step s c = (s', RRefused v r) -> s' = s /\ v = VM1 /\ (r = Direct E_INVAL \/ r = Via USAGE).
Proof. intros s c s' v r H. exact (conj (n2_refused_unchanged_l s c s' v r H) (n2_refused_classified_l s c s' v r H)). Qed.
Print Assumptions new_settings_refused_unchanged_classified.

Theorem new_settings_history_inv : forall ops s, n2_inv s -> n2_inv (n2_hist s ops).
Proof. exact n2_history_inv_l. Qed.
Print Assumptions new_settings_history_inv.

Theorem new_settings_refusal_erasable : forall ops1 c ops2 s v r,
  snd (n2_step (n2_hist s ops1) c) = RRefused v r ->
  n2_hist s (ops1 ++ c :: ops2) = n2_hist s (ops1 ++ ops2).
Proof. exact n2_refusal_erasable_l. Qed.
Print Assumptions new_settings_refusal_erasable.

Theorem new_settings_satisfiable :
  let s0 := mkn2 (mknsum 0 2 2 3 false false (mknew [] 0 0 0 None)) (Some (1 # 1000000)) (Some (1 # 1000000)) 30 (Some (1 # 1000)) [] in
  n2_inv s0 /\
  snd (n2_step s0 (N2SetPvalue HOk (Some 2%Q))) = RRefused VM1 (Via USAGE) /\
  snd (n2_step s0 (N2SetMError HOk (mkmerrx 1 None (Some [XFin 1%Q]) None false false))) = RRefused VM1 (Via USAGE) /\
  snd (n2_step s0 (N2Solve HNull false)) = RRefused VM1 (Direct E_INVAL) /\
  v_merror (n2_sum (n2_hist s0 [N2SetFv HOk (Some [Some 1%Q; Some 2%Q; Some 3%Q]) false; N2SetPvalue HOk (Some 2%Q);
                                N2SetMError HOk (mkmerrx 1 None (Some [XFin 1%Q]) None false false)])) = true.
Proof. exact n2_history_satisfiable. Qed.
Print Assumptions new_settings_satisfiable.

(* 11. _vnacal_new_add_common regenerated from the C text (session 5, second box): gen_contract_vnacal_new_add_common is
       the argument validation in front of the first allocation plus the two tests made on the not yet linked measurement,
       gen_add_type_table the switch that sets ptype / min_b_rows / min_b_columns.  The equality with the hand-written
       NewModel.check_add in the environment env_add is compared by the check on generated tuples (obligation
       tie:add_common-contract-vs-check_add); proved here: what every refusal of the generated list looks like, the
       port-map scan of the environment against scan_map, and the equality on eight concrete standards.  *)
Theorem add_common_as_found :
  forallb add_step_ok gen_contract_vnacal_new_add_common = true /\
  forallb (fun t => match add_type_row t with Some _ => true | None => false end) [0; 1; 2; 3; 4; 5; 6; 7] = true /\
  (gen_add_common_prefix <= List.length gen_contract_vnacal_new_add_common)%nat.
Proof. exact add_common_as_found_l. Qed.
Print Assumptions add_common_as_found.

Theorem add_common_refusal_classified : forall e v r,
  crun e gen_contract_vnacal_new_add_common = CRefused v r -> v = VM1 /\ (r = Via USAGE \/ r = Via MATH).
Proof. exact add_common_refusal_classified_l. Qed.
Print Assumptions add_common_refusal_classified.

Theorem add_common_scan_is_scan_map : forall P l seen mx idx,
  scan_map P l seen mx = match scan_code P l seen mx idx with Some _ => true | None => false end.
Proof. exact scan_code_map. Qed.
Print Assumptions add_common_scan_is_scan_map.

(* full statement, not proved (the case analysis over 8 types x port-map codes x 20 comparisons did not finish in the
   time box): forall s a, new_type_ok (v_type s) = true ->
     crun (env_add s a) gen_contract_vnacal_new_add_common = lift (check_add s a) *)
Theorem add_common_contract_partial :
  let s := mknsum 4 2 2 3 true true (mknew [] 0 0 0 None) in
  let ok := ChEnd 1 true false 0%Q None in
  let rows := [mkadd false None 2 2 2 2 (Some [1; 2]) [ok; ok; ok; ok] false false;
               mkadd false None 2 2 1 1 (Some [2]) [ok] false true;
               mkadd false None 2 2 2 2 (Some [1; 1]) [ok; ok; ok; ok] false false;
               mkadd false None 2 2 2 2 (Some [1; 3]) [ok; ok; ok; ok] false false;
               mkadd false (Some (2, 2)) 2 2 2 2 None [ok; ok; ok; ok] true false;
               mkadd false None 2 2 2 2 None [ok; ChNone 99; ok; ok] false false;
               mkadd true None 2 2 2 2 None [ok; ok; ok; ok] false false;
               mkadd false None 3 2 2 2 None [ok; ok; ok; ok] false false] in
  map (fun a => crun (env_add s a) gen_contract_vnacal_new_add_common) rows = map (fun a => lift (check_add s a)) rows /\
  map (fun a => crun (env_add s a) gen_contract_vnacal_new_add_common) rows =
    [CPass; CRefused VM1 (Via USAGE); CRefused VM1 (Via USAGE); CRefused VM1 (Via USAGE); CRefused VM1 (Via MATH);
     CRefused VM1 (Via USAGE); CRefused VM1 (Via USAGE); CRefused VM1 (Via USAGE)].
Proof. exact add_common_contract_examples. Qed.
Print Assumptions add_common_contract_partial.

(* 12. Failures of a callee that leaves its reason in errno (_vnacommon_spline_calc: EINVAL = frequencies too close
       together, otherwise a failed allocation), reported as 'if (errno == EINVAL) report(c1) else report(c2)' in front of the
       first write (fix DI93; SAlloc positions of the generated lists, gen_errno_reports): as found c1 = VNAERR_USAGE,
       c2 = VNAERR_SYSTEM; in both branches and on each path through the reporter: one call of the error function (none
       without one), errno on return = errno inside the call = what the callee left. *)
Theorem errno_dependent_reports_as_found :
  forallb (fun p => category_eqb (snd (fst p)) USAGE && category_eqb (snd p) SYSTEM) gen_errno_reports = true.
Proof. exact errno_reports_as_found_l. Qed.
Print Assumptions errno_dependent_reports_as_found.

Theorem errno_dependent_report : forall f c1 c2 p entry clob (einval : bool),
  In (f, c1, c2) gen_errno_reports ->
  let cat := if einval then c1 else c2 in
  let e := if einval then E_INVAL else entry in
  run_effects (new_errno cat e) cat (path_effects p) clob 0 (mkr e []) =
  mkr e (match p with PNoErrorFn => [] | _ => [(cat, e)] end).
Proof. exact errno_dependent_report_l. Qed.
Print Assumptions errno_dependent_report.

(* 13. vnacal_new_set_frequency_vector under a measurement error model (fix DM90; the test is one more refusing step in front
       of the first write, so section 10's refused-unchanged / erasable theorems cover it through the generated list). *)
Theorem new_settings_fv_under_model :
  gen_fv_tests_m_error = true ->
  let v := [Some 1%Q; Some 2%Q; Some 3%Q] in
  let s := mkn2 (mknsum 0 2 2 3 true true (mknew [] 0 0 0 None)) (Some (1 # 1000000)) (Some (1 # 1000000)) 30 (Some (1 # 1000)) v in
  n2_step s (N2SetFv HOk (Some [Some 1%Q; Some 2%Q; Some 4%Q]) false) = (s, RRefused VM1 (Via USAGE)) /\
  n2_step s (N2SetFv HOk (Some v) false) = (s, RPass) /\
  snd (n2_step (with_sum s (set_merror false)) (N2SetFv HOk (Some [Some 1%Q; Some 2%Q; Some 4%Q]) false)) = RPass.
Proof. exact n2_fv_under_model_l. Qed.
Print Assumptions new_settings_fv_under_model.
