(* C06 - network data survive save and load in Touchstone 1, Touchstone 2 and NPD.
   Theorems only; models in Files/NumFmtModel.v, Files/NpdScan.v, Files/SaveModel.v. *)
Require Import List ZArith Ascii Bool.
Import ListNotations.
Require Import LV.Files.NumFmtModel LV.Files.NumFmtProofs LV.Files.NpdScan LV.Files.NpdScanProofs
               LV.Files.SaveModel LV.Files.SaveProofs.
Require LV.Files.TsTok LV.Files.TsParse LV.Files.TsSpec LV.Files.SaveEmit LV.Files.SaveEmitProofs LV.Files.SaveEmitExamples.
Require LV.Files.SaveTsLemmas LV.Files.NpdLoad LV.Files.SaveNpdProofs.
Open Scope Z_scope.

(* eng_value: for every sign, digit string (precision p = its length >= 1), exponent, plus and pad flag,
   the text print_value writes parses by the loaders' decimal grammar to exactly
   (-1)^neg * digits * 10^(ex - p + 1); only blank padding follows the number. *)
Theorem eng_value : forall (plus pad neg : bool) (ds : list nat) (ex : Z),
  ds <> [] -> lt10 ds -> -990 <= ex <= 990 ->
  exists rest,
    parse_decimal (print_value plus pad neg ds ex) =
      Some ({| d_neg := neg; d_mant := digits_value ds; d_exp10 := ex - Z.of_nat (length ds) + 1 |}, rest)
    /\ all_blank rest = true.
Proof. exact eng_value_lemma. Qed.
Print Assumptions eng_value.

(* buffers_fit: buf1 (the %.*e text) and buf2 (the engineering text) with their NUL fit in
   char buf[MAX(precision, 1) + 8] for every precision >= 1 and every double exponent. *)
Theorem buffers_fit : forall (plus pad neg : bool) (ds : list nat) (ex : Z),
  ds <> [] -> -990 <= ex <= 990 ->
  (length (print_core plus pad neg ds ex) + 1 <= buffer_size (length ds))%nat /\
  (sprintf_e_length neg (length ds) ex + 1 <= buffer_size (length ds))%nat.
Proof. exact buffers_fit_lemma. Qed.
Print Assumptions buffers_fit.

(* the printed exponent is a multiple of three for precision >= 3 (engineering notation) *)
Theorem engineering_exponent_multiple_of_3 : forall (p : nat) (ex : Z),
  (3 <= p)%nat -> (ex - (before p ex - 1)) mod 3 = 0.
Proof. exact engineering_exponent. Qed.
Print Assumptions engineering_exponent_multiple_of_3.

Example eng_value_instance :
  print_value true true true [5;3;0;7;8;4]%nat (-1) =
    ["-";"5";"3";"0";".";"7";"8";"4";"e";"-";"0";"3"]%char /\
  parse_decimal (print_value true true true [5;3;0;7;8;4]%nat (-1)) =
    Some ({| d_neg := true; d_mant := 530784; d_exp10 := -6 |}, []).
Proof. exact eng_value_example. Qed.

(* saver_fields_eq_loader_fields: for every port count and every format list the saver can print,
   a data line written by vnadata_save has exactly the number of fields _vnadata_load_npd expects
   (the code after fix D31). *)
Theorem saver_fields_eq_loader_fields : forall (fz0 : bool) (rows ports : nat) (l : list entry),
  forallb wf_entry l = true ->
  (existsb (fun e => is_matrix (e_par e)) l = true -> rows = ports) ->
  line_fields (saver_fields rows ports) fz0 ports l = line_fields (loader_fields ports) fz0 ports l.
Proof. exact saver_fields_eq_loader_fields_line. Qed.
Print Assumptions saver_fields_eq_loader_fields.

(* the loader before fix D31 (IL counted as one field per port) disagrees for 3 ports *)
Theorem saver_fields_eq_loader_fields_d31_refuted :
  exists ports e, wf_entry e = true /\ saver_fields ports ports e <> loader_fields_d31 ports e.
Proof. exact d31_refuted. Qed.
Print Assumptions saver_fields_eq_loader_fields_d31_refuted.

Example fields_instance :
  line_fields (saver_fields 3 3) false 3 [Build_entry PS IL; Build_entry PS RI] = 25%nat /\
  line_fields (loader_fields 3) false 3 [Build_entry PS IL; Build_entry PS RI] = 25%nat /\
  line_fields (loader_fields_d31 3) false 3 [Build_entry PS IL; Build_entry PS RI] = 22%nat.
Proof. exact fields_example. Qed.

(* cksave_iff_save: for every object that vnadata_init accepts, every file type and format list,
   vnadata_cksave accepts iff vnadata_save gets past its checks and conversions (the code after fix D32;
   allocation and I/O failures are outside the model). *)
Theorem cksave_iff_save : forall o : sobj, wf_obj o = true -> cksave o = save o.
Proof. exact cksave_iff_save_lemma. Qed.
Print Assumptions cksave_iff_save.

(* the checks before fix D32 accepted 3x3 S data with format Hri, which save then refused *)
Theorem cksave_iff_save_d32_refuted : exists o, wf_obj o = true /\ cksave_d32 o = true /\ save_d32 o = false.
Proof. exact cksave_d32_refuted. Qed.
Print Assumptions cksave_iff_save_d32_refuted.

Example cksave_instance :
  cksave (Build_sobj PZ 2 2 3 false true true TS1 false [Build_entry PUNDEF RI]) = true /\
  save (Build_sobj PZ 2 2 3 false true true TS1 false [Build_entry PUNDEF RI]) = true /\
  cksave d32_witness = false.
Proof. exact cksave_example. Qed.

(* ------------------------------------------------------------------------------------------------
   load_save_id on the models, Touchstone 2 (session 5).  Files/SaveEmit.v is the printing part of
   vnadata_save_common as coded (a token stream); TsParse.parse is the Touchstone loader model of C08.

   Number-text layer (trusted base, NOT proved here: Section hypotheses, exercised on every run by
   tie:print_value and tie:save_emit_model):
     ptext_word   strtod of the (upper-cased) text print_value wrote for x at precision p is rd p x
     atext_word   the same for the angle text ("%+*.*f" / "%+a")
     itext_int    strtol reads back what "%d" wrote, 0 <= n <= INT_MAX
     rd_sign      a value that is not <= 0 is not read back <= 0
     num_rt       rd p x = val x at VNADATA_MAX_PRECISION ("%a") or >= 17 digits
   The arithmetic before printing (cabs, carg, log10, vnadata_convert) is abstract: fields of [env].
   ------------------------------------------------------------------------------------------------ *)
Section SaveLoadTouchstone2.
  Import LV.Files.TsTok LV.Files.TsParse LV.Files.TsSpec LV.Files.SaveEmit LV.Files.SaveEmitProofs.
  Variable D : Type.
  Variable E : env D.
  Variable rd : Z -> D -> xnum.
  Variable rda : Z -> bool -> D -> xnum.
  Hypothesis ptext_word : forall p s x, parse_double (up (v_ptext E p s x)) = Some (rd p x).
  Hypothesis atext_word : forall ap z x, parse_double (up (v_atext E ap z x)) = Some (rda ap z x).
  Hypothesis itext_int : forall z, 0 <= z <= 2147483647 -> parse_int (v_itext E z) = Some z.
  Hypothesis rd_sign : forall p x, xle (v_val E x) xq0 = false -> xle (rd p x) xq0 = false.
  Hypothesis num_rt : forall p x, exact_prec p = true -> rd p x = v_val E x.

  (* load_save_id_touchstone2: for EVERY object with the invariants of a vnadata_t (mobj_wf: z0 vector and
     data sized by rows / ports, ports <= 46340, frequency count fits int), every file type decision / promote
     flag / format vector that vnadata_cksave accepts (cksave, SaveModel.v) and that ends as Touchstone 2
     (set directly, or a ".ts" name promoted because of > 4 ports or unequal z0) - ANY number of ports, ANY
     number of frequencies, S/Z/Y/H/G, RI / MA / DB, any precisions, with or without [Reference] - whose
     frequencies read back non-negative and ascending: the loader model accepts the token stream the saver
     model writes and returns [ts2_loaded]: version 2, the entry's type and format, the port count, every
     frequency, every reference impedance and every cell as the texts written for them read back (for MA / DB
     the pair (magnitude or dB, angle) of the abstract cabs / log10 / carg, as written). *)
  Theorem load_save_id_touchstone2 : forall o ft0 promote fmt,
    conv_keeps_length D E -> mobj_wf D o -> wf_obj (sobj_of E o ft0 promote fmt) = true ->
    cksave (sobj_of E o ft0 promote fmt) = true -> final_filetype (sobj_of E o ft0 promote fmt) = TS2 ->
    freqs_readable D rd o ->
    exists st e, resolved (sobj_of E o ft0 promote fmt) = [e] /\ save_emit E o ft0 promote fmt = STouchstone st /\
                 parse st = Ok (ts2_loaded D E rd rda o e).
  Proof. exact (ts2_load_save_lemma D E rd rda ptext_word atext_word itext_int rd_sign). Qed.

  (* load_save_id_touchstone2_exact: at maximum precision (or >= 17 digits) in rectangular form that object IS
     the saved one: same frequencies, the real parts of the reference impedances, every cell of the data in the
     entry's parameter form, exactly (values of binary64 numbers as exact rationals). *)
  Theorem load_save_id_touchstone2_exact : forall o e,
    exact_prec (m_fprec o) = true -> exact_prec (m_dprec o) = true -> e_form e = RI ->
    length (m_z0 o) = m_rows o -> (1 <= m_rows o)%nat ->
    ts2_loaded D E rd rda o e =
    mkobj true (ts_ptype (e_par e)) FRI (m_rows o) (map (v_val E) (m_freqs o))
          (map (fun z => v_val E (fst z)) (firstn (m_rows o) (m_z0 o)))
          (map (map (exact_cell D E)) (convert_obj E o (e_par e))).
  Proof. exact (ts2_loaded_exact D E rd rda num_rt). Qed.

  (* save_denotes_touchstone2: under the same premises the stream written is, up to the line breaks inside a record
     (newline tokens, which the version-2 grammar does not give meaning to), the stream TsSpec.v2_stream - C08's independent
     description of a version-2 file - of the abstract file [v2_of o e]: option line Hz / type / format / R z0[0], ports,
     [Two-Port Order] 12_21 iff two ports, frequency count, [Reference] iff the z0 differ, per frequency the frequency and
     the row-major cells in the entry's form; and that abstract file is well formed. *)
  Theorem save_denotes_touchstone2 : forall o ft0 promote fmt,
    conv_keeps_length D E -> mobj_wf D o -> wf_obj (sobj_of E o ft0 promote fmt) = true ->
    cksave (sobj_of E o ft0 promote fmt) = true -> final_filetype (sobj_of E o ft0 promote fmt) = TS2 ->
    freqs_readable D rd o ->
    exists st e, resolved (sobj_of E o ft0 promote fmt) = [e] /\ save_emit E o ft0 promote fmt = STouchstone st /\
                 LV.Files.SaveTsLemmas.strip st = LV.Files.SaveTsLemmas.strip (v2_stream (v2_of D E rd rda o e)) /\
                 v2_wf (v2_of D E rd rda o e).
  Proof. exact (ts2_save_denotes_lemma D E rd rda ptext_word atext_word itext_int rd_sign). Qed.

  (* load_save_id_touchstone1 (+ save_denotes): for EVERY object cksave accepts whose final file type is Touchstone 1
     (1..4 ports follow from the checks; any number of frequencies; S/Z/Y/H/G; RI/MA/DB; any precisions; z0 = 1 or
     not, i.e. printed from the object itself or from its normalised copy [print_obj]): the stream written IS
     TsSpec.v1_stream of the abstract version-1 file [v1_of] (2-port matrices column-major on one line, otherwise one
     row per line), that file is well formed, and the loader model returns [ts1_loaded]: version 1, type, format, ports,
     every frequency, R for every port, and per frequency the cells as written read back and un-normalised by R as the
     loader does (TsParse.unnormalise: identity for S). *)
  Theorem load_save_id_touchstone1 : forall o ft0 promote fmt,
    conv_keeps_length D E -> mobj_wf D o -> wf_obj (sobj_of E o ft0 promote fmt) = true ->
    cksave (sobj_of E o ft0 promote fmt) = true -> final_filetype (sobj_of E o ft0 promote fmt) = TS1 ->
    freqs_readable D rd o ->
    exists st e, resolved (sobj_of E o ft0 promote fmt) = [e] /\ save_emit E o ft0 promote fmt = STouchstone st /\
                 st = v1_stream (v1_of D E rd rda o (print_obj E TS1 o) e) /\ v1_wf (v1_of D E rd rda o (print_obj E TS1 o) e) /\
                 parse st = Ok (ts1_loaded D E rd rda o (print_obj E TS1 o) e).
  Proof. exact (ts1_load_save_lemma D E rd rda ptext_word atext_word rd_sign). Qed.

  (* load_save_id_touchstone1_exact_S: S parameters (no un-normalisation) at maximum precision in RI form: the loaded
     object has exactly the saved frequencies and cells (whatever z0 is: the S values are written unchanged) and R = re z0[0]
     for every port.  Z/Y/H/G: the cells are those of the normalised conversion multiplied / divided by R as read
     (ts1_loaded); that this equals the saved matrix is the conversion algebra of vnaconv (C04), not proved here. *)
  Theorem load_save_id_touchstone1_exact_S : forall o e,
    exact_prec (m_fprec (print_obj E TS1 o)) = true -> exact_prec (m_dprec (print_obj E TS1 o)) = true ->
    m_type o = NpdScan.PS -> e_par e = NpdScan.PS -> e_form e = RI ->
    ts1_loaded D E rd rda o (print_obj E TS1 o) e =
    mkobj false LV.Files.TsParse.PS FRI (m_ports o) (map (v_val E) (m_freqs o)) (repeat (v_val E (ts1_z0t D E o)) (m_ports o))
          (map (map (exact_cell D E)) (m_data o)).
  Proof. exact (ts1_loaded_exact_S D E rd rda num_rt). Qed.
End SaveLoadTouchstone2.
Print Assumptions load_save_id_touchstone2.
Print Assumptions load_save_id_touchstone2_exact.
Print Assumptions save_denotes_touchstone2.
Print Assumptions load_save_id_touchstone1.
Print Assumptions load_save_id_touchstone1_exact_S.

(* ------------------------------------------------------------------------------------------------
   load_save_id on the models, NPD: NpdLoad.v (the NPD loader model of C08/C09) run over the lines SaveEmit writes.
   Number-text layer (Section hypotheses): ptext_field / atext_field (strtod of the written field is rd / rda),
   ptext_cstr (no NUL byte in a printed number), ptext_nohash (it does not begin with '#'), itext_field (%d / strtol).
   ------------------------------------------------------------------------------------------------ *)
Section SaveLoadNpd.
  Import LV.Files.TsTok LV.Files.NpdLoad LV.Files.SaveEmit LV.Files.SaveNpdProofs.
  Variable D : Type.
  Variable E : env D.
  Variable rd : Z -> D -> xnum.
  Variable rda : Z -> bool -> D -> xnum.
  Hypothesis ptext_field : forall p s x, field_double (v_ptext E p s x) = Some (rd p x).
  Hypothesis atext_field : forall ap z x, field_double (v_atext E ap z x) = Some (rda ap z x).
  Hypothesis ptext_cstr : forall p s x, cstr (v_ptext E p s x) = v_ptext E p s x.
  Hypothesis ptext_nohash : forall p s x, hd 0%N (v_ptext E p s x) <> 35%N.
  Hypothesis itext_field : forall z : Z, (0 <= z <= 2147483647)%Z -> field_int (v_itext E z) = Some z.

  (* load_save_id_npd: for EVERY object (npd_wf: >= 1 port, <= 46340, precisions 0..1000, z0 vector sized unless
     per-frequency; at least one frequency) and EVERY non-empty format list l of resolved pair-form entries (matrix RI / MA /
     DB, Zin RI / MA / PRC / PRL / SRC / SRL - all RI-form lists included; entry_good: two-port types only on two ports, square
     data for matrix entries, the entry's matrix sized: what cksave and the vnadata_t invariants give), z0 vector or
     per-frequency z0 vectors, any number of ports / frequencies / entries, the line's field count fitting int:
     the loader model accepts the lines the saver model writes (header lines #:version .. #:dprecision, then one line per
     frequency) and returns [npd_loaded o e] where e is the entry the loader's own selection (sel = the choice made by
     account) picks at field offset pbase + sum of the fields of the entries before it: type and form of e, rows / columns,
     every frequency, the z0 vector (or every per-frequency vector), both precisions, and per frequency every cell of e's
     matrix as the two written texts read back (entry_vals).  NOT covered: lists holding IL / RL / VSWR columns. *)
  Theorem load_save_id_npd : forall o l, npd_wf D o -> l <> [] -> Forall (entry_good D E o) l -> fz0_sized D o -> m_freqs o <> [] ->
    (pbase D o + sum_fields (Z.of_nat (m_ports o)) l <= 2147483647)%Z ->
    exists l1 e l2, l = l1 ++ e :: l2 /\
      fst (sel (Z.of_nat (m_ports o)) l (pbase D o) None 0%nat) = Some (e, (pbase D o + sum_fields (Z.of_nat (m_ports o)) l1)%Z) /\
      nfinish (fold_left nstep (npd_header E o l ++ map_i (npd_line E o l) 0%nat (m_freqs o)) (NHeader nh0)) = NOk (npd_loaded D E rd rda o e).
  Proof. exact (npd_load_save_lemma D E rd rda ptext_field atext_field ptext_cstr ptext_nohash itext_field). Qed.

  (* at maximum precision in rectangular form every loaded cell is the saved value *)
  Theorem load_save_id_npd_exact_cell : forall (val : D -> xnum) o e fq v, (forall x, rd (m_dprec o) x = val x) -> e_form e = RI ->
    entry_vals D E rd rda o e fq v = (val (fst v), val (snd v)).
  Proof. exact (entry_vals_exact D E rd rda). Qed.
End SaveLoadNpd.
Print Assumptions load_save_id_npd.
Print Assumptions load_save_id_npd_exact_cell.

(* load_save_id_touchstone1_lines_partial: for 1..4 ports and RI / MA / DB the tokens the saver writes for one
   frequency of a Touchstone 1 file (frequency, cells in the 2-port column-major order or row by row, one row per
   line) are exactly the data lines TsSpec.v1_record_lines prescribes for the record (frequency, cell numbers), i.e.
   the lines C08's v1_load theorem reads.  PARTIAL: the header run, v1_wf and the un-normalisation identity are
   missing, so no load theorem for Touchstone 1 yet (model + tie:save_emit_model + tie:roundtrip only). *)
Theorem load_save_id_touchstone1_lines_partial :
  forall (D : Type) (E : SaveEmit.env D) (rd : Z -> D -> TsTok.xnum) (rda : Z -> bool -> D -> TsTok.xnum) o n e data i fq,
  (1 <= n <= 4)%nat -> ri_ma_db (e_form e) = true ->
  SaveEmit.ts_record E true o n n e data i fq =
  TsSpec.v1_record_lines n (SaveEmitProofs.rec_of D E rd rda o n n (e_form e) (Nat.eqb n 2) data i fq).
Proof. exact SaveEmitProofs.ts1_record_lines_lemma. Qed.
Print Assumptions load_save_id_touchstone1_lines_partial.

(* the premises are met: a 3-port S object with unequal z0, ".ts" name, Touchstone 1 set -> promoted *)
Example load_save_id_premises_instance :
  SaveEmitProofs.conv_keeps_length Z SaveEmitExamples.E0 /\ SaveEmitProofs.mobj_wf Z SaveEmitExamples.o3 /\
  wf_obj (SaveEmit.sobj_of SaveEmitExamples.E0 SaveEmitExamples.o3 TS1 true [Build_entry PUNDEF RI]) = true /\
  cksave (SaveEmit.sobj_of SaveEmitExamples.E0 SaveEmitExamples.o3 TS1 true [Build_entry PUNDEF RI]) = true /\
  SaveEmit.final_filetype (SaveEmit.sobj_of SaveEmitExamples.E0 SaveEmitExamples.o3 TS1 true [Build_entry PUNDEF RI]) = TS2 /\
  SaveEmitProofs.freqs_readable Z (fun _ x => SaveEmitExamples.xz x) SaveEmitExamples.o3 /\
  SaveEmitProofs.exact_prec (SaveEmit.m_fprec SaveEmitExamples.o3) = true /\ SaveEmitProofs.exact_prec (SaveEmit.m_dprec SaveEmitExamples.o3) = true.
Proof. exact SaveEmitExamples.premises_instance. Qed.
