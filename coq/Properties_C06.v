(* C06 - network data survive save and load in Touchstone 1, Touchstone 2 and NPD.
   Theorems only; models in Files/NumFmtModel.v, Files/NpdScan.v, Files/SaveModel.v. *)
Require Import List ZArith Ascii Bool.
Import ListNotations.
Require Import LV.Files.NumFmtModel LV.Files.NumFmtProofs LV.Files.NpdScan LV.Files.NpdScanProofs
               LV.Files.SaveModel LV.Files.SaveProofs.
Open Scope Z_scope.

(* eng_value: for every sign, digit string (precision p = its length >= 1), exponent, plus and pad flag,
   the text print_value writes parses by the loaders' decimal grammar to exactly
   (-1)^neg * digits * 10^(ex - p + 1); only blank padding follows the number. *)
Theorem eng_value : forall (plus pad neg : bool) (ds : list nat) (ex : Z),
  ds <> [] -> lt10 ds -> -990 <= ex <= 990 ->
  exists rest,
    parse_decimal (print_value plus pad neg ds ex) =
      Some ({| d_neg := neg; d_mant := digits_value ds; d_exp10 := ex - Z.of_nat (length ds) + 1 |}, rest)
    /\ all_blank rest = true.
Proof. exact eng_value_lemma. Qed.
Print Assumptions eng_value.

(* buffers_fit: buf1 (the %.*e text) and buf2 (the engineering text) with their NUL fit in
   char buf[MAX(precision, 1) + 8] for every precision >= 1 and every double exponent. *)
Theorem buffers_fit : forall (plus pad neg : bool) (ds : list nat) (ex : Z),
  ds <> [] -> -990 <= ex <= 990 ->
  (length (print_core plus pad neg ds ex) + 1 <= buffer_size (length ds))%nat /\
  (sprintf_e_length neg (length ds) ex + 1 <= buffer_size (length ds))%nat.
Proof. exact buffers_fit_lemma. Qed.
Print Assumptions buffers_fit.

(* the printed exponent is a multiple of three for precision >= 3 (engineering notation) *)
Theorem engineering_exponent_multiple_of_3 : forall (p : nat) (ex : Z),
  (3 <= p)%nat -> (ex - (before p ex - 1)) mod 3 = 0.
Proof. exact engineering_exponent. Qed.
Print Assumptions engineering_exponent_multiple_of_3.

Example eng_value_instance :
  print_value true true true [5;3;0;7;8;4]%nat (-1) =
    ["-";"5";"3";"0";".";"7";"8";"4";"e";"-";"0";"3"]%char /\
  parse_decimal (print_value true true true [5;3;0;7;8;4]%nat (-1)) =
    Some ({| d_neg := true; d_mant := 530784; d_exp10 := -6 |}, []).
Proof. exact eng_value_example. Qed.

(* saver_fields_eq_loader_fields: for every port count and every format list the saver can print,
   a data line written by vnadata_save has exactly the number of fields _vnadata_load_npd expects
   (the code after fix D31). *)
Theorem saver_fields_eq_loader_fields : forall (fz0 : bool) (rows ports : nat) (l : list entry),
  forallb wf_entry l = true ->
  (existsb (fun e => is_matrix (e_par e)) l = true -> rows = ports) ->
  line_fields (saver_fields rows ports) fz0 ports l = line_fields (loader_fields ports) fz0 ports l.
Proof. exact saver_fields_eq_loader_fields_line. Qed.
Print Assumptions saver_fields_eq_loader_fields.

(* the loader before fix D31 (IL counted as one field per port) disagrees for 3 ports *)
Theorem saver_fields_eq_loader_fields_d31_refuted :
  exists ports e, wf_entry e = true /\ saver_fields ports ports e <> loader_fields_d31 ports e.
Proof. exact d31_refuted. Qed.
Print Assumptions saver_fields_eq_loader_fields_d31_refuted.

Example fields_instance :
  line_fields (saver_fields 3 3) false 3 [Build_entry PS IL; Build_entry PS RI] = 25%nat /\
  line_fields (loader_fields 3) false 3 [Build_entry PS IL; Build_entry PS RI] = 25%nat /\
  line_fields (loader_fields_d31 3) false 3 [Build_entry PS IL; Build_entry PS RI] = 22%nat.
Proof. exact fields_example. Qed.

(* cksave_iff_save: for every object that vnadata_init accepts, every file type and format list,
   vnadata_cksave accepts iff vnadata_save gets past its checks and conversions (the code after fix D32;
   allocation and I/O failures are outside the model). *)
Theorem cksave_iff_save : forall o : sobj, wf_obj o = true -> cksave o = save o.
Proof. exact cksave_iff_save_lemma. Qed.
Print Assumptions cksave_iff_save.

(* the checks before fix D32 accepted 3x3 S data with format Hri, which save then refused *)
Theorem cksave_iff_save_d32_refuted : exists o, wf_obj o = true /\ cksave_d32 o = true /\ save_d32 o = false.
Proof. exact cksave_d32_refuted. Qed.
Print Assumptions cksave_iff_save_d32_refuted.

Example cksave_instance :
  cksave (Build_sobj PZ 2 2 3 false true true TS1 false [Build_entry PUNDEF RI]) = true /\
  save (Build_sobj PZ 2 2 3 false true true TS1 false [Build_entry PUNDEF RI]) = true /\
  cksave d32_witness = false.
Proof. exact cksave_example. Qed.
