(* C06 - network data survive save and load in Touchstone 1, Touchstone 2 and NPD.
   Theorems only; models in Files/NumFmtModel.v, Files/NpdScan.v, Files/SaveModel.v. *)
Require Import List ZArith Ascii Bool.
Import ListNotations.
Require Import LV.Files.NumFmtModel LV.Files.NumFmtProofs LV.Files.NpdScan LV.Files.NpdScanProofs
               LV.Files.SaveModel LV.Files.SaveProofs.
Require LV.Files.TsTok LV.Files.TsParse LV.Files.TsSpec LV.Files.SaveEmit LV.Files.SaveEmitProofs LV.Files.SaveEmitExamples.
Require LV.Files.SaveTsLemmas LV.Files.NpdLoad LV.Files.SaveNpdProofs LV.Files.SaveAllProofs LV.Files.SaveNormIdentity.
Require LV.Files.SaveState LV.Files.SaveStateProofs LV.Files.SaveBoundary.
Require LV.Base.CField LV.Conv.ConvRel LV.Gen.Conv2_s LV.Gen.Conv2_z.
Open Scope Z_scope.

(* eng_value: for every sign, digit string (precision p = its length >= 1), exponent, plus and pad flag,
   the text print_value writes parses by the loaders' decimal grammar to exactly
   (-1)^neg * digits * 10^(ex - p + 1); only blank padding follows the number. *)
Theorem eng_value : forall (plus pad neg : bool) (ds : list nat) (ex : Z),
  ds <> [] -> lt10 ds -> -990 <= ex <= 990 ->
  exists rest,
    parse_decimal (print_value plus pad neg ds ex) =
      Some ({| d_neg := neg; d_mant := digits_value ds; d_exp10 := ex - Z.of_nat (length ds) + 1 |}, rest)
    /\ all_blank rest = true.
Proof. exact eng_value_lemma. Qed.
Print Assumptions eng_value.

(* buffers_fit: buf1 (the %.*e text) and buf2 (the engineering text) with their NUL fit in
   char buf[MAX(precision, 1) + 8] for every precision >= 1 and every double exponent. *)
Theorem buffers_fit : forall (plus pad neg : bool) (ds : list nat) (ex : Z),
  ds <> [] -> -990 <= ex <= 990 ->
  (length (print_core plus pad neg ds ex) + 1 <= buffer_size (length ds))%nat /\
  (sprintf_e_length neg (length ds) ex + 1 <= buffer_size (length ds))%nat.
Proof. exact buffers_fit_lemma. Qed.
Print Assumptions buffers_fit.

(* the printed exponent is a multiple of three for precision >= 3 (engineering notation) *)
Theorem engineering_exponent_multiple_of_3 : forall (p : nat) (ex : Z),
  (3 <= p)%nat -> (ex - (before p ex - 1)) mod 3 = 0.
Proof. exact engineering_exponent. Qed.
Print Assumptions engineering_exponent_multiple_of_3.

Example eng_value_instance :
  print_value true true true [5;3;0;7;8;4]%nat (-1) =
    ["-";"5";"3";"0";".";"7";"8";"4";"e";"-";"0";"3"]%char /\
  parse_decimal (print_value true true true [5;3;0;7;8;4]%nat (-1)) =
    Some ({| d_neg := true; d_mant := 530784; d_exp10 := -6 |}, []).
Proof. exact eng_value_example. Qed.

(* saver_fields_eq_loader_fields: for every port count and every format list the saver can print,
   a data line written by vnadata_save has exactly the number of fields _vnadata_load_npd expects
   (the code after fix D31). *)
Theorem saver_fields_eq_loader_fields : forall (fz0 : bool) (rows ports : nat) (l : list entry),
  forallb wf_entry l = true ->
  (existsb (fun e => is_matrix (e_par e)) l = true -> rows = ports) ->
  line_fields (saver_fields rows ports) fz0 ports l = line_fields (loader_fields ports) fz0 ports l.
Proof. exact saver_fields_eq_loader_fields_line. Qed.
Print Assumptions saver_fields_eq_loader_fields.

(* the loader before fix D31 (IL counted as one field per port) disagrees for 3 ports *)
Theorem saver_fields_eq_loader_fields_d31_refuted :
  exists ports e, wf_entry e = true /\ saver_fields ports ports e <> loader_fields_d31 ports e.
Proof. exact d31_refuted. Qed.
Print Assumptions saver_fields_eq_loader_fields_d31_refuted.

Example fields_instance :
  line_fields (saver_fields 3 3) false 3 [Build_entry PS IL; Build_entry PS RI] = 25%nat /\
  line_fields (loader_fields 3) false 3 [Build_entry PS IL; Build_entry PS RI] = 25%nat /\
  line_fields (loader_fields_d31 3) false 3 [Build_entry PS IL; Build_entry PS RI] = 22%nat.
Proof. exact fields_example. Qed.

(* cksave_accepts_then_save_converts (was named cksave_iff_save): on the acceptance model, for every object that vnadata_init
   accepts, every file type, promote flag, format list and either outcome of the test z0[0] == 1.0: when the checks of
   vnadata_cksave pass, every conversion vnadata_save performs afterwards (the Touchstone 1 normalisation copy - made only when
   the file stays Touchstone 1 and z0[0] != 1 - and one vnadata_convert per entry) is one the conversion table and the
   dimension rule allow; written as the equation cksave o = save z0_one o, whose other direction (save refuses what cksave
   refuses) holds by definition of the model: save runs the same checks first.  Allocation and I/O failures are outside. *)
Theorem cksave_accepts_then_save_converts : forall (z0_one : bool) (o : sobj), wf_obj o = true -> cksave o = save z0_one o.
Proof. exact cksave_iff_save_lemma. Qed.
Print Assumptions cksave_accepts_then_save_converts.

(* the checks before fix D32 accepted 3x3 S data with format Hri, which save then refused *)
Theorem cksave_accepts_then_save_converts_d32_refuted :
  exists o, wf_obj o = true /\ cksave_d32 o = true /\ forall z0_one, save_d32 z0_one o = false.
Proof. exact cksave_d32_refuted. Qed.
Print Assumptions cksave_accepts_then_save_converts_d32_refuted.

Example cksave_instance :
  cksave (Build_sobj PZ 2 2 3 false true true TS1 false [Build_entry PUNDEF RI]) = true /\
  save false (Build_sobj PZ 2 2 3 false true true TS1 false [Build_entry PUNDEF RI]) = true /\
  cksave d32_witness = false.
Proof. exact cksave_example. Qed.

(* ------------------------------------------------------------------------------------------------
   load_save_id on the models, Touchstone 2 (session 5).  Files/SaveEmit.v is the printing part of
   vnadata_save_common as coded (a token stream); TsParse.parse is the Touchstone loader model of C08.

   Number-text layer (trusted base, NOT proved here: Section hypotheses, exercised on every run by
   tie:print_value and tie:save_emit_model):
     ptext_word   strtod of the (upper-cased) text print_value wrote for x at precision p is rd p x
     atext_word   the same for the angle text ("%+*.*f" / "%+a")
     itext_int    strtol reads back what "%d" wrote, 0 <= n <= INT_MAX
     rd_sign      a value that is not <= 0 is not read back <= 0
     num_rt       rd p x = val x at VNADATA_MAX_PRECISION ("%a") or >= 17 digits
   The arithmetic before printing (cabs, carg, log10, vnadata_convert) is abstract: fields of [env].
   ------------------------------------------------------------------------------------------------ *)
Section SaveLoadTouchstone2.
  Import LV.Files.TsTok LV.Files.TsParse LV.Files.TsSpec LV.Files.SaveEmit LV.Files.SaveEmitProofs.
  Variable D : Type.
  Variable E : env D.
  Variable rd : Z -> D -> xnum.
  Variable rda : Z -> bool -> D -> xnum.
  Hypothesis ptext_word : forall p s x, parse_double (up (v_ptext E p s x)) = Some (rd p x).
  Hypothesis atext_word : forall ap z x, parse_double (up (v_atext E ap z x)) = Some (rda ap z x).
  Hypothesis itext_int : forall z, 0 <= z <= 2147483647 -> parse_int (v_itext E z) = Some z.
  Hypothesis rd_sign : forall p x, xlt xq0 (v_val E x) = true -> xlt xq0 (rd p x) = true.
  Hypothesis num_rt : forall p x, exact_prec p = true -> rd p x = v_val E x.

  (* touchstone2_loads_as_written: for EVERY object with the invariants of a vnadata_t (mobj_wf: z0 vector and
     data sized by rows / ports, ports <= 46340, frequency count fits int), every file type decision / promote
     flag / format vector that vnadata_cksave accepts (cksave, SaveModel.v) and that ends as Touchstone 2
     (set directly, or a ".ts" name promoted because of > 4 ports or unequal z0) - ANY number of ports, ANY
     number of frequencies, S/Z/Y/H/G, RI / MA / DB, any precisions, with or without [Reference] - whose
     frequencies read back non-negative and ascending: the loader model accepts the token stream the saver
     model writes and returns [ts2_loaded]: version 2, the entry's type and format, the port count, every
     frequency, every reference impedance and every cell as the texts written for them read back (for MA / DB
     the pair (magnitude or dB, angle) of the abstract cabs / log10 / carg, as written). *)
  Theorem touchstone2_loads_as_written : forall o ft0 promote fmt,
    conv_keeps_length D E -> mobj_wf D o -> wf_obj (sobj_of E o ft0 promote fmt) = true ->
    cksave (sobj_of E o ft0 promote fmt) = true -> final_filetype (sobj_of E o ft0 promote fmt) = TS2 ->
    freqs_readable D rd o ->
    exists st e, resolved (sobj_of E o ft0 promote fmt) = [e] /\ save_emit E o ft0 promote fmt = STouchstone st /\
                 parse st = Ok (ts2_loaded D E rd rda o e).
  Proof. exact (ts2_load_save_lemma D E rd rda ptext_word atext_word itext_int rd_sign). Qed.

  (* load_save_id_touchstone2_exact: at maximum precision (or >= 17 digits) in rectangular form that object IS
     the saved one: same frequencies, the real parts of the reference impedances, every cell of the data in the
     entry's parameter form, exactly (values of binary64 numbers as exact rationals). *)
  Theorem load_save_id_touchstone2_exact : forall o e,
    exact_prec (m_fprec o) = true -> exact_prec (m_dprec o) = true -> e_form e = RI ->
    length (m_z0 o) = m_rows o -> (1 <= m_rows o)%nat ->
    ts2_loaded D E rd rda o e =
    mkobj true (ts_ptype (e_par e)) FRI (m_rows o) (map (v_val E) (m_freqs o))
          (map (fun z => v_val E (fst z)) (firstn (m_rows o) (m_z0 o)))
          (map (map (exact_cell D E)) (convert_obj E o (e_par e))).
  Proof. exact (ts2_loaded_exact D E rd rda num_rt). Qed.

  (* save_denotes_touchstone2: under the same premises the stream written is, up to the line breaks inside a record
     (newline tokens, which the version-2 grammar does not give meaning to), the stream TsSpec.v2_stream - C08's independent
     description of a version-2 file - of the abstract file [v2_of o e]: option line Hz / type / format / R z0[0], ports,
     [Two-Port Order] 12_21 iff two ports, frequency count, [Reference] iff the z0 differ, per frequency the frequency and
     the row-major cells in the entry's form; and that abstract file is well formed. *)
  Theorem save_denotes_touchstone2 : forall o ft0 promote fmt,
    conv_keeps_length D E -> mobj_wf D o -> wf_obj (sobj_of E o ft0 promote fmt) = true ->
    cksave (sobj_of E o ft0 promote fmt) = true -> final_filetype (sobj_of E o ft0 promote fmt) = TS2 ->
    freqs_readable D rd o ->
    exists st e, resolved (sobj_of E o ft0 promote fmt) = [e] /\ save_emit E o ft0 promote fmt = STouchstone st /\
                 LV.Files.SaveTsLemmas.strip st = LV.Files.SaveTsLemmas.strip (v2_stream (v2_of D E rd rda o e)) /\
                 v2_wf (v2_of D E rd rda o e).
  Proof. exact (ts2_save_denotes_lemma D E rd rda ptext_word atext_word itext_int rd_sign). Qed.

  (* touchstone1_loads_as_written_partial (+ save_denotes): for EVERY object cksave accepts whose final file type is Touchstone 1
     (1..4 ports follow from the checks; any number of frequencies; S/Z/Y/H/G; RI/MA/DB; any precisions; z0 = 1 or
     not, i.e. printed from the object itself or from its normalised copy [print_obj]): the stream written IS
     TsSpec.v1_stream of the abstract version-1 file [v1_of] (2-port matrices column-major on one line, otherwise one
     row per line), that file is well formed, and the loader model returns [ts1_loaded]: version 1, type, format, ports,
     every frequency, R for every port, and per frequency the cells as written read back and un-normalised by R as the
     loader does (TsParse.unnormalise: identity for S). *)
  Theorem touchstone1_loads_as_written_partial : forall o ft0 promote fmt,
    conv_keeps_length D E -> mobj_wf D o -> wf_obj (sobj_of E o ft0 promote fmt) = true ->
    cksave (sobj_of E o ft0 promote fmt) = true -> final_filetype (sobj_of E o ft0 promote fmt) = TS1 ->
    freqs_readable D rd o ->
    exists st e, resolved (sobj_of E o ft0 promote fmt) = [e] /\ save_emit E o ft0 promote fmt = STouchstone st /\
                 st = v1_stream (v1_of D E rd rda o (print_obj E TS1 o) e) /\ v1_wf (v1_of D E rd rda o (print_obj E TS1 o) e) /\
                 parse st = Ok (ts1_loaded D E rd rda o (print_obj E TS1 o) e).
  Proof. exact (ts1_load_save_lemma D E rd rda ptext_word atext_word rd_sign). Qed.

  (* load_save_id_touchstone1_exact_S: S parameters (no un-normalisation) at maximum precision in RI form: the loaded
     object has exactly the saved frequencies and cells (whatever z0 is: the S values are written unchanged) and R = re z0[0]
     for every port.  Z/Y/H/G: the cells are those of the normalised conversion multiplied / divided by R as read
     (ts1_loaded); that this equals the saved matrix is the conversion algebra of vnaconv (C04), not proved here. *)
  Theorem load_save_id_touchstone1_exact_S : forall o e,
    exact_prec (m_fprec (print_obj E TS1 o)) = true -> exact_prec (m_dprec (print_obj E TS1 o)) = true ->
    m_type o = NpdScan.PS -> e_par e = NpdScan.PS -> e_form e = RI ->
    ts1_loaded D E rd rda o (print_obj E TS1 o) e =
    mkobj false LV.Files.TsParse.PS FRI (m_ports o) (map (v_val E) (m_freqs o)) (repeat (v_val E (ts1_z0t D E o)) (m_ports o))
          (map (map (exact_cell D E)) (m_data o)).
  Proof. exact (ts1_loaded_exact_S D E rd rda num_rt). Qed.
End SaveLoadTouchstone2.
Print Assumptions touchstone2_loads_as_written.
Print Assumptions load_save_id_touchstone2_exact.
Print Assumptions save_denotes_touchstone2.
Print Assumptions touchstone1_loads_as_written_partial.
Print Assumptions load_save_id_touchstone1_exact_S.

(* ------------------------------------------------------------------------------------------------
   load_save_id on the models, NPD: NpdLoad.v (the NPD loader model of C08/C09) run over the lines SaveEmit writes.
   Number-text layer (Section hypotheses): ptext_field / atext_field (strtod of the written field is rd / rda),
   ptext_cstr (no NUL byte in a printed number), ptext_nohash (it does not begin with '#'), itext_field (%d / strtol).
   ------------------------------------------------------------------------------------------------ *)
Section SaveLoadNpd.
  Import LV.Files.TsTok LV.Files.NpdLoad LV.Files.SaveEmit LV.Files.SaveNpdProofs.
  Variable D : Type.
  Variable E : env D.
  Variable rd : Z -> D -> xnum.
  Variable rda : Z -> bool -> D -> xnum.
  Hypothesis ptext_field : forall p s x, field_double (v_ptext E p s x) = Some (rd p x).
  Hypothesis atext_field : forall ap z x, field_double (v_atext E ap z x) = Some (rda ap z x).
  Hypothesis ptext_cstr : forall p s x, cstr (v_ptext E p s x) = v_ptext E p s x.
  Hypothesis ptext_nohash : forall p s x, hd 0%N (v_ptext E p s x) <> 35%N.
  Hypothesis itext_field : forall z : Z, (0 <= z <= 2147483647)%Z -> field_int (v_itext E z) = Some z.

  (* npd_loads_as_written: for EVERY object (npd_wf) and EVERY format list l of resolved entries parse_format can produce
     (entry_good: wf_entry, two-port types only on two ports, square data for matrix entries, the entry's matrix sized) that
     holds at least one loadable (pair-form) entry - matrix RI / MA / DB, Zin RI / MA / PRC / PRL / SRC / SRL - next to any
     number of IL / RL / VSWR columns, z0 vector or per-frequency z0 vectors, any number of ports / frequencies / entries, the
     line's field count fitting int: the loader model accepts the lines the saver model writes and returns [npd_loaded o e]
     where e is the entry the loader's own selection (sel = the choice made by account) picks, at field offset pbase + the
     fields of ALL entries before it (the IL / RL / VSWR columns are skipped by their counts: efields_len, il_length). *)
  Theorem npd_loads_as_written : forall o l, npd_wf D o -> Exists (fun e => pairform e = true) l -> Forall (entry_good D E o) l ->
    fz0_sized D o -> m_freqs o <> [] ->
    (pbase D o + sum_fields (Z.of_nat (m_ports o)) l <= 2147483647)%Z ->
    exists l1 e l2, l = l1 ++ e :: l2 /\
      fst (sel (Z.of_nat (m_ports o)) l (pbase D o) None 0%nat) = Some (e, (pbase D o + sum_fields (Z.of_nat (m_ports o)) l1)%Z) /\
      nfinish (fold_left nstep (npd_header E o l ++ map_i (npd_line E o l) 0%nat (m_freqs o)) (NHeader nh0)) = NOk (npd_loaded D E rd rda o e).
  Proof. exact (npd_load_save_lemma D E rd rda ptext_field atext_field ptext_cstr ptext_nohash itext_field). Qed.

  (* load_save_id_npd_scalar_only_refuted: the boundary of the theorem above (known finding DF3).  For EVERY object and
     every non-empty list holding ONLY IL / RL / VSWR columns (quality 0: nothing the loader can load) the saver writes the
     file and the loader rejects it (EBADMSG, "file contains no parameter we can load"): the clause "every format
     combination the saver accepts is one the loader accepts" of C06 is false there. *)
  Theorem load_save_id_npd_scalar_only_refuted : forall o l, npd_wf D o -> l <> [] -> Forall (entry_good D E o) l ->
    Forall (fun e => quality e = 0%nat) l -> m_freqs o <> [] ->
    (pbase D o + sum_fields (Z.of_nat (m_ports o)) l <= 2147483647)%Z ->
    nfinish (fold_left nstep (npd_header E o l ++ map_i (npd_line E o l) 0%nat (m_freqs o)) (NHeader nh0)) = NError NEBADMSG.
  Proof. exact (npd_scalar_only_rejected_lemma D E rd ptext_field ptext_cstr ptext_nohash itext_field). Qed.

  (* npd_premises_from_cksave: the premises of npd_loads_as_written follow from the acceptance checks (cksave), vnadata_init's
     shape rule (wf_obj), the invariants of a vnadata_t (mobj_inv: sizes of the z0 / data vectors, ports <= 46340,
     precisions 0..1000), the shape of vnadata_convert's result (conv_shape) and the format vector being parse_format's
     output (wf_entry). *)
  Theorem npd_premises_from_cksave : forall o ft0 promote fmt,
    mobj_inv D o -> conv_shape D E -> LV.Files.SaveModel.wf_obj (sobj_of E o ft0 promote fmt) = true ->
    LV.Files.SaveModel.cksave (sobj_of E o ft0 promote fmt) = true ->
    final_filetype (sobj_of E o ft0 promote fmt) = LV.Files.SaveModel.NPD ->
    Forall (fun e => wf_entry e = true) (resolved (sobj_of E o ft0 promote fmt)) ->
    npd_wf D o /\ Forall (entry_good D E o) (resolved (sobj_of E o ft0 promote fmt)) /\ fz0_sized D o /\ m_freqs o <> [] /\
    resolved (sobj_of E o ft0 promote fmt) <> [].
  Proof. exact (npd_premises_lemma D E). Qed.

  (* at maximum precision in rectangular form every loaded cell is the saved value *)
  Theorem load_save_id_npd_exact_cell : forall (val : D -> xnum) o e fq v, (forall x, rd (m_dprec o) x = val x) -> e_form e = RI ->
    entry_vals D E rd rda o e fq v = (val (fst v), val (snd v)).
  Proof. exact (entry_vals_exact D E rd rda). Qed.
End SaveLoadNpd.
Print Assumptions npd_loads_as_written.
Print Assumptions load_save_id_npd_scalar_only_refuted.
Print Assumptions npd_premises_from_cksave.
Print Assumptions load_save_id_npd_exact_cell.

(* ------------------------------------------------------------------------------------------------
   c06_loads_as_written: the headline.  For EVERY object vnadata_cksave accepts and EVERY file type: what the loader model of
   the final file type (TsParse.parse for Touchstone 1 / 2, NpdLoad's nstep / nfinish for NPD) returns for the file the
   saver model writes is the loaded-object record of that file type (ts1_loaded / ts2_loaded / npd_loaded).
   Premises, all explicit:
     mobj_wf, mobj_inv          invariants of a vnadata_t (sizes of z0 / data, ports <= 46340, counts fit int, precisions 0..1000)
     conv_keeps_length, conv_shape   vnadata_convert returns a matrix of the same size / one Zin per port
     Forall wf_entry (resolved) the format vector is parse_format's output
     wf_obj, cksave             vnadata_init's shape rule; the acceptance checks of vnadata_save_common
     Touchstone: freqs_readable (frequencies read back non-negative and ascending: the loader insists on it)
     NPD: the field count of a line fits int; one entry is loadable (else load_save_id_npd_scalar_only_refuted: DF3)
   and the number-text layer (Section hypotheses: printf / strtod / strtol).
   ------------------------------------------------------------------------------------------------ *)
Section Headline.
  Import LV.Files.TsTok LV.Files.TsParse LV.Files.NpdLoad LV.Files.SaveEmit LV.Files.SaveEmitProofs LV.Files.SaveNpdProofs LV.Files.SaveAllProofs.
  Variable D : Type.
  Variable E : env D.
  Variable rd : Z -> D -> xnum.
  Variable rda : Z -> bool -> D -> xnum.
  Hypothesis ptext_word : forall p s x, parse_double (up (v_ptext E p s x)) = Some (rd p x).
  Hypothesis atext_word : forall ap z x, parse_double (up (v_atext E ap z x)) = Some (rda ap z x).
  Hypothesis itext_int : forall z : Z, (0 <= z <= 2147483647)%Z -> parse_int (v_itext E z) = Some z.
  Hypothesis rd_sign : forall p x, xlt xq0 (v_val E x) = true -> xlt xq0 (rd p x) = true.
  Hypothesis ptext_field : forall p s x, field_double (v_ptext E p s x) = Some (rd p x).
  Hypothesis atext_field : forall ap z x, field_double (v_atext E ap z x) = Some (rda ap z x).
  Hypothesis ptext_cstr : forall p s x, cstr (v_ptext E p s x) = v_ptext E p s x.
  Hypothesis ptext_nohash : forall p s x, hd 0%N (v_ptext E p s x) <> 35%N.
  Hypothesis itext_field : forall z : Z, (0 <= z <= 2147483647)%Z -> field_int (v_itext E z) = Some z.

  Theorem c06_loads_as_written : forall o ft0 promote fmt,
    let s := sobj_of E o ft0 promote fmt in
    mobj_wf D o -> mobj_inv D o -> conv_keeps_length D E -> conv_shape D E ->
    Forall (fun e => wf_entry e = true) (resolved s) ->
    LV.Files.SaveModel.wf_obj s = true -> LV.Files.SaveModel.cksave s = true ->
    (final_filetype s <> LV.Files.SaveModel.NPD -> freqs_readable D rd o) ->
    (final_filetype s = LV.Files.SaveModel.NPD ->
       (pbase D o + sum_fields (Z.of_nat (m_ports o)) (resolved s) <= 2147483647)%Z /\
       Exists (fun e => pairform e = true) (resolved s)) ->
    loaded_ok D E rd rda o s (save_emit E o ft0 promote fmt).
  Proof.
    exact (c06_load_save_id_lemma D E rd rda ptext_word atext_word itext_int rd_sign
             ptext_field atext_field ptext_cstr ptext_nohash itext_field).
  Qed.
End Headline.
Print Assumptions c06_loads_as_written.

(* touchstone1_normalisation_identity_Z_partial: the Touchstone 1 normalisation, two-port Z, in exact arithmetic and on the
   two-port functions regenerated from vnaconv_ztos.c / vnaconv_stoz.c (LV.Gen, property C04): for a real reference
   resistance R = k * k (k = ksq R <> 0, cj R = R) and every matrix outside the singular set of ztos, what the saver writes,
   stoz (ztos Z R R) 1 1, multiplied cell by cell by R - what TsParse.unnormalise does for PZ - is Z.  PARTIAL: Y, H, G and
   the n-port Z / Y conversions are not done, and the link to touchstone1_loads_as_written_partial (abstract conv, binary64 values) is
   the exact-arithmetic reading of its ts1_loaded, not a formal corollary. *)
Section NormId.
  Import LV.Base.CField LV.Conv.ConvRel.
  Local Open Scope cf_scope.
  Theorem touchstone1_normalisation_identity_Z_partial :
    forall (K : CField) (R k : K), char_ok K ->
    R = k * k -> k <> 0 -> cj R = R -> ksq R = k -> cj (@c1 K) = c1 -> ksq (@c1 K) = c1 ->
    forall a b c d : K, (a + R) * (d + R) - b * c <> 0 ->
    LV.Files.SaveNormIdentity.unnorm_z K R (LV.Gen.Conv2_s.stoz K (LV.Gen.Conv2_z.ztos K (M2 a b c d) R R) c1 c1) = M2 a b c d.
  Proof. exact LV.Files.SaveNormIdentity.norm_identity_z_lemma. Qed.
End NormId.
Print Assumptions touchstone1_normalisation_identity_Z_partial.

(* load_save_id_touchstone1_lines_partial: for 1..4 ports and RI / MA / DB the tokens the saver writes for one
   frequency of a Touchstone 1 file (frequency, cells in the 2-port column-major order or row by row, one row per
   line) are exactly the data lines TsSpec.v1_record_lines prescribes for the record (frequency, cell numbers), i.e.
   the lines C08's v1_load theorem reads.  PARTIAL: the header run, v1_wf and the un-normalisation identity are
   missing here; the load theorem is touchstone1_loads_as_written_partial below. *)
Theorem load_save_id_touchstone1_lines_partial :
  forall (D : Type) (E : SaveEmit.env D) (rd : Z -> D -> TsTok.xnum) (rda : Z -> bool -> D -> TsTok.xnum) o n e data i fq,
  (1 <= n <= 4)%nat -> ri_ma_db (e_form e) = true ->
  SaveEmit.ts_record E true o n n e data i fq =
  TsSpec.v1_record_lines n (SaveEmitProofs.rec_of D E rd rda o n n (e_form e) (Nat.eqb n 2) data i fq).
Proof. exact SaveEmitProofs.ts1_record_lines_lemma. Qed.
Print Assumptions load_save_id_touchstone1_lines_partial.

(* the premises are met: a 3-port S object with unequal z0, ".ts" name, Touchstone 1 set -> promoted *)
Example load_save_id_premises_instance :
  SaveEmitProofs.conv_keeps_length Z SaveEmitExamples.E0 /\ SaveEmitProofs.mobj_wf Z SaveEmitExamples.o3 /\
  wf_obj (SaveEmit.sobj_of SaveEmitExamples.E0 SaveEmitExamples.o3 TS1 true [Build_entry PUNDEF RI]) = true /\
  cksave (SaveEmit.sobj_of SaveEmitExamples.E0 SaveEmitExamples.o3 TS1 true [Build_entry PUNDEF RI]) = true /\
  SaveEmit.final_filetype (SaveEmit.sobj_of SaveEmitExamples.E0 SaveEmitExamples.o3 TS1 true [Build_entry PUNDEF RI]) = TS2 /\
  SaveEmitProofs.freqs_readable Z (fun _ x => SaveEmitExamples.xz x) SaveEmitExamples.o3 /\
  SaveEmitProofs.exact_prec (SaveEmit.m_fprec SaveEmitExamples.o3) = true /\ SaveEmitProofs.exact_prec (SaveEmit.m_dprec SaveEmitExamples.o3) = true.
Proof. exact SaveEmitExamples.premises_instance. Qed.

(* ------------------------------------------------------------------------------------------------
   Naming (review round 2): the theorems named ..._loads_as_written conclude `loader (saver o) = *_loaded o e`, where *_loaded
   is built from rd p x = "what strtod returns for the text written for x at precision p"; nothing relates rd p x to the
   value of x for p < 17.  Only the ..._exact theorems are identities on values, through num_rt - the ONLY rounding
   hypothesis of this development (there is no hex_exact / dec_relerr).  touchstone1_loads_as_written_partial: for Z/Y/H/G the
   cells are those of the normalised conversion un-normalised by R; that this is the saved matrix is proved only for
   two-port Z in exact arithmetic (touchstone1_normalisation_identity_Z_partial).
   ------------------------------------------------------------------------------------------------ *)

(* save_leaves_object_unchanged / cksave_is_pure (after fix DA90): on the settings-state model of Files/SaveState.v - the file
   type and the format vector as vnadata_save_common changes them on the way to `out:` (file type from the file name,
   promotion of a ".ts" Touchstone 1 object, default format, parameter types of "ri" / "ma" / "dB" filled in) followed by
   the restoring statements of the fix (vdi_filetype = filetype0; vnadata_set_format(format0) when the format was touched) -
   for EVERY object, file-name kind, file type setting and format vector parse_format can produce (typed or untyped), and
   whichever check refuses or none: the settings after the call are the settings before it. *)
Theorem save_leaves_object_unchanged : forall i nk v,
  Forall (fun e => LV.Files.SaveNpdProofs.wfu e = true) (LV.Files.SaveState.v_fmt v) ->
  LV.Files.SaveState.settings_after false i nk v = v.
Proof. exact (LV.Files.SaveStateProofs.save_leaves_settings_lemma false). Qed.
Print Assumptions save_leaves_object_unchanged.
Theorem cksave_is_pure : forall i nk v,
  Forall (fun e => LV.Files.SaveNpdProofs.wfu e = true) (LV.Files.SaveState.v_fmt v) ->
  LV.Files.SaveState.settings_after true i nk v = v.
Proof. exact (LV.Files.SaveStateProofs.save_leaves_settings_lemma true). Qed.
Print Assumptions cksave_is_pure.
(* as found, before fix DA90: vnadata_cksave on a fresh 2x2 S object with a ".s2p" name leaves file type Touchstone 1 and format
   "Sri" behind (and a save leaves "Sma" where "ma" was set, so that a later save of the object converted to Z writes S) *)
Theorem cksave_is_pure_da90_refuted : exists i nk v,
  Forall (fun e => LV.Files.SaveNpdProofs.wfu e = true) (LV.Files.SaveState.v_fmt v) /\
  LV.Files.SaveState.settings_after_da90 true i nk v <> v.
Proof. exact LV.Files.SaveStateProofs.save_changed_settings_da90. Qed.
Print Assumptions cksave_is_pure_da90_refuted.

(* touchstone_unreadable_frequencies_refuted (known finding DA91): the boundary of the premise freqs_readable.  There are objects
   the acceptance checks accept and the saver writes whose file the Touchstone loader model refuses (EBADMSG, "frequencies
   must be in increasing order"): two frequencies that are different values but print as the same text at fprecision
   (Touchstone 2 and Touchstone 1), and descending frequencies; with ascending frequencies the same object loads.  Closed
   witnesses on a six-value number type with fixed decimal texts (Files/SaveBoundary.v).  "Every format combination the
   saver accepts is one the loader accepts" is therefore false for such objects. *)
Theorem touchstone_unreadable_frequencies_refuted :
  let o1 := LV.Files.SaveBoundary.one_port LV.Files.SaveBoundary.V1a LV.Files.SaveBoundary.V1b in
  let o2 := LV.Files.SaveBoundary.one_port LV.Files.SaveBoundary.V2 LV.Files.SaveBoundary.V1a in
  cksave (LV.Files.SaveEmit.sobj_of LV.Files.SaveBoundary.Etv o1 TS2 false []) = true /\
  LV.Files.TsParse.parse (LV.Files.SaveBoundary.saved_stream o1 TS2) = LV.Files.TsParse.Error LV.Files.TsParse.EBADMSG /\
  cksave (LV.Files.SaveEmit.sobj_of LV.Files.SaveBoundary.Etv o1 TS1 false []) = true /\
  LV.Files.TsParse.parse (LV.Files.SaveBoundary.saved_stream o1 TS1) = LV.Files.TsParse.Error LV.Files.TsParse.EBADMSG /\
  cksave (LV.Files.SaveEmit.sobj_of LV.Files.SaveBoundary.Etv o2 TS2 false []) = true /\
  LV.Files.TsParse.parse (LV.Files.SaveBoundary.saved_stream o2 TS2) = LV.Files.TsParse.Error LV.Files.TsParse.EBADMSG /\
  (exists o, LV.Files.TsParse.parse (LV.Files.SaveBoundary.saved_stream
               (LV.Files.SaveBoundary.one_port LV.Files.SaveBoundary.V1a LV.Files.SaveBoundary.V2) TS2) = LV.Files.TsParse.Ok o).
Proof. exact LV.Files.SaveBoundary.unreadable_frequencies_witnesses. Qed.
Print Assumptions touchstone_unreadable_frequencies_refuted.
