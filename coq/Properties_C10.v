(* Property C10 - frequency interpolation is exact at given points and refuses out-of-range use.
   Models: Interp/RfiModel.v (_vnacal_rfi), Interp/SplineModel.v (_vnacommon_spline_calc, _eval),
   Gen/RangeGen.v (regenerated from the C text: constants and the four range checks).
   This file contains statements only; proofs are in Interp/*Proofs.v. *)
Require Import List ZArith QArith Qcanon.
Require Import LV.Base.QcI LV.Interp.QOrd LV.Interp.RfiModel LV.Interp.SplineModel LV.Gen.RangeGen.
Require LV.Interp.SigmaSplineProofs.
Require Import LV.Interp.RfiProofs LV.Interp.SplineProofs LV.Interp.RangeProofs LV.Interp.RfiRational
  LV.Interp.C10Lemmas LV.Interp.RfiWindow LV.Interp.RfiRationalN LV.Interp.RfiRationalEx.
Import ListNotations.
Local Open Scope Z_scope.

(* 1. every index is in bounds and no assert fails: all lengths n >= 1, all orders 1 <= m <= n,
      all hints, all x, any data (ordered or not), any EPS *)
Theorem rfi_no_fault : forall eps cut xp yp n m, zlen xp = n -> zlen yp = n -> 1 <= m <= n ->
  forall x hint, exists v h, rfi eps cut xp yp n m x hint = Some (v, h).
Proof. exact rfi_no_fault_l. Qed.
Print Assumptions rfi_no_fault.

(* 2. exact at every supplied point, whatever the hint; the hint is left unchanged *)
Theorem rfi_at_knot : forall eps cut xp yp n m, zlen xp = n -> zlen yp = n -> 1 <= m <= n ->
  (0 <= eps)%Qc -> (forall i, 0 <= i < n - 1 -> (xat xp i + eps < xat xp (i + 1))%Qc) ->
  forall k hint, 0 <= k < n -> rfi eps cut xp yp n m (xat xp k) hint = Some (yat yp k, hint).
Proof. exact rfi_at_knot_l. Qed.
Print Assumptions rfi_at_knot.

(* 3. the value does not depend on the segment hint ... *)
Theorem rfi_hint_indep : forall eps cut xp yp n m, zlen xp = n -> zlen yp = n -> knots_ok eps xp n ->
  forall x h1 h2, value_of (rfi eps cut xp yp n m x h1) = value_of (rfi eps cut xp yp n m x h2).
Proof. exact rfi_hint_indep_l2. Qed.
Print Assumptions rfi_hint_indep.

(*    ... hence not on the queries made before (the hint is the only state) *)
Theorem rfi_history_indep : forall eps cut xp yp n m, zlen xp = n -> zlen yp = n -> knots_ok eps xp n ->
  forall qs h, rfi_run eps cut xp yp n m h qs = map (fun q => value_of (rfi eps cut xp yp n m q 0)) qs.
Proof. exact rfi_history_indep_l. Qed.
Print Assumptions rfi_history_indep.

(* 4. rational reproduction.  rfi_full returns the value, the new hint and the recorded steps of the
      recurrence (one (den, dx1*d[j], dx2*c[j+1]) per executed inner iteration; m(m-1)/2 when
      the recurrence ran to completion, fewer when the cut-off `cabs(den) < 10 EPS` stopped it,
      none when a knot test returned early).  step_ok cut t = the recorded denominator is non-zero
      and not below the cut-off.
      Order m = 2 on vectors of ANY length n >= 2: data k / (x_i + p), k and p complex, are
      reproduced exactly at every x (inside, between, outside the knots), whatever the hint,
      whenever the one step of the recurrence was performed with an admissible denominator. *)
Theorem rfi_rational_order2 : forall eps cut xp yp n (k p : qi) x hint v s tr,
  let f := fun t : Qc => qi_div k (qi_add (qx t) p) in
  zlen xp = n -> zlen yp = n -> 2 <= n ->
  (forall i, 0 <= i < n -> yat yp i = f (xat xp i) /\ qi_add (qx (xat xp i)) p <> qi0 /\ qre (f (xat xp i)) <> 0%Qc) ->
  qi_add (qx x) p <> qi0 ->
  rfi_full eps cut xp yp n 2 x hint = Some (v, s, tr) ->
  length tr = 1%nat -> Forall (step_ok cut) tr -> v = f x.
Proof. exact rfi_rational2_n. Qed.
Print Assumptions rfi_rational_order2.

(*    Order m = 3 on vectors of ANY length n >= 3: data (a + b x_i) / (c + x_i) with complex a, b, c
      are reproduced exactly, whichever three-point window is selected (left edge, interior,
      right edge) and whichever of its points is nearest, whenever the three steps of the
      recurrence were performed with admissible denominators.  (The hypothesis on the real parts
      is the modelled rounding effect of `yp[i] + EPS`, see RfiModel.add_eps.) *)
Theorem rfi_rational_order3 : forall eps cut xp yp n (a b c : qi) x hint v s tr,
  let f := fun t : Qc => qi_div (qi_add a (qi_mul b (qx t))) (qi_add c (qx t)) in
  zlen xp = n -> zlen yp = n -> 3 <= n ->
  (forall i, 0 <= i < n -> yat yp i = f (xat xp i) /\ qi_add c (qx (xat xp i)) <> qi0 /\ qre (f (xat xp i)) <> 0%Qc) ->
  qi_add c (qx x) <> qi0 ->
  rfi_full eps cut xp yp n 3 x hint = Some (v, s, tr) ->
  length tr = 3%nat -> Forall (step_ok cut) tr -> v = f x.
Proof. exact rfi_rational3_n. Qed.
Print Assumptions rfi_rational_order3.

(*    What makes these independent of n: once the knot tests have not returned, the value and the
      recorded steps are those of the recurrence on the selected m-point window alone (all m). *)
Theorem rfi_depends_on_window_only : forall eps cut xp yp n m x hint v s tr,
  zlen xp = n -> zlen yp = n -> 1 <= m <= n ->
  rfi_full eps cut xp yp n m x hint = Some (v, s, tr) -> tr <> [] ->
  exists base cur, 0 <= base <= n - m /\ 0 <= cur < m /\
    bs_core eps cut m (window xp base m) (window yp base m) x cur = Some (v, tr).
Proof. exact rfi_full_window_inv. Qed.
Print Assumptions rfi_depends_on_window_only.

(*    The same two theorems with every hypothesis decidable (data = map f xp). *)
Theorem rfi_rational_order2_decidable : forall eps cut xp (k p : qi) x hint,
  2 <= zlen xp -> data_okb (rat2 k p) (fun t => qi_add (qx t) p) xp = true -> qi_nzb (qi_add (qx x) p) = true ->
  match rfi_full eps cut xp (map (rat2 k p) xp) (zlen xp) 2 x hint with
  | Some (v, _, tr) => (length tr =? 1)%nat && forallb (step_okb cut) tr = true -> v = rat2 k p x
  | None => True
  end.
Proof. exact rfi_rational2_dec. Qed.
Print Assumptions rfi_rational_order2_decidable.

Theorem rfi_rational_order3_decidable : forall eps cut xp (a b c : qi) x hint,
  3 <= zlen xp -> data_okb (rat3 a b c) (fun t => qi_add c (qx t)) xp = true -> qi_nzb (qi_add c (qx x)) = true ->
  match rfi_full eps cut xp (map (rat3 a b c) xp) (zlen xp) 3 x hint with
  | Some (v, _, tr) => (length tr =? 3)%nat && forallb (step_okb cut) tr = true -> v = rat3 a b c x
  | None => True
  end.
Proof. exact rfi_rational3_dec. Qed.
Print Assumptions rfi_rational_order3_decidable.

(*    Non-vacuity over Q[i]: knots 1, 2, 7/2, 5, 8; f(t) = ((1+2i) + (3-i) t) / ((5+i) + t);
      EPS = 1e-25.  The hypotheses hold ... *)
Theorem rfi_rational_order3_satisfiable :
  let f := rat3 ex_a ex_b ex_c in
  zlen ex_xp = 5 /\ zlen (map f ex_xp) = 5 /\
  (forall i, 0 <= i < 5 -> yat (map f ex_xp) i = f (xat ex_xp i) /\ qi_add ex_c (qx (xat ex_xp i)) <> qi0 /\
                          qre (f (xat ex_xp i)) <> 0%Qc) /\
  qi_add ex_c (qx (qz 3)) <> qi0 /\
  exists v s tr, rfi_full eps25 cut25 ex_xp (map f ex_xp) 5 3 (qz 3) 4 = Some (v, s, tr) /\
                 length tr = 3%nat /\ Forall (step_ok cut25) tr /\ v = f (qz 3) /\ ~ In (qz 3) ex_xp.
Proof. exact rfi_rational3_satisfiable. Qed.
Print Assumptions rfi_rational_order3_satisfiable.

(*    ... and for the eight queries 1/2, 3/2, 3, 4, 6, 9, 3.501, 4.999 (left of all knots, window at
      the left edge, interior, right edge, right of all knots, 1/1000 from a knot) and the hints
      -3, 0, 1, 3, 4, 9 the recurrence completes with admissible denominators and the value is
      exactly f(x); likewise order 2 with f(t) = (3+i) / (t + (2-i)). *)
Theorem rfi_rational_order3_example :
  map (fun x => window_of 3 ex_xp x 0) ex_qs = [Some 0; Some 0; Some 1; Some 1; Some 2; Some 2; Some 1; Some 2] /\
  forallb (fun h => forallb (fun x =>
     complete_and_exact 3 (rat3 ex_a ex_b ex_c) x
       (rfi_full eps25 cut25 ex_xp (map (rat3 ex_a ex_b ex_c) ex_xp) 5 3 x h)) ex_qs) ex_hints = true.
Proof. exact (conj ex_windows3 ex_rational3_value). Qed.
Print Assumptions rfi_rational_order3_example.

Theorem rfi_rational_order2_example :
  map (fun x => window_of 2 ex_xp x 0) ex_qs = [Some 0; Some 0; Some 1; Some 2; Some 3; Some 3; Some 2; Some 2] /\
  data_okb (rat2 ex_k ex_p) (fun t => qi_add (qx t) ex_p) ex_xp = true /\
  forallb (fun h => forallb (fun x =>
     complete_and_exact 1 (rat2 ex_k ex_p) x
       (rfi_full eps25 cut25 ex_xp (map (rat2 ex_k ex_p) ex_xp) 5 2 x h)) ex_qs) ex_hints = true.
Proof. exact (conj ex_windows2 (conj (proj1 (proj2 ex_rational2_hyps)) ex_rational2_value)). Qed.
Print Assumptions rfi_rational_order2_example.

(*    Two points exactly (n = m = 2), hypotheses on the inputs only: when neither knot test nor the
      cut-off triggers the call returns k / (x + p) (this one also states that it returns). *)
Theorem rfi_rational_two_points : forall (eps cut x0 x1 x : Qc) (k p : qi),
  k <> qi0 -> qi_sub (qx x1) (qx x0) <> qi0 ->
  qi_add (qx x0) p <> qi0 -> qi_add (qx x1) p <> qi0 -> qi_add (qx x) p <> qi0 ->
  qre (qi_div k (qi_add (qx x0) p)) <> 0%Qc -> qre (qi_div k (qi_add (qx x1) p)) <> 0%Qc ->
  Qcleb (Qcabs' (x - x0)) eps = false -> Qcleb (Qcabs' (x - x1)) eps = false ->
  cabs_lt (qi_sub (qi_mul (qx (x - x0)) (qi_div k (qi_add (qx x0) p)))
                  (qi_mul (qx (x - x1)) (qi_div k (qi_add (qx x1) p)))) cut = false ->
  forall hint, exists tr,
    rfi_full eps cut [x0; x1] [qi_div k (qi_add (qx x0) p); qi_div k (qi_add (qx x1) p)] 2 2 x hint
    = Some (qi_div k (qi_add (qx x) p), 0, tr).
Proof. exact rfi_rational2_l. Qed.
Print Assumptions rfi_rational_two_points.

(*    PARTIAL with respect to the property ("any low-order rational function"): the callers use
      orders up to VNACAL_MAX_M = 5.  Orders 4 (type 1/2) and 5 (type 2/2) are NOT proved - a proof
      for general m needs the theory of the Stoer-Bulirsch recurrence (existence / uniqueness of
      rational interpolants); the direct method used for m <= 3 (a hand-made factorisation of the
      recorded denominators + `field`, 35 s for m = 3) was not attempted for six nested denominators.  The
      model is only evaluated on concrete data of those types (seven knots, six queries, three
      hints: the value is exact), and the correspondence compares the code with the model on
      'rat' data numerically. *)
Theorem rfi_rational_orders_4_5_instances_only :
  forallb (fun h => forallb (fun x =>
     complete_and_exact 6 rat4 x (rfi_full eps25 cut25 ex_xp7 (map rat4 ex_xp7) 7 4 x h)) ex_qs7) [-1; 2; 6] = true /\
  forallb (fun h => forallb (fun x =>
     complete_and_exact 10 rat5 x (rfi_full eps25 cut25 ex_xp7 (map rat5 ex_xp7) 7 5 x h)) ex_qs7) [-1; 2; 6] = true.
Proof. exact (conj rfi_rational4_instance rfi_rational5_instance). Qed.
Print Assumptions rfi_rational_orders_4_5_instances_only.

(* 5. spline: n >= 1 segments (n + 1 points, two-point vectors included), any coefficients *)
Theorem spline_at_knot : forall xs ys n, 1 <= n -> zlen xs = n + 1 -> zlen ys = n + 1 ->
  (forall i, 0 <= i < n -> (gq xs i < gq xs (i + 1))%Qc) ->
  forall cs k, 0 <= k <= n -> spline_eval xs ys n cs (gq xs k) = Some (gq ys k).
Proof. exact LV.Interp.SigmaSplineProofs.spline_at_knot_len_l. Qed.
Print Assumptions spline_at_knot.

(*    data on a line are reproduced at every x (between the knots and in the extrapolation) *)
Theorem spline_linear : forall min_dx xs ys n p q, 1 <= n -> (0 < min_dx)%Qc ->
  (forall i, 0 <= i < n -> (min_dx <= gq xs (i + 1) - gq xs i)%Qc) ->
  (forall i, 0 <= i <= n -> gq ys i = (p + q * gq xs i)%Qc) ->
  exists cs, spline_calc min_dx xs ys n = Some cs /\
             forall x, spline_eval xs ys n cs x = Some (p + q * x)%Qc.
Proof. exact spline_linear_l. Qed.
Print Assumptions spline_linear.

Theorem spline_calc_ok : forall min_dx xs ys n, 1 <= n ->
  (forall i, 0 <= i < n -> (min_dx <= gq xs (i + 1) - gq xs i)%Qc) ->
  exists cs, spline_calc min_dx xs ys n = Some cs.
Proof. exact spline_calc_ok_l. Qed.
Print Assumptions spline_calc_ok.

Theorem spline_history_free : forall min_dx xs ys before q l1 l2,
  spline_interp min_dx xs ys (before ++ [q]) = Some l1 ->
  spline_interp min_dx xs ys [q] = Some l2 -> last l1 None = last l2 None.
Proof. exact spline_history_free_l. Qed.
Print Assumptions spline_history_free.

(* 6. range checks (functions regenerated from the C statements) *)
Theorem range_new_parameter_rejects_5pct : forall nl nh hl hh,
  miss_low nl hl \/ miss_high nh hh -> range_new_parameter_reject nl nh hl hh = true.
Proof. exact range_new_parameter_rejects_5pct_l. Qed.
Print Assumptions range_new_parameter_rejects_5pct.
Theorem range_new_parameter_accepts_cover : forall nl nh hl hh,
  covers nl nh hl hh -> range_new_parameter_reject nl nh hl hh = false.
Proof. exact range_new_parameter_accepts_cover_l. Qed.
Print Assumptions range_new_parameter_accepts_cover.

Theorem range_m_error_rejects_5pct : forall nl nh hl hh,
  miss_low nl hl \/ miss_high nh hh -> range_m_error_reject nl nh hl hh = true.
Proof. exact range_m_error_rejects_5pct_l. Qed.
Print Assumptions range_m_error_rejects_5pct.
Theorem range_m_error_accepts_cover : forall nl nh hl hh,
  covers nl nh hl hh -> range_m_error_reject nl nh hl hh = false.
Proof. exact range_m_error_accepts_cover_l. Qed.
Print Assumptions range_m_error_accepts_cover.
(*    the test applies to calls with two or more points (regenerated guard); a single value is never refused
      for its frequency *)
Theorem range_m_error_single_point : forall nl nh hl hh, range_m_error_reject_n 1 nl nh hl hh = false.
Proof. exact range_m_error_single_point_l. Qed.
Print Assumptions range_m_error_single_point.
Theorem range_m_error_n_rejects_5pct : forall n nl nh hl hh, 2 <= n ->
  miss_low nl hl \/ miss_high nh hh -> range_m_error_reject_n n nl nh hl hh = true.
Proof. exact range_m_error_n_rejects_5pct_l. Qed.
Print Assumptions range_m_error_n_rejects_5pct.
Theorem range_m_error_n_accepts_cover : forall n nl nh hl hh,
  covers nl nh hl hh -> range_m_error_reject_n n nl nh hl hh = false.
Proof. exact range_m_error_n_accepts_cover_l. Qed.
Print Assumptions range_m_error_n_accepts_cover.

Theorem range_get_value_rejects_5pct : forall f hl hh,
  miss_low f hl \/ miss_high f hh -> range_get_value_reject f f hl hh = true.
Proof. exact range_get_value_rejects_5pct_l. Qed.
Print Assumptions range_get_value_rejects_5pct.
Theorem range_get_value_accepts_cover : forall f hl hh,
  covers f f hl hh -> range_get_value_reject f f hl hh = false.
Proof. exact range_get_value_accepts_cover_l. Qed.
Print Assumptions range_get_value_accepts_cover.
(*    a NaN frequency (None; the decision functions are stated on Q) is refused before the comparisons *)
Theorem range_get_value_nan_refused : forall hl hh, range_get_value_reject_nan None hl hh = true.
Proof. exact range_get_value_nan_refused_l. Qed.
Print Assumptions range_get_value_nan_refused.

Theorem range_apply_rejects_5pct : forall nl nh hl hh,
  miss_low nl hl \/ miss_high nh hh -> range_apply_reject nl nh hl hh = true.
Proof. exact range_apply_rejects_5pct_l. Qed.
Print Assumptions range_apply_rejects_5pct.
Theorem range_apply_accepts_cover : forall nl nh hl hh,
  covers nl nh hl hh -> range_apply_reject nl nh hl hh = false.
Proof. exact range_apply_accepts_cover_l. Qed.
Print Assumptions range_apply_accepts_cover.

(* 7. parameter chains: the range _vnacal_get_parameter_frange computes and the accept / refuse
      decision of vnacal_new_add_* / vnacal_new_set_frequency_vector built on it
      (Interp/FrangeModel.v; comparison operators regenerated from the C text) *)
Require Import LV.Interp.FrangeBase LV.Interp.FrangeModel LV.Interp.FrangeProofs LV.Interp.FrangeExamples.
Require Import Permutation.

(*    the walk ends at the scalar / vector parameter at the end of the chain, whatever the length
      and mixture of unknown and correlated parameters in between *)
Theorem frange_walk_is_chain_end : forall p, walk p = base_range (chain_end p).
Proof. exact walk_chain_end_l. Qed.
Print Assumptions frange_walk_is_chain_end.

(*    a correlated parameter with a multi-point sigma grid: lower end = max of the lower ends,
      upper end = min of the upper ends (intersection with the grid) *)
Theorem frange_correlated_is_intersection : forall g o,
  frange (PCorrelated (Some g) o) = inter (walk o) (Fin (firstq g), Fin (lastq g)).
Proof. exact frange_correlated_is_intersection_l. Qed.
Print Assumptions frange_correlated_is_intersection.

Theorem frange_plain : forall p, (forall g o, p <> PCorrelated (Some g) o) -> frange p = walk p.
Proof. exact frange_plain_l. Qed.
Print Assumptions frange_plain.

(*    every chain: the decision at add time is the decision on the intersection of everything the
      solver reads for p - the vector at the end of the chain and the sigma grid of every
      correlated parameter that becomes a member of the calibration *)
Theorem chain_decision_is_intersection : forall nl nh p,
  add_ok nl nh p = negb (rej nl nh (inter_all (consumed p))).
Proof. exact add_ok_intersection_l. Qed.
Print Assumptions chain_decision_is_intersection.

(*    a band that misses ANY of them by >= 5 % at the low end or at the high end is refused *)
Theorem chain_refuses_any_miss : forall nl nh p r, In r (consumed p) ->
  (exists lo, fst r = Fin lo /\ miss_low nl lo) \/ (exists hi, snd r = Fin hi /\ miss_high nh hi) ->
  add_ok nl nh p = false.
Proof. exact add_refuses_any_miss_l. Qed.
Print Assumptions chain_refuses_any_miss.

(*    a band covered by all of them is accepted *)
Theorem chain_accepts_all_cover : forall nl nh p,
  (forall r, In r (consumed p) -> covers_x nl nh r) -> add_ok nl nh p = true.
Proof. exact add_accepts_all_cover_l. Qed.
Print Assumptions chain_accepts_all_cover.

(*    add after set_frequency_vector (the parameter, then its correlates) and add before
      (set_frequency_vector walks the hash in whatever order) decide alike *)
Theorem chain_orders_agree : forall nl nh p members,
  Permutation members (hash_members p) -> set_ok nl nh members = add_ok nl nh p.
Proof. exact orders_agree_l. Qed.
Print Assumptions chain_orders_agree.

(*    sigma_frequency_vector == NULL (grid borrowed from the vector at the end of the chain) and
      single sigma values do not restrict the range *)
Theorem chain_borrowed_grid_no_restriction : forall min_dx other n sigma p,
  mk_correlated min_dx other None n sigma = Some p -> (1 < n)%Z ->
  frange p = walk other /\ exists fs, chain_end other = PVector fs /\ p = PCorrelated (Some fs) other.
Proof. exact borrowed_grid_no_restriction_l. Qed.
Print Assumptions chain_borrowed_grid_no_restriction.

Theorem chain_one_point_no_restriction : forall min_dx other sfv sigma p,
  mk_correlated min_dx other sfv 1 sigma = Some p -> p = PCorrelated None other /\ frange p = walk other.
Proof. exact one_point_no_restriction_l. Qed.
Print Assumptions chain_one_point_no_restriction.

(*    non-vacuity: concrete chains (three correlated parameters in a row; correlated - unknown -
      correlated - vector; scalar correlate), both verdicts, both orders *)
Theorem chain_examples :
  add_ok 3 8 exKK = true /\ add_ok 2 8 exKK = false /\ add_ok 3 10 exKK = false /\
  frange exK1 = (Fin 2, Fin 9) /\ (forall r, In r (consumed exKK) -> covers_x 3 8 r) /\
  In (Fin 2, Fin 12) (consumed exKK) /\ miss_high 14 12 /\
  Permutation (rev (hash_members exKK)) (hash_members exKK).
Proof.
  exact (conj (proj1 (proj2 (proj2 (proj2 ex_decisions))))
        (conj (proj1 (proj2 (proj2 (proj2 (proj2 ex_decisions)))))
        (conj (proj1 (proj2 (proj2 (proj2 (proj2 (proj2 ex_decisions))))))
        (conj (proj1 ex_frange) (conj ex_cover_hyp
        (conj (proj1 ex_refuse_hyp) (conj (proj1 (proj2 ex_refuse_hyp)) ex_perm))))))).
Qed.
Print Assumptions chain_examples.

(* 8. sigma of a correlated parameter as a function of frequency (Interp/SigmaSplineModel.v) *)
Require Import LV.Interp.SigmaSplineModel LV.Interp.SigmaSplineProofs LV.Interp.SigmaSplineExamples.

Theorem sigma_one_point : forall xs ys cs x, sigma_np ys = 1 -> sigma_eval xs ys cs x = Some (gq ys 0).
Proof. exact sigma_one_point_l. Qed.
Print Assumptions sigma_one_point.

Theorem sigma_at_knot : forall xs ys, 2 <= sigma_np ys ->
  (forall i, 0 <= i < sigma_np ys - 1 -> (gq xs i < gq xs (i + 1))%Qc) ->
  forall cs k, 0 <= k < sigma_np ys -> sigma_eval xs ys cs (gq xs k) = Some (gq ys k).
Proof. exact sigma_at_knot_l. Qed.
Print Assumptions sigma_at_knot.

Theorem sigma_linear : forall min_dx xs ys p q, 2 <= sigma_np ys -> (0 < min_dx)%Qc ->
  (forall i, 0 <= i < sigma_np ys - 1 -> (min_dx <= gq xs (i + 1) - gq xs i)%Qc) ->
  (forall i, 0 <= i < sigma_np ys -> gq ys i = (p + q * gq xs i)%Qc) ->
  exists cs, sigma_make min_dx xs ys = Some cs /\
             forall x, sigma_eval xs ys cs x = Some (p + q * x)%Qc.
Proof. exact sigma_linear_l. Qed.
Print Assumptions sigma_linear.

(*    exactly two points: the chord through them at every frequency, whatever the two values *)
Theorem sigma_two_points : forall min_dx x0 x1 y0 y1, (0 < min_dx)%Qc -> (min_dx <= x1 - x0)%Qc ->
  exists cs, sigma_make min_dx [x0; x1] [y0; y1] = Some cs /\
             forall x, sigma_eval [x0; x1] [y0; y1] cs x =
                       Some (y0 + (y1 - y0) / (x1 - x0) * (x - x0))%Qc.
Proof. exact sigma_two_points_l. Qed.
Print Assumptions sigma_two_points.

Theorem sigma_make_ok : forall min_dx xs ys, 2 <= sigma_np ys ->
  (forall i, 0 <= i < sigma_np ys - 1 -> (min_dx <= gq xs (i + 1) - gq xs i)%Qc) ->
  exists cs, sigma_make min_dx xs ys = Some cs.
Proof. exact sigma_make_ok_l. Qed.
Print Assumptions sigma_make_ok.

Theorem sigma_history_free : forall min_dx xs ys before q l1 l2,
  sigma_interp min_dx xs ys (before ++ [q]) = Some l1 ->
  sigma_interp min_dx xs ys [q] = Some l2 -> last l1 None = last l2 None.
Proof. exact sigma_history_free_l. Qed.
Print Assumptions sigma_history_free.

Theorem sigma_examples :
  sigma_interp mdx [qz 1; qz 3] [qz 5; qz 9] [qz 1; qz 2; qz 3; qz 0; qz 4; Q2Qc (3 # 2)] =
  Some [Some (qz 5); Some (qz 7); Some (qz 9); Some (qz 3); Some (qz 11); Some (qz 6)].
Proof. exact ex_sigma_two_points. Qed.
Print Assumptions sigma_examples.

(* 9. the frequency side of vnacal_apply (Interp/ApplyFreqModel.v: one _vnacal_rfi call per error term
      per request frequency, order MIN(cal_frequencies, VNACAL_MAX_M), ONE segment variable threaded
      through all calls of the request; Interp/ApplyFreqRange.v: the tests on the request vector) *)
Require Import LV.Interp.ApplyFreqModel LV.Interp.ApplyFreqProofs LV.Interp.ApplyFreqExamples
               LV.Interp.ApplyFreqRange LV.Interp.ApplyFreqRangeProofs.

(*    every calibration grid length n >= 1, every number of terms, every request (any order,
      repetitions, any initial segment): the loop never faults and the term vector at each request
      frequency is that of one fresh call per term *)
Theorem apply_loop_is_pointwise : forall eps cut xp n max_m, zlen xp = n -> 1 <= n -> 1 <= max_m ->
  knots_ok eps xp n -> forall ts, terms_wf n ts -> forall req seg,
  exists seg', apply_loop eps cut xp n max_m ts req seg =
               Some (map (fresh_terms eps cut xp n max_m ts) req, seg').
Proof. exact apply_loop_spec. Qed.
Print Assumptions apply_loop_is_pointwise.

(*    hence: the terms used at a frequency do not depend on the other frequencies of the request,
      their order, or the initial segment *)
Theorem apply_request_pointwise : forall eps cut xp n max_m, zlen xp = n -> 1 <= n -> 1 <= max_m ->
  knots_ok eps xp n -> forall ts, terms_wf n ts ->
  forall req1 req2 seg1 seg2 out1 out2 s1 s2 i j f,
  apply_loop eps cut xp n max_m ts req1 seg1 = Some (out1, s1) ->
  apply_loop eps cut xp n max_m ts req2 seg2 = Some (out2, s2) ->
  nth_error req1 i = Some f -> nth_error req2 j = Some f ->
  nth_error out1 i = Some (fresh_terms eps cut xp n max_m ts f) /\
  nth_error out2 j = Some (fresh_terms eps cut xp n max_m ts f).
Proof. exact apply_request_pointwise_l. Qed.
Print Assumptions apply_request_pointwise.

(*    at a request frequency equal to a calibration frequency every term is the stored term *)
Theorem apply_terms_at_knot : forall eps cut xp n max_m, zlen xp = n -> 1 <= n -> 1 <= max_m ->
  knots_ok eps xp n -> forall ts, terms_wf n ts -> forall req seg k i,
  0 <= k < n -> nth_error req i = Some (xat xp k) ->
  exists out seg', apply_loop eps cut xp n max_m ts req seg = Some (out, seg') /\
                   nth_error out i = Some (map (fun yp => yat yp k) ts).
Proof. exact apply_terms_at_knot_l. Qed.
Print Assumptions apply_terms_at_knot.

(*    terms that are rational functions of frequency of the proved orders are reproduced at every
      request frequency where the recurrence of each term completes (decidable side conditions) *)
(*    PARTIAL: orders 2 and 3 only, i.e. two- and three-point calibrations (or VNACAL_MAX_M <= 3); for the common
      case of four or more calibration points (orders 4, 5) nothing is proved between the knots *)
Theorem apply_low_order_exact2_partial : forall eps cut xp n max_m, zlen xp = n -> 1 <= n -> 1 <= max_m ->
  knots_ok eps xp n -> forall cs req seg, apply_order n max_m = 2 ->
  (forall x, In x req -> forallb (term2_ok eps cut xp n max_m x) cs = true) ->
  exists seg', apply_loop eps cut xp n max_m (map (term2 xp) cs) req seg =
               Some (map (fun x => map (fun kp => rat2 (fst kp) (snd kp) x) cs) req, seg').
Proof. exact apply_low_order_exact2_l. Qed.
Print Assumptions apply_low_order_exact2_partial.

Theorem apply_low_order_exact3_partial : forall eps cut xp n max_m, zlen xp = n -> 1 <= n -> 1 <= max_m ->
  knots_ok eps xp n -> forall cs req seg, apply_order n max_m = 3 ->
  (forall x, In x req -> forallb (term3_ok eps cut xp n max_m x) cs = true) ->
  exists seg', apply_loop eps cut xp n max_m (map (term3 xp) cs) req seg =
               Some (map (fun x => map (fun abc => rat3 (fst (fst abc)) (snd (fst abc)) (snd abc) x) cs) req, seg').
Proof. exact apply_low_order_exact3_l. Qed.
Print Assumptions apply_low_order_exact3_partial.

(*    as coded at the edges: a zero-length request makes no call; a one-point calibration returns its
      stored terms at every frequency and never moves the segment *)
Theorem apply_zero_length : forall eps cut xp n max_m ts, apply_terms eps cut xp n max_m ts [] = Some ([], 0).
Proof. exact apply_zero_length_l. Qed.
Print Assumptions apply_zero_length.

Theorem apply_one_point_cal : forall eps cut xp max_m ts, zlen xp = 1 -> Forall (fun yp => zlen yp = 1) ts -> 1 <= max_m ->
  forall req seg, apply_loop eps cut xp 1 max_m ts req seg =
                  Some (map (fun _ => map (fun yp => yat yp 0) ts) req, seg).
Proof. exact apply_one_point_cal_l. Qed.
Print Assumptions apply_one_point_cal.

(*    non-vacuity: three-point calibration, two terms (a + b f)/(c + f), request 3, 3/2, 3, 1/2, 2, 4 *)
Theorem apply_examples :
  apply_order 3 5 = 3 /\
  forallb (fun x => forallb (term3_ok eps25 cut25 ax3 3 5 x) ac3) [QcI.qz 3; qq 3 2; qq 1 2; QcI.qz 4] = true /\
  same (apply_terms eps25 cut25 ax3 3 5 (map (term3 ax3) ac3) areq)
       (map (fun x => map (fun abc => rat3 (fst (fst abc)) (snd (fst abc)) (snd abc) x) ac3) areq) = true.
Proof. exact ex_apply_order3. Qed.
Print Assumptions apply_examples.

(* 10. the tests of vnacal_apply on the request frequency vector *)
Theorem apply_refuses_5pct : forall cal req, ascending req = true -> req <> [] -> cal <> [] ->
  miss_low (firstq req) (firstq cal) \/ miss_high (lastq req) (lastq cal) ->
  apply_check cal req = VOutOfRange.
Proof. exact apply_refuses_5pct_l. Qed.
Print Assumptions apply_refuses_5pct.

Theorem apply_accepts_cover : forall cal req, ascending req = true -> cal <> [] ->
  (req <> [] -> covers (firstq req) (lastq req) (firstq cal) (lastq cal)) ->
  apply_check cal req = VOk.
Proof. exact apply_accepts_cover_l. Qed.
Print Assumptions apply_accepts_cover.

Theorem apply_one_point_cal_range : forall c req, ascending req = true -> req <> [] ->
  (apply_check [c] req = VOk <-> ((99 # 100) * c <= firstq req /\ lastq req <= (101 # 100) * c)%Q).
Proof. exact apply_one_point_cal_range_l. Qed.
Print Assumptions apply_one_point_cal_range.

Theorem apply_not_increasing : forall cal req, ascending req = false -> apply_check cal req = VNotIncreasing.
Proof. exact apply_not_increasing_l. Qed.
Print Assumptions apply_not_increasing.

Theorem apply_zero_length_check : forall cal, apply_check cal [] = VOk.
Proof. exact apply_zero_length_check_l. Qed.
Print Assumptions apply_zero_length_check.
