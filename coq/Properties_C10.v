(* Property C10 - frequency interpolation is exact at given points and refuses out-of-range use.
   Models: Interp/RfiModel.v (_vnacal_rfi), Interp/SplineModel.v (_vnacommon_spline_calc, _eval),
   Gen/RangeGen.v (regenerated from the C text: constants and the four range checks).
   This file contains statements only; proofs are in Interp/*Proofs.v. *)
Require Import List ZArith QArith Qcanon.
Require Import LV.Base.QcI LV.Interp.QOrd LV.Interp.RfiModel LV.Interp.SplineModel LV.Gen.RangeGen.
Require Import LV.Interp.RfiProofs LV.Interp.SplineProofs LV.Interp.RangeProofs LV.Interp.RfiRational
  LV.Interp.C10Lemmas.
Import ListNotations.
Local Open Scope Z_scope.

(* 1. every index is in bounds and no assert fails: all lengths n >= 1, all orders 1 <= m <= n,
      all hints, all x, any data (ordered or not), any EPS *)
Theorem rfi_no_fault : forall eps cut xp yp n m, zlen xp = n -> zlen yp = n -> 1 <= m <= n ->
  forall x hint, exists v h, rfi eps cut xp yp n m x hint = Some (v, h).
Proof. exact rfi_no_fault_l. Qed.
Print Assumptions rfi_no_fault.

(* 2. exact at every supplied point, whatever the hint; the hint is left unchanged *)
Theorem rfi_at_knot : forall eps cut xp yp n m, zlen xp = n -> zlen yp = n -> 1 <= m <= n ->
  (0 <= eps)%Qc -> (forall i, 0 <= i < n - 1 -> (xat xp i + eps < xat xp (i + 1))%Qc) ->
  forall k hint, 0 <= k < n -> rfi eps cut xp yp n m (xat xp k) hint = Some (yat yp k, hint).
Proof. exact rfi_at_knot_l. Qed.
Print Assumptions rfi_at_knot.

(* 3. the value does not depend on the segment hint ... *)
Theorem rfi_hint_indep : forall eps cut xp yp n m, zlen xp = n -> zlen yp = n -> knots_ok eps xp n ->
  forall x h1 h2, value_of (rfi eps cut xp yp n m x h1) = value_of (rfi eps cut xp yp n m x h2).
Proof. exact rfi_hint_indep_l2. Qed.
Print Assumptions rfi_hint_indep.

(*    ... hence not on the queries made before (the hint is the only state) *)
Theorem rfi_history_indep : forall eps cut xp yp n m, zlen xp = n -> zlen yp = n -> knots_ok eps xp n ->
  forall qs h, rfi_run eps cut xp yp n m h qs = map (fun q => value_of (rfi eps cut xp yp n m q 0)) qs.
Proof. exact rfi_history_indep_l. Qed.
Print Assumptions rfi_history_indep.

(* 4. partial: two points (m = 2) reproduce k / (x + p), k and p complex, when neither the knot
      tests nor the cut-off trigger.  NOT proved: m = 3 for (a + b x) / (c + x) (one concrete
      instance only, rfi_rational3_instance), m = 4, 5, windows inside longer vectors. *)
Theorem rfi_rational_partial : forall (eps cut x0 x1 x : Qc) (k p : qi),
  k <> qi0 -> qi_sub (qx x1) (qx x0) <> qi0 ->
  qi_add (qx x0) p <> qi0 -> qi_add (qx x1) p <> qi0 -> qi_add (qx x) p <> qi0 ->
  qre (qi_div k (qi_add (qx x0) p)) <> 0%Qc -> qre (qi_div k (qi_add (qx x1) p)) <> 0%Qc ->
  Qcleb (Qcabs' (x - x0)) eps = false -> Qcleb (Qcabs' (x - x1)) eps = false ->
  cabs_lt (qi_sub (qi_mul (qx (x - x0)) (qi_div k (qi_add (qx x0) p)))
                  (qi_mul (qx (x - x1)) (qi_div k (qi_add (qx x1) p)))) cut = false ->
  forall hint, exists tr,
    rfi_full eps cut [x0; x1] [qi_div k (qi_add (qx x0) p); qi_div k (qi_add (qx x1) p)] 2 2 x hint
    = Some (qi_div k (qi_add (qx x) p), 0, tr).
Proof. exact rfi_rational2_l. Qed.
Print Assumptions rfi_rational_partial.

(* 5. spline: n >= 1 segments (n + 1 points, two-point vectors included), any coefficients *)
Theorem spline_at_knot : forall xs ys n, 1 <= n ->
  (forall i, 0 <= i < n -> (gq xs i < gq xs (i + 1))%Qc) ->
  forall cs k, 0 <= k <= n -> spline_eval xs ys n cs (gq xs k) = Some (gq ys k).
Proof. exact spline_at_knot_l. Qed.
Print Assumptions spline_at_knot.

(*    data on a line are reproduced at every x (between the knots and in the extrapolation) *)
Theorem spline_linear : forall min_dx xs ys n p q, 1 <= n -> (0 < min_dx)%Qc ->
  (forall i, 0 <= i < n -> (min_dx <= gq xs (i + 1) - gq xs i)%Qc) ->
  (forall i, 0 <= i <= n -> gq ys i = (p + q * gq xs i)%Qc) ->
  exists cs, spline_calc min_dx xs ys n = Some cs /\
             forall x, spline_eval xs ys n cs x = Some (p + q * x)%Qc.
Proof. exact spline_linear_l. Qed.
Print Assumptions spline_linear.

Theorem spline_calc_ok : forall min_dx xs ys n, 1 <= n ->
  (forall i, 0 <= i < n -> (min_dx <= gq xs (i + 1) - gq xs i)%Qc) ->
  exists cs, spline_calc min_dx xs ys n = Some cs.
Proof. exact spline_calc_ok_l. Qed.
Print Assumptions spline_calc_ok.

Theorem spline_history_free : forall min_dx xs ys before q l1 l2,
  spline_interp min_dx xs ys (before ++ [q]) = Some l1 ->
  spline_interp min_dx xs ys [q] = Some l2 -> last l1 None = last l2 None.
Proof. exact spline_history_free_l. Qed.
Print Assumptions spline_history_free.

(* 6. range checks (functions regenerated from the C statements) *)
Theorem range_new_parameter_rejects_5pct : forall nl nh hl hh,
  miss_low nl hl \/ miss_high nh hh -> range_new_parameter_reject nl nh hl hh = true.
Proof. exact range_new_parameter_rejects_5pct_l. Qed.
Print Assumptions range_new_parameter_rejects_5pct.
Theorem range_new_parameter_accepts_cover : forall nl nh hl hh,
  covers nl nh hl hh -> range_new_parameter_reject nl nh hl hh = false.
Proof. exact range_new_parameter_accepts_cover_l. Qed.
Print Assumptions range_new_parameter_accepts_cover.

Theorem range_m_error_rejects_5pct : forall nl nh hl hh,
  miss_low nl hl \/ miss_high nh hh -> range_m_error_reject nl nh hl hh = true.
Proof. exact range_m_error_rejects_5pct_l. Qed.
Print Assumptions range_m_error_rejects_5pct.
Theorem range_m_error_accepts_cover : forall nl nh hl hh,
  covers nl nh hl hh -> range_m_error_reject nl nh hl hh = false.
Proof. exact range_m_error_accepts_cover_l. Qed.
Print Assumptions range_m_error_accepts_cover.

Theorem range_get_value_rejects_5pct : forall f hl hh,
  miss_low f hl \/ miss_high f hh -> range_get_value_reject f f hl hh = true.
Proof. exact range_get_value_rejects_5pct_l. Qed.
Print Assumptions range_get_value_rejects_5pct.
Theorem range_get_value_accepts_cover : forall f hl hh,
  covers f f hl hh -> range_get_value_reject f f hl hh = false.
Proof. exact range_get_value_accepts_cover_l. Qed.
Print Assumptions range_get_value_accepts_cover.

Theorem range_apply_rejects_5pct : forall nl nh hl hh,
  miss_low nl hl \/ miss_high nh hh -> range_apply_reject nl nh hl hh = true.
Proof. exact range_apply_rejects_5pct_l. Qed.
Print Assumptions range_apply_rejects_5pct.
Theorem range_apply_accepts_cover : forall nl nh hl hh,
  covers nl nh hl hh -> range_apply_reject nl nh hl hh = false.
Proof. exact range_apply_accepts_cover_l. Qed.
Print Assumptions range_apply_accepts_cover.
