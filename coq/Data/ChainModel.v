(* Property C05, clause convert_chain: the abstract `conv` of ConvertModel instantiated, for 2 x 2
   objects, with the two-port functions that translate/conv2.py regenerates from
   /repo/src/vnaconv_*.c (coq/Gen/Conv2All.v, property C04).  No proofs in this file.

   `conv2_interp K zd fn n m z0` is the call of the vnaconv function named fn on the flattened
   matrix m with the impedance list z0:
     F2 x y  (vnaconv_<x>to<y>, the 2 x 2 groups of vnadata_convert.c): the generated function
             conv2 K x y on the matrix (m[0], m[1], m[2], m[3]) with z1 = z0[0], z2 = z0[1].  The
             functions of the groups without z0 argument are called by the model of
             vnadata_convert with the empty list; the generated definitions of those functions
             carry two unused impedance parameters, which then receive the filler `zd`
             (ChainProofs.conv2_noz0_indep: their result does not depend on them).
     FN x y  (vnaconv_<x>to<y>n, the N x N groups, selected between S, Z and Y whatever n is) AT
             n = 2: IDENTIFIED with the two-port function of the same name.  This identification is
             not a definition of the code: it is what Properties_C04n.c04_stozn_eq_stoz, ..ztosn..,
             ..stoyn.., ..ytosn.., ..ztoyn.., ..ytozn.. prove of the LU model of the n-port
             functions at n = 2 under their pivot hypotheses; it is not composed with those
             theorems here.  Chains in which at most one of the three types is S, Z or Y use F2
             functions only (ChainProofs.chain_two_port_functions_only) and do not depend on it.
     anything else (Zin functions, n <> 2): the empty list (not interpreted). *)
Require Import List ZArith Bool.
Require Import LV.Base.CField LV.Conv.ConvRel LV.Gen.Conv2All.
Require Import LV.Data.DataModel LV.Data.ConvertModel.
Import ListNotations.

Definition pt_of (t : vpt) : option ptype :=
  match t with
  | VS => Some PS | VT => Some PT | VU => Some PU | VZ => Some PZ | VY => Some PY | VH => Some PH
  | VG => Some PG | VA => Some PA | VB => Some PB | VUNDEF | VZIN => None
  end.

Definition vpt_of_pt (p : ptype) : vpt :=
  match p with
  | PS => VS | PT => VT | PU => VU | PZ => VZ | PY => VY | PH => VH | PG => VG | PA => VA | PB => VB
  end.

Section Chain.
Variable K : CField.
Variable zd : K.      (* filler for the unused impedance parameters of the functions without z0 *)

Definition m2_of_list (l : list K) : m2 K :=
  M2 (nth 0 l c0) (nth 1 l c0) (nth 2 l c0) (nth 3 l c0).
Definition list_of_m2 (m : m2 K) : list K := [m11 m; m12 m; m21 m; m22 m].

Definition call2 (x y : vpt) (m z0 : list K) : list K :=
  match pt_of x, pt_of y with
  | Some X, Some Y =>
      match conv2 K X Y with
      | Some f => list_of_m2 (f (m2_of_list m) (nth 0 z0 zd) (nth 1 z0 zd))
      | None => []
      end
  | _, _ => []
  end.

Definition conv2_interp (fn : fname) (n : nat) (m z0 : list K) : list K :=
  match n with
  | 2 => match fn with
         | F2 x y => call2 x y m z0
         | FN x y => call2 x y m z0
         | _ => []
         end
  | _ => []
  end.

End Chain.
