(* Property C05: lifting of facts about the abstract conversion on arrays (TwoObjModel.spec_conv_arr)
   to sequences of vnadata_convert calls on objects, for any value type and any interpretation
   `conv` of the vnaconv functions.  Used by Data/ChainNProofs.v. *)
Require Import List ZArith Bool Lia.
Require Import LV.Data.DataModel LV.Data.ArraySpec LV.Data.DataProofs LV.Data.RefineProofs
               LV.Data.ConvertModel LV.Data.ConvertRefine LV.Data.ConvertTheorems
               LV.Data.TwoObjModel LV.Data.TwoObjProofs.
Import ListNotations.

Lemma vpt_of_Z_code' t : vpt_of_Z (vpt_code t) = Some t.
Proof. destruct t; reflexivity. Qed.

Section Lift.
Variable V : Type.
Variables vzero vdef : V.
Variable conv : fname -> nat -> list V -> list V -> list V.
Notation vd := (vd V).
Notation arr := (arr V).
Notation Inv := (Inv V vzero vdef).
Notation abs := (ArraySpec.abs V).
Notation arr_eq := (ArraySpec.arr_eq V).
Notation spec_conv_arr := (spec_conv_arr V vzero vdef).
Notation convertf := (convert V vzero vdef fixed true conv).

Lemma convert_accepts_gen (d dout : vd) (same : bool) nt cs :
  Inv d -> Inv dout -> conv_spec (ty V d) nt = Some cs ->
  dim_ok (cs_dim cs) (rows V d) (cols V d) = true ->
  snd (convertf d dout same (vpt_code nt)) = ok V /\ Inv (fst (convertf d dout same (vpt_code nt))) /\
  arr_eq (abs (fst (convertf d dout same (vpt_code nt)))) (spec_conv_arr conv (abs d) nt cs).
Proof.
  intros HI HO Hs Hd.
  destruct (convert_result V vzero vdef true conv d dout same (vpt_code nt) nt cs HI HO (vpt_of_Z_code' nt) Hs Hd)
    as (R1 & R2 & R3).
  rewrite out_perf_repaired, conv_target_abs in R3. split; [exact R1|]. split; [exact R2|exact R3].
Qed.

(* two interpretations that agree on the calls made for array a give the same result *)
Lemma spec_conv_arr_agree (conv' : fname -> nat -> list V -> list V -> list V) (a : arr) nt cs :
  (forall i, i < a_freqs V a ->
     conv (cs_fn cs) (a_rows V a) (map (a_dat V a i) (seq 0 (a_rows V a * a_rows V a)))
          (if cs_z0 cs then map (a_z0_row V a i) (seq 0 (a_rows V a)) else []) =
     conv' (cs_fn cs) (a_rows V a) (map (a_dat V a i) (seq 0 (a_rows V a * a_rows V a)))
          (if cs_z0 cs then map (a_z0_row V a i) (seq 0 (a_rows V a)) else [])) ->
  spec_conv_arr conv a nt cs = spec_conv_arr conv' a nt cs.
Proof.
  intros H.
  assert (R : arr_conv_results V conv a cs = arr_conv_results V conv' a cs).
  { unfold arr_conv_results. apply map_ext_in. intros i Hi. apply in_seq in Hi. apply H. lia. }
  unfold TwoObjModel.spec_conv_arr, arr_conv_dat. rewrite R. reflexivity.
Qed.

Section Two.
Variables (d o1 o2 o3 : vd) (s1 s2 s3 : bool) (t1 t2 : vpt) (cs1 cs2 cs3 : convsel).
Hypothesis HI : Inv d.
Hypothesis H1 : Inv o1.
Hypothesis H2 : Inv o2.
Hypothesis Hs1 : conv_spec (ty V d) t1 = Some cs1.
Hypothesis Hd1 : dim_ok (cs_dim cs1) (rows V d) (cols V d) = true.
Hypothesis Hs2 : conv_spec t1 t2 = Some cs2.
Hypothesis Hd2 : dim_ok (cs_dim cs2) (out_rows V d (cs_kind cs1)) (out_cols V d (cs_kind cs1)) = true.

Let rb := convertf d o1 s1 (vpt_code t1).
Let rc := convertf (fst rb) o2 s2 (vpt_code t2).

Lemma two_steps :
  snd rb = ok V /\ snd rc = ok V /\ Inv (fst rc) /\
  arr_eq (abs (fst rc)) (spec_conv_arr conv (spec_conv_arr conv (abs d) t1 cs1) t2 cs2).
Proof.
  destruct (convert_accepts_gen d o1 s1 t1 cs1 HI H1 Hs1 Hd1) as (B1 & B2 & B3). fold rb in B1, B2, B3.
  pose proof B3 as (T1 & T2 & T3 & _).
  cbn [ArraySpec.abs a_ty a_rows a_cols TwoObjModel.spec_conv_arr] in T1, T2, T3.
  assert (Hs2' : conv_spec (ty V (fst rb)) t2 = Some cs2) by (rewrite T1; exact Hs2).
  assert (Hd2' : dim_ok (cs_dim cs2) (rows V (fst rb)) (cols V (fst rb)) = true) by (rewrite T2, T3; exact Hd2).
  destruct (convert_accepts_gen (fst rb) o2 s2 t2 cs2 B2 H2 Hs2' Hd2') as (C1 & C2 & C3). fold rc in C1, C2, C3.
  split; [exact B1|]. split; [exact C1|]. split; [exact C2|].
  eapply (arr_eq_trans V); [exact C3|]. apply (spec_conv_arr_ext V vzero vdef conv). exact B3.
Qed.

(* A -> t1 -> t2 against A -> t2 *)
Lemma chain_lift :
  Inv o3 -> conv_spec (ty V d) t2 = Some cs3 -> dim_ok (cs_dim cs3) (rows V d) (cols V d) = true ->
  arr_eq (spec_conv_arr conv (spec_conv_arr conv (abs d) t1 cs1) t2 cs2) (spec_conv_arr conv (abs d) t2 cs3) ->
  let rd := convertf d o3 s3 (vpt_code t2) in
  snd rb = ok V /\ snd rc = ok V /\ snd rd = ok V /\ arr_eq (abs (fst rc)) (abs (fst rd)).
Proof.
  intros H3 Hs3 Hd3 E rd.
  destruct two_steps as (B1 & C1 & _ & C3).
  destruct (convert_accepts_gen d o3 s3 t2 cs3 HI H3 Hs3 Hd3) as (E1 & _ & E3). fold rd in E1, E3.
  split; [exact B1|]. split; [exact C1|]. split; [exact E1|].
  eapply (arr_eq_trans V); [exact C3|]. eapply (arr_eq_trans V); [exact E|]. apply (arr_eq_sym V). exact E3.
Qed.

(* A -> t1 -> back against A itself *)
Lemma roundtrip_lift :
  arr_eq (spec_conv_arr conv (spec_conv_arr conv (abs d) t1 cs1) t2 cs2) (abs d) ->
  snd rb = ok V /\ snd rc = ok V /\ arr_eq (abs (fst rc)) (abs d).
Proof.
  intros E. destruct two_steps as (B1 & C1 & _ & C3).
  split; [exact B1|]. split; [exact C1|]. eapply (arr_eq_trans V); [exact C3|exact E].
Qed.
End Two.
End Lift.
