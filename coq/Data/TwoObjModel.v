(* Properties C15 / C05: a machine of any number of vnadata_t objects with vnadata_convert between
   them (dst = src allowed), and the ABSTRACT machine over the arrays of ArraySpec in which
   vnadata_convert is one abstract operation.  No proofs in this file.

   Concrete machine.  A state maps object identifiers (nat) to DataModel states.  The map is a
   total function that is `vd_alloc` (the result of vnadata_alloc) outside a finite set: an object
   exists "since the beginning" and is fresh until first used, which is indistinguishable from
   calling vnadata_alloc just before the first use.  Operations: a container operation on one
   object (executed by DataModel.step_chk, the step that faults on a short caller vector),
   vnadata_convert(src, dst, type) executed by ConvertModel.convert (`same` := src = dst), and
   vnadata_free + vnadata_alloc of one object.  `conv` is the Section variable of ConvertModel: the
   symbolic application of a vnaconv function; Data/ChainModel.v instantiates it.
   The model is the code as it is in /repo now: quirks = `fixed`, repair DD2 present
   (dd2_fixed = true: the output is put into per-frequency mode whenever the input is).

   Abstract machine.  A state maps identifiers to arrays; a container operation is
   ArraySpec.spec_step; vnadata_convert is `spec_convert`, written from vnadata(3) on arrays alone:
   refused (invalid type code, pair without a conversion, dimensions that do not fit the
   conversion) = failure, one error report, destination unchanged; accepted = the destination
   BECOMES `spec_conv_arr src` whatever it held before: new type, n x n or 1 x n, the source's
   frequencies, z0 mode, impedances and save options, and at every frequency f the result of the
   selected function on frequency f's matrix with frequency f's impedances; every cell outside the
   result is 0 (what a later resize exposes). *)
Require Import List ZArith Bool.
Require Import LV.Data.DataModel LV.Data.ArraySpec LV.Data.ConvertModel.
Import ListNotations.

Section TwoObj.
Variable V : Type.
Variables vzero vdef : V.
Variable conv : fname -> nat -> list V -> list V -> list V.

Notation vd := (vd V).
Notation arr := (arr V).

(* ---------------------------------------------------------------- abstract conversion *)
Definition a_z0_row (a : arr) (f : nat) : nat -> V := if a_perf V a then a_fz0 V a f else a_z0 V a.

Definition arr_conv_results (a : arr) (cs : convsel) : list (list V) :=
  let n := a_rows V a in
  map (fun f => conv (cs_fn cs) n (map (a_dat V a f) (seq 0 (n * n)))
                     (if cs_z0 cs then map (a_z0_row a f) (seq 0 n) else []))
      (seq 0 (a_freqs V a)).

Definition arr_conv_len (a : arr) (cs : convsel) : nat :=
  match cs_kind cs with KXtoI => a_rows V a | _ => a_rows V a * a_rows V a end.

Definition arr_conv_dat (a : arr) (cs : convsel) : nat -> nat -> V :=
  match cs_kind cs with
  | KSame => a_dat V a
  | _ => fun i j => if Nat.ltb i (a_freqs V a) && Nat.ltb j (arr_conv_len a cs)
                    then nth j (nth i (arr_conv_results a cs) []) vzero else vzero
  end.

Definition arr_out_rows (a : arr) (k : ckind) : nat := match k with KXtoI => 1 | _ => a_rows V a end.
Definition arr_out_cols (a : arr) (k : ckind) : nat :=
  match k with
  | KXtoI => if Nat.ltb (a_rows V a) (a_cols V a) then a_rows V a else a_cols V a
  | _ => a_cols V a end.

(* the array an accepted conversion of a to type nt produces *)
Definition spec_conv_arr (a : arr) (nt : vpt) (cs : convsel) : arr :=
  mkarr V nt (arr_out_rows a (cs_kind cs)) (arr_out_cols a (cs_kind cs)) (a_freqs V a) (a_perf V a)
        (a_fv V a) (arr_conv_dat a cs)
        (if a_perf V a then (fun _ => vdef) else a_z0 V a) (a_fz0 V a)
        (a_ftype V a) (a_fmt V a) (a_fprec V a) (a_dprec V a).

(* vnadata_convert on arrays: (new destination, outcome) *)
Definition spec_convert (src dst : arr) (ntz : Z) : arr * outcome V :=
  match vpt_of_Z ntz with
  | None => (dst, fail V)
  | Some nt =>
    match conv_spec (a_ty V src) nt with
    | None => (dst, fail V)
    | Some cs => if dim_ok (cs_dim cs) (a_rows V src) (a_cols V src)
                 then (spec_conv_arr src nt cs, ok V) else (dst, fail V)
    end
  end.

(* ---------------------------------------------------------------- the machines *)
Inductive nop := NOn (i : nat) (o : op V) | NConv (src dst : nat) (nt : Z) | NFree (i : nat).

Definition nstate := nat -> vd.
Definition astate := nat -> arr.

Definition nput {A} (s : nat -> A) (i : nat) (x : A) : nat -> A := fun k => if Nat.eqb k i then x else s k.

Definition ninit : nstate := fun _ => vd_alloc V vzero vdef.
Definition ainit : astate := fun _ => arr_alloc V vzero vdef.

Definition nstep (s : nstate) (m : nop) : nstate * outcome V :=
  match m with
  | NOn i o => let '(d, r) := step_chk V vzero vdef fixed (s i) o in (nput s i d, r)
  | NConv a b nt =>
      let '(d, r) := convert V vzero vdef fixed true conv (s a) (s b) (Nat.eqb a b) nt in (nput s b d, r)
  | NFree i => (nput s i (vd_alloc V vzero vdef), ok V)
  end.

Definition astep (s : astate) (m : nop) : astate * outcome V :=
  match m with
  | NOn i o => let '(a, r) := spec_step V vzero vdef (s i) o in (nput s i a, r)
  | NConv a b nt => let '(x, r) := spec_convert (s a) (s b) nt in (nput s b x, r)
  | NFree i => (nput s i (arr_alloc V vzero vdef), ok V)
  end.

(* the same machine as the op-script correspondence executes it (ocaml/drv_data.ml, k = 4 object
   slots in harness/data_harness.c): container operations by DataModel.step - the harness, as the
   caller, completes every vector to the documented length with zeros, which is the `nth` default
   of step - and the quirks / DD2 variant as parameters, so that a difference can be classified by
   re-running the model as found.  TwoObjProofs.kstep_is_nstep: with quirks `fixed`, DD2 repaired
   and vectors of the documented length it is nstep. *)
Definition kstep (Q : quirks) (dd2 : bool) (s : nstate) (m : nop) : nstate * outcome V :=
  match m with
  | NOn i o => let '(d, r) := step V vzero vdef Q (s i) o in (nput s i d, r)
  | NConv a b nt =>
      let '(d, r) := convert V vzero vdef Q dd2 conv (s a) (s b) (Nat.eqb a b) nt in (nput s b d, r)
  | NFree i => (nput s i (vd_alloc V vzero vdef), ok V)
  end.

Definition nrun (s : nstate) (l : list nop) : nstate := fold_left (fun s m => fst (nstep s m)) l s.
Definition arun (s : astate) (l : list nop) : astate := fold_left (fun s m => fst (astep s m)) l s.

Fixpoint ntrace (s : nstate) (l : list nop) : list (outcome V) :=
  match l with
  | [] => []
  | m :: r => snd (nstep s m) :: ntrace (fst (nstep s m)) r
  end.
Fixpoint atrace (s : astate) (l : list nop) : list (outcome V) :=
  match l with
  | [] => []
  | m :: r => snd (astep s m) :: atrace (fst (astep s m)) r
  end.

(* every vector handed to a vector setter has the documented length at the moment it is passed
   (stated on the abstract machine) *)
Definition nvec_ok (s : astate) (m : nop) : Prop :=
  match m with NOn i o => vec_ok V (s i) o | _ => True end.
Fixpoint nvecs_ok (s : astate) (l : list nop) : Prop :=
  match l with
  | [] => True
  | m :: r => nvec_ok s m /\ nvecs_ok (fst (astep s m)) r
  end.

(* ---------------------------------------------------------------- the two-object machine of ConvertModel inside this one *)
(* object `false` is identifier 0, object `true` identifier 1; MReset = free + alloc of both *)
Definition id_of (i : bool) : nat := if i then 1 else 0.
Definition embed_op (m : mop V) : list nop :=
  match m with
  | MOn _ i o => [NOn (id_of i) o]
  | MConv _ a b nt => [NConv (id_of a) (id_of b) nt]
  | MReset _ => [NFree 0; NFree 1]
  end.
Definition embed_state (s : mstate V) : nstate :=
  fun k => match k with 0 => fst s | 1 => snd s | _ => vd_alloc V vzero vdef end.

End TwoObj.
