(* Concrete instances for the format-language theorems: the hypotheses of every implication are met by
   non-trivial data, the documented example parses, refusals of each class, the checked buffer of the
   printer at its tightest. *)
Require Import List NArith Bool Lia Ascii String.
Import ListNotations.
Require Import LV.Files.NpdScan LV.Data.FormatModel LV.Data.FormatProofs.
Open Scope list_scope.
Open Scope N_scope.

Definition E := Build_entry.

(* the example of vnadata(3) *)
Example ex_manual_example : forall sgn, parse sgn (bs "Zri,SdB,Zinma") = POk [E PZ RI; E PS DB; E PZIN MA].
Proof. destruct sgn; reflexivity. Qed.

(* case, white space of every kind, also inside a specifier; the optional ri; bare coordinates *)
Example ex_decorated : forall sgn,
  parse sgn ([32] ++ bs "s R" ++ [9] ++ bs "i ," ++ [10; 11; 12; 13] ++ bs "ZIN,v S w R, Db,t") =
  POk [E PS RI; E PZIN RI; E PS VSWR; E PUNDEF DB; E PT RI].
Proof. destruct sgn; reflexivity. Qed.

(* what the C function sees ends at the first NUL *)
Example ex_nul : forall sgn, parse sgn (bs "Sma" ++ [0] ++ bs ",junk") = POk [E PS MA].
Proof. destruct sgn; reflexivity. Qed.

Example ex_refused_specifiers : forall sgn,
  parse sgn (bs "zindb") = PErr (BadSpec (bs "zindb")) /\
  parse sgn (bs "S,,Z") = PErr (BadSpec []) /\
  parse sgn [] = PErr (BadSpec []) /\
  parse sgn (bs "Sri,") = PErr (BadSpec []) /\
  parse sgn (bs "Sri, IL ri") = PErr (BadSpec (bs "ilri")) /\
  parse sgn (bs "sr") = PErr (BadSpec (bs "sr")) /\
  parse sgn (bs "x,S" ++ [127]) = PErr (BadChar 127).
Proof. destruct sgn; repeat split; reflexivity. Qed.

(* a byte above 0x7f: refused as part of a specifier when char is signed, as a byte after fix DN90 *)
Example ex_high_byte :
  parse true (bs "S" ++ [233]) = PErr (BadSpec [115; 233]) /\
  parse false (bs "S" ++ [233]) = PErr (BadChar 233).
Proof. split; reflexivity. Qed.

Example ex_print : print [E PZ RI; E PS DB; E PZIN MA; E PUNDEF DB; E PS VSWR] = PStr (bs "Zri,SdB,Zinma,dB,VSWR").
Proof. reflexivity. Qed.

(* a vector parse_format cannot produce makes _vnadata_format_to_name reach abort() *)
Example ex_print_abort : print [E PZIN DB] = PAbort /\ producible (E PZIN DB) = false.
Proof. split; reflexivity. Qed.

(* every producible descriptor, in one list *)
Definition all_ptypes := [PUNDEF; PS; PT; PU; PZ; PY; PH; PG; PA; PB; PZIN].
Definition all_forms := [DB; MA; RI; PRC; PRL; SRC; SRL; IL; RL; VSWR].
Definition all_producible : list entry :=
  filter producible (flat_map (fun p => map (fun f => E p f) all_forms) all_ptypes).

Example ex_all_producible_count : List.length all_producible = 39%nat.
Proof. reflexivity. Qed.

Example ex_print_parse_all : forall sgn,
  exists b, print all_producible = PStr b /\ parse sgn b = POk all_producible /\ print_checked all_producible = Some b.
Proof. destruct sgn; eexists; repeat split; vm_compute; reflexivity. Qed.

(* the string buffer at its tightest: n names of MAX_FORMAT bytes need exactly n * (MAX_FORMAT + 1) bytes *)
Definition zinris (n : nat) : list entry := repeat (E PZIN RI) n.
Example ex_checked_tight : print_checked (zinris 40) = match print (zinris 40) with PStr b => Some b | _ => None end
  /\ List.length (match print (zinris 40) with PStr b => b | _ => [] end) = 239%nat
  /\ string_alloc (zinris 40) = 240%nat.
Proof. vm_compute. repeat split; reflexivity. Qed.

(* one byte less per descriptor and the writes leave the buffer: the checked model does detect an overrun *)
Example ex_checked_detects :
  run_writes (repeat None (3 * MAX_FORMAT)) (print_writes 0 (repeat (bs "Zinri") 3)) = None /\
  run_writes (repeat None (3 * (MAX_FORMAT + 1))) (print_writes 0 (repeat (bs "Zinri") 3)) <> None.
Proof. split; vm_compute; [reflexivity|discriminate]. Qed.

(* the copy buffer: exactly length + 1 bytes are written when nothing is skipped *)
Example ex_copy_tight : forall sgn, exists fs, pass1 sgn (bs "a,b,,c") = inr fs /\
  List.length (copy_bytes fs) = 7%nat /\ copy_fits (bs "a,b,,c") fs = true.
Proof. destruct sgn; eexists; repeat split; vm_compute; reflexivity. Qed.

(* a refused call on an object that has something to lose *)
Definition st_sri_zin : fstate := {| f_vec := [E PS RI; E PZIN MA]; f_str := Some (bs "Sri,Zinma") |}.

Example ex_inv : inv st_sri_zin.
Proof. split; [repeat constructor|]. eexists; split; reflexivity. Qed.

Example ex_refused_unchanged : forall sgn,
  set_format sgn None st_sri_zin (AStr (bs "Zri,zindb")) = Ret false (Some (BadSpec (bs "zindb"))) st_sri_zin /\
  set_format sgn None st_sri_zin (AStr (bs "Z" ++ [127])) = Ret false (Some (BadChar 127)) st_sri_zin.
Proof. destruct sgn; split; reflexivity. Qed.

(* a failure at each of the three allocation requests; the third one after the new vector was installed *)
Example ex_alloc_failures : forall sgn k, (k < 3)%nat ->
  set_format sgn (Some k) st_sri_zin (AStr (bs "T,U")) = Ret false (Some NoMem) st_sri_zin.
Proof. intros sgn k H. destruct sgn; do 3 (destruct k as [|k]; [reflexivity|]); lia. Qed.

Example ex_accepted : forall sgn,
  set_format sgn None st_sri_zin (AStr (bs " t ,u MA")) = Ret true None {| f_vec := [E PT RI; E PU MA]; f_str := Some (bs "Tri,Uma") |}
  /\ set_format sgn (Some 5%nat) st_sri_zin ANull = Ret true None init_state.
Proof. destruct sgn; split; reflexivity. Qed.

Example ex_simple : set_simple_format None st_sri_zin PZIN PRC = Ret true None {| f_vec := [E PZIN PRC]; f_str := Some (bs "PRC") |}
  /\ set_simple_format (Some 1%nat) st_sri_zin PZIN PRC = Ret false (Some NoMem) st_sri_zin
  /\ set_simple_format None st_sri_zin PZIN DB = Abort.
Proof. repeat split; reflexivity. Qed.

Example ex_history : forall sgn,
  run_calls sgn init_state
    [CSet None (AStr (bs "Sri,IL")); CSet (Some 2%nat) (AStr (bs "Zma")); CSet None (AStr (bs "q"));
     CSimple None PY MA; CSet None ANull; CSet None (AStr (bs "rl , rI"))]
  = Some {| f_vec := [E PS RL; E PUNDEF RI]; f_str := Some (bs "RL,ri") |}.
Proof. destruct sgn; reflexivity. Qed.

(* the grammars are inhabited: the manual's example is a sentence of the manual's grammar ... *)
Ltac man_spec_here w :=
  exists [], w, []; split; [reflexivity|split; [constructor|split; [constructor|]]].

Example ex_man_list : man_list (bs "Zri,SdB,Zinma") [E PZ RI; E PS DB; E PZIN MA].
Proof.
  apply (sl_cons man_spec (bs "Zri") _ (bs "SdB,Zinma")).
  { man_spec_here (bs "Zri"). apply (mw_mat (ch "z") PZ false (bs "ri") RI); constructor. }
  apply (sl_cons man_spec (bs "SdB") _ (bs "Zinma")).
  { man_spec_here (bs "SdB"). apply (mw_mat (ch "s") PS true (bs "db") DB); constructor. reflexivity. }
  apply sl_one. man_spec_here (bs "Zinma"). apply (mw_zin (bs "ma") MA). constructor.
Qed.

(* ... and a string with white space inside a specifier is a sentence of the code's grammar *)
Example ex_code_list : code_list (bs "Z d B, r i") [E PZ DB; E PUNDEF RI].
Proof.
  apply (sl_cons code_spec (bs "Z d B") _ (bs " r i")).
  { unfold code_spec. apply (cw_mat (ch "z") PZ false (bs "db") DB); constructor. reflexivity. }
  apply sl_one. unfold code_spec. apply (cw_bare (bs "ri") RI); [constructor|discriminate].
Qed.

Example ex_insensitive : forall sgn, canon sgn (bs " zIN , s") = Some (bs "Zinri,Sri") /\ canon sgn (bs "Zinri,Sri") = Some (bs "Zinri,Sri").
Proof. destruct sgn; split; reflexivity. Qed.
