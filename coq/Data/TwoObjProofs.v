(* Properties C15 / C05: the machine of several vnadata_t objects with conversions between them
   (Data/TwoObjModel.v) refines the abstract machine over arrays in which vnadata_convert is the
   single abstract operation `spec_convert`.  Lemmas; the property theorems are in
   Properties_C15.v / Properties_C05.v. *)
Require Import List ZArith Bool Lia.
Require Import LV.Data.DataModel LV.Data.ArraySpec LV.Data.DataProofs LV.Data.RefineProofs
               LV.Data.ConvertModel LV.Data.ConvertRefine LV.Data.ConvertTheorems LV.Data.TwoObjModel.
Import ListNotations.

Section TwoObjProofs.
Variable V : Type.
Variables vzero vdef : V.
Variable conv : fname -> nat -> list V -> list V -> list V.

Notation vd := (vd V).
Notation arr := (arr V).
Notation Inv := (Inv V vzero vdef).
Notation abs := (ArraySpec.abs V).
Notation arr_eq := (ArraySpec.arr_eq V).
Notation refines := (refines V).
Notation convertf := (convert V vzero vdef fixed true conv).
Notation spec_convert := (spec_convert V vzero vdef conv).
Notation spec_conv_arr := (spec_conv_arr V vzero vdef conv).
Notation nstep := (nstep V vzero vdef conv).
Notation astep := (astep V vzero vdef conv).
Notation nrun := (nrun V vzero vdef conv).
Notation arun := (arun V vzero vdef conv).
Notation ntrace := (ntrace V vzero vdef conv).
Notation atrace := (atrace V vzero vdef conv).
Notation ninit := (ninit V vzero vdef).
Notation ainit := (ainit V vzero vdef).
Notation nvec_ok := (nvec_ok V).
Notation nvecs_ok := (nvecs_ok V vzero vdef conv).

(* ---------------------------------------------------------------- the abstract conversion *)
(* the target array of ConvertRefine, computed from the logical contents of the source alone *)
Lemma conv_target_abs d nt cs :
  conv_target V vzero vdef conv d nt cs (per_f V d) = spec_conv_arr (abs d) nt cs.
Proof. reflexivity. Qed.

Lemma out_perf_repaired d cs same : out_perf V true d cs same = per_f V d.
Proof. destruct same; reflexivity. Qed.

(* the abstract conversion depends on the logical contents only *)
Lemma arr_conv_results_ext a b cs :
  arr_eq a b -> arr_conv_results V conv a cs = arr_conv_results V conv b cs.
Proof.
  intros (E1 & E2 & E3 & E4 & E5 & Efv & Edat & Ez0 & Efz0 & _).
  unfold arr_conv_results. rewrite E2, E4. apply map_ext. intros f.
  f_equal.
  - apply map_ext. intros j. apply Edat.
  - destruct (cs_z0 cs); [|reflexivity]. apply map_ext. intros j. unfold a_z0_row. rewrite <- E5.
    destruct (a_perf V a) eqn:P; [apply Efz0|apply Ez0]; reflexivity.
Qed.

Lemma spec_conv_arr_ext a b nt cs :
  arr_eq a b -> arr_eq (spec_conv_arr a nt cs) (spec_conv_arr b nt cs).
Proof.
  intros H. pose proof (arr_conv_results_ext a b cs H) as R.
  destruct H as (E1 & E2 & E3 & E4 & E5 & Efv & Edat & Ez0 & Efz0 & E6 & E7 & E8 & E9).
  unfold ArraySpec.arr_eq, TwoObjModel.spec_conv_arr, arr_out_rows, arr_out_cols, arr_conv_dat, arr_conv_len.
  cbn [a_ty a_rows a_cols a_freqs a_perf a_fv a_dat a_z0 a_fz0 a_ftype a_fmt a_fprec a_dprec].
  rewrite R, E2, E3, E4, E5, E6, E7, E8, E9.
  repeat split; auto.
  - intros i j. destruct (cs_kind cs); [apply Edat|reflexivity|reflexivity].
  - intros P j. rewrite P. apply Ez0. rewrite E5. exact P.
  - intros P i j. apply Efz0. rewrite E5. exact P.
Qed.

Lemma spec_convert_ext a a' b b' ntz :
  arr_eq a a' -> arr_eq b b' ->
  snd (spec_convert a b ntz) = snd (spec_convert a' b' ntz) /\
  arr_eq (fst (spec_convert a b ntz)) (fst (spec_convert a' b' ntz)).
Proof.
  intros Ha Hb. pose proof Ha as (E1 & E2 & E3 & _).
  unfold TwoObjModel.spec_convert. rewrite E1, E2, E3.
  destruct (vpt_of_Z ntz) as [nt|]; [|split; [reflexivity|exact Hb]].
  destruct (conv_spec (a_ty V a') nt) as [cs|]; [|split; [reflexivity|exact Hb]].
  destruct (dim_ok (cs_dim cs) (a_rows V a') (a_cols V a')); [|split; [reflexivity|exact Hb]].
  split; [reflexivity|]. apply spec_conv_arr_ext. exact Ha.
Qed.

(* vnadata_convert refines spec_convert: for valid objects related to two arrays, the outcome is
   the one the abstract conversion predicts and the new destination is related to the abstract
   result.  `same = true` is the call with dst = src (the destination argument is then the source). *)
Theorem convert_refines (d dout : vd) (same : bool) (ntz : Z) (A B : arr) :
  Inv d -> Inv dout -> refines d A -> refines (if same then d else dout) B ->
  snd (convertf d dout same ntz) = snd (spec_convert A B ntz) /\
  refines (fst (convertf d dout same ntz)) (fst (spec_convert A B ntz)) /\
  Inv (fst (convertf d dout same ntz)).
Proof.
  intros HI HO RA RB.
  assert (HD : Inv (if same then d else dout)) by (destruct same; assumption).
  destruct (spec_convert_ext (abs d) A (abs (if same then d else dout)) B ntz RA RB) as [X1 X2].
  rewrite <- X1. unfold RefineProofs.refines.
  enough (G : snd (convertf d dout same ntz) = snd (spec_convert (abs d) (abs (if same then d else dout)) ntz) /\
              arr_eq (abs (fst (convertf d dout same ntz)))
                     (fst (spec_convert (abs d) (abs (if same then d else dout)) ntz)) /\
              Inv (fst (convertf d dout same ntz))).
  { destruct G as (G1 & G2 & G3). split; [exact G1|]. split; [|exact G3].
    eapply (arr_eq_trans V); [exact G2|exact X2]. }
  clear X1 X2 RA RB A B.
  unfold TwoObjModel.spec_convert. cbn [ArraySpec.abs a_ty a_rows a_cols].
  destruct (vpt_of_Z ntz) as [nt|] eqn:Ht.
  2:{ unfold convert. rewrite Ht. cbn [fst snd]. split; [reflexivity|]. split; [apply refines_refl|exact HD]. }
  destruct (conv_spec (ty V d) nt) as [cs|] eqn:Hs.
  2:{ unfold convert. rewrite Ht, Hs. cbn [fst snd]. split; [reflexivity|]. split; [apply refines_refl|exact HD]. }
  destruct (dim_ok (cs_dim cs) (rows V d) (cols V d)) eqn:Hd.
  2:{ unfold convert. rewrite Ht, Hs, Hd. cbn [negb fst snd]. split; [reflexivity|]. split; [apply refines_refl|exact HD]. }
  destruct (convert_result V vzero vdef true conv d dout same ntz nt cs HI HO Ht Hs Hd) as (R1 & R2 & R3).
  rewrite out_perf_repaired, conv_target_abs in R3.
  cbn [fst snd]. split; [exact R1|]. split; [exact R3|exact R2].
Qed.

(* ---------------------------------------------------------------- the machines *)
Definition NInv (s : nstate V) : Prop := forall i, Inv (s i).
Definition NRef (s : nstate V) (A : astate V) : Prop := forall i, refines (s i) (A i).

Lemma ninit_inv : NInv ninit.
Proof. intros i. apply inv_alloc. Qed.

Lemma ref_alloc : refines (vd_alloc V vzero vdef) (arr_alloc V vzero vdef).
Proof.
  unfold RefineProofs.refines, ArraySpec.arr_eq, ArraySpec.abs, arr_alloc, vd_alloc. cbn. repeat split; auto.
Qed.

Lemma ninit_ref : NRef ninit ainit.
Proof. intros i. apply ref_alloc. Qed.

Lemma nput_inv s i d : NInv s -> Inv d -> NInv (nput s i d).
Proof. intros H Hd k. unfold nput. destruct (Nat.eqb k i); [exact Hd|apply H]. Qed.

Lemma nput_ref s A i d a : NRef s A -> refines d a -> NRef (nput s i d) (nput A i a).
Proof. intros H Hd k. unfold nput. destruct (Nat.eqb k i); [exact Hd|apply H]. Qed.

(* the invariant of every object is preserved by every step, whatever the arguments *)
Lemma nstep_inv s m : NInv s -> NInv (fst (nstep s m)).
Proof.
  intros HS. destruct m as [i o|a b nt|i]; unfold TwoObjModel.nstep.
  - pose proof (step_chk_inv V vzero vdef (s i) o (HS i)) as H.
    destruct (step_chk V vzero vdef fixed (s i) o) as [d r]. cbn [fst] in *. apply nput_inv; assumption.
  - destruct (convert_total V vzero vdef true conv (s a) (s b) (Nat.eqb a b) nt (HS a) (HS b)) as [H _].
    destruct (convertf (s a) (s b) (Nat.eqb a b) nt) as [d r]. cbn [fst] in *. apply nput_inv; assumption.
  - cbn [fst]. apply nput_inv; [exact HS|apply inv_alloc].
Qed.

Lemma nrun_inv l : forall s, NInv s -> NInv (nrun s l).
Proof.
  induction l as [|m l IH]; intros s HS; [exact HS|].
  cbn [TwoObjModel.nrun fold_left]. apply IH. apply nstep_inv. exact HS.
Qed.

Theorem nrun_inv_init l i : Inv (nrun ninit l i).
Proof. apply nrun_inv. apply ninit_inv. Qed.

(* the only access outside an allocation, in any state of any history: a container operation that
   reads past the end of a caller's vector shorter than documented *)
Theorem nstep_fault_iff s m : NInv s ->
  (o_ret V (snd (nstep s m)) = RFault <->
   exists i o, m = NOn V i o /\ short_vector V (s i) o = true).
Proof.
  intros HS. destruct m as [i o|a b nt|i]; unfold TwoObjModel.nstep.
  - pose proof (step_chk_fault_iff V vzero vdef (s i) o (HS i)) as H.
    destruct (step_chk V vzero vdef fixed (s i) o) as [d r]. cbn [snd] in *. split.
    + intros F. exists i, o. split; [reflexivity|apply H; exact F].
    + intros (i' & o' & E & S). injection E as <- <-. apply H. exact S.
  - destruct (convert_total V vzero vdef true conv (s a) (s b) (Nat.eqb a b) nt (HS a) (HS b)) as [_ H].
    destruct (convertf (s a) (s b) (Nat.eqb a b) nt) as [d r]. cbn [snd] in *. split.
    + intros F. contradiction.
    + intros (i' & o' & E & _). discriminate E.
  - cbn [snd o_ret ok]. split; [discriminate|]. intros (i' & o' & E & _). discriminate E.
Qed.

(* one step: same outcome, related states *)
Theorem nstep_refines s A m :
  NInv s -> NRef s A -> nvec_ok A m ->
  snd (nstep s m) = snd (astep A m) /\ NRef (fst (nstep s m)) (fst (astep A m)).
Proof.
  intros HS HR L. destruct m as [i o|a b nt|i]; unfold TwoObjModel.nstep, TwoObjModel.astep.
  - destruct (sim_chk_step V vzero vdef (s i) (A i) o (HS i) (HR i) L) as [E R].
    destruct (step_chk V vzero vdef fixed (s i) o) as [d r].
    destruct (spec_step V vzero vdef (A i) o) as [x r']. cbn [fst snd] in *.
    split; [exact E|apply nput_ref; assumption].
  - assert (RB : refines (if Nat.eqb a b then s a else s b) (A b)).
    { destruct (Nat.eqb_spec a b) as [->|_]; apply HR. }
    destruct (convert_refines (s a) (s b) (Nat.eqb a b) nt (A a) (A b) (HS a) (HS b) (HR a) RB) as (E & R & _).
    destruct (convertf (s a) (s b) (Nat.eqb a b) nt) as [d r].
    destruct (spec_convert (A a) (A b) nt) as [x r']. cbn [fst snd] in *.
    split; [exact E|apply nput_ref; assumption].
  - cbn [fst snd]. split; [reflexivity|apply nput_ref; [exact HR|apply ref_alloc]].
Qed.

(* every history: same outcomes, related final states *)
Theorem ntrace_refines l : forall s A,
  NInv s -> NRef s A -> nvecs_ok A l ->
  ntrace s l = atrace A l /\ NRef (nrun s l) (arun A l).
Proof.
  induction l as [|m l IH]; intros s A HS HR L; [split; [reflexivity|exact HR]|].
  destruct L as [Lm Ll].
  destruct (nstep_refines s A m HS HR Lm) as [E R].
  destruct (IH _ _ (nstep_inv s m HS) R Ll) as [E' R'].
  cbn [TwoObjModel.ntrace TwoObjModel.atrace TwoObjModel.nrun TwoObjModel.arun fold_left].
  split; [rewrite E, E'; reflexivity|exact R'].
Qed.

Theorem machine_refines_abstract l :
  nvecs_ok ainit l ->
  ntrace ninit l = atrace ainit l /\ NRef (nrun ninit l) (arun ainit l).
Proof. intros L. apply ntrace_refines; [apply ninit_inv|apply ninit_ref|exact L]. Qed.

(* ---------------------------------------------------------------- consequences *)
(* the container theorems of C15 apply to every object after every interleaved history: any
   further history of container operations on object i yields the outcomes that the abstract
   array predicts from the abstract state of the machine *)
Theorem interleaved_object_trace l i ops :
  nvecs_ok ainit l -> vecs_ok V vzero vdef (arun ainit l i) ops ->
  trace_chk V vzero vdef (nrun ninit l i) ops = spec_trace V vzero vdef (arun ainit l i) ops.
Proof.
  intros L Lo. destruct (machine_refines_abstract l L) as [_ R].
  apply sim_chk_trace; [apply nrun_inv_init|apply R|exact Lo].
Qed.

(* on the abstract machine an accepted conversion produces the same array whatever the
   destination (the object itself or any other object) ... *)
Lemma astep_conv_dst A a b ntz :
  fst (astep A (NConv V a b ntz)) b = fst (spec_convert (A a) (A b) ntz) /\
  snd (astep A (NConv V a b ntz)) = snd (spec_convert (A a) (A b) ntz).
Proof.
  unfold TwoObjModel.astep. destruct (spec_convert (A a) (A b) ntz) as [x r]. cbn [fst snd].
  unfold nput. rewrite Nat.eqb_refl. split; reflexivity.
Qed.

Lemma spec_convert_dst_irrelevant x y y' ntz :
  o_ret V (snd (spec_convert x y ntz)) = ROk ->
  fst (spec_convert x y ntz) = fst (spec_convert x y' ntz).
Proof.
  unfold TwoObjModel.spec_convert.
  destruct (vpt_of_Z ntz) as [nt|]; [|intros F; discriminate F].
  destruct (conv_spec (a_ty V x) nt) as [cs|]; [|intros F; discriminate F].
  destruct (dim_ok (cs_dim cs) (a_rows V x) (a_cols V x)); [reflexivity|intros F; discriminate F].
Qed.

(* ... so on the concrete machine, in every state of every history, the result of an accepted
   conversion in place and the result of the same conversion into any other object (whatever it
   held) have the same logical contents: in place = out of place *)
Theorem conv_inplace_eq_outofplace_everywhere l a b ntz :
  nvecs_ok ainit l ->
  let s := nrun ninit l in
  o_ret V (snd (nstep s (NConv V a a ntz))) = ROk ->
  arr_eq (abs (fst (nstep s (NConv V a a ntz)) a)) (abs (fst (nstep s (NConv V a b ntz)) b)).
Proof.
  intros L s F. destruct (machine_refines_abstract l L) as [_ R]. fold s in R.
  assert (HS : NInv s) by (intros i; apply nrun_inv_init).
  destruct (nstep_refines s (arun ainit l) (NConv V a a ntz) HS R I) as [E1 R1].
  destruct (nstep_refines s (arun ainit l) (NConv V a b ntz) HS R I) as [E2 R2].
  specialize (R1 a). specialize (R2 b). unfold RefineProofs.refines in R1, R2.
  destruct (astep_conv_dst (arun ainit l) a a ntz) as [X1 Y1].
  destruct (astep_conv_dst (arun ainit l) a b ntz) as [X2 Y2].
  rewrite X1 in R1. rewrite X2 in R2. rewrite E1, Y1 in F.
  rewrite (spec_convert_dst_irrelevant _ _ (arun ainit l b) _ F) in R1.
  eapply (arr_eq_trans V); [exact R1|apply (arr_eq_sym V); exact R2].
Qed.

(* ---------------------------------------------------------------- the two-object machine of ConvertModel *)
(* (the machine the extracted driver of the op-script correspondence executes) is this machine
   restricted to the identifiers 0 and 1, for callers that supply vectors of the documented
   length *)
Definition mshort (s : mstate V) (m : mop V) : bool :=
  match m with MOn _ i o => short_vector V (sel V s i) o | _ => false end.

Lemma embed_sel s i : embed_state V vzero vdef s (id_of i) = sel V s i.
Proof. destruct i; reflexivity. Qed.

Lemma embed_put s i d k :
  embed_state V vzero vdef (put V s i d) k = nput (embed_state V vzero vdef s) (id_of i) d k.
Proof.
  destruct s as [s0 s1], i; unfold nput, embed_state, put, id_of; cbn [fst snd];
    destruct k as [|[|k]]; reflexivity.
Qed.

Lemma eqb_id_of a b : Nat.eqb (id_of a) (id_of b) = Bool.eqb a b.
Proof. destruct a, b; reflexivity. Qed.

Theorem two_object_machine_embeds s m :
  mshort s m = false ->
  let ns := embed_state V vzero vdef s in
  let r := mstep V vzero vdef fixed true conv s m in
  (forall k, nrun ns (embed_op V m) k = embed_state V vzero vdef (fst r) k) /\
  last (ntrace ns (embed_op V m)) (ok V) = snd r.
Proof.
  intros S ns r. subst ns r. destruct m as [i o|a b nt|]; cbn [embed_op TwoObjModel.nrun TwoObjModel.ntrace fold_left last].
  - unfold TwoObjModel.nstep, mstep, step_chk. rewrite embed_sel. cbn [mshort] in S. rewrite S.
    destruct (step V vzero vdef fixed (sel V s i) o) as [d r]. cbn [fst snd].
    split; [intros k; symmetry; apply embed_put|reflexivity].
  - unfold TwoObjModel.nstep, mstep. rewrite !embed_sel, eqb_id_of.
    destruct (convertf (sel V s a) (sel V s b) (Bool.eqb a b) nt) as [d r]. cbn [fst snd].
    split; [intros k; symmetry; apply embed_put|reflexivity].
  - cbn [TwoObjModel.nstep mstep fst snd]. split; [|reflexivity].
    intros k. unfold nput, embed_state, minit. cbn [fst snd]. destruct k as [|[|k]]; reflexivity.
Qed.

(* the machine the extracted driver executes over the k object slots of the harness is nstep, for
   callers that supply vectors of the documented length *)
Theorem kstep_is_nstep s m :
  (forall i o, m = NOn V i o -> short_vector V (s i) o = false) ->
  kstep V vzero vdef conv fixed true s m = nstep s m.
Proof.
  intros H. destruct m as [i o|a b nt|i]; try reflexivity.
  unfold kstep, TwoObjModel.nstep, step_chk. rewrite (H i o eq_refl). reflexivity.
Qed.

(* ---------------------------------------------------------------- non-vacuity *)
(* three objects: fill a 2 x 2 S object 0 with per-frequency impedances, convert it into object 2
   (Z), convert object 2 in place to Zin, free object 0, copy object 2 into object 1, write a cell
   of object 1: every vector has the documented length, the states are not trivial, and the
   abstract machine computes the dimensions, mode and type of every object *)
Definition example_nhistory : list (nop V) :=
  [NOn V 0 (OInit V 1 2 2 1); NOn V 0 (OSetMatrix V 0 [vdef; vzero; vzero; vdef]);
   NOn V 0 (OSetFz0Vec V 0 [vzero; vdef]); NConv V 0 2 4; NConv V 2 2 10; NFree V 0;
   NConv V 2 1 10; NOn V 1 (OSetCell V 0 0 1 vdef); NOn V 1 (OSetFreqVec V [5%Z])].

Example machine_example :
  nvecs_ok ainit example_nhistory /\
  let A := arun ainit example_nhistory in
  (a_ty V (A 0), a_rows V (A 0), a_freqs V (A 0)) = (VUNDEF, 0, 0) /\
  (a_ty V (A 1), a_rows V (A 1), a_cols V (A 1), a_freqs V (A 1), a_perf V (A 1)) = (VZIN, 1, 2, 1, true) /\
  (a_ty V (A 2), a_rows V (A 2), a_cols V (A 2), a_freqs V (A 2), a_perf V (A 2)) = (VZIN, 1, 2, 1, true) /\
  a_dat V (A 1) 0 1 = vdef /\ a_fv V (A 1) 0 = 5%Z /\ a_fz0 V (A 1) 0 0 = vzero /\
  (let r := conv (FN VS VZ) 2 [vdef; vzero; vzero; vdef] [vzero; vdef] in
   a_dat V (A 2) 0 0 =
     nth 0 (conv (FIN VZ) 2 [nth 0 r vzero; nth 1 r vzero; nth 2 r vzero; nth 3 r vzero] [vzero; vdef]) vzero) /\
  atrace ainit example_nhistory = repeat (ok V) 9.
Proof.
  split.
  - cbv. repeat split; repeat constructor.
  - cbv. repeat split; reflexivity.
Qed.

End TwoObjProofs.
