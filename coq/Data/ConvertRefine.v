(* vnadata_convert on top of the refinement of DataModel to ArraySpec (property C05):
   the destination set-up is a run of container operations, so its effect is computed on the
   abstract array; from that: convert preserves the invariant, the result of a conversion (in
   place or not) is described pointwise, in-place equals out-of-place, the result of a conversion
   to Zin is a clean 1 x ports object (corollaries in ConvertTheorems.v).
   Everything is proved for both values of ConvertModel's dd2_fixed (finding DD2 present /
   repaired): the set-up is stage 1 (setup_spec1: init, frequencies, impedances, by induction over
   the per-frequency loop), stage 2 (switch: the repair's _vnadata_convert_to_fz0, to_fz0_refines)
   and stage 3 (setup_spec2: save options); setup_perf is the resulting z0 mode. *)
Require Import List ZArith Bool Lia.
Require Import LV.Data.DataModel LV.Data.ArraySpec LV.Data.DataProofs LV.Data.RefineProofs LV.Data.ConvertModel.
Import ListNotations.

Ltac bd :=
  repeat match goal with
  | |- context [Nat.ltb ?a ?b] => destruct (Nat.ltb_spec a b)
  | |- context [Nat.leb ?a ?b] => destruct (Nat.leb_spec a b)
  | |- context [Nat.eqb ?a ?b] => destruct (Nat.eqb_spec a b)
  end; cbn [andb orb negb].

Section ConvertRefine.
Variable V : Type.
Variables vzero vdef : V.
Variable dd2_fixed : bool.
Notation vd := (vd V).
Notation arr := (arr V).
Notation Inv := (Inv V vzero vdef).
Notation stepf := (DataModel.step V vzero vdef fixed).
Notation spec_step := (ArraySpec.spec_step V vzero vdef).
Notation run_ok := (ConvertModel.run_ok V vzero vdef fixed).
Notation refines := (refines V).

Fixpoint spec_run_ok (a : arr) (l : list (op V)) : arr * outcome V :=
  match l with
  | [] => (a, ok V)
  | o :: r => let '(b, x) := spec_step a o in
              match o_ret V x with ROk => spec_run_ok b r | _ => (b, x) end
  end.

Lemma run_ok_sim l : forall d a, Inv d -> refines d a ->
  snd (run_ok d l) = snd (spec_run_ok a l) /\ refines (fst (run_ok d l)) (fst (spec_run_ok a l)) /\
  Inv (fst (run_ok d l)).
Proof.
  induction l as [|o l IH]; intros d a HI H; [cbn; auto|].
  destruct (sim_step V vzero vdef d a o HI H) as [E R].
  pose proof (step_inv V vzero vdef d o HI) as HI'.
  cbn [ConvertModel.run_ok spec_run_ok].
  destruct (stepf d o) as [e x]. destruct (spec_step a o) as [b y]. cbn [fst snd] in *. subst y.
  destruct (o_ret V x); [apply IH; assumption| |]; cbn; auto.
Qed.

Lemma spec_run_ok_app l1 l2 a :
  spec_run_ok a (l1 ++ l2) =
  match o_ret V (snd (spec_run_ok a l1)) with
  | ROk => spec_run_ok (fst (spec_run_ok a l1)) l2
  | _ => spec_run_ok a l1
  end.
Proof.
  revert a. induction l1 as [|o l1 IH]; intros a; [reflexivity|].
  cbn [app spec_run_ok]. destruct (spec_step a o) as [b x]. destruct (o_ret V x) eqn:E; cbn [fst snd]; auto.
  - rewrite E. reflexivity.
  - rewrite E. reflexivity.
Qed.


Lemma in_range_of_nat k n : k < n -> in_range (Z.of_nat k) n = true.
Proof. intros. apply in_range_spec. lia. Qed.

(* ---------------------------------------------------------------- the per-frequency z0 loop *)
Section Loop.
Variable rowl : nat -> list V.
Definition fz0_op (f : nat) : op V := OSetFz0Vec V (Z.of_nat f) (rowl f).

Definition same_but_fz0 (a b : arr) : Prop :=
  a_ty V b = a_ty V a /\ a_rows V b = a_rows V a /\ a_cols V b = a_cols V a /\ a_freqs V b = a_freqs V a /\
  a_fv V b = a_fv V a /\ a_dat V b = a_dat V a /\ a_z0 V b = a_z0 V a /\
  a_ftype V b = a_ftype V a /\ a_fmt V b = a_fmt V a /\ a_fprec V b = a_fprec V a /\ a_dprec V b = a_dprec V a.

Lemma fz0_loop k : forall a, k <= a_freqs V a ->
  exists b, spec_run_ok a (map fz0_op (seq 0 k)) = (b, ok V) /\ same_but_fz0 a b /\
    (k = 0 -> b = a) /\
    (k <> 0 -> a_perf V b = true /\
       forall i j, a_fz0 V b i j = if Nat.ltb i k && Nat.ltb j (a_ports V a) then nth j (rowl i) vzero
                                   else fz0_base V vdef a i j).
Proof.
  induction k as [|k IH]; intros a Hk.
  - exists a. cbn. unfold same_but_fz0. repeat split; auto;
    exfalso; match goal with H0 : 0 <> 0 |- _ => apply H0; reflexivity end.
  - destruct (IH a) as (b & Eb & Sb & B0 & B1); [lia|].
    rewrite seq_S, map_app, spec_run_ok_app, Eb. cbn [snd fst o_ret ok plus map spec_run_ok].
    destruct Sb as (S1 & S2 & S3 & S4 & S5 & S6 & S7 & S8 & S9 & S10 & S11).
    cbn [ArraySpec.spec_step fz0_op]. rewrite in_range_of_nat by lia. cbn [o_ret ok].
    eexists. split; [reflexivity|]. unfold same_but_fz0. cbn [with_fz0 a_ty a_rows a_cols a_freqs a_fv a_dat a_z0
      a_ftype a_fmt a_fprec a_dprec a_perf a_fz0].
    split; [repeat split; assumption|]. split; [intros H; discriminate H|]. intros _. split; [reflexivity|].
    intros i j. rewrite Nat2Z.id. unfold a_ports. rewrite S2, S3. fold (a_ports V a).
    destruct (Nat.eq_dec k 0) as [->|Hk0].
    + rewrite (B0 eq_refl). bd; auto; try lia. subst i. reflexivity.
    + destruct (B1 Hk0) as [P1 P2]. unfold fz0_base at 1. rewrite P1, P2. bd; auto; try lia. subst i. reflexivity.
Qed.
End Loop.


(* ---------------------------------------------------------------- destination set-up, abstractly *)
Lemma nth_map_seq {A} (g : nat -> A) n k x : k < n -> nth k (map g (seq 0 n)) x = g k.
Proof.
  intros H. rewrite nth_indep with (d' := g 0) by (rewrite map_length, seq_length; exact H).
  rewrite (map_nth g (seq 0 n) 0 k). rewrite seq_nth by exact H. reflexivity.
Qed.

Lemma resize_cond_undef nr nc F :
  (Z.of_nat (nr * nc) <= INT_MAX)%Z ->
  resize_cond 0 (Z.of_nat nr) (Z.of_nat nc) (Z.of_nat F) = Some VUNDEF.
Proof.
  intros H. unfold resize_cond. cbn [vpt_of_Z validate_type]. rewrite !Nat2Z.id.
  destruct (Z.leb_spec 0 (Z.of_nat nr)); [|lia]. destruct (Z.leb_spec 0 (Z.of_nat nc)); [|lia].
  destruct (Z.leb_spec 0 (Z.of_nat F)); [|lia]. cbn [andb].
  destruct (Z.leb_spec (Z.of_nat nr * Z.of_nat nc) INT_MAX); [reflexivity|lia].
Qed.

Definition copyz (din : vd) (np : nat) : bool := negb (Nat.ltb (ports V din) np).
(* z0 mode of the destination after the copying of the impedances alone *)
Definition copied_perf (din : vd) (np : nat) : bool :=
  copyz din np && per_f V din && negb (Nat.eqb (freqs V din) 0).
(* z0 mode of the destination after the whole set-up: with the repair DD2 the mode of the source *)
Definition setup_perf (din : vd) (np : nat) : bool :=
  if dd2_fixed then per_f V din else copied_perf din np.

Lemma setup_perf_true din np : setup_perf din np = true -> per_f V din = true.
Proof.
  unfold setup_perf, copied_perf. destruct dd2_fixed; [auto|].
  destruct (per_f V din); [reflexivity|]. rewrite andb_false_r. discriminate.
Qed.

(* what the set-up leaves in the destination, whatever the destination held before;
   pf = the z0 mode reached *)
Definition stage_facts (pf : bool) (din : vd) (nr nc : nat) (b : arr) : Prop :=
  let np := Nat.max nr nc in
  a_ty V b = VUNDEF /\ a_rows V b = nr /\ a_cols V b = nc /\ a_freqs V b = freqs V din /\
  a_perf V b = pf /\
  (forall i, a_fv V b i = if Nat.ltb i (freqs V din) then fv V din i else 0%Z) /\
  (forall i j, a_dat V b i j = vzero) /\
  (a_perf V b = false -> forall j, a_z0 V b j =
      if copyz din np && negb (per_f V din) && Nat.ltb j np then z0v V din j else vdef) /\
  (a_perf V b = true -> forall i j, a_fz0 V b i j =
      if copyz din np && Nat.ltb i (freqs V din) && Nat.ltb j np then z0vv V din i j else vdef).

Definition setup_facts (din : vd) (nr nc : nat) (b : arr) : Prop :=
  stage_facts (setup_perf din (Nat.max nr nc)) din nr nc b /\
  a_ftype V b = ftype V din /\ a_fmt V b = fmt V din /\ a_fprec V b = fprec V din /\ a_dprec V b = dprec V din.

(* stage 1: init, frequency vector, impedances *)
Lemma setup_spec1 din a0 nr nc :
  Inv din -> (Z.of_nat (nr * nc) <= INT_MAX)%Z ->
  exists a3, spec_run_ok a0 (setup_ops1 V din nr nc) = (a3, ok V) /\
             stage_facts (copied_perf din (Nat.max nr nc)) din nr nc a3.
Proof.
  intros HI Hm.
  unfold setup_ops1. set (F := freqs V din). set (np := Nat.max nr nc).
  cbn [spec_run_ok ArraySpec.spec_step]. unfold spec_init, spec_resize_op.
  change (resize_cond 0 0 0 0) with (Some VUNDEF). cbn [fst].
  rewrite (resize_cond_undef nr nc F Hm). cbn [o_ret ok snd]. rewrite !Nat2Z.id.
  (* the array after init and set_frequency_vector *)
  match goal with |- context [spec_run_ok ?x (if _ then _ else _)] => set (a2 := x) end.
  assert (A2 : a_ty V a2 = VUNDEF /\ a_rows V a2 = nr /\ a_cols V a2 = nc /\ a_freqs V a2 = F /\
               a_perf V a2 = false /\
               (forall i, a_fv V a2 i = if Nat.ltb i F then fv V din i else 0%Z) /\
               (forall i j, a_dat V a2 i j = vzero) /\ (forall j, a_z0 V a2 j = vdef)).
  { subst a2. cbn -[Nat.ltb Nat.min Nat.max Nat.mul nth map seq]. repeat split; auto; intros.
    - rewrite Nat.min_0_r. bd; auto; try lia; apply nth_map_seq; assumption.
    - rewrite Nat.min_0_r. change (Nat.ltb i 0) with false. reflexivity.
    - rewrite Nat.min_0_r. reflexivity. }
  clearbody a2. destruct A2 as (T1 & T2 & T3 & T4 & T5 & T6 & T7 & T8).
  assert (Pa : a_ports V a2 = np) by (unfold a_ports; rewrite T2, T3; reflexivity).
  unfold stage_facts, copied_perf, copyz. fold F np.
  destruct (Nat.ltb (ports V din) np) eqn:Ec; cbn [negb andb].
  - exists a2. cbn. repeat split; auto; intros; try congruence; try apply T8.
  - destruct (per_f V din) eqn:Ep; cbn [negb andb].
    + destruct (fz0_loop (fun f => map (z0vv V din f) (seq 0 np)) F a2) as (b & Eb & Sb & B0 & B1); [lia|].
      unfold fz0_op in Eb. exists b. split; [exact Eb|].
      destruct Sb as (S1 & S2 & S3 & S4 & S5 & S6 & S7 & _).
      rewrite S1, S2, S3, S4, S5, S6, S7.
      destruct (Nat.eqb_spec F 0) as [E0|E0]; cbn [negb].
      * rewrite (B0 E0). repeat split; auto; intros; try congruence; try apply T8.
      * destruct (B1 E0) as [Q1 Q2]. repeat split; auto; intros; try congruence.
        rewrite Q2, Pa. unfold fz0_base. rewrite T5.
        bd; auto; try (rewrite nth_map_seq by assumption; reflexivity); apply T8.
    + cbn [spec_run_ok ArraySpec.spec_step o_ret ok]. eexists. split; [reflexivity|].
      cbn [with_z0 a_ty a_rows a_cols a_freqs a_perf a_fv a_dat a_z0 a_fz0].
      repeat split; auto; intros; try congruence.
      rewrite Pa. unfold z0_base. rewrite T5.
      bd; auto; try (rewrite nth_map_seq by assumption; reflexivity); apply T8.
Qed.

(* stage 2 (repair DD2): the destination is put into per-frequency mode when the source is *)
Definition to_fz0_arr (a : arr) : arr := if a_perf V a then a else with_fz0 V a (fz0_base V vdef a).
Definition switch (din : vd) (a : arr) : arr := if dd2_fixed && per_f V din then to_fz0_arr a else a.
Definition switch_vd (din d : vd) : vd := if dd2_fixed && per_f V din then convert_to_fz0 V vdef fixed d else d.

Lemma switch_facts din nr nc a3 :
  stage_facts (copied_perf din (Nat.max nr nc)) din nr nc a3 ->
  stage_facts (setup_perf din (Nat.max nr nc)) din nr nc (switch din a3).
Proof.
  intros (U1 & U2 & U3 & U4 & U5 & U6 & U7 & U8 & U9).
  unfold switch, setup_perf. destruct dd2_fixed; cbn [andb]; [|repeat split; assumption].
  destruct (per_f V din) eqn:Ep.
  2:{ assert (Ec : copied_perf din (Nat.max nr nc) = false) by (unfold copied_perf; rewrite Ep, andb_false_r; reflexivity).
      rewrite Ec in U5. unfold stage_facts. rewrite Ep in *. repeat split; assumption. }
  unfold to_fz0_arr. destruct (a_perf V a3) eqn:Ea.
  - unfold stage_facts. repeat split; auto; intros; congruence.
  - unfold stage_facts. cbn [with_fz0 a_ty a_rows a_cols a_freqs a_perf a_fv a_dat a_z0 a_fz0].
    repeat split; auto; try (intros; congruence). intros _ i j.
    unfold fz0_base. rewrite Ea, U4. rewrite (U8 eq_refl j). cbn [negb]. rewrite andb_false_r. cbn [andb].
    unfold copied_perf in U5. rewrite Ep, andb_true_r in U5.
    destruct (copyz din (Nat.max nr nc)); cbn [andb] in *; [|bd; reflexivity].
    destruct (Nat.eqb_spec (freqs V din) 0) as [E0|E0]; [|discriminate U5]. rewrite E0. bd; auto; lia.
Qed.

Lemma to_fz0_refines d a : Inv d -> refines d a -> refines (convert_to_fz0 V vdef fixed d) (to_fz0_arr a).
Proof.
  intros HI H. pose proof HI as (I1 & I2 & I3 & (K1 & K2 & K3 & K4) & _). pose proof H as H0.
  destruct H as (E1 & E2 & E3 & E4 & E5 & Efv & Edat & Ez0 & Efz0 & E6 & E7 & E8 & E9).
  cbn [ArraySpec.abs a_ty a_rows a_cols a_freqs a_perf a_fv a_dat a_z0 a_fz0 a_ftype a_fmt a_fprec a_dprec] in *.
  unfold convert_to_fz0, to_fz0_arr. rewrite <- E5.
  destruct (per_f V d) eqn:Ep.
  - exact H0.
  - unfold RefineProofs.refines, ArraySpec.arr_eq.
    cbn -[Nat.ltb]. cbn [q_d6 fixed]. repeat split; auto; try (intros; congruence).
    intros _ i j. unfold fz0_base. rewrite <- E5, <- E4. rewrite <- (Ez0 eq_refl j).
    unfold ports in *. bd; auto; try lia; symmetry; apply K3; auto; lia.
Qed.

Lemma switch_refines din d a : Inv d -> refines d a -> refines (switch_vd din d) (switch din a) /\ Inv (switch_vd din d).
Proof.
  intros HI H. unfold switch_vd, switch. destruct (dd2_fixed && per_f V din); [|split; assumption].
  split; [apply to_fz0_refines; assumption|apply convert_to_fz0_inv; exact HI].
Qed.

(* stage 3: the save options *)
Lemma setup_spec2 din a3 : Inv din ->
  exists b, spec_run_ok a3 (setup_ops2 V din) = (b, ok V) /\
            b = with_meta V a3 (ftype V din) (fmt V din) (fprec V din) (dprec V din).
Proof.
  intros (_ & _ & _ & _ & _ & P1 & P2 & P3 & _).
  unfold setup_ops2. cbn [spec_run_ok ArraySpec.spec_step].
  destruct (Z.leb_spec 0 (ftype V din)); [|lia]. destruct (Z.leb_spec (ftype V din) 3); [|lia].
  cbn [andb o_ret ok].
  destruct (Z.ltb_spec (fprec V din) 1); [lia|]. cbn [o_ret ok].
  destruct (Z.ltb_spec (dprec V din) 1); [lia|]. cbn [o_ret ok].
  eexists. split; reflexivity.
Qed.

(* ---------------------------------------------------------------- set-up on the model *)
Lemma stage_facts_transfer pf din nr nc a b :
  a_ty V a = a_ty V b -> a_rows V a = a_rows V b -> a_cols V a = a_cols V b -> a_freqs V a = a_freqs V b ->
  a_perf V a = a_perf V b ->
  (forall i, a_fv V a i = a_fv V b i) -> (forall i j, a_dat V a i j = a_dat V b i j) ->
  (a_perf V a = false -> forall j, a_z0 V a j = a_z0 V b j) ->
  (a_perf V a = true -> forall i j, a_fz0 V a i j = a_fz0 V b i j) ->
  stage_facts pf din nr nc b -> stage_facts pf din nr nc a.
Proof.
  intros E1 E2 E3 E4 E5 Efv Edat Ez0 Efz0 (F1 & F2 & F3 & F4 & F5 & F6 & F7 & F8 & F9).
  unfold stage_facts. rewrite E1, E2, E3, E4, E5.
  repeat split; auto; intros.
  - rewrite Efv. apply F6.
  - rewrite Edat. apply F7.
  - rewrite Ez0 by congruence. apply F8. assumption.
  - rewrite Efz0 by congruence. apply F9. assumption.
Qed.

Lemma setup_out_facts din dout k :
  Inv din -> Inv dout ->
  (Z.of_nat (out_rows V din k * out_cols V din k) <= INT_MAX)%Z ->
  let r := setup_out V vzero vdef fixed dd2_fixed din dout k in
  snd r = ok V /\ Inv (fst r) /\
  setup_facts din (out_rows V din k) (out_cols V din k) (ArraySpec.abs V (fst r)).
Proof.
  intros HI HO Hm. cbv zeta. unfold setup_out.
  set (nr := out_rows V din k) in *. set (nc := out_cols V din k) in *.
  destruct (run_ok_sim (setup_ops1 V din nr nc) dout (ArraySpec.abs V dout) HO (refines_refl V dout)) as (E & R & I').
  destruct (setup_spec1 din (ArraySpec.abs V dout) nr nc HI Hm) as (a3 & Ea & Fa).
  rewrite Ea in E, R. cbn [fst snd] in E, R.
  destruct (run_ok dout (setup_ops1 V din nr nc)) as [d1 r1]. cbn [fst snd] in E, R, I'. subst r1. cbn [o_ret ok].
  fold (switch_vd din d1).
  destruct (switch_refines din d1 a3 I' R) as [R2 I2].
  destruct (run_ok_sim (setup_ops2 V din) (switch_vd din d1) (switch din a3) I2 R2) as (E3 & R3 & I3).
  destruct (setup_spec2 din (switch din a3) HI) as (b & Eb & Hb).
  rewrite Eb in E3, R3. cbn [fst snd] in E3, R3.
  split; [exact E3|]. split; [exact I3|].
  pose proof (switch_facts din nr nc a3 Fa) as Fs.
  destruct R3 as (E1 & E2 & E3' & E4 & E5 & Efv & Edat & Ez0 & Efz0 & E6 & E7 & E8 & E9).
  subst b. cbn [with_meta a_ty a_rows a_cols a_freqs a_perf a_fv a_dat a_z0 a_fz0 a_ftype a_fmt a_fprec a_dprec] in *.
  split; [|repeat split; assumption].
  exact (stage_facts_transfer _ din nr nc _ (switch din a3) E1 E2 E3' E4 E5 Efv Edat Ez0 Efz0 Fs).
Qed.

(* ---------------------------------------------------------------- what conv_spec implies *)
Lemma conv_spec_shape x y cs r c :
  conv_spec x y = Some cs -> dim_ok (cs_dim cs) r c = true ->
  match cs_kind cs with
  | KSame => y = x
  | KXtoY => r = c /\ validate_type y r c = true
  | KXtoI => r = c /\ y = VZIN
  end.
Proof.
  intros Ec Ed.
  destruct x, y; cbv in Ec; try discriminate; injection Ec as <-; cbn in Ed |- *; auto;
    try (apply Nat.eqb_eq in Ed; split; [exact Ed|]; try reflexivity; apply Nat.eqb_eq; exact Ed);
    try (apply andb_true_iff in Ed; destruct Ed as [E1 E2]; apply Nat.eqb_eq in E1, E2; subst; split; reflexivity).
Qed.

Lemma inv_set_type d t :
  Inv d -> validate_type t (rows V d) (cols V d) = true ->
  Inv (set_dims V d t (rows V d) (cols V d) (freqs V d)).
Proof.
  intros (I1 & I2 & I3 & K & I4 & I5) Hv. unfold DataProofs.Inv, Clean, cells, ports in *. cbn. tauto.
Qed.

(* storing per-frequency results into the first len <= cells cells of the logical frequencies *)
Lemma store_results_inv d nf len res :
  Inv d -> nf <= freqs V d -> len <= cells V d -> Inv (store_results V vzero d nf len res).
Proof.
  intros HI Hf Hl. unfold store_results.
  apply (inv_update V vzero vdef d); try reflexivity; try exact HI.
  cbn -[Nat.ltb]. intros i j Hij. bd; auto; lia.
Qed.

Lemma copy_cells_inv din d :
  Inv d -> freqs V din <= freqs V d -> cells V din <= cells V d -> Inv (copy_cells V din d).
Proof.
  intros HI Hf Hl. unfold copy_cells.
  apply (inv_update V vzero vdef d); try reflexivity; try exact HI.
  cbn -[Nat.ltb]. intros i j Hij. bd; auto; lia.
Qed.


(* ---------------------------------------------------------------- the result of vnadata_convert *)
Section Result.
Variable conv : fname -> nat -> list V -> list V -> list V.
Notation convertf := (convert V vzero vdef fixed dd2_fixed conv).

Definition conv_len (din : vd) (cs : convsel) : nat :=
  match cs_kind cs with KXtoI => rows V din | _ => rows V din * rows V din end.

Definition conv_dat (din : vd) (cs : convsel) : nat -> nat -> V :=
  match cs_kind cs with
  | KSame => dat V din
  | _ => fun i j => if Nat.ltb i (freqs V din) && Nat.ltb j (conv_len din cs)
                    then nth j (nth i (conv_results V conv din cs) []) vzero else vzero
  end.

(* the array a conversion of din to type nt produces; pf = resulting z0 mode *)
Definition conv_target (din : vd) (nt : vpt) (cs : convsel) (pf : bool) : arr :=
  mkarr V nt (out_rows V din (cs_kind cs)) (out_cols V din (cs_kind cs)) (freqs V din) pf
        (fv V din) (conv_dat din cs) (if per_f V din then (fun _ => vdef) else z0v V din) (z0vv V din)
        (ftype V din) (fmt V din) (fprec V din) (dprec V din).

Definition out_perf (din : vd) (cs : convsel) (same : bool) : bool :=
  if same then per_f V din
  else setup_perf din (Nat.max (out_rows V din (cs_kind cs)) (out_cols V din (cs_kind cs))).

Lemma convert_result_inplace_xtoy d ntz nt cs :
  Inv d -> vpt_of_Z ntz = Some nt -> conv_spec (ty V d) nt = Some cs ->
  dim_ok (cs_dim cs) (rows V d) (cols V d) = true -> cs_kind cs = KXtoY ->
  snd (convertf d d true ntz) = ok V /\ Inv (fst (convertf d d true ntz)) /\
  ArraySpec.arr_eq V (ArraySpec.abs V (fst (convertf d d true ntz))) (conv_target d nt cs (per_f V d)).
Proof.
  intros HI Ht Hs Hd Hk.
  pose proof (conv_spec_shape _ _ _ _ _ Hs Hd) as Sh. rewrite Hk in Sh. destruct Sh as [Hsq Hv].
  pose proof HI as (I1 & I2 & I3 & (K1 & K2 & K3 & K4) & I4).
  unfold convert. rewrite Ht, Hs, Hd, Hk. cbn [negb o_ret ok].
  unfold cells, ports in *. rewrite <- Hsq in *. rewrite Nat.max_id in *.
  destruct (Nat.leb_spec (freqs V d) (f_alloc V d)); [|lia].
  destruct (Nat.leb_spec (rows V d * rows V d) (m_alloc V d)); [|lia].
  destruct (Nat.leb_spec (rows V d) (p_alloc V d)); [|lia]. cbn [andb fst snd].
  split; [reflexivity|]. split.
  - apply (inv_set_type (store_results V vzero d (freqs V d) (rows V d * rows V d) (conv_results V conv d cs)) nt).
    + apply store_results_inv; [exact HI|lia|unfold cells; rewrite <- Hsq; lia].
    + cbn. rewrite <- ?Hsq. exact Hv.
  - unfold ArraySpec.arr_eq, conv_target, conv_dat, conv_len, out_rows, out_cols, store_results. rewrite Hk.
    cbn -[Nat.ltb nth conv_results]. repeat split; auto; intros.
    + bd; auto; apply K2; lia.
    + destruct (per_f V d); [discriminate|reflexivity].
Qed.

Lemma nn_ge n : n <= n * n.
Proof. nia. Qed.

Lemma convert_result_inplace_xtoi d ntz nt cs :
  Inv d -> vpt_of_Z ntz = Some nt -> conv_spec (ty V d) nt = Some cs ->
  dim_ok (cs_dim cs) (rows V d) (cols V d) = true -> cs_kind cs = KXtoI ->
  snd (convertf d d true ntz) = ok V /\ Inv (fst (convertf d d true ntz)) /\
  ArraySpec.arr_eq V (ArraySpec.abs V (fst (convertf d d true ntz))) (conv_target d nt cs (per_f V d)).
Proof.
  intros HI Ht Hs Hd Hk.
  pose proof (conv_spec_shape _ _ _ _ _ Hs Hd) as Sh. rewrite Hk in Sh. destruct Sh as [Hsq Hz]. subst nt.
  pose proof HI as (I1 & I2 & I3 & (K1 & K2 & K3 & K4) & I4 & I5 & I6 & I7 & I8).
  unfold convert. rewrite Ht, Hs, Hd, Hk. cbn [negb o_ret ok q_d5 fixed].
  pose proof (nn_ge (rows V d)) as Hnn.
  unfold cells, ports in *. rewrite <- Hsq in *. rewrite Nat.max_id in *.
  destruct (Nat.leb_spec (freqs V d) (f_alloc V d)); [|lia].
  destruct (Nat.leb_spec (rows V d * rows V d) (m_alloc V d)); [|lia].
  destruct (Nat.leb_spec (rows V d) (p_alloc V d)); [|lia].
  destruct (Nat.leb_spec (rows V d) (m_alloc V d)); [|lia]. cbn [andb].
  set (o2 := store_results V vzero d (freqs V d) (rows V d) (conv_results V conv d cs)).
  assert (IO : Inv o2).
  { apply store_results_inv; [exact HI|lia|unfold cells; rewrite <- Hsq; exact Hnn]. }
  change (rows V o2) with (rows V d). change (cols V o2) with (cols V d). change (freqs V o2) with (freqs V d).
  rewrite <- Hsq. rewrite Nat.ltb_irrefl.
  pose proof (resize_dich V vzero vdef o2 ntz 1 (Z.of_nat (rows V d)) (Z.of_nat (freqs V d)) IO) as D.
  assert (RC : resize_cond ntz 1 (Z.of_nat (rows V d)) (Z.of_nat (freqs V d)) = Some VZIN).
  { unfold resize_cond. rewrite Ht. change (Z.to_nat 1) with 1. rewrite !Nat2Z.id. cbn [validate_type Nat.eqb].
    destruct (Z.leb_spec 0 (Z.of_nat (rows V d))); [|lia]. destruct (Z.leb_spec 0 (Z.of_nat (freqs V d))); [|lia].
    cbn [Z.leb andb]. destruct (Z.leb_spec (Z.of_nat 1 * Z.of_nat (rows V d)) INT_MAX); [reflexivity|lia]. }
  rewrite RC in D. destruct D as [Ds _].
  split; [exact Ds|]. split; [apply resize_inv; exact IO|].
  assert (Hok : o_ret V (snd (resize V vzero vdef fixed o2 ntz 1 (Z.of_nat (rows V d)) (Z.of_nat (freqs V d)))) = ROk)
    by (rewrite Ds; reflexivity).
  destruct (resize_ok_spec V vzero vdef fixed o2 ntz 1 _ _ IO Hok) as (t' & Ht' & _ & _ & _ & _ & _ & HR).
  assert (t' = VZIN) by congruence. subst t'. change (Z.to_nat 1) with 1 in HR. rewrite !Nat2Z.id in HR.
  set (d' := fst (resize V vzero vdef fixed o2 ntz 1 (Z.of_nat (rows V d)) (Z.of_nat (freqs V d)))) in *.
  clearbody d'.
  destruct HR as (A1 & A2 & A3 & A4 & A5 & A6 & A7 & A8 & A9 & A10 & A11 & A12 & B1 & B2 & B3 & B4).
  unfold ArraySpec.arr_eq, conv_target, conv_dat, conv_len, out_rows, out_cols. rewrite Hk.
  cbn -[Nat.ltb nth conv_results]. rewrite <- Hsq, Nat.ltb_irrefl.
  change (per_f V o2) with (per_f V d) in *. change (freqs V o2) with (freqs V d) in *.
  change (fv V o2) with (fv V d) in *. change (z0v V o2) with (z0v V d) in *. change (z0vv V o2) with (z0vv V d) in *.
  change (ports V o2) with (ports V d) in *. change (cells V o2) with (cells V d) in *.
  unfold cells, ports in *. rewrite <- Hsq in *. rewrite Nat.max_id in *.
  repeat split; auto; intros.
  - rewrite B1. rewrite Nat.min_id. bd; auto. symmetry. apply K1. lia.
  - rewrite B2. subst o2. unfold store_results. cbn -[Nat.ltb nth conv_results Nat.min].
    rewrite Nat.min_id. rewrite Nat.add_0_r. rewrite (Nat.min_l _ _ Hnn). bd; auto; lia.
  - assert (Ep : per_f V d = false) by congruence. rewrite B3 by exact Ep. rewrite Ep.
    bd; auto. symmetry. apply K3; auto. lia.
  - assert (Ep : per_f V d = true) by congruence. rewrite B4 by exact Ep.
    bd; auto; symmetry; apply K4; auto; lia.
Qed.


Lemma convert_result_outofplace din dout ntz nt cs :
  Inv din -> Inv dout -> vpt_of_Z ntz = Some nt -> conv_spec (ty V din) nt = Some cs ->
  dim_ok (cs_dim cs) (rows V din) (cols V din) = true ->
  snd (convertf din dout false ntz) = ok V /\ Inv (fst (convertf din dout false ntz)) /\
  ArraySpec.arr_eq V (ArraySpec.abs V (fst (convertf din dout false ntz)))
                   (conv_target din nt cs (out_perf din cs false)).
Proof.
  intros HI HO Ht Hs Hd.
  pose proof (conv_spec_shape _ _ _ _ _ Hs Hd) as Sh.
  pose proof HI as (I1 & I2 & I3 & (K1 & K2 & K3 & K4) & I4 & I5 & I6 & I7 & I8).
  pose proof (nn_ge (rows V din)) as Hnn.
  assert (Hm : (Z.of_nat (out_rows V din (cs_kind cs) * out_cols V din (cs_kind cs)) <= INT_MAX)%Z).
  { unfold out_rows, out_cols, cells in *. destruct (cs_kind cs); try exact I8.
    destruct Sh as [Hsq _]. rewrite <- Hsq in *. rewrite Nat.ltb_irrefl. lia. }
  pose proof (setup_out_facts din dout (cs_kind cs) HI HO Hm) as (Es & Ie & Fe).
  unfold convert. rewrite Ht, Hs, Hd. cbn [negb].
  destruct (setup_out V vzero vdef fixed dd2_fixed din dout (cs_kind cs)) as [e x] eqn:Ee. cbn [fst snd] in Es, Ie, Fe.
  subst x. cbn [o_ret ok].
  destruct Fe as ((G1 & G2 & G3 & G4 & G5 & G6 & G7 & G8 & G9) & G10 & G11 & G12 & G13).
  cbn [ArraySpec.abs a_ty a_rows a_cols a_freqs a_perf a_fv a_dat a_z0 a_fz0 a_ftype a_fmt a_fprec a_dprec] in *.
  pose proof Ie as (J1 & J2 & J3 & _).
  unfold out_perf, conv_target, conv_dat, conv_len.
  destruct (cs_kind cs) eqn:Hk; unfold out_rows, out_cols, cells, ports in *.
  - (* same type: copy *)
    subst nt. rewrite G2, G3, G4 in *.
    destruct (Nat.leb_spec (freqs V din) (f_alloc V din)); [|lia].
    destruct (Nat.leb_spec (rows V din * cols V din) (m_alloc V din)); [|lia].
    destruct (Nat.leb_spec (freqs V din) (f_alloc V e)); [|lia].
    destruct (Nat.leb_spec (rows V din * cols V din) (m_alloc V e)); [|lia]. cbn [andb fst snd].
    split; [reflexivity|]. split.
    + assert (IC : Inv (copy_cells V din e)).
      { apply copy_cells_inv; [exact Ie|lia|unfold cells; rewrite G2, G3; lia]. }
      pose proof (inv_set_type (copy_cells V din e) (ty V din) IC) as IT.
      cbn in IT. rewrite G2, G3, G4 in IT. apply IT. exact I4.
    + unfold ArraySpec.arr_eq, copy_cells. cbn -[Nat.ltb]. rewrite ?G2, ?G3, ?G4, G5, G10, G11, G12, G13.
      repeat split; auto; intros.
      * rewrite G6. bd; auto. symmetry. apply K1. lia.
      * rewrite G7. unfold cells. bd; auto; symmetry; apply K2; lia.
      * rewrite G8 by congruence. unfold setup_perf, copyz, ports in *.
        destruct (per_f V din) eqn:Ep; cbn [negb andb]; [rewrite andb_false_r; reflexivity|].
        rewrite andb_true_r. bd; auto; try lia; symmetry; apply K3; auto; lia.
      * rewrite G9 by congruence.
        assert (Ep : per_f V din = true) by (match goal with H0 : setup_perf din ?n = true |- _ => exact (setup_perf_true din n H0) end).
        unfold copyz, ports in *.
        bd; auto; try lia; symmetry; apply K4; auto; lia.
  - (* matrix to matrix *)
    destruct Sh as [Hsq Hv]. rewrite <- Hsq in *. rewrite Nat.max_id in *. rewrite G2, G3, G4 in *.
    destruct (Nat.leb_spec (freqs V din) (f_alloc V din)); [|lia].
    destruct (Nat.leb_spec (rows V din * rows V din) (m_alloc V din)); [|lia].
    destruct (Nat.leb_spec (rows V din) (p_alloc V din)); [|lia].
    destruct (Nat.leb_spec (freqs V din) (f_alloc V e)); [|lia].
    destruct (Nat.leb_spec (rows V din * rows V din) (m_alloc V e)); [|lia]. cbn [andb fst snd].
    split; [reflexivity|]. split.
    + set (o2 := store_results V vzero e (freqs V din) (rows V din * rows V din) (conv_results V conv din cs)).
      assert (IS : Inv o2).
      { apply store_results_inv; [exact Ie|lia|unfold cells; rewrite G2, G3; lia]. }
      pose proof (inv_set_type o2 nt IS) as IT. cbn in IT. rewrite G2, G3, G4 in IT. change (rows V o2) with (rows V e); change (cols V o2) with (cols V e); change (freqs V o2) with (freqs V e); rewrite ?G2, ?G3, ?G4. apply IT. exact Hv.
    + unfold ArraySpec.arr_eq, store_results. cbn -[Nat.ltb nth conv_results].
      rewrite ?G2, ?G3, ?G4, G5, G10, G11, G12, G13. rewrite ?Nat.max_id.
      repeat split; auto; intros.
      * rewrite G6. bd; auto. symmetry. apply K1. lia.
      * rewrite G7. reflexivity.
      * rewrite G8 by congruence. unfold setup_perf, copyz, ports in *. rewrite Nat.max_id in *.
        destruct (per_f V din) eqn:Ep; cbn [negb andb]; [rewrite andb_false_r; reflexivity|].
        rewrite andb_true_r. bd; auto; try lia; symmetry; apply K3; auto; lia.
      * rewrite G9 by congruence.
        assert (Ep : per_f V din = true) by (match goal with H0 : setup_perf din ?n = true |- _ => exact (setup_perf_true din n H0) end).
        unfold copyz, ports in *. rewrite Nat.max_id in *.
        bd; auto; try lia; symmetry; apply K4; auto; lia.
  - (* matrix to Zin *)
    destruct Sh as [Hsq Hz]. subst nt. rewrite <- Hsq in *. rewrite Nat.max_id in *.
    rewrite Nat.ltb_irrefl in *. rewrite G2, G3, G4 in *.
    destruct (Nat.leb_spec (freqs V din) (f_alloc V din)); [|lia].
    destruct (Nat.leb_spec (rows V din * rows V din) (m_alloc V din)); [|lia].
    destruct (Nat.leb_spec (rows V din) (p_alloc V din)); [|lia].
    destruct (Nat.leb_spec (freqs V din) (f_alloc V e)); [|lia].
    destruct (Nat.leb_spec (rows V din) (m_alloc V e)); [|lia]. cbn [andb fst snd].
    split; [reflexivity|]. split.
    + set (o2 := store_results V vzero e (freqs V din) (rows V din) (conv_results V conv din cs)).
      assert (IS : Inv o2).
      { apply store_results_inv; [exact Ie|lia|unfold cells; rewrite G2, G3; lia]. }
      pose proof (inv_set_type o2 VZIN IS) as IT. cbn in IT. rewrite G2, G3, G4 in IT. change (rows V o2) with (rows V e); change (cols V o2) with (cols V e); change (freqs V o2) with (freqs V e); rewrite ?G2, ?G3, ?G4. apply IT. reflexivity.
    + unfold ArraySpec.arr_eq, store_results. cbn -[Nat.ltb nth conv_results Nat.max].
      rewrite ?G2, ?G3, ?G4, G5, G10, G11, G12, G13. rewrite ?Nat.ltb_irrefl.
      repeat split; auto; intros.
      * rewrite G6. bd; auto. symmetry. apply K1. lia.
      * rewrite G7. reflexivity.
      * rewrite G8 by congruence. unfold setup_perf, copyz, ports in *.
        destruct (per_f V din) eqn:Ep; cbn [negb andb]; [rewrite andb_false_r; reflexivity|].
        rewrite andb_true_r. bd; auto; try lia; symmetry; apply K3; auto; lia.
      * rewrite G9 by congruence.
        assert (Ep : per_f V din = true) by (match goal with H0 : setup_perf din ?n = true |- _ => exact (setup_perf_true din n H0) end).
        unfold copyz, ports in *.
        bd; auto; try lia; symmetry; apply K4; auto; lia.
Qed.

End Result.
End ConvertRefine.
