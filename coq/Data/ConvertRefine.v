(* vnadata_convert on top of the refinement of DataModel to ArraySpec (property C05):
   the destination set-up is a run of container operations, so its effect is computed on the
   abstract array; from that: convert preserves the invariant, the result of a conversion (in
   place or not) is described pointwise, in-place equals out-of-place, the result of a conversion
   to Zin is a clean 1 x ports object. *)
Require Import List ZArith Bool Lia.
Require Import LV.Data.DataModel LV.Data.ArraySpec LV.Data.DataProofs LV.Data.RefineProofs LV.Data.ConvertModel.
Import ListNotations.

Ltac bd :=
  repeat match goal with
  | |- context [Nat.ltb ?a ?b] => destruct (Nat.ltb_spec a b)
  | |- context [Nat.leb ?a ?b] => destruct (Nat.leb_spec a b)
  | |- context [Nat.eqb ?a ?b] => destruct (Nat.eqb_spec a b)
  end; cbn [andb orb negb].

Section ConvertRefine.
Variable V : Type.
Variables vzero vdef : V.
Notation vd := (vd V).
Notation arr := (arr V).
Notation Inv := (Inv V vzero vdef).
Notation stepf := (DataModel.step V vzero vdef fixed).
Notation spec_step := (ArraySpec.spec_step V vzero vdef).
Notation run_ok := (ConvertModel.run_ok V vzero vdef fixed).
Notation refines := (refines V).

Fixpoint spec_run_ok (a : arr) (l : list (op V)) : arr * outcome V :=
  match l with
  | [] => (a, ok V)
  | o :: r => let '(b, x) := spec_step a o in
              match o_ret V x with ROk => spec_run_ok b r | _ => (b, x) end
  end.

Lemma run_ok_sim l : forall d a, Inv d -> refines d a ->
  snd (run_ok d l) = snd (spec_run_ok a l) /\ refines (fst (run_ok d l)) (fst (spec_run_ok a l)) /\
  Inv (fst (run_ok d l)).
Proof.
  induction l as [|o l IH]; intros d a HI H; [cbn; auto|].
  destruct (sim_step V vzero vdef d a o HI H) as [E R].
  pose proof (step_inv V vzero vdef d o HI) as HI'.
  cbn [ConvertModel.run_ok spec_run_ok].
  destruct (stepf d o) as [e x]. destruct (spec_step a o) as [b y]. cbn [fst snd] in *. subst y.
  destruct (o_ret V x); [apply IH; assumption| |]; cbn; auto.
Qed.

Lemma spec_run_ok_app l1 l2 a :
  spec_run_ok a (l1 ++ l2) =
  match o_ret V (snd (spec_run_ok a l1)) with
  | ROk => spec_run_ok (fst (spec_run_ok a l1)) l2
  | _ => spec_run_ok a l1
  end.
Proof.
  revert a. induction l1 as [|o l1 IH]; intros a; [reflexivity|].
  cbn [app spec_run_ok]. destruct (spec_step a o) as [b x]. destruct (o_ret V x) eqn:E; cbn [fst snd]; auto.
  - rewrite E. reflexivity.
  - rewrite E. reflexivity.
Qed.


Lemma in_range_of_nat k n : k < n -> in_range (Z.of_nat k) n = true.
Proof. intros. apply in_range_spec. lia. Qed.

(* ---------------------------------------------------------------- the per-frequency z0 loop *)
Section Loop.
Variable rowl : nat -> list V.
Definition fz0_op (f : nat) : op V := OSetFz0Vec V (Z.of_nat f) (rowl f).

Definition same_but_fz0 (a b : arr) : Prop :=
  a_ty V b = a_ty V a /\ a_rows V b = a_rows V a /\ a_cols V b = a_cols V a /\ a_freqs V b = a_freqs V a /\
  a_fv V b = a_fv V a /\ a_dat V b = a_dat V a /\ a_z0 V b = a_z0 V a /\
  a_ftype V b = a_ftype V a /\ a_fmt V b = a_fmt V a /\ a_fprec V b = a_fprec V a /\ a_dprec V b = a_dprec V a.

Lemma fz0_loop k : forall a, k <= a_freqs V a ->
  exists b, spec_run_ok a (map fz0_op (seq 0 k)) = (b, ok V) /\ same_but_fz0 a b /\
    (k = 0 -> b = a) /\
    (k <> 0 -> a_perf V b = true /\
       forall i j, a_fz0 V b i j = if Nat.ltb i k && Nat.ltb j (a_ports V a) then nth j (rowl i) vzero
                                   else fz0_base V vdef a i j).
Proof.
  induction k as [|k IH]; intros a Hk.
  - exists a. cbn. unfold same_but_fz0. repeat split; auto;
    exfalso; match goal with H0 : 0 <> 0 |- _ => apply H0; reflexivity end.
  - destruct (IH a) as (b & Eb & Sb & B0 & B1); [lia|].
    rewrite seq_S, map_app, spec_run_ok_app, Eb. cbn [snd fst o_ret ok plus map spec_run_ok].
    destruct Sb as (S1 & S2 & S3 & S4 & S5 & S6 & S7 & S8 & S9 & S10 & S11).
    cbn [ArraySpec.spec_step fz0_op]. rewrite in_range_of_nat by lia. cbn [o_ret ok].
    eexists. split; [reflexivity|]. unfold same_but_fz0. cbn [with_fz0 a_ty a_rows a_cols a_freqs a_fv a_dat a_z0
      a_ftype a_fmt a_fprec a_dprec a_perf a_fz0].
    split; [repeat split; assumption|]. split; [intros H; discriminate H|]. intros _. split; [reflexivity|].
    intros i j. rewrite Nat2Z.id. unfold a_ports. rewrite S2, S3. fold (a_ports V a).
    destruct (Nat.eq_dec k 0) as [->|Hk0].
    + rewrite (B0 eq_refl). bd; auto; try lia. subst i. reflexivity.
    + destruct (B1 Hk0) as [P1 P2]. unfold fz0_base at 1. rewrite P1, P2. bd; auto; try lia. subst i. reflexivity.
Qed.
End Loop.

End ConvertRefine.
