(* Property C15: lemmas about Data/AccessorsModel.v (vnadata_alloc_and_init, vnadata_get_type_name,
   the format vector / cached string and its transport by vnadata_convert). *)
Require Import List ZArith Bool String Lia.
Require Import LV.Data.DataModel LV.Data.ArraySpec LV.Data.DataProofs LV.Data.RefineProofs
               LV.Data.AccessorsModel.
Import ListNotations.

(* ---------------------------------------------------------------- vnadata_get_type_name *)
Lemma type_name_null_iff tz : type_name tz = None <-> (tz < 0 \/ 10 < tz)%Z.
Proof.
  unfold type_name. split.
  - destruct (vpt_of_Z tz) eqn:E; [discriminate|]. intros _.
    destruct tz as [|p|p]; [discriminate E| |lia].
    do 4 (destruct p as [p|p|]; try discriminate E; try lia).
  - intros [H|H].
    + destruct tz; try lia. reflexivity.
    + destruct tz as [|p|p]; try lia.
      do 4 (destruct p as [p|p|]; try reflexivity; try lia).
Qed.

Lemma name_of_injective a b : name_of a = name_of b -> a = b.
Proof. destruct a, b; intros H; try reflexivity; discriminate H. Qed.

Lemma vpt_of_Z_injective a b t : vpt_of_Z a = Some t -> vpt_of_Z b = Some t -> a = b.
Proof.
  intros Ha Hb.
  assert (A : forall z u, vpt_of_Z z = Some u -> z = vpt_code u).
  { intros z u E. destruct z as [|p|p]; [injection E as <-; reflexivity| |discriminate E].
    do 4 (destruct p as [p|p|]; try discriminate E; try (injection E as <-; reflexivity)). }
  rewrite (A a t Ha), (A b t Hb). reflexivity.
Qed.

(* different valid type codes have different names *)
Lemma type_name_injective a b s : type_name a = Some s -> type_name b = Some s -> a = b.
Proof.
  unfold type_name. destruct (vpt_of_Z a) as [ta|] eqn:Ea; [|discriminate].
  destruct (vpt_of_Z b) as [tb|] eqn:Eb; [|discriminate].
  intros Ha Hb. injection Ha as Ha. injection Hb as Hb. rewrite <- Hb in Ha.
  apply name_of_injective in Ha. subst tb. exact (vpt_of_Z_injective a b ta Ea Eb).
Qed.

(* ---------------------------------------------------------------- vnadata_alloc_and_init *)
Section AllocInit.
Variable V : Type.
Variables vzero vdef : V.
Notation Inv := (Inv V vzero vdef).
Notation abs := (ArraySpec.abs V).
Notation arr_eq := (ArraySpec.arr_eq V).
Notation alloc_and_init := (alloc_and_init V vzero vdef).
Notation fresh_arr := (fresh_arr V vzero vdef).

Lemma spec_init_alloc tz r c f :
  match resize_cond tz r c f with
  | Some t => snd (spec_init V vzero vdef (arr_alloc V vzero vdef) tz r c f) = ok V /\
              arr_eq (fst (spec_init V vzero vdef (arr_alloc V vzero vdef) tz r c f))
                     (fresh_arr t (Z.to_nat r) (Z.to_nat c) (Z.to_nat f))
  | None => snd (spec_init V vzero vdef (arr_alloc V vzero vdef) tz r c f) = fail V
  end.
Proof.
  unfold spec_init.
  change (fst (spec_resize_op V vzero vdef (arr_alloc V vzero vdef) 0 0 0 0))
    with (spec_resize V vzero vdef (arr_alloc V vzero vdef) VUNDEF 0 0 0).
  unfold spec_resize_op. destruct (resize_cond tz r c f) as [t|]; [|reflexivity].
  split; [reflexivity|].
  unfold ArraySpec.arr_eq, AccessorsModel.fresh_arr, spec_resize, spec_set_all_z0, with_z0, z0_base, arr_alloc.
  cbn [a_ty a_rows a_cols a_freqs a_perf a_fv a_dat a_z0 a_fz0 a_ftype a_fmt a_fprec a_dprec a_ports a_cells].
  cbn [fst a_ty a_rows a_cols a_freqs a_perf a_fv a_dat a_z0 a_fz0 a_ftype a_fmt a_fprec a_dprec a_ports a_cells].
  repeat split; auto; intros; try discriminate;
    repeat (match goal with |- context [if ?b then _ else _] => destruct b end); reflexivity.
Qed.

(* accepted exactly when a resize to the same shape would be (valid type code, non-negative
   dimensions that fit the type, rows * columns <= INT_MAX); the object returned is valid and
   entirely initial; otherwise NULL and one error report *)
Theorem alloc_and_init_spec tz r c f :
  match resize_cond tz r c f with
  | Some t => exists d, alloc_and_init tz r c f = (Some d, ok V) /\ Inv d /\
                        arr_eq (abs d) (fresh_arr t (Z.to_nat r) (Z.to_nat c) (Z.to_nat f))
  | None => alloc_and_init tz r c f = (None, fail V)
  end.
Proof.
  pose proof (spec_init_alloc tz r c f) as S.
  assert (R0 : refines V (vd_alloc V vzero vdef) (arr_alloc V vzero vdef)).
  { unfold refines, ArraySpec.arr_eq, ArraySpec.abs, arr_alloc, vd_alloc. cbn. repeat split; auto. }
  destruct (sim_step V vzero vdef (vd_alloc V vzero vdef) (arr_alloc V vzero vdef) (OInit V tz r c f)
              (inv_alloc V vzero vdef) R0) as [E R].
  pose proof (step_inv V vzero vdef (vd_alloc V vzero vdef) (OInit V tz r c f) (inv_alloc V vzero vdef)) as HI.
  cbn [step spec_step] in E, R, HI.
  unfold AccessorsModel.alloc_and_init.
  destruct (init V vzero vdef fixed (vd_alloc V vzero vdef) tz r c f) as [d x]. cbn [fst snd] in *.
  destruct (resize_cond tz r c f) as [t|].
  - destruct S as [S1 S2]. rewrite S1 in E. subst x. cbn [o_ret ok]. exists d.
    split; [reflexivity|]. split; [exact HI|]. eapply arr_eq_trans; [exact R|exact S2].
  - rewrite S in E. subst x. reflexivity.
Qed.
End AllocInit.

(* ---------------------------------------------------------------- the format *)
Section Format.
Variable tok : Type.
Notation fstate := (fstate tok).

(* the cached string is the string form of the vector *)
Definition FInv (s : fstate) : Prop :=
  match f_vec tok s with [] => f_str tok s = None | v => f_str tok s = Some v end.

Lemma f_new_inv : FInv (f_new tok).
Proof. reflexivity. Qed.

Lemma update_string_inv s v : FInv (update_string tok false s v).
Proof. destruct v; reflexivity. Qed.

Lemma set_format_inv s arg : FInv s -> FInv (fst (set_format_c tok false s arg)).
Proof.
  intros H. destruct arg as [[|x l]|]; cbn [set_format_c fst]; [exact H| |apply update_string_inv].
  destruct (all_some tok (x :: l)); cbn [fst]; [apply update_string_inv|exact H].
Qed.

Lemma all_some_map_some (v : list tok) : all_some tok (map (@Some tok) v) = Some v.
Proof. induction v as [|t v IH]; [reflexivity|]. cbn. rewrite IH. reflexivity. Qed.

Lemma all_some_nonempty x l v : all_some tok (x :: l) = Some v -> v <> [].
Proof.
  cbn. destruct x; [|discriminate]. destruct (all_some tok l); [|discriminate].
  intros E. injection E as <-. discriminate.
Qed.

(* vnadata_get_format after an accepted vnadata_set_format is a function of the argument alone
   (no trace of the previous format), None after a clear; a refused call changes nothing *)
Theorem get_after_set s arg :
  match norm_arg tok arg with
  | Some x => snd (set_format_c tok false s arg) = true /\
              get_format_c tok (fst (set_format_c tok false s arg)) = x
  | None => set_format_c tok false s arg = (s, false)
  end.
Proof.
  destruct arg as [[|x l]|]; cbn [norm_arg set_format_c]; [reflexivity| |split; reflexivity].
  destruct (all_some tok (x :: l)) as [v|] eqn:E; [|reflexivity].
  pose proof (all_some_nonempty x l v E) as N. destruct v; [contradiction N; reflexivity|].
  split; reflexivity.
Qed.

(* vnadata_convert's transport: the destination reports the format the source reports *)
Theorem carry_spec src dst :
  FInv src ->
  snd (carry_format tok false src dst) = true /\
  get_format_c tok (fst (carry_format tok false src dst)) = get_format_c tok src /\
  FInv (fst (carry_format tok false src dst)).
Proof.
  intros H. unfold carry_format, FInv, get_format_c in *.
  destruct src as [vec str]. cbn [f_vec f_str] in *.
  destruct vec as [|t v]; subst str; cbn [option_map map set_format_c fst snd].
  - repeat split; reflexivity.
  - change (Some t :: map (@Some tok) v) with (map (@Some tok) (t :: v)).
    rewrite all_some_map_some. repeat split; reflexivity.
Qed.

(* every history over any number of objects: the cached strings are those of the abstract view
   (last accepted argument, copied by conversions), same return values *)
Definition FRef (s : nat -> fstate) (a : nat -> option (list tok)) : Prop :=
  forall i, FInv (s i) /\ get_format_c tok (s i) = a i.

Lemma fstep_refines s a o :
  FRef s a ->
  snd (fstep tok false s o) = snd (astepf tok a o) /\ FRef (fst (fstep tok false s o)) (fst (astepf tok a o)).
Proof.
  intros R. destruct o as [i arg|x y]; cbn [fstep astepf].
  - pose proof (get_after_set (s i) arg) as G. pose proof (set_format_inv (s i) arg (proj1 (R i))) as I.
    destruct (set_format_c tok false (s i) arg) as [n r]. cbn [fst snd] in *.
    destruct (norm_arg tok arg) as [v|].
    + destruct G as [-> G]. split; [reflexivity|]. intros k. unfold fput. cbn [fst].
      destruct (Nat.eqb k i); [split; assumption|apply R].
    + injection G as -> ->. split; [reflexivity|]. intros k. unfold fput. cbn [fst].
      destruct (Nat.eqb_spec k i) as [->|_]; apply R.
  - destruct (Nat.eqb x y); [split; [reflexivity|exact R]|].
    destruct (carry_spec (s x) (s y) (proj1 (R x))) as (C1 & C2 & C3).
    destruct (carry_format tok false (s x) (s y)) as [n r]. cbn [fst snd] in *.
    split; [exact C1|]. intros k. unfold fput. cbn [fst].
    destruct (Nat.eqb k y); [split; [exact C3|rewrite C2; apply R]|apply R].
Qed.

Theorem frun_refines l : forall s a, FRef s a -> FRef (frun tok false s l) (arunf tok a l).
Proof.
  induction l as [|o l IH]; intros s a R; [exact R|].
  cbn [frun arunf fold_left]. apply IH. apply fstep_refines. exact R.
Qed.

Theorem format_histories l i :
  get_format_c tok (frun tok false (fun _ => f_new tok) l i) = arunf tok (fun _ => None) l i.
Proof.
  apply (frun_refines l (fun _ => f_new tok) (fun _ => None)). intros k. split; reflexivity.
Qed.

(* the variant that keeps the old string when the vector becomes empty does not satisfy this:
   set a format on object 0, clear it, convert 0 into object 1 - object 0 still reports the
   format and object 1 acquires it (seeded change C06-8) *)
Theorem stale_string_refuted (t : tok) :
  let l := [FSet tok 0 (Some [Some t]); FSet tok 0 None; FCarry tok 0 1] in
  arunf tok (fun _ => None) l 0 = None /\ arunf tok (fun _ => None) l 1 = None /\
  get_format_c tok (frun tok true (fun _ => f_new tok) l 0) = Some [t] /\
  get_format_c tok (frun tok true (fun _ => f_new tok) l 1) = Some [t] /\
  get_format_c tok (frun tok false (fun _ => f_new tok) l 0) = None /\
  get_format_c tok (frun tok false (fun _ => f_new tok) l 1) = None.
Proof. cbv. repeat split; reflexivity. Qed.

End Format.
