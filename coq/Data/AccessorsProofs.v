(* Property C15: lemmas about Data/AccessorsModel.v (vnadata_alloc_and_init, vnadata_get_type_name,
   the format vector / cached string and its transport by vnadata_convert). *)
Require Import List ZArith Bool String Lia.
Require Import LV.Data.DataModel LV.Data.ArraySpec LV.Data.DataProofs LV.Data.RefineProofs
               LV.Data.AccessorsModel.
Import ListNotations.

(* ---------------------------------------------------------------- vnadata_get_type_name *)
Lemma type_name_null_iff tz : type_name tz = None <-> (tz < 0 \/ 10 < tz)%Z.
Proof.
  unfold type_name. split.
  - destruct (vpt_of_Z tz) eqn:E; [discriminate|]. intros _.
    destruct tz as [|p|p]; [discriminate E| |lia].
    do 4 (destruct p as [p|p|]; try discriminate E; try lia).
  - intros [H|H].
    + destruct tz; try lia. reflexivity.
    + destruct tz as [|p|p]; try lia.
      do 4 (destruct p as [p|p|]; try reflexivity; try lia).
Qed.

Lemma name_of_injective a b : name_of a = name_of b -> a = b.
Proof. destruct a, b; intros H; try reflexivity; discriminate H. Qed.

Lemma vpt_of_Z_injective a b t : vpt_of_Z a = Some t -> vpt_of_Z b = Some t -> a = b.
Proof.
  intros Ha Hb.
  assert (A : forall z u, vpt_of_Z z = Some u -> z = vpt_code u).
  { intros z u E. destruct z as [|p|p]; [injection E as <-; reflexivity| |discriminate E].
    do 4 (destruct p as [p|p|]; try discriminate E; try (injection E as <-; reflexivity)). }
  rewrite (A a t Ha), (A b t Hb). reflexivity.
Qed.

(* different valid type codes have different names *)
Lemma type_name_injective a b s : type_name a = Some s -> type_name b = Some s -> a = b.
Proof.
  unfold type_name. destruct (vpt_of_Z a) as [ta|] eqn:Ea; [|discriminate].
  destruct (vpt_of_Z b) as [tb|] eqn:Eb; [|discriminate].
  intros Ha Hb. injection Ha as Ha. injection Hb as Hb. rewrite <- Hb in Ha.
  apply name_of_injective in Ha. subst tb. exact (vpt_of_Z_injective a b ta Ea Eb).
Qed.

(* ---------------------------------------------------------------- vnadata_alloc_and_init *)
Section AllocInit.
Variable V : Type.
Variables vzero vdef : V.
Notation Inv := (Inv V vzero vdef).
Notation abs := (ArraySpec.abs V).
Notation arr_eq := (ArraySpec.arr_eq V).
Notation alloc_and_init := (alloc_and_init V vzero vdef).
Notation fresh_arr := (fresh_arr V vzero vdef).

Lemma spec_init_alloc tz r c f :
  match resize_cond tz r c f with
  | Some t => snd (spec_init V vzero vdef (arr_alloc V vzero vdef) tz r c f) = ok V /\
              arr_eq (fst (spec_init V vzero vdef (arr_alloc V vzero vdef) tz r c f))
                     (fresh_arr t (Z.to_nat r) (Z.to_nat c) (Z.to_nat f))
  | None => snd (spec_init V vzero vdef (arr_alloc V vzero vdef) tz r c f) = fail V
  end.
Proof.
  unfold spec_init.
  change (fst (spec_resize_op V vzero vdef (arr_alloc V vzero vdef) 0 0 0 0))
    with (spec_resize V vzero vdef (arr_alloc V vzero vdef) VUNDEF 0 0 0).
  unfold spec_resize_op. destruct (resize_cond tz r c f) as [t|]; [|reflexivity].
  split; [reflexivity|].
  unfold ArraySpec.arr_eq, AccessorsModel.fresh_arr, spec_resize, spec_set_all_z0, with_z0, z0_base, arr_alloc.
  cbn [a_ty a_rows a_cols a_freqs a_perf a_fv a_dat a_z0 a_fz0 a_ftype a_fmt a_fprec a_dprec a_ports a_cells].
  cbn [fst a_ty a_rows a_cols a_freqs a_perf a_fv a_dat a_z0 a_fz0 a_ftype a_fmt a_fprec a_dprec a_ports a_cells].
  repeat split; auto; intros; try discriminate;
    repeat (match goal with |- context [if ?b then _ else _] => destruct b end); reflexivity.
Qed.

(* accepted exactly when a resize to the same shape would be (valid type code, non-negative
   dimensions that fit the type, rows * columns <= INT_MAX); the object returned is valid and
   entirely initial; otherwise NULL and one error report *)
Theorem alloc_and_init_spec tz r c f :
  match resize_cond tz r c f with
  | Some t => exists d, alloc_and_init tz r c f = (Some d, ok V) /\ Inv d /\
                        arr_eq (abs d) (fresh_arr t (Z.to_nat r) (Z.to_nat c) (Z.to_nat f))
  | None => alloc_and_init tz r c f = (None, fail V)
  end.
Proof.
  pose proof (spec_init_alloc tz r c f) as S.
  assert (R0 : refines V (vd_alloc V vzero vdef) (arr_alloc V vzero vdef)).
  { unfold refines, ArraySpec.arr_eq, ArraySpec.abs, arr_alloc, vd_alloc. cbn. repeat split; auto. }
  destruct (sim_step V vzero vdef (vd_alloc V vzero vdef) (arr_alloc V vzero vdef) (OInit V tz r c f)
              (inv_alloc V vzero vdef) R0) as [E R].
  pose proof (step_inv V vzero vdef (vd_alloc V vzero vdef) (OInit V tz r c f) (inv_alloc V vzero vdef)) as HI.
  cbn [step spec_step] in E, R, HI.
  unfold AccessorsModel.alloc_and_init.
  destruct (init V vzero vdef fixed (vd_alloc V vzero vdef) tz r c f) as [d x]. cbn [fst snd] in *.
  destruct (resize_cond tz r c f) as [t|].
  - destruct S as [S1 S2]. rewrite S1 in E. subst x. cbn [o_ret ok]. exists d.
    split; [reflexivity|]. split; [exact HI|]. eapply arr_eq_trans; [exact R|exact S2].
  - rewrite S in E. subst x. reflexivity.
Qed.
End AllocInit.


(* ---------------------------------------------------------------- NULL pointers, fmin / fmax, add_frequency, rejected init *)
Ltac null_fin :=
  cbn; repeat (match goal with |- context [if ?b then _ else _] => destruct b end; cbn);
  let H := fresh in intros H; try discriminate H; first [left; reflexivity|right; reflexivity].

Section More.
Variable V : Type.
Variables vzero vdef : V.
Notation Inv := (Inv V vzero vdef).
Notation stepf := (step V vzero vdef fixed).
Notation abs := (ArraySpec.abs V).
Notation spec_step := (ArraySpec.spec_step V vzero vdef).

(* a pointer getter answers NULL with success only when the vector it points to is empty *)
Theorem null_pointer_only_when_empty d o :
  Inv d -> ptr_null V d o = true -> o_ret V (snd (stepf d o)) = ROk ->
  o_pay V (snd (stepf d o)) = PVals V [] \/ o_pay V (snd (stepf d o)) = PFreqs [].
Proof.
  intros (I1 & I2 & I3 & _) N.
  destruct o; cbn [ptr_null] in N; try discriminate N; apply Nat.eqb_eq in N; cbn [step].
  - unfold get_frequency_vector. assert (E : freqs V d = 0) by lia. rewrite E. null_fin.
  - unfold get_matrix. assert (E : cells V d = 0) by lia. rewrite E. null_fin.
  - unfold get_z0_vector. assert (E : ports V d = 0) by lia. rewrite E. null_fin.
  - unfold get_fz0_vector. assert (E : ports V d = 0) by lia. rewrite E. null_fin.
Qed.

(* fmin / fmax: first and last element; the lowest and highest when the frequencies ascend ... *)
Theorem fmin_fmax_lowest_highest_when_ascending (a : arr V) x :
  ascending V a ->
  (snd (spec_step a (OGetFmin V)) = okp V (PFreq x) -> is_lowest V a x) /\
  (snd (spec_step a (OGetFmax V)) = okp V (PFreq x) -> is_highest V a x).
Proof.
  intros A. cbn [spec_step]. destruct (Nat.eqb_spec (a_freqs V a) 0) as [E|E].
  - split; intros H; discriminate H.
  - split; intros H; cbn in H; injection H as <-.
    + split; [exists 0; split; [lia|reflexivity]|]. intros i Hi. apply A; lia.
    + split; [exists (a_freqs V a - 1); split; [lia|reflexivity]|]. intros i Hi. apply A; lia.
Qed.

(* ... and not otherwise: after vnadata_set_frequency_vector {3, 1, 2} on an object with three
   frequencies fmin is 3 and fmax is 2 (model and abstract array agree with the library; the
   wording of the manual does not) *)
Definition unordered_history : list (op V) := [OResize V 0 0 0 3; OSetFreqVec V [3; 1; 2]%Z].

Theorem fmin_fmax_lowest_highest_refuted_unordered :
  let d := run V vzero vdef fixed (vd_alloc V vzero vdef) unordered_history in
  snd (stepf d (OGetFmin V)) = okp V (PFreq 3%Z) /\ snd (stepf d (OGetFmax V)) = okp V (PFreq 2%Z) /\
  snd (spec_step (abs d) (OGetFmin V)) = okp V (PFreq 3%Z) /\ snd (spec_step (abs d) (OGetFmax V)) = okp V (PFreq 2%Z) /\
  ~ is_lowest V (abs d) 3%Z /\ ~ is_highest V (abs d) 2%Z.
Proof.
  cbv zeta. repeat split; try (vm_compute; reflexivity).
  - intros [_ H]. specialize (H 1). vm_compute in H. apply H; [repeat constructor|reflexivity].
  - intros [_ H]. specialize (H 0). vm_compute in H. apply H; [repeat constructor|reflexivity].
Qed.


(* which frequency setter refuses which VALUE (vnadata.h, vnadata_add_frequency.c): vnadata_set_frequency
   and vnadata_set_frequency_vector store any value - negative, zero, unordered, repeated -, only
   vnadata_add_frequency refuses a negative frequency *)
Theorem frequency_setters_accept_any_value d :
  Inv d ->
  (forall i x, in_range i (freqs V d) = true ->
     snd (stepf d (OSetFreq V i x)) = ok V /\ fv V (fst (stepf d (OSetFreq V i x))) (Z.to_nat i) = x) /\
  (forall l, snd (stepf d (OSetFreqVec V l)) = ok V /\
             forall k, k < freqs V d -> fv V (fst (stepf d (OSetFreqVec V l))) k = nth k l 0%Z) /\
  (forall x, snd (stepf d (OAddFreq V x)) = fail V <-> (x < 0)%Z).
Proof.
  intros (I1 & I2 & I3 & _). split; [|split].
  - intros i x H. cbn [step]. unfold set_frequency. rewrite H. cbn [negb].
    apply in_range_spec in H.
    destruct (Nat.ltb_spec (Z.to_nat i) (f_alloc V d)) as [_|G]; [|lia].
    cbn. unfold upd1. rewrite Nat.eqb_refl. split; reflexivity.
  - intros l. cbn [step]. unfold set_frequency_vector.
    destruct (Nat.leb_spec (freqs V d) (f_alloc V d)) as [_|G]; [|lia].
    cbn -[Nat.ltb]. split; [reflexivity|]. intros k Hk. destruct (Nat.ltb_spec k (freqs V d)); [reflexivity|lia].
  - intros x. cbn [step]. unfold add_frequency. destruct (Z.ltb_spec x 0) as [H|H].
    + cbn. split; [intros _; exact H|reflexivity].
    + split; [|lia]. match goal with |- context [if ?b then _ else _] => destruct b end; cbn; intros E; discriminate E.
Qed.

(* vnadata_add_frequency presents the new frequency row with its initial values: every cell 0 and,
   in per-frequency mode, every impedance 50 ohm (the clause of the property about newly exposed
   cells, for the operation that grows the frequency dimension by one) *)
Theorem add_frequency_exposes_initial d x :
  Inv d -> o_ret V (snd (stepf d (OAddFreq V x))) = ROk ->
  let d' := fst (stepf d (OAddFreq V x)) in
  freqs V d' = freqs V d + 1 /\ fv V d' (freqs V d) = x /\
  (forall j, dat V d' (freqs V d) j = vzero) /\
  (per_f V d' = true -> forall p, z0vv V d' (freqs V d) p = vdef) /\
  (rows V d', cols V d', ty V d', per_f V d') = (rows V d, cols V d, ty V d, per_f V d).
Proof.
  intros (I1 & I2 & I3 & (Kfv & Kdat & Kz0 & Kfz0) & _). cbn [step]. unfold add_frequency.
  destruct (x <? 0)%Z; [intros H; discriminate H|].
  destruct (Nat.ltb (f_alloc V d) (freqs V d + 1)) eqn:G.
  - unfold extend_f.
    destruct (Nat.ltb (f_alloc V d) (Nat.max 50 (f_alloc V d + f_alloc V d / 2))) eqn:G2.
    2:{ apply Nat.ltb_ge in G2. apply Nat.ltb_lt in G.
        pose proof (Nat.le_max_l 50 (f_alloc V d + f_alloc V d / 2)). pose proof (Nat.le_max_r 50 (f_alloc V d + f_alloc V d / 2)).
        pose proof (Nat.div_mod (f_alloc V d) 2). pose proof (Nat.mod_upper_bound (f_alloc V d) 2). lia. }
    destruct (per_f V d) eqn:P; cbn -[Nat.max Nat.div Nat.ltb within];
      (destruct (Nat.ltb (freqs V d) (Nat.max 50 (f_alloc V d + f_alloc V d / 2))) eqn:G3;
       [|intros H; discriminate H]); intros _; cbn -[Nat.max Nat.div Nat.ltb within];
      rewrite ?P; unfold upd1; rewrite Nat.eqb_refl; repeat split; auto; intros.
    all: try discriminate.
    all: destruct (within _ _ _ && Nat.ltb _ _); [reflexivity|];
      first [apply Kdat; left; lia | apply Kfz0; [reflexivity|left; lia]].
  - destruct (Nat.ltb (freqs V d) (f_alloc V d)) eqn:G3; [|intros H; discriminate H]. intros _.
    cbn. unfold upd1. rewrite Nat.eqb_refl. repeat split; auto; intros.
    all: first [apply Kdat; left; lia | apply Kfz0; [assumption|left; lia]].
Qed.

(* a refused vnadata_init is NOT without effect: the object has been emptied before the new shape
   is validated (vnadata_init = resize to nothing, impedances back to default, resize); a refused
   vnadata_resize leaves the object alone (c15_resize_rejected_unchanged) *)
Theorem init_rejected_is_empty d tz r c f :
  Inv d -> resize_cond tz r c f = None ->
  let res := stepf d (OInit V tz r c f) in
  snd res = fail V /\
  (ty V (fst res), rows V (fst res), cols V (fst res), freqs V (fst res), per_f V (fst res)) = (VUNDEF, 0, 0, 0, false).
Proof.
  intros HI E. cbv zeta.
  destruct (sim_step V vzero vdef d (abs d) (OInit V tz r c f) HI (refines_refl V d)) as [S R].
  cbn [spec_step] in S, R. unfold spec_init, spec_resize_op in S, R. rewrite E in S, R.
  cbn [snd fst sfail] in S, R. split; [exact S|].
  destruct R as (E1 & E2 & E3 & E4 & E5 & _).
  cbn [ArraySpec.abs a_ty a_rows a_cols a_freqs a_perf] in E1, E2, E3, E4, E5.
  rewrite E1, E2, E3, E4, E5. reflexivity.
Qed.

End More.

(* ---------------------------------------------------------------- the format *)
Section Format.
Variable tok : Type.
Notation fstate := (fstate tok).

(* the cached string is the string form of the vector *)
Definition FInv (s : fstate) : Prop :=
  match f_vec tok s with [] => f_str tok s = None | v => f_str tok s = Some v end.

Lemma f_new_inv : FInv (f_new tok).
Proof. reflexivity. Qed.

Lemma update_string_inv s v : FInv (update_string tok false s v).
Proof. destruct v; reflexivity. Qed.

Lemma set_format_inv s arg : FInv s -> FInv (fst (set_format_c tok false s arg)).
Proof.
  intros H. destruct arg as [[|x l]|]; cbn [set_format_c fst]; [exact H| |apply update_string_inv].
  destruct (all_some tok (x :: l)); cbn [fst]; [apply update_string_inv|exact H].
Qed.

Lemma all_some_map_some (v : list tok) : all_some tok (map (@Some tok) v) = Some v.
Proof. induction v as [|t v IH]; [reflexivity|]. cbn. rewrite IH. reflexivity. Qed.

Lemma all_some_nonempty x l v : all_some tok (x :: l) = Some v -> v <> [].
Proof.
  cbn. destruct x; [|discriminate]. destruct (all_some tok l); [|discriminate].
  intros E. injection E as <-. discriminate.
Qed.

(* vnadata_get_format after an accepted vnadata_set_format is a function of the argument alone
   (no trace of the previous format), None after a clear; a refused call changes nothing *)
Theorem get_after_set s arg :
  match norm_arg tok arg with
  | Some x => snd (set_format_c tok false s arg) = true /\
              get_format_c tok (fst (set_format_c tok false s arg)) = x
  | None => set_format_c tok false s arg = (s, false)
  end.
Proof.
  destruct arg as [[|x l]|]; cbn [norm_arg set_format_c]; [reflexivity| |split; reflexivity].
  destruct (all_some tok (x :: l)) as [v|] eqn:E; [|reflexivity].
  pose proof (all_some_nonempty x l v E) as N. destruct v; [contradiction N; reflexivity|].
  split; reflexivity.
Qed.

(* vnadata_convert's transport: the destination reports the format the source reports *)
Theorem carry_spec src dst :
  FInv src ->
  snd (carry_format tok false src dst) = true /\
  get_format_c tok (fst (carry_format tok false src dst)) = get_format_c tok src /\
  FInv (fst (carry_format tok false src dst)).
Proof.
  intros H. unfold carry_format, FInv, get_format_c in *.
  destruct src as [vec str]. cbn [f_vec f_str] in *.
  destruct vec as [|t v]; subst str; cbn [option_map map set_format_c fst snd].
  - repeat split; reflexivity.
  - change (Some t :: map (@Some tok) v) with (map (@Some tok) (t :: v)).
    rewrite all_some_map_some. repeat split; reflexivity.
Qed.

(* every history over any number of objects: the cached strings are those of the abstract view
   (last accepted argument, copied by conversions), same return values *)
Definition FRef (s : nat -> fstate) (a : nat -> option (list tok)) : Prop :=
  forall i, FInv (s i) /\ get_format_c tok (s i) = a i.

Lemma fstep_refines s a o :
  FRef s a ->
  snd (fstep tok false s o) = snd (astepf tok a o) /\ FRef (fst (fstep tok false s o)) (fst (astepf tok a o)).
Proof.
  intros R. destruct o as [i arg|x y]; cbn [fstep astepf].
  - pose proof (get_after_set (s i) arg) as G. pose proof (set_format_inv (s i) arg (proj1 (R i))) as I.
    destruct (set_format_c tok false (s i) arg) as [n r]. cbn [fst snd] in *.
    destruct (norm_arg tok arg) as [v|].
    + destruct G as [-> G]. split; [reflexivity|]. intros k. unfold fput. cbn [fst].
      destruct (Nat.eqb k i); [split; assumption|apply R].
    + injection G as -> ->. split; [reflexivity|]. intros k. unfold fput. cbn [fst].
      destruct (Nat.eqb_spec k i) as [->|_]; apply R.
  - destruct (Nat.eqb x y); [split; [reflexivity|exact R]|].
    destruct (carry_spec (s x) (s y) (proj1 (R x))) as (C1 & C2 & C3).
    destruct (carry_format tok false (s x) (s y)) as [n r]. cbn [fst snd] in *.
    split; [exact C1|]. intros k. unfold fput. cbn [fst].
    destruct (Nat.eqb k y); [split; [exact C3|rewrite C2; apply R]|apply R].
Qed.

Theorem frun_refines l : forall s a, FRef s a -> FRef (frun tok false s l) (arunf tok a l).
Proof.
  induction l as [|o l IH]; intros s a R; [exact R|].
  cbn [frun arunf fold_left]. apply IH. apply fstep_refines. exact R.
Qed.

Theorem format_histories l i :
  get_format_c tok (frun tok false (fun _ => f_new tok) l i) = arunf tok (fun _ => None) l i.
Proof.
  apply (frun_refines l (fun _ => f_new tok) (fun _ => None)). intros k. split; reflexivity.
Qed.

(* the variant that keeps the old string when the vector becomes empty does not satisfy this:
   set a format on object 0, clear it, convert 0 into object 1 - object 0 still reports the
   format and object 1 acquires it (seeded change C06-8) *)
Theorem stale_string_refuted (t : tok) :
  let l := [FSet tok 0 (Some [Some t]); FSet tok 0 None; FCarry tok 0 1] in
  arunf tok (fun _ => None) l 0 = None /\ arunf tok (fun _ => None) l 1 = None /\
  get_format_c tok (frun tok true (fun _ => f_new tok) l 0) = Some [t] /\
  get_format_c tok (frun tok true (fun _ => f_new tok) l 1) = Some [t] /\
  get_format_c tok (frun tok false (fun _ => f_new tok) l 0) = None /\
  get_format_c tok (frun tok false (fun _ => f_new tok) l 1) = None.
Proof. cbv. repeat split; reflexivity. Qed.

End Format.
