(* Property C05, clause convert_chain: converting a 2 x 2 vnadata object A -> B -> C gives the same
   object as A -> C, per frequency, with ordinary or per-frequency reference impedances, in place
   or through other objects, on the common nonsingular set of the three conversions.  The `conv`
   of ConvertModel is ChainModel.conv2_interp (the generated two-port functions of property C04);
   the per-frequency equality is Conv/ConvThm.conv2_chain (Properties_C04.c04_two_port_chain). *)
Require Import List ZArith Bool Lia.
Require Import LV.Base.CField LV.Conv.ConvRel LV.Conv.ConvTac LV.Gen.Conv2All LV.Conv.ConvThm.
Require Import LV.Data.DataModel LV.Data.ArraySpec LV.Data.DataProofs LV.Data.RefineProofs
               LV.Data.ConvertModel LV.Data.ConvertRefine LV.Data.ConvertTheorems
               LV.Data.TwoObjModel LV.Data.TwoObjProofs LV.Data.ChainModel.
Import ListNotations.

Lemma vpt_of_Z_code t : vpt_of_Z (vpt_code t) = Some t.
Proof. destruct t; reflexivity. Qed.

Lemma pt_of_vpt_of_pt X : pt_of (vpt_of_pt X) = Some X.
Proof. destruct X; reflexivity. Qed.

(* what the dispatch selects between two different matrix types on a 2 x 2 object *)
Lemma conv_spec_matrix X Y : X <> Y ->
  exists cs, conv_spec (vpt_of_pt X) (vpt_of_pt Y) = Some cs /\ cs_kind cs = KXtoY /\
    (cs_fn cs = F2 (vpt_of_pt X) (vpt_of_pt Y) \/ cs_fn cs = FN (vpt_of_pt X) (vpt_of_pt Y)) /\
    cs_z0 cs = negb (Bool.eqb (is_power (vpt_of_pt X)) (is_power (vpt_of_pt Y))) /\
    dim_ok (cs_dim cs) 2 2 = true.
Proof.
  intros H. destruct X, Y; try (contradiction H; reflexivity);
    (eexists; split; [vm_compute; reflexivity|]; cbn; repeat split; auto).
Qed.

(* chains in which at most one type is an n-port type (S, Z, Y) call 2 x 2 functions only *)
Lemma chain_two_port_functions_only X Y cs :
  conv_spec (vpt_of_pt X) (vpt_of_pt Y) = Some cs -> X <> Y ->
  is_nport (vpt_of_pt X) && is_nport (vpt_of_pt Y) = false ->
  cs_fn cs = F2 (vpt_of_pt X) (vpt_of_pt Y).
Proof.
  intros E H N. destruct X, Y; try (contradiction H; reflexivity); try discriminate N;
    vm_compute in E; injection E as <-; reflexivity.
Qed.

Section ChainProofs.
Variable K : CField.
Variable zd : K.
Notation V := (F K).
Notation vzero := (@c0 K).
Variable vdef : V.

Notation conv := (conv2_interp K zd).
Notation arr := (arr V).
Notation vd := (vd V).
Notation Inv := (Inv V vzero vdef).
Notation abs := (ArraySpec.abs V).
Notation arr_eq := (ArraySpec.arr_eq V).
Notation spec_conv_arr := (spec_conv_arr V vzero vdef conv).
Notation convertf := (convert V vzero vdef fixed true conv).

(* the functions of the groups without z0 argument do not depend on their impedance parameters *)
Lemma conv2_noz0_indep X Y f :
  conv2 K X Y = Some f -> is_power (vpt_of_pt X) = is_power (vpt_of_pt Y) ->
  forall m z1 z2 z1' z2', f m z1 z2 = f m z1' z2'.
Proof.
  intros E P m z1 z2 z1' z2'.
  destruct X, Y; try discriminate E; try discriminate P; injection E as <-; destruct m; reflexivity.
Qed.

Definition mat (a : arr) (i : nat) : m2 K := M2 (a_dat V a i 0) (a_dat V a i 1) (a_dat V a i 2) (a_dat V a i 3).
Definition zr (a : arr) (i p : nat) : K := a_z0_row V a i p.

Lemma m2_eta (m : m2 K) : M2 (m11 m) (m12 m) (m21 m) (m22 m) = m.
Proof. destruct m; reflexivity. Qed.

(* frequency i of the results of a matrix -> matrix conversion of a 2 x 2 array: the generated
   two-port function on frequency i's matrix with frequency i's impedances *)
Lemma results_at (a : arr) X Y cs f i :
  a_rows V a = 2 -> conv_spec (vpt_of_pt X) (vpt_of_pt Y) = Some cs -> X <> Y ->
  conv2 K X Y = Some f -> i < a_freqs V a ->
  nth i (arr_conv_results V conv a cs) [] = list_of_m2 K (f (mat a i) (zr a i 0) (zr a i 1)).
Proof.
  intros R Hs Hxy Ef Hi.
  destruct (conv_spec_matrix X Y Hxy) as (cs' & Hs' & Hk & Hf & Hz & _).
  rewrite Hs in Hs'. injection Hs' as <-.
  unfold arr_conv_results. rewrite R. rewrite nth_map_seq by exact Hi.
  assert (C : forall m z0, conv (cs_fn cs) 2 m z0 = call2 K zd (vpt_of_pt X) (vpt_of_pt Y) m z0).
  { intros m z0. destruct Hf as [-> | ->]; reflexivity. }
  rewrite C. unfold call2. rewrite !pt_of_vpt_of_pt, Ef. f_equal.
  change (map (a_dat V a i) (seq 0 (2 * 2))) with [a_dat V a i 0; a_dat V a i 1; a_dat V a i 2; a_dat V a i 3].
  change (m2_of_list K [a_dat V a i 0; a_dat V a i 1; a_dat V a i 2; a_dat V a i 3]) with (mat a i).
  destruct (cs_z0 cs) eqn:Z.
  - reflexivity.
  - apply (conv2_noz0_indep X Y f Ef).
    destruct (is_power (vpt_of_pt X)), (is_power (vpt_of_pt Y)); try reflexivity; discriminate Hz.
Qed.

(* the hypotheses of the chain theorem at one frequency *)
Definition chain_ok_at (X Y Z : ptype) (m : m2 K) (z1 z2 : K) : Prop :=
  z0_ok z1 /\ z0_ok z2 /\ conv2_ok K X Y m z1 z2 /\ conv2_ok K X Z m z1 z2 /\
  forall f, conv2 K X Y = Some f -> conv2_ok K Y Z (f m z1 z2) z1 z2.
(* ... at every frequency of an array, with that frequency's impedances *)
Definition chain_ok (a : arr) (X Y Z : ptype) : Prop :=
  forall i, i < a_freqs V a -> chain_ok_at X Y Z (mat a i) (zr a i 0) (zr a i 1).

(* the chain on arrays *)
Lemma spec_chain (a : arr) X Y Z cs1 cs2 cs3 :
  char_ok K -> a_rows V a = 2 -> a_cols V a = 2 ->
  X <> Y -> Y <> Z -> X <> Z ->
  conv_spec (vpt_of_pt X) (vpt_of_pt Y) = Some cs1 ->
  conv_spec (vpt_of_pt Y) (vpt_of_pt Z) = Some cs2 ->
  conv_spec (vpt_of_pt X) (vpt_of_pt Z) = Some cs3 ->
  chain_ok a X Y Z ->
  arr_eq (spec_conv_arr (spec_conv_arr a (vpt_of_pt Y) cs1) (vpt_of_pt Z) cs2)
         (spec_conv_arr a (vpt_of_pt Z) cs3).
Proof.
  intros H2 R C Hxy Hyz Hxz Hs1 Hs2 Hs3 Hok.
  destruct (conv_spec_matrix X Y Hxy) as (c1 & E1 & K1 & _). rewrite Hs1 in E1. injection E1 as <-.
  destruct (conv_spec_matrix Y Z Hyz) as (c2 & E2 & K2 & _). rewrite Hs2 in E2. injection E2 as <-.
  destruct (conv_spec_matrix X Z Hxz) as (c3 & E3 & K3 & _). rewrite Hs3 in E3. injection E3 as <-.
  destruct (conv2_defined K X Y Hxy) as [f Ef].
  destruct (conv2_defined K Y Z Hyz) as [g Eg].
  destruct (conv2_defined K X Z Hxz) as [h Eh].
  set (a1 := spec_conv_arr a (vpt_of_pt Y) cs1).
  assert (R1 : a_rows V a1 = 2).
  { unfold a1, TwoObjModel.spec_conv_arr, arr_out_rows. cbn [a_rows]. rewrite K1. exact R. }
  assert (F1 : a_freqs V a1 = a_freqs V a) by reflexivity.
  assert (P1 : a_perf V a1 = a_perf V a) by reflexivity.
  assert (Z1 : forall i p, zr a1 i p = zr a i p).
  { intros i p. unfold zr, a_z0_row. rewrite P1. unfold a1, TwoObjModel.spec_conv_arr. cbn [a_z0 a_fz0].
    destruct (a_perf V a); reflexivity. }
  assert (M1 : forall i, i < a_freqs V a -> mat a1 i = f (mat a i) (zr a i 0) (zr a i 1)).
  { intros i Hi. unfold mat at 1. unfold a1, TwoObjModel.spec_conv_arr. cbn [a_dat].
    unfold arr_conv_dat, arr_conv_len. rewrite K1, R.
    rewrite (results_at a X Y cs1 f i R Hs1 Hxy Ef Hi).
    destruct (Nat.ltb_spec i (a_freqs V a)) as [_|]; [|lia].
    cbn [andb Nat.ltb Nat.leb Nat.mul Nat.add list_of_m2 nth]. apply m2_eta. }
  assert (D : forall i j, arr_conv_dat V vzero conv a1 cs2 i j = arr_conv_dat V vzero conv a cs3 i j).
  { intros i j. unfold arr_conv_dat, arr_conv_len. rewrite K2, K3, R1, R, F1.
    destruct (Nat.ltb_spec i (a_freqs V a)) as [Hi|]; [|reflexivity]. cbn [andb].
    destruct (Nat.ltb j (2 * 2)); [|reflexivity]. f_equal.
    rewrite (results_at a1 Y Z cs2 g i R1 Hs2 Hyz Eg) by (rewrite F1; exact Hi).
    rewrite (results_at a X Z cs3 h i R Hs3 Hxz Eh Hi).
    rewrite (M1 i Hi), !Z1. f_equal.
    destruct (Hok i Hi) as (Hz1 & Hz2 & O1 & O3 & O2).
    apply (conv2_chain K (zr a i 0) (zr a i 1) H2 Hz1 Hz2 X Y Z f g h (mat a i) Ef Eg Eh O1 (O2 f Ef) O3). }
  assert (C1 : a_cols V a1 = a_cols V a).
  { unfold a1, TwoObjModel.spec_conv_arr, arr_out_cols. cbn [a_cols]. rewrite K1. reflexivity. }
  change (a_perf V a1) with (a_perf V a) in *.
  unfold ArraySpec.arr_eq, TwoObjModel.spec_conv_arr.
  cbn [a_ty a_rows a_cols a_freqs a_perf a_fv a_dat a_z0 a_fz0 a_ftype a_fmt a_fprec a_dprec].
  unfold arr_out_rows, arr_out_cols. rewrite K2, K3, R1, R, C1.
  repeat split; try reflexivity.
  - exact D.
  - intros P j. change (a_perf V a1) with (a_perf V a) in P.
    unfold a1, TwoObjModel.spec_conv_arr. cbn [a_z0 a_perf]. rewrite !P. reflexivity.
Qed.

(* an accepted conversion of a valid object, in place or into any valid object *)
Lemma convert_accepts (d dout : vd) (same : bool) nt cs :
  Inv d -> Inv dout -> conv_spec (ty V d) nt = Some cs ->
  dim_ok (cs_dim cs) (rows V d) (cols V d) = true ->
  snd (convertf d dout same (vpt_code nt)) = ok V /\ Inv (fst (convertf d dout same (vpt_code nt))) /\
  arr_eq (abs (fst (convertf d dout same (vpt_code nt)))) (spec_conv_arr (abs d) nt cs).
Proof.
  intros HI HO Hs Hd.
  destruct (convert_result V vzero vdef true conv d dout same (vpt_code nt) nt cs HI HO (vpt_of_Z_code nt) Hs Hd)
    as (R1 & R2 & R3).
  rewrite out_perf_repaired, conv_target_abs in R3. split; [exact R1|]. split; [exact R2|exact R3].
Qed.

(* the chain on vnadata objects: A of type X (2 x 2, any number of frequencies, ordinary or
   per-frequency impedances) converted to Y - in place (s1 = true) or into any valid object o1 - and
   the result converted to Z - in place or into any valid object o2 - has the same logical contents
   as A converted to Z directly (in place or into any valid object o3); all three calls succeed *)
Theorem convert_chain (d o1 o2 o3 : vd) (s1 s2 s3 : bool) X Y Z :
  char_ok K -> Inv d -> Inv o1 -> Inv o2 -> Inv o3 ->
  ty V d = vpt_of_pt X -> rows V d = 2 -> cols V d = 2 ->
  X <> Y -> Y <> Z -> X <> Z ->
  chain_ok (abs d) X Y Z ->
  let rb := convertf d o1 s1 (vpt_code (vpt_of_pt Y)) in
  let rc := convertf (fst rb) o2 s2 (vpt_code (vpt_of_pt Z)) in
  let rd := convertf d o3 s3 (vpt_code (vpt_of_pt Z)) in
  snd rb = ok V /\ snd rc = ok V /\ snd rd = ok V /\
  arr_eq (abs (fst rc)) (abs (fst rd)).
Proof.
  intros H2 HI H1 HO2 HO3 Ht R C Hxy Hyz Hxz Hok rb rc rd.
  destruct (conv_spec_matrix X Y Hxy) as (cs1 & Hs1 & _ & _ & _ & D1).
  destruct (conv_spec_matrix Y Z Hyz) as (cs2 & Hs2 & _ & _ & _ & D2).
  destruct (conv_spec_matrix X Z Hxz) as (cs3 & Hs3 & K3 & _ & _ & D3).
  assert (Hs1' : conv_spec (ty V d) (vpt_of_pt Y) = Some cs1) by (rewrite Ht; exact Hs1).
  assert (Hs3' : conv_spec (ty V d) (vpt_of_pt Z) = Some cs3) by (rewrite Ht; exact Hs3).
  assert (D1' : dim_ok (cs_dim cs1) (rows V d) (cols V d) = true) by (rewrite R, C; exact D1).
  assert (D3' : dim_ok (cs_dim cs3) (rows V d) (cols V d) = true) by (rewrite R, C; exact D3).
  destruct (convert_accepts d o1 s1 (vpt_of_pt Y) cs1 HI H1 Hs1' D1') as (B1 & B2 & B3). fold rb in B1, B2, B3.
  destruct (convert_accepts d o3 s3 (vpt_of_pt Z) cs3 HI HO3 Hs3' D3') as (E1 & E2 & E3). fold rd in E1, E2, E3.
  pose proof B3 as (T1 & T2 & T3 & _).
  cbn [ArraySpec.abs a_ty a_rows a_cols TwoObjModel.spec_conv_arr] in T1, T2, T3.
  destruct (conv_spec_matrix X Y Hxy) as (c1 & Q1 & K1 & _). rewrite Hs1 in Q1. injection Q1 as <-.
  unfold arr_out_rows, arr_out_cols in T2, T3. rewrite K1 in T2, T3. cbn [ArraySpec.abs a_rows a_cols] in T2, T3.
  assert (Hs2' : conv_spec (ty V (fst rb)) (vpt_of_pt Z) = Some cs2) by (rewrite T1; exact Hs2).
  assert (D2' : dim_ok (cs_dim cs2) (rows V (fst rb)) (cols V (fst rb)) = true) by (rewrite T2, T3, R, C; exact D2).
  destruct (convert_accepts (fst rb) o2 s2 (vpt_of_pt Z) cs2 B2 HO2 Hs2' D2') as (C1 & C2 & C3). fold rc in C1, C2, C3.
  split; [exact B1|]. split; [exact C1|]. split; [exact E1|].
  eapply (arr_eq_trans V); [exact C3|].
  eapply (arr_eq_trans V); [apply (spec_conv_arr_ext V vzero vdef conv); exact B3|].
  eapply (arr_eq_trans V); [|apply (arr_eq_sym V); exact E3].
  apply (spec_chain (abs d) X Y Z cs1 cs2 cs3); assumption.
Qed.

End ChainProofs.
