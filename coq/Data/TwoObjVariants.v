(* Property C05: two additions after the second review.
   (a) convert_keeps_ordinary_z0: the ordinary impedance vector of the source is the ordinary
       vector of the result also when the object has no frequencies (the z0 clause of
       c05_convert_pointwise speaks per frequency and is empty then).
   (b) the representation invariant Inv is proved for histories of container operations and
       conversions; an object made by vnadata_load could violate it before fix DB91 (the NPD loader
       stored `#:fprecision 0` although vnadata_set_fprecision refuses 0).  For such a source the
       model shows what the library did: the conversion into a second object fails in the option
       copy AFTER vnadata_init has wiped the destination, while the same conversion in place
       succeeds - "in place = out of place" is false outside Inv.  Variant before the fix: with
       DB91 no public call produces the source. *)
Require Import List ZArith Bool Lia.
Require Import LV.Data.DataModel LV.Data.ArraySpec LV.Data.DataProofs LV.Data.RefineProofs
               LV.Data.ConvertModel LV.Data.ConvertRefine LV.Data.ConvertTheorems LV.Data.ConvertExamples
               LV.Data.TwoObjModel LV.Data.TwoObjProofs.
Import ListNotations.

Section KeepsZ0.
Variable V : Type.
Variables vzero vdef : V.
Variable conv : fname -> nat -> list V -> list V -> list V.

Theorem convert_keeps_ordinary_z0 d dout same ntz nt cs :
  Inv V vzero vdef d -> Inv V vzero vdef dout -> vpt_of_Z ntz = Some nt -> conv_spec (ty V d) nt = Some cs ->
  dim_ok (cs_dim cs) (rows V d) (cols V d) = true -> per_f V d = false ->
  let d' := fst (convert V vzero vdef fixed true conv d dout same ntz) in
  per_f V d' = false /\ forall p, z0v V d' p = z0v V d p.
Proof.
  intros HI HO Ht Hs Hd P. cbv zeta.
  destruct (convert_result V vzero vdef true conv d dout same ntz nt cs HI HO Ht Hs Hd) as (_ & _ & R).
  rewrite out_perf_repaired in R.
  destruct R as (_ & _ & _ & _ & E5 & _ & _ & Ez0 & _).
  cbn [ArraySpec.abs a_perf a_z0 conv_target] in E5, Ez0. rewrite P in E5, Ez0.
  split; [exact E5|]. intros p. apply (Ez0 E5).
Qed.
End KeepsZ0.

(* (b) the source of ConvertExamples with fprecision 0, as `#:fprecision 0` left it before DB91 *)
Definition bad_src : vd sym :=
  set_meta sym ex_src (ftype sym ex_src) (fmt sym ex_src) 0 (dprec sym ex_src).

Theorem model_variant_before_DB91_precision_zero :
  ~ sInv bad_src /\
  (* S -> Z into the used second object: refused in the option copy, destination already wiped *)
  (let r := sconvert_r bad_src ex_dst false 4 in
   snd r = fail sym /\
   (ty sym (fst r), rows sym (fst r), cols sym (fst r), freqs sym (fst r)) = (VUNDEF, 2, 2, 2) /\
   ob_dat sym (observe sym (fst r)) = [[L 0; L 0; L 0; L 0]; [L 0; L 0; L 0; L 0]] /\
   ob_dat sym (observe sym ex_dst) <> ob_dat sym (observe sym (fst r))) /\
  (* the same conversion in place succeeds *)
  (let r := sconvert_r bad_src bad_src true 4 in
   snd r = ok sym /\ ty sym (fst r) = VZ /\
   nth 0 (nth 0 (ob_dat sym (observe sym (fst r))) []) (L 0) = R (FN VS VZ) 2 [L 1; L 2; L 3; L 4] [L 50; L 75] 0).
Proof.
  split; [|split].
  - intros (_ & _ & _ & _ & _ & H & _). vm_compute in H. apply H. reflexivity.
  - vm_compute. repeat split; try reflexivity. intros H. discriminate H.
  - vm_compute. repeat split; reflexivity.
Qed.
