(* Refinement of DataModel (repaired behaviour) to the abstract array of ArraySpec: the model's
   type / dimension function decides the rule the specification states; a forward simulation for
   every operation, hence equal outcomes for every history (property C15).  The lemmas about
   `step` (sim_step, sim_trace, ...) are about the model function that completes short caller
   vectors with a default; the `_chk` lemmas are about `step_chk`, where reading past the end of a
   caller's vector is a fault, and carry the premise that the caller's vectors have the documented
   length (ArraySpec.vec_ok / vecs_ok). *)
Require Import List ZArith Bool Lia.
Require Import LV.Data.DataModel LV.Data.ArraySpec LV.Data.DataProofs.
Import ListNotations.

Ltac bd :=
  repeat match goal with
  | |- context [Nat.ltb ?a ?b] => destruct (Nat.ltb_spec a b)
  | |- context [Nat.leb ?a ?b] => destruct (Nat.leb_spec a b)
  | |- context [Nat.eqb ?a ?b] => destruct (Nat.eqb_spec a b)
  end; cbn [andb orb negb].

(* ---------------------------------------------------------------- the type / dimension rule *)
(* the decision procedure of the specification decides the relation written from the manual *)
Lemma type_rule_spec t r c : type_rule t r c = true <-> dims_fit t r c.
Proof.
  split.
  - unfold type_rule. destruct t; cbn [shape_of]; intros H;
      try (apply Nat.eqb_eq in H; subst);
      try (apply andb_true_iff in H; destruct H as [H1 H2]; apply Nat.eqb_eq in H1, H2; subst).
    + apply fit_undefined.
    + apply fit_n_port. left. reflexivity.
    + apply fit_two_port. cbn. tauto.
    + apply fit_two_port. cbn. tauto.
    + apply fit_n_port. right. left. reflexivity.
    + apply fit_n_port. right. right. reflexivity.
    + apply fit_two_port. cbn. tauto.
    + apply fit_two_port. cbn. tauto.
    + apply fit_two_port. cbn. tauto.
    + apply fit_two_port. cbn. tauto.
    + apply fit_zin.
  - intros H. destruct H as [r c|t n H|t H|n].
    + reflexivity.
    + destruct H as [->|[->| ->]]; cbn; apply Nat.eqb_refl.
    + cbn in H. destruct H as [<-|[<-|[<-|[<-|[<-|[<-|[]]]]]]]; reflexivity.
    + reflexivity.
Qed.

(* the model's rule (DataModel.validate_type, read from validate_type of vnadata_alloc.c) is the
   manual's rule *)
Lemma validate_type_is_manual_rule t r c : validate_type t r c = type_rule t r c.
Proof. destruct t; reflexivity. Qed.

Lemma validate_type_manual t r c : validate_type t r c = true <-> dims_fit t r c.
Proof. rewrite validate_type_is_manual_rule. apply type_rule_spec. Qed.

(* the rule is not trivial: each clause accepts and refuses something *)
Example dims_fit_examples :
  dims_fit VS 3 3 /\ ~ dims_fit VS 2 3 /\ dims_fit VH 2 2 /\ ~ dims_fit VH 3 3 /\ ~ dims_fit VT 1 1 /\
  dims_fit VZIN 1 4 /\ dims_fit VZIN 1 0 /\ ~ dims_fit VZIN 2 2 /\ dims_fit VUNDEF 2 3 /\ dims_fit VY 0 0.
Proof.
  repeat split; try (apply type_rule_spec; reflexivity);
    intros H; apply type_rule_spec in H; discriminate H.
Qed.

Section Refine.
Variable V : Type.
Variables vzero vdef : V.
Notation vd := (vd V).
Notation stepf := (DataModel.step V vzero vdef fixed).
Notation Inv := (Inv V vzero vdef).
Notation abs := (ArraySpec.abs V).
Notation spec_step := (ArraySpec.spec_step V vzero vdef).
Notation arr_eq := (ArraySpec.arr_eq V).

Definition refines (d : vd) (a : arr V) : Prop := arr_eq (abs d) a.

Definition sim (d : vd) (a : arr V) (o : op V) : Prop :=
  snd (stepf d o) = snd (spec_step a o) /\ refines (fst (stepf d o)) (fst (spec_step a o)).

(* bring the abstract array into the shape "scalar fields of d, pointwise equal functions" *)
Ltac open_ref H a :=
  destruct a as [aty ar ac af ap afv adat az0 afz0 aft afm afp adp];
  destruct H as (E1 & E2 & E3 & E4 & E5 & Efv & Edat & Ez0 & Efz0 & E6 & E7 & E8 & E9);
  cbn [ArraySpec.abs a_ty a_rows a_cols a_freqs a_perf a_fv a_dat a_z0 a_fz0 a_ftype a_fmt a_fprec a_dprec] in *;
  subst aty ar ac af ap aft afm afp adp.

Ltac arr_cbn :=
  cbn [ArraySpec.abs a_ty a_rows a_cols a_freqs a_perf a_fv a_dat a_z0 a_fz0 a_ftype a_fmt a_fprec a_dprec
       a_ports a_cells with_fv with_dat with_z0 with_fz0 with_meta
       ty rows cols freqs p_alloc f_alloc m_alloc per_f z0v z0vv fv dat ftype fmt fprec dprec
       set_z0v set_z0vv set_fv set_dat set_palloc set_malloc set_falloc set_dims set_perf set_meta
       fst snd].

Lemma refines_refl d : refines d (abs d).
Proof. unfold refines, ArraySpec.arr_eq. repeat split; auto. Qed.

(* getters and other operations that leave the state alone *)
Lemma sim_same d a o r r' :
  refines d a -> stepf d o = (d, r) -> spec_step a o = (a, r') -> r = r' -> sim d a o.
Proof. intros H E1 E2 E. unfold sim. rewrite E1, E2. cbn. split; assumption. Qed.


Ltac split_ir :=
  repeat match goal with
  | |- context [in_range ?i ?n] => let E := fresh "IR" in destruct (in_range i n) eqn:E; cbn [negb andb]
  end.
Ltac split_if1 := match goal with |- context [if ?b then _ else _] => let E := fresh "C" in destruct b eqn:E end.
Ltac keep_ref :=
  unfold refines, ArraySpec.arr_eq; arr_cbn; repeat split; auto; intros; try congruence;
  try (match goal with H : _ = false -> forall j, _ = _ |- _ => apply H; congruence end);
  try (match goal with H : _ = true -> forall i j, _ = _ |- _ => apply H; congruence end).
Ltac eq_out Efv Edat Ez0 Efz0 :=
  try reflexivity;
  try (match goal with |- okp _ (_ (map _ ?l)) = okp _ (_ (map _ ?l)) =>
         f_equal; f_equal; apply map_ext; intros end);
  try (match goal with |- okp _ (_ _ (map _ ?l)) = okp _ (_ _ (map _ ?l)) =>
         f_equal; f_equal; apply map_ext; intros end);
  rewrite ?Efv, ?Edat; try reflexivity;
  try (rewrite Ez0 by congruence; reflexivity); try (rewrite Efz0 by congruence; reflexivity).

(* ---------------------------------------------------------------- getters *)
Lemma sim_getters d a o :
  Inv d -> refines d a ->
  match o with
  | OGetFreq _ _ | OGetFmin _ | OGetFmax _ | OGetFreqVec _ | OGetCell _ _ _ _ | OGetMatrix _ _
  | OGetToVec _ _ _ | OGetZ0 _ _ | OGetZ0Vec _ | OHasFz0 _ | OGetFz0 _ _ _ | OGetFz0Vec _ _
  | OGetDims _ | OGetMeta _ => True
  | _ => False
  end -> sim d a o.
Proof.
  intros HI H Ho. pose proof (step_no_fault V vzero vdef d o HI) as NF. revert NF.
  open_ref H a. unfold sim.
  destruct o; try contradiction; clear Ho; cbn [DataModel.step ArraySpec.spec_step];
  unfold get_frequency, get_fmin, get_fmax, get_frequency_vector, get_cell, get_matrix, get_to_vector,
         get_z0, get_z0_vector, has_fz0, get_fz0, get_fz0_vector, port_ok, sfail, cell_index, cells, ports,
         a_cells, a_ports;
  cbn [q_d4 fixed]; arr_cbn; destruct (per_f V d) eqn:Epf; split_ir; repeat split_if1; arr_cbn; intros NF;
  try (contradiction NF; reflexivity); try discriminate;
  (split; [eq_out Efv Edat Ez0 Efz0 | keep_ref]).
Qed.


Ltac upd_ref Efv Edat :=
  unfold refines, ArraySpec.arr_eq; arr_cbn; repeat split; auto; intros; unfold upd1, upd2;
  rewrite ?Efv, ?Edat; try reflexivity; try congruence;
  try (match goal with H : _ = false -> forall j, _ = _ |- _ => apply H; congruence end);
  try (match goal with H : _ = true -> forall i j, _ = _ |- _ => apply H; congruence end).

(* ---------------------------------------------------------------- setters without mode switch *)
Lemma sim_setters d a o :
  Inv d -> refines d a ->
  match o with
  | OSetFreq _ _ _ | OSetFreqVec _ _ | OSetCell _ _ _ _ _ | OSetMatrix _ _ _ | OSetFromVec _ _ _ _
  | OSetType _ _ | OSetFiletype _ _ | OSetFormat _ _ | OSetFprec _ _ | OSetDprec _ _ => True
  | _ => False
  end -> sim d a o.
Proof.
  intros HI H Ho. pose proof (step_no_fault V vzero vdef d o HI) as NF. revert NF.
  open_ref H a. unfold sim.
  destruct o; try contradiction; clear Ho; cbn [DataModel.step ArraySpec.spec_step];
  unfold set_frequency, set_frequency_vector, set_cell, set_matrix, set_from_vector, set_type,
         set_filetype, set_format, set_fprecision, set_dprecision, sfail, cell_index, cells, ports,
         a_cells, a_ports;
  arr_cbn; destruct (per_f V d) eqn:Epf; split_ir;
  try (destruct (vpt_of_Z t) eqn:Et); rewrite ?validate_type_is_manual_rule; repeat split_if1; arr_cbn; intros NF;
  try (contradiction NF; reflexivity); try discriminate;
  (split; [reflexivity | upd_ref Efv Edat]).
Qed.


(* ---------------------------------------------------------------- z0 setters (mode switches) *)
Lemma sim_z0_setters d a o :
  Inv d -> refines d a ->
  match o with
  | OSetZ0 _ _ _ | OSetAllZ0 _ _ | OSetZ0Vec _ _ => True
  | _ => False
  end -> sim d a o.
Proof.
  intros HI H Ho. pose proof (step_no_fault V vzero vdef d o HI) as NF. revert NF.
  open_ref H a. unfold sim.
  destruct o; try contradiction; clear Ho; cbn [DataModel.step ArraySpec.spec_step];
  unfold set_z0, set_all_z0, set_z0_vector, spec_set_all_z0, port_ok, convert_to_z0, z0_base, sfail,
         cells, ports, a_cells, a_ports;
  cbn [q_d4 fixed]; arr_cbn; destruct (per_f V d) eqn:Epf; arr_cbn; split_ir; repeat split_if1; arr_cbn;
  intros NF; try (contradiction NF; reflexivity); try discriminate;
  (split; [reflexivity | upd_ref Efv Edat]).
  all: try (rewrite Ez0 by reflexivity; reflexivity).
Qed.

Lemma sim_fz0_setters d a o :
  Inv d -> refines d a ->
  match o with
  | OSetFz0 _ _ _ _ | OSetFz0Vec _ _ _ => True
  | _ => False
  end -> sim d a o.
Proof.
  intros HI H Ho. pose proof (step_no_fault V vzero vdef d o HI) as NF. revert NF.
  pose proof HI as (I1 & I2 & I3 & (K1 & K2 & K3 & K4) & _).
  open_ref H a. unfold sim.
  destruct o; try contradiction; clear Ho; cbn [DataModel.step ArraySpec.spec_step];
  unfold set_fz0, set_fz0_vector, port_ok, convert_to_fz0, fz0_base, sfail,
         cells, ports, a_cells, a_ports in *;
  cbn [q_d4 q_d6 fixed]; arr_cbn; destruct (per_f V d) eqn:Epf; arr_cbn; split_ir; repeat split_if1; arr_cbn;
  intros NF; try (contradiction NF; reflexivity); try discriminate;
  (split; [reflexivity | upd_ref Efv Edat]).
  all: try (rewrite Efz0 by reflexivity; reflexivity).
  all: rewrite <- Ez0 by reflexivity; bd; auto; try lia; try (symmetry; apply K3; [reflexivity|lia]).
Qed.


(* ---------------------------------------------------------------- resize, init, add_frequency *)
Lemma resize_dich d tz r c f :
  Inv d ->
  match resize_cond tz r c f with
  | Some t => snd (resize V vzero vdef fixed d tz r c f) = ok V /\ vpt_of_Z tz = Some t
  | None => resize V vzero vdef fixed d tz r c f = (d, fail V)
  end.
Proof.
  intros HI. pose proof (resize_no_fault V vzero vdef d tz r c f HI) as NF. revert NF.
  unfold resize_cond, DataModel.resize.
  destruct (vpt_of_Z tz) as [t|].
  2:{ destruct (Z.ltb r 0), (Z.ltb c 0), (Z.ltb f 0); reflexivity. }
  destruct (Z.ltb_spec r 0); [destruct (Z.leb_spec 0 r); [lia|reflexivity]|].
  destruct (Z.ltb_spec c 0); [destruct (Z.leb_spec 0 r), (Z.leb_spec 0 c); try lia; reflexivity|].
  destruct (Z.ltb_spec f 0); [destruct (Z.leb_spec 0 r), (Z.leb_spec 0 c), (Z.leb_spec 0 f); try lia; reflexivity|].
  destruct (Z.leb_spec 0 r), (Z.leb_spec 0 c), (Z.leb_spec 0 f); try lia. cbn [andb].
  rewrite validate_type_is_manual_rule.
  destruct (type_rule t (Z.to_nat r) (Z.to_nat c)); cbn [negb andb]; [|reflexivity].
  cbn [q_d40 fixed].
  destruct (Z.ltb_spec INT_MAX (Z.of_nat (Z.to_nat r) * Z.of_nat (Z.to_nat c)));
    destruct (Z.leb_spec (Z.of_nat (Z.to_nat r) * Z.of_nat (Z.to_nat c)) INT_MAX); try lia; [reflexivity|].
  match goal with |- context [if ?b then _ else _] => destruct b end; cbn; intros NF;
    [split; reflexivity|contradiction NF; reflexivity].
Qed.

Lemma sim_resize d a tz r c f : Inv d -> refines d a -> sim d a (OResize V tz r c f).
Proof.
  intros HI H. unfold sim. cbn [DataModel.step ArraySpec.spec_step]. unfold spec_resize_op.
  pose proof (resize_dich d tz r c f HI) as D.
  destruct (resize_cond tz r c f) as [t|].
  2:{ rewrite D. cbn. split; [reflexivity|exact H]. }
  destruct D as [Hs Ht]. cbn [fst snd]. split; [exact Hs|].
  assert (Hok : o_ret V (snd (resize V vzero vdef fixed d tz r c f)) = ROk) by (rewrite Hs; reflexivity).
  destruct (resize_ok_spec V vzero vdef fixed d tz r c f HI Hok) as (t' & Ht' & _ & _ & _ & _ & _ & HR).
  assert (t' = t) by congruence. subst t'.
  destruct HR as (A1 & A2 & A3 & A4 & A5 & A6 & A7 & A8 & A9 & A10 & A11 & A12 & B1 & B2 & B3 & B4).
  open_ref H a.
  unfold refines, ArraySpec.arr_eq, spec_resize, a_cells, a_ports, cells, ports in *. arr_cbn.
  repeat split; auto; intros; try congruence.
  - rewrite B1. rewrite Efv. reflexivity.
  - rewrite B2. rewrite Edat. reflexivity.
  - rewrite B3 by congruence. rewrite Ez0 by congruence. reflexivity.
  - rewrite B4 by congruence. rewrite Efz0 by congruence. reflexivity.
Qed.


Lemma sim_add_frequency d a x : Inv d -> refines d a -> sim d a (OAddFreq V x).
Proof.
  intros HI H. pose proof (step_no_fault V vzero vdef d (OAddFreq V x) HI) as NF. revert NF.
  pose proof HI as (I1 & I2 & I3 & K & _).
  unfold sim. cbn [DataModel.step ArraySpec.spec_step]. unfold add_frequency, sfail.
  destruct (Z.ltb x 0); [intros _; cbn; split; [reflexivity|exact H]|].
  set (n := Nat.max 50 (f_alloc V d + f_alloc V d / 2)).
  pose proof (extend_f_fields V vzero vdef d n) as F. cbv zeta in F.
  destruct F as (F1 & F2 & F3 & F4 & F5 & F6 & F7 & F8 & F9 & F10 & F11 & F12).
  pose proof (extend_f_id V vzero vdef _ _ _ d n K I2) as (S1 & S2 & S3 & S4).
  assert (D1 : exists d1, (if Nat.ltb (f_alloc V d) (freqs V d + 1) then extend_f V vzero vdef d n else d) = d1 /\
     rows V d1 = rows V d /\ cols V d1 = cols V d /\ freqs V d1 = freqs V d /\ ty V d1 = ty V d /\
     per_f V d1 = per_f V d /\ ftype V d1 = ftype V d /\ fmt V d1 = fmt V d /\ fprec V d1 = fprec V d /\
     dprec V d1 = dprec V d /\
     (forall i, fv V d1 i = fv V d i) /\ (forall i j, dat V d1 i j = dat V d i j) /\
     (per_f V d = false -> forall j, z0v V d1 j = z0v V d j) /\
     (per_f V d = true -> forall i j, z0vv V d1 i j = z0vv V d i j)).
  { destruct (Nat.ltb _ _); eexists; (split; [reflexivity|]); repeat split; auto. }
  destruct D1 as (d1 & -> & R1 & R2 & R3 & R4 & R5 & R6 & R7 & R8 & R9 & Q1 & Q2 & Q3 & Q4).
  destruct (Nat.ltb (freqs V d1) (f_alloc V d1)); cbn [snd fst o_ret fault]; intros NF;
    [|contradiction NF; reflexivity].
  split; [reflexivity|].
  open_ref H a. unfold refines, ArraySpec.arr_eq. arr_cbn. unfold upd1.
  rewrite R1, R2, R3, R4, R5, R6, R7, R8, R9.
  repeat split; auto; intros.
  - rewrite Q1, Efv. reflexivity.
  - rewrite Q2, Edat. reflexivity.
  - rewrite Q3, Ez0 by assumption. reflexivity.
  - rewrite Q4, Efz0 by assumption. reflexivity.
Qed.

Lemma sim_init d a tz r c f : Inv d -> refines d a -> sim d a (OInit V tz r c f).
Proof.
  intros HI H.
  destruct (sim_resize d a 0 0 0 0 HI H) as [_ H1].
  cbn [DataModel.step ArraySpec.spec_step] in H1.
  assert (I1 : Inv (fst (resize V vzero vdef fixed d 0 0 0 0))) by (apply resize_inv; exact HI).
  assert (G : match OSetAllZ0 V vdef with OSetZ0 _ _ _ | OSetAllZ0 _ _ | OSetZ0Vec _ _ => True | _ => False end)
    by exact I.
  destruct (sim_z0_setters _ _ (OSetAllZ0 V vdef) I1 H1 G) as [_ H2].
  cbn [DataModel.step ArraySpec.spec_step fst] in H2.
  assert (I2 : Inv (fst (set_all_z0 V vdef (fst (resize V vzero vdef fixed d 0 0 0 0)) vdef))).
  { change (Inv (fst (stepf (fst (resize V vzero vdef fixed d 0 0 0 0)) (OSetAllZ0 V vdef)))).
    apply step_inv. exact I1. }
  exact (sim_resize _ _ tz r c f I2 H2).
Qed.

(* ---------------------------------------------------------------- every operation *)
Theorem sim_step d a o : Inv d -> refines d a -> sim d a o.
Proof.
  intros HI H. destruct o;
    first [ apply sim_init; assumption | apply sim_resize; assumption | apply sim_add_frequency; assumption
          | apply sim_getters; [assumption|assumption|exact I]
          | apply sim_setters; [assumption|assumption|exact I]
          | apply sim_z0_setters; [assumption|assumption|exact I]
          | apply sim_fz0_setters; [assumption|assumption|exact I] ].
Qed.

(* outcomes of a history on the model *)
Fixpoint trace (d : vd) (l : list (op V)) : list (outcome V) :=
  match l with
  | [] => []
  | o :: r => snd (stepf d o) :: trace (fst (stepf d o)) r
  end.

Theorem sim_trace l : forall d a, Inv d -> refines d a ->
  trace d l = spec_trace V vzero vdef a l /\
  refines (run V vzero vdef fixed d l) (fold_left (fun s o => fst (spec_step s o)) l a).
Proof.
  induction l as [|o l IH]; intros d a HI H; [split; [reflexivity|exact H]|].
  destruct (sim_step d a o HI H) as [E R].
  destruct (IH _ _ (step_inv V vzero vdef d o HI) R) as [E' R'].
  cbn [trace spec_trace run fold_left]. split; [rewrite E, E'; reflexivity|exact R'].
Qed.

(* every history from vnadata_alloc produces exactly the outcomes the abstract array predicts *)
Theorem data_refines_array l :
  trace (vd_alloc V vzero vdef) l = spec_trace V vzero vdef (arr_alloc V vzero vdef) l.
Proof.
  apply sim_trace; [apply inv_alloc|].
  unfold refines, ArraySpec.arr_eq, ArraySpec.abs, arr_alloc, vd_alloc. cbn. repeat split; auto.
Qed.

(* two states that satisfy the invariant and have the same abstraction cannot be told apart by
   any history of operations (in particular not by later resizes) *)
Theorem indistinguishable d1 d2 l :
  Inv d1 -> Inv d2 -> arr_eq (abs d1) (abs d2) -> trace d1 l = trace d2 l.
Proof.
  intros I1 I2 E.
  destruct (sim_trace l d1 (abs d2) I1 E) as [E1 _].
  destruct (sim_trace l d2 (abs d2) I2 (refines_refl d2)) as [E2 _].
  congruence.
Qed.

(* ---------------------------------------------------------------- type / dimension rules enforced *)
(* every reachable object has dimensions that fit its type ... *)
Lemma reachable_dims_fit d : reachable V vzero vdef fixed d -> dims_fit (ty V d) (rows V d) (cols V d).
Proof.
  intros R. apply inv_reachable in R. destruct R as (_ & _ & _ & _ & Hv & _).
  apply validate_type_manual. exact Hv.
Qed.

(* ... because resize (hence init) and set_type accept a request exactly when the type code is
   one of the eleven, the dimensions are not negative, fit the type and rows * columns fits an int *)
Lemma resize_accepts_iff d tz r c f : Inv d ->
  (o_ret V (snd (stepf d (OResize V tz r c f))) = ROk <->
   exists t, vpt_of_Z tz = Some t /\ (0 <= r)%Z /\ (0 <= c)%Z /\ (0 <= f)%Z /\
             dims_fit t (Z.to_nat r) (Z.to_nat c) /\ (r * c <= INT_MAX)%Z).
Proof.
  intros HI. cbn [DataModel.step]. pose proof (resize_dich d tz r c f HI) as D.
  unfold resize_cond in D. destruct (vpt_of_Z tz) as [t|].
  2:{ rewrite D. split; [discriminate|intros (t & Ht & _); discriminate Ht]. }
  destruct (Z.leb_spec 0 r), (Z.leb_spec 0 c), (Z.leb_spec 0 f); cbn [andb] in D;
    try (rewrite D; split; [discriminate|intros (t' & _ & ? & ? & ? & _); lia]).
  destruct (type_rule t (Z.to_nat r) (Z.to_nat c)) eqn:Et; cbn [andb] in D.
  2:{ rewrite D. split; [discriminate|intros (t' & Ht' & _ & _ & _ & F & _)].
      injection Ht' as <-. apply type_rule_spec in F. congruence. }
  rewrite !Z2Nat.id in D by assumption.
  destruct (Z.leb_spec (r * c) INT_MAX).
  - destruct D as [D _]. rewrite D. split; [intros _|reflexivity].
    exists t. repeat split; try assumption. apply type_rule_spec. exact Et.
  - rewrite D. split; [discriminate|intros (t' & _ & _ & _ & _ & _ & ?); lia].
Qed.

Lemma set_type_accepts_iff d tz :
  (o_ret V (snd (stepf d (OSetType V tz))) = ROk <->
   exists t, vpt_of_Z tz = Some t /\ dims_fit t (rows V d) (cols V d)) /\
  (forall t, vpt_of_Z tz = Some t -> dims_fit t (rows V d) (cols V d) ->
     ty V (fst (stepf d (OSetType V tz))) = t).
Proof.
  cbn [DataModel.step]. unfold set_type. destruct (vpt_of_Z tz) as [t|].
  2:{ split; [split; [discriminate|intros (t & Ht & _); discriminate Ht]|intros t Ht; discriminate Ht]. }
  rewrite validate_type_is_manual_rule.
  destruct (type_rule t (rows V d) (cols V d)) eqn:Et; cbn [fst snd o_ret ok fail].
  - split; [split; [intros _; exists t; split; [reflexivity|apply type_rule_spec; exact Et]|reflexivity]|].
    intros t' Ht' _. injection Ht' as <-. reflexivity.
  - split; [split; [discriminate|intros (t' & Ht' & F); injection Ht' as <-; apply type_rule_spec in F; congruence]|].
    intros t' Ht' F. injection Ht' as <-. apply type_rule_spec in F. congruence.
Qed.

(* ---------------------------------------------------------------- caller-supplied vectors *)
Notation stepc := (DataModel.step_chk V vzero vdef fixed).

(* the documented vector lengths of the specification exclude every over-read of the model *)
Lemma vec_ok_not_short d a o : refines d a -> vec_ok V a o -> short_vector V d o = false.
Proof.
  intros H. open_ref H a. unfold vec_ok, vec_need, a_cells, a_ports. arr_cbn.
  destruct o; cbn [short_vector]; try reflexivity; unfold cells, ports; intros L;
    repeat match goal with |- context [in_range ?i ?n] => destruct (in_range i n) end; cbn [andb];
    try reflexivity; apply Nat.ltb_ge; exact L.
Qed.

(* ... and conversely: when the call gets as far as the copy (valid indices), a vector shorter
   than documented is an over-read of the model *)
Lemma short_vector_not_ok d a o : refines d a -> short_vector V d o = true -> ~ vec_ok V a o.
Proof.
  intros H S L. rewrite (vec_ok_not_short d a o H L) in S. discriminate S.
Qed.

Definition sim_chk (d : vd) (a : arr V) (o : op V) : Prop :=
  snd (stepc d o) = snd (spec_step a o) /\ refines (fst (stepc d o)) (fst (spec_step a o)).

Theorem sim_chk_step d a o : Inv d -> refines d a -> vec_ok V a o -> sim_chk d a o.
Proof.
  intros HI H L. unfold sim_chk, step_chk. rewrite (vec_ok_not_short d a o H L).
  exact (sim_step d a o HI H).
Qed.

Fixpoint trace_chk (d : vd) (l : list (op V)) : list (outcome V) :=
  match l with
  | [] => []
  | o :: r => snd (stepc d o) :: trace_chk (fst (stepc d o)) r
  end.

Theorem sim_chk_trace l : forall d a, Inv d -> refines d a -> vecs_ok V vzero vdef a l ->
  trace_chk d l = spec_trace V vzero vdef a l /\
  refines (run_chk V vzero vdef fixed d l) (fold_left (fun s o => fst (spec_step s o)) l a).
Proof.
  induction l as [|o l IH]; intros d a HI H L; [split; [reflexivity|exact H]|].
  destruct L as [Lo Ll].
  destruct (sim_chk_step d a o HI H Lo) as [E R].
  destruct (IH _ _ (step_chk_inv V vzero vdef d o HI) R Ll) as [E' R'].
  cbn [trace_chk spec_trace run_chk fold_left]. split; [rewrite E, E'; reflexivity|exact R'].
Qed.

(* every history from vnadata_alloc in which each vector handed to a vector setter has the
   documented length produces exactly the outcomes the abstract array predicts *)
Theorem data_refines_array_chk l :
  vecs_ok V vzero vdef (arr_alloc V vzero vdef) l ->
  trace_chk (vd_alloc V vzero vdef) l = spec_trace V vzero vdef (arr_alloc V vzero vdef) l.
Proof.
  intros L. apply sim_chk_trace; [apply inv_alloc| |exact L].
  unfold refines, ArraySpec.arr_eq, ArraySpec.abs, arr_alloc, vd_alloc. cbn. repeat split; auto.
Qed.

Lemma arr_eq_sym a b : arr_eq a b -> arr_eq b a.
Proof.
  intros (E1 & E2 & E3 & E4 & E5 & Efv & Edat & Ez0 & Efz0 & E6 & E7 & E8 & E9).
  unfold ArraySpec.arr_eq. repeat split; auto; intros; symmetry.
  - apply Ez0. congruence.
  - apply Efz0. congruence.
Qed.

Lemma arr_eq_trans a b c : arr_eq a b -> arr_eq b c -> arr_eq a c.
Proof.
  intros (E1 & E2 & E3 & E4 & E5 & Efv & Edat & Ez0 & Efz0 & E6 & E7 & E8 & E9)
         (G1 & G2 & G3 & G4 & G5 & Gfv & Gdat & Gz0 & Gfz0 & G6 & G7 & G8 & G9).
  unfold ArraySpec.arr_eq. repeat split; try congruence; intros.
  - rewrite Ez0 by assumption. apply Gz0. congruence.
  - rewrite Efz0 by assumption. apply Gfz0. congruence.
Qed.

Lemma short_vector_same_dims d1 d2 o :
  arr_eq (abs d1) (abs d2) -> short_vector V d1 o = short_vector V d2 o.
Proof.
  intros (E1 & E2 & E3 & E4 & _). cbn [ArraySpec.abs a_ty a_rows a_cols a_freqs] in *.
  destruct o; cbn [short_vector]; unfold cells, ports; rewrite ?E2, ?E3, ?E4; reflexivity.
Qed.

(* two states that satisfy the invariant and have the same abstraction cannot be told apart by any
   history of operations - whatever the vectors passed (an over-read of a caller's vector depends
   on the logical dimensions only) *)
Theorem indistinguishable_chk l : forall d1 d2,
  Inv d1 -> Inv d2 -> arr_eq (abs d1) (abs d2) -> trace_chk d1 l = trace_chk d2 l.
Proof.
  induction l as [|o l IH]; intros d1 d2 I1 I2 E; [reflexivity|].
  cbn [trace_chk]. pose proof (short_vector_same_dims d1 d2 o E) as S.
  unfold step_chk. rewrite S. destruct (short_vector V d2 o) eqn:S2; cbn [fst snd].
  - f_equal. change (trace_chk d1 l = trace_chk d2 l). apply IH; assumption.
  - destruct (sim_step d1 (abs d2) o I1 E) as [A1 A2].
    destruct (sim_step d2 (abs d2) o I2 (refines_refl d2)) as [B1 B2].
    rewrite A1, B1. f_equal.
    assert (T1 : trace_chk (fst (stepf d1 o)) l = trace_chk (fst (stepf d2 o)) l).
    { apply IH; [apply step_inv; exact I1|apply step_inv; exact I2|].
      eapply arr_eq_trans; [exact A2|apply arr_eq_sym; exact B2]. }
    exact T1.
Qed.

End Refine.

(* the premise of data_refines_array_chk is met by a history with vector setters *)
Example vecs_ok_example (V : Type) (vzero vdef : V) :
  vecs_ok V vzero vdef (arr_alloc V vzero vdef) (example_history V vzero vdef) /\
  ~ vecs_ok V vzero vdef (arr_alloc V vzero vdef) [OInit V 1 2 2 1; OSetMatrix V 0 [vdef]].
Proof.
  split.
  - cbn. repeat split; repeat constructor.
  - cbn. intros (_ & H & _). vm_compute in H. lia.
Qed.
