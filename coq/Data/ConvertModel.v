(* Model of vnadata_convert (property C05) on top of DataModel, and the two-object machine used
   by the op-script correspondence of C15/C05.  No proofs in this file.

   The conversion itself is abstract: `conv fn n m z0` stands for the call of the vnaconv
   function named fn on the flattened n x n matrix m with the reference impedances z0 (the
   empty list for the functions without a z0 argument); the result is the flattened output
   matrix (n*n cells) or the Zin vector (n cells).  Which function is called with which
   arguments is what C05 is about; what each function computes is C04.

   The look-up follows `conv_spec`, a table written by hand from vnadata(3)/vnaconv(3)
   ("all 72 conversions plus 9 conversions to input impedances", n-port functions for S, Z, Y,
   two-port functions otherwise); Gen/ConvTableGen.v (translator T2) is the table of the code, and
   ConvertProofs.table_sound proves the two equal on all 121 pairs. *)
Require Import List ZArith Bool String.
Require Import LV.Data.DataModel.
Import ListNotations.
Local Open Scope string_scope.

Inductive dimclass := DAny | DVec | D2x2 | DNxN.
Inductive ckind := KSame | KXtoY | KXtoI.
(* F2 x y = vnaconv_<x>to<y>, FN = vnaconv_<x>to<y>n, FI2 x = vnaconv_<x>tozi, FIN x = vnaconv_<x>tozin *)
Inductive fname := FSame | F2 (x y : vpt) | FN (x y : vpt) | FI2 (x : vpt) | FIN (x : vpt).
Record convsel := mkcs { cs_dim : dimclass; cs_z0 : bool; cs_kind : ckind; cs_fn : fname }.

Definition letter (t : vpt) : string :=
  match t with VUNDEF => "-" | VS => "s" | VT => "t" | VU => "u" | VZ => "z" | VY => "y"
             | VH => "h" | VG => "g" | VA => "a" | VB => "b" | VZIN => "zi" end.
Definition fname_str (f : fname) : string :=
  match f with
  | FSame => ""
  | F2 x y => "vnaconv_" ++ letter x ++ "to" ++ letter y
  | FN x y => "vnaconv_" ++ letter x ++ "to" ++ letter y ++ "n"
  | FI2 x => "vnaconv_" ++ letter x ++ "tozi"
  | FIN x => "vnaconv_" ++ letter x ++ "tozin"
  end.

Definition is_matrix (t : vpt) := match t with VUNDEF | VZIN => false | _ => true end.
Definition is_power (t : vpt) := match t with VS | VT | VU => true | _ => false end.
Definition is_nport (t : vpt) := match t with VS | VZ | VY => true | _ => false end.
Definition vpt_eqb (a b : vpt) : bool := Z.eqb (vpt_code a) (vpt_code b).

(* The specification of the dispatch. *)
Definition conv_spec (x y : vpt) : option convsel :=
  if vpt_eqb x y then
    Some (mkcs (match x with
                | VUNDEF | VS => DAny
                | VZ | VY => DNxN
                | VZIN => DVec
                | _ => D2x2 end) false KSame FSame)
  else if negb (is_matrix x) then None
  else match y with
       | VUNDEF => None
       | VZIN => if is_nport x then Some (mkcs DNxN true KXtoI (FIN x))
                 else Some (mkcs D2x2 true KXtoI (FI2 x))
       | _ => if is_nport x && is_nport y
              then Some (mkcs DNxN (negb (Bool.eqb (is_power x) (is_power y))) KXtoY (FN x y))
              else Some (mkcs D2x2 (negb (Bool.eqb (is_power x) (is_power y))) KXtoY (F2 x y))
       end.

Definition dim_ok (c : dimclass) (r k : nat) : bool :=
  match c with
  | DAny => true
  | DVec => Nat.eqb r 1 || Nat.eqb k 1
  | D2x2 => Nat.eqb r 2 && Nat.eqb k 2
  | DNxN => Nat.eqb r k
  end.

Section Convert.
Variable V : Type.
Variables vzero vdef : V.
Variable Q : quirks.
(* finding DD2: true = the repair fixes/DD2_convert_keeps_fz0_mode.diff is in the code (a second
   output object is put into per-frequency z0 mode whenever the input is), false = the code as
   found (the mode is established only as a side effect of copying the rows, hence lost when
   there are no frequencies or no ports to copy) *)
Variable dd2_fixed : bool.
Variable conv : fname -> nat -> list V -> list V -> list V.

Notation vd := (vd V).
Notation resize := (resize V vzero vdef Q).
Notation init := (init V vzero vdef Q).

(* the reference impedances vnadata_convert passes for frequency f: get_fz0_vector *)
Definition z0_row (d : vd) (f : nat) : nat -> V := if per_f V d then z0vv V d f else z0v V d.

(* a sequence of calls that stops at the first failure (`if (f(...) == -1) return -1;`) *)
Fixpoint run_ok (d : vd) (l : list (op V)) : vd * outcome V :=
  match l with
  | [] => (d, ok V)
  | o :: r => let '(e, x) := step V vzero vdef Q d o in
              match o_ret V x with ROk => run_ok e r | _ => (e, x) end
  end.

(* set-up of a destination distinct from the source: vnadata_init, copy of the frequency
   vector, of the reference impedances (ordinary vector, or row by row; nothing when the
   destination nominally has more ports than the source - a 0 x 0 source converted to Zin gives
   a 1 x 0 destination - repair DD1), [repair DD2: _vnadata_convert_to_fz0 of the destination
   when the source is in per-frequency mode], then the file type, format and precisions.  The
   z0 setters read as many entries of the source vectors as the destination has ports. *)
Definition setup_ops1 (din : vd) (nr nc : nat) : list (op V) :=
  let np := Nat.max nr nc in
  OInit V 0 (Z.of_nat nr) (Z.of_nat nc) (Z.of_nat (freqs V din))
  :: OSetFreqVec V (map (fv V din) (seq 0 (freqs V din)))
  :: (if Nat.ltb (ports V din) np then []
      else if per_f V din
      then map (fun f => OSetFz0Vec V (Z.of_nat f) (map (z0vv V din f) (seq 0 np))) (seq 0 (freqs V din))
      else [OSetZ0Vec V (map (z0v V din) (seq 0 np))]).

Definition setup_ops2 (din : vd) : list (op V) :=
  [OSetFiletype V (ftype V din); OSetFormat V (fmt V din); OSetFprec V (fprec V din);
   OSetDprec V (dprec V din)].

Definition setup_ops (din : vd) (nr nc : nat) : list (op V) := setup_ops1 din nr nc ++ setup_ops2 din.

Definition out_rows (din : vd) (k : ckind) : nat := match k with KXtoI => 1 | _ => rows V din end.
Definition out_cols (din : vd) (k : ckind) : nat :=
  match k with
  | KXtoI => if Nat.ltb (rows V din) (cols V din) then rows V din else cols V din
  | _ => cols V din end.

Definition setup_out (din dout : vd) (k : ckind) : vd * outcome V :=
  let '(d1, r1) := run_ok dout (setup_ops1 din (out_rows din k) (out_cols din k)) in
  match o_ret V r1 with
  | ROk => run_ok (if dd2_fixed && per_f V din then convert_to_fz0 V vdef Q d1 else d1) (setup_ops2 din)
  | _ => (d1, r1)
  end.

(* per-frequency results of the selected function on the source *)
Definition conv_results (din : vd) (cs : convsel) : list (list V) :=
  let n := rows V din in
  map (fun f => conv (cs_fn cs) n (map (dat V din f) (seq 0 (n * n)))
                     (if cs_z0 cs then map (z0_row din f) (seq 0 n) else []))
      (seq 0 (freqs V din)).

Definition store_results (o : vd) (nf len : nat) (res : list (list V)) : vd :=
  set_dat V o (fun a j => if Nat.ltb a nf && Nat.ltb j len then nth j (nth a res []) vzero
                          else dat V o a j).

Definition copy_cells (din o : vd) : vd :=
  set_dat V o (fun a j => if Nat.ltb a (freqs V din) && Nat.ltb j (cells V din) then dat V din a j
                          else dat V o a j).

(* vnadata_convert(din, dout, newtype); `same` = the two pointers are equal (then dout = din).
   The result is the new value of the destination object. *)
Definition convert (din dout : vd) (same : bool) (ntz : Z) : vd * outcome V :=
  let dst := if same then din else dout in
  match vpt_of_Z ntz with
  | None => (dst, fail V)
  | Some nt =>
    match conv_spec (ty V din) nt with
    | None => (dst, fail V)
    | Some cs =>
      if negb (dim_ok (cs_dim cs) (rows V din) (cols V din)) then (dst, fail V) else
      let '(o1, r1) := if same then (din, ok V) else setup_out din dout (cs_kind cs) in
      match o_ret V r1 with
      | ROk =>
        let n := rows V din in
        match cs_kind cs with
        | KSame =>
          if same then (o1, ok V) else
          if Nat.leb (freqs V din) (f_alloc V din) && Nat.leb (cells V din) (m_alloc V din)
             && Nat.leb (freqs V din) (f_alloc V o1) && Nat.leb (cells V din) (m_alloc V o1)
          then (set_dims V (copy_cells din o1) nt (rows V o1) (cols V o1) (freqs V o1), ok V)
          else (dst, fault V)
        | k =>
          let len := match k with KXtoI => n | _ => n * n end in
          if Nat.leb (freqs V din) (f_alloc V din) && Nat.leb (n * n) (m_alloc V din)
             && Nat.leb n (p_alloc V din)
             && Nat.leb (freqs V din) (f_alloc V o1) && Nat.leb len (m_alloc V o1)
          then
            let o2 := store_results o1 (freqs V din) len (conv_results din cs) in
            let o3 := set_dims V o2 nt (rows V o2) (cols V o2) (freqs V o2) in
            match k, same with
            | KXtoI, true =>
              if q_d5 Q
              then (set_dims V o3 nt 1 (if Nat.ltb (rows V o3) (cols V o3) then rows V o3
                                        else cols V o3) (freqs V o3), ok V)
              else (* vd_type = newtype; return vnadata_resize(out, newtype, 1, ports, frequencies):
                      the assignment is overwritten by the resize, which never reads the old type *)
                   resize o2 ntz 1 (Z.of_nat (if Nat.ltb (rows V o2) (cols V o2) then rows V o2
                                              else cols V o2)) (Z.of_nat (freqs V o2))
            | _, _ => (o3, ok V)
            end
          else (dst, fault V)
        end
      | _ => (o1, r1)
      end
    end
  end.

(* ---------------------------------------------------------------- two-object machine *)
(* MReset = vnadata_free of both objects followed by two fresh vnadata_alloc *)
Inductive mop := MOn (i : bool) (o : op V) | MConv (src dst : bool) (nt : Z) | MReset.
Definition mstate := (vd * vd)%type.
Definition sel (s : mstate) (i : bool) : vd := if i then snd s else fst s.
Definition put (s : mstate) (i : bool) (d : vd) : mstate := if i then (fst s, d) else (d, snd s).

Definition minit : mstate := (vd_alloc V vzero vdef, vd_alloc V vzero vdef).

Definition mstep (s : mstate) (m : mop) : mstate * outcome V :=
  match m with
  | MReset => (minit, ok V)
  | MOn i o => let '(d, r) := step V vzero vdef Q (sel s i) o in (put s i d, r)
  | MConv a b nt => let '(d, r) := convert (sel s a) (sel s b) (Bool.eqb a b) nt in (put s b d, r)
  end.

Definition mrun (s : mstate) (l : list mop) : mstate := fold_left (fun s o => fst (mstep s o)) l s.

End Convert.
