(* Lemmas about DataModel (property C15): the representation invariant holds in every reachable
   state of the repaired model, no checked access faults, indices outside [0,n) are refused
   without effect, resize presents initial values, z0 mode rules; refutations for the behaviour
   of the code as found (quirks as_found). *)
Require Import List ZArith Bool Lia.
Require Import LV.Data.DataModel.
Import ListNotations.
Ltac Zify.zify_post_hook ::= Z.div_mod_to_equations.

Ltac bdestr :=
  repeat match goal with
  | |- context [Nat.ltb ?a ?b] => destruct (Nat.ltb_spec a b)
  | |- context [Nat.leb ?a ?b] => destruct (Nat.leb_spec a b)
  | |- context [Nat.eqb ?a ?b] => destruct (Nat.eqb_spec a b)
  | |- context [Z.ltb ?a ?b] => destruct (Z.ltb_spec a b)
  | |- context [Z.leb ?a ?b] => destruct (Z.leb_spec a b)
  | H : context [Nat.ltb ?a ?b] |- _ => destruct (Nat.ltb_spec a b)
  | H : context [Nat.leb ?a ?b] |- _ => destruct (Nat.leb_spec a b)
  | H : context [Nat.eqb ?a ?b] |- _ => destruct (Nat.eqb_spec a b)
  | H : context [Z.ltb ?a ?b] |- _ => destruct (Z.ltb_spec a b)
  | H : context [Z.leb ?a ?b] |- _ => destruct (Z.leb_spec a b)
  end; simpl in *.

Section Proofs.
Variable V : Type.
Variables vzero vdef : V.

Notation vd := (vd V).
Notation step := (step V vzero vdef).
Notation resize := (resize V vzero vdef).

(* every cell outside the logical box F x C (data), F (frequencies), F x P (impedances) holds
   its initial value *)
Definition Clean (F P C : nat) (d : vd) : Prop :=
  (forall i, F <= i -> fv V d i = 0%Z) /\
  (forall i j, F <= i \/ C <= j -> dat V d i j = vzero) /\
  (per_f V d = false -> forall j, P <= j -> z0v V d j = vdef) /\
  (per_f V d = true -> forall i j, F <= i \/ P <= j -> z0vv V d i j = vdef).

Definition Inv (d : vd) : Prop :=
  cells V d <= m_alloc V d /\ freqs V d <= f_alloc V d /\ ports V d <= p_alloc V d /\
  Clean (freqs V d) (ports V d) (cells V d) d /\
  validate_type (ty V d) (rows V d) (cols V d) = true /\
  (1 <= fprec V d)%Z /\ (1 <= dprec V d)%Z /\ (0 <= ftype V d <= 3)%Z /\
  (Z.of_nat (cells V d) <= INT_MAX)%Z.

Lemma inv_alloc : Inv (vd_alloc V vzero vdef).
Proof.
  unfold Inv, Clean, vd_alloc, cells, ports, INT_MAX; simpl.
  repeat split; intros; try lia; try discriminate; auto.
Qed.

Lemma in_range_spec i n : in_range i n = true <-> (0 <= i < Z.of_nat n)%Z.
Proof. unfold in_range. rewrite andb_true_iff, Z.leb_le, Z.ltb_lt. tauto. Qed.

Lemma in_range_nat i n : in_range i n = true -> Z.to_nat i < n.
Proof. rewrite in_range_spec. lia. Qed.

(* ---------------------------------------------------------------- extend_* *)
Lemma extend_p_clean F P C d n : Clean F P C d -> Clean F P C (extend_p V vdef d n).
Proof.
  unfold Clean, extend_p, within. intros (H1 & H2 & H3 & H4).
  destruct (Nat.ltb (p_alloc V d) n); [|tauto].
  destruct (per_f V d) eqn:E; simpl; rewrite ?E; repeat split; intros; auto; try discriminate.
  - destruct (_ && _); auto.
  - destruct (_ && _); auto.
Qed.

Lemma extend_m_clean F P C d n : Clean F P C d -> Clean F P C (extend_m V vzero d n).
Proof.
  unfold Clean, extend_m, within. intros (H1 & H2 & H3 & H4).
  destruct (Nat.ltb (m_alloc V d) n); [|tauto].
  simpl; repeat split; intros; auto.
  destruct (_ && _); auto.
Qed.

Lemma extend_f_clean F P C d n : Clean F P C d -> Clean F P C (extend_f V vzero vdef d n).
Proof.
  unfold Clean, extend_f, within. intros (H1 & H2 & H3 & H4).
  destruct (Nat.ltb (f_alloc V d) n); [|tauto].
  destruct (per_f V d) eqn:E; simpl; rewrite ?E; repeat split; intros; auto; try discriminate;
    try (destruct (_ && _); auto).
Qed.

Lemma extend_p_fields d n :
  let e := extend_p V vdef d n in
  p_alloc V e = Nat.max (p_alloc V d) n /\ m_alloc V e = m_alloc V d /\ f_alloc V e = f_alloc V d /\
  per_f V e = per_f V d /\ rows V e = rows V d /\ cols V e = cols V d /\ freqs V e = freqs V d /\
  ty V e = ty V d /\ fv V e = fv V d /\ dat V e = dat V d /\
  ftype V e = ftype V d /\ fmt V e = fmt V d /\ fprec V e = fprec V d /\ dprec V e = dprec V d.
Proof.
  unfold extend_p. destruct (Nat.ltb_spec (p_alloc V d) n); simpl.
  - destruct (per_f V d) eqn:E; simpl; repeat split; try reflexivity; try lia; auto.
  - repeat split; try reflexivity; lia.
Qed.

Lemma extend_m_fields d n :
  let e := extend_m V vzero d n in
  p_alloc V e = p_alloc V d /\ m_alloc V e = Nat.max (m_alloc V d) n /\ f_alloc V e = f_alloc V d /\
  per_f V e = per_f V d /\ rows V e = rows V d /\ cols V e = cols V d /\ freqs V e = freqs V d /\
  ty V e = ty V d /\ fv V e = fv V d /\ z0v V e = z0v V d /\ z0vv V e = z0vv V d /\
  ftype V e = ftype V d /\ fmt V e = fmt V d /\ fprec V e = fprec V d /\ dprec V e = dprec V d.
Proof.
  unfold extend_m. destruct (Nat.ltb_spec (m_alloc V d) n); simpl; repeat split; try reflexivity; lia.
Qed.

Lemma extend_f_fields d n :
  let e := extend_f V vzero vdef d n in
  p_alloc V e = p_alloc V d /\ m_alloc V e = m_alloc V d /\ f_alloc V e = Nat.max (f_alloc V d) n /\
  per_f V e = per_f V d /\ rows V e = rows V d /\ cols V e = cols V d /\ freqs V e = freqs V d /\
  ty V e = ty V d /\
  ftype V e = ftype V d /\ fmt V e = fmt V d /\ fprec V e = fprec V d /\ dprec V e = dprec V d.
Proof.
  unfold extend_f. destruct (Nat.ltb_spec (f_alloc V d) n); simpl.
  - destruct (per_f V d) eqn:E; simpl; repeat split; try reflexivity; try lia; auto.
  - repeat split; try reflexivity; lia.
Qed.

(* the extensions do not touch the logical contents when the allocations cover them *)
Lemma extend_p_same d n :
  let e := extend_p V vdef d n in
  (forall j, j < p_alloc V d -> z0v V e j = z0v V d j) /\
  (forall i j, j < p_alloc V d -> z0vv V e i j = z0vv V d i j).
Proof.
  unfold extend_p, within. destruct (Nat.ltb_spec (p_alloc V d) n); simpl; [|auto].
  destruct (per_f V d); simpl; split; intros; auto; bdestr; auto; lia.
Qed.

Lemma extend_m_same d n i j : j < m_alloc V d -> dat V (extend_m V vzero d n) i j = dat V d i j.
Proof.
  unfold extend_m, within. destruct (Nat.ltb_spec (m_alloc V d) n); simpl; auto.
  intros; bdestr; auto; lia.
Qed.

Lemma extend_f_same d n :
  let e := extend_f V vzero vdef d n in
  (forall i, i < f_alloc V d -> fv V e i = fv V d i) /\
  (forall i j, i < f_alloc V d -> dat V e i j = dat V d i j) /\
  (forall j, z0v V e j = z0v V d j) /\
  (forall i j, i < f_alloc V d -> z0vv V e i j = z0vv V d i j).
Proof.
  unfold extend_f, within. destruct (Nat.ltb_spec (f_alloc V d) n); simpl; [|auto].
  destruct (per_f V d); simpl; repeat split; intros; auto; bdestr; auto; lia.
Qed.


(* ---------------------------------------------------------------- resize *)
Lemma resize_cases Q d t r c f :
  let res := resize Q d t r c f in
  (fst res = d /\ o_ret V (snd res) <> ROk) \/
  (exists t', vpt_of_Z t = Some t' /\ (0 <= r)%Z /\ (0 <= c)%Z /\ (0 <= f)%Z /\
     validate_type t' (Z.to_nat r) (Z.to_nat c) = true /\
     (Z.of_nat (Z.to_nat r) * Z.of_nat (Z.to_nat c) <= INT_MAX)%Z /\ snd res = ok V /\
     let R := Z.to_nat r in let C := Z.to_nat c in let F := Z.to_nat f in
     let d3 := extend_f V vzero vdef (extend_m V vzero (extend_p V vdef d (Nat.max R C)) (R * C)) F in
     ports V d <= p_alloc V d3 /\ cells V d <= m_alloc V d3 /\ freqs V d <= f_alloc V d3 /\
     fst res = set_dims V
       (let d4 := if Nat.ltb (Nat.max R C) (ports V d) then
                    if per_f V d3
                    then set_z0vv V d3 (fun a p => if Nat.ltb a (freqs V d) && within (Nat.max R C) (ports V d) p
                                                  then vdef else z0vv V d3 a p)
                    else set_z0v V d3 (fun p => if within (Nat.max R C) (ports V d) p then vdef else z0v V d3 p)
                  else d3 in
        let d5 := if Nat.ltb (R * C) (cells V d) then
                    set_dat V d4 (fun a j => if Nat.ltb a (freqs V d) && within (R * C) (cells V d) j
                                             then vzero else dat V d4 a j)
                  else d4 in
        if Nat.ltb F (freqs V d) then
          let e1 := set_fv V d5 (fun a => if within F (freqs V d) a then 0%Z else fv V d5 a) in
          let e2 := if per_f V e1
                    then set_z0vv V e1 (fun a p => if within F (freqs V d) a && Nat.ltb p (ports V d)
                                                   then vdef else z0vv V e1 a p)
                    else e1 in
          set_dat V e2 (fun a j => if within F (freqs V d) a && Nat.ltb j (cells V d) then vzero
                                   else dat V e2 a j)
        else d5) t' R C F).
Proof.
  unfold DataModel.resize.
  destruct (Z.ltb_spec r 0); [left; split; [reflexivity|discriminate]|].
  destruct (Z.ltb_spec c 0); [left; split; [reflexivity|discriminate]|].
  destruct (Z.ltb_spec f 0); [left; split; [reflexivity|discriminate]|].
  destruct (vpt_of_Z t) as [t'|]; [|left; split; [reflexivity|discriminate]].
  destruct (validate_type t' (Z.to_nat r) (Z.to_nat c)) eqn:Ev; simpl;
    [|left; split; [reflexivity|discriminate]].
  destruct (Z.ltb_spec INT_MAX (Z.of_nat (Z.to_nat r) * Z.of_nat (Z.to_nat c))).
  { left. destruct (q_d40 Q); split; try reflexivity; discriminate. }
  match goal with |- context [if ?b then _ else _] => destruct b eqn:Eb end.
  - right. exists t'. repeat (split; [assumption || reflexivity || lia|]).
    apply andb_true_iff in Eb. destruct Eb as [Eb E3]. apply andb_true_iff in Eb. destruct Eb as [E1 E2].
    apply Nat.leb_le in E1, E2, E3. simpl. repeat split; assumption.
  - left. split; [reflexivity|discriminate].
Qed.


(* the vacating part of vnadata_resize, as a function of the extended state d3 *)
Definition vacate (d3 : vd) (oF oP oC NP NC F : nat) : vd :=
  let d4 := if Nat.ltb NP oP then
              if per_f V d3
              then set_z0vv V d3 (fun a p => if Nat.ltb a oF && within NP oP p then vdef else z0vv V d3 a p)
              else set_z0v V d3 (fun p => if within NP oP p then vdef else z0v V d3 p)
            else d3 in
  let d5 := if Nat.ltb NC oC then
              set_dat V d4 (fun a j => if Nat.ltb a oF && within NC oC j then vzero else dat V d4 a j)
            else d4 in
  if Nat.ltb F oF then
    let e1 := set_fv V d5 (fun a => if within F oF a then 0%Z else fv V d5 a) in
    let e2 := if per_f V e1
              then set_z0vv V e1 (fun a p => if within F oF a && Nat.ltb p oP then vdef else z0vv V e1 a p)
              else e1 in
    set_dat V e2 (fun a j => if within F oF a && Nat.ltb j oC then vzero else dat V e2 a j)
  else d5.

Lemma vacate_fields d3 oF oP oC NP NC F :
  let e := vacate d3 oF oP oC NP NC F in
  p_alloc V e = p_alloc V d3 /\ m_alloc V e = m_alloc V d3 /\ f_alloc V e = f_alloc V d3 /\
  per_f V e = per_f V d3 /\
  ftype V e = ftype V d3 /\ fmt V e = fmt V d3 /\ fprec V e = fprec V d3 /\ dprec V e = dprec V d3.
Proof.
  unfold vacate. destruct (Nat.ltb NP oP), (per_f V d3) eqn:E, (Nat.ltb NC oC), (Nat.ltb F oF);
    simpl; rewrite ?E; simpl; repeat split; auto.
Qed.

Lemma vacate_fv d3 oF oP oC NP NC F i :
  fv V (vacate d3 oF oP oC NP NC F) i = if Nat.ltb F oF && within F oF i then 0%Z else fv V d3 i.
Proof.
  unfold vacate. destruct (Nat.ltb NP oP), (per_f V d3) eqn:E, (Nat.ltb NC oC), (Nat.ltb F oF);
    simpl; rewrite ?E; simpl; reflexivity.
Qed.

Lemma vacate_dat d3 oF oP oC NP NC F a j :
  dat V (vacate d3 oF oP oC NP NC F) a j =
  if Nat.ltb F oF && (within F oF a && Nat.ltb j oC) then vzero
  else if Nat.ltb NC oC && (Nat.ltb a oF && within NC oC j) then vzero else dat V d3 a j.
Proof.
  unfold vacate. destruct (Nat.ltb NP oP), (per_f V d3) eqn:E, (Nat.ltb NC oC), (Nat.ltb F oF);
    simpl; rewrite ?E; simpl; reflexivity.
Qed.

Lemma vacate_z0v d3 oF oP oC NP NC F j :
  per_f V d3 = false ->
  z0v V (vacate d3 oF oP oC NP NC F) j = if Nat.ltb NP oP && within NP oP j then vdef else z0v V d3 j.
Proof.
  intros E. unfold vacate. rewrite E. destruct (Nat.ltb NP oP), (Nat.ltb NC oC), (Nat.ltb F oF);
    simpl; rewrite ?E; simpl; reflexivity.
Qed.

Lemma vacate_z0vv d3 oF oP oC NP NC F a p :
  per_f V d3 = true ->
  z0vv V (vacate d3 oF oP oC NP NC F) a p =
  if Nat.ltb F oF && (within F oF a && Nat.ltb p oP) then vdef
  else if Nat.ltb NP oP && (Nat.ltb a oF && within NP oP p) then vdef else z0vv V d3 a p.
Proof.
  intros E. unfold vacate. rewrite E. destruct (Nat.ltb NP oP), (Nat.ltb NC oC), (Nat.ltb F oF);
    simpl; rewrite ?E; simpl; reflexivity.
Qed.


Ltac bd :=
  repeat match goal with
  | |- context [Nat.ltb ?a ?b] => destruct (Nat.ltb_spec a b)
  | |- context [Nat.leb ?a ?b] => destruct (Nat.leb_spec a b)
  | |- context [Nat.eqb ?a ?b] => destruct (Nat.eqb_spec a b)
  end; cbn [andb orb negb].

(* same contents: the four memories agree pointwise (for the z0 memories, in the active mode) *)
Definition same_mem (d e : vd) : Prop :=
  (forall i, fv V e i = fv V d i) /\ (forall i j, dat V e i j = dat V d i j) /\
  (per_f V d = false -> forall j, z0v V e j = z0v V d j) /\
  (per_f V d = true -> forall i j, z0vv V e i j = z0vv V d i j).

Lemma extend_p_id F P C d n :
  Clean F P C d -> P <= p_alloc V d -> same_mem d (extend_p V vdef d n).
Proof.
  intros (K1 & K2 & K3 & K4) HP. unfold same_mem, extend_p, within.
  destruct (Nat.ltb_spec (p_alloc V d) n); [|repeat split; auto].
  destruct (per_f V d) eqn:E; simpl; repeat split; intros; auto; try discriminate.
  - bd; auto. symmetry. apply K4; auto. right. lia.
  - bd; auto. symmetry. apply K3; auto. lia.
Qed.

Lemma extend_m_id F P C d n :
  Clean F P C d -> C <= m_alloc V d -> same_mem d (extend_m V vzero d n).
Proof.
  intros (K1 & K2 & K3 & K4) HP. unfold same_mem, extend_m, within.
  destruct (Nat.ltb_spec (m_alloc V d) n); [|repeat split; auto].
  simpl; repeat split; intros; auto.
  bd; auto. symmetry. apply K2. right. lia.
Qed.

Lemma extend_f_id F P C d n :
  Clean F P C d -> F <= f_alloc V d -> same_mem d (extend_f V vzero vdef d n).
Proof.
  intros (K1 & K2 & K3 & K4) HP. unfold same_mem, extend_f, within.
  destruct (Nat.ltb_spec (f_alloc V d) n); [|repeat split; auto].
  destruct (per_f V d) eqn:E; simpl; repeat split; intros; auto; try discriminate;
    bd; auto; symmetry; try (apply K1; lia); try (apply K2; left; lia); try (apply K4; auto; left; lia).
Qed.

Lemma same_mem_trans a b c : per_f V b = per_f V a -> same_mem a b -> same_mem b c -> same_mem a c.
Proof.
  intros E (A1 & A2 & A3 & A4) (B1 & B2 & B3 & B4). unfold same_mem. rewrite E in B3, B4.
  repeat split; intros.
  - rewrite B1; auto. - rewrite B2; auto. - rewrite B3, A3; auto. - rewrite B4, A4; auto.
Qed.


Lemma vac1 {A} (n o i : nat) (x z : A) :
  (o <= i -> x = z) ->
  (if Nat.ltb n o && within n o i then z else x) = (if Nat.ltb i (Nat.min n o) then x else z).
Proof. intros H. unfold within. bd; auto; try lia; symmetry; apply H; lia. Qed.

Lemma vac2 {A} (F oF N oN a j : nat) (x z : A) :
  (oF <= a \/ oN <= j -> x = z) ->
  (if Nat.ltb F oF && (within F oF a && Nat.ltb j oN) then z
   else if Nat.ltb N oN && (Nat.ltb a oF && within N oN j) then z else x) =
  (if Nat.ltb a (Nat.min F oF) && Nat.ltb j (Nat.min N oN) then x else z).
Proof. intros H. unfold within. bd; auto; try lia; symmetry; apply H; lia. Qed.

(* Complete description of a successful resize on a state satisfying the invariant: the
   flattened prefix common to the old and the new box is preserved, everything else holds the
   initial value. *)
Definition resized (d d' : vd) (t' : vpt) (R C F : nat) : Prop :=
  ty V d' = t' /\ rows V d' = R /\ cols V d' = C /\ freqs V d' = F /\
  p_alloc V d' = Nat.max (p_alloc V d) (Nat.max R C) /\
  m_alloc V d' = Nat.max (m_alloc V d) (R * C) /\
  f_alloc V d' = Nat.max (f_alloc V d) F /\
  per_f V d' = per_f V d /\
  ftype V d' = ftype V d /\ fmt V d' = fmt V d /\ fprec V d' = fprec V d /\ dprec V d' = dprec V d /\
  (forall i, fv V d' i = if Nat.ltb i (Nat.min F (freqs V d)) then fv V d i else 0%Z) /\
  (forall i j, dat V d' i j = if Nat.ltb i (Nat.min F (freqs V d)) && Nat.ltb j (Nat.min (R * C) (cells V d))
                              then dat V d i j else vzero) /\
  (per_f V d = false -> forall j, z0v V d' j = if Nat.ltb j (Nat.min (Nat.max R C) (ports V d))
                                               then z0v V d j else vdef) /\
  (per_f V d = true -> forall i j, z0vv V d' i j =
      if Nat.ltb i (Nat.min F (freqs V d)) && Nat.ltb j (Nat.min (Nat.max R C) (ports V d))
      then z0vv V d i j else vdef).

Lemma resize_ok_spec Q d t r c f :
  Inv d -> o_ret V (snd (resize Q d t r c f)) = ROk ->
  exists t', vpt_of_Z t = Some t' /\ (0 <= r)%Z /\ (0 <= c)%Z /\ (0 <= f)%Z /\
    validate_type t' (Z.to_nat r) (Z.to_nat c) = true /\
    (Z.of_nat (Z.to_nat r * Z.to_nat c) <= INT_MAX)%Z /\
    resized d (fst (resize Q d t r c f)) t' (Z.to_nat r) (Z.to_nat c) (Z.to_nat f).
Proof.
  intros HI Hok.
  destruct (resize_cases Q d t r c f) as [[_ Hn]|(t' & Ht & Hr & Hc & Hf & Hv & Hm & Hs & Hp & Hc' & Hf' & Hres)];
    [contradiction|].
  exists t'. repeat (split; [assumption || lia|]).
  change (fst (resize Q d t r c f) =
          set_dims V (vacate (extend_f V vzero vdef (extend_m V vzero (extend_p V vdef d
                        (Nat.max (Z.to_nat r) (Z.to_nat c))) (Z.to_nat r * Z.to_nat c)) (Z.to_nat f))
                      (freqs V d) (ports V d) (cells V d) (Nat.max (Z.to_nat r) (Z.to_nat c))
                      (Z.to_nat r * Z.to_nat c) (Z.to_nat f)) t' (Z.to_nat r) (Z.to_nat c) (Z.to_nat f)) in Hres.
  rewrite Hres. clear Hres Hs Hok Hp Hc' Hf'.
  destruct HI as (I1 & I2 & I3 & K & _).
  set (R := Z.to_nat r) in *. set (C := Z.to_nat c) in *. set (F := Z.to_nat f) in *.
  set (NC := R * C) in *. set (OC := cells V d) in *. set (OP := ports V d) in *.
  set (NP := Nat.max R C) in *. set (OF := freqs V d) in *.
  pose proof (extend_p_fields d NP) as Fp. pose proof (extend_p_id _ _ _ d NP K I3) as Sp.
  pose proof (extend_p_clean _ _ _ d NP K) as K1.
  set (d1 := extend_p V vdef d NP) in *. cbv zeta in Fp.
  destruct Fp as (P1 & P2 & P3 & P4 & P5 & P6 & P7 & P8 & P9 & P10 & P11 & P12 & P13 & P14).
  pose proof (extend_m_fields d1 NC) as Fm.
  assert (I1' : OC <= m_alloc V d1) by lia.
  pose proof (extend_m_id _ _ _ d1 NC K1 I1') as Sm.
  pose proof (extend_m_clean _ _ _ d1 NC K1) as K2.
  set (d2 := extend_m V vzero d1 NC) in *. cbv zeta in Fm.
  destruct Fm as (M1 & M2 & M3 & M4 & M5 & M6 & M7 & M8 & M9 & M10 & M11 & M12 & M13 & M14 & M15).
  pose proof (extend_f_fields d2 F) as Ff.
  assert (I2' : OF <= f_alloc V d2) by lia.
  pose proof (extend_f_id _ _ _ d2 F K2 I2') as Sf.
  pose proof (extend_f_clean _ _ _ d2 F K2) as K3.
  set (d3 := extend_f V vzero vdef d2 F) in *. cbv zeta in Ff.
  destruct Ff as (F1 & F2 & F3 & F4 & F5 & F6 & F7 & F8 & F9 & F10 & F11 & F12).
  assert (S3 : same_mem d d3).
  { eapply same_mem_trans; [|eapply same_mem_trans; [|exact Sp|exact Sm]|exact Sf]; congruence. }
  assert (Epf : per_f V d3 = per_f V d) by congruence.
  pose proof (vacate_fields d3 OF OP OC NP NC F) as Fv. cbv zeta in Fv.
  destruct Fv as (V1 & V2 & V3 & V4 & V5 & V6 & V7 & V8).
  destruct S3 as (S1 & S2 & S3 & S4). destruct K3 as (C1 & C2 & C3 & C4).
  unfold resized. cbn [ty rows cols freqs p_alloc m_alloc f_alloc per_f ftype fmt fprec dprec fv dat z0v z0vv set_dims].
  repeat split; try congruence; try lia.
  - intros i. rewrite vacate_fv, S1. apply vac1. intros. rewrite <- S1. apply C1. lia.
  - intros i j. rewrite vacate_dat, S2. apply vac2. intros. rewrite <- S2. apply C2. lia.
  - intros E j. rewrite vacate_z0v by congruence. rewrite S3 by assumption. apply vac1.
    intros. rewrite <- S3 by assumption. apply C3; [congruence|lia].
  - intros E i j. rewrite vacate_z0vv by congruence. rewrite S4 by assumption. apply vac2.
    intros. rewrite <- S4 by assumption. apply C4; [congruence|lia].
Qed.


Lemma cell_index_lt r c R C : r < R -> c < C -> r * C + c < R * C.
Proof. intros. nia. Qed.

Lemma resized_inv d d' t' R C F :
  Inv d -> resized d d' t' R C F -> validate_type t' R C = true ->
  (Z.of_nat (R * C) <= INT_MAX)%Z -> Inv d'.
Proof.
  intros (I1 & I2 & I3 & (K1 & K2 & K3 & K4) & I4 & I5 & I6 & I7 & I8)
         (A1 & A2 & A3 & A4 & A5 & A6 & A7 & A8 & A9 & A10 & A11 & A12 & B1 & B2 & B3 & B4) Hv Hm.
  unfold Inv, Clean, cells, ports in *. rewrite A1, A2, A3, A4, A5, A6, A7, A8, A9, A11, A12.
  repeat split; try lia; auto.
  - intros. rewrite B1. bd; auto; lia.
  - intros. rewrite B2. bd; auto; lia.
  - intros E j Hj. rewrite B3 by assumption. bd; auto; lia.
  - intros E i j Hj. rewrite B4 by assumption. bd; auto; lia.
Qed.

Lemma resize_inv Q d t r c f : Inv d -> Inv (fst (resize Q d t r c f)).
Proof.
  intros HI. destruct (o_ret V (snd (resize Q d t r c f))) eqn:E.
  - destruct (resize_ok_spec Q d t r c f HI E) as (t' & _ & _ & _ & _ & Hv & Hm & HR).
    eapply resized_inv; eauto.
  - destruct (resize_cases Q d t r c f) as [[H _]|(t' & _ & _ & _ & _ & _ & _ & Hs & _)];
      [rewrite H; exact HI|rewrite Hs in E; discriminate].
  - destruct (resize_cases Q d t r c f) as [[H _]|(t' & _ & _ & _ & _ & _ & _ & Hs & _)];
      [rewrite H; exact HI|rewrite Hs in E; discriminate].
Qed.

(* resize never faults on a state satisfying the invariant (repaired model) *)
Lemma resize_no_fault d t r c f : Inv d -> o_ret V (snd (resize fixed d t r c f)) <> RFault.
Proof.
  intros (I1 & I2 & I3 & K & _). unfold DataModel.resize.
  destruct (Z.ltb r 0); [discriminate|]. destruct (Z.ltb c 0); [discriminate|].
  destruct (Z.ltb f 0); [discriminate|]. destruct (vpt_of_Z t); [|discriminate].
  destruct (validate_type _ _ _); simpl; [|discriminate].
  destruct (Z.ltb INT_MAX _); [discriminate|].
  set (NP := Nat.max (Z.to_nat r) (Z.to_nat c)). set (NC := Z.to_nat r * Z.to_nat c).
  pose proof (extend_p_fields d NP) as Fp. set (d1 := extend_p V vdef d NP) in *.
  pose proof (extend_m_fields d1 NC) as Fm. set (d2 := extend_m V vzero d1 NC) in *.
  pose proof (extend_f_fields d2 (Z.to_nat f)) as Ff. set (d3 := extend_f V vzero vdef d2 (Z.to_nat f)) in *.
  cbv zeta in Fp, Fm, Ff.
  destruct Fp as (P1 & P2 & P3 & _). destruct Fm as (M1 & M2 & M3 & _). destruct Ff as (F1 & F2 & F3 & _).
  match goal with |- context [if ?b then _ else _] => destruct b eqn:Eb end; [discriminate|].
  exfalso. apply andb_false_iff in Eb. destruct Eb as [Eb|Eb]; [apply andb_false_iff in Eb; destruct Eb as [Eb|Eb]|];
    apply Nat.leb_gt in Eb; lia.
Qed.


Notation cto_z0 := (convert_to_z0 V vdef).
Notation cto_fz0 := (convert_to_fz0 V vdef fixed).

Lemma convert_to_z0_inv d : Inv d -> Inv (cto_z0 d).
Proof.
  intros HI. unfold convert_to_z0.
  destruct (per_f V d) eqn:E; [|exact HI].
  destruct HI as (I1 & I2 & I3 & (K1 & K2 & K3 & K4) & I4).
  unfold Inv, Clean, cells, ports in *; cbn -[Nat.ltb Nat.leb Nat.eqb Nat.max Nat.mul]. repeat split; auto; try tauto; try discriminate.
Qed.

Lemma convert_to_fz0_inv d : Inv d -> Inv (cto_fz0 d).
Proof.
  intros HI. unfold convert_to_fz0.
  destruct (per_f V d) eqn:E; [exact HI|].
  destruct HI as (I1 & I2 & I3 & (K1 & K2 & K3 & K4) & I4).
  unfold Inv, Clean, cells, ports in *; cbn -[Nat.ltb Nat.leb Nat.eqb Nat.max Nat.mul]. repeat split; auto; try tauto; try discriminate.
  intros _ i j Hj. bd; auto; try lia. apply K3; auto. lia.
Qed.

Lemma convert_to_z0_fields d :
  rows V (cto_z0 d) = rows V d /\ cols V (cto_z0 d) = cols V d /\ freqs V (cto_z0 d) = freqs V d /\
  p_alloc V (cto_z0 d) = p_alloc V d /\ f_alloc V (cto_z0 d) = f_alloc V d /\
  m_alloc V (cto_z0 d) = m_alloc V d /\ per_f V (cto_z0 d) = false.
Proof. unfold convert_to_z0. destruct (per_f V d) eqn:E; cbn; auto 10. Qed.

Lemma convert_to_fz0_fields d :
  rows V (cto_fz0 d) = rows V d /\ cols V (cto_fz0 d) = cols V d /\ freqs V (cto_fz0 d) = freqs V d /\
  p_alloc V (cto_fz0 d) = p_alloc V d /\ f_alloc V (cto_fz0 d) = f_alloc V d /\
  m_alloc V (cto_fz0 d) = m_alloc V d /\ per_f V (cto_fz0 d) = true.
Proof. unfold convert_to_fz0. destruct (per_f V d) eqn:E; cbn; auto 10. Qed.

(* a state that differs from d only in the contents of the memories, inside the logical box *)
Lemma inv_update (d e : vd) :
  Inv d ->
  ty V e = ty V d -> rows V e = rows V d -> cols V e = cols V d -> freqs V e = freqs V d ->
  p_alloc V e = p_alloc V d -> f_alloc V e = f_alloc V d -> m_alloc V e = m_alloc V d ->
  per_f V e = per_f V d ->
  ftype V e = ftype V d -> fprec V e = fprec V d -> dprec V e = dprec V d ->
  (forall i, freqs V d <= i -> fv V e i = fv V d i) ->
  (forall i j, freqs V d <= i \/ cells V d <= j -> dat V e i j = dat V d i j) ->
  (forall j, ports V d <= j -> z0v V e j = z0v V d j) ->
  (forall i j, freqs V d <= i \/ ports V d <= j -> z0vv V e i j = z0vv V d i j) ->
  Inv e.
Proof.
  intros (I1 & I2 & I3 & (K1 & K2 & K3 & K4) & I4 & I5 & I6 & I7 & I8) E1 E2 E3 E4 E5 E6 E7 E8 E9 E10 E11 H1 H2 H3 H4.
  unfold Inv, Clean, cells, ports in *. rewrite E1, E2, E3, E4, E5, E6, E7, E8, E9, E10, E11.
  repeat split; auto; intros.
  all: try (rewrite H1 by auto; auto); try (rewrite H2 by auto; auto);
       try (rewrite H3 by auto; auto); try (rewrite H4 by auto; auto).
  all: lia.
Qed.


Ltac split_ifs := repeat match goal with |- context [if ?b then _ else _] => destruct b eqn:? end.
Ltac prep := repeat match goal with
  | H : negb (in_range ?i ?n) = false |- _ => apply negb_false_iff in H; apply in_range_nat in H
  | H : negb _ = true |- _ => apply negb_true_iff in H
  | H : negb _ = false |- _ => apply negb_false_iff in H
  | H : (_ && _) = true |- _ => apply andb_true_iff in H; destruct H
  | H : Nat.ltb _ _ = true |- _ => apply Nat.ltb_lt in H
  | H : Nat.leb _ _ = true |- _ => apply Nat.leb_le in H
  | H : Nat.eqb _ _ = true |- _ => apply Nat.eqb_eq in H
  | H : Nat.eqb _ _ = false |- _ => apply Nat.eqb_neq in H
  end.
Ltac upd_goals :=
  cbn -[Nat.ltb Nat.leb Nat.eqb Nat.max Nat.mul cell_index]; unfold upd1, upd2; intros; bd; auto;
  try (exfalso; lia).

Notation stepf := (DataModel.step V vzero vdef fixed).

Lemma cell_index_cells d r c : r < rows V d -> c < cols V d -> cell_index V d r c < cells V d.
Proof. unfold cell_index, cells. apply cell_index_lt. Qed.

Lemma step_inv d o : Inv d -> Inv (fst (stepf d o)).
Proof.
  intros HI. destruct o; cbn [DataModel.step].
  - (* init *) unfold init. apply resize_inv.
    assert (H1 : Inv (fst (resize fixed d 0 0 0 0))) by (apply resize_inv; exact HI).
    revert H1. generalize (fst (resize fixed d 0 0 0 0)). intros d1 H1.
    unfold set_all_z0. pose proof (convert_to_z0_inv d1 H1) as H2.
    pose proof (convert_to_z0_fields d1) as (A1 & A2 & A3 & A4 & A5 & A6 & A7).
    split_ifs; cbn [fst]; [|exact H1].
    apply (inv_update (cto_z0 d1)); try reflexivity; try exact H2; upd_goals.
  - apply resize_inv; exact HI.
  - (* set_type *) unfold set_type. destruct (vpt_of_Z t); [|exact HI].
    destruct (validate_type v (rows V d) (cols V d)) eqn:E; [|exact HI].
    destruct HI as (I1 & I2 & I3 & K & I4 & I5). unfold Inv, Clean, cells, ports in *. cbn. tauto.
  - (* add_frequency *) unfold add_frequency. destruct (Z.ltb x 0); [exact HI|].
    set (n := Nat.max 50 (f_alloc V d + f_alloc V d / 2)).
    assert (H1 : Inv (if Nat.ltb (f_alloc V d) (freqs V d + 1) then extend_f V vzero vdef d n else d)).
    { destruct (Nat.ltb _ _); [|exact HI].
      destruct HI as (I1 & I2 & I3 & K & I4). pose proof (extend_f_fields d n) as F. cbv zeta in F.
      destruct F as (F1 & F2 & F3 & F4 & F5 & F6 & F7 & F8 & F9 & F10 & F11 & F12).
      pose proof (extend_f_clean _ _ _ d n K) as K'.
      unfold Inv, cells, ports in *. rewrite F1, F2, F3, F5, F6, F7, F8, F9, F11, F12.
      destruct I4 as (? & ? & ? & ? & ?). destruct K' as (? & ? & ? & ?).
      repeat split; try assumption; try lia. }
    revert H1. generalize (if Nat.ltb (f_alloc V d) (freqs V d + 1) then extend_f V vzero vdef d n else d).
    intros d1 H1. split_ifs; cbn [fst]; [|exact HI]. prep.
    destruct H1 as (I1 & I2 & I3 & (K1 & K2 & K3 & K4) & I4).
    unfold Inv, Clean, cells, ports in *. cbn -[Nat.ltb Nat.leb Nat.eqb Nat.max Nat.mul].
    repeat split; try tauto; try lia; intros; unfold upd1; bd; auto; try lia.
    + apply K1. lia.
    + apply K2. lia.
    + apply K4; auto. lia.
  - unfold get_frequency; split_ifs; exact HI.
  - unfold set_frequency; split_ifs; cbn [fst]; try exact HI. prep.
    apply (inv_update d); try reflexivity; try exact HI; upd_goals.
  - unfold get_fmin; split_ifs; exact HI.
  - unfold get_fmax; split_ifs; exact HI.
  - unfold get_frequency_vector; split_ifs; exact HI.
  - unfold set_frequency_vector; split_ifs; cbn [fst]; try exact HI. prep.
    apply (inv_update d); try reflexivity; try exact HI; upd_goals.
  - unfold get_cell; split_ifs; exact HI.
  - unfold set_cell; split_ifs; cbn [fst]; try exact HI. prep.
    pose proof (cell_index_cells d _ _ Heqb0 Heqb1).
    apply (inv_update d); try reflexivity; try exact HI; upd_goals.
  - unfold get_matrix; split_ifs; exact HI.
  - unfold set_matrix; split_ifs; cbn [fst]; try exact HI. prep.
    apply (inv_update d); try reflexivity; try exact HI; upd_goals.
  - unfold get_to_vector; split_ifs; exact HI.
  - unfold set_from_vector; split_ifs; cbn [fst]; try exact HI. prep.
    pose proof (cell_index_cells d _ _ Heqb Heqb0).
    apply (inv_update d); try reflexivity; try exact HI; upd_goals.
  - unfold get_z0, port_ok; cbn [q_d4 fixed]; split_ifs; exact HI.
  - (* set_z0 *) unfold set_z0, port_ok; cbn [q_d4 fixed].
    pose proof (convert_to_z0_inv d HI) as H2.
    pose proof (convert_to_z0_fields d) as (A1 & A2 & A3 & A4 & A5 & A6 & A7).
    split_ifs; cbn [fst]; try exact HI. prep.
    apply (inv_update (cto_z0 d)); try reflexivity; try exact H2; upd_goals.
    unfold ports in *. rewrite A1, A2 in *. lia.
  - unfold set_all_z0.
    pose proof (convert_to_z0_inv d HI) as H2.
    split_ifs; cbn [fst]; try exact HI.
    apply (inv_update (cto_z0 d)); try reflexivity; try exact H2; upd_goals.
  - unfold get_z0_vector; split_ifs; exact HI.
  - unfold set_z0_vector.
    pose proof (convert_to_z0_inv d HI) as H2.
    split_ifs; cbn [fst]; try exact HI.
    apply (inv_update (cto_z0 d)); try reflexivity; try exact H2; upd_goals.
  - exact HI.
  - unfold get_fz0, port_ok; cbn [q_d4 fixed]; split_ifs; exact HI.
  - (* set_fz0 *) unfold set_fz0, port_ok; cbn [q_d4 fixed].
    pose proof (convert_to_fz0_inv d HI) as H2.
    pose proof (convert_to_fz0_fields d) as (A1 & A2 & A3 & A4 & A5 & A6 & A7).
    split_ifs; cbn [fst]; try exact HI. prep.
    apply (inv_update (cto_fz0 d)); try reflexivity; try exact H2; upd_goals.
    unfold ports in *. rewrite A1, A2, A3 in *. lia.
  - unfold get_fz0_vector; split_ifs; exact HI.
  - unfold set_fz0_vector.
    pose proof (convert_to_fz0_inv d HI) as H2.
    pose proof (convert_to_fz0_fields d) as (A1 & A2 & A3 & A4 & A5 & A6 & A7).
    split_ifs; cbn [fst]; try exact HI. prep.
    apply (inv_update (cto_fz0 d)); try reflexivity; try exact H2; upd_goals.
  - exact HI.
  - exact HI.
  - unfold set_filetype. destruct (andb _ _) eqn:E; [|exact HI].
    apply andb_true_iff in E. destruct E as [E1 E2]. apply Z.leb_le in E1, E2.
    destruct HI as (I1 & I2 & I3 & K & I4 & I5 & I6 & I7 & I8). unfold Inv, Clean, cells, ports in *. cbn. tauto.
  - destruct HI as (I1 & I2 & I3 & K & I4 & I5 & I6 & I7 & I8). unfold Inv, Clean, cells, ports in *. cbn. tauto.
  - unfold set_fprecision. destruct (Z.ltb_spec p 1); [exact HI|].
    destruct HI as (I1 & I2 & I3 & K & I4 & I5 & I6 & I7 & I8). unfold Inv, Clean, cells, ports in *. cbn. tauto.
  - unfold set_dprecision. destruct (Z.ltb_spec p 1); [exact HI|].
    destruct HI as (I1 & I2 & I3 & K & I4 & I5 & I6 & I7 & I8). unfold Inv, Clean, cells, ports in *. cbn. tauto.
Qed.


Lemma resize_rejected_unchanged Q d t r c f :
  o_ret V (snd (resize Q d t r c f)) <> ROk -> fst (resize Q d t r c f) = d.
Proof.
  intros H. destruct (resize_cases Q d t r c f) as [[E _]|(t' & _ & _ & _ & _ & _ & _ & Hs & _)]; auto.
  rewrite Hs in H. contradiction H. reflexivity.
Qed.

(* ---------------------------------------------------------------- reachability *)
Definition reachable Q (d : vd) : Prop := exists l, d = run V vzero vdef Q (vd_alloc V vzero vdef) l.

Lemma run_inv d l : Inv d -> Inv (run V vzero vdef fixed d l).
Proof.
  revert d. induction l as [|o l IH]; intros d HI; [exact HI|].
  cbn [run fold_left]. apply IH. apply step_inv. exact HI.
Qed.

Lemma inv_reachable d : reachable fixed d -> Inv d.
Proof. intros [l ->]. apply run_inv. apply inv_alloc. Qed.

(* ---------------------------------------------------------------- no fault *)
Ltac fault_contra :=
  exfalso; prep;
  repeat match goal with
  | H : (_ && _) = false |- _ => apply andb_false_iff in H; destruct H
  | H : Nat.ltb _ _ = false |- _ => apply Nat.ltb_ge in H
  | H : Nat.leb _ _ = false |- _ => apply Nat.leb_gt in H
  end; try lia.

Lemma step_no_fault d o : Inv d -> o_ret V (snd (stepf d o)) <> RFault.
Proof.
  intros HI. pose proof HI as (I1 & I2 & I3 & K & I4).
  pose proof (convert_to_z0_fields d) as (A1 & A2 & A3 & A4 & A5 & A6 & A7).
  pose proof (convert_to_fz0_fields d) as (B1 & B2 & B3 & B4 & B5 & B6 & B7).
  destruct o; cbn [DataModel.step].
  - unfold init. apply resize_no_fault.
    assert (H1 : Inv (fst (resize fixed d 0 0 0 0))) by (apply resize_inv; exact HI).
    change (Inv (fst (stepf (fst (resize fixed d 0 0 0 0)) (OSetAllZ0 V vdef)))). apply step_inv. exact H1.
  - apply resize_no_fault; exact HI.
  - unfold set_type; destruct (vpt_of_Z t); [|discriminate]; split_ifs; discriminate.
  - unfold add_frequency. destruct (Z.ltb x 0); [discriminate|].
    pose proof (extend_f_fields d (Nat.max 50 (f_alloc V d + f_alloc V d / 2))) as F. cbv zeta in F.
    destruct F as (F1 & F2 & F3 & F4 & F5 & F6 & F7 & _).
    assert (Hg : f_alloc V d < Nat.max 50 (f_alloc V d + f_alloc V d / 2)).
    { destruct (Nat.lt_ge_cases (f_alloc V d) 50); [lia|].
      pose proof (Nat.div_str_pos (f_alloc V d) 2). lia. }
    destruct (Nat.ltb_spec (f_alloc V d) (freqs V d + 1)); split_ifs; try discriminate; fault_contra.
  - unfold get_frequency; split_ifs; try discriminate; fault_contra.
  - unfold set_frequency; split_ifs; try discriminate; fault_contra.
  - unfold get_fmin; split_ifs; try discriminate; fault_contra.
  - unfold get_fmax; split_ifs; try discriminate; fault_contra.
  - unfold get_frequency_vector; split_ifs; try discriminate; fault_contra.
  - unfold set_frequency_vector; split_ifs; try discriminate; fault_contra.
  - unfold get_cell; split_ifs; try discriminate; fault_contra.
    pose proof (cell_index_cells d _ _ Heqb0 Heqb1). lia.
  - unfold set_cell; split_ifs; try discriminate; fault_contra.
    pose proof (cell_index_cells d _ _ Heqb0 Heqb1). lia.
  - unfold get_matrix; split_ifs; try discriminate; fault_contra.
  - unfold set_matrix; split_ifs; try discriminate; fault_contra.
  - unfold get_to_vector; split_ifs; try discriminate; fault_contra.
    pose proof (cell_index_cells d _ _ Heqb Heqb0). lia.
  - unfold set_from_vector; split_ifs; try discriminate; fault_contra.
    pose proof (cell_index_cells d _ _ Heqb Heqb0). lia.
  - unfold get_z0, port_ok; cbn [q_d4 fixed]; split_ifs; try discriminate; fault_contra.
  - unfold set_z0, port_ok; cbn [q_d4 fixed]; split_ifs; try discriminate; fault_contra.
  - unfold set_all_z0; unfold ports in *; split_ifs; try discriminate; fault_contra.
  - unfold get_z0_vector; split_ifs; try discriminate; fault_contra.
  - unfold set_z0_vector; unfold ports in *; split_ifs; try discriminate; fault_contra.
  - discriminate.
  - unfold get_fz0, port_ok; cbn [q_d4 fixed]; split_ifs; try discriminate; fault_contra.
  - unfold set_fz0, port_ok; cbn [q_d4 fixed]; split_ifs; try discriminate; fault_contra.
  - unfold get_fz0_vector; split_ifs; try discriminate; fault_contra.
  - unfold set_fz0_vector; unfold ports in *; split_ifs; try discriminate; fault_contra.
  - discriminate.
  - discriminate.
  - unfold set_filetype; split_ifs; discriminate.
  - discriminate.
  - unfold set_fprecision; split_ifs; discriminate.
  - unfold set_dprecision; split_ifs; discriminate.
Qed.


(* ---------------------------------------------------------------- indices outside [0,n) *)
Definition oob (i : Z) (n : nat) : Prop := ~ (0 <= i < Z.of_nat n)%Z.

Lemma oob_in_range i n : oob i n -> in_range i n = false.
Proof. unfold oob. intros H. destruct (in_range i n) eqn:E; auto. apply in_range_spec in E. contradiction. Qed.

(* the operation carries an index that lies outside its range (index n included).  The 16
   indexed accessors of vnadata.h / vnadata(3): get/set_frequency, get/set_cell, get/set_matrix,
   get_to_vector, set_from_vector, get/set_z0, get/set_fz0, get/set_fz0_vector (14 with an
   explicit index argument) and get_fmin / get_fmax, which address the frequencies 0 and
   frequencies-1: outside [0, frequencies) exactly when the object has no frequencies. *)
Definition bad_index (d : vd) (o : op V) : Prop :=
  match o with
  | OGetFmin _ | OGetFmax _ => freqs V d = 0
  | OGetFreq _ i | OSetFreq _ i _ | OGetMatrix _ i | OSetMatrix _ i _ | OGetFz0Vec _ i | OSetFz0Vec _ i _ =>
      oob i (freqs V d)
  | OGetCell _ f r c | OSetCell _ f r c _ => oob f (freqs V d) \/ oob r (rows V d) \/ oob c (cols V d)
  | OGetToVec _ r c | OSetFromVec _ r c _ => oob r (rows V d) \/ oob c (cols V d)
  | OGetZ0 _ p | OSetZ0 _ p _ => oob p (ports V d)
  | OGetFz0 _ f p | OSetFz0 _ f p _ => oob f (freqs V d) \/ oob p (ports V d)
  | _ => False
  end.

Lemma index_refused d o : bad_index d o -> stepf d o = (d, fail V).
Proof.
  destruct o; cbn [bad_index DataModel.step]; try contradiction; intros H;
  unfold get_frequency, set_frequency, get_matrix, set_matrix, get_fz0_vector, set_fz0_vector,
         get_cell, set_cell, get_to_vector, set_from_vector, get_z0, set_z0, get_fz0, set_fz0, port_ok,
         get_fmin, get_fmax;
  cbn [q_d4 fixed]; try (rewrite H; reflexivity);
  repeat match goal with
  | H : _ \/ _ |- _ => destruct H
  | H : oob _ _ |- _ => apply oob_in_range in H
  end;
  repeat match goal with
  | |- context [if negb (in_range ?i ?n) then _ else _] =>
      destruct (in_range i n) eqn:?; cbn [negb]; try congruence; try reflexivity
  end.
Qed.

(* ---------------------------------------------------------------- caller-supplied vectors *)
Notation stepc := (DataModel.step_chk V vzero vdef fixed).

Lemma step_chk_inv d o : Inv d -> Inv (fst (stepc d o)).
Proof.
  intros HI. unfold step_chk. destruct (short_vector V d o); [exact HI|apply step_inv; exact HI].
Qed.

(* with the caller's buffers as checked memories: on a state satisfying the invariant an
   operation faults exactly when it reads past the end of a vector supplied by the caller *)
Lemma step_chk_fault_iff d o :
  Inv d -> (o_ret V (snd (stepc d o)) = RFault <-> short_vector V d o = true).
Proof.
  intros HI. unfold step_chk. destruct (short_vector V d o) eqn:E.
  - split; reflexivity.
  - split; [intros H; exfalso; exact (step_no_fault d o HI H)|discriminate].
Qed.

Lemma step_chk_no_fault d o : Inv d -> short_vector V d o = false -> o_ret V (snd (stepc d o)) <> RFault.
Proof. intros HI E H. apply (step_chk_fault_iff d o HI) in H. congruence. Qed.

(* an index is tested before the caller's vector is read *)
Lemma bad_index_not_short d o : bad_index d o -> short_vector V d o = false.
Proof.
  destruct o; cbn [bad_index short_vector]; try contradiction; try reflexivity; intros H;
  repeat match goal with
  | H : _ \/ _ |- _ => destruct H
  | H : oob _ _ |- _ => apply oob_in_range in H; rewrite H
  end; cbn [andb]; try reflexivity.
  all: destruct (in_range r (rows V d)); reflexivity.
Qed.

Lemma index_refused_chk d o : bad_index d o -> stepc d o = (d, fail V).
Proof.
  intros H. unfold step_chk. rewrite (bad_index_not_short d o H). apply index_refused. exact H.
Qed.

Lemma run_chk_inv d l : Inv d -> Inv (run_chk V vzero vdef fixed d l).
Proof.
  revert d. induction l as [|o l IH]; intros d HI; [exact HI|].
  cbn [run_chk fold_left]. apply IH. apply step_chk_inv. exact HI.
Qed.

(* ---------------------------------------------------------------- resize presents initial values *)
Lemma resize_exposes_initial Q d t r c f :
  Inv d -> o_ret V (snd (resize Q d t r c f)) = ROk ->
  let d' := fst (resize Q d t r c f) in
  (forall i, freqs V d <= i -> fv V d' i = 0%Z) /\
  (forall i j, freqs V d <= i \/ cells V d <= j -> dat V d' i j = vzero) /\
  (per_f V d' = false -> forall j, ports V d <= j -> z0v V d' j = vdef) /\
  (per_f V d' = true -> forall i j, freqs V d <= i \/ ports V d <= j -> z0vv V d' i j = vdef) /\
  (forall i, i < freqs V d -> i < freqs V d' -> fv V d' i = fv V d i) /\
  (forall i j, i < freqs V d -> i < freqs V d' -> j < cells V d -> j < cells V d' -> dat V d' i j = dat V d i j).
Proof.
  intros HI Hok.
  destruct (resize_ok_spec Q d t r c f HI Hok) as (t' & _ & _ & _ & _ & _ & _ & HR).
  destruct HR as (A1 & A2 & A3 & A4 & A5 & A6 & A7 & A8 & A9 & A10 & A11 & A12 & B1 & B2 & B3 & B4).
  cbv zeta. unfold cells in *. rewrite A2, A3, A4, A8.
  repeat split; intros.
  - rewrite B1. bd; auto. lia.
  - rewrite B2. bd; auto; lia.
  - rewrite B3 by assumption. bd; auto; lia.
  - rewrite B4 by assumption. bd; auto; lia.
  - rewrite B1. bd; auto; lia.
  - rewrite B2. bd; auto; lia.
Qed.

(* ---------------------------------------------------------------- z0 mode rules *)
(* ordinary setters leave (or establish) ordinary mode: the addressed entries take the new
   values, and when the object was in per-frequency mode all other entries return to 50 ohm *)
Lemma set_z0_rule d p v :
  Inv d -> in_range p (ports V d) = true ->
  let d' := fst (stepf d (OSetZ0 V p v)) in
  snd (stepf d (OSetZ0 V p v)) = ok V /\ per_f V d' = false /\ z0v V d' (Z.to_nat p) = v /\
  (forall j, j <> Z.to_nat p -> z0v V d' j = if per_f V d then vdef else z0v V d j).
Proof.
  intros HI Hp. pose proof HI as (I1 & I2 & I3 & _).
  pose proof (convert_to_z0_fields d) as (A1 & A2 & A3 & A4 & A5 & A6 & A7).
  cbn [DataModel.step]. unfold set_z0, port_ok; cbn [q_d4 fixed]. rewrite Hp. cbn [negb].
  apply in_range_nat in Hp.
  destruct (Nat.ltb_spec (Z.to_nat p) (p_alloc V (cto_z0 d))); [|lia].
  cbn -[Nat.eqb]. repeat split; auto.
  - unfold upd1. rewrite Nat.eqb_refl. reflexivity.
  - intros j Hj. unfold upd1. destruct (Nat.eqb_spec j (Z.to_nat p)); [contradiction|].
    unfold convert_to_z0. destruct (per_f V d); reflexivity.
Qed.

(* per-frequency setters establish per-frequency mode, preserving the ordinary impedances for
   all other entries of the logical frequencies *)
Lemma set_fz0_rule d f p v :
  Inv d -> in_range f (freqs V d) = true -> in_range p (ports V d) = true ->
  let d' := fst (stepf d (OSetFz0 V f p v)) in
  snd (stepf d (OSetFz0 V f p v)) = ok V /\ per_f V d' = true /\
  z0vv V d' (Z.to_nat f) (Z.to_nat p) = v /\
  (forall i j, i < freqs V d -> j < ports V d -> (i, j) <> (Z.to_nat f, Z.to_nat p) ->
     z0vv V d' i j = if per_f V d then z0vv V d i j else z0v V d j).
Proof.
  intros HI Hf Hp. pose proof HI as (I1 & I2 & I3 & _).
  pose proof (convert_to_fz0_fields d) as (A1 & A2 & A3 & A4 & A5 & A6 & A7).
  cbn [DataModel.step]. unfold set_fz0, port_ok; cbn [q_d4 fixed]. rewrite Hf, Hp. cbn [negb].
  apply in_range_nat in Hp. apply in_range_nat in Hf.
  destruct (Nat.ltb_spec (Z.to_nat f) (f_alloc V (cto_fz0 d))); [|lia].
  destruct (Nat.ltb_spec (Z.to_nat p) (p_alloc V (cto_fz0 d))); [|lia].
  cbn -[Nat.eqb]. repeat split; auto.
  - unfold upd2. rewrite !Nat.eqb_refl. reflexivity.
  - intros i j Hi Hj Hne. unfold upd2.
    destruct (Nat.eqb_spec i (Z.to_nat f)); destruct (Nat.eqb_spec j (Z.to_nat p)); cbn [andb];
      try (subst; contradiction Hne; reflexivity).
    all: unfold convert_to_fz0; destruct (per_f V d); cbn -[Nat.ltb]; auto; bd; auto; lia.
Qed.

(* the ordinary getter fails in per-frequency mode; the per-frequency getter works in both *)
Lemma get_rules d f p :
  Inv d -> in_range f (freqs V d) = true -> in_range p (ports V d) = true ->
  stepf d (OGetZ0 V p) = (if per_f V d then (d, fail V) else (d, okp V (PVal V (z0v V d (Z.to_nat p))))) /\
  stepf d (OGetFz0 V f p) =
    (d, okp V (PVal V (if per_f V d then z0vv V d (Z.to_nat f) (Z.to_nat p) else z0v V d (Z.to_nat p)))).
Proof.
  intros HI Hf Hp. pose proof HI as (I1 & I2 & I3 & _).
  cbn [DataModel.step]. unfold get_z0, get_fz0, port_ok; cbn [q_d4 fixed]. rewrite Hf, Hp. cbn [negb].
  apply in_range_nat in Hp. apply in_range_nat in Hf.
  destruct (Nat.ltb_spec (Z.to_nat p) (p_alloc V d)); [|lia].
  destruct (Nat.ltb_spec (Z.to_nat f) (f_alloc V d)); [|lia].
  destruct (per_f V d); cbn [andb]; split; reflexivity.
Qed.



End Proofs.

(* ---------------------------------------------------------------- the code as found *)
Section AsFound.
Variable V : Type.
Variables vzero vdef : V.
Hypothesis Hne : vzero <> vdef.
Notation runq Q := (run V vzero vdef Q (vd_alloc V vzero vdef)).

(* D4: with the test `port > ports` the index n = ports is accepted ... *)
Lemma index_n_accepted_as_found :
  exists d p, reachable V vzero vdef as_found d /\ bad_index V d (OGetZ0 V p) /\
              o_ret V (snd (step V vzero vdef as_found d (OGetZ0 V p))) = ROk.
Proof.
  exists (runq as_found [OInit V 1 3 3 1; OResize V 1 2 2 1]), 2%Z.
  split; [eexists; reflexivity|]. split; [cbv; intros [_ H]; discriminate H | reflexivity].
Qed.

(* ... and reads (or writes) one element past the allocation when the allocation is tight *)
Lemma fault_reachable_as_found :
  exists d p, reachable V vzero vdef as_found d /\
              o_ret V (snd (step V vzero vdef as_found d (OGetZ0 V p))) = RFault.
Proof.
  exists (runq as_found [OInit V 1 2 2 1]), 2%Z. split; [eexists; reflexivity|reflexivity].
Qed.

(* D6: convert_to_fz0 fills rows beyond the logical frequencies with the ordinary z0: the
   invariant "cells beyond the logical sizes hold initial values" fails in a reachable state *)
Lemma inv_refuted_as_found :
  exists d, reachable V vzero vdef as_found d /\ ~ Inv V vzero vdef d.
Proof.
  exists (runq as_found [OInit V 1 1 1 0; OAddFreq V 1; OSetZ0 V 0 vzero; OSetFz0 V 0 0 vzero]).
  split; [eexists; reflexivity|].
  intros (_ & _ & _ & (_ & _ & _ & K4) & _).
  specialize (K4 eq_refl 1 0 (or_introl (le_n 1))). cbv in K4. exact (Hne K4).
Qed.

(* the same histories on the repaired model *)
Example index_n_refused_example :
  let d := runq fixed [OInit V 1 3 3 1; OResize V 1 2 2 1] in
  bad_index V d (OGetZ0 V 2) /\ step V vzero vdef fixed d (OGetZ0 V 2) = (d, fail V).
Proof.
  cbv zeta. split; [cbv; intros [_ H]; discriminate H|].
  apply index_refused. cbv; intros [_ H]; discriminate H.
Qed.

(* a history that grows, fills, switches to per-frequency impedances, shrinks every dimension and
   regrows every dimension beyond its former size: the resulting state satisfies the invariant
   (instance of inv_reachable) and is not trivial *)
Definition example_history : list (op V) :=
  [OInit V 1 2 2 2; OAddFreq V 1; OSetMatrix V 0 [vdef; vdef; vdef; vdef]; OSetZ0Vec V [vzero; vzero];
   OSetFz0 V 2 1 vzero; OResize V 0 1 1 1; OResize V 0 2 3 4; OSetCell V 3 1 2 vdef].

Example inv_example :
  let d := runq fixed example_history in
  Inv V vzero vdef d /\
  (rows V d, cols V d, freqs V d) = (2, 3, 4) /\ per_f V d = true /\
  (p_alloc V d, f_alloc V d, m_alloc V d) = (3, 50, 6) /\
  (* shrunk in between: *)
  (let e := runq fixed (firstn 6 example_history) in (rows V e, cols V e, freqs V e) = (1, 1, 1)) /\
  dat V d 3 5 = vdef /\ dat V d 0 0 = vdef /\ dat V d 0 1 = vzero /\ z0vv V d 0 0 = vzero /\ z0vv V d 0 1 = vdef.
Proof.
  cbv zeta. split; [apply inv_reachable; eexists; reflexivity|]. repeat split; reflexivity.
Qed.

(* the hypotheses of the index theorem for the two accessors without an explicit index *)
Example fmin_refused_example :
  let d := runq fixed [OInit V 1 2 2 0] in
  bad_index V d (OGetFmin V) /\ step_chk V vzero vdef fixed d (OGetFmin V) = (d, fail V) /\
  bad_index V d (OGetFmax V) /\ step_chk V vzero vdef fixed d (OGetFmax V) = (d, fail V).
Proof. cbv zeta. repeat split; reflexivity. Qed.

(* a caller's vector that is too short: [OInit 1 2 2 1; OSetMatrix 0 [v]] reads 4 values from a
   buffer of 1; the unchecked `step` quietly completes it with zeros *)
Example short_vector_example :
  let d := runq fixed [OInit V 1 2 2 1] in
  Inv V vzero vdef d /\ short_vector V d (OSetMatrix V 0 [vdef]) = true /\
  o_ret V (snd (step_chk V vzero vdef fixed d (OSetMatrix V 0 [vdef]))) = RFault /\
  o_ret V (snd (step V vzero vdef fixed d (OSetMatrix V 0 [vdef]))) = ROk /\
  short_vector V d (OSetMatrix V 0 [vdef; vzero; vzero; vdef]) = false /\
  o_ret V (snd (step_chk V vzero vdef fixed d (OSetMatrix V 0 [vdef; vzero; vzero; vdef]))) = ROk.
Proof.
  cbv zeta. split; [apply inv_reachable; eexists; reflexivity|]. repeat split; reflexivity.
Qed.

End AsFound.
