(* The abstract array that a vnadata_t is documented to be (vnadata(3)): a parameter type,
   dimensions, and total functions for the frequencies, the flattened matrices and the reference
   impedances in one of two modes.  No allocations, no memory.  The operations are written from
   the manual page, independently of DataModel:
     - resize keeps the flattened prefix common to the old and the new box and presents every
       other cell / frequency / impedance with its initial value (0, 0, 50 ohm);
     - getters return the stored value for indices in [0,n) and fail otherwise;
     - the cell setter is a point update.
   No proofs in this file. *)
Require Import List ZArith Bool.
Require Import LV.Data.DataModel.

Section Spec.
Variable V : Type.
Variables vzero vdef : V.

Record arr := mkarr {
  a_ty : vpt; a_rows : nat; a_cols : nat; a_freqs : nat; a_perf : bool;
  a_fv : nat -> Z; a_dat : nat -> nat -> V; a_z0 : nat -> V; a_fz0 : nat -> nat -> V }.

Definition a_ports (a : arr) := Nat.max (a_rows a) (a_cols a).
Definition a_cells (a : arr) := a_rows a * a_cols a.

(* equality of abstract arrays: pointwise, impedances compared in the active mode *)
Definition arr_eq (a b : arr) : Prop :=
  a_ty a = a_ty b /\ a_rows a = a_rows b /\ a_cols a = a_cols b /\ a_freqs a = a_freqs b /\
  a_perf a = a_perf b /\
  (forall i, a_fv a i = a_fv b i) /\ (forall i j, a_dat a i j = a_dat b i j) /\
  (a_perf a = false -> forall j, a_z0 a j = a_z0 b j) /\
  (a_perf a = true -> forall i j, a_fz0 a i j = a_fz0 b i j).

Definition spec_resize (a : arr) (t : vpt) (R C F : nat) : arr :=
  let kf := Nat.min F (a_freqs a) in
  let kc := Nat.min (R * C) (a_cells a) in
  let kp := Nat.min (Nat.max R C) (a_ports a) in
  mkarr t R C F (a_perf a)
        (fun i => if Nat.ltb i kf then a_fv a i else 0%Z)
        (fun i j => if Nat.ltb i kf && Nat.ltb j kc then a_dat a i j else vzero)
        (fun j => if Nat.ltb j kp then a_z0 a j else vdef)
        (fun i j => if Nat.ltb i kf && Nat.ltb j kp then a_fz0 a i j else vdef).

Definition spec_get_frequency (a : arr) (i : Z) : option Z :=
  if in_range i (a_freqs a) then Some (a_fv a (Z.to_nat i)) else None.

Definition spec_get_cell (a : arr) (f r c : Z) : option V :=
  if in_range f (a_freqs a) && in_range r (a_rows a) && in_range c (a_cols a)
  then Some (a_dat a (Z.to_nat f) (Z.to_nat r * a_cols a + Z.to_nat c)) else None.

Definition spec_set_cell (a : arr) (f r c : Z) (v : V) : option arr :=
  if in_range f (a_freqs a) && in_range r (a_rows a) && in_range c (a_cols a)
  then Some (mkarr (a_ty a) (a_rows a) (a_cols a) (a_freqs a) (a_perf a) (a_fv a)
               (fun i j => if Nat.eqb i (Z.to_nat f) && Nat.eqb j (Z.to_nat r * a_cols a + Z.to_nat c)
                           then v else a_dat a i j) (a_z0 a) (a_fz0 a))
  else None.

(* vnadata_get_z0 fails when per-frequency impedances are in use *)
Definition spec_get_z0 (a : arr) (p : Z) : option V :=
  if in_range p (a_ports a) && negb (a_perf a) then Some (a_z0 a (Z.to_nat p)) else None.

(* vnadata_get_fz0 works in both modes *)
Definition spec_get_fz0 (a : arr) (f p : Z) : option V :=
  if in_range f (a_freqs a) && in_range p (a_ports a)
  then Some (if a_perf a then a_fz0 a (Z.to_nat f) (Z.to_nat p) else a_z0 a (Z.to_nat p)) else None.

(* abstraction: forget the allocations *)
Definition abs (d : vd V) : arr :=
  mkarr (ty V d) (rows V d) (cols V d) (freqs V d) (per_f V d) (fv V d) (dat V d) (z0v V d) (z0vv V d).

End Spec.
