(* The abstract array that a vnadata_t is documented to be (vnadata(3)): a parameter type,
   dimensions, total functions for the frequencies, the flattened matrices and the reference
   impedances in one of two modes, and the save options.  No allocations, no memory, no faults.
   The operations are written from the manual page:
     - resize keeps the flattened prefix common to the old and the new box and presents every
       other cell / frequency / impedance with its initial value (0, 0, 50 ohm);
     - init = resize to the empty undefined object, all impedances back to ordinary 50 ohm,
       resize to the requested shape (so that every cell is initial);
     - getters return the stored values for indices in [0,n) and fail otherwise; setters are
       point / row / column updates inside the logical box;
     - the ordinary z0 setters discard per-frequency impedances (everything else back to 50 ohm),
       the per-frequency setters establish per-frequency mode preserving the ordinary values;
       get_z0 / get_z0_vector fail in per-frequency mode, get_fz0(_vector) work in both;
     - the type / dimension rule (`dims_fit`, `type_rule` below) is stated here on its own, not
       taken from DataModel.validate_type; RefineProofs.validate_type_is_manual_rule proves that
       the model's function (read from vnadata_alloc.c validate_type) decides exactly this rule;
     - the length a caller's vector must have for each vector-taking setter (`vec_need`,
       `vec_ok`): the library cannot check it, so it is a premise of the refinement theorems.

   Two rules are NOT the manual's wording but the code's (second review): vnadata_get_fmin /
   vnadata_get_fmax are the FIRST and LAST element of the frequency vector (vnadata(3): "the lowest
   and highest frequencies" - the same thing only for an ascending vector:
   AccessorsProofs.fmin_fmax_lowest_highest_when_ascending / .._refuted_unordered), and
   vnadata_get_fz0 / vnadata_get_fz0_vector test the frequency index also in ordinary mode
   (vnadata(3): "they don't use the findex argument"); the property text ("any index outside
   [0, n) is refused") sides with the code; fixes/proposed/DH91 rewords the manual.
   vnadata_add_frequency leaves the hidden part of the array alone here; that the new row is
   initial is AccessorsProofs.add_frequency_exposes_initial (on the model, from its invariant).

   What is shared with DataModel (this file imports it for the vocabulary only): the types of the
   interface - parameter type codes `vpt` / `vpt_of_Z`, operations `op`, outcomes `outcome` /
   `payload` - the interval test `in_range i n` (DataProofs.in_range_spec: true iff 0 <= i < n),
   the C constant INT_MAX, and the record `vd` in the abstraction function `abs` (forget the
   allocations).  No rule of the library is taken from DataModel.
   No proofs in this file. *)
Require Import List ZArith Bool.
Require Import LV.Data.DataModel.
Import ListNotations.

(* ---------------------------------------------------------------- type / dimension rule *)
(* vnadata(3): "The type argument must be one of VPT_UNDEF, VPT_S, ... VPT_ZIN, and the dimensions
   must be consistent with the parameter type."  What "consistent" means is what the kinds of
   network parameters are (DESCRIPTION; the diagnostics of the library name the three shapes
   "must be square", "must be 2 x 2", "expected row vector for Zin"):
     s, z, y        describe an n-port for any n: an n x n matrix;
     t, u, h, g, a, b   (scattering-transfer, inverse scattering-transfer, hybrid, inverse hybrid,
                    ABCD, inverse ABCD) are defined for two-port networks only: 2 x 2;
     zin            is the vector of input impedances, one per port: 1 x n;
     undefined      carries no interpretation: any rows x columns.
   `dims_fit` is that statement as a relation; `type_rule` is its decision procedure, used by the
   executable specification below (RefineProofs.type_rule_spec: type_rule = true <-> dims_fit). *)
Definition n_port_type (t : vpt) : Prop := t = VS \/ t = VZ \/ t = VY.
Definition two_port_only_type (t : vpt) : Prop := In t [VT; VU; VH; VG; VA; VB].

Inductive dims_fit : vpt -> nat -> nat -> Prop :=
| fit_undefined : forall r c, dims_fit VUNDEF r c
| fit_n_port : forall t n, n_port_type t -> dims_fit t n n
| fit_two_port : forall t, two_port_only_type t -> dims_fit t 2 2
| fit_zin : forall n, dims_fit VZIN 1 n.

Inductive shape := AnyDims | SquareDims | TwoByTwo | OneRow.
Definition shape_of (t : vpt) : shape :=
  match t with
  | VUNDEF => AnyDims
  | VS | VZ | VY => SquareDims
  | VT | VU | VH | VG | VA | VB => TwoByTwo
  | VZIN => OneRow
  end.
Definition type_rule (t : vpt) (r c : nat) : bool :=
  match shape_of t with
  | AnyDims => true
  | SquareDims => Nat.eqb r c
  | TwoByTwo => Nat.eqb r 2 && Nat.eqb c 2
  | OneRow => Nat.eqb r 1
  end.

Section Spec.
Variable V : Type.
Variables vzero vdef : V.

Record arr := mkarr {
  a_ty : vpt; a_rows : nat; a_cols : nat; a_freqs : nat; a_perf : bool;
  a_fv : nat -> Z; a_dat : nat -> nat -> V; a_z0 : nat -> V; a_fz0 : nat -> nat -> V;
  a_ftype : Z; a_fmt : option nat; a_fprec : Z; a_dprec : Z }.

Definition a_ports (a : arr) := Nat.max (a_rows a) (a_cols a).
Definition a_cells (a : arr) := a_rows a * a_cols a.

(* equality of abstract arrays: pointwise, impedances compared in the active mode *)
Definition arr_eq (a b : arr) : Prop :=
  a_ty a = a_ty b /\ a_rows a = a_rows b /\ a_cols a = a_cols b /\ a_freqs a = a_freqs b /\
  a_perf a = a_perf b /\
  (forall i, a_fv a i = a_fv b i) /\ (forall i j, a_dat a i j = a_dat b i j) /\
  (a_perf a = false -> forall j, a_z0 a j = a_z0 b j) /\
  (a_perf a = true -> forall i j, a_fz0 a i j = a_fz0 b i j) /\
  a_ftype a = a_ftype b /\ a_fmt a = a_fmt b /\ a_fprec a = a_fprec b /\ a_dprec a = a_dprec b.

Definition with_fv (a : arr) x := mkarr (a_ty a) (a_rows a) (a_cols a) (a_freqs a) (a_perf a) x
  (a_dat a) (a_z0 a) (a_fz0 a) (a_ftype a) (a_fmt a) (a_fprec a) (a_dprec a).
Definition with_dat (a : arr) x := mkarr (a_ty a) (a_rows a) (a_cols a) (a_freqs a) (a_perf a)
  (a_fv a) x (a_z0 a) (a_fz0 a) (a_ftype a) (a_fmt a) (a_fprec a) (a_dprec a).
(* ordinary mode with the given vector *)
Definition with_z0 (a : arr) x := mkarr (a_ty a) (a_rows a) (a_cols a) (a_freqs a) false
  (a_fv a) (a_dat a) x (a_fz0 a) (a_ftype a) (a_fmt a) (a_fprec a) (a_dprec a).
(* per-frequency mode with the given rows *)
Definition with_fz0 (a : arr) x := mkarr (a_ty a) (a_rows a) (a_cols a) (a_freqs a) true
  (a_fv a) (a_dat a) (a_z0 a) x (a_ftype a) (a_fmt a) (a_fprec a) (a_dprec a).
Definition with_meta (a : arr) ft fm fp dp := mkarr (a_ty a) (a_rows a) (a_cols a) (a_freqs a)
  (a_perf a) (a_fv a) (a_dat a) (a_z0 a) (a_fz0 a) ft fm fp dp.

Definition spec_resize (a : arr) (t : vpt) (R C F : nat) : arr :=
  let kf := Nat.min F (a_freqs a) in
  let kc := Nat.min (R * C) (a_cells a) in
  let kp := Nat.min (Nat.max R C) (a_ports a) in
  mkarr t R C F (a_perf a)
        (fun i => if Nat.ltb i kf then a_fv a i else 0%Z)
        (fun i j => if Nat.ltb i kf && Nat.ltb j kc then a_dat a i j else vzero)
        (fun j => if Nat.ltb j kp then a_z0 a j else vdef)
        (fun i j => if Nat.ltb i kf && Nat.ltb j kp then a_fz0 a i j else vdef)
        (a_ftype a) (a_fmt a) (a_fprec a) (a_dprec a).

Definition sfail (a : arr) : arr * outcome V := (a, fail V).

(* when a resize is accepted: valid type code, non-negative dimensions that fit the type, and a
   cell count that fits an int *)
Definition resize_cond (tz r c f : Z) : option vpt :=
  match vpt_of_Z tz with
  | Some t =>
    if ((0 <=? r) && (0 <=? c) && (0 <=? f))%Z
       && type_rule t (Z.to_nat r) (Z.to_nat c)
       && (Z.of_nat (Z.to_nat r) * Z.of_nat (Z.to_nat c) <=? INT_MAX)%Z
    then Some t else None
  | None => None
  end.

Definition spec_resize_op (a : arr) (tz r c f : Z) : arr * outcome V :=
  match resize_cond tz r c f with
  | Some t => (spec_resize a t (Z.to_nat r) (Z.to_nat c) (Z.to_nat f), ok V)
  | None => sfail a
  end.

(* the z0 vector an ordinary setter starts from: the current one, or all 50 ohm when the object
   was in per-frequency mode *)
Definition z0_base (a : arr) : nat -> V := if a_perf a then (fun _ => vdef) else a_z0 a.
(* the rows a per-frequency setter starts from: the current ones, or the ordinary vector at every
   logical frequency *)
Definition fz0_base (a : arr) : nat -> nat -> V :=
  if a_perf a then a_fz0 a else (fun i j => if Nat.ltb i (a_freqs a) then a_z0 a j else vdef).

Definition spec_set_all_z0 (a : arr) (v : V) : arr :=
  with_z0 a (fun p => if Nat.ltb p (a_ports a) then v else z0_base a p).

Definition spec_init (a : arr) (tz r c f : Z) : arr * outcome V :=
  let a1 := fst (spec_resize_op a 0 0 0 0) in
  spec_resize_op (spec_set_all_z0 a1 vdef) tz r c f.

Definition spec_step (a : arr) (o : op V) : arr * outcome V :=
  match o with
  | OInit _ t r c f => spec_init a t r c f
  | OResize _ t r c f => spec_resize_op a t r c f
  | OSetType _ tz =>
      match vpt_of_Z tz with
      | Some t => if type_rule t (a_rows a) (a_cols a)
                  then (mkarr t (a_rows a) (a_cols a) (a_freqs a) (a_perf a) (a_fv a) (a_dat a) (a_z0 a)
                              (a_fz0 a) (a_ftype a) (a_fmt a) (a_fprec a) (a_dprec a), ok V)
                  else sfail a
      | None => sfail a
      end
  | OAddFreq _ x =>
      if (x <? 0)%Z then sfail a else
      (mkarr (a_ty a) (a_rows a) (a_cols a) (a_freqs a + 1) (a_perf a)
             (fun i => if Nat.eqb i (a_freqs a) then x else a_fv a i)
             (a_dat a) (a_z0 a) (a_fz0 a) (a_ftype a) (a_fmt a) (a_fprec a) (a_dprec a), ok V)
  | OGetFreq _ i => if in_range i (a_freqs a) then (a, okp V (PFreq (a_fv a (Z.to_nat i)))) else sfail a
  | OSetFreq _ i x =>
      if in_range i (a_freqs a)
      then (with_fv a (fun k => if Nat.eqb k (Z.to_nat i) then x else a_fv a k), ok V) else sfail a
  | OGetFmin _ => if Nat.eqb (a_freqs a) 0 then sfail a else (a, okp V (PFreq (a_fv a 0)))
  | OGetFmax _ => if Nat.eqb (a_freqs a) 0 then sfail a else (a, okp V (PFreq (a_fv a (a_freqs a - 1))))
  | OGetFreqVec _ => (a, okp V (PFreqs (map (a_fv a) (seq 0 (a_freqs a)))))
  | OSetFreqVec _ l =>
      (with_fv a (fun k => if Nat.ltb k (a_freqs a) then nth k l 0%Z else a_fv a k), ok V)
  | OGetCell _ f r c =>
      if in_range f (a_freqs a) && in_range r (a_rows a) && in_range c (a_cols a)
      then (a, okp V (PVal V (a_dat a (Z.to_nat f) (Z.to_nat r * a_cols a + Z.to_nat c)))) else sfail a
  | OSetCell _ f r c v =>
      if in_range f (a_freqs a) && in_range r (a_rows a) && in_range c (a_cols a)
      then (with_dat a (fun i j => if Nat.eqb i (Z.to_nat f) && Nat.eqb j (Z.to_nat r * a_cols a + Z.to_nat c)
                                   then v else a_dat a i j), ok V)
      else sfail a
  | OGetMatrix _ f =>
      if in_range f (a_freqs a)
      then (a, okp V (PVals V (map (a_dat a (Z.to_nat f)) (seq 0 (a_cells a))))) else sfail a
  | OSetMatrix _ f l =>
      if in_range f (a_freqs a)
      then (with_dat a (fun i j => if Nat.eqb i (Z.to_nat f) && Nat.ltb j (a_cells a) then nth j l vzero
                                   else a_dat a i j), ok V)
      else sfail a
  | OGetToVec _ r c =>
      if in_range r (a_rows a) && in_range c (a_cols a)
      then (a, okp V (PVals V (map (fun f => a_dat a f (Z.to_nat r * a_cols a + Z.to_nat c)) (seq 0 (a_freqs a)))))
      else sfail a
  | OSetFromVec _ r c l =>
      if in_range r (a_rows a) && in_range c (a_cols a)
      then (with_dat a (fun i j => if Nat.ltb i (a_freqs a) && Nat.eqb j (Z.to_nat r * a_cols a + Z.to_nat c)
                                   then nth i l vzero else a_dat a i j), ok V)
      else sfail a
  | OGetZ0 _ p =>
      if in_range p (a_ports a) && negb (a_perf a) then (a, okp V (PVal V (a_z0 a (Z.to_nat p)))) else sfail a
  | OSetZ0 _ p v =>
      if in_range p (a_ports a)
      then (with_z0 a (fun k => if Nat.eqb k (Z.to_nat p) then v else z0_base a k), ok V) else sfail a
  | OSetAllZ0 _ v => (spec_set_all_z0 a v, ok V)
  | OGetZ0Vec _ => if a_perf a then sfail a else (a, okp V (PVals V (map (a_z0 a) (seq 0 (a_ports a)))))
  | OSetZ0Vec _ l =>
      (with_z0 a (fun p => if Nat.ltb p (a_ports a) then nth p l vzero else z0_base a p), ok V)
  | OHasFz0 _ => (a, okp V (PBool (a_perf a)))
  | OGetFz0 _ f p =>
      if in_range f (a_freqs a) && in_range p (a_ports a)
      then (a, okp V (PVal V (if a_perf a then a_fz0 a (Z.to_nat f) (Z.to_nat p) else a_z0 a (Z.to_nat p))))
      else sfail a
  | OSetFz0 _ f p v =>
      if in_range f (a_freqs a) && in_range p (a_ports a)
      then (with_fz0 a (fun i j => if Nat.eqb i (Z.to_nat f) && Nat.eqb j (Z.to_nat p) then v
                                   else fz0_base a i j), ok V)
      else sfail a
  | OGetFz0Vec _ f =>
      if in_range f (a_freqs a)
      then (a, okp V (PVals V (map (if a_perf a then a_fz0 a (Z.to_nat f) else a_z0 a) (seq 0 (a_ports a)))))
      else sfail a
  | OSetFz0Vec _ f l =>
      if in_range f (a_freqs a)
      then (with_fz0 a (fun i j => if Nat.eqb i (Z.to_nat f) && Nat.ltb j (a_ports a) then nth j l vzero
                                   else fz0_base a i j), ok V)
      else sfail a
  | OGetDims _ => (a, okp V (PDims (a_ty a) (a_rows a) (a_cols a) (a_freqs a)))
  | OGetMeta _ => (a, okp V (PMeta (a_ftype a) (a_fmt a) (a_fprec a) (a_dprec a)))
  | OSetFiletype _ k =>
      if ((0 <=? k) && (k <=? 3))%Z then (with_meta a k (a_fmt a) (a_fprec a) (a_dprec a), ok V) else sfail a
  | OSetFormat _ k => (with_meta a (a_ftype a) k (a_fprec a) (a_dprec a), ok V)
  | OSetFprec _ p => if (p <? 1)%Z then sfail a else (with_meta a (a_ftype a) (a_fmt a) p (a_dprec a), ok V)
  | OSetDprec _ p => if (p <? 1)%Z then sfail a else (with_meta a (a_ftype a) (a_fmt a) (a_fprec a) p, ok V)
  end.

(* ---------------------------------------------------------------- caller-supplied vectors *)
(* The vector-taking setters read a documented number of elements from a buffer of the caller
   (vnadata(3): "The length of frequency_vector must match frequencies"; matrix = "the flattened
   matrix elements in row-major order", rows x columns of them; set_from_vector: "a vector with
   length at least the number of frequencies"; z0_vector: "the length of z0_vector is the maximum
   of rows and columns").  A C function cannot check the length of the buffer it is handed; passing
   a shorter one is a caller error (undefined behaviour) outside this specification.  `vec_need`
   is the documented length, `vec_ok a o` says that the vector of operation o has at least that
   many elements; for these operations spec_step above reads `nth k l _` only for k below the
   documented length, so under vec_ok the default of nth is never used. *)
Definition vec_need (a : arr) (o : op V) : option (nat * nat) :=      (* (documented, supplied) *)
  match o with
  | OSetFreqVec _ l => Some (a_freqs a, length l)
  | OSetMatrix _ _ l => Some (a_cells a, length l)
  | OSetFromVec _ _ _ l => Some (a_freqs a, length l)
  | OSetZ0Vec _ l => Some (a_ports a, length l)
  | OSetFz0Vec _ _ l => Some (a_ports a, length l)
  | _ => None
  end.
Definition vec_ok (a : arr) (o : op V) : Prop :=
  match vec_need a o with Some (need, have) => need <= have | None => True end.

(* every vector of a history has the documented length at the moment it is passed *)
Fixpoint vecs_ok (a : arr) (l : list (op V)) : Prop :=
  match l with
  | [] => True
  | o :: r => vec_ok a o /\ vecs_ok (fst (spec_step a o)) r
  end.

(* outcomes of a whole history *)
Fixpoint spec_trace (a : arr) (l : list (op V)) : list (outcome V) :=
  match l with
  | [] => []
  | o :: r => snd (spec_step a o) :: spec_trace (fst (spec_step a o)) r
  end.

(* abstraction: forget the allocations *)
Definition abs (d : vd V) : arr :=
  mkarr (ty V d) (rows V d) (cols V d) (freqs V d) (per_f V d) (fv V d) (dat V d) (z0v V d) (z0vv V d)
        (ftype V d) (fmt V d) (fprec V d) (dprec V d).

(* the freshly allocated object *)
Definition arr_alloc : arr :=
  mkarr VUNDEF 0 0 0 false (fun _ => 0%Z) (fun _ _ => vzero) (fun _ => vdef) (fun _ _ => vdef) 0 None 7 6.

End Spec.
