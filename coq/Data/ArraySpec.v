(* The abstract array that a vnadata_t is documented to be (vnadata(3)): a parameter type,
   dimensions, total functions for the frequencies, the flattened matrices and the reference
   impedances in one of two modes, and the save options.  No allocations, no memory, no faults.
   The operations are written from the manual page, independently of DataModel:
     - resize keeps the flattened prefix common to the old and the new box and presents every
       other cell / frequency / impedance with its initial value (0, 0, 50 ohm);
     - init = resize to the empty undefined object, all impedances back to ordinary 50 ohm,
       resize to the requested shape (so that every cell is initial);
     - getters return the stored values for indices in [0,n) and fail otherwise; setters are
       point / row / column updates inside the logical box;
     - the ordinary z0 setters discard per-frequency impedances (everything else back to 50 ohm),
       the per-frequency setters establish per-frequency mode preserving the ordinary values;
       get_z0 / get_z0_vector fail in per-frequency mode, get_fz0(_vector) work in both.
   No proofs in this file. *)
Require Import List ZArith Bool.
Require Import LV.Data.DataModel.
Import ListNotations.

Section Spec.
Variable V : Type.
Variables vzero vdef : V.

Record arr := mkarr {
  a_ty : vpt; a_rows : nat; a_cols : nat; a_freqs : nat; a_perf : bool;
  a_fv : nat -> Z; a_dat : nat -> nat -> V; a_z0 : nat -> V; a_fz0 : nat -> nat -> V;
  a_ftype : Z; a_fmt : option nat; a_fprec : Z; a_dprec : Z }.

Definition a_ports (a : arr) := Nat.max (a_rows a) (a_cols a).
Definition a_cells (a : arr) := a_rows a * a_cols a.

(* equality of abstract arrays: pointwise, impedances compared in the active mode *)
Definition arr_eq (a b : arr) : Prop :=
  a_ty a = a_ty b /\ a_rows a = a_rows b /\ a_cols a = a_cols b /\ a_freqs a = a_freqs b /\
  a_perf a = a_perf b /\
  (forall i, a_fv a i = a_fv b i) /\ (forall i j, a_dat a i j = a_dat b i j) /\
  (a_perf a = false -> forall j, a_z0 a j = a_z0 b j) /\
  (a_perf a = true -> forall i j, a_fz0 a i j = a_fz0 b i j) /\
  a_ftype a = a_ftype b /\ a_fmt a = a_fmt b /\ a_fprec a = a_fprec b /\ a_dprec a = a_dprec b.

Definition with_fv (a : arr) x := mkarr (a_ty a) (a_rows a) (a_cols a) (a_freqs a) (a_perf a) x
  (a_dat a) (a_z0 a) (a_fz0 a) (a_ftype a) (a_fmt a) (a_fprec a) (a_dprec a).
Definition with_dat (a : arr) x := mkarr (a_ty a) (a_rows a) (a_cols a) (a_freqs a) (a_perf a)
  (a_fv a) x (a_z0 a) (a_fz0 a) (a_ftype a) (a_fmt a) (a_fprec a) (a_dprec a).
(* ordinary mode with the given vector *)
Definition with_z0 (a : arr) x := mkarr (a_ty a) (a_rows a) (a_cols a) (a_freqs a) false
  (a_fv a) (a_dat a) x (a_fz0 a) (a_ftype a) (a_fmt a) (a_fprec a) (a_dprec a).
(* per-frequency mode with the given rows *)
Definition with_fz0 (a : arr) x := mkarr (a_ty a) (a_rows a) (a_cols a) (a_freqs a) true
  (a_fv a) (a_dat a) (a_z0 a) x (a_ftype a) (a_fmt a) (a_fprec a) (a_dprec a).
Definition with_meta (a : arr) ft fm fp dp := mkarr (a_ty a) (a_rows a) (a_cols a) (a_freqs a)
  (a_perf a) (a_fv a) (a_dat a) (a_z0 a) (a_fz0 a) ft fm fp dp.

Definition spec_resize (a : arr) (t : vpt) (R C F : nat) : arr :=
  let kf := Nat.min F (a_freqs a) in
  let kc := Nat.min (R * C) (a_cells a) in
  let kp := Nat.min (Nat.max R C) (a_ports a) in
  mkarr t R C F (a_perf a)
        (fun i => if Nat.ltb i kf then a_fv a i else 0%Z)
        (fun i j => if Nat.ltb i kf && Nat.ltb j kc then a_dat a i j else vzero)
        (fun j => if Nat.ltb j kp then a_z0 a j else vdef)
        (fun i j => if Nat.ltb i kf && Nat.ltb j kp then a_fz0 a i j else vdef)
        (a_ftype a) (a_fmt a) (a_fprec a) (a_dprec a).

Definition sfail (a : arr) : arr * outcome V := (a, fail V).

(* when a resize is accepted: valid type code, non-negative dimensions that fit the type, and a
   cell count that fits an int *)
Definition resize_cond (tz r c f : Z) : option vpt :=
  match vpt_of_Z tz with
  | Some t =>
    if ((0 <=? r) && (0 <=? c) && (0 <=? f))%Z
       && validate_type t (Z.to_nat r) (Z.to_nat c)
       && (Z.of_nat (Z.to_nat r) * Z.of_nat (Z.to_nat c) <=? INT_MAX)%Z
    then Some t else None
  | None => None
  end.

Definition spec_resize_op (a : arr) (tz r c f : Z) : arr * outcome V :=
  match resize_cond tz r c f with
  | Some t => (spec_resize a t (Z.to_nat r) (Z.to_nat c) (Z.to_nat f), ok V)
  | None => sfail a
  end.

(* the z0 vector an ordinary setter starts from: the current one, or all 50 ohm when the object
   was in per-frequency mode *)
Definition z0_base (a : arr) : nat -> V := if a_perf a then (fun _ => vdef) else a_z0 a.
(* the rows a per-frequency setter starts from: the current ones, or the ordinary vector at every
   logical frequency *)
Definition fz0_base (a : arr) : nat -> nat -> V :=
  if a_perf a then a_fz0 a else (fun i j => if Nat.ltb i (a_freqs a) then a_z0 a j else vdef).

Definition spec_set_all_z0 (a : arr) (v : V) : arr :=
  with_z0 a (fun p => if Nat.ltb p (a_ports a) then v else z0_base a p).

Definition spec_init (a : arr) (tz r c f : Z) : arr * outcome V :=
  let a1 := fst (spec_resize_op a 0 0 0 0) in
  spec_resize_op (spec_set_all_z0 a1 vdef) tz r c f.

Definition spec_step (a : arr) (o : op V) : arr * outcome V :=
  match o with
  | OInit _ t r c f => spec_init a t r c f
  | OResize _ t r c f => spec_resize_op a t r c f
  | OSetType _ tz =>
      match vpt_of_Z tz with
      | Some t => if validate_type t (a_rows a) (a_cols a)
                  then (mkarr t (a_rows a) (a_cols a) (a_freqs a) (a_perf a) (a_fv a) (a_dat a) (a_z0 a)
                              (a_fz0 a) (a_ftype a) (a_fmt a) (a_fprec a) (a_dprec a), ok V)
                  else sfail a
      | None => sfail a
      end
  | OAddFreq _ x =>
      if (x <? 0)%Z then sfail a else
      (mkarr (a_ty a) (a_rows a) (a_cols a) (a_freqs a + 1) (a_perf a)
             (fun i => if Nat.eqb i (a_freqs a) then x else a_fv a i)
             (a_dat a) (a_z0 a) (a_fz0 a) (a_ftype a) (a_fmt a) (a_fprec a) (a_dprec a), ok V)
  | OGetFreq _ i => if in_range i (a_freqs a) then (a, okp V (PFreq (a_fv a (Z.to_nat i)))) else sfail a
  | OSetFreq _ i x =>
      if in_range i (a_freqs a)
      then (with_fv a (fun k => if Nat.eqb k (Z.to_nat i) then x else a_fv a k), ok V) else sfail a
  | OGetFmin _ => if Nat.eqb (a_freqs a) 0 then sfail a else (a, okp V (PFreq (a_fv a 0)))
  | OGetFmax _ => if Nat.eqb (a_freqs a) 0 then sfail a else (a, okp V (PFreq (a_fv a (a_freqs a - 1))))
  | OGetFreqVec _ => (a, okp V (PFreqs (map (a_fv a) (seq 0 (a_freqs a)))))
  | OSetFreqVec _ l =>
      (with_fv a (fun k => if Nat.ltb k (a_freqs a) then nth k l 0%Z else a_fv a k), ok V)
  | OGetCell _ f r c =>
      if in_range f (a_freqs a) && in_range r (a_rows a) && in_range c (a_cols a)
      then (a, okp V (PVal V (a_dat a (Z.to_nat f) (Z.to_nat r * a_cols a + Z.to_nat c)))) else sfail a
  | OSetCell _ f r c v =>
      if in_range f (a_freqs a) && in_range r (a_rows a) && in_range c (a_cols a)
      then (with_dat a (fun i j => if Nat.eqb i (Z.to_nat f) && Nat.eqb j (Z.to_nat r * a_cols a + Z.to_nat c)
                                   then v else a_dat a i j), ok V)
      else sfail a
  | OGetMatrix _ f =>
      if in_range f (a_freqs a)
      then (a, okp V (PVals V (map (a_dat a (Z.to_nat f)) (seq 0 (a_cells a))))) else sfail a
  | OSetMatrix _ f l =>
      if in_range f (a_freqs a)
      then (with_dat a (fun i j => if Nat.eqb i (Z.to_nat f) && Nat.ltb j (a_cells a) then nth j l vzero
                                   else a_dat a i j), ok V)
      else sfail a
  | OGetToVec _ r c =>
      if in_range r (a_rows a) && in_range c (a_cols a)
      then (a, okp V (PVals V (map (fun f => a_dat a f (Z.to_nat r * a_cols a + Z.to_nat c)) (seq 0 (a_freqs a)))))
      else sfail a
  | OSetFromVec _ r c l =>
      if in_range r (a_rows a) && in_range c (a_cols a)
      then (with_dat a (fun i j => if Nat.ltb i (a_freqs a) && Nat.eqb j (Z.to_nat r * a_cols a + Z.to_nat c)
                                   then nth i l vzero else a_dat a i j), ok V)
      else sfail a
  | OGetZ0 _ p =>
      if in_range p (a_ports a) && negb (a_perf a) then (a, okp V (PVal V (a_z0 a (Z.to_nat p)))) else sfail a
  | OSetZ0 _ p v =>
      if in_range p (a_ports a)
      then (with_z0 a (fun k => if Nat.eqb k (Z.to_nat p) then v else z0_base a k), ok V) else sfail a
  | OSetAllZ0 _ v => (spec_set_all_z0 a v, ok V)
  | OGetZ0Vec _ => if a_perf a then sfail a else (a, okp V (PVals V (map (a_z0 a) (seq 0 (a_ports a)))))
  | OSetZ0Vec _ l =>
      (with_z0 a (fun p => if Nat.ltb p (a_ports a) then nth p l vzero else z0_base a p), ok V)
  | OHasFz0 _ => (a, okp V (PBool (a_perf a)))
  | OGetFz0 _ f p =>
      if in_range f (a_freqs a) && in_range p (a_ports a)
      then (a, okp V (PVal V (if a_perf a then a_fz0 a (Z.to_nat f) (Z.to_nat p) else a_z0 a (Z.to_nat p))))
      else sfail a
  | OSetFz0 _ f p v =>
      if in_range f (a_freqs a) && in_range p (a_ports a)
      then (with_fz0 a (fun i j => if Nat.eqb i (Z.to_nat f) && Nat.eqb j (Z.to_nat p) then v
                                   else fz0_base a i j), ok V)
      else sfail a
  | OGetFz0Vec _ f =>
      if in_range f (a_freqs a)
      then (a, okp V (PVals V (map (if a_perf a then a_fz0 a (Z.to_nat f) else a_z0 a) (seq 0 (a_ports a)))))
      else sfail a
  | OSetFz0Vec _ f l =>
      if in_range f (a_freqs a)
      then (with_fz0 a (fun i j => if Nat.eqb i (Z.to_nat f) && Nat.ltb j (a_ports a) then nth j l vzero
                                   else fz0_base a i j), ok V)
      else sfail a
  | OGetDims _ => (a, okp V (PDims (a_ty a) (a_rows a) (a_cols a) (a_freqs a)))
  | OGetMeta _ => (a, okp V (PMeta (a_ftype a) (a_fmt a) (a_fprec a) (a_dprec a)))
  | OSetFiletype _ k =>
      if ((0 <=? k) && (k <=? 3))%Z then (with_meta a k (a_fmt a) (a_fprec a) (a_dprec a), ok V) else sfail a
  | OSetFormat _ k => (with_meta a (a_ftype a) k (a_fprec a) (a_dprec a), ok V)
  | OSetFprec _ p => if (p <? 1)%Z then sfail a else (with_meta a (a_ftype a) (a_fmt a) p (a_dprec a), ok V)
  | OSetDprec _ p => if (p <? 1)%Z then sfail a else (with_meta a (a_ftype a) (a_fmt a) (a_fprec a) p, ok V)
  end.

(* outcomes of a whole history *)
Fixpoint spec_trace (a : arr) (l : list (op V)) : list (outcome V) :=
  match l with
  | [] => []
  | o :: r => snd (spec_step a o) :: spec_trace (fst (spec_step a o)) r
  end.

(* abstraction: forget the allocations *)
Definition abs (d : vd V) : arr :=
  mkarr (ty V d) (rows V d) (cols V d) (freqs V d) (per_f V d) (fv V d) (dat V d) (z0v V d) (z0vv V d)
        (ftype V d) (fmt V d) (fprec V d) (dprec V d).

(* the freshly allocated object *)
Definition arr_alloc : arr :=
  mkarr VUNDEF 0 0 0 false (fun _ => 0%Z) (fun _ _ => vzero) (fun _ => vdef) (fun _ _ => vdef) 0 None 7 6.

End Spec.
