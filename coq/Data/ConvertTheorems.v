(* Consequences of ConvertRefine for property C05, in the form Properties_C05.v states them:
   - convert_result: every accepted conversion (same-type copy, matrix -> matrix, matrix -> Zin;
     in place or into a second object, whatever that object held before) succeeds, keeps the
     representation invariant and produces the array `conv_target`;
   - convert_pointwise / convert_copy: the same, field by field (cell = selected function applied to
     that frequency's matrix and that frequency's impedances; frequencies, impedances and save
     options carried over; every cell outside the result is initial);
   - convert_inplace_eq_outofplace(_traces): converting d into itself and converting d into any
     other valid object give the same array, hence the same outcomes for every later history;
     the one exception the code as found has (finding DD2: an object in per-frequency-z0 mode that
     has no frequencies, or a 0 x 0 matrix converted to Zin, loses the mode out of place) is the
     hypothesis `out_perf = per_f`, characterised by out_perf_same_mode; with the repair
     (dd2_fixed = true) it always holds (section Repaired).  dd2_fixed is a section variable:
     everything here is proved for both behaviours;
   - the source of an out-of-place conversion is not written (by construction of the two-object
     machine: vnadata_convert takes a const source). *)
Require Import List ZArith Bool Lia.
Require Import LV.Data.DataModel LV.Data.ArraySpec LV.Data.DataProofs LV.Data.RefineProofs LV.Data.ConvertModel
  LV.Data.ConvertRefine.
Import ListNotations.

Section ConvertTheorems.
Variable V : Type.
Variables vzero vdef : V.
Variable dd2_fixed : bool.
Variable conv : fname -> nat -> list V -> list V -> list V.
Notation vd := (vd V).
Notation Inv := (Inv V vzero vdef).
Notation convertf := (convert V vzero vdef fixed dd2_fixed conv).
Notation abs := (ArraySpec.abs V).
Notation arr_eq := (ArraySpec.arr_eq V).
Notation conv_target := (conv_target V vzero vdef conv).
Notation out_perf := (out_perf V dd2_fixed).
Notation conv_len := (conv_len V).
Notation z0_row := (z0_row V).

Lemma arr_eq_sym a b : arr_eq a b -> arr_eq b a.
Proof.
  intros (E1 & E2 & E3 & E4 & E5 & Efv & Edat & Ez & Efz & E6 & E7 & E8 & E9).
  unfold ArraySpec.arr_eq. rewrite E1, E2, E3, E4, E5, E6, E7, E8, E9.
  repeat split; auto; intros; symmetry;
    first [apply Efv | apply Edat | apply Ez; congruence | apply Efz; congruence].
Qed.

Lemma arr_eq_trans a b c : arr_eq a b -> arr_eq b c -> arr_eq a c.
Proof.
  intros (E1 & E2 & E3 & E4 & E5 & Efv & Edat & Ez & Efz & E6 & E7 & E8 & E9)
         (F1 & F2 & F3 & F4 & F5 & Ffv & Fdat & Fz & Ffz & F6 & F7 & F8 & F9).
  unfold ArraySpec.arr_eq. rewrite E1, E2, E3, E4, E5, E6, E7, E8, E9.
  repeat split; auto; intros;
    first [rewrite Efv; apply Ffv | rewrite Edat; apply Fdat
          | rewrite Ez by congruence; apply Fz; congruence
          | rewrite Efz by congruence; apply Ffz; congruence].
Qed.

(* a conversion of an object into itself ignores the destination argument *)
Lemma convert_same_ignores_dout d dout ntz : convertf d dout true ntz = convertf d d true ntz.
Proof. reflexivity. Qed.

(* in place, same type: nothing happens *)
Lemma convert_result_inplace_same d ntz nt cs :
  Inv d -> vpt_of_Z ntz = Some nt -> conv_spec (ty V d) nt = Some cs ->
  dim_ok (cs_dim cs) (rows V d) (cols V d) = true -> cs_kind cs = KSame ->
  snd (convertf d d true ntz) = ok V /\ Inv (fst (convertf d d true ntz)) /\
  arr_eq (abs (fst (convertf d d true ntz))) (conv_target d nt cs (per_f V d)).
Proof.
  intros HI Ht Hs Hd Hk.
  pose proof (conv_spec_shape _ _ _ _ _ Hs Hd) as Sh. rewrite Hk in Sh. subst nt.
  unfold convert. rewrite Ht, Hs, Hd, Hk. cbn [negb o_ret ok fst snd].
  split; [reflexivity|]. split; [exact HI|].
  unfold ArraySpec.arr_eq, ConvertRefine.conv_target, conv_dat, out_rows, out_cols. rewrite Hk. cbn.
  repeat split; auto; intros. destruct (per_f V d); [discriminate|reflexivity].
Qed.

(* every accepted conversion, in place (same = true, the destination argument is then ignored) or
   into a second object *)
Theorem convert_result d dout same ntz nt cs :
  Inv d -> Inv dout -> vpt_of_Z ntz = Some nt -> conv_spec (ty V d) nt = Some cs ->
  dim_ok (cs_dim cs) (rows V d) (cols V d) = true ->
  snd (convertf d dout same ntz) = ok V /\ Inv (fst (convertf d dout same ntz)) /\
  arr_eq (abs (fst (convertf d dout same ntz))) (conv_target d nt cs (out_perf d cs same)).
Proof.
  intros HI HO Ht Hs Hd. destruct same.
  - rewrite convert_same_ignores_dout. unfold ConvertRefine.out_perf.
    destruct (cs_kind cs) eqn:Hk.
    + apply convert_result_inplace_same; assumption.
    + apply convert_result_inplace_xtoy; assumption.
    + apply convert_result_inplace_xtoi; assumption.
  - apply convert_result_outofplace; assumption.
Qed.

(* when the z0 mode of the result of an out-of-place conversion is the mode of the source: always
   with the repair DD2; for the code as found unless the source is in per-frequency mode and has
   no frequencies (or no ports, when converting to Zin) *)
Lemma out_perf_same_mode d nt cs :
  conv_spec (ty V d) nt = Some cs -> dim_ok (cs_dim cs) (rows V d) (cols V d) = true ->
  dd2_fixed = true \/ per_f V d = false \/ (freqs V d <> 0 /\ (cs_kind cs = KXtoI -> rows V d <> 0)) ->
  out_perf d cs false = per_f V d.
Proof.
  intros Hs Hd H. pose proof (conv_spec_shape _ _ _ _ _ Hs Hd) as Sh.
  unfold ConvertRefine.out_perf, setup_perf, copied_perf, copyz.
  destruct H as [-> | H]; [reflexivity|]. destruct dd2_fixed; [reflexivity|].
  destruct H as [-> | [Hf Hz]]; [rewrite andb_false_r; reflexivity|].
  destruct (Nat.eqb_spec (freqs V d) 0) as [E|_]; [contradiction|]. cbn [negb]. rewrite andb_true_r.
  destruct (per_f V d); [|apply andb_false_r]. rewrite andb_true_r.
  unfold ports, out_rows, out_cols.
  destruct (cs_kind cs) eqn:Hk.
  - rewrite Nat.ltb_irrefl. reflexivity.
  - rewrite Nat.ltb_irrefl. reflexivity.
  - destruct Sh as [Hsq _]. rewrite <- Hsq, Nat.ltb_irrefl, Nat.max_id. specialize (Hz eq_refl).
    destruct (Nat.ltb_spec (rows V d) (Nat.max 1 (rows V d))); [lia|reflexivity].
Qed.

(* in place = out of place *)
Theorem convert_inplace_eq_outofplace d dout ntz nt cs :
  Inv d -> Inv dout -> vpt_of_Z ntz = Some nt -> conv_spec (ty V d) nt = Some cs ->
  dim_ok (cs_dim cs) (rows V d) (cols V d) = true ->
  out_perf d cs false = per_f V d ->
  arr_eq (abs (fst (convertf d d true ntz))) (abs (fst (convertf d dout false ntz))).
Proof.
  intros HI HO Ht Hs Hd Hp.
  destruct (convert_result d d true ntz nt cs HI HI Ht Hs Hd) as (_ & _ & A).
  destruct (convert_result d dout false ntz nt cs HI HO Ht Hs Hd) as (_ & _ & B).
  rewrite Hp in B. cbn [ConvertRefine.out_perf] in A.
  eapply arr_eq_trans; [exact A|apply arr_eq_sym; exact B].
Qed.

(* ... hence no later history of container operations can tell the two results apart *)
Theorem convert_inplace_eq_outofplace_traces d dout ntz nt cs l :
  Inv d -> Inv dout -> vpt_of_Z ntz = Some nt -> conv_spec (ty V d) nt = Some cs ->
  dim_ok (cs_dim cs) (rows V d) (cols V d) = true ->
  out_perf d cs false = per_f V d ->
  trace V vzero vdef (fst (convertf d d true ntz)) l = trace V vzero vdef (fst (convertf d dout false ntz)) l.
Proof.
  intros HI HO Ht Hs Hd Hp.
  destruct (convert_result d d true ntz nt cs HI HI Ht Hs Hd) as (_ & I1 & _).
  destruct (convert_result d dout false ntz nt cs HI HO Ht Hs Hd) as (_ & I2 & _).
  apply indistinguishable; [exact I1|exact I2|].
  eapply convert_inplace_eq_outofplace; eassumption.
Qed.

(* the destination's previous contents do not matter *)
Theorem convert_outofplace_dest_irrelevant d dout1 dout2 ntz nt cs :
  Inv d -> Inv dout1 -> Inv dout2 -> vpt_of_Z ntz = Some nt -> conv_spec (ty V d) nt = Some cs ->
  dim_ok (cs_dim cs) (rows V d) (cols V d) = true ->
  arr_eq (abs (fst (convertf d dout1 false ntz))) (abs (fst (convertf d dout2 false ntz))).
Proof.
  intros HI H1 H2 Ht Hs Hd.
  destruct (convert_result d dout1 false ntz nt cs HI H1 Ht Hs Hd) as (_ & _ & A).
  destruct (convert_result d dout2 false ntz nt cs HI H2 Ht Hs Hd) as (_ & _ & B).
  eapply arr_eq_trans; [exact A|apply arr_eq_sym; exact B].
Qed.

(* ---------------------------------------------------------------- field by field *)
Lemma conv_results_nth d cs f : f < freqs V d ->
  nth f (conv_results V conv d cs) [] =
  conv (cs_fn cs) (rows V d) (map (dat V d f) (seq 0 (rows V d * rows V d)))
       (if cs_z0 cs then map (z0_row d f) (seq 0 (rows V d)) else []).
Proof.
  intros H. unfold conv_results.
  exact (nth_map_seq (fun f0 => conv (cs_fn cs) (rows V d) (map (dat V d f0) (seq 0 (rows V d * rows V d)))
                                     (if cs_z0 cs then map (z0_row d f0) (seq 0 (rows V d)) else []))
                     (freqs V d) f [] H).
Qed.

(* the impedances of frequency f, ports p < n, as the result presents them, are those of the
   source (whichever of the two z0 modes the source is in) *)
Lemma target_z0_row d dout same ntz nt cs :
  Inv d -> Inv dout -> vpt_of_Z ntz = Some nt -> conv_spec (ty V d) nt = Some cs ->
  dim_ok (cs_dim cs) (rows V d) (cols V d) = true ->
  forall f p, f < freqs V d -> p < ports V d ->
    z0_row (fst (convertf d dout same ntz)) f p = z0_row d f p.
Proof.
  intros HI HO Ht Hs Hd f p Hf Hp.
  destruct (convert_result d dout same ntz nt cs HI HO Ht Hs Hd) as (_ & _ & A).
  assert (Hm : out_perf d cs same = per_f V d).
  { destruct same; [reflexivity|]. apply (out_perf_same_mode d nt cs Hs Hd).
    right. destruct (per_f V d); [right|left; reflexivity]. split; [lia|].
    intros Hk. pose proof (conv_spec_shape _ _ _ _ _ Hs Hd) as Sh. rewrite Hk in Sh. destruct Sh as [Hsq _].
    unfold ports in Hp. rewrite <- Hsq, Nat.max_id in Hp. lia. }
  rewrite Hm in A.
  destruct A as (_ & _ & _ & _ & E5 & _ & _ & Ez & Efz & _).
  cbn [ArraySpec.abs ConvertRefine.conv_target a_perf a_z0 a_fz0] in E5, Ez, Efz.
  unfold ConvertModel.z0_row. rewrite E5.
  destruct (per_f V d) eqn:Ep.
  - apply Efz. exact E5.
  - rewrite Ez by exact E5. reflexivity.
Qed.

(* matrix -> matrix and matrix -> Zin, in place or not: per frequency, the selected function
   applied to that frequency's matrix with that frequency's impedances; every other cell of the
   result (allocated or not, hence whatever a later resize exposes) is initial *)
Theorem convert_pointwise d dout same ntz nt cs :
  Inv d -> Inv dout -> vpt_of_Z ntz = Some nt -> conv_spec (ty V d) nt = Some cs ->
  cs_kind cs <> KSame -> dim_ok (cs_dim cs) (rows V d) (cols V d) = true ->
  let n := rows V d in
  let len := conv_len d cs in
  let d' := fst (convertf d dout same ntz) in
  snd (convertf d dout same ntz) = ok V /\ Inv d' /\
  cols V d = n /\ ty V d' = nt /\
  rows V d' = (match cs_kind cs with KXtoI => 1 | _ => n end) /\ cols V d' = n /\ freqs V d' = freqs V d /\
  (forall f, f < freqs V d -> fv V d' f = fv V d f) /\
  (forall f p, f < freqs V d -> p < n -> z0_row d' f p = z0_row d f p) /\
  ftype V d' = ftype V d /\ fmt V d' = fmt V d /\ fprec V d' = fprec V d /\ dprec V d' = dprec V d /\
  (forall f j, f < freqs V d -> j < len ->
     dat V d' f j = nth j (conv (cs_fn cs) n (map (dat V d f) (seq 0 (n * n)))
                             (if cs_z0 cs then map (z0_row d f) (seq 0 n) else [])) vzero) /\
  (forall f j, ~ (f < freqs V d /\ j < len) -> dat V d' f j = vzero).
Proof.
  intros HI HO Ht Hs Hk Hd. cbv zeta.
  destruct (convert_result d dout same ntz nt cs HI HO Ht Hs Hd) as (R1 & R2 & A).
  pose proof (target_z0_row d dout same ntz nt cs HI HO Ht Hs Hd) as Z.
  pose proof (conv_spec_shape _ _ _ _ _ Hs Hd) as Sh.
  assert (Hsq : rows V d = cols V d) by (destruct (cs_kind cs); [contradiction Hk; reflexivity| |]; apply Sh).
  destruct A as (E1 & E2 & E3 & E4 & _ & Efv & Edat & _ & _ & E6 & E7 & E8 & E9).
  cbn [ArraySpec.abs ConvertRefine.conv_target a_ty a_rows a_cols a_freqs a_fv a_dat a_ftype a_fmt a_fprec a_dprec]
    in E1, E2, E3, E4, Efv, Edat, E6, E7, E8, E9.
  split; [exact R1|]. split; [exact R2|]. split; [symmetry; exact Hsq|]. split; [exact E1|].
  split; [rewrite E2; unfold out_rows; destruct (cs_kind cs); reflexivity|].
  split; [rewrite E3; unfold out_cols; rewrite <- Hsq, Nat.ltb_irrefl; destruct (cs_kind cs); reflexivity|].
  split; [exact E4|]. split; [intros; apply Efv|].
  split; [intros f p Hf Hp; apply Z; [exact Hf|unfold ports; rewrite <- Hsq, Nat.max_id; exact Hp]|].
  split; [exact E6|]. split; [exact E7|]. split; [exact E8|]. split; [exact E9|].
  assert (Ed : forall i j, dat V (fst (convertf d dout same ntz)) i j =
                 if Nat.ltb i (freqs V d) && Nat.ltb j (conv_len d cs)
                 then nth j (nth i (conv_results V conv d cs) []) vzero else vzero).
  { intros i j. rewrite Edat. unfold conv_dat. destruct (cs_kind cs); [contradiction Hk|..]; reflexivity. }
  split.
  - intros f j Hf Hj. rewrite Ed.
    destruct (Nat.ltb_spec f (freqs V d)); [|lia]. destruct (Nat.ltb_spec j (conv_len d cs)); [|lia].
    cbn [andb]. rewrite conv_results_nth by assumption. reflexivity.
  - intros f j Hn. rewrite Ed.
    destruct (Nat.ltb_spec f (freqs V d)); destruct (Nat.ltb_spec j (conv_len d cs)); cbn [andb]; auto.
    contradiction Hn. split; assumption.
Qed.

(* same type into a second object: a copy of everything *)
Theorem convert_copy d dout ntz nt cs :
  Inv d -> Inv dout -> vpt_of_Z ntz = Some nt -> conv_spec (ty V d) nt = Some cs ->
  cs_kind cs = KSame -> dim_ok (cs_dim cs) (rows V d) (cols V d) = true ->
  let d' := fst (convertf d dout false ntz) in
  snd (convertf d dout false ntz) = ok V /\ Inv d' /\
  ty V d' = ty V d /\ rows V d' = rows V d /\ cols V d' = cols V d /\ freqs V d' = freqs V d /\
  (forall f, fv V d' f = fv V d f) /\
  (forall f p, f < freqs V d -> p < ports V d -> z0_row d' f p = z0_row d f p) /\
  ftype V d' = ftype V d /\ fmt V d' = fmt V d /\ fprec V d' = fprec V d /\ dprec V d' = dprec V d /\
  (forall f j, dat V d' f j = dat V d f j).
Proof.
  intros HI HO Ht Hs Hk Hd. cbv zeta.
  destruct (convert_result d dout false ntz nt cs HI HO Ht Hs Hd) as (R1 & R2 & A).
  pose proof (target_z0_row d dout false ntz nt cs HI HO Ht Hs Hd) as Z.
  pose proof (conv_spec_shape _ _ _ _ _ Hs Hd) as Sh. rewrite Hk in Sh. subst nt.
  destruct A as (E1 & E2 & E3 & E4 & _ & Efv & Edat & _ & _ & E6 & E7 & E8 & E9).
  cbn [ArraySpec.abs ConvertRefine.conv_target a_ty a_rows a_cols a_freqs a_fv a_dat a_ftype a_fmt a_fprec a_dprec]
    in E1, E2, E3, E4, Efv, Edat, E6, E7, E8, E9.
  unfold conv_dat, out_rows, out_cols in *. rewrite Hk in *.
  split; [exact R1|]. split; [exact R2|]. repeat split; auto.
Qed.

(* ---------------------------------------------------------------- every call *)
(* vnadata_convert on valid objects: the destination stays valid and no checked access faults
   (accepted: convert_result; refused: the destination is returned unchanged) *)
Lemma convert_total d dout same ntz :
  Inv d -> Inv dout ->
  Inv (fst (convertf d dout same ntz)) /\ o_ret V (snd (convertf d dout same ntz)) <> RFault.
Proof.
  intros HI HO.
  assert (HD : Inv (if same then d else dout)) by (destruct same; assumption).
  destruct (vpt_of_Z ntz) as [nt|] eqn:Ht.
  2:{ unfold convert. rewrite Ht. cbn [fst snd o_ret fail]. split; [exact HD|discriminate]. }
  destruct (conv_spec (ty V d) nt) as [cs|] eqn:Hs.
  2:{ unfold convert. rewrite Ht, Hs. cbn [fst snd o_ret fail]. split; [exact HD|discriminate]. }
  destruct (dim_ok (cs_dim cs) (rows V d) (cols V d)) eqn:Hd.
  - destruct (convert_result d dout same ntz nt cs HI HO Ht Hs Hd) as (R1 & R2 & _).
    split; [exact R2|]. rewrite R1. discriminate.
  - unfold convert. rewrite Ht, Hs, Hd. cbn [negb fst snd o_ret fail]. split; [exact HD|discriminate].
Qed.

End ConvertTheorems.

(* with the repair DD2 (dd2_fixed = true) in-place = out-of-place holds without any condition *)
Section Repaired.
Variable V : Type.
Variables vzero vdef : V.
Variable conv : fname -> nat -> list V -> list V -> list V.

Theorem convert_inplace_eq_outofplace_repaired d dout ntz nt cs :
  Inv V vzero vdef d -> Inv V vzero vdef dout -> vpt_of_Z ntz = Some nt -> conv_spec (ty V d) nt = Some cs ->
  dim_ok (cs_dim cs) (rows V d) (cols V d) = true ->
  ArraySpec.arr_eq V (ArraySpec.abs V (fst (convert V vzero vdef fixed true conv d d true ntz)))
                     (ArraySpec.abs V (fst (convert V vzero vdef fixed true conv d dout false ntz))).
Proof.
  intros HI HO Ht Hs Hd.
  apply (convert_inplace_eq_outofplace V vzero vdef true conv d dout ntz nt cs HI HO Ht Hs Hd).
  apply (out_perf_same_mode V true d nt cs Hs Hd). left. reflexivity.
Qed.

Theorem convert_inplace_eq_outofplace_traces_repaired d dout ntz nt cs l :
  Inv V vzero vdef d -> Inv V vzero vdef dout -> vpt_of_Z ntz = Some nt -> conv_spec (ty V d) nt = Some cs ->
  dim_ok (cs_dim cs) (rows V d) (cols V d) = true ->
  trace V vzero vdef (fst (convert V vzero vdef fixed true conv d d true ntz)) l =
  trace V vzero vdef (fst (convert V vzero vdef fixed true conv d dout false ntz)) l.
Proof.
  intros HI HO Ht Hs Hd.
  apply (convert_inplace_eq_outofplace_traces V vzero vdef true conv d dout ntz nt cs l HI HO Ht Hs Hd).
  apply (out_perf_same_mode V true d nt cs Hs Hd). left. reflexivity.
Qed.
End Repaired.

(* ---------------------------------------------------------------- the two-object machine *)
Section Machine.
Variable V : Type.
Variables vzero vdef : V.
Variable dd2_fixed : bool.
Variable conv : fname -> nat -> list V -> list V -> list V.

(* an out-of-place conversion does not write its source, whatever the outcome (the model's convert
   returns the new destination only: `const vnadata_t *vdp_in`; that the implementation leaves the
   source alone is observed by the correspondence, which digests the source after the call) *)
Lemma mstep_conv_source_unchanged (Q : quirks) s a b nt : a <> b ->
  sel V (fst (mstep V vzero vdef Q dd2_fixed conv s (MConv V a b nt))) a = sel V s a.
Proof.
  intros H. unfold mstep.
  destruct (convert V vzero vdef Q dd2_fixed conv (sel V s a) (sel V s b) (Bool.eqb a b) nt) as [d r].
  destruct s as [s0 s1], a, b; try (contradiction H; reflexivity); reflexivity.
Qed.

(* operations on one object do not touch the other *)
Lemma mstep_on_other_unchanged (Q : quirks) s i o :
  sel V (fst (mstep V vzero vdef Q dd2_fixed conv s (MOn V i o))) (negb i) = sel V s (negb i).
Proof.
  unfold mstep. destruct (step V vzero vdef Q (sel V s i) o) as [d r].
  destruct s as [s0 s1], i; reflexivity.
Qed.

(* both objects satisfy the representation invariant in every state the two-object machine
   reaches from two fresh objects, and no step faults *)
Definition MInv (s : mstate V) : Prop := Inv V vzero vdef (fst s) /\ Inv V vzero vdef (snd s).

Lemma sel_inv s i : MInv s -> Inv V vzero vdef (sel V s i).
Proof. intros [A B]. destruct i; assumption. Qed.

Lemma put_inv s i d : MInv s -> Inv V vzero vdef d -> MInv (put V s i d).
Proof. intros [A B] H. destruct i; split; assumption. Qed.

Lemma mstep_inv s m : MInv s ->
  MInv (fst (mstep V vzero vdef fixed dd2_fixed conv s m)) /\ o_ret V (snd (mstep V vzero vdef fixed dd2_fixed conv s m)) <> RFault.
Proof.
  intros HS. destruct m as [i o|a b nt|]; unfold mstep.
  - pose proof (step_inv V vzero vdef (sel V s i) o (sel_inv s i HS)) as H1.
    pose proof (step_no_fault V vzero vdef (sel V s i) o (sel_inv s i HS)) as H2.
    destruct (step V vzero vdef fixed (sel V s i) o) as [d r]. cbn [fst snd] in *.
    split; [apply put_inv; assumption|exact H2].
  - destruct (convert_total V vzero vdef dd2_fixed conv (sel V s a) (sel V s b) (Bool.eqb a b) nt
                (sel_inv s a HS) (sel_inv s b HS)) as [H1 H2].
    destruct (convert V vzero vdef fixed dd2_fixed conv (sel V s a) (sel V s b) (Bool.eqb a b) nt) as [d r].
    cbn [fst snd] in *. split; [apply put_inv; assumption|exact H2].
  - cbn [fst snd o_ret ok]. split; [split; apply inv_alloc|discriminate].
Qed.

Lemma mrun_inv l : forall s, MInv s -> MInv (mrun V vzero vdef fixed dd2_fixed conv s l).
Proof.
  induction l as [|m l IH]; intros s HS; [exact HS|].
  cbn [mrun fold_left]. apply IH. apply mstep_inv. exact HS.
Qed.

Lemma mrun_inv_init l : MInv (mrun V vzero vdef fixed dd2_fixed conv (minit V vzero vdef) l).
Proof. apply mrun_inv. split; apply inv_alloc. Qed.

End Machine.
