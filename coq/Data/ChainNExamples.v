(* Property C05: non-vacuity of the hypotheses of Data/ChainNProofs.v (composed chain, round trip,
   chain through Zin) on the objects of Data/ChainExamples.v: every matrix type, both z0 modes,
   both pivot orders, two frequencies, matrix and impedances of Conv/ConvExamples.v. *)
Require Import List ZArith Bool Lia.
Require Import LV.Base.CField LV.Base.QcI LV.Conv.ConvRel LV.Gen.Conv2All LV.Conv.ConvExamples.
Require Import LV.Data.DataModel LV.Data.ArraySpec LV.Data.ConvertModel LV.Data.TwoObjModel
               LV.Data.ChainModel LV.Data.ChainProofs LV.Data.ChainExamples LV.Data.ChainNModel LV.Data.ChainNProofs.
Import ListNotations.

Lemma ex_pivots swap X Y : pivot_ok QIF swap X Y ex_m ex_z1 ex_z2.
Proof. destruct swap, X, Y; unfold pivot_ok; nzsolve. Qed.

Lemma ex_pivots_images swap X Y f Z : conv2 QIF X Y = Some f ->
  pivot_ok QIF swap Y Z (f ex_m ex_z1 ex_z2) ex_z1 ex_z2.
Proof.
  intros E. destruct X, Y; cbn in E; try discriminate; injection E as <-; destruct swap, Z; unfold pivot_ok; nzsolve.
Qed.

Lemma ex_zi_images swap X Y f : conv2 QIF X Y = Some f ->
  conv2zi_ok QIF Y (f ex_m ex_z1 ex_z2) ex_z1 ex_z2 /\ zin_pivot_ok QIF swap Y (f ex_m ex_z1 ex_z2) ex_z1.
Proof.
  intros E. destruct X, Y; cbn in E; try discriminate; injection E as <-; destruct swap; (split; [|unfold zin_pivot_ok]; nzsolve).
Qed.

Lemma ex_zin_pivot swap X : zin_pivot_ok QIF swap X ex_m ex_z1.
Proof. destruct swap, X; unfold zin_pivot_ok; nzsolve. Qed.

Lemma ex_drive X : drive_ok QIF (conv2_to_s QIF X ex_m ex_z1 ex_z2) ex_z1 ex_z2.
Proof. destruct X; unfold drive_ok; split; nzsolve. Qed.

Section Sat.
Variables (swap : bool) (X Y Z : ptype) (perf : bool).
Notation a := (ArraySpec.abs QIF (ex_obj X perf)).

Lemma at_freq i : i < a_freqs QIF a ->
  ChainProofs.mat QIF a i = ex_m /\ ChainProofs.zr QIF a i 0 = ex_z1 /\ ChainProofs.zr QIF a i 1 = ex_z2.
Proof.
  intros Hi. apply ex_obj_contents. destruct (ex_obj_shape X perf) as (_ & _ & _ & S4 & _).
  cbn [ArraySpec.abs a_freqs] in Hi. rewrite S4 in Hi. exact Hi.
Qed.

Theorem chainN_satisfiable : chainN_ok QIF swap a X Y Z.
Proof.
  split; [apply chain_hypotheses_satisfiable|].
  intros i Hi. destruct (at_freq i Hi) as (-> & -> & ->).
  split; [apply ex_pivots|]. split; [apply ex_pivots|]. intros f Ef. exact (ex_pivots_images swap X Y f Z Ef).
Qed.

Theorem roundtrip_satisfiable : roundtrip_ok QIF swap a X Y.
Proof.
  destruct ex_hyps_full as (_ & Hz1 & Hz2 & Hm & Him).
  intros i Hi. destruct (at_freq i Hi) as (-> & -> & ->).
  split; [exact Hz1|]. split; [exact Hz2|]. split; [apply Hm|]. split; [apply ex_pivots|].
  intros f Ef. split; [exact (Him X Y f Ef X)|exact (ex_pivots_images swap X Y f X Ef)].
Qed.

Theorem zin_chain_satisfiable : zin_chain_ok QIF swap a X Y.
Proof.
  destruct ex_hyps_full as (_ & Hz1 & Hz2 & Hm & _).
  intros i Hi. destruct (at_freq i Hi) as (-> & -> & ->).
  split; [exact Hz1|]. split; [exact Hz2|]. split; [apply Hm|]. split; [apply ex_pivots|].
  split; [apply Hm; exact X|]. split; [apply ex_zin_pivot|]. split; [apply ex_drive|].
  intros f Ef. exact (ex_zi_images swap X Y f Ef).
Qed.
End Sat.
