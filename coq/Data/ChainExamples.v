(* Property C05, clause convert_chain: non-vacuity.  Concrete 2 x 2 objects over the Gaussian
   rationals (two frequencies, the matrix and the reference impedances of Conv/ConvExamples.v) of
   every matrix type, with ordinary and with per-frequency impedances, reached by a history from
   vnadata_alloc, meet every hypothesis of ChainProofs.convert_chain for every pair of further
   types; and one chain evaluated (S -> T -> H against S -> H, exact arithmetic). *)
Require Import List ZArith Bool Lia.
Require Import LV.Base.CField LV.Base.QcI LV.Conv.ConvRel LV.Gen.Conv2All LV.Conv.ConvExamples.
Require Import LV.Data.DataModel LV.Data.ArraySpec LV.Data.DataProofs LV.Data.ConvertModel
               LV.Data.TwoObjModel LV.Data.ChainModel LV.Data.ChainProofs.
Import ListNotations.

Local Notation V := (F QIF).
Definition q50 : V := mkqi 50 1 0 1.
Definition ex_cells : list V := [m11 ex_m; m12 ex_m; m21 ex_m; m22 ex_m].

Definition ex_history (X : ptype) (perf : bool) : list (op V) :=
  [OInit V (vpt_code (vpt_of_pt X)) 2 2 2; OSetMatrix V 0 ex_cells; OSetMatrix V 1 ex_cells] ++
  (if perf then [OSetFz0Vec V 0 [ex_z1; ex_z2]; OSetFz0Vec V 1 [ex_z1; ex_z2]]
   else [OSetZ0Vec V [ex_z1; ex_z2]]).

Definition ex_obj (X : ptype) (perf : bool) : vd V :=
  run V (@c0 QIF) q50 fixed (vd_alloc V (@c0 QIF) q50) (ex_history X perf).

Lemma ex_obj_inv X perf : Inv V (@c0 QIF) q50 (ex_obj X perf).
Proof. apply inv_reachable. exists (ex_history X perf). reflexivity. Qed.

Lemma ex_obj_shape X perf :
  ty V (ex_obj X perf) = vpt_of_pt X /\ rows V (ex_obj X perf) = 2 /\ cols V (ex_obj X perf) = 2 /\
  freqs V (ex_obj X perf) = 2 /\ per_f V (ex_obj X perf) = perf.
Proof. destruct X, perf; vm_compute; repeat split; reflexivity. Qed.

Lemma ex_obj_contents X perf i : i < 2 ->
  mat QIF (ArraySpec.abs V (ex_obj X perf)) i = ex_m /\
  zr QIF (ArraySpec.abs V (ex_obj X perf)) i 0 = ex_z1 /\ zr QIF (ArraySpec.abs V (ex_obj X perf)) i 1 = ex_z2.
Proof.
  intros H. destruct i as [|[|i]]; [| |lia]; destruct X, perf; vm_compute; repeat split; reflexivity.
Qed.

Theorem chain_hypotheses_satisfiable X Y Z perf :
  char_ok QIF /\ Inv V (@c0 QIF) q50 (ex_obj X perf) /\
  ty V (ex_obj X perf) = vpt_of_pt X /\ rows V (ex_obj X perf) = 2 /\ cols V (ex_obj X perf) = 2 /\
  freqs V (ex_obj X perf) = 2 /\ per_f V (ex_obj X perf) = perf /\
  chain_ok QIF (ArraySpec.abs V (ex_obj X perf)) X Y Z.
Proof.
  destruct ex_hyps_full as (H2 & Hz1 & Hz2 & Hm & Him).
  destruct (ex_obj_shape X perf) as (S1 & S2 & S3 & S4 & S5).
  repeat (split; [first [exact H2|apply ex_obj_inv|assumption]|]).
  intros i Hi. cbn [ArraySpec.abs a_freqs] in Hi. rewrite S4 in Hi.
  destruct (ex_obj_contents X perf i Hi) as (-> & -> & ->).
  unfold chain_ok_at. split; [exact Hz1|]. split; [exact Hz2|].
  split; [apply Hm|]. split; [apply Hm|]. intros f Ef. apply (Him X Y f Ef Z).
Qed.

(* one chain evaluated: S with per-frequency impedances, to T in place, then to H into a used
   3 x 3 object, against S to H into a fresh object: same cells, same impedances *)
Definition ex_used : vd V :=
  run V (@c0 QIF) q50 fixed (vd_alloc V (@c0 QIF) q50)
      [OInit V 4 3 3 3; OSetCell V 2 2 2 ex_z1; OSetFz0 V 1 2 ex_z2].

Definition qil_eqb (a b : list V) : bool :=
  Nat.eqb (length a) (length b) && forallb (fun p => qi_eqb (fst p) (snd p)) (combine a b).

Example chain_evaluated :
  let cv := convert V (@c0 QIF) q50 fixed true (conv2_interp QIF q50) in
  let d := ex_obj PS true in
  let b := fst (cv d d true 2%Z) in
  let c := fst (cv b ex_used false 6%Z) in
  let c' := fst (cv d (vd_alloc V (@c0 QIF) q50) false 6%Z) in
  qil_eqb (concat (ob_dat V (observe V c))) (concat (ob_dat V (observe V c'))) = true /\
  qil_eqb (concat (ob_z0 V (observe V c))) (concat (ob_z0 V (observe V c'))) = true /\
  length (concat (ob_dat V (observe V c))) = 8 /\ length (concat (ob_z0 V (observe V c))) = 4 /\
  (ob_ty V (observe V c), ob_rows V (observe V c), ob_cols V (observe V c), ob_freqs V (observe V c),
   ob_perf V (observe V c)) = (VH, 2, 2, 2, true) /\
  ob_ty V (observe V c') = VH /\ ty V b = VT /\
  qil_eqb (concat (ob_dat V (observe V c))) (concat (ob_dat V (observe V d))) = false.
Proof. vm_compute. repeat split; reflexivity. Qed.
