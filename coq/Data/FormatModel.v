(* The parameter-format language of vnadata, as coded:
     vnadata_set_format / parse_format          (vnadata_set_format.c)
     _vnadata_update_format_string              (vnadata_update_format_string.c)
     _vnadata_format_to_name                    (vnadata_format_to_name.c)
     _vnadata_set_simple_format                 (vnadata_set_simple_format.c)
     vnadata_get_format                         (vnadata_get_format.c)
   and the grammar of the vnadata(3) manual page.  No proofs in this file.

   Bytes are N (C locale; a byte is below 256, the functions are total on N).  A descriptor
   (vnadata_format_descriptor_t) is NpdScan.entry: e_par = vfd_parameter (the VPT_ constants), e_form = vfd_format
   (the VNADATA_FORMAT_ constants, same order as the C enum).

   [sgn] = "plain char is signed" (x86-64).  The test `*cp > 0x7e` of the copy loop compares a char:
   with a signed char it is true of the byte 0x7f only (bytes 0x80..0xff are negative and go on to
   isspace / isupper and are refused later as part of a specifier); with the cast of fix DN90 it is
   true of every byte above 0x7e.  Both variants are modelled; the check reads the C text to decide
   which one it ties. *)
Require Import List NArith Bool Ascii String.
Import ListNotations.
Require Import LV.Files.NpdScan.
Open Scope list_scope.
Open Scope N_scope.

(* ---- characters --------------------------------------------------------------------------- *)
Fixpoint bs (s : string) : list N :=
  match s with EmptyString => [] | String a r => N_of_ascii a :: bs r end.
Definition ch (a : ascii) : N := N_of_ascii a.

Definition is_space (c : N) : bool := (c =? 32) || ((9 <=? c) && (c <=? 13)).     (* isspace, C locale *)
Definition is_upper (c : N) : bool := (65 <=? c) && (c <=? 90).                   (* isupper *)
Definition lower (c : N) : N := if is_upper c then c + 32 else c.                 (* isupper(c) ? tolower(c) : c *)
Definition bad_char (sgn : bool) (c : N) : bool := if sgn then c =? 127 else 126 <? c.
Definition comma : N := 44.

(* what a C function sees of a byte buffer: the bytes before the first NUL *)
Fixpoint cstr (s : list N) : list N :=
  match s with [] => [] | c :: t => if c =? 0 then [] else c :: cstr t end.

(* ---- vnadata_set_format, the copy loop -------------------------------------------------------
   format_copy receives the bytes that are not white space, upper case folded to lower, every ','
   replaced by NUL; nfields = 1 + number of commas.  Result: the NUL-separated fields in order
   (never an empty list), or the first byte refused by `*cp > 0x7e`. *)
Fixpoint pass1 (sgn : bool) (s : list N) : N + list (list N) :=
  match s with
  | [] => inr [[]]
  | c :: t =>
    if bad_char sgn c then inl c else
    match pass1 sgn t with
    | inl e => inl e
    | inr fs =>
      if is_space c then inr fs
      else if c =? comma then inr ([] :: fs)
      else match fs with
           | f :: r => inr ((lower c :: f) :: r)
           | [] => inr [[lower c]]
           end
    end
  end.

(* the bytes written to format_copy, in order (each field followed by its NUL) *)
Definition copy_bytes (fs : list (list N)) : list N := List.concat (map (fun f => f ++ [0]) fs).

(* ---- parse_format ------------------------------------------------------------------------- *)
(* strncmp(cur, p, |p|) == 0 on a NUL-terminated field without inner NUL; the rest after the prefix *)
Fixpoint strip (p l : list N) : option (list N) :=
  match p, l with
  | [], _ => Some l
  | a :: p', b :: l' => if a =? b then strip p' l' else None
  | _ :: _, [] => None
  end.

Definition is_zin (p : ptype) : bool := match p with PZIN => true | _ => false end.

(* the label parse_coordinates: None = goto bad_format; otherwise the format and the new cur *)
Definition parse_coordinates (p : ptype) (cur : list N) : option (form * list N) :=
  match cur with
  | [] => Some (RI, cur)
  | c :: _ =>
    if c =? ch "d" then
      match strip (bs "db") cur with
      | Some r => if is_zin p then None else Some (DB, r)
      | None => Some (RI, cur)
      end
    else if c =? ch "m" then
      match strip (bs "ma") cur with Some r => Some (MA, r) | None => Some (RI, cur) end
    else if c =? ch "r" then
      match strip (bs "ri") cur with Some r => Some (RI, r) | None => Some (RI, cur) end
    else Some (RI, cur)
  end.

(* the final test `*cur == '\0'` *)
Definition fin (p : ptype) (fm : form) (rest : list N) : option entry :=
  match rest with [] => Some (Build_entry p fm) | _ => None end.

Definition coords (p : ptype) (cur : list N) : option entry :=
  match parse_coordinates p cur with Some (fm, rest) => fin p fm rest | None => None end.

(* a keyword that fixes parameter and format, otherwise [other] *)
Definition keyword (kw : string) (p : ptype) (fm : form) (cur : list N) (other : option entry) : option entry :=
  match strip (bs kw) cur with Some r => fin p fm r | None => other end.

Definition parse_format (f : list N) : option entry :=
  match f with
  | [] => None                                                   (* case '\000': goto bad_format *)
  | c :: r =>
    if c =? ch "a" then coords PA r
    else if c =? ch "b" then coords PB r
    else if c =? ch "d" then coords PUNDEF f
    else if c =? ch "g" then coords PG r
    else if c =? ch "h" then coords PH r
    else if c =? ch "i" then keyword "il" PS IL f (fin PUNDEF RI f)
    else if c =? ch "m" then coords PUNDEF f
    else if c =? ch "p" then keyword "prc" PZIN PRC f (keyword "prl" PZIN PRL f (fin PUNDEF RI f))
    else if c =? ch "r" then keyword "rl" PS RL f (coords PUNDEF f)
    else if c =? ch "s" then keyword "src" PZIN SRC f (keyword "srl" PZIN SRL f (coords PS r))
    else if c =? ch "t" then coords PT r
    else if c =? ch "u" then coords PU r
    else if c =? ch "v" then keyword "vswr" PS VSWR f (fin PUNDEF RI f)
    else if c =? ch "y" then coords PY r
    else if c =? ch "z" then
      match strip (bs "zin") f with Some r3 => coords PZIN r3 | None => coords PZ r end
    else fin PUNDEF RI f                                         (* default: break *)
  end.

(* the loop over the fields: the first field that does not parse is reported *)
Fixpoint parse_fields (fs : list (list N)) : list N + list entry :=
  match fs with
  | [] => inr []
  | f :: r =>
    match parse_format f with
    | None => inl f
    | Some e => match parse_fields r with inl b => inl b | inr es => inr (e :: es) end
    end
  end.

Inductive reason := BadChar (c : N) | BadSpec (f : list N) | NoMem.
Inductive pres := POk (ds : list entry) | PErr (r : reason).

(* the parser: byte buffer -> refusal | descriptor vector *)
Definition parse (sgn : bool) (s : list N) : pres :=
  match pass1 sgn (cstr s) with
  | inl c => PErr (BadChar c)
  | inr fs => match parse_fields fs with inl f => PErr (BadSpec f) | inr ds => POk ds end
  end.

(* ---- _vnadata_format_to_name ---------------------------------------------------------------- *)
Definition coord_name (fm : form) : option (list N) :=
  match fm with RI => Some (bs "ri") | MA => Some (bs "ma") | DB => Some (bs "dB") | _ => None end.

Definition letter (p : ptype) : list N :=
  match p with
  | PUNDEF => [] | PS => bs "S" | PT => bs "T" | PU => bs "U" | PZ => bs "Z" | PY => bs "Y"
  | PH => bs "H" | PG => bs "G" | PA => bs "A" | PB => bs "B" | PZIN => bs "Zin"
  end.

(* None: the function reaches abort() *)
Definition name_of (e : entry) : option (list N) :=
  match e_form e with
  | PRC => Some (bs "PRC") | PRL => Some (bs "PRL") | SRC => Some (bs "SRC") | SRL => Some (bs "SRL")
  | IL => Some (bs "IL") | RL => Some (bs "RL") | VSWR => Some (bs "VSWR")
  | fm =>
    match e_par e, fm with
    | PZIN, DB => None
    | p, _ => match coord_name fm with Some w => Some (letter p ++ w) | None => None end
    end
  end.

Fixpoint names (ds : list entry) : option (list (list N)) :=
  match ds with
  | [] => Some []
  | e :: r => match name_of e, names r with Some n, Some ns => Some (n :: ns) | _, _ => None end
  end.

(* the loop of _vnadata_update_format_string: strcpy, then ',' unless it was the last *)
Fixpoint join (l : list (list N)) : list N :=
  match l with
  | [] => []
  | [x] => x
  | x :: r => x ++ comma :: join r
  end.

Inductive pr := PAbort | PNull | PStr (b : list N).
Definition print (ds : list entry) : pr :=
  match ds with
  | [] => PNull
  | _ => match names ds with Some ns => PStr (join ns) | None => PAbort end
  end.

Definition MAX_FORMAT : nat := 5.
(* bytes of the buffer malloc(count * (MAX_FORMAT + 1)) *)
Definition string_alloc (ds : list entry) : nat := List.length ds * (MAX_FORMAT + 1).

(* ---- the checked-buffer model of the printer -------------------------------------------------
   The writes of _vnadata_update_format_string as (index, byte) pairs in program order: strcpy
   writes the name and its NUL, the ',' overwrites that NUL, the final `*cur = 0` writes it again. *)
Fixpoint place (cur : nat) (bytes : list N) : list (nat * N) :=
  match bytes with [] => [] | b :: r => (cur, b) :: place (S cur) r end.

Fixpoint print_writes (cur : nat) (ns : list (list N)) : list (nat * N) :=
  match ns with
  | [] => []
  | [x] => place cur (x ++ [0]) ++ [((cur + List.length x)%nat, 0)]
  | x :: r => place cur (x ++ [0]) ++ ((cur + List.length x)%nat, comma) :: print_writes (cur + List.length x + 1)%nat r
  end.

Fixpoint upd (l : list (option N)) (n : nat) (v : N) : list (option N) :=
  match l, n with
  | [], _ => []
  | _ :: t, O => Some v :: t
  | h :: t, S n' => h :: upd t n' v
  end.

(* a write outside [0, size) is a fault (None) *)
Fixpoint run_writes (buf : list (option N)) (ws : list (nat * N)) : option (list (option N)) :=
  match ws with
  | [] => Some buf
  | (i, b) :: r => if Nat.ltb i (List.length buf) then run_writes (upd buf i b) r else None
  end.

(* the C string found in a buffer: initialised bytes up to the first NUL; None = reads an
   uninitialised byte or runs off the end *)
Fixpoint buf_cstr (buf : list (option N)) : option (list N) :=
  match buf with
  | [] => None
  | None :: _ => None
  | Some c :: t => if c =? 0 then Some [] else option_map (cons c) (buf_cstr t)
  end.

Definition print_checked (ds : list entry) : option (list N) :=
  match names ds with
  | None => None
  | Some ns =>
    match run_writes (repeat None (string_alloc ds)) (print_writes 0 ns) with
    | Some buf => buf_cstr buf
    | None => None
    end
  end.

(* the copy loop on a checked buffer of length + 1 bytes: every write index *)
Definition copy_fits (s : list N) (fs : list (list N)) : bool :=
  Nat.leb (List.length (copy_bytes fs)) (List.length s + 1).

(* ---- the object's format state and the setters -------------------------------------------------
   f_vec = vdi_format_vector / vdi_format_count ([] = NULL, 0); f_str = vdi_format_string (None = NULL).
   [fail] = Some k: the (k+1)-th allocation request of the call returns NULL.  Requests in order:
   set_format: malloc(format_copy), calloc(vector), malloc(string);  set_simple_format: malloc(vector),
   malloc(string).  (The requests of the error reporting are not numbered: a failure is injected
   at a modelled request only.) *)
Record fstate := { f_vec : list entry; f_str : option (list N) }.
Inductive result := Abort | Ret (ok : bool) (why : option reason) (st : fstate).
Inductive arg := ANull | AStr (s : list N).

Definition alloc_fails (fail : option nat) (k : nat) : bool :=
  match fail with Some j => Nat.eqb j k | None => false end.

(* _vnadata_update_format_string; k = number of its malloc among the requests of the call.
   None = abort() in _vnadata_format_to_name *)
Definition update_string (fail : option nat) (k : nat) (st : fstate) : option (bool * fstate) :=
  match f_vec st with
  | [] => Some (true, {| f_vec := []; f_str := None |})
  | v =>
    if alloc_fails fail k then Some (false, st)
    else match names v with
         | None => None
         | Some ns => Some (true, {| f_vec := v; f_str := Some (join ns) |})
         end
  end.

(* the block after `update:` (and the same lines of _vnadata_set_simple_format): the new vector is
   installed first, the string is regenerated, on failure the old vector is put back *)
Definition install (fail : option nat) (k : nat) (st : fstate) (new : list entry) : result :=
  let old := f_vec st in
  let st1 := {| f_vec := new; f_str := f_str st |} in
  match update_string fail k st1 with
  | None => Abort
  | Some (false, st2) => Ret false (Some NoMem) {| f_vec := old; f_str := f_str st2 |}
  | Some (true, st2) => Ret true None st2
  end.

Definition set_format (sgn : bool) (fail : option nat) (st : fstate) (a : arg) : result :=
  match a with
  | ANull => install fail 0 st []
  | AStr s0 =>
    if alloc_fails fail 0 then Ret false (Some NoMem) st else
    match pass1 sgn (cstr s0) with
    | inl c => Ret false (Some (BadChar c)) st
    | inr fs =>
      if alloc_fails fail 1 then Ret false (Some NoMem) st else
      match parse_fields fs with
      | inl f => Ret false (Some (BadSpec f)) st
      | inr ds => install fail 2 st ds
      end
    end
  end.

Definition set_simple_format (fail : option nat) (st : fstate) (p : ptype) (fm : form) : result :=
  if alloc_fails fail 0 then Ret false (Some NoMem) st
  else install fail 1 st [Build_entry p fm].

Definition get_format (st : fstate) : option (list N) := f_str st.
Definition init_state : fstate := {| f_vec := []; f_str := None |}.

(* live heap blocks owned by the format state *)
Definition live_blocks (st : fstate) : nat :=
  (match f_vec st with [] => 0 | _ => 1 end + match f_str st with None => 0 | Some _ => 1 end)%nat.

(* a history of calls *)
Inductive call := CSet (fail : option nat) (a : arg) | CSimple (fail : option nat) (p : ptype) (fm : form).
Definition do_call (sgn : bool) (st : fstate) (c : call) : result :=
  match c with
  | CSet fail a => set_format sgn fail st a
  | CSimple fail p fm => set_simple_format fail st p fm
  end.
Fixpoint run_calls (sgn : bool) (st : fstate) (cs : list call) : option fstate :=
  match cs with
  | [] => Some st
  | c :: r => match do_call sgn st c with Abort => None | Ret _ _ st' => run_calls sgn st' r end
  end.

(* ---- what parse_format can produce --------------------------------------------------------- *)
Definition producible (e : entry) : bool :=
  match e_form e, e_par e with
  | (IL | RL | VSWR), PS => true
  | (PRC | PRL | SRC | SRL), PZIN => true
  | (MA | RI), _ => true
  | DB, PZIN => false
  | DB, _ => true
  | _, _ => false
  end.

(* ---- the grammars ----------------------------------------------------------------------------
   Words are lower case (the input is compared after case folding).  [db] = the dB suffix is allowed. *)
Inductive coord (db : bool) : list N -> form -> Prop :=
  | co_none : coord db [] RI
  | co_ri : coord db (bs "ri") RI
  | co_ma : coord db (bs "ma") MA
  | co_db : db = true -> coord db (bs "db") DB.

(* the parameter letters; the flag is the manual's column: S, T, U list [ri|ma|dB], the others [ri|ma] *)
Inductive mat_letter : N -> ptype -> bool -> Prop :=
  | ml_s : mat_letter (ch "s") PS true
  | ml_t : mat_letter (ch "t") PT true
  | ml_u : mat_letter (ch "u") PU true
  | ml_z : mat_letter (ch "z") PZ false
  | ml_y : mat_letter (ch "y") PY false
  | ml_h : mat_letter (ch "h") PH false
  | ml_g : mat_letter (ch "g") PG false
  | ml_a : mat_letter (ch "a") PA false
  | ml_b : mat_letter (ch "b") PB false.

Inductive special : list N -> entry -> Prop :=
  | sp_prc : special (bs "prc") (Build_entry PZIN PRC)
  | sp_prl : special (bs "prl") (Build_entry PZIN PRL)
  | sp_src : special (bs "src") (Build_entry PZIN SRC)
  | sp_srl : special (bs "srl") (Build_entry PZIN SRL)
  | sp_il : special (bs "il") (Build_entry PS IL)
  | sp_rl : special (bs "rl") (Build_entry PS RL)
  | sp_vswr : special (bs "vswr") (Build_entry PS VSWR).

(* the table of vnadata(3): S[ri|ma|dB] ... B[ri|ma], Zin[ri|ma], PRC ... VSWR *)
Inductive man_word : list N -> entry -> Prop :=
  | mw_mat c p b w fm : mat_letter c p b -> coord b w fm -> man_word (c :: w) (Build_entry p fm)
  | mw_zin w fm : coord false w fm -> man_word (bs "zin" ++ w) (Build_entry PZIN fm)
  | mw_special w e : special w e -> man_word w e.

(* what the code accepts: dB after every matrix letter, and a coordinate system on its own
   (vfd_parameter = VPT_UNDEF: the type of the object at save time) *)
Inductive code_word : list N -> entry -> Prop :=
  | cw_mat c p b w fm : mat_letter c p b -> coord true w fm -> code_word (c :: w) (Build_entry p fm)
  | cw_zin w fm : coord false w fm -> code_word (bs "zin" ++ w) (Build_entry PZIN fm)
  | cw_special w e : special w e -> code_word w e
  | cw_bare w fm : coord true w fm -> w <> [] -> code_word w (Build_entry PUNDEF fm).

Definition nonspace (c : N) : bool := negb (is_space c).
Definition normal (s : list N) : list N := map lower (filter nonspace s).
Definition all_space (s : list N) : Prop := Forall (fun c => is_space c = true) s.

(* manual: "a comma-separated case-insensitive list of the following specifiers".  White space is not
   mentioned; it is allowed here around a specifier (the lenient reading). *)
Definition man_spec (s : list N) (e : entry) : Prop :=
  exists l w r, s = l ++ w ++ r /\ all_space l /\ all_space r /\ man_word (map lower w) e.
(* code: white space anywhere, also inside a specifier *)
Definition code_spec (s : list N) (e : entry) : Prop := code_word (normal s) e.

Inductive spec_list (spec : list N -> entry -> Prop) : list N -> list entry -> Prop :=
  | sl_one s e : spec s e -> spec_list spec s [e]
  | sl_cons s e r es : spec s e -> spec_list spec r es -> spec_list spec (s ++ comma :: r) (e :: es).

Definition man_list := spec_list man_spec.
Definition code_list := spec_list code_spec.

(* a descriptor the manual's table can denote *)
Definition man_entry (e : entry) : bool :=
  match e_par e, e_form e with
  | PUNDEF, _ => false
  | (PS | PT | PU), DB => true
  | _, DB => false
  | _, _ => producible e
  end.
