(* Non-vacuity of the C05 conversion theorems: concrete objects that satisfy the hypotheses, and
   the results evaluated by vm_compute.  Values are symbolic: L z = the literal z, R fn n m z0 i =
   cell i of the result of calling the vnaconv function fn with dimension n on matrix m with
   reference impedances z0, so the results show which function was called with which arguments. *)
Require Import List ZArith Bool.
Require Import LV.Data.DataModel LV.Data.ArraySpec LV.Data.DataProofs LV.Data.RefineProofs LV.Data.ConvertModel
  LV.Data.ConvertRefine LV.Data.ConvertTheorems.
Import ListNotations.
Local Open Scope Z_scope.

Inductive sym := L (z : Z) | R (fn : fname) (n : nat) (m z0 : list sym) (i : nat).

Definition sconv (fn : fname) (n : nat) (m z0 : list sym) : list sym :=
  map (R fn n m z0) (seq 0 (match fn with FI2 _ | FIN _ => n | _ => n * n end)).

Notation s0 := (L 0).
Notation s50 := (L 50).
Notation srun := (run sym s0 s50 fixed (vd_alloc sym s0 s50)).
(* the code as found (DD2 not repaired) / with the repair *)
Notation sconvert := (convert sym s0 s50 fixed false sconv).
Notation sconvert_r := (convert sym s0 s50 fixed true sconv).
Notation sInv := (Inv sym s0 s50).

(* source: S parameters, 2 x 2, two frequencies, per-frequency reference impedances
   (frequency 0: 50, 75 ohm inherited from the ordinary vector; frequency 1: 60, 85 ohm) *)
Definition ex_src : vd sym :=
  srun [OInit sym 1 2 2 2; OSetMatrix sym 0 [L 1; L 2; L 3; L 4]; OSetMatrix sym 1 [L 5; L 6; L 7; L 8];
        OSetFreqVec sym [10; 20]; OSetZ0Vec sym [L 50; L 75]; OSetFz0Vec sym 1 [L 60; L 85];
        OSetFormat sym (Some 2%nat); OSetFprec sym 9].

(* destination with a larger, used allocation: Z parameters 3 x 3, three frequencies,
   per-frequency impedances, every cell written *)
Definition ex_dst : vd sym :=
  srun [OInit sym 4 3 3 3;
        OSetMatrix sym 0 [L 91; L 92; L 93; L 94; L 95; L 96; L 97; L 98; L 99];
        OSetMatrix sym 1 [L 81; L 82; L 83; L 84; L 85; L 86; L 87; L 88; L 89];
        OSetMatrix sym 2 [L 71; L 72; L 73; L 74; L 75; L 76; L 77; L 78; L 79];
        OSetFreqVec sym [1; 2; 3]; OSetFz0Vec sym 2 [L 11; L 12; L 13]; OSetFiletype sym 2].

Example ex_src_inv : sInv ex_src.
Proof. apply run_inv. apply inv_alloc. Qed.
Example ex_dst_inv : sInv ex_dst.
Proof. apply run_inv. apply inv_alloc. Qed.

Example ex_src_shape :
  (ty sym ex_src, rows sym ex_src, cols sym ex_src, freqs sym ex_src, per_f sym ex_src) = (VS, 2, 2, 2, true)%nat /\
  (m_alloc sym ex_dst, f_alloc sym ex_dst, p_alloc sym ex_dst, per_f sym ex_dst) = (9, 3, 3, true)%nat.
Proof. vm_compute. split; reflexivity. Qed.

(* S -> Z: the n-port function with z0; the hypotheses of convert_result / convert_pointwise /
   convert_inplace_eq_outofplace hold *)
Definition cs_sz := mkcs DNxN true KXtoY (FN VS VZ).
Example ex_sz_hyps :
  vpt_of_Z 4 = Some VZ /\ conv_spec (ty sym ex_src) VZ = Some cs_sz /\ cs_kind cs_sz <> KSame /\
  dim_ok (cs_dim cs_sz) (rows sym ex_src) (cols sym ex_src) = true /\
  out_perf sym false ex_src cs_sz false = per_f sym ex_src.
Proof. repeat split; try reflexivity. discriminate. Qed.

Definition m0 := [L 1; L 2; L 3; L 4].
Definition m1 := [L 5; L 6; L 7; L 8].
Definition sz_expected : obs sym :=
  mkobs sym VZ 2 2 2 [10; 20]
        [map (R (FN VS VZ) 2 m0 [L 50; L 75]) [0; 1; 2; 3]%nat; map (R (FN VS VZ) 2 m1 [L 60; L 85]) [0; 1; 2; 3]%nat]
        true [[L 50; L 75]; [L 60; L 85]] (0, Some 2%nat, 9, 6).

(* out of place into the used 3 x 3 x 3 object: frequency f's matrix with frequency f's impedances,
   frequencies, impedances and save options carried over, nothing left of the old contents *)
Example ex_sz_outofplace :
  snd (sconvert ex_src ex_dst false 4) = ok sym /\
  observe sym (fst (sconvert ex_src ex_dst false 4)) = sz_expected /\
  (* allocation kept, the cells beyond the 2 x 2 x 2 box are initial *)
  m_alloc sym (fst (sconvert ex_src ex_dst false 4)) = 9%nat /\
  dat sym (fst (sconvert ex_src ex_dst false 4)) 0 4 = s0 /\ dat sym (fst (sconvert ex_src ex_dst false 4)) 2 0 = s0 /\
  z0vv sym (fst (sconvert ex_src ex_dst false 4)) 2 0 = s50 /\ fv sym (fst (sconvert ex_src ex_dst false 4)) 2 = 0.
Proof. vm_compute. repeat split; reflexivity. Qed.

(* in place: the same observation *)
Example ex_sz_inplace :
  snd (sconvert ex_src ex_src true 4) = ok sym /\
  observe sym (fst (sconvert ex_src ex_src true 4)) = sz_expected.
Proof. vm_compute. split; reflexivity. Qed.

(* S -> Zin: 1 x 2 object, vnaconv_stozin with the per-frequency impedances; in place and out of
   place agree; growing the object again exposes initial cells *)
Definition cs_si := mkcs DNxN true KXtoI (FIN VS).
Example ex_zin_hyps :
  vpt_of_Z 10 = Some VZIN /\ conv_spec (ty sym ex_src) VZIN = Some cs_si /\
  dim_ok (cs_dim cs_si) (rows sym ex_src) (cols sym ex_src) = true /\
  out_perf sym false ex_src cs_si false = per_f sym ex_src.
Proof. repeat split; reflexivity. Qed.

Definition zin_expected : obs sym :=
  mkobs sym VZIN 1 2 2 [10; 20]
        [map (R (FIN VS) 2 m0 [L 50; L 75]) [0; 1]%nat; map (R (FIN VS) 2 m1 [L 60; L 85]) [0; 1]%nat]
        true [[L 50; L 75]; [L 60; L 85]] (0, Some 2%nat, 9, 6).

Example ex_zin :
  observe sym (fst (sconvert ex_src ex_src true 10)) = zin_expected /\
  observe sym (fst (sconvert ex_src ex_dst false 10)) = zin_expected /\
  (forall k, In k [2; 3]%nat ->
     dat sym (fst (sconvert ex_src ex_src true 10)) 0 k = s0 /\ dat sym (fst (sconvert ex_src ex_dst false 10)) 0 k = s0) /\
  ob_dat sym (observe sym (fst (resize sym s0 s50 fixed (fst (sconvert ex_src ex_src true 10)) 0 2 2 2))) =
    [[R (FIN VS) 2 m0 [L 50; L 75] 0; R (FIN VS) 2 m0 [L 50; L 75] 1; s0; s0];
     [R (FIN VS) 2 m1 [L 60; L 85] 0; R (FIN VS) 2 m1 [L 60; L 85] 1; s0; s0]].
Proof.
  split; [vm_compute; reflexivity|]. split; [vm_compute; reflexivity|]. split; [|vm_compute; reflexivity].
  intros k [<-|[<-|[]]]; vm_compute; split; reflexivity.
Qed.

(* same type into the second object: a copy *)
Example ex_copy :
  conv_spec VS VS = Some (mkcs DAny false KSame FSame) /\
  observe sym (fst (sconvert ex_src ex_dst false 1)) = observe sym ex_src.
Proof. split; vm_compute; reflexivity. Qed.

(* the source of an out-of-place conversion is not written *)
Example ex_source_unchanged :
  sel sym (fst (mstep sym s0 s50 fixed false sconv (ex_src, ex_dst) (MConv sym false true 4))) false = ex_src.
Proof. apply mstep_conv_source_unchanged. discriminate. Qed.

(* ---------------------------------------------------------------- the exception *)
(* An object in per-frequency-z0 mode with no frequencies: converting it into a second object
   leaves that object in ordinary mode (the loop over the frequencies that would establish the
   mode does not run), converting it in place keeps the mode; vnadata_has_fz0 tells them apart.
   This is the behaviour of the code (tied by the correspondence); it is why
   convert_inplace_eq_outofplace carries the hypothesis out_perf = per_f. *)
Definition ex_nofreq : vd sym :=
  srun [OInit sym 1 2 2 1; OSetFz0Vec sym 0 [L 60; L 85]; OResize sym 1 2 2 0].

Example ex_nofreq_inv : sInv ex_nofreq.
Proof. apply run_inv. apply inv_alloc. Qed.

Example convert_inplace_eq_refuted_without_frequencies :
  per_f sym ex_nofreq = true /\ freqs sym ex_nofreq = 0%nat /\
  snd (sconvert ex_nofreq ex_nofreq true 4) = ok sym /\
  snd (sconvert ex_nofreq (vd_alloc sym s0 s50) false 4) = ok sym /\
  snd (has_fz0 sym (fst (sconvert ex_nofreq ex_nofreq true 4))) = okp sym (PBool true) /\
  snd (has_fz0 sym (fst (sconvert ex_nofreq (vd_alloc sym s0 s50) false 4))) = okp sym (PBool false).
Proof. vm_compute. repeat split; reflexivity. Qed.

(* with the repair DD2 both results are in per-frequency mode; the other examples do not change *)
Example convert_inplace_eq_without_frequencies_repaired :
  snd (has_fz0 sym (fst (sconvert_r ex_nofreq ex_nofreq true 4))) = okp sym (PBool true) /\
  snd (has_fz0 sym (fst (sconvert_r ex_nofreq (vd_alloc sym s0 s50) false 4))) = okp sym (PBool true) /\
  observe sym (fst (sconvert_r ex_nofreq ex_nofreq true 4)) = observe sym (fst (sconvert_r ex_nofreq ex_dst false 4)) /\
  observe sym (fst (sconvert_r ex_src ex_dst false 4)) = sz_expected /\
  observe sym (fst (sconvert_r ex_src ex_dst false 10)) = zin_expected.
Proof. vm_compute. repeat split; reflexivity. Qed.
