(* Executable model of the vnadata_t container of libvna (property C15): vnadata_alloc.c,
   vnadata_add_frequency.c, the inline accessors of vnadata.h, the z0 / fz0 files,
   vnadata_convert_to_fz0.c, vnadata_convert_to_z0.c, and the trivial filetype / format /
   precision accessors.  No proofs in this file.

   Representation.  The three dynamically sized areas of a vnadata_internal_t are modelled as
   *checked memories*: a total function from indices to values together with the allocation
   sizes (vdi_p_allocation, vdi_f_allocation, vdi_m_allocation).  Every access the C code makes
   is bounds-checked against the allocation in the model; an access outside the allocation is
   the outcome RFault (what ASan reports on the implementation).  realloc is "the allocation
   number grows and the new cells receive the value the code writes into them".
     dat  f j   vd_data[f][j]                 f < f_alloc, j < m_alloc
     fv   f     vd_frequency_vector[f]        f < f_alloc
     z0v  p     vdi_z0_vector[p]              p < p_alloc          (when per_f = false)
     z0vv f p   vdi_z0_vector_vector[f][p]    f < f_alloc, p < p_alloc (when per_f = true)
   Values (double complex) are an abstract type V with the two constants the code uses
   (0 and VNADATA_DEFAULT_Z0); frequencies (double) are integers (only the test
   `frequency < 0.0` looks at them).  C ints are Z on the argument side.

   The model follows the code as it is in /repo now, i.e. with the repairs D4 (port >= ports
   refused), D6 (convert_to_fz0 copies only the logical frequencies) and D40 (rows * columns is
   range checked) - the three that the functions of this file read from `quirks`.  The behaviour
   of the code as found before those repairs is selected by the `quirks` argument, so that the
   refutations of the positive theorems for the unrepaired code can be stated about the very
   same definitions.  q_d5 (in-place conversion to Zin clears the vacated cells) is read only by
   ConvertModel.convert (property C05).  Row pointers (vd_data[f], vdi_z0_vector_vector[f]) are
   not represented: a frequency row is "allocated" iff f < f_alloc, so the repairs D7 (new row
   pointers cleared) and D49 (no memcpy / memset with a NULL pointer and length 0) have no
   counterpart here; they are confirmed by the sanitizer build of the correspondence only. *)
Require Import List ZArith Bool Lia.
Import ListNotations.

Inductive vpt := VUNDEF | VS | VT | VU | VZ | VY | VH | VG | VA | VB | VZIN.

Definition vpt_code (t : vpt) : Z :=
  match t with VUNDEF => 0 | VS => 1 | VT => 2 | VU => 3 | VZ => 4 | VY => 5 | VH => 6
             | VG => 7 | VA => 8 | VB => 9 | VZIN => 10 end%Z.

Definition vpt_of_Z (z : Z) : option vpt :=
  match z with
  | 0 => Some VUNDEF | 1 => Some VS | 2 => Some VT | 3 => Some VU | 4 => Some VZ | 5 => Some VY
  | 6 => Some VH | 7 => Some VG | 8 => Some VA | 9 => Some VB | 10 => Some VZIN | _ => None
  end%Z.

Definition all_vpt := [VUNDEF; VS; VT; VU; VZ; VY; VH; VG; VA; VB; VZIN].

(* Which of the candidate defects of the code as found are present. *)
Record quirks := { q_d4 : bool;    (* z0 port test is `port > ports` *)
                   q_d5 : bool;    (* in-place conversion to Zin only rewrites the dimensions *)
                   q_d6 : bool;    (* convert_to_fz0 copies z0 into all f_alloc rows *)
                   q_d40 : bool }. (* rows * columns not range checked *)
Definition fixed := {| q_d4 := false; q_d5 := false; q_d6 := false; q_d40 := false |}.
Definition as_found := {| q_d4 := true; q_d5 := true; q_d6 := true; q_d40 := true |}.

Definition INT_MAX : Z := 2147483647.

Section Model.
Variable V : Type.
Variables vzero vdef : V.
Variable Q : quirks.

Record vd := mkvd {
  ty : vpt; rows : nat; cols : nat; freqs : nat;
  p_alloc : nat; f_alloc : nat; m_alloc : nat;
  per_f : bool;
  z0v : nat -> V;
  z0vv : nat -> nat -> V;
  fv : nat -> Z;
  dat : nat -> nat -> V;
  ftype : Z; fmt : option nat; fprec : Z; dprec : Z }.

(* vnadata_alloc *)
Definition vd_alloc : vd :=
  mkvd VUNDEF 0 0 0 0 0 0 false (fun _ => vdef) (fun _ _ => vdef) (fun _ => 0%Z)
       (fun _ _ => vzero) 0 None 7 6.

Definition ports (d : vd) := Nat.max (rows d) (cols d).
Definition cells (d : vd) := rows d * cols d.

(* ---------------------------------------------------------------- outcomes *)
Inductive ret := ROk | RFail | RFault.
Inductive payload :=
| PNone | PVal (v : V) | PFreq (x : Z) | PVals (l : list V) | PFreqs (l : list Z) | PBool (b : bool)
| PDims (t : vpt) (r c f : nat) | PMeta (ft : Z) (fm : option nat) (fp dp : Z).
(* o_cb = number of error-callback invocations; errno class is EINVAL iff o_ret = RFail
   (every failure of these functions is VNAERR_USAGE or an explicit errno = EINVAL) *)
Record outcome := mkout { o_ret : ret; o_cb : nat; o_pay : payload }.

Definition ok := mkout ROk 0 PNone.
Definition okp (p : payload) := mkout ROk 0 p.
Definition fail := mkout RFail 1 PNone.     (* failure reported through the error callback *)
Definition fault := mkout RFault 0 PNone.

Definition in_range (i : Z) (n : nat) : bool := ((0 <=? i) && (i <? Z.of_nat n))%Z.

(* ---------------------------------------------------------------- field updates *)
Definition set_z0v (d : vd) x := mkvd (ty d) (rows d) (cols d) (freqs d) (p_alloc d) (f_alloc d)
  (m_alloc d) (per_f d) x (z0vv d) (fv d) (dat d) (ftype d) (fmt d) (fprec d) (dprec d).
Definition set_z0vv (d : vd) x := mkvd (ty d) (rows d) (cols d) (freqs d) (p_alloc d) (f_alloc d)
  (m_alloc d) (per_f d) (z0v d) x (fv d) (dat d) (ftype d) (fmt d) (fprec d) (dprec d).
Definition set_fv (d : vd) x := mkvd (ty d) (rows d) (cols d) (freqs d) (p_alloc d) (f_alloc d)
  (m_alloc d) (per_f d) (z0v d) (z0vv d) x (dat d) (ftype d) (fmt d) (fprec d) (dprec d).
Definition set_dat (d : vd) x := mkvd (ty d) (rows d) (cols d) (freqs d) (p_alloc d) (f_alloc d)
  (m_alloc d) (per_f d) (z0v d) (z0vv d) (fv d) x (ftype d) (fmt d) (fprec d) (dprec d).
Definition set_palloc (d : vd) n := mkvd (ty d) (rows d) (cols d) (freqs d) n (f_alloc d)
  (m_alloc d) (per_f d) (z0v d) (z0vv d) (fv d) (dat d) (ftype d) (fmt d) (fprec d) (dprec d).
Definition set_malloc (d : vd) n := mkvd (ty d) (rows d) (cols d) (freqs d) (p_alloc d) (f_alloc d)
  n (per_f d) (z0v d) (z0vv d) (fv d) (dat d) (ftype d) (fmt d) (fprec d) (dprec d).
Definition set_falloc (d : vd) n := mkvd (ty d) (rows d) (cols d) (freqs d) (p_alloc d) n
  (m_alloc d) (per_f d) (z0v d) (z0vv d) (fv d) (dat d) (ftype d) (fmt d) (fprec d) (dprec d).
Definition set_dims (d : vd) t r c f := mkvd t r c f (p_alloc d) (f_alloc d)
  (m_alloc d) (per_f d) (z0v d) (z0vv d) (fv d) (dat d) (ftype d) (fmt d) (fprec d) (dprec d).
Definition set_perf (d : vd) b := mkvd (ty d) (rows d) (cols d) (freqs d) (p_alloc d) (f_alloc d)
  (m_alloc d) b (z0v d) (z0vv d) (fv d) (dat d) (ftype d) (fmt d) (fprec d) (dprec d).
Definition set_meta (d : vd) ft fm fp dp := mkvd (ty d) (rows d) (cols d) (freqs d) (p_alloc d)
  (f_alloc d) (m_alloc d) (per_f d) (z0v d) (z0vv d) (fv d) (dat d) ft fm fp dp.

Definition upd1 {A} (g : nat -> A) (i : nat) (x : A) : nat -> A :=
  fun k => if Nat.eqb k i then x else g k.
Definition upd2 {A} (g : nat -> nat -> A) (i j : nat) (x : A) : nat -> nat -> A :=
  fun a b => if Nat.eqb a i && Nat.eqb b j then x else g a b.
Definition within (lo hi k : nat) : bool := Nat.leb lo k && Nat.ltb k hi.

(* ---------------------------------------------------------------- _vnadata_extend_p/m/f *)
Definition extend_p (d : vd) (n : nat) : vd :=
  if Nat.ltb (p_alloc d) n then
    let old := p_alloc d in
    let d1 := if per_f d
              then set_z0vv d (fun f p => if Nat.ltb f (f_alloc d) && within old n p then vdef
                                          else z0vv d f p)
              else set_z0v d (fun p => if within old n p then vdef else z0v d p) in
    set_palloc d1 n
  else d.

Definition extend_m (d : vd) (n : nat) : vd :=
  if Nat.ltb (m_alloc d) n then
    let old := m_alloc d in
    set_malloc (set_dat d (fun f j => if Nat.ltb f (f_alloc d) && within old n j then vzero
                                      else dat d f j)) n
  else d.

(* new frequency rows: frequency 0, (per_f and p_alloc <> 0) a z0 row of defaults,
   (m_alloc <> 0) a zeroed data row *)
Definition extend_f (d : vd) (n : nat) : vd :=
  if Nat.ltb (f_alloc d) n then
    let old := f_alloc d in
    let d1 := set_fv d (fun f => if within old n f then 0%Z else fv d f) in
    let d2 := if per_f d
              then set_z0vv d1 (fun f p => if within old n f && Nat.ltb p (p_alloc d) then vdef
                                           else z0vv d f p)
              else d1 in
    let d3 := set_dat d2 (fun f j => if within old n f && Nat.ltb j (m_alloc d) then vzero
                                     else dat d f j) in
    set_falloc d3 n
  else d.

(* ---------------------------------------------------------------- validate_type *)
Definition validate_type (t : vpt) (r c : nat) : bool :=
  match t with
  | VUNDEF => true
  | VS | VZ | VY => Nat.eqb r c
  | VT | VU | VH | VG | VA | VB => Nat.eqb r 2 && Nat.eqb c 2
  | VZIN => Nat.eqb r 1
  end.

(* ---------------------------------------------------------------- vnadata_resize *)
Definition resize (d : vd) (tz r c f : Z) : vd * outcome :=
  if (r <? 0)%Z then (d, fail) else
  if (c <? 0)%Z then (d, fail) else
  if (f <? 0)%Z then (d, fail) else
  match vpt_of_Z tz with
  | None => (d, fail)
  | Some t =>
    let r := Z.to_nat r in let c := Z.to_nat c in let f := Z.to_nat f in
    if negb (validate_type t r c) then (d, fail) else
    if (INT_MAX <? Z.of_nat r * Z.of_nat c)%Z
    then (if q_d40 Q then (d, fault)     (* signed overflow in rows * columns *)
          else (d, fail))
    else
    let old_ports := ports d in let new_ports := Nat.max r c in
    let old_cells := cells d in let new_cells := r * c in
    let old_f := freqs d in
    let d1 := extend_p d new_ports in
    let d2 := extend_m d1 new_cells in
    let d3 := extend_f d2 f in
    (* vacated inner z0 cells, rows below the old frequency count *)
    let d4 := if Nat.ltb new_ports old_ports then
                if per_f d3
                then set_z0vv d3 (fun a p => if Nat.ltb a old_f && within new_ports old_ports p
                                             then vdef else z0vv d3 a p)
                else set_z0v d3 (fun p => if within new_ports old_ports p then vdef else z0v d3 p)
              else d3 in
    (* vacated matrix cells *)
    let d5 := if Nat.ltb new_cells old_cells then
                set_dat d4 (fun a j => if Nat.ltb a old_f && within new_cells old_cells j
                                       then vzero else dat d4 a j)
              else d4 in
    (* vacated frequency rows *)
    let d6 := if Nat.ltb f old_f then
                let e1 := set_fv d5 (fun a => if within f old_f a then 0%Z else fv d5 a) in
                let e2 := if per_f e1
                          then set_z0vv e1 (fun a p => if within f old_f a && Nat.ltb p old_ports
                                                       then vdef else z0vv e1 a p)
                          else e1 in
                set_dat e2 (fun a j => if within f old_f a && Nat.ltb j old_cells then vzero
                                       else dat e2 a j)
              else d5 in
    (* every index written above lies inside the (extended) allocations *)
    if Nat.leb old_ports (p_alloc d3) && Nat.leb old_cells (m_alloc d3)
       && Nat.leb old_f (f_alloc d3)
    then (set_dims d6 t r c f, ok)
    else (d, fault)
  end.

(* ---------------------------------------------------------------- z0 mode switches *)
Definition convert_to_fz0 (d : vd) : vd :=
  if per_f d then d else
  set_perf (set_z0v (set_z0vv d (fun f p =>
      if Nat.ltb f (f_alloc d) && Nat.ltb p (p_alloc d)
      then (if q_d6 Q then z0v d p else if Nat.ltb f (freqs d) then z0v d p else vdef)
      else vdef)) (fun _ => vdef)) true.

Definition convert_to_z0 (d : vd) : vd :=
  if per_f d then set_perf (set_z0vv (set_z0v d (fun _ => vdef)) (fun _ _ => vdef)) false else d.

Definition port_ok (d : vd) (p : Z) : bool :=
  if q_d4 Q then ((0 <=? p) && (p <=? Z.of_nat (ports d)))%Z else in_range p (ports d).

Definition get_z0 (d : vd) (p : Z) : vd * outcome :=
  if negb (port_ok d p) then (d, fail) else
  if per_f d then (d, fail) else
  let p := Z.to_nat p in
  if Nat.ltb p (p_alloc d) then (d, okp (PVal (z0v d p))) else (d, fault).

Definition set_z0 (d : vd) (p : Z) (v : V) : vd * outcome :=
  if negb (port_ok d p) then (d, fail) else
  let d1 := convert_to_z0 d in
  let p := Z.to_nat p in
  if Nat.ltb p (p_alloc d1) then (set_z0v d1 (upd1 (z0v d1) p v), ok) else (d, fault).

Definition set_all_z0 (d : vd) (v : V) : vd * outcome :=
  let d1 := convert_to_z0 d in
  if Nat.leb (ports d1) (p_alloc d1)
  then (set_z0v d1 (fun p => if Nat.ltb p (ports d1) then v else z0v d1 p), ok)
  else (d, fault).

Definition get_z0_vector (d : vd) : vd * outcome :=
  if per_f d then (d, fail) else
  if Nat.leb (ports d) (p_alloc d)
  then (d, okp (PVals (map (z0v d) (seq 0 (ports d))))) else (d, fault).

Definition set_z0_vector (d : vd) (l : list V) : vd * outcome :=
  let d1 := convert_to_z0 d in
  if Nat.leb (ports d1) (p_alloc d1)
  then (set_z0v d1 (fun p => if Nat.ltb p (ports d1) then nth p l vzero else z0v d1 p), ok)
  else (d, fault).

Definition has_fz0 (d : vd) : vd * outcome := (d, okp (PBool (per_f d))).

Definition get_fz0 (d : vd) (f p : Z) : vd * outcome :=
  if negb (in_range f (freqs d)) then (d, fail) else
  if negb (port_ok d p) then (d, fail) else
  let f := Z.to_nat f in let p := Z.to_nat p in
  if per_f d
  then (if Nat.ltb f (f_alloc d) && Nat.ltb p (p_alloc d) then (d, okp (PVal (z0vv d f p)))
        else (d, fault))
  else (if Nat.ltb p (p_alloc d) then (d, okp (PVal (z0v d p))) else (d, fault)).

Definition set_fz0 (d : vd) (f p : Z) (v : V) : vd * outcome :=
  if negb (in_range f (freqs d)) then (d, fail) else
  if negb (port_ok d p) then (d, fail) else
  let d1 := convert_to_fz0 d in
  let f := Z.to_nat f in let p := Z.to_nat p in
  if Nat.ltb f (f_alloc d1) && Nat.ltb p (p_alloc d1)
  then (set_z0vv d1 (upd2 (z0vv d1) f p v), ok) else (d, fault).

Definition get_fz0_vector (d : vd) (f : Z) : vd * outcome :=
  if negb (in_range f (freqs d)) then (d, fail) else
  let f := Z.to_nat f in
  if negb (Nat.leb (ports d) (p_alloc d)) then (d, fault) else
  if per_f d
  then (if Nat.ltb f (f_alloc d) then (d, okp (PVals (map (z0vv d f) (seq 0 (ports d)))))
        else (d, fault))
  else (d, okp (PVals (map (z0v d) (seq 0 (ports d))))).

Definition set_fz0_vector (d : vd) (f : Z) (l : list V) : vd * outcome :=
  if negb (in_range f (freqs d)) then (d, fail) else
  let d1 := convert_to_fz0 d in
  let f := Z.to_nat f in
  if Nat.ltb f (f_alloc d1) && Nat.leb (ports d1) (p_alloc d1)
  then (set_z0vv d1 (fun a p => if Nat.eqb a f && Nat.ltb p (ports d1) then nth p l vzero
                                else z0vv d1 a p), ok)
  else (d, fault).

(* ---------------------------------------------------------------- init, set_type *)
Definition init (d : vd) (tz r c f : Z) : vd * outcome :=
  let d1 := fst (resize d 0 0 0 0) in
  let d2 := fst (set_all_z0 d1 vdef) in
  resize d2 tz r c f.

Definition set_type (d : vd) (tz : Z) : vd * outcome :=
  match vpt_of_Z tz with
  | None => (d, fail)
  | Some t => if validate_type t (rows d) (cols d)
              then (set_dims d t (rows d) (cols d) (freqs d), ok) else (d, fail)
  end.

(* ---------------------------------------------------------------- frequencies *)
Definition add_frequency (d : vd) (x : Z) : vd * outcome :=
  if (x <? 0)%Z then (d, fail) else
  let d1 := if Nat.ltb (f_alloc d) (freqs d + 1)
            then extend_f d (Nat.max 50 (f_alloc d + f_alloc d / 2)) else d in
  if Nat.ltb (freqs d1) (f_alloc d1)
  then (set_dims (set_fv d1 (upd1 (fv d1) (freqs d1) x)) (ty d1) (rows d1) (cols d1) (freqs d1 + 1), ok)
  else (d, fault).

Definition get_frequency (d : vd) (i : Z) : vd * outcome :=
  if negb (in_range i (freqs d)) then (d, fail) else
  let i := Z.to_nat i in
  if Nat.ltb i (f_alloc d) then (d, okp (PFreq (fv d i))) else (d, fault).

Definition set_frequency (d : vd) (i x : Z) : vd * outcome :=
  if negb (in_range i (freqs d)) then (d, fail) else
  let i := Z.to_nat i in
  if Nat.ltb i (f_alloc d) then (set_fv d (upd1 (fv d) i x), ok) else (d, fault).

Definition get_fmin (d : vd) : vd * outcome :=
  if Nat.eqb (freqs d) 0 then (d, fail) else
  if Nat.ltb 0 (f_alloc d) then (d, okp (PFreq (fv d 0))) else (d, fault).

Definition get_fmax (d : vd) : vd * outcome :=
  if Nat.eqb (freqs d) 0 then (d, fail) else
  if Nat.leb (freqs d) (f_alloc d) then (d, okp (PFreq (fv d (freqs d - 1)))) else (d, fault).

Definition get_frequency_vector (d : vd) : vd * outcome :=
  if Nat.leb (freqs d) (f_alloc d) then (d, okp (PFreqs (map (fv d) (seq 0 (freqs d)))))
  else (d, fault).

Definition set_frequency_vector (d : vd) (l : list Z) : vd * outcome :=
  if Nat.leb (freqs d) (f_alloc d)
  then (set_fv d (fun a => if Nat.ltb a (freqs d) then nth a l 0%Z else fv d a), ok)
  else (d, fault).

(* ---------------------------------------------------------------- data cells *)
Definition cell_index (d : vd) (r c : nat) := r * cols d + c.

Definition get_cell (d : vd) (f r c : Z) : vd * outcome :=
  if negb (in_range f (freqs d)) then (d, fail) else
  if negb (in_range r (rows d)) then (d, fail) else
  if negb (in_range c (cols d)) then (d, fail) else
  let f := Z.to_nat f in let j := cell_index d (Z.to_nat r) (Z.to_nat c) in
  if Nat.ltb f (f_alloc d) && Nat.ltb j (m_alloc d) then (d, okp (PVal (dat d f j)))
  else (d, fault).

Definition set_cell (d : vd) (f r c : Z) (v : V) : vd * outcome :=
  if negb (in_range f (freqs d)) then (d, fail) else
  if negb (in_range r (rows d)) then (d, fail) else
  if negb (in_range c (cols d)) then (d, fail) else
  let f := Z.to_nat f in let j := cell_index d (Z.to_nat r) (Z.to_nat c) in
  if Nat.ltb f (f_alloc d) && Nat.ltb j (m_alloc d) then (set_dat d (upd2 (dat d) f j v), ok)
  else (d, fault).

Definition get_matrix (d : vd) (f : Z) : vd * outcome :=
  if negb (in_range f (freqs d)) then (d, fail) else
  let f := Z.to_nat f in
  if Nat.ltb f (f_alloc d) && Nat.leb (cells d) (m_alloc d)
  then (d, okp (PVals (map (dat d f) (seq 0 (cells d))))) else (d, fault).

Definition set_matrix (d : vd) (f : Z) (l : list V) : vd * outcome :=
  if negb (in_range f (freqs d)) then (d, fail) else
  let f := Z.to_nat f in
  if Nat.ltb f (f_alloc d) && Nat.leb (cells d) (m_alloc d)
  then (set_dat d (fun a j => if Nat.eqb a f && Nat.ltb j (cells d) then nth j l vzero
                              else dat d a j), ok)
  else (d, fault).

Definition get_to_vector (d : vd) (r c : Z) : vd * outcome :=
  if negb (in_range r (rows d)) then (d, fail) else
  if negb (in_range c (cols d)) then (d, fail) else
  let j := cell_index d (Z.to_nat r) (Z.to_nat c) in
  if Nat.leb (freqs d) (f_alloc d) && Nat.ltb j (m_alloc d)
  then (d, okp (PVals (map (fun f => dat d f j) (seq 0 (freqs d))))) else (d, fault).

Definition set_from_vector (d : vd) (r c : Z) (l : list V) : vd * outcome :=
  if negb (in_range r (rows d)) then (d, fail) else
  if negb (in_range c (cols d)) then (d, fail) else
  let j := cell_index d (Z.to_nat r) (Z.to_nat c) in
  if Nat.leb (freqs d) (f_alloc d) && Nat.ltb j (m_alloc d)
  then (set_dat d (fun a b => if Nat.ltb a (freqs d) && Nat.eqb b j then nth a l vzero
                              else dat d a b), ok)
  else (d, fault).

(* ---------------------------------------------------------------- filetype, format, precision *)
Definition set_filetype (d : vd) (k : Z) : vd * outcome :=
  if ((0 <=? k) && (k <=? 3))%Z then (set_meta d k (fmt d) (fprec d) (dprec d), ok) else (d, fail).
(* the format string is opaque here: Some k = the k-th entry of a fixed table of canonical
   format strings, None = NULL (no format) *)
Definition set_format (d : vd) (k : option nat) : vd * outcome :=
  (set_meta d (ftype d) k (fprec d) (dprec d), ok).
Definition set_fprecision (d : vd) (p : Z) : vd * outcome :=
  if (p <? 1)%Z then (d, fail) else (set_meta d (ftype d) (fmt d) p (dprec d), ok).
Definition set_dprecision (d : vd) (p : Z) : vd * outcome :=
  if (p <? 1)%Z then (d, fail) else (set_meta d (ftype d) (fmt d) (fprec d) p, ok).

(* ---------------------------------------------------------------- operations *)
Inductive op :=
| OInit (t r c f : Z) | OResize (t r c f : Z) | OSetType (t : Z) | OAddFreq (x : Z)
| OGetFreq (i : Z) | OSetFreq (i x : Z) | OGetFmin | OGetFmax | OGetFreqVec | OSetFreqVec (l : list Z)
| OGetCell (f r c : Z) | OSetCell (f r c : Z) (v : V)
| OGetMatrix (f : Z) | OSetMatrix (f : Z) (l : list V)
| OGetToVec (r c : Z) | OSetFromVec (r c : Z) (l : list V)
| OGetZ0 (p : Z) | OSetZ0 (p : Z) (v : V) | OSetAllZ0 (v : V) | OGetZ0Vec | OSetZ0Vec (l : list V)
| OHasFz0 | OGetFz0 (f p : Z) | OSetFz0 (f p : Z) (v : V) | OGetFz0Vec (f : Z)
| OSetFz0Vec (f : Z) (l : list V)
| OGetDims | OGetMeta
| OSetFiletype (k : Z) | OSetFormat (k : option nat) | OSetFprec (p : Z) | OSetDprec (p : Z).

Definition step (d : vd) (o : op) : vd * outcome :=
  match o with
  | OInit t r c f => init d t r c f
  | OResize t r c f => resize d t r c f
  | OSetType t => set_type d t
  | OAddFreq x => add_frequency d x
  | OGetFreq i => get_frequency d i
  | OSetFreq i x => set_frequency d i x
  | OGetFmin => get_fmin d
  | OGetFmax => get_fmax d
  | OGetFreqVec => get_frequency_vector d
  | OSetFreqVec l => set_frequency_vector d l
  | OGetCell f r c => get_cell d f r c
  | OSetCell f r c v => set_cell d f r c v
  | OGetMatrix f => get_matrix d f
  | OSetMatrix f l => set_matrix d f l
  | OGetToVec r c => get_to_vector d r c
  | OSetFromVec r c l => set_from_vector d r c l
  | OGetZ0 p => get_z0 d p
  | OSetZ0 p v => set_z0 d p v
  | OSetAllZ0 v => set_all_z0 d v
  | OGetZ0Vec => get_z0_vector d
  | OSetZ0Vec l => set_z0_vector d l
  | OHasFz0 => has_fz0 d
  | OGetFz0 f p => get_fz0 d f p
  | OSetFz0 f p v => set_fz0 d f p v
  | OGetFz0Vec f => get_fz0_vector d f
  | OSetFz0Vec f l => set_fz0_vector d f l
  | OGetDims => (d, okp (PDims (ty d) (rows d) (cols d) (freqs d)))
  | OGetMeta => (d, okp (PMeta (ftype d) (fmt d) (fprec d) (dprec d)))
  | OSetFiletype k => set_filetype d k
  | OSetFormat k => set_format d k
  | OSetFprec p => set_fprecision d p
  | OSetDprec p => set_dprecision d p
  end.

Definition run (d : vd) (l : list op) : vd := fold_left (fun s o => fst (step s o)) l d.

(* ---------------------------------------------------------------- caller-supplied vectors *)
(* The vector-taking setters read a number of elements from a buffer of the caller that the C
   code cannot check: vnadata_set_frequency_vector memcpy's vd_frequencies doubles,
   vnadata_set_matrix rows * columns values (after the frequency index test),
   vnadata_set_from_vector reads vector[0 .. frequencies-1] (after the row / column tests),
   vnadata_set_z0_vector and vnadata_set_fz0_vector memcpy MAX(rows, columns) values (the latter
   after the frequency index test).  The functions above read the op's list with `nth k l _`,
   which yields a default beyond the end of the list, where the C code reads past the end of the
   caller's buffer.  `short_vector d o`: the call gets as far as the copy and the caller's vector
   has fewer elements than the copy reads.  `step_chk` treats the caller's buffer as one more
   checked memory, of `length l` elements: a read beyond it is the outcome RFault, like every
   other access outside an allocation (the state returned with RFault carries no meaning; the C
   code may already have switched the z0 mode before the copy).  `step` is kept as it is: it is
   what `step_chk` does for a caller that supplies the documented number of elements, and it is
   the function the op-script correspondence executes (the harness, as the caller, completes
   every vector to the documented length with zeros before the call). *)
Definition short_vector (d : vd) (o : op) : bool :=
  match o with
  | OSetFreqVec l => Nat.ltb (length l) (freqs d)
  | OSetMatrix f l => in_range f (freqs d) && Nat.ltb (length l) (cells d)
  | OSetFromVec r c l => in_range r (rows d) && in_range c (cols d) && Nat.ltb (length l) (freqs d)
  | OSetZ0Vec l => Nat.ltb (length l) (ports d)
  | OSetFz0Vec f l => in_range f (freqs d) && Nat.ltb (length l) (ports d)
  | _ => false
  end.

Definition step_chk (d : vd) (o : op) : vd * outcome :=
  if short_vector d o then (d, fault) else step d o.

Definition run_chk (d : vd) (l : list op) : vd := fold_left (fun s o => fst (step_chk s o)) l d.

(* ---------------------------------------------------------------- observation (digest) *)
(* What a client can see through the public getters: dimensions, every frequency, every cell,
   the z0 mode and every impedance, the save options. *)
Record obs := mkobs {
  ob_ty : vpt; ob_rows : nat; ob_cols : nat; ob_freqs : nat;
  ob_fv : list Z; ob_dat : list (list V);
  ob_perf : bool; ob_z0 : list (list V);     (* one row when ordinary, one per frequency otherwise *)
  ob_meta : Z * option nat * Z * Z }.

Definition observe (d : vd) : obs :=
  mkobs (ty d) (rows d) (cols d) (freqs d)
        (map (fv d) (seq 0 (freqs d)))
        (map (fun f => map (dat d f) (seq 0 (cells d))) (seq 0 (freqs d)))
        (per_f d)
        (if per_f d then map (fun f => map (z0vv d f) (seq 0 (ports d))) (seq 0 (freqs d))
         else [map (z0v d) (seq 0 (ports d))])
        (ftype d, fmt d, fprec d, dprec d).

End Model.

Arguments mkout {V}. Arguments PNone {V}. Arguments PFreq {V}. Arguments PFreqs {V}.
Arguments PBool {V}. Arguments PDims {V}. Arguments PMeta {V}.
