(* Property C15: the accessors of vnadata_t that DataModel does not contain.  No proofs here.
     vnadata_alloc_and_init (inline, vnadata.h): vnadata_alloc, vnadata_init, on failure
       vnadata_free and NULL;
     vnadata_get_type_name (vnadata_get_type_name.c): the switch over the type code;
     the format of vnadata_set_format / vnadata_get_format / _vnadata_update_format_string and the
       way vnadata_convert carries it to a second object: the object holds the parsed format
       VECTOR (vdi_format_vector, vdi_format_count) and a cached STRING form of it
       (vdi_format_string); vnadata_get_format returns the string; vnadata_convert passes the
       string of the source to vnadata_set_format of the destination.  DataModel keeps one field
       `fmt` (the string, as an opaque token); this file models the two fields and
       AccessorsProofs shows that the string is a function of the last accepted argument alone,
       which is what DataModel's single field states.  A parsed specifier is an opaque token. *)
Require Import List ZArith Bool String.
Require Import LV.Data.DataModel LV.Data.ArraySpec.
Import ListNotations.
Local Open Scope string_scope.

(* ---------------------------------------------------------------- vnadata_get_type_name *)
Definition name_of (t : vpt) : string :=
  match t with
  | VUNDEF => "undefined" | VS => "S" | VT => "T" | VU => "U" | VZ => "Z" | VY => "Y" | VH => "H"
  | VG => "G" | VA => "A" | VB => "B" | VZIN => "Zin"
  end.
(* None = the NULL returned by the default branch *)
Definition type_name (tz : Z) : option string :=
  match vpt_of_Z tz with Some t => Some (name_of t) | None => None end.

(* ---------------------------------------------------------------- vnadata_alloc_and_init *)
Section AllocInit.
Variable V : Type.
Variables vzero vdef : V.

(* (Some object | None = NULL after vnadata_free, outcome of vnadata_init) *)
Definition alloc_and_init (tz r c f : Z) : option (vd V) * outcome V :=
  let '(d, x) := init V vzero vdef fixed (vd_alloc V vzero vdef) tz r c f in
  match o_ret V x with ROk => (Some d, x) | _ => (None, x) end.

(* what the manual promises: an object of the requested type and dimensions in which every
   frequency is 0, every cell 0, every reference impedance the default, ordinary z0 mode, default
   save options *)
Definition fresh_arr (t : vpt) (r c f : nat) : arr V :=
  mkarr V t r c f false (fun _ => 0%Z) (fun _ _ => vzero) (fun _ => vdef) (fun _ _ => vdef) 0 None 7 6.
End AllocInit.


(* ---------------------------------------------------------------- pointer getters and NULL *)
(* vnadata_get_frequency_vector, vnadata_get_matrix, vnadata_get_z0_vector and
   vnadata_get_fz0_vector return the library's internal pointer; it is NULL - the documented
   failure value - on a SUCCESSFUL call when the corresponding allocation is still 0 (a fresh
   object, or dimensions that never exceeded 0).  `ptr_null d o`: the pointer such a call returns
   is NULL.  (AccessorsProofs.null_pointer_only_when_empty: then there is nothing to read.) *)
Section Ptr.
Variable V : Type.
Definition ptr_null (d : vd V) (o : op V) : bool :=
  match o with
  | OGetFreqVec _ => Nat.eqb (f_alloc V d) 0
  | OGetMatrix _ _ => Nat.eqb (m_alloc V d) 0
  | OGetZ0Vec _ => Nat.eqb (p_alloc V d) 0
  | OGetFz0Vec _ _ => Nat.eqb (p_alloc V d) 0
  | _ => false
  end.

(* ---------------------------------------------------------------- fmin / fmax as the manual words them *)
(* vnadata(3): vnadata_get_fmin / vnadata_get_fmax return "the lowest and highest frequencies".
   The code (and ArraySpec.spec_step, which follows the code here) returns the FIRST and the LAST
   element of the frequency vector; the container accepts frequencies in any order. *)
Definition is_lowest (a : arr V) (x : Z) : Prop :=
  (exists i, i < a_freqs V a /\ a_fv V a i = x) /\ forall i, i < a_freqs V a -> (x <= a_fv V a i)%Z.
Definition is_highest (a : arr V) (x : Z) : Prop :=
  (exists i, i < a_freqs V a /\ a_fv V a i = x) /\ forall i, i < a_freqs V a -> (a_fv V a i <= x)%Z.
Definition ascending (a : arr V) : Prop :=
  forall i j, i <= j -> j < a_freqs V a -> (a_fv V a i <= a_fv V a j)%Z.
End Ptr.

(* ---------------------------------------------------------------- the format: vector and cached string *)
Section Format.
Variable tok : Type.

Record fstate := mkf { f_vec : list tok; f_str : option (list tok) }.
Definition f_new : fstate := mkf [] None.       (* vnadata_alloc *)

(* _vnadata_update_format_string after the vector has been replaced by v.  As coded: an empty
   vector gives the NULL string, and the old string is freed and replaced in both cases.
   stale = true is the variant in which the replacement happens only for a non-empty vector
   (the old string survives a clear); it is not the code, it is what the refutation is about. *)
Definition update_string (stale : bool) (s : fstate) (v : list tok) : fstate :=
  match v with
  | [] => mkf [] (if stale then f_str s else None)
  | _ => mkf v (Some v)
  end.

Fixpoint all_some (l : list (option tok)) : option (list tok) :=
  match l with
  | [] => Some []
  | Some t :: r => match all_some r with Some v => Some (t :: v) | None => None end
  | None :: _ => None
  end.

(* vnadata_set_format.  Argument: None = NULL (clear); Some l = a string whose comma-separated
   fields parse to the tokens l (None = invalid specifier).  A string always has at least one
   field; the empty string is one field that does not parse, hence Some [] fails like Some [None].
   Failure leaves the object unchanged. *)
Definition set_format_c (stale : bool) (s : fstate) (arg : option (list (option tok))) : fstate * bool :=
  match arg with
  | None => (update_string stale s [], true)
  | Some [] => (s, false)
  | Some l => match all_some l with
              | Some v => (update_string stale s v, true)
              | None => (s, false)
              end
  end.

Definition get_format_c (s : fstate) : option (list tok) := f_str s.

(* the set-up of vnadata_convert: vnadata_set_format(out, in->vdi_format_string); the string form
   of a vector re-parses to the same tokens *)
Definition carry_format (stale : bool) (src dst : fstate) : fstate * bool :=
  set_format_c stale dst (option_map (map (@Some tok)) (f_str src)).

(* any number of objects, set_format on one, conversion (carrying the format) from one into a
   different one *)
Inductive fop := FSet (i : nat) (arg : option (list (option tok))) | FCarry (src dst : nat).
Definition fput {A} (s : nat -> A) (i : nat) (x : A) : nat -> A := fun k => if Nat.eqb k i then x else s k.

Definition fstep (stale : bool) (s : nat -> fstate) (o : fop) : (nat -> fstate) * bool :=
  match o with
  | FSet i arg => let '(x, r) := set_format_c stale (s i) arg in (fput s i x, r)
  | FCarry a b => if Nat.eqb a b then (s, true)
                  else let '(x, r) := carry_format stale (s a) (s b) in (fput s b x, r)
  end.
Definition frun (stale : bool) (s : nat -> fstate) (l : list fop) : nat -> fstate :=
  fold_left (fun s o => fst (fstep stale s o)) l s.

(* the abstract view (DataModel's single field): the format of an object is the last accepted
   argument, None after a clear; conversion copies it *)
Definition norm_arg (arg : option (list (option tok))) : option (option (list tok)) :=
  match arg with
  | None => Some None
  | Some [] => None
  | Some l => match all_some l with Some v => Some (Some v) | None => None end
  end.
Definition astepf (s : nat -> option (list tok)) (o : fop) : (nat -> option (list tok)) * bool :=
  match o with
  | FSet i arg => match norm_arg arg with Some x => (fput s i x, true) | None => (s, false) end
  | FCarry a b => if Nat.eqb a b then (s, true) else (fput s b (s a), true)
  end.
Definition arunf (s : nat -> option (list tok)) (l : list fop) : nat -> option (list tok) :=
  fold_left (fun s o => fst (astepf s o)) l s.

End Format.
