(* Lemmas about the format-language model (FormatModel.v).  The property theorems are restated in
   Properties_C15f.v. *)
Require Import List NArith Bool Lia Arith Ascii String.
Import ListNotations.
Require Import LV.Files.NpdScan LV.Data.FormatModel.
Open Scope list_scope.
Open Scope N_scope.

(* ---- characters --------------------------------------------------------------------------- *)
Definition lowerletter (c : N) : Prop := 97 <= c <= 122.

Ltac nbool :=
  unfold lowerletter, nonspace, lower, bad_char, comma in *; unfold is_space, is_upper in *;
  repeat match goal with
         | H : context [N.leb ?a ?b] |- _ => destruct (N.leb_spec a b)
         | |- context [N.leb ?a ?b] => destruct (N.leb_spec a b)
         | H : context [N.ltb ?a ?b] |- _ => destruct (N.ltb_spec a b)
         | |- context [N.ltb ?a ?b] => destruct (N.ltb_spec a b)
         | H : context [N.eqb ?a ?b] |- _ => destruct (N.eqb_spec a b)
         | |- context [N.eqb ?a ?b] => destruct (N.eqb_spec a b)
         end; simpl in *; intros; try discriminate; try lia; auto.

Lemma bad_comma : forall sgn, bad_char sgn comma = false.
Proof. destruct sgn; reflexivity. Qed.

Lemma lower_not_comma : forall c, c <> comma -> (lower c =? comma) = false.
Proof. intros c H. destruct (N.eqb_spec (lower c) comma) as [E|E]; auto. exfalso. revert E. nbool. Qed.

Lemma lower_lower : forall c, lower (lower c) = lower c.
Proof. intro c. unfold lower at 1. destruct (is_upper (lower c)) eqn:E; auto. exfalso. revert E. nbool. Qed.

Lemma lower_letter_src : forall sgn c, lowerletter (lower c) ->
  bad_char sgn c = false /\ c <> comma /\ c <> 0 /\ is_space c = false.
Proof. intros sgn c H. destruct sgn; revert H; nbool. Qed.

Lemma space_ok : forall sgn c, is_space c = true -> bad_char sgn c = false /\ c <> comma /\ c <> 0.
Proof. intros sgn c H. destruct sgn; revert H; nbool. Qed.

(* ---- cstr ------------------------------------------------------------------------------------ *)
Lemma cstr_id : forall s, Forall (fun c => c <> 0) s -> cstr s = s.
Proof.
  induction 1 as [|c s H _ IH]; simpl; auto.
  destruct (N.eqb_spec c 0); [contradiction|]. now rewrite IH.
Qed.

Lemma cstr_nonzero : forall s, Forall (fun c => c <> 0) (cstr s).
Proof.
  induction s as [|c s IH]; simpl; [constructor|].
  destruct (N.eqb_spec c 0); constructor; auto.
Qed.

Lemma cstr_idem : forall s, cstr (cstr s) = cstr s.
Proof. intro s. apply cstr_id, cstr_nonzero. Qed.

Lemma cstr_length : forall s, (List.length (cstr s) <= List.length s)%nat.
Proof. induction s as [|c s IH]; simpl; auto. destruct (c =? 0); simpl; lia. Qed.

(* ---- the copy loop = split at the commas of the normalised string --------------------------- *)
Fixpoint split (s : list N) : list (list N) :=
  match s with
  | [] => [[]]
  | c :: t => if c =? comma then [] :: split t
              else match split t with f :: r => (c :: f) :: r | [] => [[c]] end
  end.

Lemma split_nonempty : forall s, split s <> [].
Proof. destruct s as [|c t]; simpl; [discriminate|]. destruct (c =? comma); [discriminate|]. destruct (split t); discriminate. Qed.

Lemma normal_app : forall a b, normal (a ++ b) = normal a ++ normal b.
Proof. intros. unfold normal. now rewrite filter_app, map_app. Qed.

Lemma normal_sp : forall c t, is_space c = true -> normal (c :: t) = normal t.
Proof. intros c t H. unfold normal. simpl. unfold nonspace at 1. now rewrite H. Qed.

Lemma normal_ns : forall c t, is_space c = false -> normal (c :: t) = lower c :: normal t.
Proof. intros c t H. unfold normal. simpl. unfold nonspace at 1. now rewrite H. Qed.

Lemma pass1_split : forall sgn s,
  pass1 sgn s = match find (bad_char sgn) s with Some c => inl c | None => inr (split (normal s)) end.
Proof.
  intros sgn. induction s as [|c t IH]; simpl; auto.
  destruct (bad_char sgn c) eqn:B; auto.
  rewrite IH. destruct (find (bad_char sgn) t); auto.
  destruct (is_space c) eqn:S; [now rewrite normal_sp|].
  rewrite normal_ns by exact S.
  destruct (N.eqb_spec c comma) as [E|E].
  - subst c. reflexivity.
  - simpl. rewrite (lower_not_comma c E). now destruct (split (normal t)).
Qed.

Lemma split_last : forall a, Forall (fun c => c <> comma) a -> split a = [a].
Proof.
  induction 1 as [|c a H _ IH]; simpl; auto.
  destruct (N.eqb_spec c comma); [contradiction|]. now rewrite IH.
Qed.

Lemma split_seg : forall a r, Forall (fun c => c <> comma) a -> split (a ++ comma :: r) = a :: split r.
Proof.
  induction 1 as [|c a H _ IH]; simpl.
  - reflexivity.
  - destruct (N.eqb_spec c comma); [contradiction|]. now rewrite IH.
Qed.

Lemma comma_cases : forall s,
  Forall (fun c => c <> comma) s \/
  exists a r, s = a ++ comma :: r /\ Forall (fun c => c <> comma) a.
Proof.
  induction s as [|c t IH].
  - left; constructor.
  - destruct (N.eq_dec c comma) as [E|E].
    + right. exists [], t. subst. split; [reflexivity|constructor].
    + destruct IH as [H|(a & r & -> & H)].
      * left; constructor; auto.
      * right. exists (c :: a), r. split; [reflexivity|constructor; auto].
Qed.

Lemma split_copy_length : forall t, List.length (copy_bytes (split t)) = S (List.length t).
Proof.
  unfold copy_bytes. induction t as [|c t IH]; simpl; auto.
  destruct (c =? comma); simpl.
  - now rewrite IH.
  - destruct (split t) as [|f r] eqn:E; [now apply split_nonempty in E|].
    simpl in *. rewrite app_length in *. simpl in *. lia.
Qed.

Lemma normal_length : forall s, (List.length (normal s) <= List.length s)%nat.
Proof.
  intro s. unfold normal. rewrite map_length. induction s as [|c t IH]; simpl; auto.
  destruct (nonspace c); simpl; lia.
Qed.

Lemma copy_fits_all : forall sgn s fs, pass1 sgn s = inr fs -> copy_fits s fs = true.
Proof.
  intros sgn s fs H. rewrite pass1_split in H. destruct (find (bad_char sgn) s); [discriminate|].
  injection H as <-. unfold copy_fits. apply Nat.leb_le. rewrite split_copy_length.
  pose proof (normal_length s). lia.
Qed.

(* ---- parse_format and the word grammar ---------------------------------------------------- *)
Lemma coord_up : forall b w fm, coord b w fm -> coord true w fm.
Proof. intros b w fm H. inversion H; subst; constructor; auto. Qed.

Lemma parse_format_complete : forall w e, code_word w e -> parse_format w = Some e.
Proof.
  intros w e H. inversion H as [c p b w' fm L C|w' fm C|w' e' S|w' fm C NE]; subst.
  - inversion L; subst; inversion C; subst; reflexivity.
  - inversion C; subst; try reflexivity. discriminate.
  - inversion S; subst; reflexivity.
  - inversion C; subst; try reflexivity. contradiction.
Qed.

Ltac word_done :=
  solve [ eapply cw_special; constructor
        | eapply cw_bare; [constructor; reflexivity | discriminate]
        | eapply cw_zin; constructor
        | eapply cw_mat; [constructor | constructor; reflexivity] ].

Ltac pf_step H :=
  first
  [ discriminate H
  | match type of H with
    | context [N.eqb ?c ?k] => is_var c; destruct (N.eqb_spec c k); [subst c|]; cbv -[N.eqb] in H
    | context [N.eqb ?k ?c] => is_var c; destruct (N.eqb_spec k c); [subst c|]; cbv -[N.eqb] in H
    | context [N.eqb ?a ?b] =>
      let v := eval vm_compute in (N.eqb a b) in change (N.eqb a b) with v in H; cbv -[N.eqb] in H
    | context [match ?l with [] => _ | _ :: _ => _ end] => is_var l; destruct l; cbv -[N.eqb] in H
    end ].

Lemma parse_format_sound : forall w e, parse_format w = Some e -> code_word w e.
Proof.
  intros w e H. destruct w as [|c r]; [discriminate|].
  cbv -[N.eqb] in H.
  repeat pf_step H;
    try (injection H as <-; word_done).
Qed.

Lemma code_word_letters : forall w e, code_word w e -> Forall lowerletter w.
Proof.
  intros w e H. unfold lowerletter.
  inversion H as [c p b w' fm L C|w' fm C|w' e' S|w' fm C NE]; subst.
  - inversion L; subst; inversion C; subst; repeat constructor; cbv; discriminate.
  - inversion C; subst; repeat constructor; cbv; discriminate.
  - inversion S; subst; repeat constructor; cbv; discriminate.
  - inversion C; subst; repeat constructor; cbv; discriminate.
Qed.

Lemma code_word_producible : forall w e, code_word w e -> producible e = true.
Proof.
  intros w e H.
  inversion H as [c p b w' fm L C|w' fm C|w' e' S|w' fm C NE]; subst.
  - inversion L; subst; inversion C; subst; reflexivity.
  - inversion C; subst; try reflexivity. discriminate.
  - inversion S; subst; reflexivity.
  - inversion C; subst; reflexivity.
Qed.

Lemma man_word_code : forall w e, man_word w e -> code_word w e.
Proof.
  intros w e H. inversion H; subst.
  - eapply cw_mat; eauto using coord_up.
  - now apply cw_zin.
  - now apply cw_special.
Qed.

Lemma man_word_entry : forall w e, man_word w e -> man_entry e = true.
Proof.
  intros w e H. inversion H as [c p b w' fm L C|w' fm C|w' e' S]; subst.
  - inversion L; subst; inversion C; subst; try reflexivity; discriminate.
  - inversion C; subst; try reflexivity. discriminate.
  - inversion S; subst; reflexivity.
Qed.

(* ---- normalisation and the characters of a specifier ------------------------------------------ *)
Lemma normal_letters_src : forall sgn s, Forall lowerletter (normal s) ->
  Forall (fun c => bad_char sgn c = false /\ c <> comma /\ c <> 0) s.
Proof.
  intros sgn. induction s as [|c t IH]; intro H; [constructor|].
  destruct (is_space c) eqn:S; [rewrite normal_sp in H by exact S|rewrite normal_ns in H by exact S].
  - constructor; [now apply space_ok | now apply IH].
  - inversion H; subst. constructor; [|now apply IH].
    destruct (lower_letter_src sgn c) as (A & B & C & _); auto.
Qed.

Lemma letters_no_space : forall w, Forall lowerletter (map lower w) -> filter nonspace w = w.
Proof.
  induction w as [|c t IH]; simpl; intro H; auto. inversion H; subst.
  destruct (lower_letter_src true c) as (_ & _ & _ & S); auto.
  unfold nonspace at 1. rewrite S. simpl. now rewrite IH.
Qed.

Lemma all_space_normal : forall l, all_space l -> normal l = [].
Proof.
  induction 1 as [|c l H _ IH]; auto. now rewrite normal_sp.
Qed.

Lemma man_spec_code : forall s e, man_spec s e -> code_spec s e.
Proof.
  intros s e (l & w & r & -> & Hl & Hr & Hw). unfold code_spec.
  rewrite !normal_app, (all_space_normal l Hl), (all_space_normal r Hr), app_nil_r. simpl.
  apply man_word_code in Hw. pose proof (code_word_letters _ _ Hw) as L.
  unfold normal. now rewrite (letters_no_space w L).
Qed.

Lemma spec_list_mono : forall (P Q : list N -> entry -> Prop), (forall s e, P s e -> Q s e) ->
  forall s ds, spec_list P s ds -> spec_list Q s ds.
Proof. intros P Q PQ s ds H. induction H; [apply sl_one | apply sl_cons]; auto. Qed.

Lemma man_list_code : forall s ds, man_list s ds -> code_list s ds.
Proof. apply spec_list_mono, man_spec_code. Qed.

Lemma man_list_entries : forall s ds, man_list s ds -> Forall (fun e => man_entry e = true) ds.
Proof.
  intros s ds H. induction H as [s e (l & w & r & _ & _ & _ & Hw)|s e r es (l & w & r' & _ & _ & _ & Hw) _ IH].
  - constructor; [eapply man_word_entry; eauto|constructor].
  - constructor; [eapply man_word_entry; eauto|auto].
Qed.

(* ---- grammar <-> parser ------------------------------------------------------------------------ *)
Lemma code_spec_chars : forall sgn s e, code_spec s e ->
  Forall (fun c => bad_char sgn c = false /\ c <> comma /\ c <> 0) s.
Proof. intros sgn s e H. apply normal_letters_src. eapply code_word_letters; eauto. Qed.

Lemma Forall_proj : forall (A : Type) (P Q : A -> Prop) l, (forall x, P x -> Q x) -> Forall P l -> Forall Q l.
Proof. intros A P Q l PQ H. induction H; constructor; auto. Qed.

Lemma find_none_of : forall sgn s, Forall (fun c => bad_char sgn c = false) s -> find (bad_char sgn) s = None.
Proof. induction 1 as [|c s H _ IH]; simpl; auto. now rewrite H. Qed.

Lemma find_none_all : forall sgn s, find (bad_char sgn) s = None -> Forall (fun c => bad_char sgn c = false) s.
Proof.
  induction s as [|c t IH]; simpl; intro H; [constructor|].
  destruct (bad_char sgn c) eqn:B; [discriminate|]. constructor; auto.
Qed.

Lemma code_list_chars : forall sgn s ds, code_list s ds ->
  Forall (fun c => bad_char sgn c = false) s /\ Forall (fun c => c <> 0) s.
Proof.
  intros sgn s ds H. induction H as [s e Hs|s e r es Hs _ [IH1 IH2]].
  - pose proof (code_spec_chars sgn s e Hs) as C. split; eapply Forall_proj; try apply C; simpl; tauto.
  - pose proof (code_spec_chars sgn s e Hs) as C. split; apply Forall_app; split.
    + eapply Forall_proj; try apply C; simpl; tauto.
    + constructor; [apply bad_comma | auto].
    + eapply Forall_proj; try apply C; simpl; tauto.
    + constructor; [discriminate | auto].
Qed.

(* the parser on a string without NUL, as split + parse_fields *)
Definition parse0 (sgn : bool) (t : list N) : pres :=
  match pass1 sgn t with
  | inl c => PErr (BadChar c)
  | inr fs => match parse_fields fs with inl f => PErr (BadSpec f) | inr ds => POk ds end
  end.

Lemma parse_parse0 : forall sgn s, parse sgn s = parse0 sgn (cstr s).
Proof. reflexivity. Qed.

Lemma code_list_parse0 : forall sgn s ds, code_list s ds -> parse0 sgn s = POk ds.
Proof.
  intros sgn s ds H. induction H as [s e Hs|s e r es Hs Hr IH].
  - pose proof (code_spec_chars sgn s e Hs) as C. unfold parse0. rewrite pass1_split.
    rewrite find_none_of by (eapply Forall_proj; try apply C; simpl; tauto).
    assert (NC : Forall (fun c => c <> comma) (normal s)).
    { eapply Forall_proj; [|eapply code_word_letters; apply Hs]. unfold lowerletter, comma. intros x Hx E. subst x. lia. }
    rewrite split_last by exact NC. simpl. now rewrite (parse_format_complete _ _ Hs).
  - pose proof (code_spec_chars sgn s e Hs) as C.
    destruct (code_list_chars sgn r es Hr) as [Rb _].
    unfold parse0 in *. rewrite pass1_split in *.
    rewrite find_none_of in IH by exact Rb.
    rewrite find_none_of.
    2:{ apply Forall_app; split; [eapply Forall_proj; try apply C; simpl; tauto|constructor; [apply bad_comma|exact Rb]]. }
    rewrite normal_app. change (normal (comma :: r)) with (comma :: normal r).
    assert (NC : Forall (fun c => c <> comma) (normal s)).
    { eapply Forall_proj; [|eapply code_word_letters; apply Hs]. unfold lowerletter, comma. intros x Hx E. subst x. lia. }
    rewrite split_seg by exact NC. simpl. rewrite (parse_format_complete _ _ Hs).
    destruct (parse_fields (split (normal r))); [discriminate|]. now injection IH as ->.
Qed.

Lemma normal_no_comma : forall a, Forall (fun c => c <> comma) a -> Forall (fun c => c <> comma) (normal a).
Proof.
  induction 1 as [|c a H _ IH]; [constructor|].
  destruct (is_space c) eqn:S; [now rewrite normal_sp|rewrite normal_ns by exact S]. constructor; auto.
  intro E. pose proof (lower_not_comma c H) as L. rewrite E in L. discriminate.
Qed.

Lemma parse0_code_list : forall sgn n t ds, (List.length t <= n)%nat -> parse0 sgn t = POk ds -> code_list t ds.
Proof.
  intros sgn. induction n as [|n IH]; intros t ds Hlen H.
  - destruct t; [|simpl in Hlen; lia]. vm_compute in H. discriminate.
  - unfold parse0 in H. rewrite pass1_split in H.
    destruct (find (bad_char sgn) t) eqn:F; [discriminate|].
    destruct (comma_cases t) as [NC|(a & r & -> & NC)].
    + rewrite split_last in H by (now apply normal_no_comma). simpl in H.
      destruct (parse_format (normal t)) eqn:P; [|discriminate]. injection H as <-.
      apply sl_one. now apply parse_format_sound.
    + rewrite normal_app in H. change (normal (comma :: r)) with (comma :: normal r) in H.
      rewrite split_seg in H by (now apply normal_no_comma). simpl in H.
      destruct (parse_format (normal a)) eqn:P; [|discriminate].
      destruct (parse_fields (split (normal r))) as [|es] eqn:R; [discriminate|]. injection H as <-.
      apply sl_cons; [now apply parse_format_sound|].
      apply IH.
      * rewrite app_length in Hlen. simpl in Hlen. lia.
      * unfold parse0. rewrite pass1_split.
        apply find_none_all in F. apply Forall_app in F. destruct F as [_ F]. inversion F; subst.
        rewrite find_none_of by assumption. now rewrite R.
Qed.

Lemma accepted_iff_code_grammar : forall sgn s ds, parse sgn s = POk ds <-> code_list (cstr s) ds.
Proof.
  intros. rewrite parse_parse0. split.
  - apply (parse0_code_list sgn (List.length (cstr s))). auto.
  - apply code_list_parse0.
Qed.

Lemma code_list_parse : forall sgn s ds, code_list s ds -> parse sgn s = POk ds.
Proof.
  intros sgn s ds H. rewrite parse_parse0. destruct (code_list_chars sgn s ds H) as [_ Z].
  rewrite cstr_id by exact Z. now apply code_list_parse0.
Qed.

Lemma manual_accepted : forall sgn s ds, man_list s ds -> parse sgn s = POk ds.
Proof. intros. now apply code_list_parse, man_list_code. Qed.

Lemma not_manual : forall sgn s ds, parse sgn s = POk ds -> existsb (fun e => negb (man_entry e)) ds = true ->
  forall ds', ~ man_list s ds'.
Proof.
  intros sgn s ds P E ds' M. pose proof (manual_accepted sgn _ _ M) as P'. rewrite P in P'. injection P' as <-.
  apply man_list_entries in M. apply existsb_exists in E. destruct E as (e & In_e & Ne).
  rewrite Forall_forall in M. rewrite (M e In_e) in Ne. discriminate.
Qed.

Definition zdb : list N := bs "ZdB".
Definition bare_db : list N := bs "dB".

Lemma accepted_not_in_manual_refuted : forall sgn,
  (exists ds, parse sgn zdb = POk ds /\ forall ds', ~ man_list zdb ds') /\
  (exists ds, parse sgn bare_db = POk ds /\ forall ds', ~ man_list bare_db ds').
Proof.
  intro sgn. split.
  - exists [Build_entry PZ DB]. split; [destruct sgn; reflexivity|].
    apply (not_manual sgn _ [Build_entry PZ DB]); [destruct sgn|]; reflexivity.
  - exists [Build_entry PUNDEF DB]. split; [destruct sgn; reflexivity|].
    apply (not_manual sgn _ [Build_entry PUNDEF DB]); [destruct sgn|]; reflexivity.
Qed.

(* ---- case and spacing: the parser factors through [normal] -------------------------------- *)
Lemma parse_factor : forall sgn s,
  parse sgn s = match find (bad_char sgn) (cstr s) with
                | Some c => PErr (BadChar c)
                | None => match parse_fields (split (normal (cstr s))) with
                          | inl f => PErr (BadSpec f) | inr ds => POk ds end
                end.
Proof. intros. unfold parse. rewrite pass1_split. now destruct (find (bad_char sgn) (cstr s)). Qed.

Lemma parse_insensitive : forall sgn s t,
  find (bad_char sgn) (cstr s) = None -> find (bad_char sgn) (cstr t) = None ->
  normal (cstr s) = normal (cstr t) -> parse sgn s = parse sgn t.
Proof. intros sgn s t A B E. rewrite !parse_factor, A, B, E. reflexivity. Qed.

(* ---- what the parser produces --------------------------------------------------------------- *)
Lemma parse_fields_ok : forall fs ds, parse_fields fs = inr ds ->
  List.length ds = List.length fs /\ Forall (fun e => producible e = true) ds.
Proof.
  induction fs as [|f r IH]; simpl; intros ds H.
  - injection H as <-. split; [reflexivity|constructor].
  - destruct (parse_format f) eqn:P; [|discriminate].
    destruct (parse_fields r) as [|es]; [discriminate|]. injection H as <-.
    destruct (IH es eq_refl) as [L F]. split; [simpl; now rewrite L|].
    constructor; auto. eapply code_word_producible, parse_format_sound; eauto.
Qed.

Lemma parse_ok_producible : forall sgn s ds, parse sgn s = POk ds ->
  ds <> [] /\ Forall (fun e => producible e = true) ds.
Proof.
  intros sgn s ds H. rewrite parse_factor in H.
  destruct (find (bad_char sgn) (cstr s)); [discriminate|].
  destruct (parse_fields (split (normal (cstr s)))) as [|es] eqn:P; [discriminate|]. injection H as <-.
  destruct (parse_fields_ok _ _ P) as [L F]. split; auto.
  intro E. subst es. simpl in L. symmetry in L. apply length_zero_iff_nil in L.
  now apply split_nonempty in L.
Qed.

(* ---- the printer ---------------------------------------------------------------------------- *)
Definition okc (sgn : bool) (c : N) : bool :=
  negb (bad_char sgn c) && negb (c =? comma) && negb (is_space c) && negb (c =? 0).

Lemma name_facts : forall sgn e, producible e = true ->
  exists n, name_of e = Some n /\ forallb (okc sgn) n = true /\ (List.length n <= MAX_FORMAT)%nat /\
            parse_format (map lower n) = Some e.
Proof.
  intros sgn [p f]. destruct sgn, p, f; try discriminate; intros _; eexists;
    (split; [reflexivity|]); (split; [reflexivity|]); (split; [vm_compute; lia|reflexivity]).
Qed.

Lemma okc_facts : forall sgn n, forallb (okc sgn) n = true ->
  normal n = map lower n /\ Forall (fun c => c <> comma) (map lower n) /\ Forall (fun c => c <> 0) n /\
  find (bad_char sgn) n = None.
Proof.
  intros sgn. induction n as [|c t IH]; simpl; intro H.
  - repeat split; constructor.
  - apply andb_true_iff in H. destruct H as [Hc Ht]. destruct (IH Ht) as (A & B & C & D).
    unfold okc in Hc. rewrite !andb_true_iff, !negb_true_iff in Hc. destruct Hc as [[[Hb Hk] Hs] Hz].
    rewrite normal_ns by exact Hs. rewrite A, Hb. repeat split; auto.
    + constructor; auto. apply N.eqb_neq in Hk. intro E. pose proof (lower_not_comma c Hk) as L. rewrite E in L. discriminate.
    + constructor; auto. now apply N.eqb_neq.
Qed.

Lemma find_app_none : forall (f : N -> bool) a b, find f a = None -> find f b = None -> find f (a ++ b) = None.
Proof. induction a as [|c a IH]; simpl; auto. intros b H. destruct (f c); [discriminate|auto]. Qed.

Lemma print_core : forall sgn ds, Forall (fun e => producible e = true) ds -> ds <> [] ->
  exists ns, names ds = Some ns /\ find (bad_char sgn) (join ns) = None /\
             parse_fields (split (normal (join ns))) = inr ds /\ Forall (fun c => c <> 0) (join ns) /\
             (List.length (join ns) + 1 <= string_alloc ds)%nat.
Proof.
  intros sgn. induction ds as [|e r IH]; intros F NE; [contradiction|].
  inversion F as [|? ? Pe Fr]; subst.
  destruct (name_facts sgn e Pe) as (n & Hn & Hok & Hlen & Hp).
  destruct (okc_facts sgn n Hok) as (A & B & C & D).
  unfold string_alloc, MAX_FORMAT in *.
  destruct r as [|e2 r'].
  - exists [n]. simpl. rewrite Hn. repeat split; auto.
    + rewrite A, split_last by exact B. simpl. now rewrite Hp.
    + lia.
  - destruct (IH Fr) as (ns' & Hns & Hf & Hpf & Hz & Hl); [discriminate|].
    exists (n :: ns'). change (names (e :: e2 :: r')) with
      (match name_of e, names (e2 :: r') with Some n, Some ns => Some (n :: ns) | _, _ => None end).
    rewrite Hn, Hns.
    assert (J : join (n :: ns') = n ++ comma :: join ns').
    { destruct ns' as [|n2 t]; [|reflexivity]. simpl in Hns. destruct (name_of e2); [|discriminate].
      destruct (names r'); discriminate. }
    rewrite J. repeat split; auto.
    + apply find_app_none; auto. simpl. now rewrite bad_comma.
    + rewrite normal_app. change (normal (comma :: join ns')) with (comma :: normal (join ns')).
      rewrite A, split_seg by exact B. simpl. now rewrite Hp, Hpf.
    + apply Forall_app; split; auto. constructor; [discriminate|auto].
    + rewrite app_length. simpl in *. lia.
Qed.

Lemma print_parse : forall sgn ds, Forall (fun e => producible e = true) ds -> ds <> [] ->
  exists b, print ds = PStr b /\ parse sgn b = POk ds.
Proof.
  intros sgn ds F NE. destruct (print_core sgn ds F NE) as (ns & Hns & Hf & Hp & Hz & _).
  exists (join ns). split.
  - unfold print. destruct ds; [contradiction|]. now rewrite Hns.
  - rewrite parse_factor, (cstr_id _ Hz), Hf, Hp. reflexivity.
Qed.

Lemma print_fits : forall ds b, Forall (fun e => producible e = true) ds -> print ds = PStr b ->
  (List.length b + 1 <= string_alloc ds)%nat.
Proof.
  intros ds b F H. destruct ds as [|e r]; [discriminate|].
  destruct (print_core true (e :: r) F) as (ns & Hns & _ & _ & _ & L); [discriminate|].
  unfold print in H. rewrite Hns in H. now injection H as <-.
Qed.

Lemma names_some : forall ds, Forall (fun e => producible e = true) ds -> exists ns, names ds = Some ns.
Proof.
  intros ds F. destruct ds as [|e r]; [now exists []|].
  destruct (print_core true (e :: r) F) as (ns & Hns & _); [discriminate|]. eauto.
Qed.

(* canonical spelling *)
Definition canon (sgn : bool) (s : list N) : option (list N) :=
  match parse sgn s with
  | POk ds => match print ds with PStr b => Some b | _ => None end
  | PErr _ => None
  end.

Lemma parse_print_canonical : forall sgn s ds, parse sgn s = POk ds ->
  exists b, print ds = PStr b /\ parse sgn b = POk ds /\ canon sgn s = Some b /\ canon sgn b = Some b.
Proof.
  intros sgn s ds H. destruct (parse_ok_producible sgn s ds H) as [NE F].
  destruct (print_parse sgn ds F NE) as (b & Hb & Hp). exists b. unfold canon. rewrite H, Hp, Hb. auto.
Qed.

Lemma canon_idem : forall sgn s b, canon sgn s = Some b -> canon sgn b = Some b.
Proof.
  intros sgn s b H. unfold canon in H. destruct (parse sgn s) as [ds|] eqn:P; [|discriminate].
  destruct (parse_print_canonical sgn s ds P) as (b' & Hb & _ & _ & Hc). rewrite Hb in H. now injection H as <-.
Qed.

Lemma canon_insensitive : forall sgn s t,
  find (bad_char sgn) (cstr s) = None -> find (bad_char sgn) (cstr t) = None ->
  normal (cstr s) = normal (cstr t) -> canon sgn s = canon sgn t.
Proof. intros. unfold canon. now rewrite (parse_insensitive sgn s t). Qed.

(* ---- the setters ------------------------------------------------------------------------------ *)
Lemma update_string_fail : forall fail k st st2, update_string fail k st = Some (false, st2) -> st2 = st.
Proof.
  intros fail k [v str] st2 H. unfold update_string in H. cbn [f_vec f_str] in H.
  destruct v; [discriminate|]. destruct (alloc_fails fail k); [now injection H as <-|].
  destruct (names (e :: v)); discriminate.
Qed.

Lemma install_refused : forall fail k st new why st', install fail k st new = Ret false why st' -> st' = st.
Proof.
  intros fail k [v str] new why st' H. unfold install in H. cbn [f_vec f_str] in H.
  destruct (update_string fail k {| f_vec := new; f_str := str |}) as [[[|] st2]|] eqn:U; try discriminate.
  apply update_string_fail in U. subst st2. now injection H as _ <-.
Qed.

Lemma set_format_refused : forall sgn fail st a why st',
  set_format sgn fail st a = Ret false why st' -> st' = st.
Proof.
  intros sgn fail st a why st' H. destruct a as [|s]; simpl in H.
  - eapply install_refused; eauto.
  - destruct (alloc_fails fail 0); [now injection H as _ <-|].
    destruct (pass1 sgn (cstr s)) as [c|fs]; [now injection H as _ <-|].
    destruct (alloc_fails fail 1); [now injection H as _ <-|].
    destruct (parse_fields fs) as [f|ds]; [now injection H as _ <-|].
    eapply install_refused; eauto.
Qed.

Lemma set_simple_refused : forall fail st p fm why st',
  set_simple_format fail st p fm = Ret false why st' -> st' = st.
Proof.
  intros fail st p fm why st' H. unfold set_simple_format in H.
  destruct (alloc_fails fail 0); [now injection H as _ <-|]. eapply install_refused; eauto.
Qed.

(* without an allocation failure the setter is the parser followed by the printer *)
Lemma set_format_spec : forall sgn st s,
  set_format sgn None st (AStr s) =
  match parse sgn s with
  | PErr r => Ret false (Some r) st
  | POk ds => match print ds with
              | PStr b => Ret true None {| f_vec := ds; f_str := Some b |}
              | PNull => Ret true None {| f_vec := []; f_str := None |}
              | PAbort => Abort
              end
  end.
Proof.
  intros sgn st s. unfold set_format, parse. simpl.
  destruct (pass1 sgn (cstr s)) as [c|fs]; auto.
  destruct (parse_fields fs) as [f|ds]; auto.
  unfold install, update_string, print. cbn [f_vec f_str]. destruct ds as [|e r]; auto.
  destruct (names (e :: r)); auto.
Qed.

Lemma set_format_null : forall sgn fail st, set_format sgn fail st ANull = Ret true None init_state.
Proof. reflexivity. Qed.

(* the state invariant: the string is the print of the vector, the vector is producible *)
Definition inv (st : fstate) : Prop :=
  match f_vec st with
  | [] => f_str st = None
  | v => Forall (fun e => producible e = true) v /\ exists ns, names v = Some ns /\ f_str st = Some (join ns)
  end.

Lemma inv_init : inv init_state.
Proof. reflexivity. Qed.

Lemma install_inv : forall fail k st new ok why st',
  inv st -> Forall (fun e => producible e = true) new ->
  install fail k st new = Ret ok why st' -> inv st'.
Proof.
  intros fail k st new ok why st' I F H. destruct ok; [|now rewrite (install_refused _ _ _ _ _ _ H)].
  unfold install, update_string in H. cbn [f_vec f_str] in H.
  destruct new as [|e r]; [injection H as _ <-; reflexivity|].
  destruct (alloc_fails fail k); [discriminate|].
  destruct (names (e :: r)) as [ns|] eqn:Nn; [|discriminate]. injection H as _ <-.
  unfold inv. simpl. split; auto. eauto.
Qed.

Lemma install_no_abort : forall fail k st new, Forall (fun e => producible e = true) new ->
  install fail k st new <> Abort.
Proof.
  intros fail k st new F. unfold install, update_string. cbn [f_vec f_str].
  destruct new as [|e r]; [discriminate|]. destruct (alloc_fails fail k); [discriminate|].
  destruct (names_some _ F) as (ns & ->). discriminate.
Qed.

Definition call_ok (c : call) : Prop :=
  match c with CSet _ _ => True | CSimple _ p fm => producible (Build_entry p fm) = true end.

Lemma do_call_cases : forall sgn st c, call_ok c ->
  exists fail k new, Forall (fun e => producible e = true) new /\
    (do_call sgn st c = install fail k st new \/ exists why, do_call sgn st c = Ret false (Some why) st).
Proof.
  intros sgn st c OK. destruct c as [fail a|fail p fm]; simpl in *.
  - destruct a as [|s]; simpl.
    + exists fail, 0%nat, []. split; [constructor|now left].
    + destruct (alloc_fails fail 0); [exists fail, 0%nat, []; split; [constructor|right; eauto]|].
      destruct (pass1 sgn (cstr s)) as [c|fs]; [exists fail, 0%nat, []; split; [constructor|right; eauto]|].
      destruct (alloc_fails fail 1); [exists fail, 0%nat, []; split; [constructor|right; eauto]|].
      destruct (parse_fields fs) as [f|ds] eqn:P; [exists fail, 0%nat, []; split; [constructor|right; eauto]|].
      exists fail, 2%nat, ds. split; [apply (parse_fields_ok _ _ P)|now left].
  - unfold set_simple_format. destruct (alloc_fails fail 0).
    + exists fail, 0%nat, []. split; [constructor|right; eauto].
    + exists fail, 1%nat, [Build_entry p fm]. split; [repeat constructor; auto|now left].
Qed.

Lemma do_call_no_abort : forall sgn st c, call_ok c -> do_call sgn st c <> Abort.
Proof.
  intros sgn st c OK. destruct (do_call_cases sgn st c OK) as (fail & k & new & F & [E|[why E]]); rewrite E.
  - now apply install_no_abort.
  - discriminate.
Qed.

Lemma do_call_inv : forall sgn st c ok why st', call_ok c -> inv st -> do_call sgn st c = Ret ok why st' -> inv st'.
Proof.
  intros sgn st c ok why st' OK I H.
  destruct (do_call_cases sgn st c OK) as (fail & k & new & F & [E|[w E]]); rewrite E in H.
  - eapply install_inv; eauto.
  - now injection H as _ _ <-.
Qed.

Lemma do_call_refused : forall sgn st c why st', do_call sgn st c = Ret false why st' -> st' = st.
Proof.
  intros sgn st [fail a|fail p fm] why st' H; simpl in H.
  - eapply set_format_refused; eauto.
  - eapply set_simple_refused; eauto.
Qed.

(* every history of calls: never abort(), the invariant holds at the end *)
Lemma history_inv : forall sgn cs st, Forall call_ok cs -> inv st ->
  exists st', run_calls sgn st cs = Some st' /\ inv st'.
Proof.
  intros sgn. induction cs as [|c r IH]; intros st F I; simpl.
  - eauto.
  - inversion F as [|? ? OK Fr]; subst.
    destruct (do_call sgn st c) as [|ok why st1] eqn:D; [now apply do_call_no_abort in D|].
    apply IH; auto. eapply do_call_inv; eauto.
Qed.

(* vnadata_get_format of a state that satisfies the invariant denotes the vector *)
Lemma get_denotes : forall sgn st, inv st ->
  match f_vec st with
  | [] => get_format st = None
  | v => exists b, get_format st = Some b /\ parse sgn b = POk v /\ print v = PStr b
  end.
Proof.
  intros sgn [v str] I. unfold inv, get_format in *. cbn [f_vec f_str] in *.
  destruct v as [|e r]; auto. destruct I as (F & ns & Hn & ->).
  destruct (print_parse sgn (e :: r) F) as (b & Hb & Hp); [discriminate|].
  unfold print in Hb. rewrite Hn in Hb. injection Hb as <-.
  exists (join ns). repeat split; auto. unfold print. now rewrite Hn.
Qed.

(* the descriptors the saver walks: after the untyped ones took the type of the object they are
   entries in the sense of NpdScan.wf_entry (C06) *)
Lemma producible_resolved_wf : forall e t, producible e = true -> is_matrix t = true ->
  wf_entry (Build_entry (match e_par e with PUNDEF => t | p => p end) (e_form e)) = true.
Proof. intros [p f] t. destruct p, f, t; simpl; intros; try discriminate; reflexivity. Qed.
