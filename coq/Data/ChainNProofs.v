(* Property C05, convert_chain with the n-port functions interpreted by their own LU model
   (Data/ChainNModel.convn_interp) instead of being identified with the two-port functions:
   (1) the 2 x 2 chain theorem composed with the n = 2 equalities of Conv/ConvN2.v
       (Properties_C04n.c04_stozn_eq_stoz ...), which brings one pivot hypothesis per n-port call;
   (2) the round trip X -> Y -> X and the chain X -> Y -> Zin against X -> Zin on 2 x 2 objects. *)
Require Import List ZArith Bool Lia.
Require Import LV.Base.CField LV.Lin.MatL LV.Lin.LuModel LV.Conv.ConvN LV.Conv.ConvRel LV.Conv.ConvTac
               LV.Gen.Conv2All LV.Conv.ConvThm LV.Conv.ConvN2.
Require Import LV.Gen.Conv2_s LV.Gen.Conv2_z LV.Gen.Conv2_y LV.Gen.Conv2_zi.
Require Import LV.Data.DataModel LV.Data.ArraySpec LV.Data.DataProofs LV.Data.RefineProofs
               LV.Data.ConvertModel LV.Data.ConvertRefine LV.Data.ConvertTheorems
               LV.Data.TwoObjModel LV.Data.TwoObjProofs LV.Data.ChainModel LV.Data.ChainProofs
               LV.Data.ChainNModel LV.Data.ChainLift.
Import ListNotations.

Lemma conv_spec_fn X Y cs :
  conv_spec (vpt_of_pt X) (vpt_of_pt Y) = Some cs -> X <> Y ->
  cs_fn cs = (if is_nport (vpt_of_pt X) && is_nport (vpt_of_pt Y)
              then FN (vpt_of_pt X) (vpt_of_pt Y) else F2 (vpt_of_pt X) (vpt_of_pt Y)).
Proof.
  intros E H. destruct X, Y; try (contradiction H; reflexivity); vm_compute in E; injection E as <-; reflexivity.
Qed.

Lemma ptype_eq_dec (a b : ptype) : {a = b} + {a <> b}.
Proof. decide equality. Defined.

Section ChainNProofs.
Variable K : CField.
Variable M : Type.
Variables (nrm2 : K -> M) (mulM : M -> M -> M) (zeroM : M) (scale_of_max : M -> M).
Variable swap : bool.           (* the pivot order of the LU model at n = 2 *)
Variable zd : K.
Notation V := (F K).
Notation vzero := (@c0 K).
Variable vdef : V.

Notation cv2 := (conv2_interp K zd).
Notation cvN := (convn_interp K M nrm2 mulM (fun _ _ => swap) zeroM scale_of_max zd).
Notation arr := (arr V).
Notation vd := (vd V).
Notation Inv := (Inv V vzero vdef).
Notation abs := (ArraySpec.abs V).
Notation arr_eq := (ArraySpec.arr_eq V).
Notation spec_conv_arr := (spec_conv_arr V vzero vdef).
Notation mat := (ChainProofs.mat K).
Notation zr := (ChainProofs.zr K).
Notation pivot_ok := (pivot_ok K swap).

(* the n-port model at n = 2 on a flattened 2 x 2 matrix = the two-port function, under the
   singular-set and pivot hypotheses of Conv/ConvN2.v *)
Lemma calln_value X Y f (m : m2 K) (z1 z2 : K) (zl : list K) :
  char_ok K -> z0_ok z1 -> z0_ok z2 ->
  is_nport (vpt_of_pt X) && is_nport (vpt_of_pt Y) = true -> X <> Y ->
  conv2 K X Y = Some f -> conv2_ok K X Y m z1 z2 -> pivot_ok X Y m z1 z2 ->
  (if negb (Bool.eqb (is_power (vpt_of_pt X)) (is_power (vpt_of_pt Y))) then zl = [z1; z2] else zl = []) ->
  calln K M nrm2 mulM (fun _ _ => swap) zeroM scale_of_max (vpt_of_pt X) (vpt_of_pt Y) 2 (list_of_m2 K m) zl =
  list_of_m2 K (f m z1 z2).
Proof.
  intros H2 Hz1 Hz2 N Hxy Ef Hok Hp Hzl.
  destruct m as [a b c d].
  destruct X, Y; try discriminate N; try (contradiction Hxy; reflexivity);
    cbn in Ef; injection Ef as <-; cbn in Hzl; subst zl; cbn [calln vpt_of_pt];
    change (reshape K 2 (list_of_m2 K (M2 a b c d))) with (mat_of K (M2 a b c d)).
  - rewrite (stozn2 K M nrm2 mulM zeroM scale_of_max swap (M2 a b c d) z1 z2 H2 Hz1 Hz2 Hok Hp). reflexivity.
  - rewrite (stoyn2 K M nrm2 mulM zeroM scale_of_max swap (M2 a b c d) z1 z2 H2 Hz1 Hz2 Hok Hp). reflexivity.
  - rewrite (ztosn2 K M nrm2 mulM zeroM scale_of_max swap (M2 a b c d) z1 z2 H2 Hz1 Hz2 Hok Hp). reflexivity.
  - rewrite (ztoyn2 K M nrm2 mulM zeroM scale_of_max swap (M2 a b c d) z1 z2 H2 Hz1 Hz2 Hok Hp). reflexivity.
  - rewrite (ytosn2 K M nrm2 mulM zeroM scale_of_max swap (M2 a b c d) z1 z2 H2 Hz1 Hz2 Hok Hp). reflexivity.
  - rewrite (ytozn2 K M nrm2 mulM zeroM scale_of_max swap (M2 a b c d) z1 z2 H2 Hz1 Hz2 Hok Hp). reflexivity.
Qed.

Definition zlist (a : arr) (cs : convsel) (i : nat) : list K :=
  if cs_z0 cs then map (a_z0_row V a i) (seq 0 (a_rows V a)) else [].

(* the value of the call made for frequency i of a 2 x 2 array, under either interpretation *)
Lemma conv2_call_value (a : arr) X Y cs f i :
  a_rows V a = 2 -> conv_spec (vpt_of_pt X) (vpt_of_pt Y) = Some cs -> X <> Y -> conv2 K X Y = Some f ->
  cv2 (cs_fn cs) (a_rows V a) (map (a_dat V a i) (seq 0 (a_rows V a * a_rows V a))) (zlist a cs i) =
  list_of_m2 K (f (mat a i) (zr a i 0) (zr a i 1)).
Proof.
  intros R Hs Hxy Ef. unfold zlist. rewrite R.
  destruct (conv_spec_matrix X Y Hxy) as (cs' & Hs' & Hk & Hf & Hz & _).
  rewrite Hs in Hs'. injection Hs' as <-.
  assert (C : forall m z0, cv2 (cs_fn cs) 2 m z0 = call2 K zd (vpt_of_pt X) (vpt_of_pt Y) m z0).
  { intros m z0. destruct Hf as [-> | ->]; reflexivity. }
  rewrite C. unfold call2. rewrite !pt_of_vpt_of_pt, Ef. f_equal.
  change (map (a_dat V a i) (seq 0 (2 * 2))) with [a_dat V a i 0; a_dat V a i 1; a_dat V a i 2; a_dat V a i 3].
  change (m2_of_list K [a_dat V a i 0; a_dat V a i 1; a_dat V a i 2; a_dat V a i 3]) with (mat a i).
  destruct (cs_z0 cs) eqn:Z.
  - reflexivity.
  - apply (conv2_noz0_indep K X Y f Ef).
    destruct (is_power (vpt_of_pt X)), (is_power (vpt_of_pt Y)); try reflexivity; discriminate Hz.
Qed.

Lemma convN_call_value (a : arr) X Y cs f i :
  char_ok K -> a_rows V a = 2 -> conv_spec (vpt_of_pt X) (vpt_of_pt Y) = Some cs -> X <> Y -> conv2 K X Y = Some f ->
  z0_ok (zr a i 0) -> z0_ok (zr a i 1) -> conv2_ok K X Y (mat a i) (zr a i 0) (zr a i 1) ->
  pivot_ok X Y (mat a i) (zr a i 0) (zr a i 1) ->
  cvN (cs_fn cs) (a_rows V a) (map (a_dat V a i) (seq 0 (a_rows V a * a_rows V a))) (zlist a cs i) =
  list_of_m2 K (f (mat a i) (zr a i 0) (zr a i 1)).
Proof.
  intros H2 R Hs Hxy Ef Hz1 Hz2 Hok Hp.
  pose proof (conv_spec_fn X Y cs Hs Hxy) as Hf.
  destruct (is_nport (vpt_of_pt X) && is_nport (vpt_of_pt Y)) eqn:N.
  - destruct (conv_spec_matrix X Y Hxy) as (cs' & Hs' & _ & _ & Hz & _).
    rewrite Hs in Hs'. injection Hs' as <-.
    unfold zlist. rewrite Hf, R. cbn [convn_interp].
    change (map (a_dat V a i) (seq 0 (2 * 2))) with (list_of_m2 K (mat a i)).
    apply (calln_value X Y f (mat a i) (zr a i 0) (zr a i 1)); try assumption.
    rewrite Hz. destruct (negb (Bool.eqb (is_power (vpt_of_pt X)) (is_power (vpt_of_pt Y)))); reflexivity.
  - rewrite <- (conv2_call_value a X Y cs f i R Hs Hxy Ef). rewrite Hf, R. reflexivity.
Qed.

(* hence the two interpretations give the same converted array *)
Definition pivots_ok (a : arr) (X Y : ptype) : Prop :=
  forall i, i < a_freqs V a ->
    z0_ok (zr a i 0) /\ z0_ok (zr a i 1) /\ conv2_ok K X Y (mat a i) (zr a i 0) (zr a i 1) /\
    pivot_ok X Y (mat a i) (zr a i 0) (zr a i 1).

Lemma spec_conv_arr_N2 (a : arr) X Y cs :
  char_ok K -> a_rows V a = 2 -> conv_spec (vpt_of_pt X) (vpt_of_pt Y) = Some cs -> X <> Y ->
  pivots_ok a X Y ->
  spec_conv_arr cvN a (vpt_of_pt Y) cs = spec_conv_arr cv2 a (vpt_of_pt Y) cs.
Proof.
  intros H2 R Hs Hxy Hp. destruct (conv2_defined K X Y Hxy) as [f Ef].
  apply spec_conv_arr_agree. intros i Hi. destruct (Hp i Hi) as (Hz1 & Hz2 & Hok & Hpv).
  change (if cs_z0 cs then map (a_z0_row V a i) (seq 0 (a_rows V a)) else []) with (zlist a cs i).
  rewrite (convN_call_value a X Y cs f i H2 R Hs Hxy Ef Hz1 Hz2 Hok Hpv).
  rewrite (conv2_call_value a X Y cs f i R Hs Hxy Ef). reflexivity.
Qed.

(* (1) the chain theorem with the n-port functions as modelled: the hypotheses of
   ChainProofs.convert_chain plus, per frequency, the pivot hypothesis of every call *)
Definition chainN_ok (a : arr) (X Y Z : ptype) : Prop :=
  chain_ok K a X Y Z /\
  forall i, i < a_freqs V a ->
    pivot_ok X Y (mat a i) (zr a i 0) (zr a i 1) /\ pivot_ok X Z (mat a i) (zr a i 0) (zr a i 1) /\
    forall f, conv2 K X Y = Some f -> pivot_ok Y Z (f (mat a i) (zr a i 0) (zr a i 1)) (zr a i 0) (zr a i 1).

Lemma spec_chain_N (a : arr) X Y Z cs1 cs2 cs3 :
  char_ok K -> a_rows V a = 2 -> a_cols V a = 2 -> X <> Y -> Y <> Z -> X <> Z ->
  conv_spec (vpt_of_pt X) (vpt_of_pt Y) = Some cs1 ->
  conv_spec (vpt_of_pt Y) (vpt_of_pt Z) = Some cs2 ->
  conv_spec (vpt_of_pt X) (vpt_of_pt Z) = Some cs3 ->
  chainN_ok a X Y Z ->
  arr_eq (spec_conv_arr cvN (spec_conv_arr cvN a (vpt_of_pt Y) cs1) (vpt_of_pt Z) cs2)
         (spec_conv_arr cvN a (vpt_of_pt Z) cs3).
Proof.
  intros H2 R C Hxy Hyz Hxz Hs1 Hs2 Hs3 [Hok Hpv].
  destruct (conv2_defined K X Y Hxy) as [f Ef].
  assert (P1 : pivots_ok a X Y).
  { intros i Hi. destruct (Hok i Hi) as (A1 & A2 & A3 & _). destruct (Hpv i Hi) as (B1 & _).
    split; [exact A1|]. split; [exact A2|]. split; [exact A3|exact B1]. }
  assert (P3 : pivots_ok a X Z).
  { intros i Hi. destruct (Hok i Hi) as (A1 & A2 & _ & A4 & _). destruct (Hpv i Hi) as (_ & B2 & _).
    split; [exact A1|]. split; [exact A2|]. split; [exact A4|exact B2]. }
  rewrite (spec_conv_arr_N2 a X Y cs1 H2 R Hs1 Hxy P1).
  rewrite (spec_conv_arr_N2 a X Z cs3 H2 R Hs3 Hxz P3).
  set (a1 := spec_conv_arr cv2 a (vpt_of_pt Y) cs1).
  destruct (conv_spec_matrix X Y Hxy) as (c1 & E1 & K1 & _). rewrite Hs1 in E1. injection E1 as <-.
  assert (R1 : a_rows V a1 = 2).
  { unfold a1, TwoObjModel.spec_conv_arr, arr_out_rows. cbn [a_rows]. rewrite K1. exact R. }
  assert (Z1 : forall i p, zr a1 i p = zr a i p).
  { intros i p. unfold ChainProofs.zr, a_z0_row, a1, TwoObjModel.spec_conv_arr. cbn [a_z0 a_fz0 a_perf].
    destruct (a_perf V a); reflexivity. }
  assert (M1 : forall i, i < a_freqs V a -> mat a1 i = f (mat a i) (zr a i 0) (zr a i 1)).
  { intros i Hi. unfold ChainProofs.mat at 1. unfold a1, TwoObjModel.spec_conv_arr. cbn [a_dat].
    unfold arr_conv_dat, arr_conv_len. rewrite K1, R.
    rewrite (results_at K zd a X Y cs1 f i R Hs1 Hxy Ef Hi).
    destruct (Nat.ltb_spec i (a_freqs V a)) as [_|]; [|lia].
    cbn [andb Nat.ltb Nat.leb Nat.mul Nat.add list_of_m2 nth]. apply m2_eta. }
  assert (P2 : pivots_ok a1 Y Z).
  { intros i Hi. change (a_freqs V a1) with (a_freqs V a) in Hi.
    destruct (Hok i Hi) as (A1 & A2 & _ & _ & A5). destruct (Hpv i Hi) as (_ & _ & B3).
    rewrite !Z1, (M1 i Hi). split; [exact A1|]. split; [exact A2|]. split; [apply A5|apply B3]; exact Ef. }
  rewrite (spec_conv_arr_N2 a1 Y Z cs2 H2 R1 Hs2 Hyz P2).
  apply (spec_chain K zd vdef a X Y Z cs1 cs2 cs3); assumption.
Qed.

Theorem convert_chain_composed (d o1 o2 o3 : vd) (s1 s2 s3 : bool) X Y Z :
  char_ok K -> Inv d -> Inv o1 -> Inv o2 -> Inv o3 ->
  ty V d = vpt_of_pt X -> rows V d = 2 -> cols V d = 2 ->
  X <> Y -> Y <> Z -> X <> Z ->
  chainN_ok (abs d) X Y Z ->
  let cv := convert V vzero vdef fixed true cvN in
  let rb := cv d o1 s1 (vpt_code (vpt_of_pt Y)) in
  let rc := cv (fst rb) o2 s2 (vpt_code (vpt_of_pt Z)) in
  let rd := cv d o3 s3 (vpt_code (vpt_of_pt Z)) in
  snd rb = ok V /\ snd rc = ok V /\ snd rd = ok V /\ arr_eq (abs (fst rc)) (abs (fst rd)).
Proof.
  intros H2 HI H1 HO2 HO3 Ht R C Hxy Hyz Hxz Hok.
  destruct (conv_spec_matrix X Y Hxy) as (cs1 & Hs1 & K1 & _ & _ & D1).
  destruct (conv_spec_matrix Y Z Hyz) as (cs2 & Hs2 & _ & _ & _ & D2).
  destruct (conv_spec_matrix X Z Hxz) as (cs3 & Hs3 & _ & _ & _ & D3).
  apply (chain_lift V vzero vdef cvN d o1 o2 o3 s1 s2 s3 (vpt_of_pt Y) (vpt_of_pt Z) cs1 cs2 cs3);
    try assumption.
  - rewrite Ht. exact Hs1.
  - rewrite R, C. exact D1.
  - unfold out_rows, out_cols. rewrite K1, R, C. exact D2.
  - rewrite Ht. exact Hs3.
  - rewrite R, C. exact D3.
  - apply (spec_chain_N (abs d) X Y Z cs1 cs2 cs3); assumption.
Qed.

(* ---------------------------------------------------------------- (2a) round trip X -> Y -> X *)
Lemma inner_zr (cv : fname -> nat -> list V -> list V -> list V) (a : arr) nt cs i p :
  zr (spec_conv_arr cv a nt cs) i p = zr a i p.
Proof.
  unfold ChainProofs.zr, a_z0_row, TwoObjModel.spec_conv_arr. cbn [a_z0 a_fz0 a_perf].
  destruct (a_perf V a); reflexivity.
Qed.

Lemma inner_mat (a : arr) X Y cs f i :
  a_rows V a = 2 -> conv_spec (vpt_of_pt X) (vpt_of_pt Y) = Some cs -> X <> Y -> conv2 K X Y = Some f ->
  i < a_freqs V a ->
  mat (spec_conv_arr cv2 a (vpt_of_pt Y) cs) i = f (mat a i) (zr a i 0) (zr a i 1).
Proof.
  intros R Hs Hxy Ef Hi.
  destruct (conv_spec_matrix X Y Hxy) as (c1 & E1 & K1 & _). rewrite Hs in E1. injection E1 as <-.
  unfold ChainProofs.mat at 1. unfold TwoObjModel.spec_conv_arr. cbn [a_dat].
  unfold arr_conv_dat, arr_conv_len. rewrite K1, R.
  rewrite (results_at K zd a X Y cs f i R Hs Hxy Ef Hi).
  destruct (Nat.ltb_spec i (a_freqs V a)) as [_|]; [|lia].
  cbn [andb Nat.ltb Nat.leb Nat.mul Nat.add list_of_m2 nth]. apply m2_eta.
Qed.

Definition roundtrip_ok (a : arr) (X Y : ptype) : Prop :=
  forall i, i < a_freqs V a ->
    z0_ok (zr a i 0) /\ z0_ok (zr a i 1) /\ conv2_ok K X Y (mat a i) (zr a i 0) (zr a i 1) /\
    pivot_ok X Y (mat a i) (zr a i 0) (zr a i 1) /\
    forall f, conv2 K X Y = Some f ->
      conv2_ok K Y X (f (mat a i) (zr a i 0) (zr a i 1)) (zr a i 0) (zr a i 1) /\
      pivot_ok Y X (f (mat a i) (zr a i 0) (zr a i 1)) (zr a i 0) (zr a i 1).

Lemma spec_roundtrip_N (a : arr) X Y cs1 cs2 :
  char_ok K -> a_rows V a = 2 -> a_cols V a = 2 -> a_ty V a = vpt_of_pt X -> X <> Y ->
  conv_spec (vpt_of_pt X) (vpt_of_pt Y) = Some cs1 ->
  conv_spec (vpt_of_pt Y) (vpt_of_pt X) = Some cs2 ->
  (forall i j, a_freqs V a <= i \/ 4 <= j -> a_dat V a i j = vzero) ->
  roundtrip_ok a X Y ->
  arr_eq (spec_conv_arr cvN (spec_conv_arr cvN a (vpt_of_pt Y) cs1) (vpt_of_pt X) cs2) a.
Proof.
  intros H2 R C Ht Hxy Hs1 Hs2 Hclean Hok.
  assert (Hyx : Y <> X) by (intros E; apply Hxy; symmetry; exact E).
  destruct (conv2_defined K X Y Hxy) as [f Ef]. destruct (conv2_defined K Y X Hyx) as [g Eg].
  assert (P1 : pivots_ok a X Y).
  { intros i Hi. destruct (Hok i Hi) as (A1 & A2 & A3 & A4 & _).
    split; [exact A1|]. split; [exact A2|]. split; [exact A3|exact A4]. }
  rewrite (spec_conv_arr_N2 a X Y cs1 H2 R Hs1 Hxy P1).
  set (a1 := spec_conv_arr cv2 a (vpt_of_pt Y) cs1).
  destruct (conv_spec_matrix X Y Hxy) as (c1 & E1 & K1 & _). rewrite Hs1 in E1. injection E1 as <-.
  destruct (conv_spec_matrix Y X Hyx) as (c2 & E2 & K2 & _). rewrite Hs2 in E2. injection E2 as <-.
  assert (R1 : a_rows V a1 = 2).
  { unfold a1, TwoObjModel.spec_conv_arr, arr_out_rows. cbn [a_rows]. rewrite K1. exact R. }
  assert (C1 : a_cols V a1 = 2).
  { unfold a1, TwoObjModel.spec_conv_arr, arr_out_cols. cbn [a_cols]. rewrite K1. exact C. }
  assert (P2 : pivots_ok a1 Y X).
  { intros i Hi. change (a_freqs V a1) with (a_freqs V a) in Hi.
    destruct (Hok i Hi) as (A1 & A2 & _ & _ & A5). destruct (A5 f Ef) as [B1 B2].
    unfold a1. rewrite !inner_zr, (inner_mat a X Y cs1 f i R Hs1 Hxy Ef Hi).
    split; [exact A1|]. split; [exact A2|]. split; [exact B1|exact B2]. }
  rewrite (spec_conv_arr_N2 a1 Y X cs2 H2 R1 Hs2 Hyx P2).
  assert (D : forall i j, arr_conv_dat V vzero cv2 a1 cs2 i j = a_dat V a i j).
  { intros i j. unfold arr_conv_dat, arr_conv_len. rewrite K2, R1.
    change (a_freqs V a1) with (a_freqs V a).
    destruct (Nat.ltb_spec i (a_freqs V a)) as [Hi|Hi]; [|symmetry; apply Hclean; left; exact Hi]. cbn [andb].
    destruct (Nat.ltb_spec j (2 * 2)) as [Hj|Hj]; [|symmetry; apply Hclean; right; exact Hj].
    rewrite (results_at K zd a1 Y X cs2 g i R1 Hs2 Hyx Eg Hi).
    unfold a1 at 1 2 3. rewrite !inner_zr, (inner_mat a X Y cs1 f i R Hs1 Hxy Ef Hi).
    destruct (Hok i Hi) as (A1 & A2 & A3 & _ & A5). destruct (A5 f Ef) as [B1 _].
    rewrite (conv2_roundtrip K (zr a i 0) (zr a i 1) H2 A1 A2 X Y f g (mat a i) Ef Eg A3 B1).
    destruct j as [|[|[|[|j]]]]; try reflexivity. cbn in Hj. lia. }
  unfold ArraySpec.arr_eq, TwoObjModel.spec_conv_arr.
  cbn [a_ty a_rows a_cols a_freqs a_perf a_fv a_dat a_z0 a_fz0 a_ftype a_fmt a_fprec a_dprec].
  unfold arr_out_rows, arr_out_cols. rewrite K2, R1, C1, R, C, Ht.
  repeat split; try reflexivity.
  - exact D.
  - intros P j. change (a_perf V a1) with (a_perf V a) in P |- *. rewrite P.
    unfold a1, TwoObjModel.spec_conv_arr. cbn [a_z0 a_perf]. rewrite P. reflexivity.
Qed.

(* X -> Y -> X on vnadata objects: both calls succeed and the object has its original logical
   contents (type, dimensions, frequencies, every cell, z0 mode, impedances, options) *)
Theorem convert_roundtrip (d o1 o2 : vd) (s1 s2 : bool) X Y :
  char_ok K -> Inv d -> Inv o1 -> Inv o2 ->
  ty V d = vpt_of_pt X -> rows V d = 2 -> cols V d = 2 -> X <> Y ->
  roundtrip_ok (abs d) X Y ->
  let cv := convert V vzero vdef fixed true cvN in
  let rb := cv d o1 s1 (vpt_code (vpt_of_pt Y)) in
  let rc := cv (fst rb) o2 s2 (vpt_code (vpt_of_pt X)) in
  snd rb = ok V /\ snd rc = ok V /\ arr_eq (abs (fst rc)) (abs d).
Proof.
  intros H2 HI H1 HO2 Ht R C Hxy Hok.
  assert (Hyx : Y <> X) by (intros E; apply Hxy; symmetry; exact E).
  destruct (conv_spec_matrix X Y Hxy) as (cs1 & Hs1 & K1 & _ & _ & D1).
  destruct (conv_spec_matrix Y X Hyx) as (cs2 & Hs2 & _ & _ & _ & D2).
  apply (roundtrip_lift V vzero vdef cvN d o1 o2 s1 s2 (vpt_of_pt Y) (vpt_of_pt X) cs1 cs2); try assumption.
  - rewrite Ht. exact Hs1.
  - rewrite R, C. exact D1.
  - unfold out_rows, out_cols. rewrite K1, R, C. exact D2.
  - apply (spec_roundtrip_N (abs d) X Y cs1 cs2); try assumption.
    destruct HI as (_ & _ & _ & (_ & Hc & _) & _). intros i j Hij. apply Hc.
    unfold cells. rewrite R, C. exact Hij.
Qed.

(* ---------------------------------------------------------------- (2b) X -> Y -> Zin against X -> Zin *)
Add Field Kfc : (cth K).
Local Open Scope cf_scope.

Lemma mul_cancel_r (x y c : K) : c <> 0 -> x * c = y * c -> x = y.
Proof.
  intros Hc E. transitivity ((x * c) / c); [field; exact Hc|]. rewrite E. field. exact Hc.
Qed.

Lemma to_s_is_conv2 T : T <> PS -> conv2 K T PS = Some (conv2_to_s K T).
Proof. intros H. destruct T; try reflexivity. contradiction H; reflexivity. Qed.

Lemma zi_ok_to_s T m z1 z2 : T <> PS -> conv2zi_ok K T m z1 z2 -> conv2_ok K T PS m z1 z2.
Proof. intros H. destruct T; try (contradiction H; reflexivity); cbn; intros [_ A]; exact A. Qed.

(* the S matrix of the network is the same whether computed from X or from the image under X -> Y *)
Lemma to_s_chain X Y f m z1 z2 :
  char_ok K -> z0_ok z1 -> z0_ok z2 -> X <> Y -> conv2 K X Y = Some f ->
  conv2_ok K X Y m z1 z2 ->
  (X <> PS -> conv2_ok K X PS m z1 z2) -> (Y <> PS -> conv2_ok K Y PS (f m z1 z2) z1 z2) ->
  conv2_to_s K Y (f m z1 z2) z1 z2 = conv2_to_s K X m z1 z2.
Proof.
  intros H2 Hz1 Hz2 Hxy Ef Hok Hx Hy.
  destruct (ptype_eq_dec X PS) as [EX|NX].
  - subst X. assert (NY : Y <> PS) by (intros E; apply Hxy; symmetry; exact E).
    change (conv2_to_s K PS m z1 z2) with m.
    exact (conv2_roundtrip K z1 z2 H2 Hz1 Hz2 PS Y f (conv2_to_s K Y) m Ef (to_s_is_conv2 Y NY) Hok (Hy NY)).
  - destruct (ptype_eq_dec Y PS) as [EY|NY].
    + subst Y. rewrite (to_s_is_conv2 X NX) in Ef. injection Ef as <-. reflexivity.
    + exact (conv2_chain K z1 z2 H2 Hz1 Hz2 X Y PS f (conv2_to_s K Y) (conv2_to_s K X) m Ef
               (to_s_is_conv2 Y NY) (to_s_is_conv2 X NX) Hok (Hy NY) (Hx NX)).
Qed.

(* both ports carry current when driven alone: the states used to read the input impedances off
   the S matrix are not degenerate *)
Definition drive_ok (S : m2 K) (z1 z2 : K) : Prop :=
  i1 (param K z1 z2 PS S 1 0) <> 0 /\ i2 (param K z1 z2 PS S 0 1) <> 0.

Lemma zi_chain X Y f m z1 z2 :
  char_ok K -> z0_ok z1 -> z0_ok z2 -> X <> Y -> conv2 K X Y = Some f ->
  conv2_ok K X Y m z1 z2 -> conv2zi_ok K X m z1 z2 -> conv2zi_ok K Y (f m z1 z2) z1 z2 ->
  drive_ok (conv2_to_s K X m z1 z2) z1 z2 ->
  conv2zi K Y (f m z1 z2) z1 z2 = conv2zi K X m z1 z2.
Proof.
  intros H2 Hz1 Hz2 Hxy Ef Hok Hzx Hzy [D1 D2].
  pose proof (to_s_chain X Y f m z1 z2 H2 Hz1 Hz2 Hxy Ef Hok
                (fun N => zi_ok_to_s X m z1 z2 N Hzx) (fun N => zi_ok_to_s Y _ z1 z2 N Hzy)) as E.
  destruct (conv2zi_param K X m z1 z2 H2 Hz1 Hz2 Hzx) as [P1 P2].
  destruct (conv2zi_param K Y (f m z1 z2) z1 z2 H2 Hz1 Hz2 Hzy) as [Q1 Q2].
  rewrite E in Q1, Q2. specialize (P1 1). specialize (P2 1). specialize (Q1 1). specialize (Q2 1).
  cbv zeta in P1, P2, Q1, Q2.
  apply injective_projections.
  - apply (mul_cancel_r _ _ _ D1). rewrite <- Q1. exact P1.
  - apply (mul_cancel_r _ _ _ D2). rewrite <- Q2. exact P2.
Qed.

(* the input-impedance call for frequency i of a 2 x 2 array of type T (not Y: vnaconv_ytozin has
   no n = 2 theorem in Conv/ConvN2.v) *)
Definition zin_pivot_ok (T : ptype) (m : m2 K) (z1 : K) : Prop :=
  match T with PZ => if swap then m21 m <> 0 else m11 m + z1 <> 0 | _ => True end.

Lemma zin_call_value (a : arr) T cs i :
  char_ok K -> a_rows V a = 2 -> conv_spec (vpt_of_pt T) VZIN = Some cs -> T <> PY ->
  z0_ok (zr a i 0) -> z0_ok (zr a i 1) ->
  conv2zi_ok K T (mat a i) (zr a i 0) (zr a i 1) -> zin_pivot_ok T (mat a i) (zr a i 0) ->
  cvN (cs_fn cs) (a_rows V a) (map (a_dat V a i) (seq 0 (a_rows V a * a_rows V a))) (zlist a cs i) =
  vec_of K (conv2zi K T (mat a i) (zr a i 0) (zr a i 1)).
Proof.
  intros H2 R Hs HT Hz1 Hz2 Hok Hp. unfold zlist. rewrite R.
  change (map (a_dat V a i) (seq 0 (2 * 2))) with (list_of_m2 K (mat a i)).
  destruct T; try (contradiction HT; reflexivity); vm_compute in Hs; injection Hs as <-;
    cbn [cs_fn cs_z0 convn_interp callzi2 callzin pt_of];
    change (map (a_z0_row V a i) (seq 0 2)) with [zr a i 0; zr a i 1];
    try reflexivity.
  all: change (reshape K 2 (list_of_m2 K (mat a i))) with (mat_of K (mat a i)).
  all: try apply stozin2.
  - destruct Hok as [Hok _].
    exact (ztozin2 K M nrm2 mulM zeroM scale_of_max swap (mat a i) (zr a i 0) (zr a i 1) H2 Hz1 Hz2 Hok Hp).
Qed.

Definition zin_chain_ok (a : arr) (X Y : ptype) : Prop :=
  forall i, i < a_freqs V a ->
    z0_ok (zr a i 0) /\ z0_ok (zr a i 1) /\ conv2_ok K X Y (mat a i) (zr a i 0) (zr a i 1) /\
    pivot_ok X Y (mat a i) (zr a i 0) (zr a i 1) /\
    conv2zi_ok K X (mat a i) (zr a i 0) (zr a i 1) /\ zin_pivot_ok X (mat a i) (zr a i 0) /\
    drive_ok (conv2_to_s K X (mat a i) (zr a i 0) (zr a i 1)) (zr a i 0) (zr a i 1) /\
    forall f, conv2 K X Y = Some f ->
      conv2zi_ok K Y (f (mat a i) (zr a i 0) (zr a i 1)) (zr a i 0) (zr a i 1) /\
      zin_pivot_ok Y (f (mat a i) (zr a i 0) (zr a i 1)) (zr a i 0).

Lemma conv_spec_zin T : exists cs, conv_spec (vpt_of_pt T) VZIN = Some cs /\ cs_kind cs = KXtoI /\
  dim_ok (cs_dim cs) 2 2 = true.
Proof. destruct T; (eexists; split; [vm_compute; reflexivity|split; reflexivity]). Qed.

Lemma spec_zin_chain_N (a : arr) X Y cs1 cs2 cs3 :
  char_ok K -> a_rows V a = 2 -> a_cols V a = 2 -> X <> Y -> X <> PY -> Y <> PY ->
  conv_spec (vpt_of_pt X) (vpt_of_pt Y) = Some cs1 ->
  conv_spec (vpt_of_pt Y) VZIN = Some cs2 ->
  conv_spec (vpt_of_pt X) VZIN = Some cs3 ->
  zin_chain_ok a X Y ->
  arr_eq (spec_conv_arr cvN (spec_conv_arr cvN a (vpt_of_pt Y) cs1) VZIN cs2)
         (spec_conv_arr cvN a VZIN cs3).
Proof.
  intros H2 R C Hxy HX HY Hs1 Hs2 Hs3 Hok.
  destruct (conv2_defined K X Y Hxy) as [f Ef].
  assert (P1 : pivots_ok a X Y).
  { intros i Hi. destruct (Hok i Hi) as (A1 & A2 & A3 & A4 & _).
    split; [exact A1|]. split; [exact A2|]. split; [exact A3|exact A4]. }
  rewrite (spec_conv_arr_N2 a X Y cs1 H2 R Hs1 Hxy P1).
  set (a1 := spec_conv_arr cv2 a (vpt_of_pt Y) cs1).
  destruct (conv_spec_matrix X Y Hxy) as (c1 & E1 & K1 & _). rewrite Hs1 in E1. injection E1 as <-.
  destruct (conv_spec_zin Y) as (c2 & E2 & K2 & _). rewrite Hs2 in E2. injection E2 as <-.
  destruct (conv_spec_zin X) as (c3 & E3 & K3 & _). rewrite Hs3 in E3. injection E3 as <-.
  assert (R1 : a_rows V a1 = 2).
  { unfold a1, TwoObjModel.spec_conv_arr, arr_out_rows. cbn [a_rows]. rewrite K1. exact R. }
  assert (C1 : a_cols V a1 = 2).
  { unfold a1, TwoObjModel.spec_conv_arr, arr_out_cols. cbn [a_cols]. rewrite K1. exact C. }
  assert (D : forall i j, arr_conv_dat V vzero cvN a1 cs2 i j = arr_conv_dat V vzero cvN a cs3 i j).
  { intros i j. unfold arr_conv_dat, arr_conv_len. rewrite K2, K3, R1, R.
    change (a_freqs V a1) with (a_freqs V a).
    destruct (Nat.ltb_spec i (a_freqs V a)) as [Hi|Hi]; [|reflexivity]. cbn [andb].
    destruct (Nat.ltb j 2); [|reflexivity]. f_equal.
    unfold arr_conv_results. change (a_freqs V a1) with (a_freqs V a).
    rewrite !nth_map_seq by exact Hi.
    destruct (Hok i Hi) as (A1 & A2 & A3 & _ & A5 & A6 & A7 & A8). destruct (A8 f Ef) as [B1 B2].
    pose proof (zin_call_value a X cs3 i H2 R Hs3 HX A1 A2 A5 A6) as VX. unfold zlist in VX. rewrite VX.
    assert (VY := zin_call_value a1 Y cs2 i H2 R1 Hs2 HY).
    assert (Zr : forall p, zr a1 i p = zr a i p) by (intros p; unfold a1; apply inner_zr).
    assert (Mt : mat a1 i = f (mat a i) (zr a i 0) (zr a i 1))
      by (unfold a1; apply (inner_mat a X Y cs1 f i R Hs1 Hxy Ef Hi)).
    rewrite !Zr, Mt in VY. specialize (VY A1 A2 B1 B2). unfold zlist in VY. rewrite VY. f_equal.
    exact (zi_chain X Y f (mat a i) (zr a i 0) (zr a i 1) H2 A1 A2 Hxy Ef A3 A5 B1 A7). }
  unfold ArraySpec.arr_eq, TwoObjModel.spec_conv_arr.
  cbn [a_ty a_rows a_cols a_freqs a_perf a_fv a_dat a_z0 a_fz0 a_ftype a_fmt a_fprec a_dprec].
  unfold arr_out_rows, arr_out_cols. rewrite K2, K3, R1, C1, R, C.
  repeat split; try reflexivity.
  - exact D.
  - intros P j. change (a_perf V a1) with (a_perf V a) in P |- *. rewrite P.
    unfold a1, TwoObjModel.spec_conv_arr. cbn [a_z0 a_perf]. rewrite P. reflexivity.
Qed.

(* X -> Y -> Zin on vnadata objects against X -> Zin: same 1 x 2 object *)
Theorem convert_zin_chain (d o1 o2 o3 : vd) (s1 s2 s3 : bool) X Y :
  char_ok K -> Inv d -> Inv o1 -> Inv o2 -> Inv o3 ->
  ty V d = vpt_of_pt X -> rows V d = 2 -> cols V d = 2 -> X <> Y -> X <> PY -> Y <> PY ->
  zin_chain_ok (abs d) X Y ->
  let cv := convert V vzero vdef fixed true cvN in
  let rb := cv d o1 s1 (vpt_code (vpt_of_pt Y)) in
  let rc := cv (fst rb) o2 s2 (vpt_code VZIN) in
  let rd := cv d o3 s3 (vpt_code VZIN) in
  snd rb = ok V /\ snd rc = ok V /\ snd rd = ok V /\ arr_eq (abs (fst rc)) (abs (fst rd)).
Proof.
  intros H2 HI H1 HO2 HO3 Ht R C Hxy HX HY Hok.
  destruct (conv_spec_matrix X Y Hxy) as (cs1 & Hs1 & K1 & _ & _ & D1).
  destruct (conv_spec_zin Y) as (cs2 & Hs2 & _ & D2).
  destruct (conv_spec_zin X) as (cs3 & Hs3 & _ & D3).
  apply (chain_lift V vzero vdef cvN d o1 o2 o3 s1 s2 s3 (vpt_of_pt Y) VZIN cs1 cs2 cs3); try assumption.
  - rewrite Ht. exact Hs1.
  - rewrite R, C. exact D1.
  - unfold out_rows, out_cols. rewrite K1, R, C. exact D2.
  - rewrite Ht. exact Hs3.
  - rewrite R, C. exact D3.
  - apply (spec_zin_chain_N (abs d) X Y cs1 cs2 cs3); assumption.
Qed.

End ChainNProofs.
