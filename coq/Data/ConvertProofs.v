(* Lemmas for property C05: the conversion table of the code (Gen/ConvTableGen.v, translator T2)
   equals the specification of the dispatch (ConvertModel.conv_spec) on all 121 type pairs;
   the prototypes of the selected functions fit the groups; vnadata_convert rejects without
   effect, applies the selected function frequency by frequency with that frequency's
   impedances, and an in-place conversion to Zin leaves a clean 1 x ports object. *)
Require Import List ZArith Bool String Lia.
Require Import LV.Data.DataModel LV.Data.ConvertModel LV.Data.DataProofs LV.Gen.ConvTableGen.
Import ListNotations.

Definition vpt_index (t : vpt) : nat := Z.to_nat (vpt_code t).

Definition gen_entry (x y : vpt) : option (dimclass * bool * ckind * string) :=
  nth (vpt_index y) (nth (vpt_index x) gen_table []) None.

Definition dimclass_eqb (a b : dimclass) : bool :=
  match a, b with DAny, DAny | DVec, DVec | D2x2, D2x2 | DNxN, DNxN => true | _, _ => false end.
Definition ckind_eqb (a b : ckind) : bool :=
  match a, b with KSame, KSame | KXtoY, KXtoY | KXtoI, KXtoI => true | _, _ => false end.

Definition entry_matches (g : option (dimclass * bool * ckind * string)) (s : option convsel) : bool :=
  match g, s with
  | None, None => true
  | Some (d, z, k, f), Some cs =>
      dimclass_eqb d (cs_dim cs) && Bool.eqb z (cs_z0 cs) && ckind_eqb k (cs_kind cs)
      && String.eqb f (fname_str (cs_fn cs))
  | _, _ => false
  end.

Definition all_pairs : list (vpt * vpt) := list_prod all_vpt all_vpt.

Definition table_check : bool :=
  forallb (fun p => entry_matches (gen_entry (fst p) (snd p)) (conv_spec (fst p) (snd p))) all_pairs.

Lemma all_vpt_complete t : In t all_vpt.
Proof. destruct t; cbv; tauto. Qed.

Lemma table_check_true : table_check = true.
Proof. vm_compute. reflexivity. Qed.

Lemma dimclass_eqb_eq a b : dimclass_eqb a b = true -> a = b.
Proof. destruct a, b; simpl; congruence. Qed.
Lemma ckind_eqb_eq a b : ckind_eqb a b = true -> a = b.
Proof. destruct a, b; simpl; congruence. Qed.

(* the table of the code selects, for every one of the 121 pairs, exactly what the specification
   says: INVAL iff not convertible, otherwise the same dimension class, z0 flag, kind and the
   function literally named vnaconv_<from>to<to>[n] / vnaconv_<from>tozi[n] *)
Lemma table_sound x y :
  match gen_entry x y, conv_spec x y with
  | None, None => True
  | Some (d, z, k, f), Some cs => d = cs_dim cs /\ z = cs_z0 cs /\ k = cs_kind cs /\ f = fname_str (cs_fn cs)
  | _, _ => False
  end.
Proof.
  pose proof table_check_true as H. unfold table_check in H. rewrite forallb_forall in H.
  specialize (H (x, y)). cbn [fst snd] in H.
  assert (Hin : In (x, y) all_pairs) by (apply in_prod; apply all_vpt_complete).
  specialize (H Hin). unfold entry_matches in H.
  destruct (gen_entry x y) as [[[[d z] k] f]|], (conv_spec x y) as [cs|]; try discriminate; auto.
  repeat (apply andb_true_iff in H; destruct H as [H ?]).
  repeat split.
  - apply dimclass_eqb_eq; assumption.
  - apply Bool.eqb_prop; assumption.
  - apply ckind_eqb_eq; assumption.
  - apply String.eqb_eq; assumption.
Qed.

(* what the manual says is convertible *)
Definition convertible (x y : vpt) : bool :=
  vpt_eqb x y || (is_matrix x && negb (vpt_eqb y VUNDEF)).

Lemma table_inval_iff x y : gen_entry x y = None <-> convertible x y = false.
Proof.
  pose proof (table_sound x y) as H.
  assert (E : conv_spec x y = None <-> convertible x y = false) by (destruct x, y; cbv; split; congruence).
  destruct (gen_entry x y) as [[[[d z] k] f]|], (conv_spec x y) as [cs|]; try contradiction.
  - split; [discriminate|]. intros H1. apply E in H1. discriminate.
  - tauto.
Qed.

(* dimension class, as the property states it: 2x2 as soon as one side is T,U,H,G,A,B; NxN
   between S, Z, Y and to Zin from S, Z, Y; same-type copies accept every object that is valid
   for its type *)
Definition is_two_port_only (t : vpt) := match t with VT | VU | VH | VG | VA | VB => true | _ => false end.

Lemma table_dimension_class x y d z k f :
  gen_entry x y = Some (d, z, k, f) -> x <> y ->
  d = (if is_two_port_only x || is_two_port_only y then D2x2 else DNxN).
Proof.
  intros E Hne. pose proof (table_sound x y) as H. rewrite E in H.
  destruct (conv_spec x y) as [cs|] eqn:Ec; [|contradiction]. destruct H as (-> & _).
  destruct x, y; try (contradiction Hne; reflexivity); cbv in Ec; try discriminate;
    injection Ec as <-; reflexivity.
Qed.

Lemma table_same_type_accepts x d z k f r c :
  gen_entry x x = Some (d, z, k, f) -> validate_type x r c = true -> dim_ok d r c = true /\ k = KSame.
Proof.
  intros E Hv. pose proof (table_sound x x) as H. rewrite E in H.
  destruct (conv_spec x x) as [cs|] eqn:Ec; [|contradiction]. destruct H as (-> & _ & -> & _).
  destruct x; cbv in Ec; injection Ec as <-; cbn in *; split; auto.
  all: try (apply andb_true_iff in Hv; destruct Hv as [-> ->]; reflexivity).
  rewrite Hv. reflexivity.
Qed.

(* arity: the prototype in vnaconv.h of the selected function has a z0 argument iff the group
   says so, an `int n` argument iff the group is NxN, and a vector output iff the kind is xtoI *)
Definition proto_of (f : string) : option (bool * bool * bool) :=
  match find (fun p => String.eqb (fst p) f) gen_protos with Some p => Some (snd p) | None => None end.

Definition arity_check : bool :=
  forallb (fun p =>
    match gen_entry (fst p) (snd p) with
    | Some (d, z, KSame, _) => true
    | Some (d, z, k, f) =>
        match proto_of f with
        | Some (pz, pn, pv) => Bool.eqb pz z && Bool.eqb pn (dimclass_eqb d DNxN) && Bool.eqb pv (ckind_eqb k KXtoI)
        | None => false
        end
    | None => true
    end) all_pairs.

Lemma arity_check_true : arity_check = true.
Proof. vm_compute. reflexivity. Qed.

Lemma table_arity x y d z k f :
  gen_entry x y = Some (d, z, k, f) -> k <> KSame ->
  proto_of f = Some (z, dimclass_eqb d DNxN, ckind_eqb k KXtoI).
Proof.
  intros E Hk. pose proof arity_check_true as H. unfold arity_check in H. rewrite forallb_forall in H.
  assert (Hin : In (x, y) all_pairs) by (apply in_prod; apply all_vpt_complete).
  specialize (H (x, y) Hin). cbn [fst snd] in H. rewrite E in H.
  destruct k; [contradiction Hk; reflexivity| |];
    destruct (proto_of f) as [[[pz pn] pv]|]; try discriminate;
    repeat (apply andb_true_iff in H; destruct H as [H ?]);
    apply Bool.eqb_prop in H; repeat match goal with Hx : Bool.eqb _ _ = true |- _ => apply Bool.eqb_prop in Hx end;
    subst; reflexivity.
Qed.

(* ---------------------------------------------------------------- vnadata_convert *)
Section Convert.
Variable V : Type.
Variables vzero vdef : V.
Variable dd2_fixed : bool.
Variable conv : fname -> nat -> list V -> list V -> list V.
Notation vd := (vd V).
Notation convertf := (convert V vzero vdef fixed dd2_fixed conv).

(* invalid new type, inconvertible pair or wrong input dimensions: failure, one error report,
   and the destination object is returned unchanged *)
Lemma convert_reject_unchanged din dout same ntz :
  (vpt_of_Z ntz = None \/
   (exists nt, vpt_of_Z ntz = Some nt /\
      (conv_spec (ty V din) nt = None \/
       exists cs, conv_spec (ty V din) nt = Some cs /\ dim_ok (cs_dim cs) (rows V din) (cols V din) = false))) ->
  convertf din dout same ntz = (if same then din else dout, fail V).
Proof.
  unfold convert. intros [->|(nt & -> & [->|(cs & -> & ->)])]; reflexivity.
Qed.

(* in-place conversion between matrix types: every frequency's matrix is replaced by the result
   of the selected function on that frequency's matrix and that frequency's impedances (the
   per-frequency row when present, the ordinary vector otherwise); nothing else changes *)
Lemma convert_pointwise_inplace d ntz nt cs :
  Inv V vzero vdef d ->
  vpt_of_Z ntz = Some nt -> conv_spec (ty V d) nt = Some cs -> cs_kind cs = KXtoY ->
  dim_ok (cs_dim cs) (rows V d) (cols V d) = true -> rows V d = cols V d ->
  let n := rows V d in
  let d' := fst (convertf d d true ntz) in
  snd (convertf d d true ntz) = ok V /\
  ty V d' = nt /\ rows V d' = n /\ cols V d' = n /\ freqs V d' = freqs V d /\
  per_f V d' = per_f V d /\ z0v V d' = z0v V d /\ z0vv V d' = z0vv V d /\ fv V d' = fv V d /\
  (forall f j, f < freqs V d -> j < n * n ->
     dat V d' f j = nth j (conv (cs_fn cs) n (map (dat V d f) (seq 0 (n * n)))
                             (if cs_z0 cs then map (z0_row V d f) (seq 0 n) else [])) vzero) /\
  (forall f j, ~ (f < freqs V d /\ j < n * n) -> dat V d' f j = dat V d f j).
Proof.
  intros HI Ht Hs Hk Hd Hsq. cbv zeta. unfold convert. rewrite Ht, Hs, Hd, Hk. cbn [negb o_ret ok].
  destruct HI as (I1 & I2 & I3 & _). unfold cells, ports in *. rewrite <- Hsq in *.
  rewrite Nat.max_id in I3.
  destruct (Nat.leb_spec (freqs V d) (f_alloc V d)); [|lia].
  destruct (Nat.leb_spec (rows V d * rows V d) (m_alloc V d)); [|lia].
  destruct (Nat.leb_spec (rows V d) (p_alloc V d)); [|lia].
  cbn -[Nat.ltb nth conv_results]. repeat split; auto.
  - intros f j Hf Hj. unfold conv_results.
    destruct (Nat.ltb_spec f (freqs V d)); [|lia]. destruct (Nat.ltb_spec j (rows V d * rows V d)); [|lia].
    cbn [andb].
    rewrite nth_indep with (d' := conv (cs_fn cs) (rows V d) (map (dat V d 0) (seq 0 (rows V d * rows V d)))
                                   (if cs_z0 cs then map (z0_row V d 0) (seq 0 (rows V d)) else []))
      by (rewrite map_length, seq_length; assumption).
    rewrite (map_nth (fun f0 => conv (cs_fn cs) (rows V d) (map (dat V d f0) (seq 0 (rows V d * rows V d)))
                                  (if cs_z0 cs then map (z0_row V d f0) (seq 0 (rows V d)) else []))
                     (seq 0 (freqs V d)) 0 f).
    rewrite seq_nth by assumption. reflexivity.
  - intros f j Hn. destruct (Nat.ltb_spec f (freqs V d)); destruct (Nat.ltb_spec j (rows V d * rows V d));
      cbn [andb]; auto. contradiction Hn. split; assumption.
Qed.

(* in-place conversion to Zin followed by a resize back to 2 x 2: on the repaired model the
   re-exposed cells hold the initial value (what a freshly built 1 x 2 object would show); on
   the model of the code as found (D5) the old matrix cell is still there.  Concrete history,
   arbitrary values a b c e and arbitrary conversion function. *)
Definition zin_history (a b c e : V) : list (mop V) :=
  [MOn V false (OInit V 1 2 2 1); MOn V false (OSetMatrix V 0 [a; b; c; e]);
   MConv V false false 10; MOn V false (OResize V 0 2 2 1)].

Lemma convert_zin_fresh_example a b c e :
  let s := mrun V vzero vdef fixed dd2_fixed conv (minit V vzero vdef) (zin_history a b c e) in
  dat V (fst s) 0 2 = vzero /\ dat V (fst s) 0 3 = vzero /\
  dat V (fst s) 0 0 = nth 0 (conv (FIN VS) 2 [a; b; c; e] [vdef; vdef]) vzero.
Proof. cbv zeta. repeat split; reflexivity. Qed.

Lemma convert_zin_fresh_refuted_as_found a b c e :
  let s := mrun V vzero vdef as_found dd2_fixed conv (minit V vzero vdef) (zin_history a b c e) in
  dat V (fst s) 0 2 = c /\ dat V (fst s) 0 3 = e.
Proof. cbv zeta. split; reflexivity. Qed.

End Convert.
