(* Property C05, convert_chain without the identification of ChainModel: `conv` of ConvertModel
   instantiated with
     F2 x y  (2 x 2 groups)           the generated two-port function (ChainModel.call2);
     FN x y  (N x N groups, any n)    the LU model of the n-port functions of Conv/ConvN.v
                                      (vnaconv_stozn / ztosn / stoyn / ytosn / ztoyn / ytozn) on
                                      the n x n matrix rebuilt from the flattened cells;
     FI2 x   (vnaconv_<x>tozi)        the generated two-port input-impedance function
                                      (Gen/Conv2All.conv2zi), result [zi1; zi2];
     FIN x   (vnaconv_<x>tozin)       the n-port input-impedance model of Conv/ConvN.v.
   The magnitude type M and the pivot comparator ltM of the LU model are parameters (the theorems
   of Conv/ConvN2.v about n = 2 are for the two constant comparators).  No proofs in this file. *)
Require Import List ZArith Bool.
Require Import LV.Base.CField LV.Lin.MatL LV.Lin.LuModel LV.Conv.ConvN LV.Conv.ConvRel LV.Gen.Conv2All.
Require Import LV.Data.DataModel LV.Data.ConvertModel LV.Data.ChainModel.
Import ListNotations.

Section ChainN.
Variable K : CField.
Variable M : Type.
Variables (nrm2 : K -> M) (mulM : M -> M -> M) (ltM : M -> M -> bool) (zeroM : M) (scale_of_max : M -> M).
Variable zd : K.

(* the n x n matrix stored row-major in a flat list, and back *)
Definition reshape (n : nat) (l : list K) : mat K :=
  map (fun r => map (fun c => nth (r * n + c) l c0) (seq 0 n)) (seq 0 n).
Definition flat (m : mat K) : list K := concat m.

Definition calln (x y : vpt) (n : nat) (m z0 : list K) : list K :=
  match x, y with
  | VS, VZ => flat (stozn K M nrm2 mulM ltM zeroM scale_of_max n (reshape n m) z0)
  | VZ, VS => flat (ztosn K M nrm2 mulM ltM zeroM scale_of_max n (reshape n m) z0)
  | VS, VY => flat (stoyn K M nrm2 mulM ltM zeroM scale_of_max n (reshape n m) z0)
  | VY, VS => flat (ytosn K M nrm2 mulM ltM zeroM scale_of_max n (reshape n m) z0)
  | VZ, VY => flat (ztoyn K M nrm2 mulM ltM zeroM scale_of_max n (reshape n m))
  | VY, VZ => flat (ytozn K M nrm2 mulM ltM zeroM scale_of_max n (reshape n m))
  | _, _ => []
  end.

Definition callzin (x : vpt) (n : nat) (m z0 : list K) : list K :=
  match x with
  | VS => stozin K n (reshape n m) z0
  | VZ => ztozin K M nrm2 mulM ltM zeroM scale_of_max n (reshape n m) z0
  | VY => ytozin K M nrm2 mulM ltM zeroM scale_of_max n (reshape n m) z0
  | _ => []
  end.

Definition callzi2 (x : vpt) (m z0 : list K) : list K :=
  match pt_of x with
  | Some X => (fun p : K * K => fst p :: snd p :: nil) (conv2zi K X (m2_of_list K m) (nth 0 z0 zd) (nth 1 z0 zd))
  | None => []
  end.

Definition convn_interp (fn : fname) (n : nat) (m z0 : list K) : list K :=
  match fn with
  | F2 x y => match n with 2 => call2 K zd x y m z0 | _ => [] end
  | FN x y => calln x y n m z0
  | FI2 x => match n with 2 => callzi2 x m z0 | _ => [] end
  | FIN x => callzin x n m z0
  | FSame => []
  end.

(* the entry the LU model divides by first, for the pivot order `swap`, in each of the six
   n-port functions at n = 2 (the hypotheses of Conv/ConvN2.v, the n = 2 equalities of Properties_C04n)  *)
Definition pivot_ok (swap : bool) (X Y : ptype) (m : m2 K) (z1 z2 : K) : Prop :=
  match X, Y with
  | PS, PZ => if swap then m21 m <> c0 else csub c1 (m11 m) <> c0
  | PZ, PS => if swap then m21 m <> c0 else cadd (m11 m) z1 <> c0
  | PS, PY => if swap then m21 m <> c0 /\ z1 <> c0 else cadd (cmul (m11 m) z1) (cj z1) <> c0
  | PY, PS => if swap then z2 <> c0 /\ m21 m <> c0 else cadd (cmul z1 (m11 m)) c1 <> c0
  | PZ, PY => if swap then m21 m <> c0 else m11 m <> c0
  | PY, PZ => if swap then m21 m <> c0 else m11 m <> c0
  | _, _ => True
  end.

End ChainN.
