(* Property C15, clause "conversions interleaved": the single-object theorems of DataProofs /
   RefineProofs applied to the states of the two-object machine of ConvertModel (container
   operations on either object, vnadata_convert in every direction - in place and out of place -
   and free + alloc), whose invariant is ConvertTheorems.mrun_inv_init (property C05,
   c05_machine_invariant).  What vnadata_convert does to the contents is property C05; here only
   that it leaves both objects in a state from which the container behaves like the abstract
   array again.  (The machine executes container operations with DataModel.step, which completes a
   short caller vector with a default: it reaches a superset of the states reachable when such
   calls are excluded.) *)
Require Import List ZArith Bool Lia.
Require Import LV.Data.DataModel LV.Data.ArraySpec LV.Data.DataProofs LV.Data.RefineProofs
               LV.Data.ConvertModel LV.Data.ConvertTheorems.
Import ListNotations.

Section Interleave.
Variable V : Type.
Variables vzero vdef : V.
Variable dd2_fixed : bool.
Variable conv : fname -> nat -> list V -> list V -> list V.
Notation mrunf l := (mrun V vzero vdef fixed dd2_fixed conv (minit V vzero vdef) l).
Notation abs := (ArraySpec.abs V).

Lemma interleaved_inv l i : Inv V vzero vdef (sel V (mrunf l) i).
Proof. apply (sel_inv V vzero vdef). apply mrun_inv_init. Qed.

(* after any interleaved history, an operation on either object yields the outcome and the
   contents that the abstract array predicts from the logical contents of that object *)
Theorem interleaved_sim l i o :
  let d := sel V (mrunf l) i in
  vec_ok V (abs d) o -> sim_chk V vzero vdef d (abs d) o.
Proof.
  cbv zeta. intros L. apply sim_chk_step; [apply interleaved_inv|apply refines_refl|exact L].
Qed.

(* ... and so does every further history of operations on that object *)
Theorem interleaved_trace l i ops :
  let d := sel V (mrunf l) i in
  vecs_ok V vzero vdef (abs d) ops ->
  trace_chk V vzero vdef d ops = spec_trace V vzero vdef (abs d) ops.
Proof.
  cbv zeta. intros L. apply sim_chk_trace; [apply interleaved_inv|apply refines_refl|exact L].
Qed.

(* ... no access outside an allocation, except past the end of a short caller vector *)
Theorem interleaved_fault_iff l i o :
  let d := sel V (mrunf l) i in
  o_ret V (snd (step_chk V vzero vdef fixed d o)) = RFault <-> short_vector V d o = true.
Proof. cbv zeta. apply step_chk_fault_iff. apply interleaved_inv. Qed.

(* a concrete interleaved history: fill a 2 x 2 S object, convert it out of place to Z, convert
   the copy in place to Zin (1 x 2), operate on both; the states are not trivial and the index
   theorem applies to the converted object (index n = 1 of the single row) *)
Definition example_mhistory : list (mop V) :=
  [MOn V false (OInit V 1 2 2 1); MOn V false (OSetMatrix V 0 [vdef; vzero; vzero; vdef]);
   MConv V false true 4; MOn V true (OSetFz0 V 0 1 vzero); MConv V true true 10;
   MOn V false (OResize V 1 1 1 1)].

Example interleaved_example :
  let s := mrunf example_mhistory in
  (ty V (sel V s true), rows V (sel V s true), cols V (sel V s true), freqs V (sel V s true)) = (VZIN, 1, 2, 1) /\
  per_f V (sel V s true) = true /\
  (ty V (sel V s false), rows V (sel V s false), cols V (sel V s false)) = (VS, 1, 1) /\
  bad_index V (sel V s true) (OGetCell V 0 1 0) /\
  vec_ok V (abs (sel V s true)) (OSetMatrix V 0 [vdef; vdef]).
Proof.
  cbv zeta. destruct dd2_fixed.
  all: repeat split; try (vm_compute; reflexivity).
  all: try (right; left; vm_compute; intros [_ H]; discriminate H).
  all: vm_compute; repeat constructor.
Qed.

End Interleave.
