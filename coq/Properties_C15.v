(* Property C15: vnadata_t behaves like a typed frequency x rows x columns array with z0 modes.
   Theorems only.  All statements are about LV.Data.DataModel (the checked-memory model of
   vnadata_alloc.c, the vnadata.h accessors and the z0 files, tied to the implementation by the
   op-script correspondence of checks/C15.py) with quirks = fixed, i.e. the behaviour of the code
   after the repairs D4, D5, D6, D7, D40, D49; the `..._as_found` theorems are about the same
   definitions with the behaviour of the code before those repairs.
   V is the abstract value type with the two constants the code uses (0 and 50 ohm). *)
Require Import List ZArith.
Require Import LV.Data.DataModel LV.Data.ArraySpec LV.Data.DataProofs LV.Data.RefineProofs.
Import ListNotations.

Section C15.
Variable V : Type.
Variables vzero vdef : V.
Notation vd := (vd V).
Notation stepf := (step V vzero vdef fixed).
Notation Inv := (Inv V vzero vdef).

(* The invariant (allocations cover the logical sizes; every frequency, cell and impedance outside
   the logical box holds its initial value; type/dimension rule; valid save options) holds after
   vnadata_alloc, is preserved by every operation for all arguments, hence holds in every state
   reachable by any operation sequence. *)
Theorem c15_inv_init : Inv (vd_alloc V vzero vdef).
Proof. exact (inv_alloc V vzero vdef). Qed.

Theorem c15_inv_step : forall d o, Inv d -> Inv (fst (stepf d o)).
Proof. exact (step_inv V vzero vdef). Qed.

Theorem c15_inv_reachable : forall d, reachable V vzero vdef fixed d -> Inv d.
Proof. exact (inv_reachable V vzero vdef). Qed.

(* No operation accesses memory outside the allocations (the model checks every access). *)
Theorem c15_no_fault : forall d o, Inv d -> o_ret V (snd (stepf d o)) <> RFault.
Proof. exact (step_no_fault V vzero vdef). Qed.

(* Any index outside [0,n), including n, is refused with the failure value (one error report,
   EINVAL) and no effect on the object; all 16 indexed accessors, every index position. *)
Theorem c15_index_n_refused : forall d o, bad_index V d o -> stepf d o = (d, fail V).
Proof. exact (index_refused V vzero vdef). Qed.

(* A successful resize presents every newly exposed frequency, cell and impedance with its
   initial value and preserves the cells of the common flattened prefix. *)
Theorem c15_resize_exposes_initial : forall Q d t r c f,
  Inv d -> o_ret V (snd (resize V vzero vdef Q d t r c f)) = ROk ->
  let d' := fst (resize V vzero vdef Q d t r c f) in
  (forall i, freqs V d <= i -> fv V d' i = 0%Z) /\
  (forall i j, freqs V d <= i \/ cells V d <= j -> dat V d' i j = vzero) /\
  (per_f V d' = false -> forall j, ports V d <= j -> z0v V d' j = vdef) /\
  (per_f V d' = true -> forall i j, freqs V d <= i \/ ports V d <= j -> z0vv V d' i j = vdef) /\
  (forall i, i < freqs V d -> i < freqs V d' -> fv V d' i = fv V d i) /\
  (forall i j, i < freqs V d -> i < freqs V d' -> j < cells V d -> j < cells V d' -> dat V d' i j = dat V d i j).
Proof. exact (resize_exposes_initial V vzero vdef). Qed.

(* Refinement to the abstract array of ArraySpec (the documented behaviour, no allocations):
   forward simulation for EVERY operation - from related states the model and the specification
   produce the same outcome (return class, callbacks, payload) and related states ... *)
Theorem c15_data_refines_array_step : forall d a o,
  Inv d -> refines V d a -> sim V vzero vdef d a o.
Proof. exact (sim_step V vzero vdef). Qed.

(* ... hence for every operation history from vnadata_alloc every getter returns, and every call
   reports, exactly what the abstract array predicts. *)
Theorem c15_data_refines_array : forall l,
  trace V vzero vdef (vd_alloc V vzero vdef) l = spec_trace V vzero vdef (arr_alloc V vzero vdef) l.
Proof. exact (data_refines_array V vzero vdef). Qed.

(* Two objects with equal logical contents cannot be told apart by any later history, whatever
   their allocation histories (shrink/regrow, conversions, ...). *)
Theorem c15_indistinguishable : forall d1 d2 l,
  Inv d1 -> Inv d2 -> arr_eq V (abs V d1) (abs V d2) -> trace V vzero vdef d1 l = trace V vzero vdef d2 l.
Proof. exact (indistinguishable V vzero vdef). Qed.

Theorem c15_resize_rejected_unchanged : forall Q d t r c f,
  o_ret V (snd (resize V vzero vdef Q d t r c f)) <> ROk -> fst (resize V vzero vdef Q d t r c f) = d.
Proof. exact (resize_rejected_unchanged V vzero vdef). Qed.

(* z0 mode rules of vnadata(3). *)
Theorem c15_fz0_mode_rules_set_z0 : forall d p v,
  Inv d -> in_range p (ports V d) = true ->
  let d' := fst (stepf d (OSetZ0 V p v)) in
  snd (stepf d (OSetZ0 V p v)) = ok V /\ per_f V d' = false /\ z0v V d' (Z.to_nat p) = v /\
  (forall j, j <> Z.to_nat p -> z0v V d' j = if per_f V d then vdef else z0v V d j).
Proof. exact (set_z0_rule V vzero vdef). Qed.

Theorem c15_fz0_mode_rules_set_fz0 : forall d f p v,
  Inv d -> in_range f (freqs V d) = true -> in_range p (ports V d) = true ->
  let d' := fst (stepf d (OSetFz0 V f p v)) in
  snd (stepf d (OSetFz0 V f p v)) = ok V /\ per_f V d' = true /\
  z0vv V d' (Z.to_nat f) (Z.to_nat p) = v /\
  (forall i j, i < freqs V d -> j < ports V d -> (i, j) <> (Z.to_nat f, Z.to_nat p) ->
     z0vv V d' i j = if per_f V d then z0vv V d i j else z0v V d j).
Proof. exact (set_fz0_rule V vzero vdef). Qed.

Theorem c15_fz0_mode_rules_getters : forall d f p,
  Inv d -> in_range f (freqs V d) = true -> in_range p (ports V d) = true ->
  stepf d (OGetZ0 V p) = (if per_f V d then (d, fail V) else (d, okp V (PVal V (z0v V d (Z.to_nat p))))) /\
  stepf d (OGetFz0 V f p) =
    (d, okp V (PVal V (if per_f V d then z0vv V d (Z.to_nat f) (Z.to_nat p) else z0v V d (Z.to_nat p)))).
Proof. exact (get_rules V vzero vdef). Qed.

(* Non-vacuity: a non-trivial reachable state (per-frequency z0, 50 allocated frequency rows,
   shrunk and regrown) satisfies the invariant, and an index-n call on a concrete state meets
   the hypothesis of c15_index_n_refused. *)
Theorem c15_inv_satisfiable :
  Inv (run V vzero vdef fixed (vd_alloc V vzero vdef)
         [OInit V 1 1 1 0; OAddFreq V 1; OSetZ0 V 0 vzero; OSetFz0 V 0 0 vzero;
          OResize V 0 2 3 4; OSetCell V 3 1 2 vdef]).
Proof. exact (inv_example V vzero vdef). Qed.

Theorem c15_index_n_refused_satisfiable :
  let d := run V vzero vdef fixed (vd_alloc V vzero vdef) [OInit V 1 3 3 1; OResize V 1 2 2 1] in
  bad_index V d (OGetZ0 V 2) /\ stepf d (OGetZ0 V 2) = (d, fail V).
Proof. exact (index_n_refused_example V vzero vdef). Qed.

(* The code as found (before the repairs): index n = ports was accepted by the z0 accessors
   (D4), the access could leave the allocation, and convert_to_fz0 broke the invariant (D6).
   Each witness is a replayable script (corpus/C15). *)
Theorem c15_index_n_refused_refuted_as_found :
  exists d p, reachable V vzero vdef as_found d /\ bad_index V d (OGetZ0 V p) /\
              o_ret V (snd (step V vzero vdef as_found d (OGetZ0 V p))) = ROk.
Proof. exact (index_n_accepted_as_found V vzero vdef). Qed.

Theorem c15_no_fault_refuted_as_found :
  exists d p, reachable V vzero vdef as_found d /\
              o_ret V (snd (step V vzero vdef as_found d (OGetZ0 V p))) = RFault.
Proof. exact (fault_reachable_as_found V vzero vdef). Qed.

Theorem c15_inv_refuted_as_found : vzero <> vdef ->
  exists d, reachable V vzero vdef as_found d /\ ~ DataProofs.Inv V vzero vdef d.
Proof. exact (inv_refuted_as_found V vzero vdef). Qed.

End C15.

(* Print Assumptions after the section is closed, so that the report is about the closed terms
   (inside the section the section variables V, vzero, vdef would be listed). *)
Print Assumptions c15_inv_init.
Print Assumptions c15_inv_step.
Print Assumptions c15_inv_reachable.
Print Assumptions c15_no_fault.
Print Assumptions c15_index_n_refused.
Print Assumptions c15_resize_exposes_initial.
Print Assumptions c15_data_refines_array_step.
Print Assumptions c15_data_refines_array.
Print Assumptions c15_indistinguishable.
Print Assumptions c15_resize_rejected_unchanged.
Print Assumptions c15_fz0_mode_rules_set_z0.
Print Assumptions c15_fz0_mode_rules_set_fz0.
Print Assumptions c15_fz0_mode_rules_getters.
Print Assumptions c15_inv_satisfiable.
Print Assumptions c15_index_n_refused_satisfiable.
Print Assumptions c15_index_n_refused_refuted_as_found.
Print Assumptions c15_no_fault_refuted_as_found.
Print Assumptions c15_inv_refuted_as_found.
