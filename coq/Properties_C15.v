(* Property C15: vnadata_t behaves like a typed frequency x rows x columns array with z0 modes.
   Theorems only.  All statements are about LV.Data.DataModel - the checked-memory model of
   vnadata_alloc.c, vnadata_add_frequency.c, the inline accessors of vnadata.h and the z0 / fz0
   files, tied to the implementation by the op-script correspondence of checks/C15.py - with
   quirks = fixed, i.e. the behaviour of the code in /repo now, after the repairs D4 (port index
   n = ports refused), D6 (convert_to_fz0 copies the logical frequencies only) and D40
   (rows * columns range checked), the three repairs the model's functions can express; the
   `..._as_found` theorems are about the same definitions with the behaviour before those repairs.
   (The repairs D5, D7, D49 that were made to the same files are not the subject of any theorem
   here: D5 belongs to vnadata_convert - property C05 -, D7 / D49 concern row pointers and
   zero-length memcpy, which the model does not represent; see docs/design_C15.md.)

   `stepc` = DataModel.step_chk: the caller's vectors of the vector-taking setters are checked
   memories too, so reading past the end of a short caller vector is RFault.  `stepf` =
   DataModel.step, the same function for callers that supply the documented number of elements
   (short vectors are completed with a default); it is what the correspondence executes and what
   the two-object machine of property C05 is built from.
   The inline accessors of vnadata.h compile their index tests out under
   -DVNADATA_NO_BOUNDS_CHECK; the model, the theorems and the correspondence are about the
   default build (the macro is not defined anywhere in the check's build).
   V is the abstract value type with the two constants the code uses (0 and 50 ohm). *)
Require Import List ZArith.
Require Import LV.Data.DataModel LV.Data.ArraySpec LV.Data.DataProofs LV.Data.RefineProofs
               LV.Data.ConvertModel LV.Data.InterleaveProofs.
Import ListNotations.

Section C15.
Variable V : Type.
Variables vzero vdef : V.
Notation vd := (vd V).
Notation stepf := (step V vzero vdef fixed).
Notation stepc := (step_chk V vzero vdef fixed).
Notation Inv := (Inv V vzero vdef).

(* The invariant (allocations cover the logical sizes; every frequency, cell and impedance outside
   the logical box holds its initial value; type/dimension rule; valid save options) holds after
   vnadata_alloc, is preserved by every operation for all arguments, hence holds in every state
   reachable by any operation sequence. *)
Theorem c15_inv_init : Inv (vd_alloc V vzero vdef).
Proof. exact (inv_alloc V vzero vdef). Qed.

Theorem c15_inv_step : forall d o, Inv d -> Inv (fst (stepf d o)) /\ Inv (fst (stepc d o)).
Proof. exact (fun d o H => conj (step_inv V vzero vdef d o H) (step_chk_inv V vzero vdef d o H)). Qed.

Theorem c15_inv_reachable : forall d, reachable V vzero vdef fixed d -> Inv d.
Proof. exact (inv_reachable V vzero vdef). Qed.

(* No operation accesses memory outside the allocations of the object (the model checks every
   access), for callers that supply vectors of the documented length: on a state satisfying the
   invariant an operation faults exactly when it reads past the end of a vector of the caller
   (the C code cannot check that length; such a call is a caller error outside the property). *)
Theorem c15_no_fault : forall d o, Inv d -> short_vector V d o = false -> o_ret V (snd (stepc d o)) <> RFault.
Proof. exact (step_chk_no_fault V vzero vdef). Qed.

Theorem c15_fault_iff_short_caller_vector : forall d o,
  Inv d -> (o_ret V (snd (stepc d o)) = RFault <-> short_vector V d o = true).
Proof. exact (step_chk_fault_iff V vzero vdef). Qed.

(* Any index outside [0,n), including n, is refused with the failure value (one error report,
   EINVAL) and no effect on the object: all 16 indexed accessors (14 with index arguments, every
   index position; get_fmin / get_fmax on an object without frequencies), in any state. *)
Theorem c15_index_n_refused : forall d o, bad_index V d o -> stepc d o = (d, fail V).
Proof. exact (index_refused_chk V vzero vdef). Qed.

(* A successful resize presents every newly exposed frequency, cell and impedance with its
   initial value and preserves the cells of the common flattened prefix. *)
Theorem c15_resize_exposes_initial : forall Q d t r c f,
  Inv d -> o_ret V (snd (resize V vzero vdef Q d t r c f)) = ROk ->
  let d' := fst (resize V vzero vdef Q d t r c f) in
  (forall i, freqs V d <= i -> fv V d' i = 0%Z) /\
  (forall i j, freqs V d <= i \/ cells V d <= j -> dat V d' i j = vzero) /\
  (per_f V d' = false -> forall j, ports V d <= j -> z0v V d' j = vdef) /\
  (per_f V d' = true -> forall i j, freqs V d <= i \/ ports V d <= j -> z0vv V d' i j = vdef) /\
  (forall i, i < freqs V d -> i < freqs V d' -> fv V d' i = fv V d i) /\
  (forall i j, i < freqs V d -> i < freqs V d' -> j < cells V d -> j < cells V d' -> dat V d' i j = dat V d i j).
Proof. exact (resize_exposes_initial V vzero vdef). Qed.

Theorem c15_resize_rejected_unchanged : forall Q d t r c f,
  o_ret V (snd (resize V vzero vdef Q d t r c f)) <> ROk -> fst (resize V vzero vdef Q d t r c f) = d.
Proof. exact (resize_rejected_unchanged V vzero vdef). Qed.

(* Type / dimension rules.  ArraySpec.dims_fit is the rule as the manual and the kinds of network
   parameters give it (s, z, y: n x n; t, u, h, g, a, b: 2 x 2; zin: 1 x n; undefined: any),
   written without reference to the model.  The model's function - read from validate_type of
   vnadata_alloc.c - decides exactly that rule; resize (hence init) and set_type accept exactly the
   requests that satisfy it; every reachable object satisfies it. *)
Theorem c15_model_type_rule_is_manual_rule : forall t r c, validate_type t r c = true <-> dims_fit t r c.
Proof. exact validate_type_manual. Qed.

Theorem c15_resize_accepts_iff : forall d tz r c f, Inv d ->
  (o_ret V (snd (stepf d (OResize V tz r c f))) = ROk <->
   exists t, vpt_of_Z tz = Some t /\ (0 <= r)%Z /\ (0 <= c)%Z /\ (0 <= f)%Z /\
             dims_fit t (Z.to_nat r) (Z.to_nat c) /\ (r * c <= INT_MAX)%Z).
Proof. exact (resize_accepts_iff V vzero vdef). Qed.

Theorem c15_set_type_accepts_iff : forall d tz,
  (o_ret V (snd (stepf d (OSetType V tz))) = ROk <->
   exists t, vpt_of_Z tz = Some t /\ dims_fit t (rows V d) (cols V d)) /\
  (forall t, vpt_of_Z tz = Some t -> dims_fit t (rows V d) (cols V d) ->
     ty V (fst (stepf d (OSetType V tz))) = t).
Proof. exact (set_type_accepts_iff V vzero vdef). Qed.

Theorem c15_reachable_dims_fit : forall d,
  reachable V vzero vdef fixed d -> dims_fit (ty V d) (rows V d) (cols V d).
Proof. exact (reachable_dims_fit V vzero vdef). Qed.

(* Refinement to the abstract array of ArraySpec (the documented behaviour, no allocations; its
   type rule is ArraySpec.type_rule, the decision procedure of dims_fit): forward simulation for
   EVERY one of the 32 operations - from related states, when the vector of a vector-taking setter
   has at least the documented length (ArraySpec.vec_ok, stated on the abstract array), the model
   and the specification produce the same outcome (return class, callbacks, payload) and related
   states ... *)
Theorem c15_data_refines_array_step : forall d a o,
  Inv d -> refines V d a -> vec_ok V a o -> sim_chk V vzero vdef d a o.
Proof. exact (sim_chk_step V vzero vdef). Qed.

(* ... hence for every operation history from vnadata_alloc whose vectors have the documented
   lengths at the moment they are passed (vecs_ok, again on the abstract side) every getter
   returns, and every call reports, exactly what the abstract array predicts. *)
Theorem c15_data_refines_array : forall l,
  vecs_ok V vzero vdef (arr_alloc V vzero vdef) l ->
  trace_chk V vzero vdef (vd_alloc V vzero vdef) l = spec_trace V vzero vdef (arr_alloc V vzero vdef) l.
Proof. exact (data_refines_array_chk V vzero vdef). Qed.

(* The premise excludes exactly the over-reads: under the refinement relation a call that reads
   past the caller's vector violates vec_ok. *)
Theorem c15_short_vector_violates_vec_ok : forall d a o,
  refines V d a -> short_vector V d o = true -> ~ vec_ok V a o.
Proof. exact (short_vector_not_ok V). Qed.

(* Two objects with equal logical contents cannot be told apart by any later history, whatever
   their allocation histories (shrink/regrow, conversions, ...) and whatever vectors are passed. *)
Theorem c15_indistinguishable : forall l d1 d2,
  Inv d1 -> Inv d2 -> arr_eq V (abs V d1) (abs V d2) -> trace_chk V vzero vdef d1 l = trace_chk V vzero vdef d2 l.
Proof. exact (indistinguishable_chk V vzero vdef). Qed.

(* Conversions interleaved.  In every state of the two-object machine of ConvertModel (container
   operations on either object, vnadata_convert in every direction - in place and out of place -,
   free + alloc; its invariant is c05_machine_invariant of property C05) an operation, and every
   further history of operations, on either object yields what the abstract array predicts from
   the logical contents of that object, and faults only past a short caller vector.  (What the
   conversion itself writes is property C05.) *)
Theorem c15_interleaved_refines_step : forall dd2 conv (l : list (mop V)) i o,
  let d := sel V (mrun V vzero vdef fixed dd2 conv (minit V vzero vdef) l) i in
  vec_ok V (abs V d) o -> sim_chk V vzero vdef d (abs V d) o.
Proof. exact (interleaved_sim V vzero vdef). Qed.

Theorem c15_interleaved_refines : forall dd2 conv (l : list (mop V)) i ops,
  let d := sel V (mrun V vzero vdef fixed dd2 conv (minit V vzero vdef) l) i in
  vecs_ok V vzero vdef (abs V d) ops ->
  trace_chk V vzero vdef d ops = spec_trace V vzero vdef (abs V d) ops.
Proof. exact (interleaved_trace V vzero vdef). Qed.

Theorem c15_interleaved_fault_iff : forall dd2 conv (l : list (mop V)) i o,
  let d := sel V (mrun V vzero vdef fixed dd2 conv (minit V vzero vdef) l) i in
  o_ret V (snd (stepc d o)) = RFault <-> short_vector V d o = true.
Proof. exact (interleaved_fault_iff V vzero vdef). Qed.

(* z0 mode rules of vnadata(3). *)
Theorem c15_fz0_mode_rules_set_z0 : forall d p v,
  Inv d -> in_range p (ports V d) = true ->
  let d' := fst (stepc d (OSetZ0 V p v)) in
  snd (stepc d (OSetZ0 V p v)) = ok V /\ per_f V d' = false /\ z0v V d' (Z.to_nat p) = v /\
  (forall j, j <> Z.to_nat p -> z0v V d' j = if per_f V d then vdef else z0v V d j).
Proof. exact (set_z0_rule V vzero vdef). Qed.

Theorem c15_fz0_mode_rules_set_fz0 : forall d f p v,
  Inv d -> in_range f (freqs V d) = true -> in_range p (ports V d) = true ->
  let d' := fst (stepc d (OSetFz0 V f p v)) in
  snd (stepc d (OSetFz0 V f p v)) = ok V /\ per_f V d' = true /\
  z0vv V d' (Z.to_nat f) (Z.to_nat p) = v /\
  (forall i j, i < freqs V d -> j < ports V d -> (i, j) <> (Z.to_nat f, Z.to_nat p) ->
     z0vv V d' i j = if per_f V d then z0vv V d i j else z0v V d j).
Proof. exact (set_fz0_rule V vzero vdef). Qed.

Theorem c15_fz0_mode_rules_getters : forall d f p,
  Inv d -> in_range f (freqs V d) = true -> in_range p (ports V d) = true ->
  stepc d (OGetZ0 V p) = (if per_f V d then (d, fail V) else (d, okp V (PVal V (z0v V d (Z.to_nat p))))) /\
  stepc d (OGetFz0 V f p) =
    (d, okp V (PVal V (if per_f V d then z0vv V d (Z.to_nat f) (Z.to_nat p) else z0v V d (Z.to_nat p)))).
Proof. exact (get_rules V vzero vdef). Qed.

(* Non-vacuity.  A reachable state that is not trivial - 2 x 3 x 4 after growing, filling,
   switching to per-frequency impedances, shrinking every dimension to 1 and regrowing every
   dimension beyond its former size; 50 allocated frequency rows - satisfies the invariant and
   shows preserved, re-exposed and freshly written cells ... *)
Theorem c15_inv_satisfiable :
  let d := run V vzero vdef fixed (vd_alloc V vzero vdef) (example_history V vzero vdef) in
  Inv d /\
  (rows V d, cols V d, freqs V d) = (2, 3, 4) /\ per_f V d = true /\
  (p_alloc V d, f_alloc V d, m_alloc V d) = (3, 50, 6) /\
  (let e := run V vzero vdef fixed (vd_alloc V vzero vdef) (firstn 6 (example_history V vzero vdef)) in
   (rows V e, cols V e, freqs V e) = (1, 1, 1)) /\
  dat V d 3 5 = vdef /\ dat V d 0 0 = vdef /\ dat V d 0 1 = vzero /\ z0vv V d 0 0 = vzero /\ z0vv V d 0 1 = vdef.
Proof. exact (inv_example V vzero vdef). Qed.

(* ... its history meets the premise of c15_data_refines_array (it passes a matrix of 4 and an
   impedance vector of 2 to a 2 x 2 object), and a history with a one-element matrix does not; *)
Theorem c15_vecs_ok_satisfiable :
  vecs_ok V vzero vdef (arr_alloc V vzero vdef) (example_history V vzero vdef) /\
  ~ vecs_ok V vzero vdef (arr_alloc V vzero vdef) [OInit V 1 2 2 1; OSetMatrix V 0 [vdef]].
Proof. exact (vecs_ok_example V vzero vdef). Qed.

(* the short caller vector: [OInit 1 2 2 1; OSetMatrix 0 [v]] reads 4 values from a buffer of one:
   fault in the checked step (the unchecked step completes the vector with zeros), no fault with 4; *)
Theorem c15_short_caller_vector_example :
  let d := run V vzero vdef fixed (vd_alloc V vzero vdef) [OInit V 1 2 2 1] in
  Inv d /\ short_vector V d (OSetMatrix V 0 [vdef]) = true /\
  o_ret V (snd (stepc d (OSetMatrix V 0 [vdef]))) = RFault /\
  o_ret V (snd (stepf d (OSetMatrix V 0 [vdef]))) = ROk /\
  short_vector V d (OSetMatrix V 0 [vdef; vzero; vzero; vdef]) = false /\
  o_ret V (snd (stepc d (OSetMatrix V 0 [vdef; vzero; vzero; vdef]))) = ROk.
Proof. exact (short_vector_example V vzero vdef). Qed.

(* index-n calls on concrete states meet the hypothesis of c15_index_n_refused (an explicit index,
   and the two accessors without one); *)
Theorem c15_index_n_refused_satisfiable :
  let d := run V vzero vdef fixed (vd_alloc V vzero vdef) [OInit V 1 3 3 1; OResize V 1 2 2 1] in
  bad_index V d (OGetZ0 V 2) /\ stepf d (OGetZ0 V 2) = (d, fail V).
Proof. exact (index_n_refused_example V vzero vdef). Qed.

Theorem c15_fmin_fmax_refused_satisfiable :
  let d := run V vzero vdef fixed (vd_alloc V vzero vdef) [OInit V 1 2 2 0] in
  bad_index V d (OGetFmin V) /\ stepc d (OGetFmin V) = (d, fail V) /\
  bad_index V d (OGetFmax V) /\ stepc d (OGetFmax V) = (d, fail V).
Proof. exact (fmin_refused_example V vzero vdef). Qed.

(* the type rule accepts and refuses something in each clause; *)
Theorem c15_dims_fit_examples :
  dims_fit VS 3 3 /\ ~ dims_fit VS 2 3 /\ dims_fit VH 2 2 /\ ~ dims_fit VH 3 3 /\ ~ dims_fit VT 1 1 /\
  dims_fit VZIN 1 4 /\ dims_fit VZIN 1 0 /\ ~ dims_fit VZIN 2 2 /\ dims_fit VUNDEF 2 3 /\ dims_fit VY 0 0.
Proof. exact dims_fit_examples. Qed.

(* and an interleaved history (fill S 2 x 2, convert out of place to Z, switch the copy to
   per-frequency impedances, convert it in place to Zin, shrink the source) reaches states to
   which the interleaving theorems apply non-trivially. *)
Theorem c15_interleaved_satisfiable : forall dd2 conv,
  let s := mrun V vzero vdef fixed dd2 conv (minit V vzero vdef) (example_mhistory V vzero vdef) in
  (ty V (sel V s true), rows V (sel V s true), cols V (sel V s true), freqs V (sel V s true)) = (VZIN, 1, 2, 1) /\
  per_f V (sel V s true) = true /\
  (ty V (sel V s false), rows V (sel V s false), cols V (sel V s false)) = (VS, 1, 1) /\
  bad_index V (sel V s true) (OGetCell V 0 1 0) /\
  vec_ok V (abs V (sel V s true)) (OSetMatrix V 0 [vdef; vdef]).
Proof. exact (interleaved_example V vzero vdef). Qed.

(* The code as found (before the repairs): index n = ports was accepted by the z0 accessors
   (D4), the access could leave the allocation, and convert_to_fz0 broke the invariant (D6).
   Each witness is a replayable script (corpus/C15). *)
Theorem c15_index_n_refused_refuted_as_found :
  exists d p, reachable V vzero vdef as_found d /\ bad_index V d (OGetZ0 V p) /\
              o_ret V (snd (step V vzero vdef as_found d (OGetZ0 V p))) = ROk.
Proof. exact (index_n_accepted_as_found V vzero vdef). Qed.

Theorem c15_no_fault_refuted_as_found :
  exists d p, reachable V vzero vdef as_found d /\
              o_ret V (snd (step V vzero vdef as_found d (OGetZ0 V p))) = RFault.
Proof. exact (fault_reachable_as_found V vzero vdef). Qed.

Theorem c15_inv_refuted_as_found : vzero <> vdef ->
  exists d, reachable V vzero vdef as_found d /\ ~ DataProofs.Inv V vzero vdef d.
Proof. exact (inv_refuted_as_found V vzero vdef). Qed.

End C15.

(* Print Assumptions after the section is closed, so that the report is about the closed terms
   (inside the section the section variables V, vzero, vdef would be listed). *)
Print Assumptions c15_inv_init.
Print Assumptions c15_inv_step.
Print Assumptions c15_inv_reachable.
Print Assumptions c15_no_fault.
Print Assumptions c15_fault_iff_short_caller_vector.
Print Assumptions c15_index_n_refused.
Print Assumptions c15_resize_exposes_initial.
Print Assumptions c15_resize_rejected_unchanged.
Print Assumptions c15_model_type_rule_is_manual_rule.
Print Assumptions c15_resize_accepts_iff.
Print Assumptions c15_set_type_accepts_iff.
Print Assumptions c15_reachable_dims_fit.
Print Assumptions c15_data_refines_array_step.
Print Assumptions c15_data_refines_array.
Print Assumptions c15_short_vector_violates_vec_ok.
Print Assumptions c15_indistinguishable.
Print Assumptions c15_interleaved_refines_step.
Print Assumptions c15_interleaved_refines.
Print Assumptions c15_interleaved_fault_iff.
Print Assumptions c15_fz0_mode_rules_set_z0.
Print Assumptions c15_fz0_mode_rules_set_fz0.
Print Assumptions c15_fz0_mode_rules_getters.
Print Assumptions c15_inv_satisfiable.
Print Assumptions c15_vecs_ok_satisfiable.
Print Assumptions c15_short_caller_vector_example.
Print Assumptions c15_index_n_refused_satisfiable.
Print Assumptions c15_fmin_fmax_refused_satisfiable.
Print Assumptions c15_dims_fit_examples.
Print Assumptions c15_interleaved_satisfiable.
Print Assumptions c15_index_n_refused_refuted_as_found.
Print Assumptions c15_no_fault_refuted_as_found.
Print Assumptions c15_inv_refuted_as_found.

(* ======================================================================================
   Session 5 (package H): any number of objects with conversions between them against the
   ABSTRACT machine in which vnadata_convert is one operation on arrays; the remaining accessors.
   Models: Data/TwoObjModel.v (concrete machine `nstep` over identifiers -> DataModel states,
   quirks = fixed, repair DD2 in the code; abstract machine `astep` over identifiers -> arrays with
   `spec_convert`), Data/AccessorsModel.v.  Lemmas: Data/TwoObjProofs.v, Data/AccessorsProofs.v. *)
Require Import String.
Require Import LV.Data.TwoObjModel LV.Data.TwoObjProofs LV.Data.AccessorsModel LV.Data.AccessorsProofs
               LV.Data.ConvertTheorems.

(* every object satisfies the representation invariant after every history of container
   operations on any object (any argument values, short caller vectors included), conversions in
   any direction (dst = src included) and free + alloc *)
Theorem c15_machine_invariant : forall (V : Type) (vzero vdef : V) conv l i,
  Inv V vzero vdef (nrun V vzero vdef conv (ninit V vzero vdef) l i).
Proof. exact nrun_inv_init. Qed.
Print Assumptions c15_machine_invariant.

(* one step from any valid state related to any abstract state: same outcome, related states;
   the abstract view of vnadata_convert(src, dst, t) is "dst becomes spec_convert (src)" *)
Theorem c15_machine_refines_step : forall (V : Type) (vzero vdef : V) conv s A m,
  NInv V vzero vdef s -> NRef V s A -> nvec_ok V A m ->
  snd (nstep V vzero vdef conv s m) = snd (astep V vzero vdef conv A m) /\
  NRef V (fst (nstep V vzero vdef conv s m)) (fst (astep V vzero vdef conv A m)).
Proof. exact nstep_refines. Qed.
Print Assumptions c15_machine_refines_step.

(* HEADLINE: for every history over any number of objects in which every vector handed to a vector
   setter has the documented length, the outcomes (return class, error reports, payload of every
   getter) of the concrete machine are those of the abstract machine, and every object's logical
   contents are the abstract array *)
Theorem c15_machine_refines_abstract : forall (V : Type) (vzero vdef : V) conv l,
  nvecs_ok V vzero vdef conv (ainit V vzero vdef) l ->
  ntrace V vzero vdef conv (ninit V vzero vdef) l = atrace V vzero vdef conv (ainit V vzero vdef) l /\
  NRef V (nrun V vzero vdef conv (ninit V vzero vdef) l) (arun V vzero vdef conv (ainit V vzero vdef) l).
Proof. exact machine_refines_abstract. Qed.
Print Assumptions c15_machine_refines_abstract.

(* ... so the single-object container theorems apply to every object after every such history *)
Theorem c15_machine_object_trace : forall (V : Type) (vzero vdef : V) conv l i ops,
  nvecs_ok V vzero vdef conv (ainit V vzero vdef) l ->
  vecs_ok V vzero vdef (arun V vzero vdef conv (ainit V vzero vdef) l i) ops ->
  trace_chk V vzero vdef (nrun V vzero vdef conv (ninit V vzero vdef) l i) ops =
  spec_trace V vzero vdef (arun V vzero vdef conv (ainit V vzero vdef) l i) ops.
Proof. exact interleaved_object_trace. Qed.
Print Assumptions c15_machine_object_trace.

(* the only access outside an allocation in any valid state: reading past a short caller vector *)
Theorem c15_machine_fault_iff : forall (V : Type) (vzero vdef : V) conv s m,
  NInv V vzero vdef s ->
  (o_ret V (snd (nstep V vzero vdef conv s m)) = RFault <->
   exists i o, m = NOn V i o /\ short_vector V (s i) o = true).
Proof. exact nstep_fault_iff. Qed.
Print Assumptions c15_machine_fault_iff.

(* the two-object machine that the extracted driver of the correspondence executes is this machine
   on the identifiers 0 and 1 *)
Theorem c15_two_object_machine_embeds : forall (V : Type) (vzero vdef : V) conv s m,
  mshort V s m = false ->
  let ns := embed_state V vzero vdef s in
  let r := mstep V vzero vdef fixed true conv s m in
  (forall k, nrun V vzero vdef conv ns (embed_op V m) k = embed_state V vzero vdef (fst r) k) /\
  last (ntrace V vzero vdef conv ns (embed_op V m)) (ok V) = snd r.
Proof. exact two_object_machine_embeds. Qed.
Print Assumptions c15_two_object_machine_embeds.

(* non-vacuity: three objects, conversions out of place, in place and as a copy, free + alloc *)
Theorem c15_machine_satisfiable : forall (V : Type) (vzero vdef : V) conv,
  nvecs_ok V vzero vdef conv (ainit V vzero vdef) (example_nhistory V vzero vdef) /\
  let A := arun V vzero vdef conv (ainit V vzero vdef) (example_nhistory V vzero vdef) in
  (a_ty V (A 0), a_rows V (A 0), a_freqs V (A 0)) = (VUNDEF, 0, 0) /\
  (a_ty V (A 1), a_rows V (A 1), a_cols V (A 1), a_freqs V (A 1), a_perf V (A 1)) = (VZIN, 1, 2, 1, true) /\
  (a_ty V (A 2), a_rows V (A 2), a_cols V (A 2), a_freqs V (A 2), a_perf V (A 2)) = (VZIN, 1, 2, 1, true) /\
  a_dat V (A 1) 0 1 = vdef /\ a_fv V (A 1) 0 = 5%Z /\ a_fz0 V (A 1) 0 0 = vzero /\
  (let r := conv (FN VS VZ) 2 [vdef; vzero; vzero; vdef] [vzero; vdef] in
   a_dat V (A 2) 0 0 =
     nth 0 (conv (FIN VZ) 2 [nth 0 r vzero; nth 1 r vzero; nth 2 r vzero; nth 3 r vzero] [vzero; vdef]) vzero) /\
  atrace V vzero vdef conv (ainit V vzero vdef) (example_nhistory V vzero vdef) = repeat (ok V) 9.
Proof. exact machine_example. Qed.
Print Assumptions c15_machine_satisfiable.

(* vnadata_alloc_and_init: accepted exactly when the type code is valid, the dimensions are
   non-negative and fit the type and rows * columns <= INT_MAX; the object is valid and entirely
   initial (0, 0, 50 ohm, ordinary mode, default options); otherwise NULL and one error report *)
Theorem c15_alloc_and_init : forall (V : Type) (vzero vdef : V) tz r c f,
  match resize_cond tz r c f with
  | Some t => exists d, alloc_and_init V vzero vdef tz r c f = (Some d, ok V) /\ Inv V vzero vdef d /\
                        arr_eq V (abs V d) (fresh_arr V vzero vdef t (Z.to_nat r) (Z.to_nat c) (Z.to_nat f))
  | None => alloc_and_init V vzero vdef tz r c f = (None, fail V)
  end.
Proof. exact alloc_and_init_spec. Qed.
Print Assumptions c15_alloc_and_init.

(* vnadata_get_type_name: NULL exactly outside 0..10, different codes have different names *)
Theorem c15_type_name_null_iff : forall tz, type_name tz = None <-> (tz < 0 \/ 10 < tz)%Z.
Proof. exact type_name_null_iff. Qed.
Print Assumptions c15_type_name_null_iff.
Theorem c15_type_name_injective : forall a b s, type_name a = Some s -> type_name b = Some s -> a = b.
Proof. exact type_name_injective. Qed.
Print Assumptions c15_type_name_injective.

(* the format: vector + cached string as coded.  In every history of vnadata_set_format calls
   (clearing and refused calls included) on any number of objects and conversions between
   different objects, vnadata_get_format of every object is the last accepted argument of that
   object (NULL after a clear), conversions copying it - i.e. the single field `fmt` of DataModel *)
Theorem c15_format_histories : forall (tok : Type) l i,
  get_format_c tok (frun tok false (fun _ => f_new tok) l i) = arunf tok (fun _ => None) l i.
Proof. exact format_histories. Qed.
Print Assumptions c15_format_histories.

(* ... which the variant that keeps the old string when the vector becomes empty violates (set,
   clear, convert into a second object: both objects report the cleared format) *)
Theorem c15_format_stale_string_refuted : forall (tok : Type) (t : tok),
  let l := [FSet tok 0 (Some [Some t]); FSet tok 0 None; FCarry tok 0 1] in
  arunf tok (fun _ => None) l 0 = None /\ arunf tok (fun _ => None) l 1 = None /\
  get_format_c tok (frun tok true (fun _ => f_new tok) l 0) = Some [t] /\
  get_format_c tok (frun tok true (fun _ => f_new tok) l 1) = Some [t] /\
  get_format_c tok (frun tok false (fun _ => f_new tok) l 0) = None /\
  get_format_c tok (frun tok false (fun _ => f_new tok) l 1) = None.
Proof. exact stale_string_refuted. Qed.
Print Assumptions c15_format_stale_string_refuted.

(* Session 5, second part: the machine that the extracted driver executes over the FOUR object
   slots of harness/data_harness.c (TwoObjModel.kstep: container operations by DataModel.step,
   quirks and DD2 variant as parameters) is the machine of the theorems above for the code as it is
   and callers that supply vectors of the documented length; the correspondence now converts among
   all four objects, so c15_two_object_machine_embeds is no longer the only bridge *)
Theorem c15_executed_machine_is_nstep : forall (V : Type) (vzero vdef : V) conv s m,
  (forall i o, m = NOn V i o -> short_vector V (s i) o = false) ->
  kstep V vzero vdef conv fixed true s m = nstep V vzero vdef conv s m.
Proof. exact kstep_is_nstep. Qed.
Print Assumptions c15_executed_machine_is_nstep.

(* ======================================================================================
   After the second review (Data/AccessorsModel.v / AccessorsProofs.v, section "More"). *)

(* the four pointer getters answer NULL - the documented failure value - to a SUCCESSFUL call
   exactly when the allocation behind the pointer is still 0 (AccessorsModel.ptr_null, tied by the
   raw-pointer token of the correspondence); then the vector has no element: nothing can be read
   through the pointer *)
Theorem c15_null_pointer_only_when_empty : forall (V : Type) (vzero vdef : V) d o,
  Inv V vzero vdef d -> ptr_null V d o = true -> o_ret V (snd (step V vzero vdef fixed d o)) = ROk ->
  o_pay V (snd (step V vzero vdef fixed d o)) = PVals V [] \/ o_pay V (snd (step V vzero vdef fixed d o)) = PFreqs [].
Proof. exact null_pointer_only_when_empty. Qed.
Print Assumptions c15_null_pointer_only_when_empty.

(* fmin / fmax (first / last element) are the lowest / highest frequency of the manual when the
   vector ascends ... *)
Theorem c15_fmin_fmax_lowest_highest_when_ascending : forall (V : Type) (vzero vdef : V) (a : arr V) x,
  ascending V a ->
  (snd (spec_step V vzero vdef a (OGetFmin V)) = okp V (PFreq x) -> is_lowest V a x) /\
  (snd (spec_step V vzero vdef a (OGetFmax V)) = okp V (PFreq x) -> is_highest V a x).
Proof. exact fmin_fmax_lowest_highest_when_ascending. Qed.
Print Assumptions c15_fmin_fmax_lowest_highest_when_ascending.

(* ... and are not for an unordered vector, which the container accepts: the manual's wording is
   refuted of the code (observation, proposed manual patch fixes/proposed/DH91) *)
Theorem c15_fmin_fmax_lowest_highest_refuted_unordered : forall (V : Type) (vzero vdef : V),
  let d := run V vzero vdef fixed (vd_alloc V vzero vdef) (unordered_history V) in
  snd (step V vzero vdef fixed d (OGetFmin V)) = okp V (PFreq 3%Z) /\
  snd (step V vzero vdef fixed d (OGetFmax V)) = okp V (PFreq 2%Z) /\
  snd (spec_step V vzero vdef (abs V d) (OGetFmin V)) = okp V (PFreq 3%Z) /\
  snd (spec_step V vzero vdef (abs V d) (OGetFmax V)) = okp V (PFreq 2%Z) /\
  ~ is_lowest V (abs V d) 3%Z /\ ~ is_highest V (abs V d) 2%Z.
Proof. exact fmin_fmax_lowest_highest_refuted_unordered. Qed.
Print Assumptions c15_fmin_fmax_lowest_highest_refuted_unordered.

(* vnadata_add_frequency presents the new row with its initial values *)
Theorem c15_add_frequency_exposes_initial : forall (V : Type) (vzero vdef : V) d x,
  Inv V vzero vdef d -> o_ret V (snd (step V vzero vdef fixed d (OAddFreq V x))) = ROk ->
  let d' := fst (step V vzero vdef fixed d (OAddFreq V x)) in
  freqs V d' = freqs V d + 1 /\ fv V d' (freqs V d) = x /\
  (forall j, dat V d' (freqs V d) j = vzero) /\
  (per_f V d' = true -> forall p, z0vv V d' (freqs V d) p = vdef) /\
  (rows V d', cols V d', ty V d', per_f V d') = (rows V d, cols V d, ty V d, per_f V d).
Proof. exact add_frequency_exposes_initial. Qed.
Print Assumptions c15_add_frequency_exposes_initial.

(* a refused vnadata_init has emptied the object (unlike a refused vnadata_resize) *)
Theorem c15_init_rejected_is_empty : forall (V : Type) (vzero vdef : V) d tz r c f,
  Inv V vzero vdef d -> resize_cond tz r c f = None ->
  let res := step V vzero vdef fixed d (OInit V tz r c f) in
  snd res = fail V /\
  (ty V (fst res), rows V (fst res), cols V (fst res), freqs V (fst res), per_f V (fst res)) = (VUNDEF, 0, 0, 0, false).
Proof. exact init_rejected_is_empty. Qed.
Print Assumptions c15_init_rejected_is_empty.

(* which frequency setter refuses which value: vnadata_set_frequency and
   vnadata_set_frequency_vector store any value (negative, zero, unordered, repeated); only
   vnadata_add_frequency refuses a negative one (fifth seeding round: the generators of the
   correspondence now draw such values, and vnadata_convert must carry them unchanged) *)
Theorem c15_frequency_setters_accept_any_value : forall (V : Type) (vzero vdef : V) d,
  Inv V vzero vdef d ->
  (forall i x, in_range i (freqs V d) = true ->
     snd (step V vzero vdef fixed d (OSetFreq V i x)) = ok V /\
     fv V (fst (step V vzero vdef fixed d (OSetFreq V i x))) (Z.to_nat i) = x) /\
  (forall l, snd (step V vzero vdef fixed d (OSetFreqVec V l)) = ok V /\
             forall k, k < freqs V d -> fv V (fst (step V vzero vdef fixed d (OSetFreqVec V l))) k = nth k l 0%Z) /\
  (forall x, snd (step V vzero vdef fixed d (OAddFreq V x)) = fail V <-> (x < 0)%Z).
Proof. exact frequency_setters_accept_any_value. Qed.
Print Assumptions c15_frequency_setters_accept_any_value.
