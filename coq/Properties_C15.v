Require Import LV.Data.DataModel LV.Data.DataProofs.
