(* C08 - equivalent spellings of a Touchstone / NPD file load to the same network data.
   Theorems only; model in Files/NpdScan.v.  Only the NPD header clause is proved; the other
   clauses of the property are covered by the spelling generator of checks/C08.py (support). *)
Require Import List Bool Permutation.
Import ListNotations.
Require Import LV.Files.NpdScan LV.Files.NpdScanProofs.

(* npd_header_order: NPD header lines (version, ports, rows, columns, frequencies, parameters,
   fprecision, dprecision - each at most once) in any order give the same loader state.
   Partial: the #:z0 line, which must follow the port count, is not in the model. *)
Theorem npd_header_order_partial : forall l1 l2 : list hline,
  Permutation l1 l2 -> NoDup (map hkey l1) ->
  header_result (hrun l1) = header_result (hrun l2).
Proof. exact npd_header_order_lemma. Qed.
Print Assumptions npd_header_order_partial.

Example npd_header_order_instance :
  header_result (hrun [HDprecision 6; HParameters [Build_entry PS RI]; HFrequencies 2; HPorts 3; HVersion true]) =
  Some (3, 2, [Build_entry PS RI]) /\
  header_result (hrun [HVersion true; HPorts 3; HFrequencies 2; HParameters [Build_entry PS RI]; HDprecision 6]) =
  Some (3, 2, [Build_entry PS RI]).
Proof. exact header_order_example. Qed.

(* the hypothesis "each keyword at most once" is needed *)
Example npd_header_duplicates_matter :
  header_result (hrun [HPorts 1; HFrequencies 1; HFrequencies 2; HParameters []]) <>
  header_result (hrun [HPorts 1; HFrequencies 2; HFrequencies 1; HParameters []]).
Proof. exact header_duplicates. Qed.
