(* C08 - equivalent spellings of a Touchstone / NPD file load to the same network data.
   Theorems only; models in Files/TsTok.v (tokenizer), Files/TsParse.v (parser), Files/TsSpec.v (inverse grammar:
   the token stream of an abstract well-formed file and the object it must load to), Files/NpdScan.v,
   Files/NpdLoad.v; lemmas in Files/TsLoadV2.v, TsLoadV1.v, TsEquiv.v, TsMatrix.v, TsSpecV2.v, TsTokProofs.v,
   TsParseBasics.v, NpdScanProofs.v, NpdLoadProofs.v; concrete files in Files/TsExamples.v.

   Numbers are exact (rationals, infinities, NaN); the conversion of an MA / DB pair to a complex number is not
   modelled (a cell keeps the pair as written), so "RI vs MA vs DB" is not a theorem here (checks/C08.py tests it). *)
Require Import List NArith ZArith QArith Qcanon Bool Permutation.
Import ListNotations.
Require Import LV.Files.NpdScan LV.Files.NpdScanProofs LV.Files.NpdLoad LV.Files.NpdLoadProofs.
Require Import LV.Files.TsTok LV.Files.TsTokProofs LV.Files.TsParse LV.Files.TsParseBasics LV.Files.TsSpec.
Require Import LV.Files.TsSpecV2 LV.Files.TsMatrix LV.Files.TsLoadV2 LV.Files.TsLoadV1 LV.Files.TsEquiv LV.Files.TsRender.
Require Import LV.Files.TsExamples.

(* ==== each spelling loads to the ground truth it was generated from ====================================== *)

(* v2_load: the token stream of every well-formed version-2 file (any number of ports up to 46340, any number of
   frequency records, Full / Upper / Lower, with or without [Two-Port Order], [Matrix Format], [Reference], [End])
   parses to the object the file describes. *)
Theorem v2_load : forall f : v2file, v2_wf f -> parse (v2_stream f) = Ok (v2_result f).
Proof. exact v2_load_lemma. Qed.
Print Assumptions v2_load.

(* v1_load: the same for every well-formed version-1 file (1 to 4 ports, one or more frequencies, optional noise
   lines after 2-port data); includes the inference of the port count from the first line, the 2-port / 4-port
   disambiguation on the second line, the N11 N21 N12 N22 order and the un-normalisation of Z/Y/H/G data. *)
Theorem v1_load : forall g : v1file, v1_wf g -> parse (v1_stream g) = Ok (v1_result g).
Proof. exact v1_load_lemma. Qed.
Print Assumptions v1_load.

(* from bytes: the plain spelling of a token stream (a blank after every token, a newline where the stream has one) is
   read back by the tokenizer, for every stream of newlines, '#', [keywords] and upper-case words whose option-line
   flags are the ones the scanner computes; hence every well-formed abstract file has a byte string that the loader
   model loads to the object the file describes. *)
Theorem plain_spelling_tokens : forall s : list rtok, seg_ok false s -> tokens (render_stream s) = s ++ [REof].
Proof. exact render_tokens_lemma. Qed.
Print Assumptions plain_spelling_tokens.

Theorem v2_load_bytes : forall f : v2file, v2_wf f -> v2_texts_ok f ->
  tokens (render_stream (v2_body f)) = v2_stream f /\ load_ts (render_stream (v2_body f)) = Ok (v2_result f).
Proof. exact v2_load_bytes_lemma. Qed.
Print Assumptions v2_load_bytes.

Theorem v1_load_bytes : forall g : v1file, v1_wf g -> v1_texts_ok g ->
  tokens (render_stream (v1_body g)) = v1_stream g /\ load_ts (render_stream (v1_body g)) = Ok (v1_result g).
Proof. exact v1_load_bytes_lemma. Qed.
Print Assumptions v1_load_bytes.

Example load_bytes_instance :
  (v2_texts_ok ex2_upper /\ v1_texts_ok ex1_two /\ v1_texts_ok ex1_four) /\
  (render_stream (v2_body ex2_upper) <> ex2_upper_bytes /\ tokens (render_stream (v2_body ex2_upper)) = tokens ex2_upper_bytes /\
   tokens (render_stream (v1_body ex1_four)) = tokens ex1_four_bytes).
Proof. exact (conj ex_texts_ok ex_render_same_tokens). Qed.

(* the hypotheses are met by concrete files, given as bytes: a 3-port Upper MHz file ... *)
Example v2_load_instance :
  v2_wf ex2_upper /\ tokens ex2_upper_bytes = v2_stream ex2_upper /\ load_ts ex2_upper_bytes = Ok (v2_result ex2_upper).
Proof. exact v2_load_instance_all. Qed.
Example v2_load_instance_object :
  match load_ts ex2_upper_bytes with
  | Ok o => o_v2 o = true /\ o_type o = PS /\ o_fmt o = FRI /\ o_ports o = 3%nat /\
            xsview (o_freqs o) = [inl (100000000 # 1); inl (250500000 # 1)] /\
            xsview (o_z0 o) = [inl (75 # 1); inl (75 # 1); inl (75 # 1)] /\
            map (@length cell) (o_cells o) = [9%nat; 9%nat] /\
            nth 5 (nth 0 (o_cells o) []) cell0 = nth 7 (nth 0 (o_cells o) []) cell0 /\
            cview (nth 5 (nth 0 (o_cells o) []) cell0) = (inl (3 # 2), inl (4 # 25), inl (1 # 1))
  | Error _ => False
  end.
Proof. exact ex2_upper_object. Qed.
(* ... a 2-port version-1 file with noise lines and a 4-port version-1 Z file (un-normalised by R = 50) *)
Example v1_load_instance :
  v1_wf ex1_two /\ tokens ex1_two_bytes = v1_stream ex1_two /\ load_ts ex1_two_bytes = Ok (v1_result ex1_two) /\
  v1_wf ex1_four /\ tokens ex1_four_bytes = v1_stream ex1_four /\ load_ts ex1_four_bytes = Ok (v1_result ex1_four).
Proof. exact v1_load_instance_all. Qed.
Example v1_load_instance_object :
  match load_ts ex1_four_bytes with
  | Ok o => o_v2 o = false /\ o_type o = PZ /\ o_fmt o = FRI /\ o_ports o = 4%nat /\
            xsview (o_freqs o) = [inl (10000 # 1); inl (20000 # 1)] /\ xsview (o_z0 o) = repeat (inl (50 # 1)) 4 /\
            map (@length cell) (o_cells o) = [16%nat; 16%nat] /\
            cview (nth 1 (nth 0 (o_cells o) []) cell0) = (inl (51 # 1), inl (- 2 # 1), inl (1 # 1)) /\
            cview (nth 15 (nth 1 (o_cells o) []) cell0) = (inl (108 # 1), inl (- 19 # 2), inl (1 # 1))
  | Error _ => False
  end.
Proof. exact ex1_four_object. Qed.

(* a sweep may start at DC: v1_wf asks only that no frequency is negative (and that they ascend), so a first frequency of
   exactly 0 is covered by v1_load, as it is by v2_load and by the NPD loader *)
Example v1_load_dc_start_instance :
  v1_wf ex1_dc /\ tokens ex1_dc_bytes = v1_stream ex1_dc /\ load_ts ex1_dc_bytes = Ok (v1_result ex1_dc) /\
  xsview (o_freqs (v1_result ex1_dc)) = [inl (0 # 1); inl (1000000000 # 1)].
Proof. exact ex1_dc_start. Qed.

(* ==== equivalent spellings load to the same object ======================================================== *)

(* v2_same_content: two well-formed version-2 files with the same type, format, R, port count, [Reference] values,
   frequencies (unit x number) and matrices (after placing the listed pairs) load to the same object. *)
Theorem v2_same_content : forall f1 f2 : v2file, v2_wf f1 -> v2_wf f2 -> v2_equiv f1 f2 ->
  parse (v2_stream f1) = parse (v2_stream f2) /\ parse (v2_stream f1) = Ok (v2_result f1).
Proof. exact v2_equiv_load_lemma. Qed.
Print Assumptions v2_same_content.

Example v2_same_content_instance :
  v2_wf ex2_upper /\ v2_wf ex2_lower /\ v2_wf ex2_full /\ v2_equiv ex2_upper ex2_lower /\ v2_equiv ex2_upper ex2_full.
Proof. exact v2_same_content_instance_all. Qed.

(* unit_scaling: Hz / kHz / MHz / GHz / THz with correspondingly scaled frequency numbers (and any re-spelling of
   the other numbers that keeps their values). *)
Theorem unit_scaling : forall f1 f2 : v2file, v2_wf f1 -> v2_wf f2 ->
  let h1 := opts_hdr true (f_opts f1) in
  let h2 := opts_hdr true (f_opts f2) in
  h_type h1 = h_type h2 -> h_fmt h1 = h_fmt h2 -> h_z0 h1 = h_z0 h2 ->
  f_n f1 = f_n f2 -> f_order f1 = f_order f2 -> f_mf f1 = f_mf f2 ->
  option_map (map n_val) (f_ref f1) = option_map (map n_val) (f_ref f2) ->
  Forall2 (fun r1 r2 => xmul (XQ (h_mult h1)) (n_val (fst r1)) = xmul (XQ (h_mult h2)) (n_val (fst r2)) /\ same_values r1 r2)
          (f_records f1) (f_records f2) ->
  parse (v2_stream f1) = parse (v2_stream f2).
Proof. exact unit_scaling_load_lemma. Qed.
Print Assumptions unit_scaling.

(* the arithmetic is exact: x in a unit of k Hz is k x Hz *)
Theorem unit_scale_exact : forall (k : Z) (q : Qc), xmul (XQ (qcz k)) (XQ q) = xmul (XQ (qcz 1)) (XQ (qcz k * q)%Qc).
Proof. exact unit_scale_value. Qed.
Print Assumptions unit_scale_exact.

(* the same for version 1, where in addition the noise lines do not matter *)
Theorem v1_same_content : forall g1 g2 : v1file, v1_wf g1 -> v1_wf g2 ->
  let h1 := opts_hdr false (g_opts g1) in
  let h2 := opts_hdr false (g_opts g2) in
  h_type h1 = h_type h2 -> h_fmt h1 = h_fmt h2 -> h_z0 h1 = h_z0 h2 -> g_ports g1 = g_ports g2 ->
  Forall2 (fun r1 r2 => xmul (XQ (h_mult h1)) (n_val (fst r1)) = xmul (XQ (h_mult h2)) (n_val (fst r2)) /\ same_values r1 r2)
          (g_records g1) (g_records g2) ->
  parse (v1_stream g1) = parse (v1_stream g2).
Proof. exact v1_equiv_load_lemma. Qed.
Print Assumptions v1_same_content.

(* option_order / option_default / option_last_wins: the fields of the option line in any order (each kind at
   most once); a field that spells the default (GHz, S, MA, R 50) omitted; of two fields of a kind the last wins. *)
Theorem option_order : forall (f : v2file) (fs : list ofield), v2_wf f -> Permutation (f_opts f) fs ->
  NoDup (map okind_of (f_opts f)) -> parse (v2_stream (with_opts f fs)) = parse (v2_stream f).
Proof. exact option_order_load_lemma. Qed.
Print Assumptions option_order.

Theorem option_default : forall (f : v2file) fs1 d fs2, v2_wf f -> f_opts f = fs1 ++ d :: fs2 -> is_default d ->
  ~ In (okind_of d) (map okind_of fs1) -> parse (v2_stream (with_opts f (fs1 ++ fs2))) = parse (v2_stream f).
Proof. exact option_default_load_lemma. Qed.
Print Assumptions option_default.

Theorem option_last_wins : forall (f : v2file) fs1 x fs2 y, v2_wf f -> f_opts f = fs1 ++ x :: fs2 ++ [y] ->
  okind_of x = okind_of y -> parse (v2_stream (with_opts f (fs1 ++ fs2 ++ [y]))) = parse (v2_stream f).
Proof. exact option_last_wins_load_lemma. Qed.
Print Assumptions option_last_wins.

(* the option line as a function of the header alone (any version): order, defaults, last wins *)
Theorem option_line_header : forall v2 fs1 fs2, Permutation fs1 fs2 -> NoDup (map okind_of fs1) -> Forall ofield_ok fs1 ->
  opts_hdr v2 fs1 = opts_hdr v2 fs2.
Proof. exact option_order_lemma. Qed.
Print Assumptions option_line_header.

Example option_order_instance :
  Permutation (f_opts ex2_upper) ex2_opts_permuted /\ NoDup (map okind_of (f_opts ex2_upper)).
Proof. exact ex2_option_perm. Qed.

(* matrix_format_equiv / two_port_order: the same matrices listed in the order of [Matrix Format] Full, Upper or
   Lower (Upper / Lower for symmetric matrices) and of [Two-Port Order] 12_21 or 21_12 (n x n Full listing by
   rows or by columns; for n = 2 this is the two-port order) load to the same object; for every number of ports. *)
Theorem matrix_format_equiv : forall (f1 f2 : v2file) (Ms : list mat), v2_wf f1 -> v2_wf f2 ->
  opts_hdr true (f_opts f1) = opts_hdr true (f_opts f2) -> f_n f1 = f_n f2 ->
  option_map (map n_val) (f_ref f1) = option_map (map n_val) (f_ref f2) ->
  map (fun r => n_val (fst r)) (f_records f1) = map (fun r => n_val (fst r)) (f_records f2) ->
  map (fun r => map n_val (snd r)) (f_records f1) = map (listing (f_mf f1) (f_tr f1) (f_n f1)) Ms ->
  map (fun r => map n_val (snd r)) (f_records f2) = map (listing (f_mf f2) (f_tr f2) (f_n f2)) Ms ->
  (f_mf f1 <> MFull \/ f_mf f2 <> MFull -> Forall (symmetric (f_n f1)) Ms) ->
  parse (v2_stream f1) = parse (v2_stream f2).
Proof. exact matrix_format_load_lemma. Qed.
Print Assumptions matrix_format_equiv.

Theorem matrix_placement : forall n (M : mat) tr tr', symmetric n M ->
  build_matrix MUpper tr n (nums_of (upper_pairs n M)) = build_matrix MFull false n (nums_of (full_pairs n M)) /\
  build_matrix MLower tr' n (nums_of (lower_pairs n M)) = build_matrix MFull false n (nums_of (full_pairs n M)).
Proof. exact matrix_format_equiv_lemma. Qed.
Print Assumptions matrix_placement.

Theorem two_port_order_placement : forall n (M : mat),
  build_matrix MFull true n (nums_of (full_pairs n (transposed M))) = build_matrix MFull false n (nums_of (full_pairs n M)).
Proof. exact two_port_order_equiv_lemma. Qed.
Print Assumptions two_port_order_placement.

Example matrix_format_instance :
  Forall (symmetric 3) ex2_Ms /\
  map (fun r => map n_val (snd r)) (f_records ex2_upper) = map (listing (f_mf ex2_upper) (f_tr ex2_upper) (f_n ex2_upper)) ex2_Ms /\
  map (fun r => map n_val (snd r)) (f_records ex2_lower) = map (listing (f_mf ex2_lower) (f_tr ex2_lower) (f_n ex2_lower)) ex2_Ms /\
  map (fun r => map n_val (snd r)) (f_records ex2_full) = map (listing (f_mf ex2_full) (f_tr ex2_full) (f_n ex2_full)) ex2_Ms.
Proof. exact matrix_format_instance_all. Qed.

(* v1_v2_equiv: the version-1 and the version-2 framing of the same S-parameter data ([Two-Port Order] 21_12 for two
   ports, as a version-1 line lists N11 N21 N12 N22) hold the same data; for Z/Y/H/G data, which version 1 stores
   normalised to R, the version-1 cells are the un-normalised version-2 cells (v1_v2_unnormalised). *)
Theorem v1_v2_equiv : forall (g : v1file) (pt nt : inum) (e : bool), v1_wf g ->
  inum_ok pt -> i_val pt = Z.of_nat (g_ports g) -> inum_ok nt -> i_val nt = Z.of_nat (length (g_records g)) ->
  h_type (opts_hdr false (g_opts g)) = PS ->
  exists a b, parse (v1_stream g) = Ok a /\ parse (v2_stream (v2_of_v1 g pt nt e)) = Ok b /\ same_data a b.
Proof. exact v1_v2_equiv_lemma. Qed.
Print Assumptions v1_v2_equiv.

Theorem v1_v2_unnormalised : forall (g : v1file) (pt nt : inum) (e : bool), v1_wf g ->
  inum_ok pt -> i_val pt = Z.of_nat (g_ports g) -> inum_ok nt -> i_val nt = Z.of_nat (length (g_records g)) ->
  exists a b, parse (v1_stream g) = Ok a /\ parse (v2_stream (v2_of_v1 g pt nt e)) = Ok b /\
    o_v2 a = false /\ o_v2 b = true /\
    o_type a = o_type b /\ o_fmt a = o_fmt b /\ o_ports a = o_ports b /\ o_freqs a = o_freqs b /\ o_z0 a = o_z0 b /\
    o_cells a = map (unnormalise (opts_hdr false (g_opts g))) (o_cells b).
Proof. exact v1_v2_unnormalised_lemma. Qed.
Print Assumptions v1_v2_unnormalised.

Example v1_v2_equiv_instance :
  v1_wf ex1_two /\
  (inum_ok ex_two /\ i_val ex_two = Z.of_nat (g_ports ex1_two) /\
   i_val ex_two = Z.of_nat (length (g_records ex1_two)) /\ h_type (opts_hdr false (g_opts ex1_two)) = PS) /\
  tokens ex1_two_as_v2_bytes = v2_stream (v2_of_v1 ex1_two ex_two ex_two true) /\
  match load_ts ex1_two_bytes, load_ts ex1_two_as_v2_bytes with
  | Ok a, Ok b => same_data a b /\ o_v2 a = false /\ o_v2 b = true /\ o_ports a = 2%nat /\ length (o_cells a) = 2%nat
  | _, _ => False
  end.
Proof. exact v1_v2_equiv_instance_all. Qed.

(* ==== decoration of the bytes: case, spacing, comments, blank lines, line breaks =========================== *)

(* tok_case: next_char upper-cases every byte, so inputs that agree after upper-casing give the same tokens and
   load to the same result; in particular swapping the case of every letter changes nothing. *)
Theorem tok_case_insensitive : forall l1 l2, map upcase l1 = map upcase l2 -> tokens l1 = tokens l2 /\ load_ts l1 = load_ts l2.
Proof. exact (fun l1 l2 H => conj (tok_case_insensitive_lemma l1 l2 H) (load_case_insensitive_lemma l1 l2 H)). Qed.
Print Assumptions tok_case_insensitive.

Theorem load_swapcase : forall l, load_ts (map swapcase l) = load_ts l.
Proof. exact load_swapcase_lemma. Qed.
Print Assumptions load_swapcase.

(* spacing: a blank (space, tab, VT, FF, CR) inserted anywhere except inside a word or a [keyword] *)
Theorem load_blank : forall pre suf c, is_blank c = true ->
  match state_after pre with Some (m, _) => gap m (map upcase suf) | None => True end ->
  tokens (pre ++ c :: suf) = tokens (pre ++ suf) /\ load_ts (pre ++ c :: suf) = load_ts (pre ++ suf).
Proof. exact (fun pre suf c Hb Hs => conj (tok_decoration_blank_lemma pre suf c Hb Hs) (load_blank_lemma pre suf c Hb Hs)). Qed.
Print Assumptions load_blank.

(* comments: "! ..." up to (not including) the end of the line, inserted anywhere except inside a [keyword] *)
Theorem load_comment : forall pre suf body,
  match state_after pre with Some (MKw _, _) => False | _ => True end ->
  Forall (fun c => c <> 10%N) body -> (suf = [] \/ exists s', suf = 10%N :: s') ->
  tokens (pre ++ 33%N :: body ++ suf) = tokens (pre ++ suf) /\ load_ts (pre ++ 33%N :: body ++ suf) = load_ts (pre ++ suf).
Proof.
  exact (fun pre suf body H1 H2 H3 => conj (tok_decoration_comment_lemma pre suf body H1 H2 H3)
                                           (load_comment_lemma pre suf body H1 H2 H3)).
Qed.
Print Assumptions load_comment.

(* blank lines: a newline inserted right after a newline *)
Theorem load_blank_line : forall pre suf out o,
  run MNormal false (map upcase pre) = (out ++ [RNl o], Some (MNormal, false)) ->
  load_ts (pre ++ 10%N :: suf) = load_ts (pre ++ suf).
Proof. exact load_blank_line_lemma. Qed.
Print Assumptions load_blank_line.

(* line breaks where allowed: a newline between two tokens wherever the parser is not inside a version-1 data
   line (a version-2 file outside the option line, between the lines of a version-1 file, before the first token) *)
Theorem load_line_break : forall pre suf out,
  run MNormal false (map upcase pre) = (out, Some (MNormal, false)) ->
  f_eol (flags_of (fold_left pstep out SStart)) = false ->
  load_ts (pre ++ 10%N :: suf) = load_ts (pre ++ suf).
Proof. exact load_line_break_lemma. Qed.
Print Assumptions load_line_break.

(* on the token stream: a newline after a newline, and a newline where next_token is called without F_EOL, are free *)
Theorem parse_nl_after_nl : forall s1 s2 o, parse (s1 ++ RNl o :: RNl false :: s2) = parse (s1 ++ RNl o :: s2).
Proof. exact parse_nl_after_nl_lemma. Qed.
Print Assumptions parse_nl_after_nl.

(* a decorated spelling (mixed case, comments with '#' and '[', blank lines, tabs, CR LF, records broken over lines,
   GHz / Lower / other option order) of the 3-port file loads to the same object as the plain MHz / Upper one;
   a blank inside a word is not a decoration *)
Example decoration_instance : load_ts ex2_lower_decorated = load_ts ex2_upper_bytes.
Proof. exact ex2_decorated_same. Qed.
Example decoration_side_condition_needed :
  tokens ([35;32;71] ++ 32 :: [72;122])%N <> tokens ([35;32;71] ++ [72;122])%N.
Proof. exact ex_blank_in_word_differs. Qed.

(* ==== NPD ================================================================================================= *)

(* npd_header_order: NPD header lines (version, ports, rows, columns, frequencies, parameters,
   fprecision, dprecision - each at most once) in any order give the same loader state.
   Partial: the #:z0 line, which must follow the port count, is not in this model. *)
Theorem npd_header_order_partial : forall l1 l2 : list hline,
  Permutation l1 l2 -> NoDup (map hkey l1) ->
  header_result (hrun l1) = header_result (hrun l2).
Proof. exact npd_header_order_lemma. Qed.
Print Assumptions npd_header_order_partial.

Example npd_header_order_instance :
  header_result (hrun [HDprecision 6; HParameters [Build_entry NpdScan.PS RI]; HFrequencies 2; HPorts 3; HVersion true]) =
  Some (3%nat, 2%nat, [Build_entry NpdScan.PS RI]) /\
  header_result (hrun [HVersion true; HPorts 3; HFrequencies 2; HParameters [Build_entry NpdScan.PS RI]; HDprecision 6]) =
  Some (3%nat, 2%nat, [Build_entry NpdScan.PS RI]).
Proof. exact header_order_example. Qed.

(* the hypothesis "each keyword at most once" is needed *)
Example npd_header_duplicates_matter :
  header_result (hrun [HPorts 1; HFrequencies 1; HFrequencies 2; HParameters []]) <>
  header_result (hrun [HPorts 1; HFrequencies 2; HFrequencies 1; HParameters []]).
Proof. exact header_duplicates. Qed.

(* npd_comment_blank_invariance (byte level, whole loader): a blank where white space is allowed, a '#' comment
   (not '#:' + letter) before the end of a line, and an empty line do not change what the NPD loader returns. *)
Theorem npd_comment_blank_invariance :
  (forall pre suf c, is_blank c = true -> ngap (fst (snd (nrun NNormal [] pre))) suf ->
     load_npd (pre ++ c :: suf) = load_npd (pre ++ suf)) /\
  (forall pre suf body, fst (snd (nrun NNormal [] pre)) = NNormal -> comment_body body ->
     (suf = [] \/ exists s', suf = 10%N :: s') ->
     load_npd (pre ++ 35%N :: body ++ suf) = load_npd (pre ++ suf)) /\
  (forall pre suf, snd (nrun NNormal [] pre) = (NNormal, []) ->
     load_npd (pre ++ 10%N :: suf) = load_npd (pre ++ suf)).
Proof. exact npd_comment_blank_invariance_lemma. Qed.
Print Assumptions npd_comment_blank_invariance.

(* npd_parameters_separator: the specifiers after '#:parameters' separated by spaces or by commas: scan_line joins
   the fields with commas, so both spellings give the same record and the loader takes the same step. *)
Theorem npd_parameters_separator : forall (s : nst) (f0 : list N) (rest : list (list N)), rest <> [] ->
  (exists fields, record_of (f0 :: rest) = RecKey NKParameters fields) ->
  nstep s (f0 :: rest) = nstep s [f0; join_comma rest].
Proof. exact npd_parameters_separator_lemma. Qed.
Print Assumptions npd_parameters_separator.

Example npd_parameters_separator_instance :
  npd_lines ex_npd_params_spaces <> npd_lines ex_npd_params_commas /\
  map record_of (npd_lines ex_npd_params_spaces) = map record_of (npd_lines ex_npd_params_commas) /\
  load_npd ex_npd_params_spaces = load_npd ex_npd_params_commas /\
  (exists o, load_npd ex_npd_params_spaces = NOk o).
Proof. exact ex_npd_params. Qed.

(* ==== session 5: RI vs MA vs DB, keyword order and noise blocks of version 2, NPD column forms and '#:z0' ========= *)
Require Import LV.Base.CField LV.Base.QcI.
Require Import LV.Files.TsFormat LV.Files.TsFormatProofs LV.Files.TsV2Order LV.Files.TsV2OrderProofs LV.Files.TsV2OrderExamples.
Require Import LV.Files.NpdCols LV.Files.NpdColsProofs LV.Files.NpdColsExamples.

(* format_equiv.  convert_value_pair is modelled as coded (Files/TsFormat.v) over any field K with the operations of
   <complex.h> as parameters; [fmt_laws] collects the laws used: cexp (u + v) = cexp u * cexp v, pow10 t = cexp (LOG10 * t),
   RAD_PER_DEG = pi / 180, 20 <> 0, and the embedding of the file's numbers respects 1, products and quotients.
   One pair: if x + i y = m cexp (i a pi / 180), d = 20 log10 m and pow10 (log10 m) = m, the RI pair (x, y), the MA pair
   (m, a) and the DB pair (d, a) convert to the same value. *)
Theorem format_equiv_pair : forall (K : CField) (ofQ : Qc -> K) (ci : K) (cexp : K -> K) (ln10 rad_per_deg twenty pi c180 : K)
    (pow10 log10 : K -> K),
  fmt_laws K ofQ ci cexp ln10 rad_per_deg twenty pi c180 pow10 ->
  forall x y m a d : K, same_number K ci cexp twenty pi c180 pow10 log10 x y m a d ->
    convert_value_pair K ci cexp ln10 rad_per_deg twenty FRI x y = convert_value_pair K ci cexp ln10 rad_per_deg twenty FMA m a /\
    convert_value_pair K ci cexp ln10 rad_per_deg twenty FDB d a = convert_value_pair K ci cexp ln10 rad_per_deg twenty FMA m a /\
    convert_value_pair K ci cexp ln10 rad_per_deg twenty FRI x y = convert_value_pair K ci cexp ln10 rad_per_deg twenty FDB d a.
Proof. exact convert_equiv_thm. Qed.
Print Assumptions format_equiv_pair.

(* Whole files, version 2: three well-formed files (any port count up to 46340, any number of frequencies, Full / Upper /
   Lower, either two-port order, with or without [Reference]) that differ only in the format word of the option line and
   spell, pair by pair, the same complex numbers load, and the loaded objects have the same type, ports, frequencies,
   reference impedances and the same complex values. *)
Theorem format_equiv_v2 : forall (K : CField) (ofQ : Qc -> K) (ci : K) (cexp : K -> K) (ln10 rad_per_deg twenty pi c180 : K)
    (pow10 log10 : K -> K),
  fmt_laws K ofQ ci cexp ln10 rad_per_deg twenty pi c180 pow10 ->
  forall fr fm fd : v2file, v2_wf fr -> v2_wf fm -> v2_wf fd ->
    let hr := opts_hdr true (f_opts fr) in let hm := opts_hdr true (f_opts fm) in let hd := opts_hdr true (f_opts fd) in
    h_fmt hr = FRI -> h_fmt hm = FMA -> h_fmt hd = FDB -> hdr_same_but_fmt hr hm -> hdr_same_but_fmt hd hm ->
    f_n fr = f_n fm -> f_n fd = f_n fm -> f_order fr = f_order fm -> f_order fd = f_order fm ->
    f_mf fr = f_mf fm -> f_mf fd = f_mf fm ->
    option_map (map n_val) (f_ref fr) = option_map (map n_val) (f_ref fm) ->
    option_map (map n_val) (f_ref fd) = option_map (map n_val) (f_ref fm) ->
    same_records K ofQ ci cexp twenty pi c180 pow10 log10 (f_records fr) (f_records fm) (f_records fd) ->
    exists o_ri o_ma o_db, parse (v2_stream fr) = Ok o_ri /\ parse (v2_stream fm) = Ok o_ma /\ parse (v2_stream fd) = Ok o_db /\
      same_meta o_ri o_ma /\ same_meta o_db o_ma /\
      obj_values K ofQ ci cexp ln10 rad_per_deg twenty o_ri = obj_values K ofQ ci cexp ln10 rad_per_deg twenty o_ma /\
      obj_values K ofQ ci cexp ln10 rad_per_deg twenty o_db = obj_values K ofQ ci cexp ln10 rad_per_deg twenty o_ma.
Proof. exact format_equiv_v2_thm. Qed.
Print Assumptions format_equiv_v2.

(* Version 1 (1 to 4 ports, the un-normalisation of Z / Y / H / G data by a finite R included). *)
Theorem format_equiv_v1 : forall (K : CField) (ofQ : Qc -> K) (ci : K) (cexp : K -> K) (ln10 rad_per_deg twenty pi c180 : K)
    (pow10 log10 : K -> K),
  fmt_laws K ofQ ci cexp ln10 rad_per_deg twenty pi c180 pow10 ->
  forall gr gm gd : v1file, v1_wf gr -> v1_wf gm -> v1_wf gd ->
    let hr := opts_hdr false (g_opts gr) in let hm := opts_hdr false (g_opts gm) in let hd := opts_hdr false (g_opts gd) in
    h_fmt hr = FRI -> h_fmt hm = FMA -> h_fmt hd = FDB -> hdr_same_but_fmt hr hm -> hdr_same_but_fmt hd hm ->
    g_ports gr = g_ports gm -> g_ports gd = g_ports gm -> x_fin (h_z0 hm) ->
    same_records K ofQ ci cexp twenty pi c180 pow10 log10 (g_records gr) (g_records gm) (g_records gd) ->
    exists o_ri o_ma o_db, parse (v1_stream gr) = Ok o_ri /\ parse (v1_stream gm) = Ok o_ma /\ parse (v1_stream gd) = Ok o_db /\
      same_meta o_ri o_ma /\ same_meta o_db o_ma /\
      obj_values K ofQ ci cexp ln10 rad_per_deg twenty o_ri = obj_values K ofQ ci cexp ln10 rad_per_deg twenty o_ma /\
      obj_values K ofQ ci cexp ln10 rad_per_deg twenty o_db = obj_values K ofQ ci cexp ln10 rad_per_deg twenty o_ma.
Proof. exact format_equiv_v1_thm. Qed.
Print Assumptions format_equiv_v1.

(* the scaled cells of the parser model denote what the C code computes: convert_value_pair, then "*= R" / "/= R" *)
Theorem unnormalised_cell_values : forall (K : CField) (ofQ : Qc -> K) (ci : K) (cexp : K -> K) (ln10 rad_per_deg twenty pi c180 : K)
    (pow10 : K -> K),
  fmt_laws K ofQ ci cexp ln10 rad_per_deg twenty pi c180 pow10 ->
  forall (h : hdr) (z : Qc) (m : list cell), h_z0 h = XQ z -> qc_is0 z = false -> Forall cell_fin m ->
    matrix_values K ofQ ci cexp ln10 rad_per_deg twenty (h_fmt h) (unnormalise h m) =
    unnorm_values K (h_type h) (ofQ z) 0 (matrix_values K ofQ ci cexp ln10 rad_per_deg twenty (h_fmt h) m).
Proof. exact unnormalise_values_thm. Qed.
Print Assumptions unnormalised_cell_values.

(* the laws are consistent (Gaussian rationals, cexp = pow10 = 1).  The intended instance - complex numbers with the real
   exponential - is not constructed in Coq; the tie checks the extracted convert_value_pair, instantiated with binary64
   complex arithmetic, against the compiled function. *)
Theorem fmt_laws_satisfiable :
  fmt_laws QIF qi_ofQ qiI (fun _ => qi1) qi0 (qi_ofQ (qcz 1)) (qi_ofQ (qcz 20)) (qi_ofQ (qcz 180)) (qi_ofQ (qcz 180)) (fun _ => qi1).
Proof. exact trivial_instance. Qed.

(* Version-2 keyword section.  kw_order_run: the keyword loop of the parser model on ANY list of well-spelled keyword
   lines ([Number of Ports], [Two-Port Order], [Number of Frequencies], [Number of Noise Frequencies], [Matrix Format],
   [Reference], [Begin Information] with or without [End Information]) ends in the header kws_run computes, or in the
   error EBADMSG exactly when kws_run refuses a line. *)
Theorem kw_order_run : forall ks h s, body_like s h -> kws_ok h ks ->
  match kws_run h ks with
  | Some h' => body_like (fold_left pstep (render_kws ks) s) h'
  | None => fold_left pstep (render_kws ks) s = SErr EBADMSG
  end.
Proof. exact kw_lines_run. Qed.
Print Assumptions kw_order_run.

(* the orders that are refused: [Reference] before [Number of Ports], a second [Number of Ports], a second [Reference] *)
Theorem kw_order_rejected :
  (forall pre l post h, h_ports h = (-1)%Z -> (forall n, ~ In (KLPorts n) pre) -> kws_run h (pre ++ KLRef l :: post) = None) /\
  (forall pre n mid m post h, kws_run h (pre ++ KLPorts n :: mid ++ KLPorts m :: post) = None) /\
  (forall pre l mid l' post h, kws_run h (pre ++ KLRef l :: mid ++ KLRef l' :: post) = None).
Proof. exact (conj ref_before_ports_rejected_lemma (conj ports_twice_rejected_lemma ref_twice_rejected_lemma)). Qed.
Print Assumptions kw_order_rejected.

(* permutation invariance over the accepted orders (each kind of line at most once; information blocks anywhere) *)
Theorem kw_order_invariance : forall ks1 ks2 h h1 h2, Permutation ks1 ks2 -> NoDup (map kw_kind (filter not_info ks1)) ->
  kws_run h ks1 = Some h1 -> kws_run h ks2 = Some h2 -> h1 = h2.
Proof. exact kw_order_invariance_lemma. Qed.
Print Assumptions kw_order_invariance.

(* v2g_load: every well-formed version-2 file - and every "[Version] 1.0" file that carries version-2 keywords (q_v2 = false:
   read by the version-2 reader, file type Touchstone 1, Z / Y / H / G data un-normalised by R at the end) - with its keyword
   lines in an accepted order, information blocks and an optional [Noise Data] block loads to the object it describes; hence a permutation of the keyword lines changes
   nothing, and neither does dropping the noise block. *)
Theorem v2g_load : forall h f, v2g_wf h f -> parse (v2g_stream h f) = Ok (v2g_result h f).
Proof. exact v2g_load_lemma. Qed.
Print Assumptions v2g_load.

Theorem kw_order_load : forall h1 h2 f1 f2, v2g_wf h1 f1 -> v2g_wf h2 f2 ->
  q_v2 f1 = q_v2 f2 -> q_opts f1 = q_opts f2 -> q_records f1 = q_records f2 ->
  Permutation (q_kws f1) (q_kws f2) -> NoDup (map kw_kind (filter not_info (q_kws f1))) ->
  h1 = h2 /\ parse (v2g_stream h1 f1) = parse (v2g_stream h2 f2) /\ parse (v2g_stream h1 f1) = Ok (v2g_result h1 f1).
Proof. exact kw_order_load_lemma. Qed.
Print Assumptions kw_order_load.

Theorem noise_block_skipped : forall h f, v2g_wf h f ->
  v2g_wf (set_nnoise h (-1)) (drop_noise f) /\
  parse (v2g_stream (set_nnoise h (-1)) (drop_noise f)) = parse (v2g_stream h f) /\
  parse (v2g_stream h f) = Ok (v2g_result h f).
Proof. exact noise_block_skipped_lemma. Qed.
Print Assumptions noise_block_skipped.

Example kw_order_instance :
  v2g_wf (hdr_of exg_a) exg_a /\ v2g_wf (hdr_of exg_b) exg_b /\
  (Permutation exg_kws_a exg_kws_b /\ NoDup (map kw_kind (filter not_info exg_kws_a))) /\
  (kws_run (opts_hdr true exg_opts) exg_kws_bad = None /\ Permutation (filter not_info exg_kws_a) exg_kws_bad) /\
  tokens exg_a_bytes = v2g_stream (hdr_of exg_a) exg_a.
Proof. exact (conj exg_a_wf (conj exg_b_wf (conj exg_perm (conj exg_rejected exg_a_stream)))). Qed.

(* NPD column forms: dB / MA / RI columns as coded (pow10 and cexp abstract, 20 <> 0 the only law) *)
Theorem npd_column_forms : forall (K : CField) (ci : K) (cexp pow10 log10 : K -> K) (twenty pi c180 : K), twenty <> c0 ->
  forall x y m a d : K, npd_same_number K ci cexp pow10 log10 twenty pi c180 x y m a d ->
    npd_convert K ci cexp pow10 twenty pi c180 RI x y = npd_convert K ci cexp pow10 twenty pi c180 MA m a /\
    npd_convert K ci cexp pow10 twenty pi c180 NpdScan.DB d a = npd_convert K ci cexp pow10 twenty pi c180 MA m a.
Proof. exact npd_convert_equiv_lemma. Qed.
Print Assumptions npd_column_forms.

(* npd_header_z0_commutes: on the byte-level header model (NpdLoad.hline_step) the '#:z0' line may stand before or
   after any line that does not fix the dimensions (version, frequencies, parameters, fprecision, dprecision): both
   orders are refused or both give the same header; before the port count it is refused, and a '#:ports' line after it
   is refused.  (Single swaps in any state; the statement for whole headers is npd_header_order below.) *)
Theorem npd_header_z0_commutes :
  (forall h k f fz, dims_key k = false -> alike (hdr_run h [(NKZ0, fz); (k, f)]) (hdr_run h [(k, f); (NKZ0, fz)])) /\
  (forall h fz, n_ports h = (-1)%Z -> (n_rows h = (-1)%Z \/ n_columns h = (-1)%Z) -> hline_step h NKZ0 fz = inl NEBADMSG) /\
  (forall h fz h' f, hline_step h NKZ0 fz = inr h' -> hline_step h' NKPorts f = inl NEBADMSG).
Proof. exact (conj z0_commutes_lemma (conj z0_before_ports_rejected_lemma ports_after_z0_rejected_lemma)). Qed.
Print Assumptions npd_header_z0_commutes.

(* ==== second round of session 5 ============================================================================== *)
Require Import LV.Files.TsFormatV2g LV.Files.NpdHeaderOrder.

(* a "[Version] 1.0" file with version-2 keywords: Z data, one port, loaded as Touchstone 1 and un-normalised by R = 50 *)
(* exh_object_stmt (Files/TsV2OrderExamples.v): load_ts exh_bytes = Ok o with o = v2g_result ..., o_v2 o = false, type Z, one port,
   cell (75, -25, 1) *)
Example v2g_load_hybrid_instance :
  v2g_wf (hdr_of exh) exh /\ tokens exh_bytes = v2g_stream (hdr_of exh) exh /\ exh_object_stmt.
Proof. exact (conj exh_wf (conj exh_stream exh_object)). Qed.

(* format_equiv_v2g: RI vs MA vs DB composed with v2g_load: three version-2 files, each with its keyword lines in its own
   accepted order, its own information blocks and noise block, that agree in unit, type, R, ports, two-port order, matrix
   format and [Reference], differ in the format word and spell pair by pair the same complex numbers, load to objects with
   the same file type, type, ports, frequencies, reference impedances and complex values. *)
Theorem format_equiv_v2g : forall (K : CField) (ofQ : Qc -> K) (ci : K) (cexp : K -> K) (ln10 rad_per_deg twenty pi c180 : K)
    (pow10 log10 : K -> K),
  fmt_laws K ofQ ci cexp ln10 rad_per_deg twenty pi c180 pow10 ->
  forall hr hm hd fr fm fd, v2g_wf hr fr -> v2g_wf hm fm -> v2g_wf hd fd ->
    h_fmt hr = FRI -> h_fmt hm = FMA -> h_fmt hd = FDB -> hdr_same_data hr hm -> hdr_same_data hd hm ->
    same_records K ofQ ci cexp twenty pi c180 pow10 log10 (q_records fr) (q_records fm) (q_records fd) ->
    exists o_ri o_ma o_db, parse (v2g_stream hr fr) = Ok o_ri /\ parse (v2g_stream hm fm) = Ok o_ma /\ parse (v2g_stream hd fd) = Ok o_db /\
      same_meta o_ri o_ma /\ same_meta o_db o_ma /\
      obj_values K ofQ ci cexp ln10 rad_per_deg twenty o_ri = obj_values K ofQ ci cexp ln10 rad_per_deg twenty o_ma /\
      obj_values K ofQ ci cexp ln10 rad_per_deg twenty o_db = obj_values K ofQ ci cexp ln10 rad_per_deg twenty o_ma.
Proof. exact format_equiv_v2g_lemma. Qed.
Print Assumptions format_equiv_v2g.

(* npd_header_order: on the byte-level header model (NpdLoad.hline_step run over the header records, hdr_run) two orders of
   the same header lines - '#:version', '#:ports' or the legacy '#:rows' / '#:columns', '#:frequencies', '#:parameters',
   '#:fprecision', '#:dprecision', '#:z0'; each keyword at most once - that the loader accepts leave the SAME header state
   (hence the same post_header, field accounting and loaded object). *)
Theorem npd_header_order : forall l1 l2 h1 h2, Permutation l1 l2 -> NoDup (keys l1) ->
  hdr_run nh0 l1 = inr h1 -> hdr_run nh0 l2 = inr h2 -> h1 = h2.
Proof. exact npd_header_order_full_lemma. Qed.
Print Assumptions npd_header_order.

(* the refused orders: '#:z0' before the port count is known (no '#:ports' line and not both legacy lines before it);
   '#:ports' anywhere after '#:z0'; and every accepted order has '#:z0' after the lines the port count comes from
   (the '#:ports' line if the header has one, else '#:rows' and '#:columns').
   Not proved: the converse (every order with '#:z0' in such a position is accepted when one order is) - tie only. *)
Theorem npd_header_refused_orders :
  (forall pre fz post, ~ In NKPorts (keys pre) -> ~ In NKZ0 (keys pre) -> (~ In NKRows (keys pre) \/ ~ In NKColumns (keys pre)) ->
     exists c, hdr_run nh0 (pre ++ (NKZ0, fz) :: post) = inl c) /\
  (forall h pre fz mid f post, exists c, hdr_run h (pre ++ (NKZ0, fz) :: mid ++ (NKPorts, f) :: post) = inl c) /\
  (forall l h, NoDup (keys l) -> hdr_run nh0 l = inr h -> z0_position_ok l).
Proof. exact (conj z0_early_refused_lemma (conj ports_after_z0_refused_lemma accepted_z0_position_lemma)). Qed.
Print Assumptions npd_header_refused_orders.
