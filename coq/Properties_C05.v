(* Property C05: vnadata_convert applies the right conversion with the right impedances.
   Theorems only.  gen_entry is the conversion table of the code, regenerated from
   src/vnadata_convert.c by translate/convtable.py on every run and validated against the compiled
   table; conv_spec / convert are the hand-written specification of the dispatch and the model
   of vnadata_convert (coq/Data/ConvertModel.v), tied to the implementation by the op-script
   correspondence of checks/C15.py / checks/C05.py.  `conv fn n m z0` is the (abstract) call of
   the vnaconv function fn; what each function computes is property C04.
   Lemmas: Data/ConvertProofs.v (table, rejection), Data/ConvertRefine.v (refinement of the
   conversion to the array specification Data/ArraySpec.v), Data/ConvertTheorems.v (corollaries),
   Data/ConvertExamples.v (concrete objects, vm_compute). *)
Require Import List ZArith String.
Require Import LV.Data.DataModel LV.Data.ArraySpec LV.Data.ConvertModel LV.Data.DataProofs LV.Data.RefineProofs
  LV.Data.ConvertProofs LV.Data.ConvertRefine LV.Data.ConvertTheorems LV.Data.ConvertExamples.
Import ListNotations.

(* All 121 pairs: the code's entry is INVAL exactly where the specification has no conversion;
   otherwise dimension class, z0 flag and kind agree and the selected function is literally
   vnaconv_<from>to<to> (n-port variant between S, Z, Y; ...zi / ...zin towards Zin). *)
Theorem c05_table_sound : forall x y,
  match gen_entry x y, conv_spec x y with
  | None, None => True
  | Some (d, z, k, f), Some cs => d = cs_dim cs /\ z = cs_z0 cs /\ k = cs_kind cs /\ f = fname_str (cs_fn cs)
  | _, _ => False
  end.
Proof. exact table_sound. Qed.
Print Assumptions c05_table_sound.

(* INVAL iff the manual says the pair is not convertible (same type, or from a matrix type to
   anything but "undefined"). *)
Theorem c05_table_inval_iff : forall x y, gen_entry x y = None <-> convertible x y = false.
Proof. exact table_inval_iff. Qed.
Print Assumptions c05_table_inval_iff.

Theorem c05_table_dimension_class : forall x y d z k f,
  gen_entry x y = Some (d, z, k, f) -> x <> y ->
  d = (if (is_two_port_only x || is_two_port_only y)%bool then D2x2 else DNxN).
Proof. exact table_dimension_class. Qed.
Print Assumptions c05_table_dimension_class.

Theorem c05_table_same_type_accepts : forall x d z k f r c,
  gen_entry x x = Some (d, z, k, f) -> validate_type x r c = true -> dim_ok d r c = true /\ k = KSame.
Proof. exact table_same_type_accepts. Qed.
Print Assumptions c05_table_same_type_accepts.

(* The prototype (vnaconv.h) of the selected function takes z0 iff the group says so, takes n iff
   the group is NxN, and has a vector output iff the conversion is to Zin. *)
Theorem c05_table_arity : forall x y d z k f,
  gen_entry x y = Some (d, z, k, f) -> k <> KSame ->
  proto_of f = Some (z, dimclass_eqb d DNxN, ckind_eqb k KXtoI).
Proof. exact table_arity. Qed.
Print Assumptions c05_table_arity.

(* Rejection leaves the destination unchanged.  BY CONSTRUCTION of the model: the refusing branches
   of ConvertModel.convert are literally (dst, fail) - the theorem only names which argument
   combinations take them.  That the LIBRARY leaves the destination alone is tied: the
   correspondence digests the destination after every refused call, with the three allocation sizes
   and the count of non-initial cells in the allocation tails (J), and the review's sweep digested
   every allocated byte. *)
Theorem c05_convert_reject_unchanged : forall (V : Type) (vzero vdef : V) dd2 conv din dout same ntz,
  (vpt_of_Z ntz = None \/
   (exists nt, vpt_of_Z ntz = Some nt /\
      (conv_spec (ty V din) nt = None \/
       exists cs, conv_spec (ty V din) nt = Some cs /\ dim_ok (cs_dim cs) (rows V din) (cols V din) = false))) ->
  convert V vzero vdef fixed dd2 conv din dout same ntz = (if same then din else dout, fail V).
Proof. exact convert_reject_unchanged. Qed.
Print Assumptions c05_convert_reject_unchanged.

(* ---------------------------------------------------------------- the result of a conversion
   Inv = the representation invariant of the container (DataProofs.Inv: logical sizes within the
   allocations, every cell outside the logical box initial, type fits the dimensions; it holds in
   every state reachable from vnadata_alloc BY CONTAINER OPERATIONS AND CONVERSIONS, c15_inv_reachable,
   c05_machine_invariant / c15_machine_invariant; vnadata_load is not in that alphabet: before fix
   DB91 the NPD loader could store a precision of 0, which Inv excludes - see
   c05_model_variant_before_DB91_precision_zero at the end of this file).  `same` = the two pointers are equal
   (the destination argument is then ignored); otherwise dout is ANY valid object - larger or
   smaller allocations, other type, other z0 mode, old contents.

   Matrix -> matrix and matrix -> Zin, in place or into a second object: success; per frequency the
   selected function applied to that frequency's matrix with that frequency's impedances
   (per-frequency row when the source has them, ordinary vector otherwise); frequencies,
   impedances and save options are those of the source; the result is n x n resp. 1 x n; every
   cell outside the result - allocated or not, hence whatever a later resize exposes - is initial
   ("the contents of a freshly built object"). *)
Theorem c05_convert_pointwise : forall (V : Type) (vzero vdef : V) dd2 conv d dout same ntz nt cs,
  Inv V vzero vdef d -> Inv V vzero vdef dout ->
  vpt_of_Z ntz = Some nt -> conv_spec (ty V d) nt = Some cs -> cs_kind cs <> KSame ->
  dim_ok (cs_dim cs) (rows V d) (cols V d) = true ->
  let n := rows V d in
  let len := match cs_kind cs with KXtoI => n | _ => n * n end in
  let d' := fst (convert V vzero vdef fixed dd2 conv d dout same ntz) in
  snd (convert V vzero vdef fixed dd2 conv d dout same ntz) = ok V /\ Inv V vzero vdef d' /\
  cols V d = n /\ ty V d' = nt /\
  rows V d' = (match cs_kind cs with KXtoI => 1 | _ => n end) /\ cols V d' = n /\ freqs V d' = freqs V d /\
  (forall f, f < freqs V d -> fv V d' f = fv V d f) /\
  (forall f p, f < freqs V d -> p < n -> z0_row V d' f p = z0_row V d f p) /\
  ftype V d' = ftype V d /\ fmt V d' = fmt V d /\ fprec V d' = fprec V d /\ dprec V d' = dprec V d /\
  (forall f j, f < freqs V d -> j < len ->
     dat V d' f j = nth j (conv (cs_fn cs) n (map (dat V d f) (seq 0 (n * n)))
                             (if cs_z0 cs then map (z0_row V d f) (seq 0 n) else [])) vzero) /\
  (forall f j, ~ (f < freqs V d /\ j < len) -> dat V d' f j = vzero).
Proof. exact convert_pointwise. Qed.
Print Assumptions c05_convert_pointwise.

(* Same type into a second object: a copy of everything. *)
Theorem c05_convert_copy : forall (V : Type) (vzero vdef : V) dd2 conv d dout ntz nt cs,
  Inv V vzero vdef d -> Inv V vzero vdef dout ->
  vpt_of_Z ntz = Some nt -> conv_spec (ty V d) nt = Some cs -> cs_kind cs = KSame ->
  dim_ok (cs_dim cs) (rows V d) (cols V d) = true ->
  let d' := fst (convert V vzero vdef fixed dd2 conv d dout false ntz) in
  snd (convert V vzero vdef fixed dd2 conv d dout false ntz) = ok V /\ Inv V vzero vdef d' /\
  ty V d' = ty V d /\ rows V d' = rows V d /\ cols V d' = cols V d /\ freqs V d' = freqs V d /\
  (forall f, fv V d' f = fv V d f) /\
  (forall f p, f < freqs V d -> p < ports V d -> z0_row V d' f p = z0_row V d f p) /\
  ftype V d' = ftype V d /\ fmt V d' = fmt V d /\ fprec V d' = fprec V d /\ dprec V d' = dprec V d /\
  (forall f j, dat V d' f j = dat V d f j).
Proof. exact convert_copy. Qed.
Print Assumptions c05_convert_copy.

(* The same as one refinement statement: the abstraction (ArraySpec.abs: forget the allocations)
   of the result of every accepted conversion is the array conv_target (ConvertRefine), whose z0
   mode is out_perf: the mode of the source in place; out of place the mode of the source unless
   the source has no frequencies or is a 0 x 0 matrix converted to Zin (see below). *)
Theorem c05_convert_refines_spec : forall (V : Type) (vzero vdef : V) dd2 conv d dout same ntz nt cs,
  Inv V vzero vdef d -> Inv V vzero vdef dout ->
  vpt_of_Z ntz = Some nt -> conv_spec (ty V d) nt = Some cs ->
  dim_ok (cs_dim cs) (rows V d) (cols V d) = true ->
  snd (convert V vzero vdef fixed dd2 conv d dout same ntz) = ok V /\
  Inv V vzero vdef (fst (convert V vzero vdef fixed dd2 conv d dout same ntz)) /\
  arr_eq V (abs V (fst (convert V vzero vdef fixed dd2 conv d dout same ntz)))
           (conv_target V vzero vdef conv d nt cs (out_perf V dd2 d cs same)).
Proof. exact convert_result. Qed.
Print Assumptions c05_convert_refines_spec.

(* In-place conversion equals conversion into a second object, whatever that object held: equal
   type, dimensions, frequencies, cells, z0 mode and impedances, save options (arr_eq) ... *)
Theorem c05_convert_inplace_eq_outofplace : forall (V : Type) (vzero vdef : V) dd2 conv d dout ntz nt cs,
  Inv V vzero vdef d -> Inv V vzero vdef dout ->
  vpt_of_Z ntz = Some nt -> conv_spec (ty V d) nt = Some cs ->
  dim_ok (cs_dim cs) (rows V d) (cols V d) = true ->
  out_perf V dd2 d cs false = per_f V d ->
  arr_eq V (abs V (fst (convert V vzero vdef fixed dd2 conv d d true ntz)))
           (abs V (fst (convert V vzero vdef fixed dd2 conv d dout false ntz))).
Proof. exact convert_inplace_eq_outofplace. Qed.
Print Assumptions c05_convert_inplace_eq_outofplace.

(* ... hence equal outcomes (return class, callbacks, payload of every getter) for every later
   history of container operations, resizes included. *)
Theorem c05_convert_inplace_eq_outofplace_traces :
  forall (V : Type) (vzero vdef : V) dd2 conv d dout ntz nt cs (l : list (op V)),
  Inv V vzero vdef d -> Inv V vzero vdef dout ->
  vpt_of_Z ntz = Some nt -> conv_spec (ty V d) nt = Some cs ->
  dim_ok (cs_dim cs) (rows V d) (cols V d) = true ->
  out_perf V dd2 d cs false = per_f V d ->
  trace V vzero vdef (fst (convert V vzero vdef fixed dd2 conv d d true ntz)) l =
  trace V vzero vdef (fst (convert V vzero vdef fixed dd2 conv d dout false ntz)) l.
Proof. exact convert_inplace_eq_outofplace_traces. Qed.
Print Assumptions c05_convert_inplace_eq_outofplace_traces.

(* dd2: the repair of finding DD2 (fixes/applied/DD2_convert_keeps_fz0_mode.diff) IS in /repo, so
   dd2 = true is the code; dd2 = false is the MODEL VARIANT BEFORE DD2, kept so that the probe of
   lib/datalib.py can still classify an unrepaired tree; the theorems quantified over dd2 say nothing
   more about /repo than their dd2 = true instance.  The hypothesis out_perf = per_f holds
   - always when dd2 = true (c05_convert_inplace_eq_outofplace_repaired states that case without it),
   - in the variant before DD2 (dd2 = false) for every source in ordinary z0 mode and for every source
     in per-frequency mode that has at least one frequency (and at least one port when converting
     to Zin). *)
Theorem c05_convert_inplace_eq_mode_condition : forall (V : Type) dd2 (d : vd V) nt cs,
  conv_spec (ty V d) nt = Some cs -> dim_ok (cs_dim cs) (rows V d) (cols V d) = true ->
  dd2 = true \/ per_f V d = false \/ (freqs V d <> 0 /\ (cs_kind cs = KXtoI -> rows V d <> 0)) ->
  out_perf V dd2 d cs false = per_f V d.
Proof. exact out_perf_same_mode. Qed.
Print Assumptions c05_convert_inplace_eq_mode_condition.

Theorem c05_convert_inplace_eq_outofplace_repaired : forall (V : Type) (vzero vdef : V) conv d dout ntz nt cs,
  Inv V vzero vdef d -> Inv V vzero vdef dout ->
  vpt_of_Z ntz = Some nt -> conv_spec (ty V d) nt = Some cs ->
  dim_ok (cs_dim cs) (rows V d) (cols V d) = true ->
  arr_eq V (abs V (fst (convert V vzero vdef fixed true conv d d true ntz)))
           (abs V (fst (convert V vzero vdef fixed true conv d dout false ntz))).
Proof. exact convert_inplace_eq_outofplace_repaired. Qed.
Print Assumptions c05_convert_inplace_eq_outofplace_repaired.

Theorem c05_convert_inplace_eq_outofplace_traces_repaired :
  forall (V : Type) (vzero vdef : V) conv d dout ntz nt cs (l : list (op V)),
  Inv V vzero vdef d -> Inv V vzero vdef dout ->
  vpt_of_Z ntz = Some nt -> conv_spec (ty V d) nt = Some cs ->
  dim_ok (cs_dim cs) (rows V d) (cols V d) = true ->
  trace V vzero vdef (fst (convert V vzero vdef fixed true conv d d true ntz)) l =
  trace V vzero vdef (fst (convert V vzero vdef fixed true conv d dout false ntz)) l.
Proof. exact convert_inplace_eq_outofplace_traces_repaired. Qed.
Print Assumptions c05_convert_inplace_eq_outofplace_traces_repaired.

(* Outside that condition the clause is false of the model variant before DD2 (dd2 = false; not /repo any more): a 2 x 2 object in
   per-frequency-z0 mode with no frequencies converts in place to an object that still is in
   per-frequency mode, and into a fresh object to one in ordinary mode (vnadata_has_fz0). *)
Theorem c05_model_variant_before_DD2_inplace_eq_refuted :
  Inv sym (L 0) (L 50) ex_nofreq /\
  per_f sym ex_nofreq = true /\ freqs sym ex_nofreq = 0 /\
  snd (convert sym (L 0) (L 50) fixed false sconv ex_nofreq ex_nofreq true 4) = ok sym /\
  snd (convert sym (L 0) (L 50) fixed false sconv ex_nofreq (vd_alloc sym (L 0) (L 50)) false 4) = ok sym /\
  snd (has_fz0 sym (fst (convert sym (L 0) (L 50) fixed false sconv ex_nofreq ex_nofreq true 4))) = okp sym (PBool true) /\
  snd (has_fz0 sym (fst (convert sym (L 0) (L 50) fixed false sconv ex_nofreq (vd_alloc sym (L 0) (L 50)) false 4)))
    = okp sym (PBool false).
Proof. exact (conj ex_nofreq_inv convert_inplace_eq_refuted_without_frequencies). Qed.
Print Assumptions c05_model_variant_before_DD2_inplace_eq_refuted.

(* The previous contents of the destination are irrelevant. *)
Theorem c05_convert_destination_irrelevant : forall (V : Type) (vzero vdef : V) dd2 conv d dout1 dout2 ntz nt cs,
  Inv V vzero vdef d -> Inv V vzero vdef dout1 -> Inv V vzero vdef dout2 ->
  vpt_of_Z ntz = Some nt -> conv_spec (ty V d) nt = Some cs ->
  dim_ok (cs_dim cs) (rows V d) (cols V d) = true ->
  arr_eq V (abs V (fst (convert V vzero vdef fixed dd2 conv d dout1 false ntz)))
           (abs V (fst (convert V vzero vdef fixed dd2 conv d dout2 false ntz))).
Proof. exact convert_outofplace_dest_irrelevant. Qed.
Print Assumptions c05_convert_destination_irrelevant.

(* The source of an out-of-place conversion is not written, whatever the outcome.  (True by
   construction of the model - convert returns the new destination only, as the C function takes
   a const source; that the implementation leaves the source alone is checked by the
   correspondence, which digests the source after every out-of-place conversion.) *)
Theorem c05_convert_source_unchanged : forall (V : Type) (vzero vdef : V) dd2 conv Q s a b nt, a <> b ->
  sel V (fst (mstep V vzero vdef Q dd2 conv s (MConv V a b nt))) a = sel V s a.
Proof. exact mstep_conv_source_unchanged. Qed.
Print Assumptions c05_convert_source_unchanged.

(* Every call of vnadata_convert on valid objects (accepted or refused, any new type code, in place
   or not) leaves the destination valid, and no checked array access of the model is out of
   bounds; hence both objects are valid in every state the two-object machine (container
   operations on either object, conversions in every direction, free + alloc) reaches from two
   fresh objects - the hypotheses `Inv` above are met in all those states. *)
Theorem c05_convert_total : forall (V : Type) (vzero vdef : V) dd2 conv d dout same ntz,
  Inv V vzero vdef d -> Inv V vzero vdef dout ->
  Inv V vzero vdef (fst (convert V vzero vdef fixed dd2 conv d dout same ntz)) /\
  o_ret V (snd (convert V vzero vdef fixed dd2 conv d dout same ntz)) <> RFault.
Proof. exact convert_total. Qed.
Print Assumptions c05_convert_total.

Theorem c05_machine_invariant : forall (V : Type) (vzero vdef : V) dd2 conv (l : list (mop V)),
  let s := mrun V vzero vdef fixed dd2 conv (minit V vzero vdef) l in
  Inv V vzero vdef (fst s) /\ Inv V vzero vdef (snd s).
Proof. exact mrun_inv_init. Qed.
Print Assumptions c05_machine_invariant.

(* Non-vacuity: a 2 x 2 S object with two frequencies and per-frequency impedances (50, 75 at
   frequency 0; 60, 85 at frequency 1) and a used 3 x 3 x 3 destination satisfy the hypotheses ... *)
Theorem c05_convert_hypotheses_satisfiable :
  Inv sym (L 0) (L 50) ex_src /\ Inv sym (L 0) (L 50) ex_dst /\
  vpt_of_Z 4 = Some VZ /\ conv_spec (ty sym ex_src) VZ = Some cs_sz /\ cs_kind cs_sz <> KSame /\
  dim_ok (cs_dim cs_sz) (rows sym ex_src) (cols sym ex_src) = true /\
  out_perf sym false ex_src cs_sz false = per_f sym ex_src.
Proof. exact (conj ex_src_inv (conj ex_dst_inv ex_sz_hyps)). Qed.
Print Assumptions c05_convert_hypotheses_satisfiable.

(* ... and the result, evaluated: vnaconv_stozn on frequency f's matrix with frequency f's
   impedances, in place and out of place alike (R fn n m z0 i = cell i of fn(m, z0, n)). *)
Theorem c05_convert_example :
  observe sym (fst (convert sym (L 0) (L 50) fixed false sconv ex_src ex_dst false 4)) = sz_expected /\
  observe sym (fst (convert sym (L 0) (L 50) fixed false sconv ex_src ex_src true 4)) = sz_expected /\
  ob_dat sym sz_expected =
    [[R (FN VS VZ) 2 [L 1; L 2; L 3; L 4] [L 50; L 75] 0; R (FN VS VZ) 2 [L 1; L 2; L 3; L 4] [L 50; L 75] 1;
      R (FN VS VZ) 2 [L 1; L 2; L 3; L 4] [L 50; L 75] 2; R (FN VS VZ) 2 [L 1; L 2; L 3; L 4] [L 50; L 75] 3];
     [R (FN VS VZ) 2 [L 5; L 6; L 7; L 8] [L 60; L 85] 0; R (FN VS VZ) 2 [L 5; L 6; L 7; L 8] [L 60; L 85] 1;
      R (FN VS VZ) 2 [L 5; L 6; L 7; L 8] [L 60; L 85] 2; R (FN VS VZ) 2 [L 5; L 6; L 7; L 8] [L 60; L 85] 3]] /\
  ob_z0 sym sz_expected = [[L 50; L 75]; [L 60; L 85]].
Proof.
  exact (conj (proj1 (proj2 ex_sz_outofplace)) (conj (proj2 ex_sz_inplace) (conj eq_refl eq_refl))).
Qed.
Print Assumptions c05_convert_example.

(* Conversion to Zin of the same object, in place and out of place: 1 x 2, vnaconv_stozin with the
   per-frequency impedances; the vacated cells 2, 3 are initial and stay so when the object grows. *)
Theorem c05_convert_zin_example :
  observe sym (fst (convert sym (L 0) (L 50) fixed false sconv ex_src ex_src true 10)) = zin_expected /\
  observe sym (fst (convert sym (L 0) (L 50) fixed false sconv ex_src ex_dst false 10)) = zin_expected /\
  (forall k, In k [2; 3] ->
     dat sym (fst (convert sym (L 0) (L 50) fixed false sconv ex_src ex_src true 10)) 0 k = L 0 /\
     dat sym (fst (convert sym (L 0) (L 50) fixed false sconv ex_src ex_dst false 10)) 0 k = L 0) /\
  ob_dat sym (observe sym (fst (resize sym (L 0) (L 50) fixed
                                  (fst (convert sym (L 0) (L 50) fixed false sconv ex_src ex_src true 10)) 0 2 2 2))) =
    [[R (FIN VS) 2 m0 [L 50; L 75] 0; R (FIN VS) 2 m0 [L 50; L 75] 1; L 0; L 0];
     [R (FIN VS) 2 m1 [L 60; L 85] 0; R (FIN VS) 2 m1 [L 60; L 85] 1; L 0; L 0]].
Proof. exact ex_zin. Qed.
Print Assumptions c05_convert_zin_example.

(* With the repair (dd2 = true) the object without frequencies keeps its mode out of place as well,
   and the examples above evaluate to the same results. *)
Theorem c05_convert_repaired_example :
  snd (has_fz0 sym (fst (convert sym (L 0) (L 50) fixed true sconv ex_nofreq ex_nofreq true 4))) = okp sym (PBool true) /\
  snd (has_fz0 sym (fst (convert sym (L 0) (L 50) fixed true sconv ex_nofreq (vd_alloc sym (L 0) (L 50)) false 4)))
    = okp sym (PBool true) /\
  observe sym (fst (convert sym (L 0) (L 50) fixed true sconv ex_nofreq ex_nofreq true 4)) =
  observe sym (fst (convert sym (L 0) (L 50) fixed true sconv ex_nofreq ex_dst false 4)) /\
  observe sym (fst (convert sym (L 0) (L 50) fixed true sconv ex_src ex_dst false 4)) = sz_expected /\
  observe sym (fst (convert sym (L 0) (L 50) fixed true sconv ex_src ex_dst false 10)) = zin_expected.
Proof. exact convert_inplace_eq_without_frequencies_repaired. Qed.
Print Assumptions c05_convert_repaired_example.

(* Conversion to Zin in place, then growing the object again, as a history from vnadata_alloc with
   arbitrary values and conversion function: the re-exposed cells are initial (general statement:
   last clause of c05_convert_pointwise) ... *)
Theorem c05_convert_zin_fresh_example : forall (V : Type) (vzero vdef : V) dd2 conv a b c e,
  let s := mrun V vzero vdef fixed dd2 conv (minit V vzero vdef) (zin_history V a b c e) in
  dat V (fst s) 0 2 = vzero /\ dat V (fst s) 0 3 = vzero /\
  dat V (fst s) 0 0 = nth 0 (conv (FIN VS) 2 [a; b; c; e] [vdef; vdef]) vzero.
Proof. exact convert_zin_fresh_example. Qed.
Print Assumptions c05_convert_zin_fresh_example.

(* ... whereas the code as found (D5) left the old matrix cells behind. *)
Theorem c05_convert_zin_fresh_refuted_as_found : forall (V : Type) (vzero vdef : V) dd2 conv a b c e,
  let s := mrun V vzero vdef as_found dd2 conv (minit V vzero vdef) (zin_history V a b c e) in
  dat V (fst s) 0 2 = c /\ dat V (fst s) 0 3 = e.
Proof. exact convert_zin_fresh_refuted_as_found. Qed.
Print Assumptions c05_convert_zin_fresh_refuted_as_found.

(* ======================================================================================
   Session 5 (package H): vnadata_convert as ONE abstract operation on arrays, inside arbitrary
   histories over any number of objects (Data/TwoObjModel.v, Data/TwoObjProofs.v), and
   convert_chain at the level of vnadata objects with `conv` instantiated by the generated
   two-port functions of property C04 (Data/ChainModel.v, Data/ChainProofs.v,
   Data/ChainExamples.v).  Repair DD2 is in the code: dd2 = true. *)
Require Import LV.Base.CField LV.Base.QcI LV.Conv.ConvRel LV.Gen.Conv2All.
Require Import LV.Data.TwoObjModel LV.Data.TwoObjProofs LV.Data.ChainModel LV.Data.ChainProofs
               LV.Data.ChainExamples.

(* vnadata_convert refines spec_convert: for any valid source and destination related to two
   arrays the outcome is the one `spec_convert` predicts (refusal = destination unchanged;
   acceptance = the destination BECOMES spec_conv_arr of the source array, whatever it held) *)
Theorem c05_convert_refines_abstract_op : forall (V : Type) (vzero vdef : V) conv
    (d dout : vd V) (same : bool) (ntz : Z) (A B : arr V),
  Inv V vzero vdef d -> Inv V vzero vdef dout -> refines V d A -> refines V (if same then d else dout) B ->
  snd (convert V vzero vdef fixed true conv d dout same ntz) = snd (spec_convert V vzero vdef conv A B ntz) /\
  refines V (fst (convert V vzero vdef fixed true conv d dout same ntz)) (fst (spec_convert V vzero vdef conv A B ntz)) /\
  Inv V vzero vdef (fst (convert V vzero vdef fixed true conv d dout same ntz)).
Proof. exact convert_refines. Qed.
Print Assumptions c05_convert_refines_abstract_op.

(* the abstract conversion depends on the logical contents of the source only *)
Theorem c05_spec_convert_extensional : forall (V : Type) (vzero vdef : V) conv a a' b b' ntz,
  arr_eq V a a' -> arr_eq V b b' ->
  snd (spec_convert V vzero vdef conv a b ntz) = snd (spec_convert V vzero vdef conv a' b' ntz) /\
  arr_eq V (fst (spec_convert V vzero vdef conv a b ntz)) (fst (spec_convert V vzero vdef conv a' b' ntz)).
Proof. exact spec_convert_ext. Qed.
Print Assumptions c05_spec_convert_extensional.

(* in place = out of place after EVERY history over any number of objects ("followed by / preceded
   by arbitrary resize / convert histories"): in the state reached by l, an accepted conversion of
   object a into itself and the same conversion into any other object b give the same logical
   contents *)
Theorem c05_inplace_eq_outofplace_everywhere : forall (V : Type) (vzero vdef : V) conv l a b ntz,
  nvecs_ok V vzero vdef conv (ainit V vzero vdef) l ->
  let s := nrun V vzero vdef conv (ninit V vzero vdef) l in
  o_ret V (snd (nstep V vzero vdef conv s (NConv V a a ntz))) = ROk ->
  arr_eq V (abs V (fst (nstep V vzero vdef conv s (NConv V a a ntz)) a))
           (abs V (fst (nstep V vzero vdef conv s (NConv V a b ntz)) b)).
Proof. exact conv_inplace_eq_outofplace_everywhere. Qed.
Print Assumptions c05_inplace_eq_outofplace_everywhere.

(* convert_chain.  K any field with conjugation (CField), conv = conv2_interp K zd: the generated
   two-port function for the 2 x 2 groups; the N x N functions between S, Z, Y are IDENTIFIED at
   n = 2 with the two-port function of the same name (what c04_stozn_eq_stoz etc. prove of the LU
   model under their pivot hypotheses; not composed here) - hence `_nport_identified` in the name;
   chains with at most one of S, Z, Y among the three types call 2 x 2 functions only
   (c05_chain_two_port_functions_only) and do not use the identification.
   For a valid 2 x 2 object d of matrix type X with any number of frequencies and ordinary or
   per-frequency impedances, three different matrix types X, Y, Z, any valid objects o1 o2 o3 and
   any choice of in place (s = true) / out of place for each call: if at every frequency the
   impedances have positive real part (z0_ok) and the matrix is outside the singular sets of
   X->Y, Y->Z (at the image) and X->Z, then all three calls succeed and converting X->Y->Z gives
   the same logical contents (type, dimensions, frequencies, every cell, z0 mode, impedances,
   options, and 0 outside) as converting X->Z. *)
Theorem c05_convert_chain_nport_identified : forall (K : CField) (zd vdef : K)
    (d o1 o2 o3 : vd K) (s1 s2 s3 : bool) X Y Z,
  char_ok K -> Inv K c0 vdef d -> Inv K c0 vdef o1 -> Inv K c0 vdef o2 -> Inv K c0 vdef o3 ->
  ty K d = vpt_of_pt X -> rows K d = 2 -> cols K d = 2 ->
  X <> Y -> Y <> Z -> X <> Z ->
  chain_ok K (abs K d) X Y Z ->
  let cv := convert K c0 vdef fixed true (conv2_interp K zd) in
  let rb := cv d o1 s1 (vpt_code (vpt_of_pt Y)) in
  let rc := cv (fst rb) o2 s2 (vpt_code (vpt_of_pt Z)) in
  let rd := cv d o3 s3 (vpt_code (vpt_of_pt Z)) in
  snd rb = ok K /\ snd rc = ok K /\ snd rd = ok K /\ arr_eq K (abs K (fst rc)) (abs K (fst rd)).
Proof. exact convert_chain. Qed.
Print Assumptions c05_convert_chain_nport_identified.

Theorem c05_chain_two_port_functions_only : forall X Y cs,
  conv_spec (vpt_of_pt X) (vpt_of_pt Y) = Some cs -> X <> Y ->
  (is_nport (vpt_of_pt X) && is_nport (vpt_of_pt Y))%bool = false ->
  cs_fn cs = F2 (vpt_of_pt X) (vpt_of_pt Y).
Proof. exact chain_two_port_functions_only. Qed.
Print Assumptions c05_chain_two_port_functions_only.

(* non-vacuity: over the Gaussian rationals, for every X, Y, Z and both z0 modes, a 2 x 2 object
   with two frequencies reached by a history from vnadata_alloc meets every hypothesis ... *)
Theorem c05_convert_chain_satisfiable : forall X Y Z perf,
  char_ok QIF /\ Inv QIF c0 q50 (ex_obj X perf) /\
  ty QIF (ex_obj X perf) = vpt_of_pt X /\ rows QIF (ex_obj X perf) = 2 /\ cols QIF (ex_obj X perf) = 2 /\
  freqs QIF (ex_obj X perf) = 2 /\ per_f QIF (ex_obj X perf) = perf /\
  chain_ok QIF (abs QIF (ex_obj X perf)) X Y Z.
Proof. exact chain_hypotheses_satisfiable. Qed.
Print Assumptions c05_convert_chain_satisfiable.

(* ... and one chain evaluated in exact arithmetic: S (per-frequency z0) -> T in place -> H into a
   used 3 x 3 x 3 object against S -> H into a fresh object: same 8 cells and 4 impedances, which
   differ from the S cells *)
Theorem c05_convert_chain_example :
  let cv := convert QIF c0 q50 fixed true (conv2_interp QIF q50) in
  let d := ex_obj PS true in
  let b := fst (cv d d true 2%Z) in
  let c := fst (cv b ex_used false 6%Z) in
  let c' := fst (cv d (vd_alloc QIF c0 q50) false 6%Z) in
  qil_eqb (List.concat (ob_dat QIF (observe QIF c))) (List.concat (ob_dat QIF (observe QIF c'))) = true /\
  qil_eqb (List.concat (ob_z0 QIF (observe QIF c))) (List.concat (ob_z0 QIF (observe QIF c'))) = true /\
  List.length (List.concat (ob_dat QIF (observe QIF c))) = 8 /\ List.length (List.concat (ob_z0 QIF (observe QIF c))) = 4 /\
  (ob_ty QIF (observe QIF c), ob_rows QIF (observe QIF c), ob_cols QIF (observe QIF c), ob_freqs QIF (observe QIF c),
   ob_perf QIF (observe QIF c)) = (VH, 2, 2, 2, true) /\
  ob_ty QIF (observe QIF c') = VH /\ ty QIF b = VT /\
  qil_eqb (List.concat (ob_dat QIF (observe QIF c))) (List.concat (ob_dat QIF (observe QIF d))) = false.
Proof. exact chain_evaluated. Qed.
Print Assumptions c05_convert_chain_example.

(* ======================================================================================
   Session 5, second part (Data/ChainNModel.v, ChainLift.v, ChainNProofs.v, ChainNExamples.v):
   the n-port functions interpreted by THEIR OWN LU model (Conv/ConvN.v) - `convn_interp`: F2 = the
   generated two-port function, FN = vnaconv_stozn / ztosn / stoyn / ytosn / ztoyn / ytozn as
   modelled, for the pivot order `swap` (the n = 2 theorems of Conv/ConvN2.v are for the two constant
   comparators; Properties_C04n.c04_lu2_two_pivot_orders: every comparator behaves like one of them
   on each 2 x 2 matrix - that last step is not composed), FI2 = the generated vnaconv_Xtozi, FIN =
   vnaconv_stozin / ztozin / ytozin as modelled. *)
Require Import LV.Lin.MatL LV.Lin.LuModel LV.Conv.ConvN.
Require Import LV.Data.ChainNModel LV.Data.ChainLift LV.Data.ChainNProofs LV.Data.ChainNExamples.

(* (1) convert_chain no longer resting on the identification.  Extra hypotheses it brings
   (chainN_ok = chain_ok + per frequency): for each of the three calls that goes to an n-port
   function (both types in S, Z, Y) the first pivot of that function's LU factorisation for the
   order `swap` is non-zero - pivot_ok: S->Z: 1 - s11 (swap: s21); Z->S: z11 + z0_1 (z21); S->Y:
   s11 z0_1 + conj z0_1 (s21 and z0_1); Y->S: z0_1 y11 + 1 (z0_2 and y21); Z<->Y: m11 (m21) - at the
   matrix of the object for X->Y and X->Z and at the image for Y->Z. *)
Theorem c05_convert_chain_composed : forall (K : CField) (M : Type) (nrm2 : K -> M) (mulM : M -> M -> M)
    (zeroM : M) (scale_of_max : M -> M) (swap : bool) (zd vdef : K)
    (d o1 o2 o3 : vd K) (s1 s2 s3 : bool) X Y Z,
  char_ok K -> Inv K c0 vdef d -> Inv K c0 vdef o1 -> Inv K c0 vdef o2 -> Inv K c0 vdef o3 ->
  ty K d = vpt_of_pt X -> rows K d = 2 -> cols K d = 2 ->
  X <> Y -> Y <> Z -> X <> Z ->
  chainN_ok K swap (abs K d) X Y Z ->
  let cv := convert K c0 vdef fixed true (convn_interp K M nrm2 mulM (fun _ _ => swap) zeroM scale_of_max zd) in
  let rb := cv d o1 s1 (vpt_code (vpt_of_pt Y)) in
  let rc := cv (fst rb) o2 s2 (vpt_code (vpt_of_pt Z)) in
  let rd := cv d o3 s3 (vpt_code (vpt_of_pt Z)) in
  snd rb = ok K /\ snd rc = ok K /\ snd rd = ok K /\ arr_eq K (abs K (fst rc)) (abs K (fst rd)).
Proof. exact convert_chain_composed. Qed.
Print Assumptions c05_convert_chain_composed.

(* (2a) round trip X -> Y -> X on 2 x 2 objects: both calls succeed and the object has its original
   logical contents - type, dimensions, frequencies, every cell, z0 mode, impedances, options
   (roundtrip_ok: per frequency z0_ok, singular sets of X->Y at the matrix and Y->X at the image,
   pivots of the n-port calls) *)
Theorem c05_convert_roundtrip : forall (K : CField) (M : Type) (nrm2 : K -> M) (mulM : M -> M -> M)
    (zeroM : M) (scale_of_max : M -> M) (swap : bool) (zd vdef : K)
    (d o1 o2 : vd K) (s1 s2 : bool) X Y,
  char_ok K -> Inv K c0 vdef d -> Inv K c0 vdef o1 -> Inv K c0 vdef o2 ->
  ty K d = vpt_of_pt X -> rows K d = 2 -> cols K d = 2 -> X <> Y ->
  roundtrip_ok K swap (abs K d) X Y ->
  let cv := convert K c0 vdef fixed true (convn_interp K M nrm2 mulM (fun _ _ => swap) zeroM scale_of_max zd) in
  let rb := cv d o1 s1 (vpt_code (vpt_of_pt Y)) in
  let rc := cv (fst rb) o2 s2 (vpt_code (vpt_of_pt X)) in
  snd rb = ok K /\ snd rc = ok K /\ arr_eq K (abs K (fst rc)) (abs K d).
Proof. exact convert_roundtrip. Qed.
Print Assumptions c05_convert_roundtrip.

(* (2b) X -> Y -> Zin against X -> Zin on 2 x 2 objects, X and Y any matrix types except Y-parameters
   (vnaconv_ytozin has no n = 2 theorem in Conv/ConvN2.v; hence `_partial`): same 1 x 2 object.
   zin_chain_ok per frequency: z0_ok; singular set and pivot of X->Y; conv2zi_ok of X at the matrix
   and of Y at the image (the denominators of the zi function and of the conversion to S, as in
   c04_two_port_zi); the pivot of vnaconv_ztozin when the type is Z; and drive_ok: in the S
   description of the network each port driven alone carries a non-zero current (the states from
   which the input impedances are read off are not degenerate). *)
Theorem c05_convert_zin_chain_partial : forall (K : CField) (M : Type) (nrm2 : K -> M) (mulM : M -> M -> M)
    (zeroM : M) (scale_of_max : M -> M) (swap : bool) (zd vdef : K)
    (d o1 o2 o3 : vd K) (s1 s2 s3 : bool) X Y,
  char_ok K -> Inv K c0 vdef d -> Inv K c0 vdef o1 -> Inv K c0 vdef o2 -> Inv K c0 vdef o3 ->
  ty K d = vpt_of_pt X -> rows K d = 2 -> cols K d = 2 -> X <> Y -> X <> PY -> Y <> PY ->
  zin_chain_ok K swap (abs K d) X Y ->
  let cv := convert K c0 vdef fixed true (convn_interp K M nrm2 mulM (fun _ _ => swap) zeroM scale_of_max zd) in
  let rb := cv d o1 s1 (vpt_code (vpt_of_pt Y)) in
  let rc := cv (fst rb) o2 s2 (vpt_code VZIN) in
  let rd := cv d o3 s3 (vpt_code VZIN) in
  snd rb = ok K /\ snd rc = ok K /\ snd rd = ok K /\ arr_eq K (abs K (fst rc)) (abs K (fst rd)).
Proof. exact convert_zin_chain. Qed.
Print Assumptions c05_convert_zin_chain_partial.

(* the per-frequency fact behind (2b): the two-port input impedances of the image equal those of
   the original *)
Theorem c05_zi_of_converted_matrix : forall (K : CField) X Y f (m : m2 K) (z1 z2 : K),
  char_ok K -> z0_ok z1 -> z0_ok z2 -> X <> Y -> conv2 K X Y = Some f ->
  conv2_ok K X Y m z1 z2 -> conv2zi_ok K X m z1 z2 -> conv2zi_ok K Y (f m z1 z2) z1 z2 ->
  drive_ok K (conv2_to_s K X m z1 z2) z1 z2 ->
  conv2zi K Y (f m z1 z2) z1 z2 = conv2zi K X m z1 z2.
Proof. exact zi_chain. Qed.
Print Assumptions c05_zi_of_converted_matrix.

(* non-vacuity over Q[i]: for both pivot orders, every X, Y, Z and both z0 modes the objects of
   Data/ChainExamples.v (two frequencies, reached from vnadata_alloc) meet the hypotheses of the
   three theorems above *)
Theorem c05_composed_hypotheses_satisfiable : forall swap X Y Z perf,
  chainN_ok QIF swap (abs QIF (ex_obj X perf)) X Y Z /\
  roundtrip_ok QIF swap (abs QIF (ex_obj X perf)) X Y /\
  zin_chain_ok QIF swap (abs QIF (ex_obj X perf)) X Y.
Proof.
  exact (fun swap X Y Z perf => conj (chainN_satisfiable swap X Y Z perf)
           (conj (roundtrip_satisfiable swap X Y perf) (zin_chain_satisfiable swap X Y perf))).
Qed.
Print Assumptions c05_composed_hypotheses_satisfiable.

(* ======================================================================================
   After the second review (Data/TwoObjVariants.v). *)
Require Import LV.Data.TwoObjVariants.

(* the z0 clause of c05_convert_pointwise is per frequency and therefore empty for an object
   without frequencies: the ordinary impedance vector is carried over as a whole *)
Theorem c05_convert_keeps_ordinary_z0 : forall (V : Type) (vzero vdef : V) conv d dout same ntz nt cs,
  Inv V vzero vdef d -> Inv V vzero vdef dout -> vpt_of_Z ntz = Some nt -> conv_spec (ty V d) nt = Some cs ->
  dim_ok (cs_dim cs) (rows V d) (cols V d) = true -> per_f V d = false ->
  let d' := fst (convert V vzero vdef fixed true conv d dout same ntz) in
  per_f V d' = false /\ forall p, z0v V d' p = z0v V d p.
Proof. exact convert_keeps_ordinary_z0. Qed.
Print Assumptions c05_convert_keeps_ordinary_z0.

(* Inv is a real premise: a source with fprecision 0 (what `#:fprecision 0` in an NPD file left
   behind before fix DB91) is not Inv; its conversion S -> Z into a used second object fails in the
   option copy after the destination has been wiped (type undefined, all cells 0), the same
   conversion in place succeeds.  Variant before the fix. *)
Theorem c05_model_variant_before_DB91_precision_zero :
  ~ Inv sym (L 0) (L 50) bad_src /\
  (let r := convert sym (L 0) (L 50) fixed true sconv bad_src ex_dst false 4 in
   snd r = fail sym /\
   (ty sym (fst r), rows sym (fst r), cols sym (fst r), freqs sym (fst r)) = (VUNDEF, 2, 2, 2) /\
   ob_dat sym (observe sym (fst r)) = [[L 0; L 0; L 0; L 0]; [L 0; L 0; L 0; L 0]] /\
   ob_dat sym (observe sym ex_dst) <> ob_dat sym (observe sym (fst r))) /\
  (let r := convert sym (L 0) (L 50) fixed true sconv bad_src bad_src true 4 in
   snd r = ok sym /\ ty sym (fst r) = VZ /\
   nth 0 (nth 0 (ob_dat sym (observe sym (fst r))) []) (L 0) = R (FN VS VZ) 2 [L 1; L 2; L 3; L 4] [L 50; L 75] 0).
Proof. exact model_variant_before_DB91_precision_zero. Qed.
Print Assumptions c05_model_variant_before_DB91_precision_zero.
