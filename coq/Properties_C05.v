(* Property C05: vnadata_convert applies the right conversion with the right impedances.
   Theorems only.  gen_entry is the conversion table of the code, regenerated from
   src/vnadata_convert.c by translate/convtable.py on every run and validated against the compiled
   table; conv_spec / convert are the hand-written specification of the dispatch and the model
   of vnadata_convert (coq/Data/ConvertModel.v), tied to the implementation by the op-script
   correspondence of checks/C15.py / checks/C05.py.  `conv fn n m z0` is the (abstract) call of
   the vnaconv function fn; what each function computes is property C04. *)
Require Import List ZArith String.
Require Import LV.Data.DataModel LV.Data.ConvertModel LV.Data.DataProofs LV.Data.ConvertProofs.
Import ListNotations.

(* All 121 pairs: the code's entry is INVAL exactly where the specification has no conversion;
   otherwise dimension class, z0 flag and kind agree and the selected function is literally
   vnaconv_<from>to<to> (n-port variant between S, Z, Y; ...zi / ...zin towards Zin). *)
Theorem c05_table_sound : forall x y,
  match gen_entry x y, conv_spec x y with
  | None, None => True
  | Some (d, z, k, f), Some cs => d = cs_dim cs /\ z = cs_z0 cs /\ k = cs_kind cs /\ f = fname_str (cs_fn cs)
  | _, _ => False
  end.
Proof. exact table_sound. Qed.
Print Assumptions c05_table_sound.

(* INVAL iff the manual says the pair is not convertible (same type, or from a matrix type to
   anything but "undefined"). *)
Theorem c05_table_inval_iff : forall x y, gen_entry x y = None <-> convertible x y = false.
Proof. exact table_inval_iff. Qed.
Print Assumptions c05_table_inval_iff.

Theorem c05_table_dimension_class : forall x y d z k f,
  gen_entry x y = Some (d, z, k, f) -> x <> y ->
  d = (if (is_two_port_only x || is_two_port_only y)%bool then D2x2 else DNxN).
Proof. exact table_dimension_class. Qed.
Print Assumptions c05_table_dimension_class.

Theorem c05_table_same_type_accepts : forall x d z k f r c,
  gen_entry x x = Some (d, z, k, f) -> validate_type x r c = true -> dim_ok d r c = true /\ k = KSame.
Proof. exact table_same_type_accepts. Qed.
Print Assumptions c05_table_same_type_accepts.

(* The prototype (vnaconv.h) of the selected function takes z0 iff the group says so, takes n iff
   the group is NxN, and has a vector output iff the conversion is to Zin. *)
Theorem c05_table_arity : forall x y d z k f,
  gen_entry x y = Some (d, z, k, f) -> k <> KSame ->
  proto_of f = Some (z, dimclass_eqb d DNxN, ckind_eqb k KXtoI).
Proof. exact table_arity. Qed.
Print Assumptions c05_table_arity.

(* Rejection leaves the destination unchanged. *)
Theorem c05_convert_reject_unchanged : forall (V : Type) (vzero vdef : V) conv din dout same ntz,
  (vpt_of_Z ntz = None \/
   (exists nt, vpt_of_Z ntz = Some nt /\
      (conv_spec (ty V din) nt = None \/
       exists cs, conv_spec (ty V din) nt = Some cs /\ dim_ok (cs_dim cs) (rows V din) (cols V din) = false))) ->
  convert V vzero vdef fixed conv din dout same ntz = (if same then din else dout, fail V).
Proof. exact convert_reject_unchanged. Qed.
Print Assumptions c05_convert_reject_unchanged.

(* In-place matrix-to-matrix conversion (partial: the out-of-place case and the Zin case are tied
   by the correspondence only): per frequency, the selected function applied to that frequency's
   matrix with that frequency's impedances; frequencies and impedances unchanged. *)
Theorem c05_convert_pointwise_inplace_partial : forall (V : Type) (vzero vdef : V) conv d ntz nt cs,
  Inv V vzero vdef d ->
  vpt_of_Z ntz = Some nt -> conv_spec (ty V d) nt = Some cs -> cs_kind cs = KXtoY ->
  dim_ok (cs_dim cs) (rows V d) (cols V d) = true -> rows V d = cols V d ->
  let n := rows V d in
  let d' := fst (convert V vzero vdef fixed conv d d true ntz) in
  snd (convert V vzero vdef fixed conv d d true ntz) = ok V /\
  ty V d' = nt /\ rows V d' = n /\ cols V d' = n /\ freqs V d' = freqs V d /\
  per_f V d' = per_f V d /\ z0v V d' = z0v V d /\ z0vv V d' = z0vv V d /\ fv V d' = fv V d /\
  (forall f j, f < freqs V d -> j < n * n ->
     dat V d' f j = nth j (conv (cs_fn cs) n (map (dat V d f) (seq 0 (n * n)))
                             (if cs_z0 cs then map (z0_row V d f) (seq 0 n) else [])) vzero) /\
  (forall f j, ~ (f < freqs V d /\ j < n * n) -> dat V d' f j = dat V d f j).
Proof. exact convert_pointwise_inplace. Qed.
Print Assumptions c05_convert_pointwise_inplace_partial.

(* Conversion to Zin in place, then growing the object again: the re-exposed cells are initial
   (concrete history, arbitrary values and conversion function) ... *)
Theorem c05_convert_zin_fresh_example : forall (V : Type) (vzero vdef : V) conv a b c e,
  let s := mrun V vzero vdef fixed conv (minit V vzero vdef) (zin_history V a b c e) in
  dat V (fst s) 0 2 = vzero /\ dat V (fst s) 0 3 = vzero /\
  dat V (fst s) 0 0 = nth 0 (conv (FIN VS) 2 [a; b; c; e] [vdef; vdef]) vzero.
Proof. exact convert_zin_fresh_example. Qed.
Print Assumptions c05_convert_zin_fresh_example.

(* ... whereas the code as found (D5) left the old matrix cells behind. *)
Theorem c05_convert_zin_fresh_refuted_as_found : forall (V : Type) (vzero vdef : V) conv a b c e,
  let s := mrun V vzero vdef as_found conv (minit V vzero vdef) (zin_history V a b c e) in
  dat V (fst s) 0 2 = c /\ dat V (fst s) 0 3 = e.
Proof. exact convert_zin_fresh_refuted_as_found. Qed.
Print Assumptions c05_convert_zin_fresh_refuted_as_found.
