(* C12 - any single allocation failure yields a clean ENOMEM failure, nothing worse.
   Forall-k theorems about the fault-monad models coq/Mem/{PropList,ParamSlots}.v.  The start
   state [start (Some k)] makes request number k+1 fail; [start None] is the fault-free run. *)
Require Import List ZArith.
Import ListNotations.
Require Import LV.Mem.Alloc LV.Mem.AllocProofs LV.Mem.PropList LV.Mem.PropListProofs LV.Mem.ParamSlots LV.Mem.ParamProofs
               LV.Mem.DataAlloc LV.Mem.DataProofs.
Open Scope Z_scope.

(* Appendix E bind lemma: a composite operation either faults in its first part or continues in
   the state (ledger and remaining fault countdown) the first part left *)
Theorem fault_monad_bind : forall A B (m : M A) (f : A -> M B) s r,
  bind m f s = r ->
  (exists e, m s = Fault e /\ r = Fault e) \/ (exists a s', m s = Ok (a, s') /\ r = f a s').
Proof. exact bind_inv. Qed.
Print Assumptions fault_monad_bind.

Theorem fault_countdown : forall sz s k,
  fail_at s = Some (S k) -> exists b s', malloc sz s = Ok (Some b, s') /\ fail_at s' = Some k.
Proof. exact malloc_countdown. Qed.
Print Assumptions fault_countdown.

(* list container: for every call, every state satisfying the invariant and every fault point k the
   call completes (Done or an errno class, never a fault) and the invariant holds afterwards: every
   live block is owned by the list (nothing orphaned), the list stays usable and can be freed.
   PARTIAL: "Ok equals the fault-free result" and "the repeat gives the same result" are not proved
   (the C-side enumeration checks them); "observable state unchanged" is false, see below. *)
Theorem plist_fault_clean_partial : forall op l s, Inv l s ->
  exists l' o s', lstep Fixed l op s = Ok ((l', o), s') /\ Inv l' s'.
Proof. exact plist_fault_clean_lemma. Qed.
Print Assumptions plist_fault_clean_partial.

(* whole histories with one failing request: no fault and an empty ledger after the free *)
Theorem plist_fault_history : forall ops k os s',
  history Fixed ops (start (Some k)) = Ok (os, s') -> live s' = [].
Proof. exact plist_fault_history_lemma. Qed.
Print Assumptions plist_fault_history.

Theorem plist_fault_history_no_fault : forall ops k f, history Fixed ops (start (Some k)) <> Fault f.
Proof. exact plist_fault_history_no_fault_lemma. Qed.
Print Assumptions plist_fault_history_no_fault.

(* D55 (known finding): a set that fails with ENOMEM has already changed the list *)
Theorem plist_set_not_atomic_refuted :
  exists l s op l' s', Inv l s /\ lstep Fixed l op s = Ok ((l', Err ENOMEM), s') /\ observe l' <> observe l.
Proof. exact plist_set_not_atomic_refuted_lemma. Qed.
Print Assumptions plist_set_not_atomic_refuted.

(* parameter slots *)
Theorem pslots_fault_clean_partial : forall op c s, PInv c s ->
  exists c' o s', pstep Fixed c op s = Ok ((c', o), s') /\ PInv c' s'.
Proof. exact pslots_fault_clean_lemma. Qed.
Print Assumptions pslots_fault_clean_partial.

Theorem pslots_fault_history : forall ops k os s',
  phistory Fixed ops (start (Some k)) = Ok (os, s') -> live s' = [].
Proof. exact pslots_fault_history_lemma. Qed.
Print Assumptions pslots_fault_history.

Theorem pslots_fault_history_no_fault : forall ops k f, phistory Fixed ops (start (Some k)) <> Fault f.
Proof. exact pslots_fault_history_no_fault_lemma. Qed.
Print Assumptions pslots_fault_history_no_fault.

(* D11 as first read: after one failed malloc the next allocation reads past the table *)
Theorem pslots_orig_refuted : exists ops k, phistory Orig ops (start (Some k)) = Fault OOB.
Proof. exact pslots_orig_refuted_lemma. Qed.
Print Assumptions pslots_orig_refuted.

(* vnadata allocation skeleton: a resize with any fault point completes with Done / EINVAL / ENOMEM,
   and afterwards the invariant holds: rows already reallocated stay owned (capacities may have
   grown), nothing is orphaned, the object can be resized again and freed.
   PARTIAL as above (equality with the fault-free result and the repeat are not theorems). *)
Theorem vdata_fault_clean_partial : forall d s p m f, DInv d s ->
  exists d' o s', resize Fixed d p m f s = Ok ((d', o), s') /\ DInv d' s'.
Proof. exact vdata_fault_clean_lemma. Qed.
Print Assumptions vdata_fault_clean_partial.

Theorem vdata_fault_history : forall pf ops k os s',
  dhistory Fixed pf ops (start (Some k)) = Ok (os, s') -> live s' = [].
Proof. exact vdata_fault_history_lemma. Qed.
Print Assumptions vdata_fault_history.

Theorem vdata_fault_history_no_fault : forall pf ops k f, dhistory Fixed pf ops (start (Some k)) <> Fault f.
Proof. exact vdata_fault_history_no_fault_lemma. Qed.
Print Assumptions vdata_fault_history_no_fault.

(* ------------------------------------------------------------------ the two chained hash tables
   (coq/Mem/HashTab.v).  [s] is arbitrary in the per-call theorems, so [fail_at s] ranges over every
   fault point of the call. *)
Require Import LV.Mem.HashTab LV.Mem.HashTabProofs.

(* vnacal_new_t parameter hash: a get / find with any fault point completes (never a fault), the
   invariant holds afterwards (chains sorted and in their buckets, every live block owned: nothing
   leaked), the answer is the one the stored keys dictate, and when it is ENOMEM the table is the very
   same table and the fault has been consumed.  (A failed hash_expand inside a successful insert is
   ignored by the code: the table keeps its size and stays consistent; the next insert tries again.) *)
Theorem phash_fault_clean : forall op h s, PHInv h s ->
  exists h' o s', phstep HFixed h op s = Ok ((h', o), s') /\ PHInv h' s' /\
    ph_spec (all_keys h) op o (all_keys h') /\ (o = Err ENOMEM -> h' = h /\ fail_at s' = None).
Proof. exact ph_fault_clean_lemma. Qed.
Print Assumptions phash_fault_clean.

(* the repeated call succeeds and stores the key *)
Theorem phash_retry : forall h s p h' s', PHInv h s ->
  ph_get HFixed h p s = Ok ((h', Err ENOMEM), s') ->
  h' = h /\ exists h'' s'', ph_get HFixed h' p s' = Ok ((h'', Done), s'') /\ PHInv h'' s'' /\
    same (all_keys h'') (Z.to_nat p :: all_keys h).
Proof. exact ph_retry_lemma. Qed.
Print Assumptions phash_retry.

Theorem phash_fault_history : forall ops k os s',
  phhistory HFixed ops (start (Some k)) = Ok (os, s') -> live s' = [].
Proof. exact ph_fault_history_lemma. Qed.
Print Assumptions phash_fault_history.

Theorem phash_fault_history_no_fault : forall ops k f, phhistory HFixed ops (start (Some k)) <> Fault f.
Proof. exact ph_fault_history_no_fault_lemma. Qed.
Print Assumptions phash_fault_history_no_fault.

(* vnaproperty map, every hash function: a set / look-up / delete / keys with any fault point completes,
   the invariant holds afterwards, the answer is the one the insertion-order list dictates, and on
   ENOMEM the order list and the key set are unchanged (the table may have grown: a look-up expands
   first) and the fault has been consumed *)
Theorem pmap_fault_clean : forall hf op m s, MInv hf m s ->
  exists m' o ks s', mstep HFixed m (mop_of hf op) s = Ok ((m', o, ks), s') /\ MInv hf m' s' /\
    m_spec (morder m) op o ks (morder m') /\
    (o = Err ENOMEM -> fail_at s' = None /\ morder m' = morder m /\ same (all_keys (mtab m')) (all_keys (mtab m))).
Proof. exact map_fault_clean_lemma. Qed.
Print Assumptions pmap_fault_clean.

Theorem pmap_retry : forall hf m s k m' s', MInv hf m s ->
  map_subtree HFixed m true k (hf k) s = Ok ((m', Err ENOMEM), s') ->
  MInv hf m' s' /\ morder m' = morder m /\
  exists m'' s'', map_subtree HFixed m' true k (hf k) s' = Ok ((m'', Done), s'') /\ MInv hf m'' s'' /\
    ((In k (morder m) /\ morder m'' = morder m) \/ (~ In k (morder m) /\ morder m'' = morder m ++ [k])).
Proof. exact map_retry_lemma. Qed.
Print Assumptions pmap_retry.

Theorem pmap_fault_history : forall hf ops k os s',
  mhistory HFixed (map (mop_of hf) ops) (start (Some k)) = Ok (os, s') -> live s' = [].
Proof. exact map_fault_history_lemma. Qed.
Print Assumptions pmap_fault_history.

Theorem pmap_fault_history_no_fault : forall hf ops k f,
  mhistory HFixed (map (mop_of hf) ops) (start (Some k)) <> Fault f.
Proof. exact map_fault_history_no_fault_lemma. Qed.
Print Assumptions pmap_fault_history_no_fault.

(* non-vacuity of the two invariants *)
Theorem phash_fault_inv_satisfiable : exists h s, PHInv h s /\ halloc h = 16%nat /\ hcount h = 9%nat /\
  nth 0 (map (map nkey) (hbuckets h)) [] = [0; 16; 32]%nat.
Proof. exact PHInv_satisfiable. Qed.
Print Assumptions phash_fault_inv_satisfiable.

Theorem pmap_fault_inv_satisfiable : exists m s, MInv hf_demo m s /\ halloc (mtab m) = 33%nat /\ hcount (mtab m) = 21%nat /\
  nth 0 (map (map nkey) (hbuckets (mtab m))) [] = [0; 2]%nat /\ length (live s) = 44%nat.
Proof. exact MInv_satisfiable. Qed.
Print Assumptions pmap_fault_inv_satisfiable.

(* ------------------------------------------------------------------ the z0 modes of a vnadata_t (coq/Mem/DataZ0.v):
   a resize or a z0 setter (conversion between the modes included: row vector, one row per allocated frequency, the
   copy of the caller's vector) with any fault point completes with Done / EINVAL / ENOMEM and the invariant holds
   afterwards: every live block is owned by the object (the copy and the rows allocated before the failure have been
   released), every allocated frequency row has its z0 vector, the object can be used again and freed.
   PARTIAL as for the other skeletons (equality with the fault-free result and the repeat are not theorems). *)
Require Import LV.Mem.DataZ0 LV.Mem.DataZ0Proofs.

Theorem vdataz_fault_clean_partial : forall op o s, OInv o s ->
  exists o' out s', zstep ZFixed o op s = Ok ((o', out), s') /\ OInv o' s'.
Proof. exact vdataz_fault_clean_lemma. Qed.
Print Assumptions vdataz_fault_clean_partial.

Theorem vdataz_fault_history : forall ops k os s', zhistory ZFixed ops (start (Some k)) = Ok (os, s') -> live s' = [].
Proof. intros ops k; exact (vdataz_no_leak_lemma ops (Some k)). Qed.
Print Assumptions vdataz_fault_history.

Theorem vdataz_fault_history_no_fault : forall ops k f, zhistory ZFixed ops (start (Some k)) <> Fault f.
Proof. intros ops k; exact (vdataz_no_fault_lemma ops (Some k)). Qed.
Print Assumptions vdataz_fault_history_no_fault.

Theorem vdataz_fault_inv_satisfiable : exists o s, OInv o s /\ perf (od o) = true /\ fal (od o) = 4%nat /\ ofr o = 2%nat /\ opt o = 2%nat /\
  length (live s) = 12%nat.
Proof. exact OInv_satisfiable. Qed.
Print Assumptions vdataz_fault_inv_satisfiable.

(* ---------------------------------------------------------------- the vnacal_new_t allocation skeleton (Mem/NewAlloc.v) *)
Require Import LV.Mem.NewAlloc LV.Mem.NewAllocProofs LV.Mem.NewHoldProofs.

(* every call of the life cycle with any fault point ([s] is arbitrary): it completes with Done or an errno class and the world
   invariant holds again (nothing orphaned, nothing dangling), so every later call is safe and vnacal_free releases everything
   (new_no_fault / new_no_leak of Properties_C03.v with k = Some _) *)
Theorem new_fault_clean : forall w op s, WInv w s -> exists w' o s', wstep NFixed w op s = Ok ((w', o), s') /\ WInv w' s'.
Proof. exact new_fault_clean_lemma. Qed.
Print Assumptions new_fault_clean.

(* with one failing request anywhere in the history: nothing left in the ledger, every hold given back *)
Theorem new_fault_history : forall ks ops k os held s', cfg_ok ks ->
  whistory NFixed ks ops (start (Some k)) = Ok ((os, held), s') -> live s' = [] /\ forall h, In h held -> h = 0%nat.
Proof. intros ks ops k; exact (new_no_leak_full_lemma ks ops (Some k)). Qed.
Print Assumptions new_fault_history.

Theorem new_fault_history_no_fault : forall ks ops k f, cfg_ok ks -> whistory NFixed ks ops (start (Some k)) <> Fault f.
Proof. intros ks ops k; exact (new_no_fault_lemma ks ops (Some k)). Qed.
Print Assumptions new_fault_history_no_fault.

(* vnacal_new_set_m_error (after the repair DI90): every argument class, every fault point: completes, and a call that does
   not return 0 leaves the vnacal_new_t exactly as it was - ATOMIC *)
Theorem new_merr_fault_atomic : forall F v ps a s, Post F v ps s ->
  exists v' o s', set_m_error NFixed v a s = Ok ((v', o), s') /\ Post F v' ps s' /\ (o <> Done -> v' = v).
Proof. exact new_merr_fault_clean_lemma. Qed.
Print Assumptions new_merr_fault_atomic.

Theorem new_fault_post_satisfiable : exists v ps s, Post [] v ps s /\ vn_merr v <> None /\ length (live s) = 6%nat.
Proof. exact NewAllocProofs.new_post_satisfiable. Qed.
Print Assumptions new_fault_post_satisfiable.

(* the code before the repair DI90 (variant NSplineLate): a failing spline leaves a fresh, zeroed vector installed *)
Theorem new_merr_spline_not_atomic_refuted :
  exists ks ops k w os s, wrun NSplineLate (mkW (mkprms ks) []) ops (start (Some k)) = Ok ((w, os), s) /\
    last os Done = Err ENOMEM /\
    map (fun o => match o with Some v => match vn_merr v with Some _ => true | None => false end | None => false end) (w_new w) = [true].
Proof. exact new_merr_spline_not_atomic_refuted_lemma. Qed.
Print Assumptions new_merr_spline_not_atomic_refuted.

(* NOT atomic, as coded (witnesses replayed against the library by the enumeration of the tie; DI91 for the first) *)
Theorem new_add_not_atomic_refuted :
  exists ks ops k w os s, wrun NFixed (mkW (mkprms ks) []) ops (start (Some k)) = Ok ((w, os), s) /\
    last os Done = Err ENOMEM /\
    map (fun o => match o with Some v => (vn_unk v, vn_nmeas v) | None => ([], 0%nat) end) (w_new w) = [([4%nat], 0%nat)].
Proof. exact new_add_not_atomic_refuted_lemma. Qed.
Print Assumptions new_add_not_atomic_refuted.

(* the write-back before the repair DI92 (variant NWriteBackLate) *)
Theorem new_solve_writeback_not_atomic_refuted :
  exists ks ops k w os s, wrun NWriteBackLate (mkW (mkprms ks) []) ops (start (Some k)) = Ok ((w, os), s) /\
    last os Done = Err ENOMEM /\
    map (fun p => match pgv p with Some _ => true | None => false end) (w_prm w) = [false; false; false; false; true; false].
Proof. exact new_solve_writeback_not_atomic_refuted_lemma. Qed.
Print Assumptions new_solve_writeback_not_atomic_refuted.

(* bug shape of the seeded change C12-9: a hold is left on the correlated parameter when the node of its correlate
   cannot be allocated; the tree's code gives every hold back *)
Theorem new_hold_early_leak_refuted :
  exists ks ops k os held s, whistory NHoldEarly ks ops (start (Some k)) = Ok ((os, held), s) /\ held <> map (fun _ => 0%nat) ks /\
    exists os' s', whistory NFixed ks ops (start (Some k)) = Ok ((os', map (fun _ => 0%nat) ks), s').
Proof. exact new_hold_early_leak_refuted_lemma. Qed.
Print Assumptions new_hold_early_leak_refuted.

(* vnacal_new_solve (after the repair DI92: the frequency vectors of all unknowns are allocated before any solution is stored):
   every outcome other than success - a refused call, any failing request incl. those of the write-back, a kernel that gives up -
   leaves the vnacal_new_t and every parameter (holds, frequency vector, gamma vector, frequency count) exactly as they were *)
Theorem new_solve_atomic : forall v ps body trl fails s v' ps' out s',
  solve NFixed v ps body trl fails s = Ok ((v', ps', out), s') -> out <> Done -> v' = v /\ ps' = ps.
Proof. exact new_solve_atomic_lemma. Qed.
Print Assumptions new_solve_atomic.

(* not vacuous: the history whose write-back failed half way before the repair now fails with every gamma vector absent as before *)
Example new_solve_atomic_witness :
  exists w os s, wrun NFixed (mkW (mkprms ks5) []) [WNew cfgA; WSetF 0; WAdd 0 (addA 4); WAdd 0 (addA 5); WSolve 0 0 false false] (start (Some 40%nat)) = Ok ((w, os), s) /\
    last os Done = Err ENOMEM /\
    map (fun p => match pgv p with Some _ => true | None => false end) (w_prm w) = [false; false; false; false; false; false].
Proof. eexists; eexists; eexists. split; [vm_compute; reflexivity | split; vm_compute; reflexivity]. Qed.
