(* C02 - self-calibration (TRL, unknown / correlated parameters).
   Theorems only: each is closed by [exact] of a lemma of coq/SelfCal/*.v. *)
Require Import QArith Qcanon List.
Import ListNotations.
Require Import LV.Base.CField LV.Base.QcI.
Require Import LV.SelfCal.TrlModel LV.SelfCal.TrlProofs LV.SelfCal.TrlQI.
Require Import LV.SelfCal.TrlTermsModel LV.SelfCal.TrlTermsProofs LV.SelfCal.TrlTermsQI.
Require Import LV.SelfCal.AutoLoop LV.SelfCal.AutoProofs LV.SelfCal.AutoReplay.
Require Import LV.SelfCal.GuardModel LV.SelfCal.GuardProofs.
Require Import Permutation.
Require Import LV.SelfCal.DispatchModel LV.SelfCal.DispatchProofs.
Local Open Scope cf_scope.

(* ---- TRL: the true values are roots of the equations the code forms from the data ---- *)
Theorem trl_line_root_T8 : forall (K : CField), char_ok K -> forall (e : tbox K) (l : K),
  tdet K e (s_through K) <> 0 -> tdet K e (s_line K l) <> 0 ->
  let mt := meas_t K e (s_through K) in let ml := meas_t K e (s_line K l) in
  trl_a K mt ml * l * l + trl_b K mt ml * l + trl_a K mt ml = 0.
Proof. exact trl_line_root_t. Qed.
Print Assumptions trl_line_root_T8.

Theorem trl_reflect_root_T8 : forall (K : CField) (e : tbox K) (l r : K),
  tdet K e (s_through K) <> 0 -> tdet K e (s_line K l) <> 0 -> tdet K e (s_reflect K r) <> 0 ->
  let mt := meas_t K e (s_through K) in let ml := meas_t K e (s_line K l) in
  let mr := meas_t K e (s_reflect K r) in
  r * r * trl_d K mt mr ml l = trl_n K mt mr ml l.
Proof. exact trl_reflect_root_t. Qed.
Print Assumptions trl_reflect_root_T8.

Theorem trl_line_root_U8 : forall (K : CField), char_ok K -> forall (e : ubox K) (l : K),
  udet K e (s_through K) <> 0 -> udet K e (s_line K l) <> 0 ->
  let mt := meas_u K e (s_through K) in let ml := meas_u K e (s_line K l) in
  trl_a K mt ml * l * l + trl_b K mt ml * l + trl_a K mt ml = 0.
Proof. exact trl_line_root_u. Qed.
Print Assumptions trl_line_root_U8.

Theorem trl_reflect_root_U8 : forall (K : CField) (e : ubox K) (l r : K),
  udet K e (s_through K) <> 0 -> udet K e (s_line K l) <> 0 -> udet K e (s_reflect K r) <> 0 ->
  let mt := meas_u K e (s_through K) in let ml := meas_u K e (s_line K l) in
  let mr := meas_u K e (s_reflect K r) in
  r * r * trl_d K mt mr ml l = trl_n K mt mr ml l.
Proof. exact trl_reflect_root_u. Qed.
Print Assumptions trl_reflect_root_U8.

(* TE10 / UE10: the reflect has no off-diagonal 8-term signal, so subtracting its off-diagonal
   cells removes the additive leakage exactly and the T8 / U8 theorems apply *)
Theorem trl_leakage_removed : forall (K : CField) (m mr : m2 K) (l12 l21 : K),
  m12 mr = 0 -> m21 mr = 0 ->
  leak_removed K (add_leak K m l12 l21) (add_leak K mr l12 l21) = m.
Proof. exact leak_removed_exact. Qed.
Print Assumptions trl_leakage_removed.

Theorem trl_reflect_has_no_offdiagonal_T : forall (K : CField) (e : tbox K) (r : K),
  tdet K e (s_reflect K r) <> 0 ->
  m12 (meas_t K e (s_reflect K r)) = 0 /\ m21 (meas_t K e (s_reflect K r)) = 0.
Proof. exact reflect_offdiag_t. Qed.
Print Assumptions trl_reflect_has_no_offdiagonal_T.

Theorem trl_reflect_has_no_offdiagonal_U : forall (K : CField) (e : ubox K) (r : K),
  udet K e (s_reflect K r) <> 0 ->
  m12 (meas_u K e (s_reflect K r)) = 0 /\ m21 (meas_u K e (s_reflect K r)) = 0.
Proof. exact reflect_offdiag_u. Qed.
Print Assumptions trl_reflect_has_no_offdiagonal_U.

(* ---- TRL: the selection rule returns the truth when the guess is on its side ---- *)
Theorem trl_selects_truth_line_thm : forall (K : CField), char_ok K ->
  (forall x y : K, {x = y} + {x <> y}) ->
  forall (sq : K -> K) (Mag : Type) (mag : K -> Mag) (le_abs : Mag -> Mag -> bool),
  (forall x y, le_abs x y = false -> le_abs y x = true) ->
  forall a b l guess : K,
  a <> 0 ->
  sq (b * b - (two * two) * a * a) * sq (b * b - (two * two) * a * a) = b * b - (two * two) * a * a ->
  a * l * l + b * l + a = 0 ->
  le_abs (mag (trl_u K a b + trl_u K a b - l - guess)) (mag (l - guess)) = false ->
  trl_select_line K sq Mag mag le_abs a b guess = l.
Proof. exact trl_selects_truth_line. Qed.
Print Assumptions trl_selects_truth_line_thm.

Theorem trl_selects_truth_reflect_thm : forall (K : CField),
  (forall x y : K, {x = y} + {x <> y}) ->
  forall (sq : K -> K) (Mag : Type) (mag : K -> Mag) (le_abs : Mag -> Mag -> bool),
  (forall x y, le_abs x y = false -> le_abs y x = true) ->
  forall n d r guess : K,
  sq (n / d) * sq (n / d) = n / d -> r * r = n / d ->
  le_abs (mag (- r - guess)) (mag (r - guess)) = false ->
  trl_select_reflect K sq Mag mag le_abs n d guess = r.
Proof. exact trl_selects_truth_reflect. Qed.
Print Assumptions trl_selects_truth_reflect_thm.

Theorem trl_selects_truth_T8 : forall (K : CField), char_ok K ->
  (forall x y : K, {x = y} + {x <> y}) ->
  forall (sq : K -> K) (Mag : Type) (mag : K -> Mag) (le_abs : Mag -> Mag -> bool),
  (forall x y, le_abs x y = false -> le_abs y x = true) ->
  forall (e : tbox K) (l r lguess rguess : K),
  tdet K e (s_through K) <> 0 -> tdet K e (s_line K l) <> 0 -> tdet K e (s_reflect K r) <> 0 ->
  let mt := meas_t K e (s_through K) in let ml := meas_t K e (s_line K l) in
  let mr := meas_t K e (s_reflect K r) in
  let a := trl_a K mt ml in let b := trl_b K mt ml in
  let n := trl_n K mt mr ml l in let d := trl_d K mt mr ml l in
  a <> 0 -> d <> 0 ->
  sq (b * b - (two * two) * a * a) * sq (b * b - (two * two) * a * a) = b * b - (two * two) * a * a ->
  sq (n / d) * sq (n / d) = n / d ->
  le_abs (mag (trl_u K a b + trl_u K a b - l - lguess)) (mag (l - lguess)) = false ->
  le_abs (mag (- r - rguess)) (mag (r - rguess)) = false ->
  trl_solve K sq Mag mag le_abs mt mr ml lguess rguess = (l, r).
Proof. exact trl_solve_truth_t. Qed.
Print Assumptions trl_selects_truth_T8.

Theorem trl_selects_truth_U8 : forall (K : CField), char_ok K ->
  (forall x y : K, {x = y} + {x <> y}) ->
  forall (sq : K -> K) (Mag : Type) (mag : K -> Mag) (le_abs : Mag -> Mag -> bool),
  (forall x y, le_abs x y = false -> le_abs y x = true) ->
  forall (e : ubox K) (l r lguess rguess : K),
  udet K e (s_through K) <> 0 -> udet K e (s_line K l) <> 0 -> udet K e (s_reflect K r) <> 0 ->
  let mt := meas_u K e (s_through K) in let ml := meas_u K e (s_line K l) in
  let mr := meas_u K e (s_reflect K r) in
  let a := trl_a K mt ml in let b := trl_b K mt ml in
  let n := trl_n K mt mr ml l in let d := trl_d K mt mr ml l in
  a <> 0 -> d <> 0 ->
  sq (b * b - (two * two) * a * a) * sq (b * b - (two * two) * a * a) = b * b - (two * two) * a * a ->
  sq (n / d) * sq (n / d) = n / d ->
  le_abs (mag (trl_u K a b + trl_u K a b - l - lguess)) (mag (l - lguess)) = false ->
  le_abs (mag (- r - rguess)) (mag (r - rguess)) = false ->
  trl_solve K sq Mag mag le_abs mt mr ml lguess rguess = (l, r).
Proof. exact trl_solve_truth_u. Qed.
Print Assumptions trl_selects_truth_U8.

(* the hypotheses are met by concrete error boxes over Q[i], and the model returns the truth *)
Theorem trl_selects_truth_satisfiable_T8 :
  fst (q_trl_solve sq0 mt0 mr0 ml0 lg0 rg0) = l0 /\ snd (q_trl_solve sq0 mt0 mr0 ml0 lg0 rg0) = r0.
Proof. exact trl_truth_instance_t. Qed.
Print Assumptions trl_selects_truth_satisfiable_T8.

Theorem trl_selects_truth_satisfiable_U8 :
  fst (q_trl_solve sq1 nt0 nr0 nl0 lg0 rg0) = l0 /\ snd (q_trl_solve sq1 nt0 nr0 nl0 lg0 rg0) = r0.
Proof. exact trl_truth_instance_u. Qed.
Print Assumptions trl_selects_truth_satisfiable_U8.

(* the side condition on the guess cannot be dropped *)
Theorem trl_guess_on_wrong_side_selects_other_root :
  fst (q_trl_solve sq0 mt0 mr0 ml0 (qi_inv l0) rg0) = qi_inv l0 /\ qi_inv l0 <> l0.
Proof. exact trl_wrong_side_selects_other. Qed.
Print Assumptions trl_guess_on_wrong_side_selects_other_root.

(* ---- TRL, second half: the error terms and the corrected device ----
   With the true l and r written into the S matrices, the (at most 10 x 7) linear system that
   _vnacal_new_solve_trl hands to _vnacommon_qrsolve (rows as coded: trl_rows_t / trl_rows_u,
   standards in any order)
     (1) is solved exactly by the true error box divided by its unity term,
     (2) has no other solution (full column rank), provided tm11, tm22 <> 0, both ports' boxes are
         invertible (tdelta), l^2 <> 1 (the line is not a through) and r <> 0 (the reflect is not
         a match), and
     (3) vnacal_apply (fill_t8 / fill_u8, 2x2) with a solution returns the S matrix of EVERY
         device from its measurement, whenever it does not report a singular system (adet <> 0).
   That _vnacommon_qrsolve returns the solution of a consistent full-rank system, and that the
   LU solve of vnacal_apply equals the cofactor formula, are C19's subject (exact arithmetic). *)
Theorem trl_error_terms_exact_unique_correct_T8 : forall (K : CField) (e : tbox K) (l r : K) (order : list skind),
  tm1 K e <> 0 -> tm2 K e <> 0 -> tdelta1 K e <> 0 -> tdelta2 K e <> 0 -> l * l - 1 <> 0 -> r <> 0 ->
  tdet K e (s_through K) <> 0 -> tdet K e (s_line K l) <> 0 -> tdet K e (s_reflect K r) <> 0 ->
  In KT order -> In KR order -> In KL order ->
  let rows := trl_rows_t K order (meas_t K e (s_through K)) (meas_t K e (s_reflect K r))
                         (meas_t K e (s_line K l)) l r in
  (forall row, In row rows -> sat K (x_of_tbox K (tnorm K e)) row) /\
  (forall x, length x = 7%nat -> (forall row, In row rows -> sat K x row) ->
     x = x_of_tbox K (tnorm K e) /\
     forall s, tdet K e s <> 0 -> adet_t K (tbox_of_x K x) (meas_t K e s) <> 0 ->
               corr_t K (tbox_of_x K x) (meas_t K e s) = s).
Proof. exact trl_terms_t. Qed.
Print Assumptions trl_error_terms_exact_unique_correct_T8.

Theorem trl_error_terms_exact_unique_correct_U8 : forall (K : CField) (e : ubox K) (l r : K) (order : list skind),
  um1 K e <> 0 -> um2 K e <> 0 -> udelta1 K e <> 0 -> udelta2 K e <> 0 -> l * l - 1 <> 0 -> r <> 0 ->
  udet K e (s_through K) <> 0 -> udet K e (s_line K l) <> 0 -> udet K e (s_reflect K r) <> 0 ->
  In KT order -> In KR order -> In KL order ->
  let rows := trl_rows_u K order (meas_u K e (s_through K)) (meas_u K e (s_reflect K r))
                         (meas_u K e (s_line K l)) l r in
  (forall row, In row rows -> sat K (x_of_ubox K (unorm K e)) row) /\
  (forall x, length x = 7%nat -> (forall row, In row rows -> sat K x row) ->
     x = x_of_ubox K (unorm K e) /\
     forall s, udet K e s <> 0 -> adet_u K (ubox_of_x K x) (meas_u K e s) <> 0 ->
               corr_u K (ubox_of_x K x) (meas_u K e s) = s).
Proof. exact trl_terms_u. Qed.
Print Assumptions trl_error_terms_exact_unique_correct_U8.

(* both halves: the system is formed with the l and r the root selection returned *)
Theorem trl_path_corrects_device_T8 : forall (K : CField), char_ok K ->
  (forall x y : K, {x = y} + {x <> y}) ->
  forall (sq : K -> K) (Mag : Type) (mag : K -> Mag) (le_abs : Mag -> Mag -> bool),
  (forall x y, le_abs x y = false -> le_abs y x = true) ->
  forall (e : tbox K) (l r lguess rguess : K) (order : list skind),
  tdet K e (s_through K) <> 0 -> tdet K e (s_line K l) <> 0 -> tdet K e (s_reflect K r) <> 0 ->
  let mt := meas_t K e (s_through K) in let ml := meas_t K e (s_line K l) in
  let mr := meas_t K e (s_reflect K r) in
  let a := trl_a K mt ml in let b := trl_b K mt ml in
  let n := trl_n K mt mr ml l in let d := trl_d K mt mr ml l in
  a <> 0 -> d <> 0 ->
  sq (b * b - (two * two) * a * a) * sq (b * b - (two * two) * a * a) = b * b - (two * two) * a * a ->
  sq (n / d) * sq (n / d) = n / d ->
  le_abs (mag (trl_u K a b + trl_u K a b - l - lguess)) (mag (l - lguess)) = false ->
  le_abs (mag (- r - rguess)) (mag (r - rguess)) = false ->
  tm1 K e <> 0 -> tm2 K e <> 0 -> tdelta1 K e <> 0 -> tdelta2 K e <> 0 -> l * l - 1 <> 0 -> r <> 0 ->
  In KT order -> In KR order -> In KL order ->
  let lr := trl_solve K sq Mag mag le_abs mt mr ml lguess rguess in
  forall x, length x = 7%nat ->
    (forall row, In row (trl_rows_t K order mt mr ml (fst lr) (snd lr)) -> sat K x row) ->
    x = x_of_tbox K (tnorm K e) /\
    forall s, tdet K e s <> 0 -> adet_t K (tbox_of_x K x) (meas_t K e s) <> 0 ->
              corr_t K (tbox_of_x K x) (meas_t K e s) = s.
Proof. exact trl_path_corrects_device_t. Qed.
Print Assumptions trl_path_corrects_device_T8.

Theorem trl_path_corrects_device_U8 : forall (K : CField), char_ok K ->
  (forall x y : K, {x = y} + {x <> y}) ->
  forall (sq : K -> K) (Mag : Type) (mag : K -> Mag) (le_abs : Mag -> Mag -> bool),
  (forall x y, le_abs x y = false -> le_abs y x = true) ->
  forall (e : ubox K) (l r lguess rguess : K) (order : list skind),
  udet K e (s_through K) <> 0 -> udet K e (s_line K l) <> 0 -> udet K e (s_reflect K r) <> 0 ->
  let mt := meas_u K e (s_through K) in let ml := meas_u K e (s_line K l) in
  let mr := meas_u K e (s_reflect K r) in
  let a := trl_a K mt ml in let b := trl_b K mt ml in
  let n := trl_n K mt mr ml l in let d := trl_d K mt mr ml l in
  a <> 0 -> d <> 0 ->
  sq (b * b - (two * two) * a * a) * sq (b * b - (two * two) * a * a) = b * b - (two * two) * a * a ->
  sq (n / d) * sq (n / d) = n / d ->
  le_abs (mag (trl_u K a b + trl_u K a b - l - lguess)) (mag (l - lguess)) = false ->
  le_abs (mag (- r - rguess)) (mag (r - rguess)) = false ->
  um1 K e <> 0 -> um2 K e <> 0 -> udelta1 K e <> 0 -> udelta2 K e <> 0 -> l * l - 1 <> 0 -> r <> 0 ->
  In KT order -> In KR order -> In KL order ->
  let lr := trl_solve K sq Mag mag le_abs mt mr ml lguess rguess in
  forall x, length x = 7%nat ->
    (forall row, In row (trl_rows_u K order mt mr ml (fst lr) (snd lr)) -> sat K x row) ->
    x = x_of_ubox K (unorm K e) /\
    forall s, udet K e s <> 0 -> adet_u K (ubox_of_x K x) (meas_u K e s) <> 0 ->
              corr_u K (ubox_of_x K x) (meas_u K e s) = s.
Proof. exact trl_path_corrects_device_u. Qed.
Print Assumptions trl_path_corrects_device_U8.

(* every hypothesis of the two theorems above about the error terms is met by the Q[i] boxes of
   TrlQI.v (order L, T, R; a solution x0 / x1 of all ten rows; a device with both determinants
   non-zero), and the conclusions are also obtained by computation *)
Theorem trl_error_terms_hyps_satisfiable_T8 :
  tm1 QIF e0 <> qi0 /\ tm2 QIF e0 <> qi0 /\ tdelta1 QIF e0 <> qi0 /\ tdelta2 QIF e0 <> qi0 /\
  qi_sub (qi_mul l0 l0) qi1 <> qi0 /\ r0 <> qi0 /\
  tdet QIF e0 (s_through QIF) <> qi0 /\ tdet QIF e0 (s_line QIF l0) <> qi0 /\
  tdet QIF e0 (s_reflect QIF r0) <> qi0 /\
  In KT order0 /\ In KR order0 /\ In KL order0 /\
  length x0 = 7%nat /\ (forall row, In row rows0 -> sat QIF x0 row) /\
  tdet QIF e0 dut0 <> qi0 /\ adet_t QIF (tbox_of_x QIF x0) (meas_t QIF e0 dut0) <> qi0.
Proof. exact trl_terms_hyps_satisfiable_t. Qed.
Print Assumptions trl_error_terms_hyps_satisfiable_T8.

Theorem trl_error_terms_hyps_satisfiable_U8 :
  um1 QIF f0 <> qi0 /\ um2 QIF f0 <> qi0 /\ udelta1 QIF f0 <> qi0 /\ udelta2 QIF f0 <> qi0 /\
  qi_sub (qi_mul l0 l0) qi1 <> qi0 /\ r0 <> qi0 /\
  udet QIF f0 (s_through QIF) <> qi0 /\ udet QIF f0 (s_line QIF l0) <> qi0 /\
  udet QIF f0 (s_reflect QIF r0) <> qi0 /\
  In KT order0 /\ In KR order0 /\ In KL order0 /\
  length x1 = 7%nat /\ (forall row, In row rows1 -> sat QIF x1 row) /\
  udet QIF f0 dut0 <> qi0 /\ adet_u QIF (ubox_of_x QIF x1) (meas_u QIF f0 dut0) <> qi0.
Proof. exact trl_terms_hyps_satisfiable_u. Qed.
Print Assumptions trl_error_terms_hyps_satisfiable_U8.

Theorem trl_error_terms_instances :
  (length rows0 = 10%nat /\ m2_eqb (corr_t QIF (tbox_of_x QIF x0) (meas_t QIF e0 dut0)) dut0 = true) /\
  (length rows1 = 10%nat /\ m2_eqb (corr_u QIF (ubox_of_x QIF x1) (meas_u QIF f0 dut0)) dut0 = true).
Proof. exact (conj trl_terms_instance_t trl_terms_instance_u). Qed.
Print Assumptions trl_error_terms_instances.

(* ---- the Levenberg-Marquardt loop ----
   The kernel operations (QR, Jacobian and V-matrix update, LU step, norms) are Section variables of
   AutoLoop.v, i.e. TOTAL Coq functions: that each kernel call returns is ASSUMED by this
   representation.  The theorem bounds the passes through the loop body of the control skeleton;
   it does not prove that the numeric kernels return. *)
Theorem auto_loop_passes_bounded_thm : forall (P X KD D : Type)
  (solve_x : nat -> P -> option (X * KD)) (sumk : KD -> Qc) (step : nat -> KD -> Qc -> option D)
  (apply_step : P -> D -> P) (normd : D -> Qc) (normdx : X -> X -> Qc)
  (ptol ettol plen xlen : Qc) (limit : nat) (p0 : P),
  let r := auto_run P X KD D solve_x sumk step apply_step normd normdx ptol ettol plen xlen limit p0 in
  (length (snd r) <= S limit)%nat /\
  fst r <> OutOfFuel /\
  (fst r = Edom NotConverged -> length (snd r) = S limit) /\
  ((forall e, In e (snd r) -> e_converged e = false) -> exists why, fst r = Edom why) /\
  (forall extra, loop P X KD D solve_x sumk step apply_step normd normdx ptol ettol plen xlen limit
                      (S limit + extra) 0 (init P X KD p0) = r).
Proof. exact auto_terminates. Qed.
Print Assumptions auto_loop_passes_bounded_thm.

(* stated at the level of the abstract kernel: IF the kernel reports a zero step and a zero change
   of x at p0, the loop returns at the first pass.  That exact data make the kernel report this
   is not derived (named under "Not proved"). *)
Theorem auto_fixed_point_oracle_level_thm : forall (P X KD D : Type)
  (solve_x : nat -> P -> option (X * KD)) (sumk : KD -> Qc) (step : nat -> KD -> Qc -> option D)
  (apply_step : P -> D -> P) (normd : D -> Qc) (normdx : X -> X -> Qc)
  (ptol ettol plen xlen : Qc) (limit : nat) (p0 : P) (x0 : X) (kd0 : KD) (d0 : D),
  solve_x 0%nat p0 = Some (x0, kd0) ->
  step 0%nat kd0 (1 * sumk kd0)%Qc = Some d0 ->
  normd d0 = 0%Qc -> normdx x0 x0 = 0%Qc -> apply_step p0 d0 = p0 ->
  plen <> 0%Qc -> xlen <> 0%Qc ->
  auto_run P X KD D solve_x sumk step apply_step normd normdx ptol ettol plen xlen limit p0 =
  (Converged x0 p0, [Entry true 1%Qc (1 * sumk kd0)%Qc true]).
Proof. exact auto_fixed_point. Qed.
Print Assumptions auto_fixed_point_oracle_level_thm.

(* toy kernel: all hypotheses of the fixed-point theorem hold (first component); limit 1 exhausts *)
Theorem auto_examples :
  (outcome_tag (fst (toy_run (q 1 1000) 30 (Q2Qc 3))) = 0%nat /\
   length (snd (toy_run (q 1 1000) 30 (Q2Qc 3))) = 1%nat) /\
  (outcome_tag (fst (toy_run (q 1 1000000) 1 (Q2Qc 4))) = 2%nat /\
   length (snd (toy_run (q 1 1000000) 1 (Q2Qc 4))) = 2%nat).
Proof. exact (conj toy_fixed_point toy_exhausts). Qed.
Print Assumptions auto_examples.

Local Open Scope nat_scope.

(* ---- _vnacal_new_solve_update_s_matrices on checked memory (GuardModel.v): for every list of
        standards whose S matrices mix absent (NULL), known and unknown cells in any way -- with
        the vectors as long as their allocation sites make them (wf_std, wf_p) -- the walk never
        reads or writes out of bounds and never through a NULL cell; afterwards the cells of
        unknown parameters hold the parameters' current values, all others are unchanged ---- *)
Theorem update_s_safe_thm : forall (V : Type) (s_rows s_columns : nat) (p_vector : list (list V))
  (findex : nat) (v0 : V),
  wf_p V p_vector findex ->
  forall stds : list (sstd V),
  (forall s, In s stds -> wf_std V s_rows s_columns p_vector s) ->
  exists stds', update_s_matrices V s_rows s_columns p_vector findex stds = MOk stds' /\
                Forall2 (updated V s_rows s_columns p_vector findex v0) stds stds'.
Proof. exact update_s_safe. Qed.
Print Assumptions update_s_safe_thm.

(* the index computation s_row * s_columns + s_column enumerates the allocation exactly *)
Theorem update_s_cell_indices_thm : forall R C, cell_indices R C = seq 0 (R * C).
Proof. exact cell_indices_seq. Qed.
Print Assumptions update_s_cell_indices_thm.

(* documents finding D19 (fixed in /repo): the function as it was, with the unknown index read in
   front of the NULL test, faults on a well-formed single-reflect standard *)
Theorem update_s_before_D19_faults_thm :
  exists stds, (forall s, In s stds -> wf_std nat 2 2 [[7]] s) /\ wf_p nat [[7]] 0 /\
               update_s_matrices_before_D19 nat 2 2 [[7]] 0 stds = MNull.
Proof. exact update_s_before_D19_faults. Qed.
Print Assumptions update_s_before_D19_faults_thm.

Theorem update_s_instance_thm :
  update_s_matrices nat 2 2 [[7]] 0
    [SStd nat [Some (SParam true 0); Some (SParam false 0); Some (SParam false 0); None] [1; 0; 0; 9]] =
  MOk [SStd nat [Some (SParam true 0); Some (SParam false 0); Some (SParam false 0); None] [7; 0; 0; 9]].
Proof. exact update_s_instance. Qed.
Print Assumptions update_s_instance_thm.

(* ---- which solver is used ----
   classify_standard dereferences S cells; cells are NULL where the caller gave nothing (single
   reflect).  In DispatchModel every dereference of an absent cell yields Fault. *)
Theorem dispatch_never_faults_thm : forall ty rows cols stds unknowns correlated m_error,
  dispatch ty rows cols stds unknowns correlated m_error <> Fault.
Proof. exact dispatch_never_faults. Qed.
Print Assumptions dispatch_never_faults_thm.

(* documents finding D69 (fixed in /repo): classify_standard as it was before the NULL test read
   through the absent S11 of a single reflect on port 2 (2x2 T8, two unknowns, three standards) *)
Theorem dispatch_before_D69_faults_thm :
  dispatch_before_D69 T8 2 2 [std_single2 (Unknown 0); std_single1 (Unknown 1); std_T] 2 0 false = Fault.
Proof. exact dispatch_before_D69_faults. Qed.
Print Assumptions dispatch_before_D69_faults_thm.

Theorem dispatch_single_reflects_examples_thm :
  dispatch T8 2 2 [std_single2 (Unknown 0); std_single1 (Unknown 1); std_T] 2 0 false = Val PathAuto /\
  dispatch UE10 2 2 [std_T; std_single2 (Unknown 0); std_R 1] 2 0 false = Val PathAuto /\
  dispatch TE10 2 2 [std_L 0; std_T; (Unknown 1, Absent, Absent, Known 3)] 2 0 false = Val PathAuto.
Proof. exact dispatch_single_reflects. Qed.
Print Assumptions dispatch_single_reflects_examples_thm.

(* the analytic TRL path only for exact TRL shapes *)
Theorem trl_path_only_for_exact_shapes_thm : forall ty rows cols stds unknowns correlated m_error,
  dispatch ty rows cols stds unknowns correlated m_error = Val PathTrl ->
  rows = 2%nat /\ cols = 2%nat /\ eight_term ty = true /\ unknowns = 2%nat /\ correlated = 0%nat /\
  m_error = false /\ exists a b, Permutation stds [std_T; std_R a; std_L b].
Proof. exact trl_path_only_for_exact_shapes. Qed.
Print Assumptions trl_path_only_for_exact_shapes_thm.

Theorem partial_standard_not_trl_thm : forall ty rows cols stds unknowns correlated m_error s,
  In s stds -> has_absent s = true ->
  dispatch ty rows cols stds unknowns correlated m_error <> Val PathTrl.
Proof. exact partial_standard_not_trl. Qed.
Print Assumptions partial_standard_not_trl_thm.

Theorem exact_shapes_take_trl_path_thm : forall ty a b, eight_term ty = true ->
  forall stds, Permutation stds [std_T; std_R a; std_L b] ->
  dispatch ty 2 2 stds 2 0 false = Val PathTrl.
Proof. exact exact_shapes_take_trl_path. Qed.
Print Assumptions exact_shapes_take_trl_path_thm.

Theorem not_trl_examples_thm :
  dispatch T8 2 2 [std_T; std_R 0; (Known 5, Unknown 1, Unknown 1, Known 5)] 2 0 false = Val PathAuto /\
  dispatch U8 2 2 [std_T; (Unknown 0, Zero, Zero, Unknown 2); std_L 1] 3 0 false = Val PathAuto /\
  dispatch TE10 2 2 [(Zero, One, Known 7, Zero); std_R 0; std_L 1] 2 0 false = Val PathAuto /\
  dispatch UE10 2 2 [std_T; (Corr 0, Zero, Zero, Corr 0); std_L 1] 2 1 false = Val PathAuto /\
  dispatch T8 2 2 [std_T; std_R 0; std_L 1] 2 0 true = Val PathAuto /\
  dispatch T16 2 2 [std_T; std_R 0; std_L 1] 2 0 false = Val PathAuto /\
  dispatch T8 2 2 [std_T; std_R 0; std_L 1; (Zero, Zero, Zero, Zero)] 2 0 false = Val PathAuto.
Proof. exact not_trl_examples. Qed.
Print Assumptions not_trl_examples_thm.

(* ---- write-back: the steps of _vnacal_new_solve_internal (free, conditional reallocation,
        unconditional memcpy of the calibration grid, hand-over of the solved vector) leave the
        calibration grid and the solved values in the parameter object whatever it held before;
        get_parameter_value at a stored frequency is modelled as a look-up (exact at knots: C10).
        The content is in the step model and in the re-solve tie; the look-up lemma is routine. ---- *)
Theorem writeback_grid_thm : forall (F V : Type) (f0 : F) (old : pobj F V) (fs : list F) (vs : list V),
  pf F V (writeback F V f0 old fs vs) = fs.
Proof. exact writeback_grid. Qed.
Print Assumptions writeback_grid_thm.

Theorem writeback_exact_thm : forall (F V : Type) (F_eqb : F -> F -> bool) (f0 : F),
  (forall a b, F_eqb a b = true <-> a = b) ->
  forall (old : pobj F V) (fs : list F) (vs : list V) (i : nat) (df : F) (dv : V),
  NoDup fs -> length fs = length vs -> (i < length fs)%nat ->
  get F V F_eqb (writeback F V f0 old fs vs) (nth i fs df) = Some (nth i vs dv).
Proof. exact writeback_exact. Qed.
Print Assumptions writeback_exact_thm.

Theorem writeback_exact_instance_thm :
  let old := PObj nat nat [1; 2] [10; 20] in
  NoDup [3; 4] /\ length [3; 4] = length [30; 40] /\
  get nat nat Nat.eqb (writeback nat nat 0 old [3; 4] [30; 40]) 4 = Some 40 /\
  get nat nat Nat.eqb (writeback nat nat 0 (PObj nat nat [7] [70]) [3; 4] [30; 40]) 3 = Some 30.
Proof. exact writeback_exact_instance. Qed.
Print Assumptions writeback_exact_instance_thm.

(* a model VARIANT, not the code: copying the grid only inside the reallocation branch (the shape
   of seeded change C02-1) keeps a stale grid; regression witness *)
Theorem model_variant_writeback_stale_grid_thm :
  exists old fs vs, NoDup fs /\ length fs = length vs /\
    get nat nat Nat.eqb (writeback_variant_copy_on_realloc nat nat 0 old fs vs) (nth 0 fs 0%nat) <> Some (nth 0 vs 0%nat).
Proof. exact model_variant_writeback_stale_grid. Qed.
Print Assumptions model_variant_writeback_stale_grid_thm.

(* ======================================================================================== *)
(* Levenberg-Marquardt kernel: one pass of _vnacal_new_solve_auto as coded                  *)
(* (SelfCal/AutoKernelModel.v, executable over Q[i]; AutoKernelProofs.v, AutoKernelQI.v)    *)
(* ======================================================================================== *)
Require Import Arith.
Require Import LV.Lin.MatL LV.Lin.LuQI2 LV.Lin.LuGenA LV.Lin.LuNonsing LV.Lin.LuNonsingQI LV.Lin.LsLuProofs.
Require Import LV.SelfCal.AutoKernelModel LV.SelfCal.AutoKernelProofs LV.SelfCal.AutoKernelQI.
Local Close Scope cf_scope.
Local Open Scope nat_scope.

(* The fixed point, DERIVED (auto_fixed_point_oracle_level_thm assumed it of an abstract kernel).
   For every problem (any number of systems, equations, error terms, unknown parameters and
   correlated parameters; with or without weights and v factors), every parameter vector ps and
   error-term vector xs: if the equations as the code forms them at ps are satisfied by xs
   (exact measurements), a_matrix(ps) has full column rank, the correlated parameters have the
   values of their partners, and J^H J at ps is nonsingular, then the pass at ps returns x = xs,
   sum_k_squared = 0, J^H k = 0, the step d = 0, and the whole iteration (AutoLoop's control
   skeleton over this kernel) returns Converged xs ps after exactly one pass, for all tolerances
   and limits. *)
Theorem auto_fixed_point_derived_thm :
  forall (pr : problem) (ptol ettol : Qc) (limit : nat) (ps xs : list qi),
  length ps = pr_pl pr -> length xs = pr_xlen pr -> pr_pl pr <> 0 -> pr_xlen pr <> 0 ->
  full_col_rank (pr_equations pr) (pr_xlen pr) (a_matrix pr ps) ->
  exact_data pr ps xs ->
  corr_consistent pr ps ->
  (forall pd, kernel_pass pr ps = Some pd ->
     q_kernel_trivial (j1_matrix (pr_pl pr) (pd_jtj pd) 0%Qc) (pr_pl pr)) ->
  exists pd, kernel_pass pr ps = Some pd /\ pd_x pd = xs /\ pd_sumk pd = 0%Qc /\
    (forall i, i < pr_pl pr -> mget QIF (pd_jtk pd) i 0 = qi0) /\
    kernel_step (pr_pl pr) (pd_jtj pd) (pd_jtk pd) 0%Qc = Some (repeat qi0 (pr_pl pr)) /\
    kernel_run pr ptol ettol limit ps = (Converged xs ps, [Entry true 1%Qc 0%Qc true]).
Proof. exact kernel_fixed_point. Qed.
Print Assumptions auto_fixed_point_derived_thm.

(* the hypotheses are satisfiable: a one-port T8-shaped calibration with five known reflects and
   one unknown reflect, exact data; conclusion for every tolerance and limit, and by computation *)
Theorem auto_fixed_point_derived_instance_thm : forall ptol ettol limit,
  kernel_run ex_pr ptol ettol limit ex_ps = (Converged ex_xs ex_ps, [Entry true 1%Qc 0%Qc true]).
Proof. exact kernel_fixed_point_instance. Qed.
Print Assumptions auto_fixed_point_derived_instance_thm.

Theorem auto_fixed_point_hyps_satisfiable_thm :
  full_col_rank 6 3 (a_matrix ex_pr ex_ps) /\ exact_data ex_pr ex_ps ex_xs /\ corr_consistent ex_pr ex_ps /\
  (forall pd, kernel_pass ex_pr ex_ps = Some pd ->
     q_kernel_trivial (j1_matrix (pr_pl ex_pr) (pd_jtj pd) 0%Qc) (pr_pl ex_pr)).
Proof. exact (conj ex_full_rank (conj ex_exact (conj ex_corr ex_j1_nonsingular))). Qed.
Print Assumptions auto_fixed_point_hyps_satisfiable_thm.

(* the solve for the error terms alone: consistent full-rank data => x_vector = xs *)
Theorem auto_solve_x_exact_thm : forall pr p xs,
  length xs = pr_xlen pr ->
  full_col_rank (pr_equations pr) (pr_xlen pr) (a_matrix pr p) ->
  exact_data pr p xs ->
  exists x, q2_ls_lu (pr_equations pr) (pr_xlen pr) 1 (a_matrix pr p) (b_vector pr p) = Some x /\
            (forall i, i < pr_equations pr ->
               mget QIF (mmul QIF (pr_equations pr) (pr_xlen pr) 1 (a_matrix pr p) x) i 0 =
               mget QIF (b_vector pr p) i 0) /\
            solve_x pr p = Some xs.
Proof. exact solve_x_exact. Qed.
Print Assumptions auto_solve_x_exact_thm.

(* Stationarity: for every p_length, J^H J, J^H k and lambda with J1 = J^H J + lambda I
   nonsingular, the LU solve as coded returns d, the determinant test accepts it,
   J1 d = J^H k, and  d = 0  <->  J^H k = 0. *)
Theorem auto_step_stationarity_thm : forall pl (jtj jtk : qmat) (lam : Qc),
  wf pl 1 jtk ->
  q_kernel_trivial (j1_matrix pl jtj lam) pl ->
  exists d, kernel_step pl jtj jtk lam = Some d /\ length d = pl /\
    (forall i, i < pl ->
       sumf pl (fun t => cmul (mget QIF (j1_matrix pl jtj lam) i t) (nth t d qi0)) = mget QIF jtk i 0) /\
    (d = repeat qi0 pl <-> forall i, i < pl -> mget QIF jtk i 0 = qi0).
Proof. exact kernel_step_spec. Qed.
Print Assumptions auto_step_stationarity_thm.

(* Linear-in-p special case, REFUTED: a problem whose equations are linear in the single unknown
   parameter (one unknown reflect in one s cell), exact data, full rank: one undamped Gauss-Newton
   step with the Jacobian the code forms (Kaufman's approximation) from the guess 2 does not land
   on the true value 3, and neither does the first step as coded (lambda = sum_k_squared). *)
Theorem auto_gn_one_step_linear_refuted_thm :
  exists pr ps xs p0 p1,
    exact_data pr ps xs /\ full_col_rank (pr_equations pr) (pr_xlen pr) (a_matrix pr ps) /\
    pr_pl pr = 1 /\ gn_step pr p0 = Some p1 /\ p1 <> ps /\
    (exists p2, lm_first_step pr p0 = Some p2 /\ p2 <> ps).
Proof. exact gn_one_step_linear_refuted. Qed.
Print Assumptions auto_gn_one_step_linear_refuted_thm.

(* ======================================================================================== *)
(* LM kernel, second part: the projector identity, descent, an exact multi-pass run         *)
(* ======================================================================================== *)
Require Import LV.Lin.QrModel LV.Lin.QrAlg LV.Lin.QrProofs LV.Lin.QrTheorems LV.Lin.QrQI LV.Lin.QrQIProofs.
Require Import LV.Lin.LsSpec.
Require Import LV.SelfCal.AutoKernelQrQ LV.SelfCal.AutoKernelProjector LV.SelfCal.AutoKernelProjQI.
Require Import LV.SelfCal.AutoKernelDescent LV.SelfCal.AutoKernelRun.

(* The projector identity, for every field with an involution satisfying the laws of the QR
   theorems (qr_field_laws), every m >= n, every well-formed m x n matrix A with a trivial kernel on
   which the Householder run of _vnacommon_qrd meets its sqrt / phase law instances: with Q the
   matrix formed by the loop of _vnacommon_qr from the array the sweep left (qr_formq) and Q2^H y
   accumulated as _vnacal_new_solve_auto does (q2h, q2_gram), for all vectors u, v and every z with
   A^H A z = A^H v:   (Q2^H u)^H (Q2^H v) = u^H (v - A z). *)
Theorem auto_q2_projector_thm : forall (K : CField) (isz : K -> bool), qr_field_laws K isz ->
  forall (nrm phase : K -> K) m n (A : mat K) (u v z : nat -> K),
  wf m n A -> n <= m -> run_laws K nrm phase isz m n A n -> ker_trivial K m n A ->
  (forall j, j < n ->
     sumf n (fun t => cmul (sumf m (fun i => cmul (cj (mget K A i j)) (mget K A i t))) (z t)) =
     sumf m (fun i => cmul (cj (mget K A i j)) (v i))) ->
  q2_gram K m n (qr_formq K m n (qr_a K (qrd K nrm phase isz m n A))) u v =
  sumf m (fun i => cmul (cj (u i)) (csub (v i) (sumf n (fun t => cmul (mget K A i t) (z t))))).
Proof.
  intros K isz (L0 & L1 & La & Lm & Lc & L2 & Ls & Lz) nrm phase m n A u v z Hw Hnm HL Hk HN.
  exact (q2_gram_projector K L0 L1 La Lm Lc L2 Ls nrm phase isz Lz m n A u v z Hw Hnm HL Hk HN).
Qed.
Print Assumptions auto_q2_projector_thm.

(* The Q of the code is the product of the reflections: conj(Q(i,c)) = (H_(cnt-1) ... H_0 e_i)(c),
   for every array and every number of diagonals (no law needed beyond the involution) *)
Theorem auto_formq_spec_thm : forall (K : CField),
  cj (c0 : K) = c0 -> cj (c1 : K) = c1 ->
  (forall x y : K, cj (cadd x y) = cadd (cj x) (cj y)) ->
  (forall x y : K, cj (cmul x y) = cmul (cj x) (cj y)) ->
  (forall x : K, cj (cj x) = x) ->
  forall m (a : mat K) cnt, cnt <= m -> forall i c, i < m -> c < m ->
  cj (mget K (formq_upto K m a cnt) i c) = Tf K m a cnt (evec K i) c.
Proof. exact formq_spec. Qed.
Print Assumptions auto_formq_spec_thm.

(* NOTE on inhabitants: run_laws needs nrm s * nrm s = s at the squared column norms met by the run.
   Over Q[i] this holds only when those norms are rational squares; for the a_matrix of the model's own
   problems (ex_pr: column 0 has squared norm 19; run_pr: 273/4) it does NOT, so at Q[i] the theorem below
   is inhabited only by matrices such as the 3 x 2 one of the instance, which is not the a_matrix of any
   [problem].  The statement that covers the a_matrix of every problem is auto_q2_projector_thm over a field
   that has the square roots (e.g. the complex numbers), which this development does not instantiate. *)
(* Connected to the executable model: over Q[i], for ANY functions standing for sqrt and the
   unit-modulus factor whose run on a meets the law instances, the entries the model forms from
   [project] (W^H (y - A z): J^H J, J^H k, k^H k of kernel_pass are of this form with W, y among
   A'(p) x and b) are the products the code forms from its Q2. *)
Theorem auto_project_is_code_q2_thm : forall (nrm phase : qi -> qi) m n o r (a y py w : qmat),
  wf m n a -> n <= m -> run_laws QIF nrm phase qi_isz0 m n a n -> full_col_rank m n a ->
  project m n o a y = Some py ->
  forall i c, i < r -> c < o ->
    mget QIF (mmul QIF r m o (mherm QIF m r w) py) i c =
    q2_gram QIF m n (code_q nrm phase m n a) (fun e => mget QIF w e i) (fun e => mget QIF y e c).
Proof. exact project_is_q2_projector. Qed.
Print Assumptions auto_project_is_code_q2_thm.

Theorem auto_project_is_code_q2_instance_thm :
  wf 3 2 ex_qr_a /\ run_laws QIF qi_sqrt qi_phase qi_isz0 3 2 ex_qr_a 2 /\ full_col_rank 3 2 ex_qr_a /\
  match project 3 2 1 ex_qr_a ex_y with
  | Some py =>
      qi_eqb (mget QIF (mmul QIF 1 3 1 (mherm QIF 3 1 ex_y) py) 0 0)
             (q2_gram QIF 3 2 (code_q qi_sqrt qi_phase 3 2 ex_qr_a) (fun e => mget QIF ex_y e 0) (fun e => mget QIF ex_y e 0))
      && negb (qi_eqb (mget QIF (mmul QIF 1 3 1 (mherm QIF 3 1 ex_y) py) 0 0) qi0)
  | None => false
  end = true.
Proof. exact project_is_q2_projector_instance. Qed.
Print Assumptions auto_project_is_code_q2_instance_thm.

(* The Gram identity of the Levenberg-Marquardt step (EXACT ARITHMETIC ONLY; J, jtj, jtk free-standing:
   nothing here links them to kernel_pass or to the sum_k_squared the C code compares).  For every J
   (r x p_length) whose Gram matrix is jtj, every jtk, every lambda >= 0 with J1 = jtj + lambda I
   nonsingular: the step d is returned, d^H jtk is the real number q = |J d|^2 + lambda |d|^2 >= 0, and
   q = 0 exactly when jtk = 0.  (With jtk = J^H k this says that to first order |k|^2 does not increase
   along p - d.) *)
Theorem lm_step_gram_identity : forall pl r (J jtj jtk : qmat) (lam : Qc),
  wf pl 1 jtk ->
  (forall a c, a < pl -> c < pl ->
     mget QIF jtj a c = sumf r (fun k => cmul (cj (mget QIF J k a)) (mget QIF J k c))) ->
  (0 <= lam)%Qc ->
  q_kernel_trivial (j1_matrix pl jtj lam) pl ->
  exists d, kernel_step pl jtj jtk lam = Some d /\
    let dv := fun i => nth i d qi0 : QIF in
    let q := (LsProofs.qsum r (fun k => qi_nrm (Jd pl J dv k)) + lam * LsProofs.qsum pl (fun i => qi_nrm (dv i)))%Qc in
    sumf pl (fun i => cmul (cj (dv i)) (mget QIF jtk i 0)) = qi_of_Qc q /\
    (0 <= q)%Qc /\
    (q = 0%Qc <-> forall i, i < pl -> mget QIF jtk i 0 = qi0).
Proof. exact kernel_step_descent. Qed.
Print Assumptions lm_step_gram_identity.

(* hypotheses met by a concrete instance, and the theorem applied to it *)
Theorem lm_step_gram_identity_instance :
  let J : qmat := [[mkqi 1 8 0 1]; [mkqi 1 8 0 1]; [mkqi 1 8 0 1]] in
  let jtj : qmat := [[mkqi 3 64 0 1]] in
  let jtk : qmat := [[mkqi 1 4 0 1]] in
  let lam := Q2Qc (1 # 10) in
  exists d, kernel_step 1 jtj jtk lam = Some d /\
    let dv := fun i => nth i d qi0 : QIF in
    let q := (LsProofs.qsum 3 (fun k => qi_nrm (Jd 1 J dv k)) + lam * LsProofs.qsum 1 (fun i => qi_nrm (dv i)))%Qc in
    sumf 1 (fun i => cmul (cj (dv i)) (mget QIF jtk i 0)) = qi_of_Qc q /\
    (0 <= q)%Qc /\
    (q = 0%Qc <-> forall i, i < 1 -> mget QIF jtk i 0 = qi0).
Proof. exact kernel_step_descent_applied. Qed.
Print Assumptions lm_step_gram_identity_instance.

(* Two exact multi-pass runs of the model iteration from wrong guesses (vm_compute examples, exact
   arithmetic only; no general convergence claim): on the
   one-port problem of AutoKernelRun.v (exact dyadic data for x* = (2, 1, 1), p* = 3, full rank),
   p_tolerance = et_tolerance = 1/8, limit 30: from the guess 2 kernel_run returns Converged after
   exactly 3 passes, each the best so far, with p and every error term within 1/100 of the truth;
   from 5/2 after 2 passes. *)
Theorem auto_kernel_run_two_runs_example :
  exact_data run_pr run_ps run_xs /\ full_col_rank 6 3 (a_matrix run_pr run_ps) /\
  run_ok (zi 2 0) 3 = true /\ run_ok (qh 5 2) 2 = true /\
  close (zi 2 0) (zi 3 0) (Q2Qc (1 # 100)) = false /\ close (qh 5 2) (zi 3 0) (Q2Qc (1 # 100)) = false.
Proof.
  exact (conj run_exact (conj run_full_rank (conj kernel_run_converges_from_2
          (conj kernel_run_converges_from_5_2 run_guesses_are_wrong)))).
Qed.
Print Assumptions auto_kernel_run_two_runs_example.

(* ======================================================================================== *)
(* Review R3: monotonicity of the control skeleton in the tolerances                        *)
(* ======================================================================================== *)
Require Import LV.SelfCal.AutoLoopMono.

(* For every kernel, every limit and start: if the iteration converges with tolerances (ptol, ettol),
   0 <= ptol <= ptol', 0 <= ettol <= ettol', it converges with (ptol', ettol') in at most as many passes.
   (The converse -- tightening keeps success -- is not claimed: it fails on the real code in binary64 on
   slightly inconsistent data, known finding DE90; checks/c02_perturbed.py tests both directions.) *)
Theorem auto_run_tolerance_monotone_thm :
  forall (P X KD D : Type) (solve_x : nat -> P -> option (X * KD)) (sumk : KD -> Qc)
         (step : nat -> KD -> Qc -> option D) (apply_step : P -> D -> P) (normd : D -> Qc)
         (normdx : X -> X -> Qc) (plen xlen : Qc) (limit : nat) (ptol ettol ptol' ettol' : Qc),
  (0 <= ptol)%Qc -> (ptol <= ptol')%Qc -> (0 <= ettol)%Qc -> (ettol <= ettol')%Qc ->
  forall (p0 : P) x p,
  fst (auto_run P X KD D solve_x sumk step apply_step normd normdx ptol ettol plen xlen limit p0) = Converged x p ->
  exists x' p',
    fst (auto_run P X KD D solve_x sumk step apply_step normd normdx ptol' ettol' plen xlen limit p0) = Converged x' p' /\
    length (snd (auto_run P X KD D solve_x sumk step apply_step normd normdx ptol' ettol' plen xlen limit p0)) <=
    length (snd (auto_run P X KD D solve_x sumk step apply_step normd normdx ptol ettol plen xlen limit p0)).
Proof. exact auto_run_tolerance_monotone. Qed.
Print Assumptions auto_run_tolerance_monotone_thm.

(* satisfiable: the toy kernel converges at tolerance 1/1000 (auto_examples), hence at 1/10 *)
Example auto_run_tolerance_monotone_example :
  outcome_tag (fst (toy_run (AutoReplay.q 1 1000) 30 (Q2Qc 4))) = 0 /\
  outcome_tag (fst (toy_run (AutoReplay.q 1 10) 30 (Q2Qc 4))) = 0 /\
  Nat.leb (length (snd (toy_run (AutoReplay.q 1 10) 30 (Q2Qc 4)))) (length (snd (toy_run (AutoReplay.q 1 1000) 30 (Q2Qc 4)))) = true.
Proof. repeat split; vm_compute; reflexivity. Qed.
