(* C02 - self-calibration (TRL, unknown / correlated parameters).
   Theorems only: each is closed by [exact] of a lemma of coq/SelfCal/*.v. *)
Require Import QArith Qcanon List.
Import ListNotations.
Require Import LV.Base.CField LV.Base.QcI.
Require Import LV.SelfCal.TrlModel LV.SelfCal.TrlProofs LV.SelfCal.TrlQI.
Require Import LV.SelfCal.AutoLoop LV.SelfCal.AutoProofs LV.SelfCal.AutoReplay LV.SelfCal.NullGuards.
Require Import Permutation.
Require Import LV.SelfCal.DispatchModel LV.SelfCal.DispatchProofs.
Local Open Scope cf_scope.

(* ---- TRL: the true values are roots of the equations the code forms from the data ---- *)
Theorem trl_line_root_T8 : forall (K : CField), char_ok K -> forall (e : tbox K) (l : K),
  tdet K e (s_through K) <> 0 -> tdet K e (s_line K l) <> 0 ->
  let mt := meas_t K e (s_through K) in let ml := meas_t K e (s_line K l) in
  trl_a K mt ml * l * l + trl_b K mt ml * l + trl_a K mt ml = 0.
Proof. exact trl_line_root_t. Qed.
Print Assumptions trl_line_root_T8.

Theorem trl_reflect_root_T8 : forall (K : CField) (e : tbox K) (l r : K),
  tdet K e (s_through K) <> 0 -> tdet K e (s_line K l) <> 0 -> tdet K e (s_reflect K r) <> 0 ->
  let mt := meas_t K e (s_through K) in let ml := meas_t K e (s_line K l) in
  let mr := meas_t K e (s_reflect K r) in
  r * r * trl_d K mt mr ml l = trl_n K mt mr ml l.
Proof. exact trl_reflect_root_t. Qed.
Print Assumptions trl_reflect_root_T8.

Theorem trl_line_root_U8 : forall (K : CField), char_ok K -> forall (e : ubox K) (l : K),
  udet K e (s_through K) <> 0 -> udet K e (s_line K l) <> 0 ->
  let mt := meas_u K e (s_through K) in let ml := meas_u K e (s_line K l) in
  trl_a K mt ml * l * l + trl_b K mt ml * l + trl_a K mt ml = 0.
Proof. exact trl_line_root_u. Qed.
Print Assumptions trl_line_root_U8.

Theorem trl_reflect_root_U8 : forall (K : CField) (e : ubox K) (l r : K),
  udet K e (s_through K) <> 0 -> udet K e (s_line K l) <> 0 -> udet K e (s_reflect K r) <> 0 ->
  let mt := meas_u K e (s_through K) in let ml := meas_u K e (s_line K l) in
  let mr := meas_u K e (s_reflect K r) in
  r * r * trl_d K mt mr ml l = trl_n K mt mr ml l.
Proof. exact trl_reflect_root_u. Qed.
Print Assumptions trl_reflect_root_U8.

(* TE10 / UE10: the reflect has no off-diagonal 8-term signal, so subtracting its off-diagonal
   cells removes the additive leakage exactly and the T8 / U8 theorems apply *)
Theorem trl_leakage_removed : forall (K : CField) (m mr : m2 K) (l12 l21 : K),
  m12 mr = 0 -> m21 mr = 0 ->
  leak_removed K (add_leak K m l12 l21) (add_leak K mr l12 l21) = m.
Proof. exact leak_removed_exact. Qed.
Print Assumptions trl_leakage_removed.

Theorem trl_reflect_has_no_offdiagonal_T : forall (K : CField) (e : tbox K) (r : K),
  tdet K e (s_reflect K r) <> 0 ->
  m12 (meas_t K e (s_reflect K r)) = 0 /\ m21 (meas_t K e (s_reflect K r)) = 0.
Proof. exact reflect_offdiag_t. Qed.
Print Assumptions trl_reflect_has_no_offdiagonal_T.

Theorem trl_reflect_has_no_offdiagonal_U : forall (K : CField) (e : ubox K) (r : K),
  udet K e (s_reflect K r) <> 0 ->
  m12 (meas_u K e (s_reflect K r)) = 0 /\ m21 (meas_u K e (s_reflect K r)) = 0.
Proof. exact reflect_offdiag_u. Qed.
Print Assumptions trl_reflect_has_no_offdiagonal_U.

(* ---- TRL: the selection rule returns the truth when the guess is on its side ---- *)
Theorem trl_selects_truth_line_thm : forall (K : CField), char_ok K ->
  (forall x y : K, {x = y} + {x <> y}) ->
  forall (sq : K -> K) (Mag : Type) (mag : K -> Mag) (le_abs : Mag -> Mag -> bool),
  (forall x y, le_abs x y = false -> le_abs y x = true) ->
  forall a b l guess : K,
  a <> 0 ->
  sq (b * b - (two * two) * a * a) * sq (b * b - (two * two) * a * a) = b * b - (two * two) * a * a ->
  a * l * l + b * l + a = 0 ->
  le_abs (mag (trl_u K a b + trl_u K a b - l - guess)) (mag (l - guess)) = false ->
  trl_select_line K sq Mag mag le_abs a b guess = l.
Proof. exact trl_selects_truth_line. Qed.
Print Assumptions trl_selects_truth_line_thm.

Theorem trl_selects_truth_reflect_thm : forall (K : CField),
  (forall x y : K, {x = y} + {x <> y}) ->
  forall (sq : K -> K) (Mag : Type) (mag : K -> Mag) (le_abs : Mag -> Mag -> bool),
  (forall x y, le_abs x y = false -> le_abs y x = true) ->
  forall n d r guess : K,
  sq (n / d) * sq (n / d) = n / d -> r * r = n / d ->
  le_abs (mag (- r - guess)) (mag (r - guess)) = false ->
  trl_select_reflect K sq Mag mag le_abs n d guess = r.
Proof. exact trl_selects_truth_reflect. Qed.
Print Assumptions trl_selects_truth_reflect_thm.

Theorem trl_selects_truth_T8 : forall (K : CField), char_ok K ->
  (forall x y : K, {x = y} + {x <> y}) ->
  forall (sq : K -> K) (Mag : Type) (mag : K -> Mag) (le_abs : Mag -> Mag -> bool),
  (forall x y, le_abs x y = false -> le_abs y x = true) ->
  forall (e : tbox K) (l r lguess rguess : K),
  tdet K e (s_through K) <> 0 -> tdet K e (s_line K l) <> 0 -> tdet K e (s_reflect K r) <> 0 ->
  let mt := meas_t K e (s_through K) in let ml := meas_t K e (s_line K l) in
  let mr := meas_t K e (s_reflect K r) in
  let a := trl_a K mt ml in let b := trl_b K mt ml in
  let n := trl_n K mt mr ml l in let d := trl_d K mt mr ml l in
  a <> 0 -> d <> 0 ->
  sq (b * b - (two * two) * a * a) * sq (b * b - (two * two) * a * a) = b * b - (two * two) * a * a ->
  sq (n / d) * sq (n / d) = n / d ->
  le_abs (mag (trl_u K a b + trl_u K a b - l - lguess)) (mag (l - lguess)) = false ->
  le_abs (mag (- r - rguess)) (mag (r - rguess)) = false ->
  trl_solve K sq Mag mag le_abs mt mr ml lguess rguess = (l, r).
Proof. exact trl_solve_truth_t. Qed.
Print Assumptions trl_selects_truth_T8.

Theorem trl_selects_truth_U8 : forall (K : CField), char_ok K ->
  (forall x y : K, {x = y} + {x <> y}) ->
  forall (sq : K -> K) (Mag : Type) (mag : K -> Mag) (le_abs : Mag -> Mag -> bool),
  (forall x y, le_abs x y = false -> le_abs y x = true) ->
  forall (e : ubox K) (l r lguess rguess : K),
  udet K e (s_through K) <> 0 -> udet K e (s_line K l) <> 0 -> udet K e (s_reflect K r) <> 0 ->
  let mt := meas_u K e (s_through K) in let ml := meas_u K e (s_line K l) in
  let mr := meas_u K e (s_reflect K r) in
  let a := trl_a K mt ml in let b := trl_b K mt ml in
  let n := trl_n K mt mr ml l in let d := trl_d K mt mr ml l in
  a <> 0 -> d <> 0 ->
  sq (b * b - (two * two) * a * a) * sq (b * b - (two * two) * a * a) = b * b - (two * two) * a * a ->
  sq (n / d) * sq (n / d) = n / d ->
  le_abs (mag (trl_u K a b + trl_u K a b - l - lguess)) (mag (l - lguess)) = false ->
  le_abs (mag (- r - rguess)) (mag (r - rguess)) = false ->
  trl_solve K sq Mag mag le_abs mt mr ml lguess rguess = (l, r).
Proof. exact trl_solve_truth_u. Qed.
Print Assumptions trl_selects_truth_U8.

(* the hypotheses are met by concrete error boxes over Q[i], and the model returns the truth *)
Theorem trl_selects_truth_satisfiable_T8 :
  fst (q_trl_solve sq0 mt0 mr0 ml0 lg0 rg0) = l0 /\ snd (q_trl_solve sq0 mt0 mr0 ml0 lg0 rg0) = r0.
Proof. exact trl_truth_instance_t. Qed.
Print Assumptions trl_selects_truth_satisfiable_T8.

Theorem trl_selects_truth_satisfiable_U8 :
  fst (q_trl_solve sq1 nt0 nr0 nl0 lg0 rg0) = l0 /\ snd (q_trl_solve sq1 nt0 nr0 nl0 lg0 rg0) = r0.
Proof. exact trl_truth_instance_u. Qed.
Print Assumptions trl_selects_truth_satisfiable_U8.

(* the side condition on the guess cannot be dropped *)
Theorem trl_guess_on_wrong_side_selects_other_root :
  fst (q_trl_solve sq0 mt0 mr0 ml0 (qi_inv l0) rg0) = qi_inv l0 /\ qi_inv l0 <> l0.
Proof. exact trl_wrong_side_selects_other. Qed.
Print Assumptions trl_guess_on_wrong_side_selects_other_root.

(* ---- the Levenberg-Marquardt loop ---- *)
Theorem auto_terminates_thm : forall (P X KD D : Type)
  (solve_x : nat -> P -> option (X * KD)) (sumk : KD -> Qc) (step : nat -> KD -> Qc -> option D)
  (apply_step : P -> D -> P) (normd : D -> Qc) (normdx : X -> X -> Qc)
  (ptol ettol plen xlen : Qc) (limit : nat) (p0 : P),
  let r := auto_run P X KD D solve_x sumk step apply_step normd normdx ptol ettol plen xlen limit p0 in
  (length (snd r) <= S limit)%nat /\
  fst r <> OutOfFuel /\
  (fst r = Edom NotConverged -> length (snd r) = S limit) /\
  ((forall e, In e (snd r) -> e_converged e = false) -> exists why, fst r = Edom why) /\
  (forall extra, loop P X KD D solve_x sumk step apply_step normd normdx ptol ettol plen xlen limit
                      (S limit + extra) 0 (init P X KD p0) = r).
Proof. exact auto_terminates. Qed.
Print Assumptions auto_terminates_thm.

Theorem auto_fixed_point_thm : forall (P X KD D : Type)
  (solve_x : nat -> P -> option (X * KD)) (sumk : KD -> Qc) (step : nat -> KD -> Qc -> option D)
  (apply_step : P -> D -> P) (normd : D -> Qc) (normdx : X -> X -> Qc)
  (ptol ettol plen xlen : Qc) (limit : nat) (p0 : P) (x0 : X) (kd0 : KD) (d0 : D),
  solve_x 0%nat p0 = Some (x0, kd0) ->
  step 0%nat kd0 (1 * sumk kd0)%Qc = Some d0 ->
  normd d0 = 0%Qc -> normdx x0 x0 = 0%Qc -> apply_step p0 d0 = p0 ->
  plen <> 0%Qc -> xlen <> 0%Qc ->
  auto_run P X KD D solve_x sumk step apply_step normd normdx ptol ettol plen xlen limit p0 =
  (Converged x0 p0, [Entry true 1%Qc (1 * sumk kd0)%Qc true]).
Proof. exact auto_fixed_point. Qed.
Print Assumptions auto_fixed_point_thm.

Theorem auto_examples :
  (outcome_tag (fst (toy_run (q 1 1000) 30 (Q2Qc 3))) = 0%nat /\
   length (snd (toy_run (q 1 1000) 30 (Q2Qc 3))) = 1%nat) /\
  (outcome_tag (fst (toy_run (q 1 1000000) 1 (Q2Qc 4))) = 2%nat /\
   length (snd (toy_run (q 1 1000000) 1 (Q2Qc 4))) = 2%nat).
Proof. exact (conj toy_fixed_point toy_exhausts). Qed.
Print Assumptions auto_examples.

(* ---- update of the S matrices never reads through an absent cell (form with the test
        first); the form that reads before the test does (candidate D19) ---- *)
Theorem update_s_safe_thm : forall stds, update_s_matrices false stds = Ok.
Proof. exact update_s_safe. Qed.
Print Assumptions update_s_safe_thm.

Theorem update_s_safe_refuted_thm : exists stds, update_s_matrices true stds = NullDeref.
Proof. exact update_s_safe_refuted. Qed.
Print Assumptions update_s_safe_refuted_thm.

(* ---- which solver is used: the analytic TRL path only for exact TRL shapes ---- *)
Theorem trl_path_only_for_exact_shapes_thm : forall ty rows cols stds unknowns correlated m_error,
  dispatch ty rows cols stds unknowns correlated m_error = PathTrl ->
  rows = 2%nat /\ cols = 2%nat /\ eight_term ty = true /\ unknowns = 2%nat /\ correlated = 0%nat /\
  m_error = false /\ exists a b, Permutation stds [std_T; std_R a; std_L b].
Proof. exact trl_path_only_for_exact_shapes. Qed.
Print Assumptions trl_path_only_for_exact_shapes_thm.

Theorem exact_shapes_take_trl_path_thm : forall ty a b, eight_term ty = true ->
  dispatch ty 2 2 [std_T; std_R a; std_L b] 2 0 false = PathTrl /\
  dispatch ty 2 2 [std_L b; std_T; std_R a] 2 0 false = PathTrl /\
  dispatch ty 2 2 [std_R a; std_L b; std_T] 2 0 false = PathTrl.
Proof. exact exact_shapes_take_trl_path. Qed.
Print Assumptions exact_shapes_take_trl_path_thm.

Theorem not_trl_examples_thm :
  dispatch T8 2 2 [std_T; std_R 0; (Known 5, Unknown 1, Unknown 1, Known 5)] 2 0 false = PathAuto /\
  dispatch U8 2 2 [std_T; (Unknown 0, Zero, Zero, Unknown 2); std_L 1] 3 0 false = PathAuto /\
  dispatch TE10 2 2 [(Zero, One, Known 7, Zero); std_R 0; std_L 1] 2 0 false = PathAuto /\
  dispatch UE10 2 2 [std_T; (Corr 0, Zero, Zero, Corr 0); std_L 1] 2 1 false = PathAuto /\
  dispatch T8 2 2 [std_T; std_R 0; std_L 1] 2 0 true = PathAuto /\
  dispatch T16 2 2 [std_T; std_R 0; std_L 1] 2 0 false = PathAuto /\
  dispatch T8 2 2 [std_T; std_R 0; std_L 1; (Zero, Zero, Zero, Zero)] 2 0 false = PathAuto.
Proof. exact not_trl_examples. Qed.
Print Assumptions not_trl_examples_thm.

(* ---- write-back: after a solve the parameter's value at every calibration frequency of that
        solve is the solved value, whatever the parameter object held before ---- *)
Theorem writeback_exact_thm : forall (F V : Type) (F_eqb : F -> F -> bool),
  (forall a b, F_eqb a b = true <-> a = b) ->
  forall (old : pobj F V) (fs : list F) (vs : list V) (i : nat) (df : F) (dv : V),
  NoDup fs -> length fs = length vs -> (i < length fs)%nat ->
  get F V F_eqb (writeback F V true old fs vs) (nth i fs df) = Some (nth i vs dv).
Proof. exact writeback_exact. Qed.
Print Assumptions writeback_exact_thm.

(* the form that copies the calibration grid only when the number of points changed *)
Theorem writeback_stale_grid_refuted_thm :
  exists old fs vs, NoDup fs /\ length fs = length vs /\
    get nat nat Nat.eqb (writeback nat nat false old fs vs) (nth 0 fs 0%nat) <> Some (nth 0 vs 0%nat).
Proof. exact writeback_stale_grid_refuted. Qed.
Print Assumptions writeback_stale_grid_refuted_thm.
