(* Property C13: the property tree behaves like a map/list/scalar document model.
   Theorems only; the definitions are the byte-level model LV.PropTree.PropModel (tied to
   src/vnaproperty.c by the op-script correspondence of checks/C13.py) and the abstract document
   LV.PropTree.DocSpec. *)
Require Import List NArith ZArith Bool.
Import ListNotations.
Require Import LV.PropTree.PropModel LV.PropTree.DocSpec LV.PropTree.PropProofs LV.PropTree.QuoteProofs.

(* For every sequence of set / delete / get / type / count / keys / get_subtree / set_subtree
   operations (including the compound "set_subtree, then set / delete on the returned anchor") the
   abstraction of the model state is the state of the abstract document and every outcome
   (return value, errno class, payload) is the one the documented rules give. *)
Theorem c13_prop_refines_doc_nocopy (ops : list op) (s : state) :
  forallb (fun o => negb (is_copy o)) ops = true ->
  d_run (abs_state s) ops = (abs_state (fst (run s ops)), map abs_out (snd (run s ops))).
Proof. exact (sim_run_nocopy ops s). Qed.
Print Assumptions c13_prop_refines_doc_nocopy.

(* vnaproperty_quote_key: for every non-empty key k (any bytes) the scanner reads the quoted
   form back as the identifier k, whatever follows, as long as what follows does not start with an
   identifier character. *)
Theorem c13_quote_key_scans_as_key (k r : bytes) :
  k <> [] -> stops r -> scan (quote_key k ++ r) = (T_ID k, r).
Proof. exact (scan_quote_key k r). Qed.
Print Assumptions c13_quote_key_scans_as_key.

Theorem c13_quote_key_addresses_key (k : bytes) :
  k <> [] -> parse (quote_key k) = Some ([E_MAP_ELEMENT k], T_EOF, []).
Proof. exact (parse_quote_key k). Qed.
Print Assumptions c13_quote_key_addresses_key.

Theorem c13_quote_key_assign (k v : bytes) :
  k <> [] -> parse (quote_key k ++ 61%N :: v) = Some ([E_MAP_ELEMENT k], T_ASSIGN, v).
Proof. exact (parse_quote_key_assign k v). Qed.
Print Assumptions c13_quote_key_assign.

Theorem c13_quote_key_hash (k v : bytes) :
  k <> [] -> parse (quote_key k ++ 35%N :: v) = Some ([E_MAP_ELEMENT k], T_HASH, v).
Proof. exact (parse_quote_key_hash k v). Qed.
Print Assumptions c13_quote_key_hash.

Theorem c13_quote_key_trailing_dot (k : bytes) :
  k <> [] -> parse (quote_key k ++ [46%N]) = Some ([E_MAP_ELEMENT k; E_DOT], T_EOF, []).
Proof. exact (parse_quote_key_dot k). Qed.
Print Assumptions c13_quote_key_trailing_dot.

Theorem c13_quote_key_abstract_map (k : bytes) :
  k <> [] -> parse (quote_key k ++ [123%N; 125%N]) = Some ([E_MAP_ELEMENT k; E_MAP], T_EOF, []).
Proof. exact (parse_quote_key_map k). Qed.
Print Assumptions c13_quote_key_abstract_map.

Theorem c13_quote_key_nested (k k2 : bytes) :
  k <> [] -> k2 <> [] ->
  parse (quote_key k ++ 46%N :: quote_key k2) = Some ([E_MAP_ELEMENT k; E_MAP_ELEMENT k2], T_EOF, []).
Proof. exact (parse_quote_key_two k k2). Qed.
Print Assumptions c13_quote_key_nested.
