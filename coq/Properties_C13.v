(* Property C13: the property tree behaves like a map/list/scalar document model.
   Theorems only; the definitions are the byte-level model LV.PropTree.PropModel (tied to
   src/vnaproperty.c by the op-script correspondence of checks/C13.py) and the abstract document
   LV.PropTree.DocSpec. *)
Require Import List NArith ZArith Bool.
Import ListNotations.
Require Import LV.PropTree.PropModel LV.PropTree.DocSpec LV.PropTree.PropProofs LV.PropTree.QuoteProofs
        LV.PropTree.RebuildProofs LV.PropTree.ApiProofs LV.PropTree.WfProofs LV.PropTree.CopyProofs
        LV.PropTree.DescGrammar LV.PropTree.GrammarProofs LV.PropTree.FrameProofs.

(* For every sequence of set / delete / get / type / count / keys / get_subtree / set_subtree
   operations (including the compound "set_subtree, then set / delete on the returned anchor") the
   abstraction of the model state is the state of the abstract document and every outcome
   (return value, errno class, payload) is the one the documented rules give. *)
Theorem c13_prop_refines_doc_nocopy (ops : list op) (s : state) :
  forallb (fun o => negb (is_copy o)) ops = true ->
  d_run (abs_state s) ops = (abs_state (fst (run s ops)), map abs_out (snd (run s ops))).
Proof. exact (sim_run_nocopy ops s). Qed.
Print Assumptions c13_prop_refines_doc_nocopy.

(* vnaproperty_quote_key: for every non-empty key k (any bytes) the scanner reads the quoted
   form back as the identifier k, whatever follows, as long as what follows does not start with an
   identifier character. *)
Theorem c13_quote_key_scans_as_key (k r : bytes) :
  k <> [] -> stops r -> scan (quote_key k ++ r) = (T_ID k, r).
Proof. exact (scan_quote_key k r). Qed.
Print Assumptions c13_quote_key_scans_as_key.

Theorem c13_quote_key_addresses_key (k : bytes) :
  k <> [] -> parse (quote_key k) = Some ([E_MAP_ELEMENT k], T_EOF, []).
Proof. exact (parse_quote_key k). Qed.
Print Assumptions c13_quote_key_addresses_key.

Theorem c13_quote_key_assign (k v : bytes) :
  k <> [] -> parse (quote_key k ++ 61%N :: v) = Some ([E_MAP_ELEMENT k], T_ASSIGN, v).
Proof. exact (parse_quote_key_assign k v). Qed.
Print Assumptions c13_quote_key_assign.

Theorem c13_quote_key_hash (k v : bytes) :
  k <> [] -> parse (quote_key k ++ 35%N :: v) = Some ([E_MAP_ELEMENT k], T_HASH, v).
Proof. exact (parse_quote_key_hash k v). Qed.
Print Assumptions c13_quote_key_hash.

Theorem c13_quote_key_trailing_dot (k : bytes) :
  k <> [] -> parse (quote_key k ++ [46%N]) = Some ([E_MAP_ELEMENT k; E_DOT], T_EOF, []).
Proof. exact (parse_quote_key_dot k). Qed.
Print Assumptions c13_quote_key_trailing_dot.

Theorem c13_quote_key_abstract_map (k : bytes) :
  k <> [] -> parse (quote_key k ++ [123%N; 125%N]) = Some ([E_MAP_ELEMENT k; E_MAP], T_EOF, []).
Proof. exact (parse_quote_key_map k). Qed.
Print Assumptions c13_quote_key_abstract_map.

Theorem c13_quote_key_nested (k k2 : bytes) :
  k <> [] -> k2 <> [] ->
  parse (quote_key k ++ 46%N :: quote_key k2) = Some ([E_MAP_ELEMENT k; E_MAP_ELEMENT k2], T_EOF, []).
Proof. exact (parse_quote_key_two k k2). Qed.
Print Assumptions c13_quote_key_nested.

(* ---------------------------------------------------------------- operation sequences with copy.
   prop_refines_doc: for EVERY op sequence - vnaproperty_copy out of and into subtrees included, and
   the ALIASED copy OCopyWithin d d2 (p = set_subtree(&root, d); s = get_subtree(root, d2);
   vnaproperty_copy(p, s): source inside the destination, destination inside the source, equal,
   disjoint, absent source, destination created by the call) -
   started from the empty state (or from any well-formed state), during which no list reaches
   2^31 - 1 elements (lens_run; beyond that "%d" of an index no longer reads back and
   vnaproperty_count cannot represent the length), the abstraction of the model state is the
   abstract document's state and every outcome is the specification's. *)
Theorem c13_prop_refines_doc (ops : list op) :
  lens_run init_state ops ->
  d_run d_init ops = (abs_state (fst (run init_state ops)), map abs_out (snd (run init_state ops))).
Proof. exact (sim_run_from_empty ops). Qed.
Print Assumptions c13_prop_refines_doc.

Theorem c13_prop_refines_doc_from (ops : list op) (s : state) :
  wf_state s -> lens_run s ops ->
  d_run (abs_state s) ops = (abs_state (fst (run s ops)), map abs_out (snd (run s ops))).
Proof. exact (sim_run_full ops s). Qed.
Print Assumptions c13_prop_refines_doc_from.

(* the hypothesis is met by a script with sets, an append, set_subtree, copies, a delete and five aliased
   copies (source inside destination, destination inside source, source = destination, missing source,
   destination created by an append with the whole tree as source) *)
Theorem c13_prop_refines_doc_satisfiable : lens_run init_state example_ops.
Proof. exact lens_run_example. Qed.
Print Assumptions c13_prop_refines_doc_satisfiable.

(* invariant behind it: every operation keeps map keys non-empty and pairwise distinct *)
Theorem c13_wellformed_invariant (s : state) (o : op) :
  wf_state s -> lens_state (fst (step s o)) -> wf_state (fst (step s o)).
Proof. exact (step_wf s o). Qed.
Print Assumptions c13_wellformed_invariant.

(* every key the descriptor parser produces is non-empty *)
Theorem c13_parsed_keys_nonempty (d : bytes) es t r : parse d = Some (es, t, r) -> Forall key_ok es.
Proof. exact (parse_keys d es t r). Qed.
Print Assumptions c13_parsed_keys_nonempty.

(* vnaproperty_copy is a deep copy (DP1 fixed): whatever the destination held, for every
   well-formed source, including empty maps and lists at any depth. *)
Theorem c13_copy_is_deep_copy (dest src : node) : wf src -> abs (copy dest src) = abs src.
Proof. exact (copy_abs dest src). Qed.
Print Assumptions c13_copy_is_deep_copy.

(* ---------------------------------------------------------------- the aliased copy (fix D71).
   One step of the refinement for OCopyWithin (it is one case of c13_prop_refines_doc): the document rule
   is "conform the path of d; the value at d becomes the value that d2 had in the conformed document
   (null when absent); nothing else changes". *)
Theorem c13_copy_within_refines_doc (s : state) (d d2 : bytes) :
  wf_state s -> lens_state (fst (step s (OCopyWithin d d2))) ->
  d_step (abs_state s) (OCopyWithin d d2)
  = (abs_state (fst (step s (OCopyWithin d d2))), abs_out (snd (step s (OCopyWithin d d2)))).
Proof. exact (sim_step s (OCopyWithin d d2)). Qed.
Print Assumptions c13_copy_within_refines_doc.

(* the walk that conforms the destination path is the same whatever is stored at its end (this is why
   the model may run it once to find the conformed tree and once to store the copy) *)
Theorem c13_set_walk_independent_of_stored_value {A B} (es : list expr)
        (fin : node -> node * A) (fin' : node -> node * B) (n : node) :
  map_inr (fun _ => tt) (snd (descend_set es fin n)) = map_inr (fun _ => tt) (snd (descend_set es fin' n)).
Proof. exact (descend_set_result_indep es fin fin' n). Qed.
Print Assumptions c13_set_walk_independent_of_stored_value.

(* every destination path of keys / in-range subscripts, EVERY source descriptor: the call succeeds and
   the destination then reads back as the document the source had before the copy *)
Theorem c13_copy_within_reads_back (root : node) (d d2 : bytes) pd rd :
  wf root -> parse d = Some (pd, T_EOF, rd) -> Forall plain_step pd ->
  lens (fst (copy_within root d d2)) ->
  exists a c, descend_get pd (fst (vset_subtree root d)) = inr a /\
              descend_get pd (fst (copy_within root d d2)) = inr c /\
              abs c = abs (source_of (fst (vset_subtree root d)) d2) /\
              snd (copy_within root d d2) = ok0.
Proof. exact (copy_within_reads_back root d d2 pd rd). Qed.
Print Assumptions c13_copy_within_reads_back.

(* source inside the destination, vnaproperty_copy(&root.a, root.a.b): the destination becomes the old
   inner value (before D71: use after free) *)
Theorem c13_copy_source_inside_destination (root : node) (d d2 : bytes) pd ps rd rs :
  wf root -> parse d = Some (pd, T_EOF, rd) -> Forall plain_step pd ->
  parse d2 = Some (pd ++ ps, T_EOF, rs) ->
  lens (fst (copy_within root d d2)) ->
  exists a c, descend_get pd (fst (vset_subtree root d)) = inr a /\
              descend_get pd (fst (copy_within root d d2)) = inr c /\
              abs c = abs (match descend_get ps a with inr n => n | inl _ => NNull end) /\
              snd (copy_within root d d2) = ok0.
Proof. exact (copy_source_inside_destination root d d2 pd ps rd rs). Qed.
Print Assumptions c13_copy_source_inside_destination.

Theorem c13_copy_source_inside_destination_example :
  wf ex_root /\ parse [97]%N = Some ([E_MAP_ELEMENT [97]%N], T_EOF, []) /\ Forall plain_step [E_MAP_ELEMENT [97]%N] /\
  parse [97; 46; 98]%N = Some ([E_MAP_ELEMENT [97]%N] ++ [E_MAP_ELEMENT [98]%N], T_EOF, []) /\
  lens (fst (copy_within ex_root [97]%N [97; 46; 98]%N)) /\
  copy_within ex_root [97]%N [97; 46; 98]%N = (NMap [([97]%N, NScalar [120]%N)], ok0).
Proof. exact copy_source_inside_destination_example. Qed.
Print Assumptions c13_copy_source_inside_destination_example.

(* destination inside the source, vnaproperty_copy(&root.a.b, root.a): the destination becomes a finite
   snapshot of the old source; inside the snapshot the destination path holds the OLD destination value
   (before D71: unbounded recursion) *)
Theorem c13_copy_destination_inside_source (root : node) (d d2 : bytes) ps pd rd rs :
  wf root -> parse d2 = Some (ps, T_EOF, rs) -> parse d = Some (ps ++ pd, T_EOF, rd) ->
  Forall plain_step (ps ++ pd) ->
  lens (fst (copy_within root d d2)) ->
  exists s a c, descend_get ps (fst (vset_subtree root d)) = inr s /\
                descend_get pd s = inr a /\
                descend_get (ps ++ pd) (fst (copy_within root d d2)) = inr c /\
                abs c = abs s /\
                doc_get pd (abs c) = inr (abs a) /\
                snd (copy_within root d d2) = ok0.
Proof. exact (copy_destination_inside_source root d d2 ps pd rd rs). Qed.
Print Assumptions c13_copy_destination_inside_source.

Theorem c13_copy_destination_inside_source_example :
  wf ex_root /\ parse [97]%N = Some ([E_MAP_ELEMENT [97]%N], T_EOF, []) /\
  parse [97; 46; 98]%N = Some ([E_MAP_ELEMENT [97]%N] ++ [E_MAP_ELEMENT [98]%N], T_EOF, []) /\
  Forall plain_step ([E_MAP_ELEMENT [97]%N] ++ [E_MAP_ELEMENT [98]%N]) /\
  lens (fst (copy_within ex_root [97; 46; 98]%N [97]%N)) /\
  copy_within ex_root [97; 46; 98]%N [97]%N
  = (NMap [([97], NMap [([98], NMap [([98], NScalar [120]); ([107], NScalar [121])]); ([107], NScalar [121])])]%N, ok0).
Proof. exact copy_destination_inside_source_example. Qed.
Print Assumptions c13_copy_destination_inside_source_example.

(* source = destination; absent source (destination becomes null); destination created by "[+]" with the
   whole list as source; a destination path that cannot be created (EINVAL, the source is not looked up) *)
Theorem c13_copy_within_more_examples :
  copy_within ex_root [97]%N [97]%N = (ex_root, ok0) /\
  copy_within ex_root [97; 46; 98]%N [113]%N
  = (NMap [([97], NMap [([98], NNull); ([107], NScalar [121])])]%N, ok0) /\
  copy_within (NList [NScalar [120]%N] 8) [91; 43; 93]%N [46]%N
  = (NList [NScalar [120]%N; NList [NScalar [120]%N; NNull] 8] 8, ok0) /\
  copy_within ex_root [122; 91; 50; 49; 52; 55; 52; 56; 51; 54; 52; 55; 93]%N [97]%N
  = (NMap [([97], NMap [([98], NScalar [120]); ([107], NScalar [121])]); ([122], NList [] 0)]%N, mkOut (-2) EINVAL PNone).
Proof. exact copy_within_more_examples. Qed.
Print Assumptions c13_copy_within_more_examples.

(* "[%d]" descriptors address exactly that index (used by copy and by the YAML importer) *)
Theorem c13_index_descriptor (i : nat) :
  (Z.of_nat i < 2147483648)%Z -> parse (index_desc i) = Some ([E_LIST_ELEMENT (Z.of_nat i)], T_EOF, []).
Proof. exact (parse_index_desc i). Qed.
Print Assumptions c13_index_descriptor.

(* ---------------------------------------------------------------- API-level statements *)
(* non-modifying calls never change the tree *)
Theorem c13_readonly_preserves (s : state) (o : op) : readonly o = true -> fst (step s o) = s.
Proof. exact (readonly_preserves s o). Qed.
Print Assumptions c13_readonly_preserves.

(* get after set, through the quoted key, for every non-empty key and every value *)
Theorem c13_get_after_set (root : node) (k v : bytes) :
  k <> [] ->
  vget (fst (vset root (quote_key k ++ 61%N :: v))) (quote_key k) = mkOut 0 E0 (PStr v)
  /\ snd (vset root (quote_key k ++ 61%N :: v)) = ok0.
Proof. exact (get_after_set_quoted root k v). Qed.
Print Assumptions c13_get_after_set.

(* ... and along every path of keys and in-range subscripts *)
Theorem c13_get_after_set_path (es : list expr) (n x : node) :
  Forall plain_step es ->
  descend_get es (fst (descend_set es (fun _ => (x, tt)) n)) = inr x
  /\ snd (descend_set es (fun _ => (x, tt)) n) = inr tt.
Proof. exact (get_set_path es n x). Qed.
Print Assumptions c13_get_after_set_path.

(* frame law: a set along one path changes nothing that could be read along a path branching off it
   (another key of the same map or another subscript of the same list, after any common prefix of key
   and subscript steps) - for every tree, every pair of such paths, every stored node / finishing action *)
Theorem c13_set_leaves_other_paths_unchanged {A} (es1 es2 : list expr) (fin : node -> node * A) (n v : node) :
  diverge es1 es2 ->
  descend_get es2 n = inr v ->
  descend_get es2 (fst (descend_set es1 fin n)) = inr v.
Proof. intros Hd. exact (set_frame es1 es2 Hd fin n v). Qed.
Print Assumptions c13_set_leaves_other_paths_unchanged.

(* the premises are met by a nested tree (and the set itself reads back) *)
Theorem c13_set_leaves_other_paths_unchanged_example :
  let n := NMap [([97%N], NList [NScalar [120%N]; NMap [([98%N], NScalar [121%N])]] 8)] in
  let es1 := [E_MAP_ELEMENT [97%N]; E_LIST_ELEMENT 1; E_MAP_ELEMENT [99%N]] in
  let es2 := [E_MAP_ELEMENT [97%N]; E_LIST_ELEMENT 1; E_MAP_ELEMENT [98%N]] in
  diverge es1 es2 /\ descend_get es2 n = inr (NScalar [121%N]) /\
  descend_get es2 (fst (descend_set es1 (fun _ => (NScalar [122%N], tt)) n)) = inr (NScalar [121%N]) /\
  descend_get es1 (fst (descend_set es1 (fun _ => (NScalar [122%N], tt)) n)) = inr (NScalar [122%N]).
Proof. exact set_frame_example. Qed.
Print Assumptions c13_set_leaves_other_paths_unchanged_example.

(* "the read path exists before the set" cannot be dropped: a set at [2] of a one-element list extends it
   with nulls, so [1] reads null afterwards where it was ENOENT before (documented behaviour) *)
Theorem c13_set_extends_list_with_nulls_example :
  let n := NList [NScalar [97%N]] 8 in
  diverge [E_LIST_ELEMENT 2] [E_LIST_ELEMENT 1] /\
  descend_get [E_LIST_ELEMENT 1] n = inl ENOENT /\
  descend_get [E_LIST_ELEMENT 1] (fst (descend_set [E_LIST_ELEMENT 2] (fun _ => (NScalar [98%N], tt)) n)) = inr NNull.
Proof. exact frame_needs_existing. Qed.
Print Assumptions c13_set_extends_list_with_nulls_example.

(* byte level, through quote_key: "k=v" leaves whatever the descriptor of another key finds unchanged
   (vget, vget_subtree, vtype, vcount and vkeys all read through get_node) *)
Theorem c13_set_leaves_other_keys_unchanged (root : node) (k k' v : bytes) (x : node) :
  k <> [] -> k' <> [] -> k' <> k ->
  get_node root (quote_key k') = inr x ->
  get_node (fst (vset root (quote_key k ++ 61%N :: v))) (quote_key k') = inr x.
Proof. exact (set_quoted_frame root k k' v x). Qed.
Print Assumptions c13_set_leaves_other_keys_unchanged.

(* frame law of delete: what vnaproperty_delete does to the tree once the path is found leaves every
   readable path that branches off unchanged; where the LAST step of the deleted path is a subscript the
   higher subscripts move down (c13_delete_shifts), so there only lower subscripts keep their position *)
Theorem c13_delete_leaves_other_paths_unchanged (es1 es2 : list expr) (n v : node) :
  diverge_del es1 es2 ->
  descend_get es2 n = inr v ->
  descend_get es2 (delete_at es1 n) = inr v.
Proof. intros Hd. exact (delete_frame es1 es2 Hd n v). Qed.
Print Assumptions c13_delete_leaves_other_paths_unchanged.

Theorem c13_delete_leaves_other_paths_unchanged_example :
  let n := NMap [([97%N], NList [NScalar [120%N]; NScalar [121%N]; NScalar [122%N]] 8); ([98%N], NScalar [119%N])] in
  let del := [E_MAP_ELEMENT [97%N]; E_LIST_ELEMENT 1] in
  diverge_del del [E_MAP_ELEMENT [97%N]; E_LIST_ELEMENT 0] /\
  diverge_del del [E_MAP_ELEMENT [98%N]] /\
  descend_get [E_MAP_ELEMENT [97%N]; E_LIST_ELEMENT 0] (delete_at del n) = inr (NScalar [120%N]) /\
  descend_get [E_MAP_ELEMENT [98%N]] (delete_at del n) = inr (NScalar [119%N]) /\
  descend_get [E_MAP_ELEMENT [97%N]; E_LIST_ELEMENT 1] (delete_at del n) = inr (NScalar [122%N]) /\
  descend_get [E_MAP_ELEMENT [97%N]; E_LIST_ELEMENT 2] (delete_at del n) = inl ENOENT.
Proof. exact delete_frame_example. Qed.
Print Assumptions c13_delete_leaves_other_paths_unchanged_example.

(* ... and the shift at any depth: after the deletion of element i of a list anywhere in the tree, what
   was readable below a higher subscript i' of that list is readable, unchanged, below i' - 1
   (c13_delete_shifts is the one-level case; the example above is an instance) *)
Theorem c13_delete_shifts_at_any_depth (p : list expr) (i i' : Z) (es' : list expr) (n v : node) :
  Forall plain_step p -> (0 <= i < i')%Z ->
  descend_get (p ++ E_LIST_ELEMENT i' :: es') n = inr v ->
  descend_get (p ++ E_LIST_ELEMENT (i' - 1) :: es') (delete_at (p ++ [E_LIST_ELEMENT i]) n) = inr v.
Proof. intros Hp. exact (delete_shift_path p Hp i i' es' n v). Qed.
Print Assumptions c13_delete_shifts_at_any_depth.

(* the insert form "path[i+]..." at any depth: what was readable below subscript i' of the list is readable,
   unchanged, below i' (i' < i) or i' + 1 (otherwise), for every finishing action; a refused subscript
   (INT_MAX) or one past the end (plain extension) moves nothing *)
Theorem c13_insert_shifts_at_any_depth {A} (p : list expr) (i i' : Z) (es' : list expr)
        (fin : node -> node * A) (n v : node) :
  Forall plain_step p -> (0 <= i)%Z ->
  descend_get (p ++ E_LIST_ELEMENT i' :: es') n = inr v ->
  descend_get (p ++ E_LIST_ELEMENT (if (i' <? i)%Z then i' else i' + 1) :: es')
              (fst (descend_set (p ++ [E_LIST_INSERT i]) fin n)) = inr v.
Proof. intros Hp. exact (insert_shift_path p Hp i i' es' fin n v). Qed.
Print Assumptions c13_insert_shifts_at_any_depth.

Theorem c13_insert_shifts_at_any_depth_example :
  let n := NMap [([97%N], NList [NScalar [120%N]; NScalar [121%N]] 8)] in
  let n' := fst (descend_set [E_MAP_ELEMENT [97%N]; E_LIST_INSERT 1] (fun _ => (NScalar [122%N], tt)) n) in
  descend_get [E_MAP_ELEMENT [97%N]; E_LIST_ELEMENT 0] n' = inr (NScalar [120%N]) /\
  descend_get [E_MAP_ELEMENT [97%N]; E_LIST_ELEMENT 1] n' = inr (NScalar [122%N]) /\
  descend_get [E_MAP_ELEMENT [97%N]; E_LIST_ELEMENT 2] n' = inr (NScalar [121%N]).
Proof. repeat split; reflexivity. Qed.
Print Assumptions c13_insert_shifts_at_any_depth_example.

(* delete removes the entry and shifts the higher indices down by one *)
Theorem c13_delete_shifts (i : nat) (vec : list node) (al j : nat) :
  (i < length vec)%nat ->
  delete_at [E_LIST_ELEMENT (Z.of_nat i)] (NList vec al) = NList (remove_nth i vec) al /\
  nth_error (remove_nth i vec) j = (if Nat.ltb j i then nth_error vec j else nth_error vec (S j)) /\
  length (remove_nth i vec) = pred (length vec).
Proof. exact (delete_shifts i vec al j). Qed.
Print Assumptions c13_delete_shifts.

(* [i+] inserts a null at i and shifts the rest up; [+] appends *)
Theorem c13_insert_shifts (i : nat) (vec : list node) (al j : nat) :
  (i < length vec)%nat ->
  list_insert vec al (Z.of_nat i) = Some (insert_nth i NNull vec, check_allocation al (S (length vec)), i) /\
  nth_error (insert_nth i NNull vec) j
  = (if Nat.ltb j i then nth_error vec j else if Nat.eqb j i then Some NNull else nth_error vec (pred j)).
Proof. exact (insert_shifts i vec al j). Qed.
Print Assumptions c13_insert_shifts.

Theorem c13_append_at_end (vec : list node) (al : nat) :
  list_append vec al = (vec ++ [NNull], check_allocation al (S (length vec)), length vec).
Proof. exact (append_at_end vec al). Qed.
Print Assumptions c13_append_at_end.

(* set replaces a conflicting node (anything that is not a map / not a list) by a fresh one *)
Theorem c13_set_replaces_conflict {A} (k : bytes) (es : list expr) (fin : node -> node * A) (n : node) :
  (forall kv, n <> NMap kv) ->
  fst (descend_set (E_MAP_ELEMENT k :: es) fin n) = NMap [(k, fst (descend_set es fin NNull))].
Proof. exact (set_replaces_conflict k es fin n). Qed.
Print Assumptions c13_set_replaces_conflict.

Theorem c13_set_replaces_conflict_list {A} (es : list expr) (fin : node -> node * A) (n : node) :
  (forall vec al, n <> NList vec al) ->
  fst (descend_set (E_LIST_ELEMENT 0 :: es) fin n) = NList [fst (descend_set es fin NNull)] 8.
Proof. exact (set_replaces_conflict_list es fin n). Qed.
Print Assumptions c13_set_replaces_conflict_list.

(* deleting "key" removes the entry, deleting "key." keeps the slot with a null value *)
Theorem c13_trailing_dot_keeps_slot (k : bytes) (kv : list (bytes * node)) (c : node) :
  lookup k kv = Some c ->
  delete_at [E_MAP_ELEMENT k] (NMap kv) = NMap (remove_key k kv) /\
  delete_at [E_MAP_ELEMENT k; E_DOT] (NMap kv) = NMap (update k NNull kv).
Proof. exact (delete_entry_vs_trailing_dot k kv c). Qed.
Print Assumptions c13_trailing_dot_keeps_slot.

(* ---------------------------------------------------------------- errors as documented *)
(* a malformed descriptor: EINVAL from every entry point, nothing changes *)
Theorem c13_malformed_descriptor_einval (root aux : node) (d : bytes) :
  parse d = None ->
  vget root d = fail EINVAL /\ vtype root d = fail EINVAL /\ vcount root d = fail EINVAL /\
  vkeys root d = fail EINVAL /\ vget_subtree root d = fail EINVAL /\
  vset root d = (root, fail EINVAL) /\ vdelete root d = (root, fail EINVAL) /\
  vset_subtree root d = (root, fail EINVAL) /\
  (forall o, In o [OSet d; ODel d; OGet d; OType d; OCount d; OKeys d; OGetSub d; OSetSub d] ->
             step (mkState root aux) o = (mkState root aux, fail EINVAL)).
Proof. exact (malformed_einval root aux d). Qed.
Print Assumptions c13_malformed_descriptor_einval.

(* a valid descriptor followed by trailing tokens is rejected by every entry point that takes
   no value, get_subtree included (D1 fixed), and nothing changes (D54 fixed) *)
Theorem c13_trailing_tokens_rejected (root : node) (d : bytes) es t r :
  parse d = Some (es, t, r) -> is_eof t = false ->
  is_error (vget root d) /\ is_error (vtype root d) /\ is_error (vcount root d) /\
  is_error (vkeys root d) /\ is_error (vget_subtree root d) /\
  (fst (vdelete root d) = root /\ is_error (snd (vdelete root d))) /\
  vset_subtree root d = (root, fail EINVAL).
Proof. exact (trailing_tokens_rejected root d es t r). Qed.
Print Assumptions c13_trailing_tokens_rejected.

(* a set that is refused (target is "{}" / "[]", or neither "=value" nor "#" follows) leaves the
   tree unchanged (D54 fixed) *)
Theorem c13_refused_set_unchanged (root : node) (d : bytes) es t rest :
  parse d = Some (es, t, rest) ->
  last_is_collection es = true \/ (t <> T_ASSIGN /\ t <> T_HASH) ->
  vset root d = (root, fail EINVAL).
Proof. exact (refused_set_unchanged root d es t rest). Qed.
Print Assumptions c13_refused_set_unchanged.

(* type mismatches give EINVAL, absent keys / indices and paths below a null give ENOENT,
   insert / append subscripts in non-modifying calls give EINVAL *)
Theorem c13_lookup_errors (k : bytes) (i : Z) es v kv vec al :
  descend_get (E_MAP_ELEMENT k :: es) (NScalar v) = inl EINVAL /\
  descend_get (E_MAP_ELEMENT k :: es) (NList vec al) = inl EINVAL /\
  descend_get (E_LIST_ELEMENT i :: es) (NScalar v) = inl EINVAL /\
  descend_get (E_LIST_ELEMENT i :: es) (NMap kv) = inl EINVAL /\
  descend_get (E_MAP :: es) (NList vec al) = inl EINVAL /\
  descend_get (E_LIST :: es) (NMap kv) = inl EINVAL /\
  (lookup k kv = None -> descend_get (E_MAP_ELEMENT k :: es) (NMap kv) = inl ENOENT) /\
  ((Z.of_nat (length vec) <= i)%Z -> descend_get (E_LIST_ELEMENT i :: es) (NList vec al) = inl ENOENT) /\
  descend_get (E_MAP_ELEMENT k :: es) NNull = inl ENOENT /\
  descend_get (E_LIST_ELEMENT i :: es) NNull = inl ENOENT /\
  descend_get (E_LIST_INSERT i :: es) (NList vec al) = inl EINVAL /\
  descend_get (E_LIST_APPEND :: es) (NList vec al) = inl EINVAL.
Proof. exact (lookup_errors k i es v kv vec al). Qed.
Print Assumptions c13_lookup_errors.

Theorem c13_value_kind_errors (root : node) (d : bytes) (n : node) :
  get_node root d = inr n ->
  (forall kv, n = NMap kv -> vget root d = fail EINVAL) /\
  (forall vec al, n = NList vec al -> vget root d = fail EINVAL /\ vkeys root d = fail EINVAL) /\
  (forall v, n = NScalar v -> vcount root d = fail EINVAL /\ vkeys root d = fail EINVAL).
Proof. exact (value_kind_errors root d n). Qed.
Print Assumptions c13_value_kind_errors.

(* every accepted descriptor is a non-empty path whose "{}", "[]" or trailing "." can only be
   the last element; the empty descriptor is refused *)
Theorem c13_parse_shape (d : bytes) es t r : parse d = Some (es, t, r) -> shape es.
Proof. exact (parse_shape d es t r). Qed.
Print Assumptions c13_parse_shape.

Theorem c13_empty_descriptor_refused : parse [] = None.
Proof. exact parse_empty. Qed.
Print Assumptions c13_empty_descriptor_refused.

(* identifiers written without backslashes: trailing spaces before the delimiter (or the end) are
   not part of the key, inner spaces are.  (c0 starts the identifier, l is its last character.) *)
Theorem c13_plain_trailing_spaces_trimmed (c0 : N) (k : bytes) (l : N) (n : nat) (r : bytes) :
  is_idchar1 c0 = true -> (c0 =? 92)%N = false ->
  Forall (fun c => is_idchar c = true /\ (c =? 92)%N = false) (k ++ [l]) -> (l =? 32)%N = false ->
  stops r ->
  scan ((c0 :: k ++ [l]) ++ repeat 32%N n ++ r) = (T_ID (c0 :: k ++ [l]), r).
Proof. exact (plain_trailing_spaces_trimmed c0 k l n r). Qed.
Print Assumptions c13_plain_trailing_spaces_trimmed.

(* with escapes the code's trim compares a destination index with a source index (D35): one
   unescaped trailing space survives here; the manual is silent, the model follows the code *)
Theorem c13_trim_after_escapes_example :
  scan [92; 46; 92; 46; 97; 32; 32]%N = (T_ID [46; 46; 97; 32]%N, []).
Proof. exact trim_after_escapes_example. Qed.
Print Assumptions c13_trim_after_escapes_example.

(* ---------------------------------------------------------------- the descriptor grammar.
   DescGrammar.denotes d es t r: d tokenises (scanner) into a token list that the declarative
   grammar of vnaproperty(3) ("Syntax of the Descriptor": optional leading dot, dot-separated keys
   and subscripts, optional ending ".", "{}", "[]") derives with denotation es, followed by the
   look-ahead token t and the unread bytes r.  For ALL byte strings the parser returns exactly
   that (soundness and completeness); it fails exactly when no prefix of d is a descriptor; the
   denotation is unique. *)
Theorem c13_descriptor_grammar (d : bytes) es t r :
  parse d = Some (es, t, r) <-> denotes d es t r.
Proof. exact (parse_iff_grammar d es t r). Qed.
Print Assumptions c13_descriptor_grammar.

Theorem c13_descriptor_grammar_rejects (d : bytes) :
  parse d = None <-> forall es t r, ~ denotes d es t r.
Proof. exact (parse_none_iff d). Qed.
Print Assumptions c13_descriptor_grammar_rejects.

(* fuel adequacy for every input: parse_loop with any fuel >= length d + 2 returns what parse returns, so
   parse's None always means "no prefix of d is a descriptor" and never "out of fuel" *)
Theorem c13_parse_fuel_adequate (d : bytes) (fuel : nat) :
  (S (S (length d)) <= fuel)%nat ->
  (let '(t, r) := scan d in parse_loop fuel P0 t r []) = parse d.
Proof. exact (parse_fuel_adequate d fuel). Qed.
Print Assumptions c13_parse_fuel_adequate.

Theorem c13_descriptor_denotation_unique (d : bytes) es t r es' t' r' :
  denotes d es t r -> denotes d es' t' r' -> es = es' /\ t = t' /\ r = r'.
Proof. exact (denotes_unique d es t r es' t' r'). Qed.
Print Assumptions c13_descriptor_denotation_unique.

(* the parser's own LL(1) grammar (four states) generates the same language as the manual's *)
Theorem c13_ll1_grammar_is_manual_grammar ts t es : G P0 ts t es <-> desc ts t es.
Proof. exact (G_desc ts t es). Qed.
Print Assumptions c13_ll1_grammar_is_manual_grammar.

(* ".a.b[2][+].{}=x" is in the language; "a..b" is not a descriptor followed by the end *)
Theorem c13_descriptor_grammar_example :
  denotes [46; 97; 46; 98; 91; 50; 93; 91; 43; 93; 46; 123; 125; 61; 120]%N
          [E_MAP_ELEMENT [97%N]; E_MAP_ELEMENT [98%N]; E_LIST_ELEMENT 2; E_LIST_APPEND; E_MAP] T_ASSIGN [120%N].
Proof. exact denotes_example. Qed.
Print Assumptions c13_descriptor_grammar_example.

(* ------------------------------------------------------------------ the hash table behind a map
   PropModel keeps the entries of a map node as an insertion-ordered association list and reaches
   them with [lookup], [update], [remove_key] and [kv ++ [(k, v)]].  The C code keeps them in a
   chained hash table (chains ordered by (hash value, strcmp), grown and rehashed in place by
   map_expand): LV.PropTree.HashModel, as coded, for an ARBITRARY hash function h : bytes -> N
   (nothing is assumed about h; the code uses CRC-32C, [crc32c]).  [a_step] is what descend_set /
   descend_get / delete_at do to the entries of one map node (set = look-up, then update or append;
   look-up; delete = look-up, then remove_key), [h_step] what map_subtree(add) / map_subtree(no add)
   / map_get / map_delete do to (vpm_hash_table, vpm_count).  For every h and every sequence of such
   operations on one map, started empty, the table answers "found" exactly when the association list
   does, and the two states stay related by Rep: same number of keys, the keys of the table are a
   permutation of the keys of the list, every chain strictly sorted and in the bucket its hash
   selects.  This discharges the clause "hash chains abstracted" per map node; the values stored
   under the keys and the order list (vnaproperty_keys) are the association list itself. *)
Require Import Permutation Sorted.
Require Import LV.PropTree.HashModel LV.PropTree.HashProofs.

Theorem c13_hash_table_refines_assoc_list :
  forall (h : bytes -> N) (A : Type) (ops : list (hop * A)) kv fa s fh,
  a_run [] ops = (kv, fa) -> h_run h h_empty (map fst ops) = (s, fh) ->
  fh = fa /\ Rep h kv s.
Proof. exact hash_refines_assoc_lemma. Qed.
Print Assumptions c13_hash_table_refines_assoc_list.

(* one operation from any related pair of states (the induction step; also covers maps that were
   built by other means, e.g. copy) *)
Theorem c13_hash_table_step :
  forall h A (kv : list (bytes * A)) s ov kv' fa s' fh, Rep h kv s ->
  a_step kv ov = (kv', fa) -> h_step h s (fst ov) = (s', fh) -> fh = fa /\ Rep h kv' s'.
Proof. exact Rep_step_eq. Qed.
Print Assumptions c13_hash_table_step.

(* what Rep gives: map_get / map_find_anchor find exactly the keys of the list; vpm_count is its length *)
Theorem c13_hash_table_finds_exactly_the_keys :
  forall h A (kv : list (bytes * A)) t count k, Rep h kv (t, count) ->
  (match t with [] => false | _ :: _ => t_found h k t end)
  = (match lookup k kv with Some _ => true | None => false end).
Proof. exact Rep_found. Qed.
Print Assumptions c13_hash_table_finds_exactly_the_keys.

Theorem c13_hash_table_keys :
  forall h A (kv : list (bytes * A)) t count, Rep h kv (t, count) ->
  count = length kv /\ Permutation (concat t) (map fst kv).
Proof. exact Rep_keys. Qed.
Print Assumptions c13_hash_table_keys.

(* map_expand (any count, any table whose chains are sorted and placed): the in-place rehash keeps
   every key, re-sorts every chain and ends with the new size *)
Theorem c13_map_expand_keeps_keys :
  forall h count t, table_ok h t -> NoDup (concat t) -> (length t <= new_size count)%nat ->
  table_ok h (t_expand h count t) /\
  Permutation (concat (t_expand h count t)) (concat t) /\
  length (t_expand h count t) = new_size count.
Proof. exact expand_keeps_keys. Qed.
Print Assumptions c13_map_expand_keeps_keys.

(* non-vacuity: all keys colliding (constant hash), and growth 0 -> 11 -> 33 buckets under CRC-32C *)
Theorem c13_hash_table_example_all_collide :
  let h := fun _ : bytes => 0%N in
  snd (h_run h h_empty (map fst const_script)) = snd (a_run [] const_script) /\
  snd (a_run [] const_script)
    = [false; false; true; false; true; true; false; false; false; true; true; false] /\
  map fst (fst (a_run [] const_script)) = [[98%N]; [99%N; 1%N]; [97%N]] /\
  fst (h_run h h_empty (map fst const_script))
    = ([[97%N]; [98%N]; [99%N; 1%N]] :: repeat [] 10, 3%nat).
Proof. exact hash_refines_const_hash. Qed.
Print Assumptions c13_hash_table_example_all_collide.

(* the chain order is what look-up relies on: in an unsorted chain a stored key is not found *)
Theorem c13_unsorted_chain_hides_key_refuted :
  exists (h : bytes -> N) (t : table) (k : bytes),
    ~ StronglySorted (fun a b => ecmp h a b = Lt) (nth (bucket h (length t) k) t []) /\
    In k (concat t) /\
    In k (nth (bucket h (length t) k) t []) /\
    (forall j e, (j < length t)%nat -> In e (nth j t []) -> bucket h (length t) e = j) /\
    NoDup (concat t) /\
    t_found h k t = false.
Proof. exact sorted_needed_refuted. Qed.
Print Assumptions c13_unsorted_chain_hides_key_refuted.
